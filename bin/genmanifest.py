#!/usr/bin/env python3
"""Regenerates /verif/MANIFEST.json from manifest_src.json + checks.tsv and validates it.
manifest_src.json: {"checks": {Cxx: {level_text, level_note, technique, design_ref, engine}}, "not_applicable": {Cxx: reason}}"""
import json, sys, os, subprocess
root = os.path.dirname(os.path.dirname(os.path.abspath(__file__)))
src = json.load(open(os.path.join(root, "manifest_src.json")))
props = [json.loads(l)["id"] for l in open(os.path.join(root, "properties.jsonl")) if l.strip()]
registered = {}
for l in open(os.path.join(root, "checks.tsv")):
    if l.strip() and not l.startswith("#"):
        p = l.split()
        registered[p[0]] = (p[1], p[2])
checks, na = [], []
for pid in props:
    c = src["checks"].get(pid)
    if c and pid in registered:
        kind, target = registered[pid]
        checks.append({
            "property_id": pid,
            "quick_cmd": f"bin/check {pid} quick",
            "thorough_cmd": f"bin/check {pid} thorough",
            "evidence_file": f"/verif/evidence/{pid}.json",
            "replay_cmd_template": f"bin/check {pid} --replay {{path}}",
            "engine": c.get("engine", "E1-enum" if kind == "plain" else "E2-vrt"),
            "level_claimed": {"category": c.get("category", "model_checking"), "text": c["level_text"], "design_ref": c.get("design_ref", "DESIGN.md §3 " + pid)},
            "level_note": c["level_note"],
            "technique": c["technique"],
        })
    else:
        na.append({"property_id": pid, "reason": src["not_applicable"].get(pid, "check not built yet in this session; not claimed (never claimed at a weaker, sampled level)")})
m = {
    "version": 1,
    "setup_cmd": "bin/setup",
    "hooks": src["hooks"],
    "engines": src["engines"],
    "checks": checks,
    "notes": src.get("notes", ""),
    "not_applicable": na,
}
json.dump(m, open(os.path.join(root, "MANIFEST.json"), "w"), indent=1)
try:
    import jsonschema
    jsonschema.validate(m, json.load(open("/root/.vp/MANIFEST.schema.json")))
    print("MANIFEST.json valid:", len(checks), "checks,", len(na), "not claimed")
except ImportError:
    print("jsonschema not available; not validated")
