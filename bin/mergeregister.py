#!/usr/bin/env python3
"""Merges harness/*/REGISTER.json manifest entries into manifest_src.json (entries already present are kept
unless --force), then regenerates MANIFEST.json."""
import json, glob, os, sys, subprocess
root = os.path.dirname(os.path.dirname(os.path.abspath(__file__)))
src_p = os.path.join(root, "manifest_src.json")
src = json.load(open(src_p))
force = "--force" in sys.argv
for f in sorted(glob.glob(os.path.join(root, "harness/*/REGISTER.json"))):
    try:
        reg = json.load(open(f))
    except Exception as e:
        print("skip", f, e); continue
    for pid, m in (reg.get("manifest") or {}).items():
        if pid in src["checks"] and not force:
            continue
        src["checks"][pid] = {k: m[k] for k in ("level_text", "level_note", "technique") if k in m}
        print("merged", pid, "from", os.path.relpath(f, root))
json.dump(src, open(src_p, "w"), indent=1)
subprocess.run([sys.executable, os.path.join(root, "bin/genmanifest.py")], check=True)
