#!/usr/bin/env python3
"""bin/prune_known.py Cxx ...: drop `known` lines of the given properties that were hit neither by the last quick nor by
the last thorough sweep (/tmp/ev-quick-<id>.json, /tmp/ev-thorough-<id>.json). Run after the defects were repaired."""
import json,sys,os
ids=sys.argv[1:]
hit={}
for i in ids:
    h=set(); ok=0
    for t in ('quick','thorough'):
        p=f'/tmp/ev-{t}-{i}.json'
        if os.path.exists(p):
            ok+=1
            h|=set(json.load(open(p))['coverage'].get('known_findings_hit') or [])
    if ok<2:
        print('skip',i,'(needs both sweeps)'); continue
    hit[i]=h
out=[];dropped={}
for l in open('/verif/known_findings.jsonl'):
    if not l.strip(): continue
    d=json.loads(l)
    if d['status']=='known' and d['property'] in hit and d['signature'] not in hit[d['property']]:
        dropped[d['property']]=dropped.get(d['property'],0)+1
        continue
    out.append(l if l.endswith('\n') else l+'\n')
open('/verif/known_findings.jsonl','w').writelines(out)
print('dropped',dropped,'kept',len(out))
