package chanx

import (
	"context"
	"fmt"
	"time"

	"github.com/gopcua/opcua/ua"
	"github.com/gopcua/opcua/uasc"
	"verifrt/driver"
	"verifrt/vnet"
	"verifrt/vrt"
)

// C19: a request whose response does not arrive returns an error within its
// timeout plus the documented leniency (or when its context ends), releases its
// pending slot, and leaves the channel able to deliver all later responses,
// including when the late response arrives exactly as the timeout fires.

const (
	c19Timeout  = time.Second
	c19Leniency = 250 * time.Millisecond // timeoutLeniency in uasc
)

type c19Params struct {
	Op       string `json:"op"`        // request | renew
	Answer   string `json:"answer"`    // never | early | at-timeout | at-deadline | after-deadline
	CancelMs int    `json:"cancel_ms"` // >=0: the caller's context is cancelled after this many virtual ms; -1: never
	Renew    bool   `json:"renew_before_follow_up"` // the follow-up is preceded by a token renewal (which waits for pending requests)
}

type c19Obs struct {
	err1, err2 error
	d1, d2     time.Duration
	handlers1  int // pending slots right after the first call returned
	handlers2  int
	done       bool
	got2       uint32 // node id named by the response the follow-up was handed
	errRenew   error
}

var c19obs *c19Obs

func c19Body(p c19Params) func() {
	return func() {
		obs := &c19Obs{}
		c19obs = obs
		bg := context.Background()
		drop := false
		srv := &echoServer{cfg: noneCfg(3600000, 0)}
		srv.respond = func(s *echoServer, ctx context.Context, msg *uasc.MessageBody) {
			if drop {
				return
			}
			s.answer(ctx, msg)
		}
		sc, _ := pair(bg, srv, noneCfg(3600000, c19Timeout))
		vrt.Settle()
		var srvConn *vnet.TCPConn
		for _, c := range vnet.Net().Conns {
			if c.LocalAddr().String() == "127.0.0.1:4840" {
				srvConn = c
			}
		}
		switch p.Answer {
		case "never":
			drop = true // the scripted part of the server ignores ordinary requests
			srvConn.SetLatency(time.Hour)
		case "at-timeout":
			srvConn.SetLatency(c19Timeout)
		case "at-deadline":
			srvConn.SetLatency(c19Timeout + c19Leniency)
		case "after-deadline":
			srvConn.SetLatency(c19Timeout + c19Leniency + 100*time.Millisecond)
		}
		ctx, cancel := context.WithCancel(bg)
		defer cancel()
		vrt.BeginWindow()
		if p.CancelMs >= 0 {
			go func() {
				time.Sleep(time.Duration(p.CancelMs) * time.Millisecond)
				cancel()
			}()
		}
		t0 := time.Now()
		if p.Op == "renew" {
			obs.err1 = sc.Renew(ctx)
		} else {
			obs.err1 = sc.SendRequest(ctx, readReq(1), nil, func(ua.Response) error { return nil })
		}
		obs.d1 = time.Since(t0)
		vrt.EndWindow()
		obs.handlers1 = sc.VerifE2Handlers()
		// everything still in flight is delivered and dealt with before the follow-up
		time.Sleep(5 * time.Second)
		drop = false
		srvConn.SetLatency(0)
		if p.Renew {
			obs.errRenew = sc.Renew(bg)
		}
		t1 := time.Now()
		rq2 := readReq(2)
		rq2.NodesToRead[0].NodeID = ua.NewNumericNodeID(0, 4242)
		obs.err2 = sc.SendRequest(bg, rq2, nil, func(r ua.Response) error { obs.got2 = echoedNode(r); return nil })
		obs.d2 = time.Since(t1)
		obs.handlers2 = sc.VerifE2Handlers()
		obs.done = true
	}
}

func c19Check(p c19Params) func(x *vrt.Exec) (string, string, string) {
	tag := fmt.Sprintf("c19/op=%s/answer=%s/cancel=%v", p.Op, p.Answer, p.CancelMs >= 0)
	if p.Renew {
		tag += "/then-renew"
	}
	return func(x *vrt.Exec) (string, string, string) {
		if out, sig, detail, failed := fail(x); failed {
			if sig != "" {
				sig = tag + "/" + sig
			}
			return out, sig, detail
		}
		o := c19obs
		out := fmt.Sprintf("first=%v after %v; follow-up=%v", o.err1, o.d1, o.err2)
		detail := fmt.Sprintf("first call: err=%v after %v (timeout %v + leniency %v), pending slots afterwards=%d; follow-up: err=%v after %v, pending slots=%d",
			o.err1, o.d1, c19Timeout, c19Leniency, o.handlers1, o.err2, o.d2, o.handlers2)
		switch {
		case !o.done:
			return out, tag + "/scenario-did-not-finish", detail
		case o.d1 > c19Timeout+c19Leniency:
			return out, tag + "/returned-after-timeout-plus-leniency", detail
		case o.err1 == nil && (p.Answer == "never" || p.Answer == "after-deadline"):
			return out, tag + "/no-error-although-no-response-arrived-in-time", detail
		case o.handlers1 != 0:
			return out, tag + "/pending-slot-not-released", detail
		case o.errRenew != nil:
			return out, tag + "/later-renewal-fails", detail + fmt.Sprintf("; renewal before the follow-up: %v", o.errRenew)
		case o.err2 != nil:
			return out, tag + "/later-request-not-answered", detail
		case o.got2 != 4242:
			return out, tag + "/later-request-handed-another-response", detail + fmt.Sprintf("; the follow-up asked for node 4242 and was handed the response for node %d", o.got2)
		case o.handlers2 != 0:
			return out, tag + "/pending-slot-not-released-by-follow-up", detail
		}
		return out, "", ""
	}
}

func c19Scenarios(thorough bool) []driver.Scenario {
	var out []driver.Scenario
	add := func(p c19Params, bound int) {
		out = append(out, driver.Scenario{
			Name:   fmt.Sprintf("c19/op=%s/answer=%s/cancel_ms=%d/renew=%v", p.Op, p.Answer, p.CancelMs, p.Renew),
			Params: p, Cfg: vrt.Config{Horizon: int64(30 * time.Minute), SelectDeviations: true},
			Body: c19Body(p), Check: c19Check(p), Bound: bound,
		})
	}
	bound := 1
	if thorough {
		bound = 2
	}
	for _, op := range []string{"request", "renew"} {
		for _, ans := range []string{"at-deadline", "never", "early", "at-timeout", "after-deadline"} {
			add(c19Params{Op: op, Answer: ans, CancelMs: -1}, bound)
		}
		cancels := []int{0, 1000, 1250}
		if thorough {
			cancels = []int{0, 500, 1000, 1250}
		}
		for _, c := range cancels {
			add(c19Params{Op: op, Answer: "never", CancelMs: c}, bound)
			add(c19Params{Op: op, Answer: "at-deadline", CancelMs: c}, bound)
		}
		// a failed or timed-out call followed by a renewal: the renewal waits for pending requests
		add(c19Params{Op: op, Answer: "never", CancelMs: 0, Renew: true}, bound)
		add(c19Params{Op: op, Answer: "never", CancelMs: -1, Renew: true}, bound)
		add(c19Params{Op: op, Answer: "at-deadline", CancelMs: -1, Renew: true}, bound)
	}
	return out
}
