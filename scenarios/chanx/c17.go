package chanx

import (
	"os"
	"context"
	"fmt"
	"time"

	"github.com/gopcua/opcua/ua"
	"github.com/gopcua/opcua/uapolicy"
	"github.com/gopcua/opcua/uasc"
	"verif/engine/keys"
	"verifrt/driver"
	"verifrt/vrt"
)

// C17: once a security token has been replaced and its lifetime plus the 25 %
// grace period has elapsed, a chunk protected with that token's keys is
// rejected by the receiver, even if it is otherwise well-formed and carries a
// fresh sequence number.

func securedCfgs(policy string, mode ua.MessageSecurityMode, lifetime uint32, timeout time.Duration) (client, server *uasc.Config) {
	ck, err := keys.Load(2048, "a")
	if err != nil {
		panic(err)
	}
	sk, err := keys.Load(2048, "b")
	if err != nil {
		panic(err)
	}
	client = &uasc.Config{SecurityPolicyURI: policy, SecurityMode: mode, Lifetime: lifetime, RequestTimeout: timeout,
		LocalKey: ck.Key, Certificate: ck.CertDER, RemoteCertificate: sk.CertDER, Thumbprint: uapolicy.Thumbprint(sk.CertDER)}
	server = &uasc.Config{SecurityPolicyURI: policy, SecurityMode: mode, Lifetime: lifetime,
		LocalKey: sk.Key, Certificate: sk.CertDER}
	return
}

type c17Params struct {
	Mode       string `json:"mode"` // Sign | SignAndEncrypt
	LifetimeMs uint32 `json:"lifetime_ms"`
	Token      int    `json:"token"`     // which token's keys protect the injected chunk (0 = first)
	InjectMs   int    `json:"inject_ms"` // virtual time of the injection
	RequestMs  uint32 `json:"requested_lifetime_ms"` // >0: the client asks for this lifetime and the server revises it down to lifetime_ms
}

type c17Obs struct {
	rejected   bool
	rejectErr  string
	injectErr  string
	renewalsAt []time.Duration // when the server installed a new token (observed through its algo changing)
	tokens     int
	done       bool
	lateErr    string
	noEnv      bool // the revising server could not be arranged on this tree
}

var c17obs *c17Obs

func c17Body(p c17Params) func() {
	return func() {
		obs := &c17Obs{}
		c17obs = obs
		bg := context.Background()
		mode := ua.MessageSecurityModeSign
		if p.Mode == "SignAndEncrypt" {
			mode = ua.MessageSecurityModeSignAndEncrypt
		}
		ccfg, scfg := securedCfgs(ua.SecurityPolicyURIBasic256Sha256, mode, p.LifetimeMs, 10*time.Second)
		uasc.VerifEnvReviseLifetime = nil
		if p.RequestMs > 0 {
			if os.Getenv("VERIF_ENV_REVISE") != "installed" {
				obs.noEnv = true
				return
			}
			ccfg.Lifetime = p.RequestMs
			uasc.VerifEnvReviseLifetime = func(uint32) uint32 { return p.LifetimeMs }
		}
		srv := &echoServer{cfg: scfg}
		_, errch := pair(bg, srv, ccfg)
		injected := false
		go func() {
			for err := range errch {
				if err == nil {
					continue
				}
				if injected && !obs.rejected {
					obs.rejected, obs.rejectErr = true, err.Error()
				} else if !injected {
					obs.lateErr = err.Error()
				}
			}
		}()
		vrt.Settle()
		// remember the crypto state of every token the server ever used
		algos := []*uapolicy.EncryptionAlgorithm{srv.sc.VerifE2ActiveAlgo()}
		start := time.Now()
		step := 50 * time.Millisecond
		target := time.Duration(p.InjectMs) * time.Millisecond
		for time.Since(start) < target {
			time.Sleep(step)
			if a := srv.sc.VerifE2ActiveAlgo(); a != algos[len(algos)-1] {
				algos = append(algos, a)
				obs.renewalsAt = append(obs.renewalsAt, time.Since(start))
			}
		}
		obs.tokens = len(algos)
		if p.Token < len(algos) {
			injected = true
			resp := &ua.ReadResponse{ResponseHeader: respHeader(777777), Results: []*ua.DataValue{}, DiagnosticInfos: []*ua.DiagnosticInfo{}}
			if err := srv.sc.VerifE2SendWithAlgo(bg, algos[p.Token], 777777, resp); err != nil {
				obs.injectErr = err.Error()
			}
			time.Sleep(200 * time.Millisecond) // the client reads and judges the chunk
		}
		obs.done = true
	}
}

func c17Check(p c17Params) func(x *vrt.Exec) (string, string, string) {
	tag := fmt.Sprintf("c17/%s/lifetime=%dms/token=%d", p.Mode, p.LifetimeMs, p.Token)
	if p.RequestMs > 0 {
		tag += fmt.Sprintf("/revised-down-from=%dms", p.RequestMs)
	}
	life := time.Duration(p.LifetimeMs) * time.Millisecond
	return func(x *vrt.Exec) (string, string, string) {
		if out, sig, detail, failed := fail(x); failed {
			if sig != "" {
				sig = tag + "/" + sig
			}
			return out, sig, detail
		}
		o := c17obs
		at := time.Duration(p.InjectMs) * time.Millisecond
		detail := fmt.Sprintf("injection at %v of a fresh chunk protected with the keys of token %d; server installed new tokens at %v; rejected=%v (%s) inject error=%q", at, p.Token, o.renewalsAt, o.rejected, o.rejectErr, o.injectErr)
		if o.noEnv {
			return "no-revising-server", "", ""
		}
		if !o.done {
			return "unfinished", tag + "/scenario-did-not-finish", detail
		}
		if p.Token >= o.tokens || o.injectErr != "" {
			return "not-injected", "", ""
		}
		// token k was created at the (k-1)-th renewal (token 0 at time 0) and replaced at the k-th renewal
		created := time.Duration(0)
		if p.Token > 0 {
			created = o.renewalsAt[p.Token-1]
		}
		replaced := p.Token < o.tokens-1
		expired := replaced && at > created+life+life/4+100*time.Millisecond // 100 ms: detection granularity of this scenario
		label := "in-use"
		switch {
		case expired:
			label = "expired"
		case replaced:
			label = "replaced-in-grace"
		}
		out := fmt.Sprintf("%s rejected=%v", label, o.rejected)
		if expired && !o.rejected {
			return out, tag + "/expired-token-accepted", detail
		}
		if label == "in-use" && o.rejected {
			// not C17's statement, but it means the scenario's injection itself is broken: report as engine problem
			return out, tag + "/engine/current-token-rejected", detail
		}
		return out, "", ""
	}
}

func c17Scenarios(thorough bool) []driver.Scenario {
	var out []driver.Scenario
	add := func(p c17Params) {
		out = append(out, driver.Scenario{
			Name:   fmt.Sprintf("c17/%s/lifetime_ms=%d/token=%d/inject_ms=%d/requested_ms=%d", p.Mode, p.LifetimeMs, p.Token, p.InjectMs, p.RequestMs),
			Params: p, Cfg: vrt.Config{Horizon: int64(time.Hour), MaxSteps: 40000},
			Body: c17Body(p), Check: c17Check(p), Sequential: true,
		})
	}
	modes := []string{"Sign"}
	lifetimes := []uint32{2000}
	if thorough {
		modes = []string{"Sign", "SignAndEncrypt"}
		lifetimes = []uint32{2000, 4000, 1000}
	}
	for _, m := range modes {
		for _, l := range lifetimes {
			L := int(l)
			// histories with one and two renewals; injections before renewal, in the grace period, around expiry, long after
			for _, inj := range []int{L / 4, L * 85 / 100, L * 110 / 100, L*125/100 - 60, L*125/100 + 160, L * 150 / 100, L * 210 / 100, L * 3} {
				add(c17Params{Mode: m, LifetimeMs: l, Token: 0, InjectMs: inj})
			}
			for _, inj := range []int{L * 110 / 100, L * 2, L*2 + 160 + L/4, L * 3, L * 4} {
				add(c17Params{Mode: m, LifetimeMs: l, Token: 1, InjectMs: inj})
			}
			// the server grants less than the client asked for: the granted lifetime is the one that counts
			for _, inj := range []int{L * 110 / 100, L*125/100 + 160, L * 150 / 100, L * 3, L * 6} {
				add(c17Params{Mode: m, LifetimeMs: l, Token: 0, InjectMs: inj, RequestMs: 4 * l})
			}
		}
	}
	return out
}
