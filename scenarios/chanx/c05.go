package chanx

import (
	"context"
	"encoding/binary"
	"fmt"
	"sync"
	"time"

	"github.com/gopcua/opcua/uacp"
	"verif/engine/evid"
	"verifrt/driver"
	"verifrt/vnet"
	"verifrt/vrt"
)

// C05: over an established UA-TCP connection the receiver yields exactly the
// frames the peer sent, byte for byte and in order, however the byte stream is
// split into TCP segments; a frame whose declared size is below the header size
// or above the negotiated receive buffer produces an error, never a panic, a
// hang or a partially delivered frame.

const c05R = 8192 // negotiated receive buffer of the receiver under test

type c05Frame struct {
	Type string `json:"type"` // 4 bytes: message type + chunk type
	Size int    `json:"size"` // declared size
	Body int    `json:"body"` // bytes actually following the header
}

func (f c05Frame) bytes(seed int) []byte {
	b := make([]byte, 8+f.Body)
	copy(b, f.Type)
	binary.LittleEndian.PutUint32(b[4:], uint32(f.Size))
	for i := 8; i < len(b); i++ {
		b[i] = byte(seed*31 + i*7)
	}
	return b
}

type c05Params struct {
	Side   string     `json:"receiver"` // server | client
	Frames []c05Frame `json:"frames"`
	MaxCut int        `json:"max_cuts"`
	Free   bool       `json:"free_running"` // writer and reader run concurrently (schedules explored) instead of segment-by-segment
}

type c05Case struct {
	Cuts []int  `json:"cuts"`
	Sig  string `json:"sig,omitempty"`
	Det  string `json:"detail,omitempty"`
}

type c05Obs struct {
	cases    int
	keys     []uint64
	firstBad *c05Case
	badCount int
}

var c05obs *c05Obs

// expected result of reading the stream with a conforming framing layer
func c05Expect(frames []c05Frame) (want [][]byte, stream []byte, endsWithError bool) {
	for i, f := range frames {
		b := f.bytes(i)
		stream = append(stream, b...)
		if endsWithError {
			continue
		}
		switch {
		case f.Size < 8 || f.Size > c05R:
			endsWithError = true
		case f.Size != len(b):
			endsWithError = true // the stream ends (or continues with garbage) inside this frame
		case f.Type[:3] == "ERR":
			endsWithError = true // an ERR frame is reported as an error, not delivered as data
		default:
			want = append(want, b)
		}
	}
	return
}

// c05Run delivers the stream to a fresh connection cut at the given offsets and compares what Receive returns.
func c05Run(ctx context.Context, l *uacp.Listener, p c05Params, cuts []int) (sig, detail string) {
	var srvConn *uacp.Conn
	var acceptErr error
	var wg sync.WaitGroup
	wg.Add(1)
	go func() {
		defer wg.Done()
		srvConn, acceptErr = l.Accept(ctx)
	}()
	cliConn, err := uacp.Dial(ctx, url)
	wg.Wait()
	if err != nil || acceptErr != nil {
		return "engine/handshake-failed", fmt.Sprint(err, acceptErr)
	}
	recv, send := srvConn, cliConn
	if p.Side == "client" {
		recv, send = cliConn, srvConn
	}
	want, stream, wantErr := c05Expect(p.Frames)
	var got [][]byte
	var gotErr error
	done := make(chan struct{})
	go func() {
		defer close(done)
		for {
			b, err := recv.Receive()
			if err != nil {
				gotErr = err
				return
			}
			// the slice is kept as Receive returned it: a frame must not change when later frames are received
			got = append(got, b)
		}
	}()
	prev := 0
	for _, c := range append(append([]int(nil), cuts...), len(stream)) {
		if c <= prev || c > len(stream) {
			continue
		}
		if _, err := send.TCPConn.Write(stream[prev:c]); err != nil {
			break // the receiver has given up and closed
		}
		prev = c
		if !p.Free {
			vrt.Settle() // the segment is consumed before the next one arrives
		}
	}
	send.TCPConn.Close() // end of stream
	<-done
	recv.Close()
	for i := range want {
		if i >= len(got) {
			return "frame-not-delivered", fmt.Sprintf("frame %d of %d never returned; error=%v", i, len(want), gotErr)
		}
		if string(got[i]) != string(want[i]) {
			return "frame-differs", fmt.Sprintf("frame %d: got %d bytes %x…, want %d bytes %x…", i, len(got[i]), head(got[i]), len(want[i]), head(want[i]))
		}
	}
	if len(got) > len(want) {
		return "extra-or-partial-frame-delivered", fmt.Sprintf("got %d frames, want %d; extra: %d bytes %x…", len(got), len(want), len(got[len(want)]), head(got[len(want)]))
	}
	if wantErr && gotErr == nil {
		return "no-error-for-bad-frame", ""
	}
	return "", ""
}

func head(b []byte) []byte {
	if len(b) > 12 {
		return b[:12]
	}
	return b
}

func c05Body(p c05Params) func() {
	return func() {
		obs := &c05Obs{}
		c05obs = obs
		ctx := context.Background()
		l, err := uacp.Listen(ctx, url, &uacp.Acknowledge{ReceiveBufSize: c05R, SendBufSize: c05R, MaxChunkCount: 16, MaxMessageSize: 1 << 20})
		if err != nil {
			panic(err)
		}
		_, stream, _ := c05Expect(p.Frames)
		// candidate cut positions: within 3 bytes of every header start, header end and frame end
		cand := map[int]bool{}
		off := 0
		for i, f := range p.Frames {
			n := len(f.bytes(i))
			for _, base := range []int{off, off + 4, off + 8, off + n} {
				for d := -3; d <= 3; d++ {
					if c := base + d; c > 0 && c < len(stream) {
						cand[c] = true
					}
				}
			}
			off += n
		}
		var pos []int
		for c := 1; c < len(stream); c++ {
			if cand[c] {
				pos = append(pos, c)
			}
		}
		run := func(cuts []int) {
			obs.cases++
			obs.keys = append(obs.keys, evid.H(fmt.Sprint(p.Side, p.Frames, cuts)))
			sig, det := c05Run(ctx, l, p, cuts)
			if sig != "" {
				obs.badCount++
				if obs.firstBad == nil {
					obs.firstBad = &c05Case{Cuts: cuts, Sig: sig, Det: det}
				}
			}
		}
		if p.Free {
			vrt.BeginWindow()
			run([]int{4, 8, len(stream) / 2})
			vrt.EndWindow()
			return
		}
		run(nil) // fully coalesced
		if len(stream) <= 64 {
			all := make([]int, 0, len(stream))
			for c := 1; c < len(stream); c++ {
				all = append(all, c)
			}
			run(all) // byte at a time
		}
		var rec func(start int, cur []int)
		rec = func(start int, cur []int) {
			if len(cur) > 0 {
				run(append([]int(nil), cur...))
			}
			if len(cur) == p.MaxCut {
				return
			}
			for i := start; i < len(pos); i++ {
				rec(i+1, append(cur, pos[i]))
			}
		}
		rec(0, nil)
	}
}

func c05Class(p c05Params) string {
	s := p.Side
	for _, f := range p.Frames {
		switch {
		case f.Size < 8:
			s += "/size<8"
		case f.Size > c05R:
			s += "/size>buf"
		case f.Size != 8+f.Body:
			s += "/truncated"
		case f.Type[:3] == "ERR":
			s += "/ERR"
		case f.Size == c05R:
			s += "/max"
		default:
			s += "/ok"
		}
	}
	return s
}

func c05Check(p c05Params) func(x *vrt.Exec) (string, string, string) {
	return func(x *vrt.Exec) (string, string, string) {
		tag := "c05/" + c05Class(p)
		if out, sig, detail, failed := fail(x); failed {
			if sig != "" {
				sig = tag + "/" + sig
			}
			return out, sig, detail
		}
		o := c05obs
		if o.firstBad != nil {
			return o.firstBad.Sig, tag + "/" + o.firstBad.Sig, fmt.Sprintf("%d of %d segmentations fail; first: cuts=%v %s; frames=%+v", o.badCount, o.cases, o.firstBad.Cuts, o.firstBad.Det, p.Frames)
		}
		return "ok", "", ""
	}
}

var c05Total struct {
	cases int64
	keys  []uint64
}

func c05Scenarios(thorough bool) []driver.Scenario {
	var out []driver.Scenario
	maxCut := 1
	if thorough {
		maxCut = 2
	}
	add := func(p c05Params, bound int) {
		chk := c05Check(p)
		out = append(out, driver.Scenario{
			Name:   fmt.Sprintf("c05/%s/frames=%v/cuts<=%d/free=%v", p.Side, p.Frames, p.MaxCut, p.Free),
			Params: p, Cfg: vrt.Config{Horizon: int64(time.Hour), MaxSteps: 30000000},
			Body: c05Body(p), Sequential: !p.Free, Bound: bound,
			Check: func(x *vrt.Exec) (string, string, string) {
				a, b, c := chk(x)
				if !p.Free {
					c05Total.cases += int64(c05obs.cases)
					c05Total.keys = append(c05Total.keys, c05obs.keys...)
				}
				return a, b, c
			},
			Extra: func() (int64, []uint64) { n, k := c05Total.cases, c05Total.keys; c05Total.cases, c05Total.keys = 0, nil; return n, k },
		})
	}
	good := []c05Frame{{"MSGF", 8, 0}, {"MSGF", 9, 1}, {"MSGC", 10, 2}, {"MSGF", c05R - 1, c05R - 9}, {"OPNF", c05R, c05R - 8}, {"XYZQ", 12, 4}}
	bad := []c05Frame{{"MSGF", 0, 0}, {"MSGF", 7, 0}, {"MSGF", 7, 4}, {"MSGF", c05R + 1, 16}, {"MSGF", 0xffffffff - (1<<32 - 1) + (1<<32 - 1), 16}, {"ERRF", 16, 8}, {"ERRF", 9, 1}, {"ERRF", 8, 0}, {"MSGF", 64, 20}}
	bad[4].Size = 1<<32 - 1
	sides := []string{"server", "client"}
	for _, side := range sides {
		// single frames
		for _, f := range append(append([]c05Frame(nil), good...), bad...) {
			add(c05Params{Side: side, Frames: []c05Frame{f}, MaxCut: maxCut + 1}, 0)
		}
		// sequences of two and three frames: every good frame followed by every frame
		small := []c05Frame{good[0], good[1], good[2], good[5]}
		for _, a := range small {
			for _, b := range append(append([]c05Frame(nil), small...), bad...) {
				add(c05Params{Side: side, Frames: []c05Frame{a, b}, MaxCut: maxCut}, 0)
				if thorough {
					for _, c := range []c05Frame{good[1], bad[1], bad[5]} {
						add(c05Params{Side: side, Frames: []c05Frame{a, b, c}, MaxCut: maxCut}, 0)
					}
				}
			}
		}
		add(c05Params{Side: side, Frames: []c05Frame{good[3], good[4], good[0]}, MaxCut: maxCut}, 0)
		// schedules: writer and reader free-running
		b := 1
		if thorough {
			b = 2
		}
		add(c05Params{Side: side, Frames: []c05Frame{good[1], good[2], bad[1]}, Free: true}, b)
		add(c05Params{Side: side, Frames: []c05Frame{good[0], good[1], good[1]}, Free: true}, b)
	}
	return out
}

var _ = vnet.Net
