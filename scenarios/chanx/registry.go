package chanx

import "verifrt/driver"

// Scenarios is the registry the generated main calls.
func Scenarios(property string, thorough bool) []driver.Scenario {
	switch property {
	case "C20":
		return c20Scenarios(thorough)
	case "C05":
		return c05Scenarios(thorough)
	case "C06":
		return c06Scenarios(thorough)
	case "C11":
		return c11Scenarios(thorough)
	case "C16":
		return c16Scenarios(thorough)
	case "C17":
		return c17Scenarios(thorough)
	case "C18":
		return c18Scenarios(thorough)
	case "C19":
		return c19Scenarios(thorough)
	}
	return nil
}
