package chanx

import (
	"context"
	"fmt"
	"sync"
	"time"

	"github.com/gopcua/opcua"
	"github.com/gopcua/opcua/ua"
	"github.com/gopcua/opcua/uasc"
	"verifrt/driver"
	"verifrt/vrt"
)

// C18: every call that succeeds returns the response to its own request, no
// response is handed to two callers, and a response of the wrong type is an error.

type c18Params struct {
	Callers int    `json:"callers"`
	Seed    uint32 `json:"request_id_seed"` // first request ids are seed+1, ...
	Script  bool   `json:"script"`          // the server's behaviour per response is enumerated
	Delay   bool   `json:"delay_bounded"`
	Follow  bool   `json:"follow_up"` // every caller sends a second request once its first call has returned
	Wrap    bool   `json:"request_id_wrapped"` // the request id counter wraps around onto the id of a pending request
}

type c18Call struct {
	err   error
	got   uint32 // node id echoed in the response the caller was handed
	calls int    // how many times the handler ran
	// the follow-up request (node 2000+i), answered at once
	sent2  bool
	err2   error
	got2   uint32
	calls2 int
}

type c18Obs struct {
	calls    []c18Call
	script   string
	handlers int
	done     bool
}

var c18obs *c18Obs

// "late": the response arrives at the very instant the caller's timeout (2 s + 250 ms leniency) fires
var c18Variants = []string{"ok", "drop", "dup", "fault", "wrongtype", "late"}

func c18Body(p c18Params) func() {
	return func() {
		obs := &c18Obs{calls: make([]c18Call, p.Callers)}
		c18obs = obs
		bg := context.Background()
		var pending []*uasc.MessageBody
		srv := &echoServer{cfg: noneCfg(3600000, 0)}
		round1 := 0
		srv.respond = func(s *echoServer, ctx context.Context, msg *uasc.MessageBody) {
			if round1 >= p.Callers {
				s.answer(ctx, msg) // follow-up requests are answered at once
				return
			}
			round1++
			pending = append(pending, msg)
			if len(pending) < p.Callers {
				return
			}
			// all requests are in: answer them in an enumerated order, each in an enumerated way
			order := make([]int, 0, len(pending))
			left := make([]int, len(pending))
			for i := range left {
				left[i] = i
			}
			for len(left) > 0 {
				k := vrt.Choose("c18-order", len(left), make([]int, len(left)))
				order = append(order, left[k])
				left = append(left[:k:k], left[k+1:]...)
			}
			for _, i := range order {
				m := pending[i]
				rr := m.Request().(*ua.ReadRequest)
				id := rr.NodesToRead[0].NodeID.IntID()
				h := rr.Header().RequestHandle
				good := &ua.ReadResponse{ResponseHeader: respHeader(h), Results: []*ua.DataValue{{EncodingMask: ua.DataValueValue, Value: ua.MustVariant(id)}}, DiagnosticInfos: []*ua.DiagnosticInfo{}}
				v := "ok"
				if p.Script {
					nv := len(c18Variants)
					if !p.Follow {
						nv-- // "late" only matters to a later request
					}
					v = c18Variants[vrt.Choose("c18-variant", nv, make([]int, nv))]
				}
				obs.script += fmt.Sprintf("%d:%s ", id, v)
				switch v {
				case "ok":
					s.sc.SendResponseWithContext(ctx, m.RequestID, good)
				case "drop":
				case "dup":
					s.sc.SendResponseWithContext(ctx, m.RequestID, good)
					s.sc.SendResponseWithContext(ctx, m.RequestID, good)
				case "late":
					go func() {
						time.Sleep(2*time.Second + 250*time.Millisecond)
						s.sc.SendResponseWithContext(ctx, m.RequestID, good)
					}()
				case "fault":
					hd := respHeader(h)
					hd.ServiceResult = ua.StatusBadNodeIDUnknown
					s.sc.SendResponseWithContext(ctx, m.RequestID, &ua.ServiceFault{ResponseHeader: hd})
				case "wrongtype":
					s.sc.SendResponseWithContext(ctx, m.RequestID, &ua.WriteResponse{ResponseHeader: respHeader(h), Results: []ua.StatusCode{}, DiagnosticInfos: []*ua.DiagnosticInfo{}})
				}
			}
			// and one response nobody asked for
			s.sc.SendResponseWithContext(ctx, 777777, &ua.ReadResponse{ResponseHeader: respHeader(777777), Results: []*ua.DataValue{{EncodingMask: ua.DataValueValue, Value: ua.MustVariant(uint32(777777))}}, DiagnosticInfos: []*ua.DiagnosticInfo{}})
			pending = nil
		}
		ccfg := noneCfg(3600000, 2*time.Second)
		ccfg.RequestIDSeed = p.Seed
		sc, _ := pair(bg, srv, ccfg)
		vrt.Settle()
		vrt.BeginWindow()
		var wg sync.WaitGroup
		for i := 0; i < p.Callers; i++ {
			wg.Add(1)
			go func(i int) {
				defer wg.Done()
				rq := readReq(0)
				rq.NodesToRead[0].NodeID = ua.NewNumericNodeID(0, uint32(1000+i))
				c := &obs.calls[i]
				c.err = sc.SendRequest(bg, rq, nil, func(v ua.Response) error {
					c.calls++
					var res *ua.ReadResponse
					if err := opcua.VerifSafeAssign(v, &res); err != nil {
						return err
					}
					if len(res.Results) == 1 && res.Results[0].Value != nil {
						c.got, _ = res.Results[0].Value.Value().(uint32)
					}
					return nil
				})
				if !p.Follow {
					return
				}
				rq2 := readReq(0)
				rq2.NodesToRead[0].NodeID = ua.NewNumericNodeID(0, uint32(2000+i))
				c.sent2 = true
				c.err2 = sc.SendRequest(bg, rq2, nil, func(v ua.Response) error {
					c.calls2++
					var res *ua.ReadResponse
					if err := opcua.VerifSafeAssign(v, &res); err != nil {
						return err
					}
					if len(res.Results) == 1 && res.Results[0].Value != nil {
						c.got2, _ = res.Results[0].Value.Value().(uint32)
					}
					return nil
				})
			}(i)
		}
		wg.Wait()
		vrt.EndWindow()
		time.Sleep(time.Second)
		obs.handlers = sc.VerifE2Handlers()
		obs.done = true
	}
}

// c18WrapBody: the 32 bit request id counter has wrapped around while an old request (a parked Publish, say)
// is still waiting: the next request is handed the id of the pending one. Caller 0 holds id X, the counter is
// put back to X-1, caller 1 sends; the server answers the old request first, then the new one.
func c18WrapBody(p c18Params) func() {
	return func() {
		obs := &c18Obs{calls: make([]c18Call, 2)}
		c18obs = obs
		bg := context.Background()
		var pending []*uasc.MessageBody
		srv := &echoServer{cfg: noneCfg(3600000, 0)}
		srv.respond = func(s *echoServer, ctx context.Context, msg *uasc.MessageBody) {
			pending = append(pending, msg)
			if len(pending) < 2 {
				return
			}
			for _, m := range pending { // oldest first
				s.answer(ctx, m)
			}
			pending = nil
		}
		ccfg := noneCfg(3600000, 2*time.Second)
		ccfg.RequestIDSeed = p.Seed
		sc, _ := pair(bg, srv, ccfg)
		vrt.Settle()
		vrt.BeginWindow()
		var wg sync.WaitGroup
		call := func(i int) {
			defer wg.Done()
			rq := readReq(0)
			rq.NodesToRead[0].NodeID = ua.NewNumericNodeID(0, uint32(1000+i))
			c := &obs.calls[i]
			c.err = sc.SendRequest(bg, rq, nil, func(v ua.Response) error {
				c.calls++
				c.got = echoedNode(v)
				return nil
			})
		}
		wg.Add(2)
		sc.VerifE2SetRequestID(p.Seed)
		go call(0)
		time.Sleep(100 * time.Millisecond) // the old request is on the wire and parked at the server
		sc.VerifE2SetRequestID(p.Seed)     // ... and 2^32 requests later the counter is back where it was
		go call(1)
		wg.Wait()
		vrt.EndWindow()
		time.Sleep(time.Second)
		obs.script = "wrapped-onto-a-pending-id"
		obs.handlers = sc.VerifE2Handlers()
		obs.done = true
	}
}

func c18Check(p c18Params) func(x *vrt.Exec) (string, string, string) {
	tag := fmt.Sprintf("c18/callers=%d/wrap=%v/script=%v", p.Callers, p.Seed > 1<<31, p.Script)
	if p.Wrap {
		tag = "c18/request-id-wrapped-onto-a-pending-request"
	}
	return func(x *vrt.Exec) (string, string, string) {
		if out, sig, detail, failed := fail(x); failed {
			if sig != "" {
				sig = tag + "/" + sig
			}
			return out, sig, detail
		}
		o := c18obs
		out := "script[" + o.script + "] ->"
		for i, c := range o.calls {
			out += fmt.Sprintf(" c%d:%v/%d", i, c.err == nil, c.got)
		}
		detail := out
		for i, c := range o.calls {
			detail += fmt.Sprintf("\n caller %d (node %d): err=%v, response carried node %d, handler ran %d times", i, 1000+i, c.err, c.got, c.calls)
			if c.sent2 {
				detail += fmt.Sprintf("; follow-up (node %d): err=%v, response carried node %d, handler ran %d times", 2000+i, c.err2, c.got2, c.calls2)
			}
		}
		if !o.done {
			return out, tag + "/scenario-did-not-finish", detail
		}
		for i, c := range o.calls {
			want := uint32(1000 + i)
			switch {
			case c.err == nil && c.calls == 0:
				return out, tag + "/success-without-a-response", detail
			case c.err == nil && c.got != want:
				return out, tag + "/success-with-another-request's-response", detail
			case c.calls > 1:
				return out, tag + "/response-handed-over-twice", detail
			case c.got != 0 && c.got != want:
				return out, tag + "/handed-another-request's-response", detail
			case c.sent2 && c.err2 == nil && c.calls2 == 0:
				return out, tag + "/follow-up/success-without-a-response", detail
			case c.sent2 && c.got2 != 0 && c.got2 != want+1000:
				return out, tag + "/follow-up/handed-another-request's-response", detail
			case c.calls2 > 1:
				return out, tag + "/follow-up/response-handed-over-twice", detail
			}
		}
		if o.handlers != 0 {
			return out, tag + "/handlers-left-behind", detail
		}
		return out, "", ""
	}
}

func c18Scenarios(thorough bool) []driver.Scenario {
	var out []driver.Scenario
	add := func(p c18Params, bound int) {
		out = append(out, driver.Scenario{
			Name:   fmt.Sprintf("c18/callers=%d/seed=%d/script=%v/delay_bounded=%v/follow_up=%v", p.Callers, p.Seed, p.Script, p.Delay, p.Follow),
			Params: p, Cfg: vrt.Config{Horizon: int64(10 * time.Minute), SelectDeviations: true, DelayBounded: p.Delay},
			Body: c18Body(p), Check: c18Check(p), Bound: bound, NeedsConflict: true,
		})
	}
	wrap := c18Params{Callers: 2, Seed: 41, Wrap: true}
	out = append(out, driver.Scenario{
		Name:   "c18/request-id-wrapped-onto-a-pending-request",
		Params: wrap, Cfg: vrt.Config{Horizon: int64(10 * time.Minute), SelectDeviations: true},
		Body: c18WrapBody(wrap), Check: c18Check(wrap), Bound: 1,
	})
	if thorough {
		add(c18Params{Callers: 2, Seed: 1, Script: true}, 1)
		add(c18Params{Callers: 1, Seed: 1, Script: true, Follow: true}, 2)
		add(c18Params{Callers: 2, Seed: 1, Script: true, Follow: true}, 0)
		add(c18Params{Callers: 2, Seed: 4294967293, Script: true}, 1)
		add(c18Params{Callers: 3, Seed: 1, Script: false}, 2)
		add(c18Params{Callers: 3, Seed: 4294967293, Script: true}, 0)
		add(c18Params{Callers: 4, Seed: 1, Script: false}, 1)
	} else {
		add(c18Params{Callers: 2, Seed: 4294967293, Script: true}, 0)
		add(c18Params{Callers: 1, Seed: 1, Script: true, Follow: true}, 1)
		add(c18Params{Callers: 2, Seed: 1, Script: false}, 1)
		add(c18Params{Callers: 3, Seed: 4294967293, Script: false, Delay: true}, 2)
		add(c18Params{Callers: 2, Seed: 1, Script: true, Delay: true}, 1)
	}
	return out
}
