package chanx

import (
	"context"
	"encoding/binary"
	"fmt"
	"time"

	"github.com/gopcua/opcua/ua"
	"github.com/gopcua/opcua/uacp"
	"github.com/gopcua/opcua/uasc"
	"verifrt/driver"
	"verifrt/vnet"
	"verifrt/vrt"
)

// C06: after the Hello/Acknowledge exchange no side sends a chunk larger than
// the receive buffer the other side advertised, each side accepts every chunk up
// to the size the other side may send, and a message exceeding the peer's maximum
// message size or chunk count is refused by the sender with an error instead of
// being put on the wire.

type c06Limits struct {
	Recv   uint32 `json:"recv"`
	Send   uint32 `json:"send"`
	MaxMsg uint32 `json:"max_msg"`
	MaxChk uint32 `json:"max_chunks"`
}

type c06Params struct {
	Client c06Limits `json:"client"`
	Server c06Limits `json:"server"`
	Body   int       `json:"body"` // payload bytes of the request and of the response
	Secure bool      `json:"sign_and_encrypt"` // Basic256Sha256/SignAndEncrypt instead of None: full chunks fill whole cipher blocks
}

type c06Obs struct {
	reqErr  string
	srvErr  string
	respLen int
	done    bool
}

var c06obs *c06Obs

func c06Body(p c06Params) func() {
	return func() {
		obs := &c06Obs{}
		c06obs = obs
		ctx := context.Background()
		ccfg, scfg := noneCfg(3600000, 5*time.Second), noneCfg(3600000, 0)
		if p.Secure {
			ccfg, scfg = securedCfgs(ua.SecurityPolicyURIBasic256Sha256, ua.MessageSecurityModeSignAndEncrypt, 3600000, 5*time.Second)
		}
		srv := &echoServer{cfg: scfg, ack: &uacp.Acknowledge{ReceiveBufSize: p.Server.Recv, SendBufSize: p.Server.Send, MaxMessageSize: p.Server.MaxMsg, MaxChunkCount: p.Server.MaxChk}}
		srv.respond = func(s *echoServer, ctx context.Context, msg *uasc.MessageBody) {
			wr, ok := msg.Request().(*ua.WriteRequest)
			n := 0
			if ok && len(wr.NodesToWrite) == 1 && wr.NodesToWrite[0].Value != nil && wr.NodesToWrite[0].Value.Value != nil {
				b, _ := wr.NodesToWrite[0].Value.Value.Value().([]byte)
				n = len(b)
			}
			resp := &ua.ReadResponse{ResponseHeader: respHeader(msg.Request().Header().RequestHandle), DiagnosticInfos: []*ua.DiagnosticInfo{},
				Results: []*ua.DataValue{{EncodingMask: ua.DataValueValue, Value: ua.MustVariant(make([]byte, n))}}}
			if err := s.sc.SendResponseWithContext(ctx, msg.RequestID, resp); err != nil {
				obs.srvErr = err.Error()
				// tell the client, so that the scenario does not wait for its timeout
				s.sc.SendResponseWithContext(ctx, msg.RequestID, &ua.ServiceFault{ResponseHeader: func() *ua.ResponseHeader { h := respHeader(0); h.ServiceResult = ua.StatusBadResponseTooLarge; return h }()})
			}
		}
		l, err := uacp.Listen(ctx, url, srv.ack)
		if err != nil {
			panic(err)
		}
		go srv.run(ctx, l)
		d := &uacp.Dialer{ClientACK: &uacp.Acknowledge{ReceiveBufSize: p.Client.Recv, SendBufSize: p.Client.Send, MaxMessageSize: p.Client.MaxMsg, MaxChunkCount: p.Client.MaxChk}}
		conn, err := d.Dial(ctx, url)
		if err != nil {
			obs.reqErr = "dial: " + err.Error()
			obs.done = true
			return
		}
		sc, err := uasc.NewSecureChannel(url, conn, ccfg, make(chan error, 8))
		if err != nil {
			panic(err)
		}
		if err := sc.Open(ctx); err != nil {
			obs.reqErr = "open: " + err.Error()
			obs.done = true
			return
		}
		req := bigWriteReq(0, p.Body)
		err = sc.SendRequest(ctx, req, nil, func(r ua.Response) error {
			if rr, ok := r.(*ua.ReadResponse); ok && len(rr.Results) == 1 && rr.Results[0].Value != nil {
				b, _ := rr.Results[0].Value.Value().([]byte)
				obs.respLen = len(b)
			}
			return nil
		})
		if err != nil {
			obs.reqErr = err.Error()
		}
		obs.done = true
	}
}

func min32(a, b uint32) uint32 {
	if a < b {
		return a
	}
	return b
}

func c06Check(p c06Params) func(x *vrt.Exec) (string, string, string) {
	rel := func(a, b uint32) string {
		switch {
		case a < b:
			return "<"
		case a > b:
			return ">"
		}
		return "="
	}
	return func(x *vrt.Exec) (string, string, string) {
		tag := fmt.Sprintf("c06/client.send%sserver.recv/server.send%sclient.recv", rel(p.Client.Send, p.Server.Recv), rel(p.Server.Send, p.Client.Recv))
		if p.Secure {
			tag += "/SignAndEncrypt"
		}
		if out, sig, detail, failed := fail(x); failed {
			if sig != "" {
				sig = tag + "/" + sig
			}
			return out, sig, detail
		}
		o := c06obs
		// what each side advertised, from the wire
		var helRecv, helMaxMsg, helMaxChk, ackRecv, ackMaxMsg, ackMaxChk uint32
		type frame struct {
			dir  string
			typ  string
			size int
			req  uint32
		}
		var frames []frame
		streams := map[int][]byte{}
		for _, ev := range vnet.Last().Tap {
			streams[ev.Conn] = append(streams[ev.Conn], ev.Data...)
			for {
				b := streams[ev.Conn]
				if len(b) < 8 {
					break
				}
				size := int(binary.LittleEndian.Uint32(b[4:8]))
				if size < 8 || len(b) < size {
					break
				}
				f := b[:size]
				streams[ev.Conn] = b[size:]
				dir := "s2c"
				if len(ev.From) >= 6 && ev.From[:6] == "client" {
					dir = "c2s"
				}
				fr := frame{dir: dir, typ: string(f[:4]), size: size}
				switch string(f[:3]) {
				case "HEL":
					if size >= 28 {
						helRecv = binary.LittleEndian.Uint32(f[12:])
						helMaxMsg = binary.LittleEndian.Uint32(f[20:])
						helMaxChk = binary.LittleEndian.Uint32(f[24:])
					}
				case "ACK":
					if size >= 28 {
						ackRecv = binary.LittleEndian.Uint32(f[12:])
						ackMaxMsg = binary.LittleEndian.Uint32(f[20:])
						ackMaxChk = binary.LittleEndian.Uint32(f[24:])
					}
				case "MSG":
					if size >= 24 {
						fr.req = binary.LittleEndian.Uint32(f[20:])
					}
				}
				frames = append(frames, fr)
			}
		}
		detail := fmt.Sprintf("client offers recv=%d send=%d maxMsg=%d maxChunks=%d; server offers recv=%d send=%d maxMsg=%d maxChunks=%d; HEL on the wire: recv=%d maxMsg=%d maxChunks=%d; ACK on the wire: recv=%d maxMsg=%d maxChunks=%d; body=%d; request error=%q server send error=%q response payload=%d",
			p.Client.Recv, p.Client.Send, p.Client.MaxMsg, p.Client.MaxChk, p.Server.Recv, p.Server.Send, p.Server.MaxMsg, p.Server.MaxChk, helRecv, helMaxMsg, helMaxChk, ackRecv, ackMaxMsg, ackMaxChk, p.Body, o.reqErr, o.srvErr, o.respLen)
		if !o.done {
			return "unfinished", tag + "/scenario-did-not-finish", detail
		}
		// per message: chunk count and total size, per direction
		type agg struct{ chunks, bytes int }
		msgs := map[string]*agg{}
		for _, f := range frames {
			if f.typ[:3] != "MSG" {
				continue
			}
			limit := ackRecv // what the receiver of this direction advertised
			if f.dir == "s2c" {
				limit = helRecv
			}
			if limit > 0 && uint32(f.size) > limit {
				return "chunk-too-large", tag + "/" + f.dir + "/chunk-larger-than-the-receive-buffer-the-peer-advertised", fmt.Sprintf("a %s chunk of %d bytes, the peer advertised %d; %s", f.dir, f.size, limit, detail)
			}
			if p.Secure {
				continue // the request id is inside the encrypted region: per-message limits are judged in mode None only
			}
			k := fmt.Sprintf("%s/%d", f.dir, f.req)
			if msgs[k] == nil {
				msgs[k] = &agg{}
			}
			msgs[k].chunks++
			msgs[k].bytes += f.size - 24
		}
		for k, a := range msgs {
			maxMsg, maxChk := ackMaxMsg, ackMaxChk
			if k[:3] == "s2c" {
				maxMsg, maxChk = helMaxMsg, helMaxChk
			}
			if maxChk > 0 && uint32(a.chunks) > maxChk {
				return "too-many-chunks", tag + "/" + k[:3] + "/message-with-more-chunks-than-the-peer-allows-put-on-the-wire", fmt.Sprintf("%d chunks, the peer allows %d; %s", a.chunks, maxChk, detail)
			}
			if maxMsg > 0 && uint32(a.bytes) > maxMsg {
				return "message-too-large", tag + "/" + k[:3] + "/message-larger-than-the-peer-allows-put-on-the-wire", fmt.Sprintf("%d body bytes, the peer allows %d; %s", a.bytes, maxMsg, detail)
			}
		}
		// a message within every advertised limit must go through
		chunkC2S := int(min32(p.Client.Send, p.Server.Recv))
		chunkS2C := int(min32(p.Server.Send, p.Client.Recv))
		fits := func(body, chunk int, maxMsg, maxChk uint32) bool {
			per := chunk - 24
			n := (body + 200 + per - 1) / per
			return (maxMsg == 0 || uint32(body+200) <= maxMsg) && (maxChk == 0 || uint32(n) <= maxChk)
		}
		legal := fits(p.Body, chunkC2S, p.Server.MaxMsg, p.Server.MaxChk) && fits(p.Body, chunkS2C, p.Client.MaxMsg, p.Client.MaxChk)
		if p.Secure {
			// signature and padding change the per-chunk capacity: only the unlimited configurations are judged for delivery
			legal = p.Server.MaxMsg == 0 && p.Server.MaxChk == 0 && p.Client.MaxMsg == 0 && p.Client.MaxChk == 0
		}
		out := fmt.Sprintf("legal=%v ok=%v", legal, o.reqErr == "" && o.respLen == p.Body)
		if legal && (o.reqErr != "" || o.respLen != p.Body) {
			return out, tag + "/message-within-all-advertised-limits-not-delivered", detail
		}
		return out, "", ""
	}
}

func c06Scenarios(thorough bool) []driver.Scenario {
	var out []driver.Scenario
	add := func(p c06Params) {
		out = append(out, driver.Scenario{
			Name:   fmt.Sprintf("c06/client=%v/server=%v/body=%d/secure=%v", p.Client, p.Server, p.Body, p.Secure),
			Params: p, Cfg: vrt.Config{Horizon: int64(time.Minute), MaxSteps: 2000000},
			Body: c06Body(p), Check: c06Check(p), Sequential: true,
		})
	}
	bufs := []uint32{8192, 16384, 65535}
	if thorough {
		bufs = []uint32{8192, 16385, 65535, 1 << 20}
	}
	type lim struct{ msg, chk uint32 }
	lims := []lim{{0, 0}, {20000, 0}, {0, 2}}
	if thorough {
		lims = []lim{{0, 0}, {8000, 0}, {20000, 0}, {0, 1}, {0, 3}, {20000, 3}}
	}
	bodies := []int{100, 8000, 20000, 70000}
	for _, cr := range bufs {
		for _, cs := range bufs {
			for _, sr := range bufs {
				for _, ss := range bufs {
					if !thorough && (cr != cs && sr != ss) && !(cr == 8192 || ss == 8192) {
						continue
					}
					for _, cl := range lims {
						for _, sl := range lims {
							if cl != (lim{}) && sl != (lim{}) && !thorough {
								continue
							}
							for _, b := range bodies {
								add(c06Params{Client: c06Limits{cr, cs, cl.msg, cl.chk}, Server: c06Limits{sr, ss, sl.msg, sl.chk}, Body: b})
							}
						}
					}
				}
			}
		}
	}
	// SignAndEncrypt: full chunks are whole cipher blocks, so with a buffer that is a multiple of 16 a chunk fills
	// the advertised receive buffer exactly
	sbufs := []uint32{8192, 65536}
	if thorough {
		sbufs = []uint32{8192, 8208, 16384, 65535, 65536}
	}
	for _, cb := range sbufs {
		for _, sb := range sbufs {
			for _, b := range []int{100, 20000, 140000} {
				add(c06Params{Client: c06Limits{cb, cb, 0, 0}, Server: c06Limits{sb, sb, 0, 0}, Body: b, Secure: true})
			}
		}
	}
	return out
}
