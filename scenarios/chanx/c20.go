package chanx

import (
	"context"
	"fmt"
	"sync"
	"time"

	"github.com/gopcua/opcua/ua"
	"github.com/gopcua/opcua/uasc"
	"verifrt/driver"
	"verifrt/vrt"
)

// C20: a decoded request or response handed to the application is not modified
// by any later network traffic on the same or another connection.

type c20Params struct {
	Mode     string `json:"mode"`     // None | SignAndEncrypt
	Sizes    []int  `json:"sizes"`    // payload size of each message, in order (one chunk is ~8 KiB)
	Channels int    `json:"channels"` // 1: back to back on one channel; 2: the history runs on two channels in parallel
	Explore  bool   `json:"explore"`
}

type c20Held struct {
	what string
	msg  interface{}
	snap string
}

type c20Obs struct {
	mu    sync.Mutex
	held  []*c20Held
	errs  []string
	done  bool
	count int
}

var c20obs *c20Obs

func c20Snap(v interface{}) string {
	b, err := ua.Encode(v)
	if err != nil {
		return "encode error: " + err.Error()
	}
	return string(b)
}

func (o *c20Obs) hold(what string, v interface{}) {
	o.mu.Lock()
	o.held = append(o.held, &c20Held{what: what, msg: v, snap: c20Snap(v)})
	o.mu.Unlock()
}

func c20Payload(seed, n int) []byte {
	b := make([]byte, n)
	for i := range b {
		b[i] = byte(seed*37 + i*11 + 1)
	}
	return b
}

func c20Body(p c20Params) func() {
	return func() {
		obs := &c20Obs{}
		c20obs = obs
		bg := context.Background()
		var chans []*uasc.SecureChannel
		for c := 0; c < p.Channels; c++ {
			ccfg, scfg := noneCfg(3600000, 30*time.Second), noneCfg(3600000, 0)
			if p.Mode == "SignAndEncrypt" {
				ccfg, scfg = securedCfgs(ua.SecurityPolicyURIBasic256Sha256, ua.MessageSecurityModeSignAndEncrypt, 3600000, 30*time.Second)
			}
			srv := &echoServer{cfg: scfg, ack: smallAck()}
			srv.respond = func(s *echoServer, ctx context.Context, msg *uasc.MessageBody) {
				req := msg.Request()
				obs.hold("request delivered to the server application", req)
				wr, ok := req.(*ua.WriteRequest)
				if !ok {
					s.answer(ctx, msg)
					return
				}
				// answer with payloads derived from the request, of the same size
				in, _ := wr.NodesToWrite[0].Value.Value.Value().([]byte)
				out := make([]byte, len(in))
				for i := range in {
					out[i] = in[i] ^ 0x5a
				}
				resp := &ua.ReadResponse{ResponseHeader: respHeader(req.Header().RequestHandle), DiagnosticInfos: []*ua.DiagnosticInfo{},
					Results: []*ua.DataValue{
						{EncodingMask: ua.DataValueValue, Value: ua.MustVariant(out)},
						{EncodingMask: ua.DataValueValue, Value: ua.MustVariant(fmt.Sprintf("str-%x", head(out)))},
					}}
				s.sc.SendResponseWithContext(ctx, msg.RequestID, resp)
			}
			if c > 0 {
				// a second listener address for the second channel
				srv2url := fmt.Sprintf("opc.tcp://localhost:%d", 4840+c)
				sc := pairAt(bg, srv, ccfg, srv2url)
				chans = append(chans, sc)
				continue
			}
			sc, _ := pair(bg, srv, ccfg)
			chans = append(chans, sc)
		}
		vrt.Settle()
		if p.Explore {
			vrt.BeginWindow()
		}
		var wg sync.WaitGroup
		for ci, sc := range chans {
			wg.Add(1)
			go func(ci int, sc *uasc.SecureChannel) {
				defer wg.Done()
				for i, n := range p.Sizes {
					req := bigWriteReq(0, 1)
					req.NodesToWrite[0].Value.Value = ua.MustVariant(c20Payload(ci*10+i, n))
					req.NodesToWrite[0].NodeID = ua.NewStringNodeID(2, fmt.Sprintf("node-%d-%d-%x", ci, i, c20Payload(ci+i, 8)))
					err := sc.SendRequest(bg, req, nil, func(r ua.Response) error {
						obs.hold("response delivered to the client application", r)
						return nil
					})
					if err != nil {
						obs.mu.Lock()
						obs.errs = append(obs.errs, err.Error())
						obs.mu.Unlock()
					}
				}
			}(ci, sc)
		}
		wg.Wait()
		if p.Explore {
			vrt.EndWindow()
		}
		obs.done = true
	}
}

func pairAt(ctx context.Context, srv *echoServer, ccfg *uasc.Config, u string) *uasc.SecureChannel {
	sc, _ := pairURL(ctx, srv, ccfg, u)
	return sc
}

func c20Check(p c20Params) func(x *vrt.Exec) (string, string, string) {
	tag := fmt.Sprintf("c20/%s/channels=%d", p.Mode, p.Channels)
	return func(x *vrt.Exec) (string, string, string) {
		if out, sig, detail, failed := fail(x); failed {
			if sig != "" {
				sig = tag + "/" + sig
			}
			return out, sig, detail
		}
		o := c20obs
		if !o.done || len(o.errs) > 0 {
			return "request-error", tag + "/engine/requests-failed", fmt.Sprint(o.errs)
		}
		want := 2 * len(p.Sizes) * p.Channels
		if len(o.held) != want {
			return "missing", tag + "/engine/messages-missing", fmt.Sprintf("held %d messages, want %d", len(o.held), want)
		}
		for i, h := range o.held {
			if now := c20Snap(h.msg); now != h.snap {
				d := 0
				for d < len(now) && d < len(h.snap) && now[d] == h.snap[d] {
					d++
				}
				return "changed", tag + "/delivered-message-changed-later", fmt.Sprintf("message %d (%s, %d encoded bytes) differs from its snapshot at delivery from byte %d on; sizes %v", i, h.what, len(h.snap), d, p.Sizes)
			}
		}
		return fmt.Sprintf("%d messages stable", len(o.held)), "", ""
	}
}

func c20Scenarios(thorough bool) []driver.Scenario {
	var out []driver.Scenario
	add := func(p c20Params, bound int) {
		out = append(out, driver.Scenario{
			Name:   fmt.Sprintf("c20/%s/sizes=%v/channels=%d/explore=%v", p.Mode, p.Sizes, p.Channels, p.Explore),
			Params: p, Cfg: vrt.Config{Horizon: int64(time.Hour), MaxSteps: 400000},
			Body: c20Body(p), Check: c20Check(p), Sequential: !p.Explore, Bound: bound,
		})
	}
	sizes := []int{16, 20000} // one chunk, three chunks
	modes := []string{"None", "SignAndEncrypt"}
	maxLen := 2
	if thorough {
		maxLen = 3
		sizes = []int{16, 9000, 20000}
	}
	var hist [][]int
	var rec func(cur []int)
	rec = func(cur []int) {
		if len(cur) > 0 {
			hist = append(hist, append([]int(nil), cur...))
		}
		if len(cur) == maxLen {
			return
		}
		for _, s := range sizes {
			rec(append(cur, s))
		}
	}
	rec(nil)
	for _, m := range modes {
		for _, h := range hist {
			add(c20Params{Mode: m, Sizes: h, Channels: 1}, 0)
			if len(h) >= 2 {
				add(c20Params{Mode: m, Sizes: h, Channels: 2}, 0)
			}
		}
	}
	b := 0
	if thorough {
		b = 1
	}
	add(c20Params{Mode: "None", Sizes: []int{16, 20000}, Channels: 2, Explore: true}, b)
	return out
}
