package chanx

import (
	"context"
	"fmt"
	"sync"
	"time"

	"github.com/gopcua/opcua/ua"
	"github.com/gopcua/opcua/uasc"
	"verifrt/driver"
	"verifrt/vnet"
	"verifrt/vrt"
)

// C11: outgoing sequence numbers increase by exactly one per chunk, chunks of one
// message are contiguous, for any interleaving of concurrent senders and renewals.

type c11Params struct {
	Side     string `json:"side"`     // which side's outgoing chunks are judged: client | server
	Senders  int    `json:"senders"`  // concurrent senders inside the window
	BigBytes int    `json:"big_bytes"` // >0: sender 1 sends a multi-chunk message of this payload size
	Renew    string `json:"renew"`    // "", "call" (explicit Renew in the window), "fails" (the renewal is never answered and times out before the senders run)
	Eager    bool   `json:"prompt_peer"` // the side that is not judged answers promptly and is not part of the interleaving
	Delay    bool   `json:"delay_bounded"`
	Cancel   bool   `json:"cancel"` // sender 1's context is cancelled by another thread inside the window
}

type c11Obs struct {
	errs []string
}

var c11obs *c11Obs

func c11Body(p c11Params) func() {
	return func() {
		obs := &c11Obs{}
		c11obs = obs
		ctx := context.Background()
		srv := &echoServer{cfg: noneCfg(3600000, 0), eager: p.Eager && p.Side == "client"}
		if p.BigBytes > 0 {
			srv.ack = smallAck() // 8 KiB chunks, so that BigBytes spans several chunks
		}
		if p.Side == "server" {
			// the server answers every request from its own goroutine, so that responders run concurrently
			var wg sync.WaitGroup
			srv.respond = func(s *echoServer, ctx context.Context, msg *uasc.MessageBody) {
				wg.Add(1)
				go func() {
					defer wg.Done()
					req := msg.Request()
					var resp ua.Response = responseFor(req)
					if rr, ok := req.(*ua.ReadRequest); ok && p.BigBytes > 0 && len(rr.NodesToRead) == 1 && rr.NodesToRead[0].NodeID.IntID() == 1002 {
						b := make([]byte, p.BigBytes)
						resp = &ua.ReadResponse{ResponseHeader: respHeader(req.Header().RequestHandle), Results: []*ua.DataValue{{EncodingMask: ua.DataValueValue, Value: ua.MustVariant(b)}}, DiagnosticInfos: []*ua.DiagnosticInfo{}}
					}
					if err := s.sc.SendResponseWithContext(ctx, msg.RequestID, resp); err != nil {
						obs.errs = append(obs.errs, "server send: "+err.Error())
					}
				}()
			}
		}
		timeout := 10 * time.Second
		if p.Renew == "fails" {
			timeout = time.Second
		}
		sc, _ := pair(ctx, srv, noneCfg(3600000, timeout))
		vrt.Settle()
		if p.Renew == "fails" {
			// the server's answer to the renewal is delayed beyond the client's timeout
			var srvConn *vnet.TCPConn
			for _, c := range vnet.Net().Conns {
				if c.LocalAddr().String() == "127.0.0.1:4840" {
					srvConn = c
				}
			}
			srvConn.SetLatency(time.Hour)
			if err := sc.Renew(ctx); err == nil {
				obs.errs = append(obs.errs, "renewal unexpectedly succeeded")
			}
			srvConn.SetLatency(0)
			time.Sleep(2 * time.Second)
		}
		vrt.BeginWindow()
		var wg sync.WaitGroup
		for i := 1; i <= p.Senders; i++ {
			wg.Add(1)
			go func(i int) {
				defer wg.Done()
				rq := readReq(uint32(i))
				rq.NodesToRead[0].NodeID = ua.NewNumericNodeID(0, uint32(1000+i))
				var req ua.Request = rq
				if p.BigBytes > 0 && i == 2 && p.Side == "client" {
					req = bigWriteReq(uint32(i), p.BigBytes)
				}
				sctx := ctx
				if p.Cancel && i == 1 {
					var cancel context.CancelFunc
					sctx, cancel = context.WithCancel(ctx)
					wg.Add(1)
					go func() { defer wg.Done(); cancel() }()
				}
				err := sc.SendRequest(sctx, req, nil, func(r ua.Response) error { return nil })
				if err != nil {
					obs.errs = append(obs.errs, fmt.Sprintf("sender %d: %v", i, err))
				}
			}(i)
		}
		if p.Renew == "call" {
			wg.Add(1)
			go func() {
				defer wg.Done()
				if err := sc.Renew(ctx); err != nil {
					obs.errs = append(obs.errs, "renew: "+err.Error())
				}
			}()
		}
		wg.Wait()
		vrt.EndWindow()
	}
}

func c11Check(p c11Params) func(x *vrt.Exec) (string, string, string) {
	// signatures name the scenario shape, so that the same symptom reached by a
	// different combination of senders/renewal is a different finding
	tag := fmt.Sprintf("c11/%s/senders=%d/multichunk=%v/renew=%s", p.Side, p.Senders, p.BigBytes > 0, p.Renew)
	if p.Cancel {
		tag += "/cancel"
	}
	return func(x *vrt.Exec) (string, string, string) {
		if out, sig, detail, failed := fail(x); failed {
			return out, sig, detail
		}
		chunks, err := parseTap(vnet.Last().Tap)
		if err != nil {
			return "bad-wire", "c11/unparsable-wire", err.Error()
		}
		dir := "c2s"
		if p.Side == "server" {
			dir = "s2c"
		}
		var seqs []uint32
		var desc []string
		var prev *wireChunk
		sig, detail := "", ""
		for i := range chunks {
			c := &chunks[i]
			if c.Dir != dir || (c.Type != "MSG" && c.Type != "OPN" && c.Type != "CLO") {
				continue
			}
			seqs = append(seqs, c.Seq)
			desc = append(desc, fmt.Sprintf("%s%c#%d/r%d", c.Type, c.Chunk, c.Seq, c.ReqID))
			if prev != nil {
				want := prev.Seq + 1
				if prev.Seq >= 4294966271 { // UInt32.MaxValue - 1024: the sender may wrap to a value below 1024
					if !(c.Seq == want || c.Seq < 1024) && sig == "" {
						sig = tag + "/sequence-not-plus-one"
					}
				} else if c.Seq != want && sig == "" {
					kind := "gap"
					if c.Seq == prev.Seq {
						kind = "duplicate"
					} else if c.Seq < prev.Seq {
						kind = "decreasing"
					}
					sig = tag + "/sequence-" + kind
				}
				if prev.Chunk == 'C' && c.ReqID != prev.ReqID && sig == "" {
					sig = tag + "/chunks-of-two-messages-interleaved"
				}
			}
			prev = c
		}
		out := fmt.Sprint(len(seqs), " chunks ok")
		if sig != "" {
			detail = fmt.Sprintf("outgoing %s chunks on the wire: %v", p.Side, desc)
			out = sig
		} else if len(c11obs.errs) > 0 {
			// a request failing is C16/C18/C19 territory; here it only labels the outcome
			out = "request-error: " + c11obs.errs[0]
		}
		return out, sig, detail
	}
}

func c11Scenarios(thorough bool) []driver.Scenario {
	var out []driver.Scenario
	add := func(p c11Params, bound, maxExec int) {
		out = append(out, driver.Scenario{
			Name:   fmt.Sprintf("c11/%s/senders=%d/big=%d/renew=%s/prompt_peer=%v/delay_bounded=%v/cancel=%v", p.Side, p.Senders, p.BigBytes, p.Renew, p.Eager, p.Delay, p.Cancel),
			Params: p, Cfg: vrt.Config{Horizon: int64(60 * time.Second), DelayBounded: p.Delay},
			Body: c11Body(p), Check: c11Check(p), Bound: bound, MaxExec: maxExec, NeedsConflict: true,
		})
	}
	if thorough {
		add(c11Params{Side: "client", Senders: 2, Renew: "call", Eager: true}, 2, 0)
		add(c11Params{Side: "client", Senders: 2, BigBytes: 20000, Renew: "call", Eager: true}, 2, 0)
		add(c11Params{Side: "client", Senders: 3, BigBytes: 20000, Eager: true}, 2, 0)
		add(c11Params{Side: "client", Senders: 2, Renew: "call"}, 1, 0)
		add(c11Params{Side: "server", Senders: 2, BigBytes: 20000}, 1, 0)
		add(c11Params{Side: "server", Senders: 3}, 1, 0)
		add(c11Params{Side: "client", Senders: 2, Renew: "fails", Delay: true}, 2, 0)
		add(c11Params{Side: "client", Senders: 2, Cancel: true, Delay: true}, 2, 0)
		add(c11Params{Side: "client", Senders: 2, BigBytes: 20000, Cancel: true, Delay: true}, 1, 0)
	} else {
		add(c11Params{Side: "client", Senders: 2, Renew: "call", Delay: true}, 2, 0)
		add(c11Params{Side: "client", Senders: 2, BigBytes: 20000, Renew: "call", Delay: true}, 2, 0)
		add(c11Params{Side: "server", Senders: 2, BigBytes: 20000, Delay: true}, 2, 0)
		add(c11Params{Side: "client", Senders: 2, Renew: "fails", Delay: true}, 1, 0)
		add(c11Params{Side: "client", Senders: 2, Cancel: true, Delay: true}, 2, 0)
	}
	return out
}
