// Package chanx holds the channel-level E2 scenarios (uacp/uasc under the
// controlled scheduler, virtual network and virtual clock).
//
// This file is written in plain Go; e2run instruments it together with the
// repository, so `go`, channels, sync, time, context and net below are the
// scheduler's.
package chanx

import (
	"context"
	"encoding/binary"
	"fmt"
	"time"

	"github.com/gopcua/opcua/ua"
	"github.com/gopcua/opcua/uacp"
	"github.com/gopcua/opcua/uasc"
	"verifrt/driver"
	"verifrt/vnet"
	"verifrt/vrt"
)

const url = "opc.tcp://localhost:4840"

func respHeader(h uint32) *ua.ResponseHeader {
	return &ua.ResponseHeader{RequestHandle: h, ServiceDiagnostics: &ua.DiagnosticInfo{}, StringTable: []string{}, AdditionalHeader: ua.NewExtensionObject(nil)}
}

// echoServer is the real server-side secure channel answering every request:
// ReadRequest -> ReadResponse, WriteRequest -> WriteResponse, each carrying the request handle.
type echoServer struct {
	cfg     *uasc.Config
	sc      *uasc.SecureChannel
	ack     *uacp.Acknowledge
	started chan struct{}
	respond func(s *echoServer, ctx context.Context, msg *uasc.MessageBody) // nil = answer at once
	eager   bool                                                            // the server is a prompt environment, not an explored participant
}

func (s *echoServer) run(ctx context.Context, l *uacp.Listener) {
	vrt.SetEager(s.eager)
	conn, err := l.Accept(ctx)
	if err != nil {
		return
	}
	errch := make(chan error, 8)
	sc, err := uasc.NewServerSecureChannel("", conn, s.cfg, errch, 7, 100, 9)
	if err != nil {
		panic(err)
	}
	s.sc = sc
	for {
		msg := sc.Receive(ctx)
		if msg.Err != nil {
			return
		}
		if msg.Request() == nil {
			continue
		}
		if s.respond != nil {
			s.respond(s, ctx, msg)
			continue
		}
		s.answer(ctx, msg)
	}
}

func responseFor(req ua.Request) ua.Response {
	h := req.Header().RequestHandle
	switch r := req.(type) {
	case *ua.WriteRequest:
		res := make([]ua.StatusCode, len(r.NodesToWrite))
		return &ua.WriteResponse{ResponseHeader: respHeader(h), Results: res, DiagnosticInfos: []*ua.DiagnosticInfo{}}
	case *ua.ReadRequest:
		// the answer names the node that was asked for, so that a caller can tell its own response from another's
		res := []*ua.DataValue{}
		if len(r.NodesToRead) == 1 && r.NodesToRead[0].NodeID != nil {
			res = append(res, &ua.DataValue{EncodingMask: ua.DataValueValue, Value: ua.MustVariant(r.NodesToRead[0].NodeID.IntID())})
		}
		return &ua.ReadResponse{ResponseHeader: respHeader(h), Results: res, DiagnosticInfos: []*ua.DiagnosticInfo{}}
	default:
		return &ua.ReadResponse{ResponseHeader: respHeader(h), Results: []*ua.DataValue{}, DiagnosticInfos: []*ua.DiagnosticInfo{}}
	}
}

func (s *echoServer) answer(ctx context.Context, msg *uasc.MessageBody) error {
	return s.sc.SendResponseWithContext(ctx, msg.RequestID, responseFor(msg.Request()))
}

func readReq(handle uint32) *ua.ReadRequest {
	return &ua.ReadRequest{
		RequestHeader: &ua.RequestHeader{RequestHandle: handle, AuthenticationToken: ua.NewTwoByteNodeID(0), AdditionalHeader: ua.NewExtensionObject(nil)},
		NodesToRead:   []*ua.ReadValueID{{NodeID: ua.NewNumericNodeID(0, 2258), AttributeID: ua.AttributeIDValue, DataEncoding: &ua.QualifiedName{}}},
	}
}

func bigWriteReq(handle uint32, n int) *ua.WriteRequest {
	b := make([]byte, n)
	for i := range b {
		b[i] = byte(i)
	}
	return &ua.WriteRequest{
		RequestHeader: &ua.RequestHeader{RequestHandle: handle, AuthenticationToken: ua.NewTwoByteNodeID(0), AdditionalHeader: ua.NewExtensionObject(nil)},
		NodesToWrite: []*ua.WriteValue{{NodeID: ua.NewNumericNodeID(1, 1), AttributeID: ua.AttributeIDValue,
			Value: &ua.DataValue{EncodingMask: ua.DataValueValue, Value: ua.MustVariant(b)}}},
	}
}

// pair dials a real client channel against the echo server over the virtual network.
func pair(ctx context.Context, srv *echoServer, ccfg *uasc.Config) (*uasc.SecureChannel, chan error) {
	return pairURL(ctx, srv, ccfg, url)
}

func pairURL(ctx context.Context, srv *echoServer, ccfg *uasc.Config, u string) (*uasc.SecureChannel, chan error) {
	l, err := uacp.Listen(ctx, u, srv.ack)
	if err != nil {
		panic(err)
	}
	go srv.run(ctx, l)
	conn, err := uacp.Dial(ctx, u)
	if err != nil {
		panic(err)
	}
	errch := make(chan error, 8)
	sc, err := uasc.NewSecureChannel(u, conn, ccfg, errch)
	if err != nil {
		panic(err)
	}
	if err := sc.Open(ctx); err != nil {
		panic(err)
	}
	return sc, errch
}

// smallAck negotiates 8 KiB chunks in both directions.
func smallAck() *uacp.Acknowledge {
	return &uacp.Acknowledge{ReceiveBufSize: 8192, SendBufSize: 8192, MaxChunkCount: 64, MaxMessageSize: 1 << 20}
}

func noneCfg(lifetime uint32, timeout time.Duration) *uasc.Config {
	return &uasc.Config{SecurityPolicyURI: ua.SecurityPolicyURINone, SecurityMode: ua.MessageSecurityModeNone, Lifetime: lifetime, RequestTimeout: timeout}
}

// ---- wire parsing (security mode None) ----

type wireChunk struct {
	Dir     string // "c2s" or "s2c"
	Type    string // MSG OPN CLO HEL ACK ERR
	Chunk   byte
	Channel uint32
	Seq     uint32
	ReqID   uint32
	Len     int
}

// parseTap reassembles each direction's byte stream and splits it into UACP frames.
func parseTap(tap []vnet.WireEvent) ([]wireChunk, error) {
	var out []wireChunk
	streams := map[int][]byte{}
	var order []int
	dirs := map[int]string{}
	for _, ev := range tap {
		if _, ok := streams[ev.Conn]; !ok {
			order = append(order, ev.Conn)
			if len(ev.From) >= 6 && ev.From[:6] == "client" {
				dirs[ev.Conn] = "c2s"
			} else {
				dirs[ev.Conn] = "s2c"
			}
		}
		streams[ev.Conn] = append(streams[ev.Conn], ev.Data...)
		// frames complete so far on this stream are emitted in write order, which is the wire order
		for {
			b := streams[ev.Conn]
			if len(b) < 8 {
				break
			}
			size := int(binary.LittleEndian.Uint32(b[4:8]))
			if size < 8 {
				return out, fmt.Errorf("frame with size %d on the wire", size)
			}
			if len(b) < size {
				break
			}
			c := wireChunk{Dir: dirs[ev.Conn], Type: string(b[:3]), Chunk: b[3], Len: size}
			f := b[:size]
			switch c.Type {
			case "MSG", "CLO":
				if size >= 24 {
					c.Channel = binary.LittleEndian.Uint32(f[8:])
					c.Seq = binary.LittleEndian.Uint32(f[16:])
					c.ReqID = binary.LittleEndian.Uint32(f[20:])
				}
			case "OPN":
				c.Channel = binary.LittleEndian.Uint32(f[8:])
				p := 12
				for i := 0; i < 3 && p+4 <= size; i++ { // policy uri, sender certificate, receiver thumbprint
					n := int32(binary.LittleEndian.Uint32(f[p:]))
					p += 4
					if n > 0 {
						p += int(n)
					}
				}
				if p+8 <= size {
					c.Seq = binary.LittleEndian.Uint32(f[p:])
					c.ReqID = binary.LittleEndian.Uint32(f[p+4:])
				}
			}
			out = append(out, c)
			streams[ev.Conn] = b[size:]
		}
	}
	return out, nil
}

func fail(x *vrt.Exec) (string, string, string, bool) { return driver.DefaultFail(x) }

// echoedNode returns the node id an echo server's ReadResponse names (0 if none).
func echoedNode(r ua.Response) uint32 {
	if rr, ok := r.(*ua.ReadResponse); ok && len(rr.Results) == 1 && rr.Results[0].Value != nil {
		v, _ := rr.Results[0].Value.Value().(uint32)
		return v
	}
	return 0
}
