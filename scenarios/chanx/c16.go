package chanx

import (
	"context"
	"fmt"
	"sync"
	"time"

	"github.com/gopcua/opcua/ua"
	"github.com/gopcua/opcua/uasc"
	"verifrt/driver"
	"verifrt/vnet"
	"verifrt/vrt"
)

// C16: a client renews its security token once per token, no earlier than half
// of the token's lifetime and before it expires, and requests issued at any
// moment around a renewal, on either side, complete normally.

type c16Params struct {
	LifetimeMs uint32 `json:"lifetime_ms"`
	Requests   int    `json:"requests"`    // client requests, one every quarter lifetime
	ServerPush bool   `json:"server_push"` // the server side also sends (late) responses around the renewal
	StartMs    int    `json:"start_ms"`    // >0: the first request is sent at this time and the others IntervalMs apart
	IntervalMs int    `json:"interval_ms"`
	Parallel   int    `json:"parallel"` // >1: that many requests are issued concurrently at every slot
	Delay      bool   `json:"delay_bounded"`
	ParkMs     int    `json:"parked_request_ms"` // >0: one request is outstanding for this long from the start of the window (its answer is held back like a Publish response)
	During     bool   `json:"during_renewal"` // the requests are issued while an explicit renewal is in flight (its answer takes 200 ms)
}

type c16Obs struct {
	errs     []string
	sent     int
	answered int
	done     bool
	chanErr  string
}

var c16obs *c16Obs

func c16Body(p c16Params) func() {
	return func() {
		obs := &c16Obs{}
		c16obs = obs
		bg := context.Background()
		life := time.Duration(p.LifetimeMs) * time.Millisecond
		srv := &echoServer{cfg: noneCfg(p.LifetimeMs, 0)}
		if p.ServerPush {
			// every answer is sent from its own goroutine after a quarter lifetime, i.e. like a publish
			// response the server emits on its own schedule, possibly right at the renewal
			srv.respond = func(s *echoServer, ctx context.Context, msg *uasc.MessageBody) {
				go func() {
					time.Sleep(life / 4)
					if err := s.answer(ctx, msg); err != nil {
						obs.errs = append(obs.errs, "server response: "+err.Error())
					}
				}()
			}
		}
		if p.ParkMs > 0 {
			srv.respond = func(s *echoServer, ctx context.Context, msg *uasc.MessageBody) {
				if rr, ok := msg.Request().(*ua.ReadRequest); !ok || len(rr.NodesToRead) != 1 || rr.NodesToRead[0].NodeID.IntID() != 9999 {
					s.answer(ctx, msg)
					return
				}
				go func() {
					time.Sleep(time.Duration(p.ParkMs) * time.Millisecond)
					if err := s.answer(ctx, msg); err != nil {
						obs.errs = append(obs.errs, "server response: "+err.Error())
					}
				}()
			}
		}
		timeout := 10 * time.Second
		if d := time.Duration(p.ParkMs)*time.Millisecond + 5*time.Second; d > timeout {
			timeout = d
		}
		if p.ServerPush && life > timeout {
			timeout = life // late answers take a quarter lifetime
		}
		sc, errch := pair(bg, srv, noneCfg(p.LifetimeMs, timeout))
		go func() {
			for err := range errch {
				if err != nil && obs.chanErr == "" {
					obs.chanErr = err.Error()
				}
			}
		}()
		vrt.Settle()
		gap := life / 4
		if p.StartMs > 0 {
			time.Sleep(time.Duration(p.StartMs)*time.Millisecond - time.Duration(p.IntervalMs)*time.Millisecond)
			gap = time.Duration(p.IntervalMs) * time.Millisecond
		}
		vrt.BeginWindow()
		if p.During {
			for _, c := range vnet.Net().Conns {
				if c.LocalAddr().String() == "127.0.0.1:4840" {
					c.SetLatency(200 * time.Millisecond)
				}
			}
			go func() {
				if err := sc.Renew(bg); err != nil {
					obs.errs = append(obs.errs, "explicit renewal: "+err.Error())
				}
			}()
			gap = 50 * time.Millisecond
		}
		var parked sync.WaitGroup
		if p.ParkMs > 0 {
			parked.Add(1)
			obs.sent++
			go func() {
				defer parked.Done()
				rq := readReq(0)
				rq.NodesToRead[0].NodeID = ua.NewNumericNodeID(0, 9999)
				if err := sc.SendRequest(bg, rq, nil, func(ua.Response) error { return nil }); err != nil {
					obs.errs = append(obs.errs, fmt.Sprintf("parked request: %v", err))
				} else {
					obs.answered++
				}
			}()
		}
		for k := 0; k < p.Requests; k++ {
			time.Sleep(gap)
			n := p.Parallel
			if n < 1 {
				n = 1
			}
			var wg sync.WaitGroup
			var mu sync.Mutex
			for j := 0; j < n; j++ {
				obs.sent++
				wg.Add(1)
				send := func() {
					defer wg.Done()
					err := sc.SendRequest(bg, readReq(0), nil, func(ua.Response) error { return nil })
					mu.Lock()
					if err != nil {
						obs.errs = append(obs.errs, fmt.Sprintf("request %d at %v: %v", k, time.Duration(vrt.Now()), err))
					} else {
						obs.answered++
					}
					mu.Unlock()
				}
				if n == 1 {
					send()
				} else {
					go send()
				}
			}
			wg.Wait()
		}
		parked.Wait()
		vrt.EndWindow()
		obs.done = true
	}
}

func c16Check(p c16Params) func(x *vrt.Exec) (string, string, string) {
	tag := fmt.Sprintf("c16/lifetime=%dms/push=%v", p.LifetimeMs, p.ServerPush)
	if p.During {
		tag += "/requests-during-renewal"
	}
	if p.ParkMs > 0 {
		tag += "/request-outstanding-across-renewal"
	}
	life := int64(p.LifetimeMs) * int64(time.Millisecond)
	return func(x *vrt.Exec) (string, string, string) {
		o := c16obs
		chunks, perr := parseTapTimed(vnet.Last().Tap)
		var opnReq, opnResp []int64
		for _, c := range chunks {
			if c.Type == "OPN" && c.Dir == "c2s" {
				opnReq = append(opnReq, c.At)
			}
			if c.Type == "OPN" && c.Dir == "s2c" {
				opnResp = append(opnResp, c.At)
			}
		}
		summary := fmt.Sprintf("OPN requests at %v ms, OPN responses at %v ms, requests sent=%d answered=%d errs=%v channel error=%q", ms(opnReq), ms(opnResp), o.sent, o.answered, o.errs, o.chanErr)
		if x.Fail != nil && x.Fail.Kind == "steps" {
			return "livelock", tag + "/never-quiescent-renewal-storm", "the execution did not reach its end within the step limit; " + summary
		}
		if out, sig, detail, failed := fail(x); failed {
			if sig != "" {
				sig = tag + "/" + sig
			}
			return out, sig, detail + "\n" + summary
		}
		if perr != nil {
			return "bad-wire", tag + "/unparsable-wire", perr.Error()
		}
		out := fmt.Sprintf("renewals=%d answered=%d/%d", len(opnReq)-1, o.answered, o.sent)
		if !o.done {
			return out, tag + "/scenario-did-not-finish", summary
		}
		// token k is created by OPN response k; its renewal request is OPN request k+1
		for k := 0; k+1 < len(opnReq) && k < len(opnResp); k++ {
			age := opnReq[k+1] - opnResp[k]
			if age < life/2 && !(p.During && k == 0) { // the scenario's own explicit renewal is not the timer's
				return out, tag + "/renewed-before-half-of-the-lifetime", fmt.Sprintf("token %d renewed at age %d ms of %d ms; %s", k, age/1e6, life/1e6, summary)
			}
			if age >= life {
				return out, tag + "/renewed-after-expiry", fmt.Sprintf("token %d renewed at age %d ms of %d ms; %s", k, age/1e6, life/1e6, summary)
			}
		}
		// every token that reached its lifetime within the run must have been renewed exactly once (answered requests)
		end := int64(0)
		if n := len(vnet.Last().Tap); n > 0 {
			end = vnet.Last().Tap[n-1].At
		}
		for k := range opnResp {
			renewals := 0
			for j := range opnReq {
				if j > k && opnReq[j] >= opnResp[k] && (k+1 >= len(opnResp) || opnReq[j] <= opnResp[k+1]) {
					renewals++
				}
			}
			if renewals > 1 {
				return out, tag + "/token-renewed-more-than-once", fmt.Sprintf("token %d: %d renewal requests; %s", k, renewals, summary)
			}
			if renewals == 0 && end-opnResp[k] >= life {
				return out, tag + "/token-not-renewed-before-expiry", fmt.Sprintf("token %d; %s", k, summary)
			}
		}
		if len(o.errs) > 0 {
			return out, tag + "/request-failed-around-renewal", summary
		}
		if o.chanErr != "" {
			return out, tag + "/channel-reported-error", summary
		}
		return out, "", ""
	}
}

func ms(ns []int64) []int64 {
	out := make([]int64, len(ns))
	for i, v := range ns {
		out[i] = v / 1e6
	}
	return out
}

type timedChunk struct {
	wireChunk
	At int64
}

func parseTapTimed(tap []vnet.WireEvent) ([]timedChunk, error) {
	// every chunk is written with a single Write, so chunk i of the parse corresponds to the i-th complete frame;
	// recover the times by parsing growing prefixes
	var out []timedChunk
	n := 0
	for i := range tap {
		cs, err := parseTap(tap[:i+1])
		if err != nil {
			return out, err
		}
		for ; n < len(cs); n++ {
			out = append(out, timedChunk{cs[n], tap[i].At})
		}
	}
	return out, nil
}

func c16Scenarios(thorough bool) []driver.Scenario {
	var out []driver.Scenario
	add := func(p c16Params, bound int) {
		out = append(out, driver.Scenario{
			Name:   fmt.Sprintf("c16/lifetime_ms=%d/requests=%d/push=%v/start=%d/every=%d/parallel=%d/during=%v/parked=%d", p.LifetimeMs, p.Requests, p.ServerPush, p.StartMs, p.IntervalMs, p.Parallel, p.During, p.ParkMs),
			Sequential: bound < 0,
			Params: p, Cfg: vrt.Config{Horizon: int64(100 * time.Hour), SelectDeviations: true, MaxSteps: 12000, DelayBounded: p.Delay},
			Body: c16Body(p), Check: c16Check(p), Bound: max(bound, 0), MaxExec: 60000,
		})
	}
	// configurations: every lifetime, default schedule, requests every quarter lifetime over 2.25 lifetimes
	lifetimes := []uint32{2000, 600, 1000, 1300, 1400, 1999, 3000, 10000, 60000, 3600000}
	for _, l := range lifetimes {
		add(c16Params{LifetimeMs: l, Requests: 9}, -1)
		add(c16Params{LifetimeMs: l, Requests: 9, ServerPush: true}, -1)
	}
	// a request whose answer is held back for 1.25 lifetimes (a parked Publish) is outstanding across the renewal
	for _, l := range []uint32{2000, 1000, 10000} {
		add(c16Params{LifetimeMs: l, Requests: 9, ParkMs: int(l) * 5 / 4}, -1)
	}
	// schedules: two requests placed around the first renewal (lifetime 2 s: renewal due at 1.5 s)
	bound := 1
	if thorough {
		bound = 2
	}
	add(c16Params{LifetimeMs: 2000, Requests: 2, StartMs: 1450, IntervalMs: 50}, bound)
	add(c16Params{LifetimeMs: 2000, Requests: 2, StartMs: 1250, IntervalMs: 250, ServerPush: true}, bound)
	add(c16Params{LifetimeMs: 2000, Requests: 2, StartMs: 1450, IntervalMs: 50, ParkMs: 2500}, bound)
	// several requests queued at the renewal gate at the same time (requests at 1.5 s, when the renewal is due)
	add(c16Params{LifetimeMs: 2000, Requests: 1, StartMs: 1500, IntervalMs: 100, Parallel: 3, Delay: true}, bound)
	// ... and while a renewal is in flight (its answer is 200 ms away): all of them wait at the gate and must all be let through
	add(c16Params{LifetimeMs: 3600000, Requests: 1, Parallel: 3, During: true, Delay: true}, bound)
	if thorough {
		add(c16Params{LifetimeMs: 2000, Requests: 3, StartMs: 1450, IntervalMs: 50}, 1)
	}
	return out
}
