package fullx

import "verifrt/driver"

// Scenarios is the registry the generated main calls.
func Scenarios(property string, thorough bool) []driver.Scenario {
	switch property {
	case "C25":
		return c25Scenarios(thorough)
	case "C26":
		return append(c26Scenarios(thorough), c26sScenarios(thorough)...)
	case "C27":
		return c27Scenarios(thorough)
	case "C28":
		return c28Scenarios(thorough)
	case "C36":
		return c36Scenarios(thorough)
	case "C34":
		return c34Scenarios(thorough)
	}
	return nil
}
