package fullx

import (
	"context"
	"fmt"
	"sync"
	"time"

	"github.com/anishathalye/porcupine"
	"github.com/gopcua/opcua"
	"github.com/gopcua/opcua/server"
	"github.com/gopcua/opcua/ua"
	"verifrt/driver"
	"verifrt/vrt"
)

// C34: when several clients read and write the value of the same nodes
// concurrently, every observed history of successful operations is
// linearizable with respect to a register per node.

type c34Op struct {
	Client int   `json:"client"` // -1: server-side writer
	Write  bool  `json:"write"`
	Node   int   `json:"node"`
	Value  int32 `json:"value"`
	// Batch: the operation travels in a request with a second entry in front of it:
	// 1 = for a node of a namespace the server does not have, 2 = for a node that does not exist
	Batch int `json:"batch,omitempty"`
}

func c34Pre(e *env, batch int) *ua.NodeID {
	switch batch {
	case 1:
		return ua.NewNumericNodeID(77, 1)
	case 2:
		return ua.NewNumericNodeID(e.nodeID(0).Namespace(), 424242)
	}
	return nil
}

func c34Write(ctx context.Context, c *opcua.Client, e *env, op c34Op) (ua.StatusCode, error) {
	pre := c34Pre(e, op.Batch)
	if pre == nil {
		return writeInt(ctx, c, e.nodeID(op.Node), op.Value)
	}
	val := func(v int32) *ua.DataValue {
		return &ua.DataValue{EncodingMask: ua.DataValueValue, Value: ua.MustVariant(v)}
	}
	resp, err := c.Write(ctx, &ua.WriteRequest{NodesToWrite: []*ua.WriteValue{
		{NodeID: pre, AttributeID: ua.AttributeIDValue, Value: val(-1)},
		{NodeID: e.nodeID(op.Node), AttributeID: ua.AttributeIDValue, Value: val(op.Value)}}})
	if err != nil {
		return 0, err
	}
	if len(resp.Results) != 2 {
		return 0, fmt.Errorf("%d results", len(resp.Results))
	}
	return resp.Results[1], nil
}

func c34Read(ctx context.Context, c *opcua.Client, e *env, op c34Op) (int32, ua.StatusCode, error) {
	pre := c34Pre(e, op.Batch)
	if pre == nil {
		return readInt(ctx, c, e.nodeID(op.Node))
	}
	resp, err := c.Read(ctx, &ua.ReadRequest{NodesToRead: []*ua.ReadValueID{{NodeID: pre, AttributeID: ua.AttributeIDValue}, {NodeID: e.nodeID(op.Node), AttributeID: ua.AttributeIDValue}}, TimestampsToReturn: ua.TimestampsToReturnNeither})
	if err != nil {
		return 0, 0, err
	}
	if len(resp.Results) != 2 {
		return 0, 0, fmt.Errorf("%d results", len(resp.Results))
	}
	r := resp.Results[1]
	if r.Status != ua.StatusOK || r.Value == nil {
		return 0, r.Status, nil
	}
	v, _ := r.Value.Value().(int32)
	return v, r.Status, nil
}

type c34Params struct {
	Clients [][]c34Op `json:"clients"` // per client, its operations in program order
	Server  []c34Op   `json:"server"`  // operations of a server-side writer (SetAttribute)
	Nodes   int       `json:"nodes"`
	Delay   bool      `json:"delay_bounded"`
}

type c34Event struct {
	op       c34Op
	call     int64
	ret      int64
	out      int32
	ok       bool
	errText  string
}

type c34Obs struct {
	mu     sync.Mutex
	events []c34Event
	done   bool
}

var c34obs *c34Obs

func stepClock() int64 { return int64(vrt.S.Steps) }

func c34Body(p c34Params) func() {
	return func() {
		obs := &c34Obs{}
		c34obs = obs
		ctx := context.Background()
		e := startServer(ctx, p.Nodes)
		var clients []*opcua.Client
		for range p.Clients {
			clients = append(clients, connect(ctx))
		}
		vrt.Settle()
		vrt.BeginWindow()
		var wg sync.WaitGroup
		record := func(ev c34Event) {
			obs.mu.Lock()
			obs.events = append(obs.events, ev)
			obs.mu.Unlock()
		}
		for ci, ops := range p.Clients {
			wg.Add(1)
			go func(ci int, ops []c34Op) {
				defer wg.Done()
				for _, op := range ops {
					op.Client = ci
					ev := c34Event{op: op, call: stepClock()}
					if op.Write {
						st, err := c34Write(ctx, clients[ci], e, op)
						ev.ok = err == nil && st == ua.StatusOK
						if err != nil {
							ev.errText = err.Error()
						} else if st != ua.StatusOK {
							ev.errText = st.Error()
						}
					} else {
						v, st, err := c34Read(ctx, clients[ci], e, op)
						ev.ok = err == nil && st == ua.StatusOK
						ev.out = v
						if err != nil {
							ev.errText = err.Error()
						} else if st != ua.StatusOK {
							ev.errText = st.Error()
						}
					}
					ev.ret = stepClock()
					record(ev)
				}
			}(ci, ops)
		}
		if len(p.Server) > 0 {
			wg.Add(1)
			go func() {
				defer wg.Done()
				for _, op := range p.Server {
					op.Client = -1
					ev := c34Event{op: op, call: stepClock()}
					st := e.ns.SetAttribute(e.nodeID(op.Node), ua.AttributeIDValue, server.DataValueFromValue(op.Value))
					ev.ok = st == ua.StatusOK
					ev.ret = stepClock()
					record(ev)
				}
			}()
		}
		wg.Wait()
		vrt.EndWindow()
		obs.done = true
		for _, c := range clients {
			c.Close(ctx)
		}
	}
}

type regIn struct {
	write bool
	node  int
	val   int32
}

var c34Model = porcupine.Model{
	Partition: func(history []porcupine.Operation) [][]porcupine.Operation {
		m := map[int][]porcupine.Operation{}
		for _, o := range history {
			n := o.Input.(regIn).node
			m[n] = append(m[n], o)
		}
		var out [][]porcupine.Operation
		for _, v := range m {
			out = append(out, v)
		}
		return out
	},
	Init: func() interface{} { return int32(0) },
	Step: func(state, input, output interface{}) (bool, interface{}) {
		in := input.(regIn)
		if in.write {
			return true, in.val
		}
		return output.(int32) == state.(int32), state
	},
	Equal: func(a, b interface{}) bool { return a.(int32) == b.(int32) },
}

func c34Check(p c34Params) func(x *vrt.Exec) (string, string, string) {
	tag := fmt.Sprintf("c34/clients=%d/server_writer=%v/nodes=%d", len(p.Clients), len(p.Server) > 0, p.Nodes)
	return func(x *vrt.Exec) (string, string, string) {
		if out, sig, detail, failed := fail(x); failed {
			if sig != "" {
				sig = tag + "/" + sig
			}
			return out, sig, detail
		}
		o := c34obs
		if !o.done {
			return "unfinished", tag + "/scenario-did-not-finish", ""
		}
		var hist []porcupine.Operation
		out := ""
		desc := ""
		for _, ev := range o.events {
			kind := "r"
			if ev.op.Write {
				kind = "w"
			}
			desc += fmt.Sprintf("\n client %d %s node%d val=%d -> ok=%v out=%d [%d,%d] %s", ev.op.Client, kind, ev.op.Node, ev.op.Value, ev.ok, ev.out, ev.call, ev.ret, ev.errText)
			if !ev.ok {
				out += "E"
				continue // only successful operations are judged
			}
			if ev.op.Write {
				out += fmt.Sprintf("w%d ", ev.op.Value)
			} else {
				out += fmt.Sprintf("r%d ", ev.out)
			}
			hist = append(hist, porcupine.Operation{ClientId: ev.op.Client + 1, Input: regIn{ev.op.Write, ev.op.Node, ev.op.Value}, Output: ev.out, Call: ev.call, Return: ev.ret})
		}
		if len(hist) != len(o.events) {
			return out, tag + "/engine/operation-failed", desc
		}
		if !porcupine.CheckOperations(c34Model, hist) {
			return out, tag + "/history-not-linearizable", "history (logical call/return times are scheduler steps):" + desc
		}
		return out, "", ""
	}
}

func c34Scenarios(thorough bool) []driver.Scenario {
	var out []driver.Scenario
	add := func(name string, p c34Params, bound int) {
		out = append(out, driver.Scenario{
			Name:   "c34/" + name,
			Params: p, Cfg: vrt.Config{Horizon: int64(10 * time.Minute), MaxSteps: 3000000, DelayBounded: p.Delay},
			Body: c34Body(p), Check: c34Check(p), Bound: bound, NeedsConflict: true,
		})
	}
	w := func(n int, v int32) c34Op { return c34Op{Write: true, Node: n, Value: v} }
	r := func(n int) c34Op { return c34Op{Node: n} }
	add("w1r|w2r", c34Params{Nodes: 1, Delay: true, Clients: [][]c34Op{{w(0, 1), r(0)}, {w(0, 2), r(0)}}}, 1)
	add("w1|r,r|server-w2", c34Params{Nodes: 1, Delay: true, Clients: [][]c34Op{{w(0, 1)}, {r(0), r(0)}}, Server: []c34Op{w(0, 2)}}, 1)
	// operations that share their request with an entry the server must refuse
	wb := func(n int, v int32, b int) c34Op { return c34Op{Write: true, Node: n, Value: v, Batch: b} }
	rb := func(n int, b int) c34Op { return c34Op{Node: n, Batch: b} }
	for b := 1; b <= 2; b++ {
		add(fmt.Sprintf("batched%d:w1r|w2r", b), c34Params{Nodes: 1, Delay: true, Clients: [][]c34Op{{wb(0, 1, b), rb(0, b)}, {w(0, 2), r(0)}}}, 0)
	}
	if thorough {
		add("batched1:w1r|w2r/bound1", c34Params{Nodes: 1, Delay: true, Clients: [][]c34Op{{wb(0, 1, 1), rb(0, 1)}, {w(0, 2), r(0)}}}, 1)
		add("w1r|w2r/bound2", c34Params{Nodes: 1, Delay: true, Clients: [][]c34Op{{w(0, 1), r(0)}, {w(0, 2), r(0)}}}, 2)
		add("3clients-2nodes", c34Params{Nodes: 2, Delay: true, Clients: [][]c34Op{{w(0, 1), r(1)}, {w(1, 2), r(0)}, {r(0), r(1)}}}, 1)
		add("w1r|w2r/preemption-bounded", c34Params{Nodes: 1, Clients: [][]c34Op{{w(0, 1), r(0)}, {w(0, 2), r(0)}}}, 1)
	}
	return out
}
