package fullx

import (
	"context"
	"fmt"
	"sync"
	"time"

	"github.com/gopcua/opcua"
	"github.com/gopcua/opcua/monitor"
	"github.com/gopcua/opcua/server"
	"github.com/gopcua/opcua/ua"
	"verifrt/driver"
	"verifrt/vrt"
)

// C28: every data change delivered through the node monitor carries the node id
// that was registered for its client handle, and once writes stop, the last
// value delivered for each monitored node equals that node's current value.

type c28Params struct {
	Script string `json:"script"` // which threads run in the window: S server-side writer, C second client writing, A add/remove nodes
	Writes int    `json:"writes"` // writes per writer and node
	Delay  bool   `json:"delay_bounded"`
	Aged   int    `json:"items_created_before"` // >0: the server has handed out this many monitored item ids before the monitor subscribes
}

type c28Msg struct {
	node  string
	value int32
	err   string
}

type c28Obs struct {
	mu       sync.Mutex
	msgs     []c28Msg
	final    map[string]int32
	monitored map[string]bool
	errs     []string
	done     bool
}

var c28obs *c28Obs

// node k only ever holds values k*1000+j, so a value identifies the node it was written to
func c28Val(k, j int) int32 { return int32((k+1)*1000 + j) }

func c28Body(p c28Params) func() {
	return func() {
		obs := &c28Obs{final: map[string]int32{}, monitored: map[string]bool{}}
		c28obs = obs
		ctx := context.Background()
		const nodes = 3
		e := startServer(ctx, nodes)
		c := connect(ctx)
		c2 := connect(ctx)
		// a second monitor (another client) subscribes first, so that the server's monitored item ids
		// and this monitor's client handles do not coincide
		m2, err := monitor.NewNodeMonitor(c2)
		if err != nil {
			panic(err)
		}
		if _, err := m2.Subscribe(ctx, &opcua.SubscriptionParameters{Interval: 100 * time.Millisecond, MaxKeepAliveCount: 10, LifetimeCount: 1000},
			func(*monitor.Subscription, *monitor.DataChangeMessage) {}, e.nodeID(2).String(), e.nodeID(1).String()); err != nil {
			panic(err)
		}
		if p.Aged > 2 {
			// a server that has been up for a while: its item ids have reached the range of the monitor's client handles
			ch := make(chan *opcua.PublishNotificationData, 1024)
			go func() {
				for range ch {
				}
			}()
			s0, err := c2.Subscribe(ctx, &opcua.SubscriptionParameters{Interval: time.Minute}, ch)
			if err != nil {
				panic(err)
			}
			var reqs []*ua.MonitoredItemCreateRequest
			for i := 0; i < p.Aged-2; i++ {
				reqs = append(reqs, opcua.NewMonitoredItemCreateRequestWithDefaults(e.nodeID(2), ua.AttributeIDDisplayName, uint32(5000+i)))
			}
			if _, err := s0.Monitor(ctx, ua.TimestampsToReturnNeither, reqs...); err != nil {
				panic(err)
			}
		}
		m, err := monitor.NewNodeMonitor(c)
		if err != nil {
			panic(err)
		}
		m.SetErrorHandler(func(_ *opcua.Client, _ *monitor.Subscription, err error) {
			obs.mu.Lock()
			obs.errs = append(obs.errs, err.Error())
			obs.mu.Unlock()
		})
		cb := func(_ *monitor.Subscription, msg *monitor.DataChangeMessage) {
			obs.mu.Lock()
			defer obs.mu.Unlock()
			if msg.Error != nil {
				obs.msgs = append(obs.msgs, c28Msg{err: msg.Error.Error()})
				return
			}
			v := int32(-1)
			if msg.DataValue != nil && msg.DataValue.Value != nil {
				v, _ = msg.DataValue.Value.Value().(int32)
			}
			obs.msgs = append(obs.msgs, c28Msg{node: msg.NodeID.String(), value: v})
		}
		params := &opcua.SubscriptionParameters{Interval: 100 * time.Millisecond, MaxKeepAliveCount: 10, LifetimeCount: 1000}
		sub, err := m.Subscribe(ctx, params, cb, e.nodeID(0).String(), e.nodeID(1).String())
		if err != nil {
			panic(err)
		}
		time.Sleep(500 * time.Millisecond) // initial values delivered
		vrt.BeginWindow()
		var wg sync.WaitGroup
		run := func(f func()) {
			wg.Add(1)
			go func() { defer wg.Done(); f() }()
		}
		has := func(ch byte) bool {
			for i := 0; i < len(p.Script); i++ {
				if p.Script[i] == ch {
					return true
				}
			}
			return false
		}
		if has('S') {
			run(func() {
				for j := 1; j <= p.Writes; j++ {
					for k := 0; k < 2; k++ {
						e.ns.SetAttribute(e.nodeID(k), ua.AttributeIDValue, server.DataValueFromValue(c28Val(k, j)))
						e.ns.ChangeNotification(e.nodeID(k))
						// the application produces its values over time: whatever the other threads do to the
						// same node's monitored items happens between two of its calls
						time.Sleep(10 * time.Millisecond)
					}
				}
			})
		}
		if has('C') {
			run(func() {
				for j := 1; j <= p.Writes; j++ {
					for k := 0; k < 3; k++ {
						if _, err := writeInt(ctx, c2, e.nodeID(k), c28Val(k, 100+j)); err != nil {
							obs.mu.Lock()
							obs.errs = append(obs.errs, "write: "+err.Error())
							obs.mu.Unlock()
						}
					}
				}
			})
		}
		if has('A') {
			run(func() {
				if err := sub.AddNodes(ctx, e.nodeID(2).String()); err != nil {
					obs.mu.Lock()
					obs.errs = append(obs.errs, "add: "+err.Error())
					obs.mu.Unlock()
				}
				if err := sub.RemoveNodes(ctx, e.nodeID(0).String()); err != nil {
					obs.mu.Lock()
					obs.errs = append(obs.errs, "remove: "+err.Error())
					obs.mu.Unlock()
				}
			})
		}
		wg.Wait()
		vrt.EndWindow()
		// one more write to every node after the history: whatever the history did to the monitor's tables shows now
		for k := 0; k < nodes; k++ {
			e.ns.SetAttribute(e.nodeID(k), ua.AttributeIDValue, server.DataValueFromValue(c28Val(k, 500)))
			e.ns.ChangeNotification(e.nodeID(k))
		}
		time.Sleep(time.Second) // writes have stopped: well over three publishing intervals
		for k := 0; k < nodes; k++ {
			v, _, err := readInt(ctx, c2, e.nodeID(k))
			if err != nil {
				obs.errs = append(obs.errs, "final read: "+err.Error())
			}
			obs.final[e.nodeID(k).String()] = v
		}
		obs.monitored[e.nodeID(1).String()] = true
		obs.monitored[e.nodeID(0).String()] = !has('A')
		obs.monitored[e.nodeID(2).String()] = has('A')
		obs.done = true
	}
}

func c28Check(p c28Params) func(x *vrt.Exec) (string, string, string) {
	tag := fmt.Sprintf("c28/script=%s", p.Script)
	if p.Aged > 0 {
		tag += fmt.Sprintf("/item-ids-from=%d", p.Aged+1)
	}
	return func(x *vrt.Exec) (string, string, string) {
		if out, sig, detail, failed := fail(x); failed {
			if sig != "" {
				sig = tag + "/" + sig
			}
			return out, sig, detail
		}
		o := c28obs
		if !o.done {
			return "unfinished", tag + "/scenario-did-not-finish", fmt.Sprint(o.errs)
		}
		last := map[string]int32{}
		seen := map[string]bool{}
		trace := ""
		for _, m := range o.msgs {
			trace += fmt.Sprintf(" %s=%d%s", m.node, m.value, m.err)
			if m.err != "" {
				continue
			}
			// values identify the node they were written to: k*1000+j belongs to node index k-1; 0 is the initial value
			if m.value != 0 {
				owner := fmt.Sprintf("i=%d", 1000+int(m.value)/1000-1)
				if len(m.node) < len(owner) || m.node[len(m.node)-len(owner):] != owner {
					return "wrong-node", tag + "/message-names-the-wrong-node", fmt.Sprintf("a message for node %s carries value %d, which was only ever written to the node with %s; messages:%s", m.node, m.value, owner, trace)
				}
			}
			last[m.node] = m.value
			seen[m.node] = true
		}
		out := fmt.Sprintf("msgs=%d", len(o.msgs))
		for node, mon := range o.monitored {
			if !mon {
				continue
			}
			if !seen[node] {
				return out, tag + "/no-message-for-a-monitored-node", fmt.Sprintf("node %s; final values %v; messages:%s; errors %v", node, o.final, trace, o.errs)
			}
			if last[node] != o.final[node] {
				return out, tag + "/last-delivered-value-is-not-the-current-value", fmt.Sprintf("node %s: last delivered %d, current value on the server %d; messages:%s; errors %v", node, last[node], o.final[node], trace, o.errs)
			}
		}
		return out, "", ""
	}
}

func c28Scenarios(thorough bool) []driver.Scenario {
	var out []driver.Scenario
	add := func(p c28Params, bound int) {
		out = append(out, driver.Scenario{
			Name:   fmt.Sprintf("c28/script=%s/writes=%d/delay_bounded=%v/aged=%d", p.Script, p.Writes, p.Delay, p.Aged),
			Params: p, Cfg: vrt.Config{Horizon: int64(time.Hour), MaxSteps: 5000000, DelayBounded: p.Delay, TimersFirst: p.Delay},
			Body: c28Body(p), Check: c28Check(p), Bound: max(bound, 0), Sequential: bound < 0,
		})
	}
	for _, sc := range []string{"S", "C", "SC", "A", "SA", "CA", "SCA"} {
		for _, w := range []int{1, 2} {
			add(c28Params{Script: sc, Writes: w}, -1)
		}
	}
	// every alignment of the server's item ids with the monitor's client handles (101, 102, 103)
	for aged := 97; aged <= 104; aged++ {
		add(c28Params{Script: "SA", Writes: 1, Aged: aged}, -1)
	}
	add(c28Params{Script: "SC", Writes: 1, Delay: true}, 1)
	add(c28Params{Script: "SA", Writes: 1, Delay: true}, 1)
	if thorough {
		add(c28Params{Script: "SCA", Writes: 2, Delay: true}, 1)
		add(c28Params{Script: "SC", Writes: 1, Delay: true}, 2)
	}
	return out
}
