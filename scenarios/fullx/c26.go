package fullx

import (
	"context"
	"fmt"
	"sort"
	"strings"
	"sync"
	"time"

	"github.com/gopcua/opcua"
	"github.com/gopcua/opcua/server"
	"github.com/gopcua/opcua/ua"
	"verifrt/driver"
	"verifrt/vnet"
	"verifrt/vrt"
)

// C26: after a connection loss and successful reconnect every subscription that
// was active keeps delivering data change notifications for all of its
// monitored items, and each notification the client receives is acknowledged to
// the server exactly once unless the server reports it unknown.

type c26Params struct {
	Subs   int        `json:"subscriptions"`
	Items  int        `json:"items_per_subscription"`
	Faults []c25Fault `json:"faults"` // operation numbers count from the end of the set-up
	Mixed  bool       `json:"mixed_timestamps"` // the items of a subscription alternate between TimestampsToReturn Both and Source
	Second string     `json:"second_fault"`     // reset | restart: a second loss, 20 intervals after the first fault window began
	Cancel int        `json:"cancel_after_ms"`  // >0: the last subscription is cancelled this long after the steady state began (its items need not deliver afterwards)
}

type c26Obs struct {
	setupErr  string
	delivered map[string]int32 // "sub/handle" -> highest value delivered
	lastWrite map[int]int32    // node -> last value written by the server-side writer
	afterRec  map[string]bool  // "sub/handle" -> a value written after the recovery point was delivered
	injected  []string
	state     opcua.ConnState
	done      bool
	recoverAt int64
	secondAt  int64
}

var c26obs *c26Obs

func c26Body(p c26Params) func() {
	return func() {
		obs := &c26Obs{delivered: map[string]int32{}, lastWrite: map[int]int32{}, afterRec: map[string]bool{}}
		c26obs = obs
		ctx := context.Background()
		nodes := p.Subs * p.Items
		e := startServer(ctx, nodes)
		n := vnet.Net()
		addr := "127.0.0.1:4840"
		restart := make(chan struct{}, 4)
		var emu sync.Mutex // the operator replaces e when it restarts the server
		cur := func() *env { emu.Lock(); defer emu.Unlock(); return e }
		go func() {
			for range restart {
				n.SetDown(addr, true)
				e.srv.Close()
				ne := startServer(ctx, nodes)
				emu.Lock()
				e = ne
				emu.Unlock()
				n.SetDown(addr, false)
			}
		}()
		c := connect(ctx, opcua.AutoReconnect(true), opcua.ReconnectInterval(c25Interval), opcua.RequestTimeout(5*time.Second))
		notifs := make(chan *opcua.PublishNotificationData, 256)
		recovered := false
		var recVal int32
		go func() {
			for nd := range notifs {
				if nd == nil || nd.Value == nil {
					continue
				}
				dc, ok := nd.Value.(*ua.DataChangeNotification)
				if !ok {
					continue
				}
				for _, it := range dc.MonitoredItems {
					if it.Value == nil || it.Value.Value == nil {
						continue
					}
					v, _ := it.Value.Value.Value().(int32)
					key := fmt.Sprintf("h%d", it.ClientHandle)
					if v > obs.delivered[key] {
						obs.delivered[key] = v
					}
					if recovered && v > recVal {
						obs.afterRec[key] = true
					}
				}
			}
		}()
		params := &opcua.SubscriptionParameters{Interval: 100 * time.Millisecond, MaxKeepAliveCount: 10, LifetimeCount: 1000}
		var subs []*opcua.Subscription
		for s := 0; s < p.Subs; s++ {
			sub, err := c.Subscribe(ctx, params, notifs)
			subs = append(subs, sub)
			if err != nil {
				obs.setupErr = err.Error()
				return
			}
			for i := 0; i < p.Items; i++ {
				k := s*p.Items + i
				ts := ua.TimestampsToReturnBoth
				if p.Mixed && k%2 == 1 {
					ts = ua.TimestampsToReturnSource
				}
				if _, err := sub.Monitor(ctx, ts, opcua.NewMonitoredItemCreateRequestWithDefaults(e.nodeID(k), ua.AttributeIDValue, uint32(100+k))); err != nil {
					obs.setupErr = err.Error()
					return
				}
			}
		}
		// server-side writer: a new value on every node every 300 ms
		var tick int32
		stop := false
		go func() {
			for !stop {
				time.Sleep(300 * time.Millisecond)
				tick++
				for k := 0; k < nodes; k++ {
					cur := cur()
					if cur.ns.SetAttribute(cur.nodeID(k), ua.AttributeIDValue, server.DataValueFromValue(tick)) == ua.StatusOK {
						cur.ns.ChangeNotification(cur.nodeID(k))
						obs.lastWrite[k] = tick
					}
				}
			}
		}()
		time.Sleep(time.Second) // steady state: a few notifications and acknowledgements have flowed
		ops := 0
		n.FaultAt = func(_ int, op, local string) string {
			if !strings.HasPrefix(local, "client") {
				return ""
			}
			ops++
			for _, f := range p.Faults {
				if f.At != ops {
					continue
				}
				obs.injected = append(obs.injected, fmt.Sprintf("%s at client op %d (%s)", f.Kind, f.At, op))
				switch f.Kind {
				case "restart":
					for _, cn := range n.Conns {
						cn.Reset()
					}
					select {
					case restart <- struct{}{}:
					default:
					}
				case "outage1", "outage3":
					d := c25Interval
					if f.Kind == "outage3" {
						d = 3 * c25Interval
					}
					n.SetDown(addr, true)
					vrt.AddTimer(int64(d)+int64(100*time.Millisecond), func() { n.SetDown(addr, false) })
				}
				return "reset"
			}
			return ""
		}
		if p.Cancel > 0 {
			time.Sleep(time.Duration(p.Cancel) * time.Millisecond)
			if err := subs[len(subs)-1].Cancel(ctx); err != nil {
				obs.setupErr = "cancel: " + err.Error()
				return
			}
		}
		time.Sleep(20 * c25Interval) // faults strike, the client reconnects and restores its subscriptions
		if p.Second != "" {
			obs.injected = append(obs.injected, fmt.Sprintf("%s at %d ms", p.Second, vrt.Now()/1e6))
			obs.secondAt = vrt.Now()
			for _, cn := range n.Conns {
				cn.Reset()
			}
			if p.Second == "restart" {
				select {
				case restart <- struct{}{}:
				default:
				}
			}
			time.Sleep(20 * c25Interval)
		}
		recovered, recVal = true, tick
		obs.recoverAt = vrt.Now()
		time.Sleep(30 * c25Interval) // every item must deliver values written after the recovery point
		stop = true
		obs.state = c.State()
		obs.done = true
	}
}

func c26Check(p c26Params) func(x *vrt.Exec) (string, string, string) {
	kinds := ""
	for _, f := range p.Faults {
		kinds += "+" + f.Kind
	}
	if p.Second != "" {
		kinds += "+later:" + p.Second
	}
	if p.Cancel > 0 {
		kinds += "+cancel-one"
	}
	tag := fmt.Sprintf("c26/subs=%d/items=%d/faults=%s", p.Subs, p.Items, kinds)
	if p.Mixed {
		tag += "/mixed-timestamps"
	}
	return func(x *vrt.Exec) (string, string, string) {
		if out, sig, detail, failed := fail(x); failed {
			if sig != "" {
				sig = tag + "/" + sig
			}
			return out, sig, detail
		}
		o := c26obs
		if o.setupErr != "" {
			return "setup-error", tag + "/engine/setup-failed", o.setupErr
		}
		if !o.done {
			return "unfinished", tag + "/scenario-did-not-finish", ""
		}
		// deliveries after recovery
		var missing []string
		for k := 0; k < p.Subs*p.Items; k++ {
			if p.Cancel > 0 && k/p.Items == p.Subs-1 {
				continue // the cancelled subscription
			}
			if !o.afterRec[fmt.Sprintf("h%d", 100+k)] {
				missing = append(missing, fmt.Sprintf("item handle %d (sub %d)", 100+k, k/p.Items))
			}
		}
		msgs := decodeTap(vnet.Last().Tap)
		twice, never, nReceived := c26AckAudit(msgs)
		received := map[int]int{}
		for i := 0; i < nReceived; i++ {
			received[i] = i
		}
		sort.Strings(twice)
		sort.Strings(never)
		out := fmt.Sprintf("injected=%d state=%v missing=%d acked-twice=%d never-acked=%d", len(o.injected), o.state, len(missing), len(twice), len(never))
		detail := fmt.Sprintf("faults: %v\nitems without a data change for a value written after the recovery point: %v\nhighest values delivered: %v, last written: %v\nnotifications received: %d; acknowledged Good more than once: %v; never acknowledged although later publish exchanges took place: %v",
			o.injected, missing, o.delivered, o.lastWrite, len(received), twice, never)
		if len(twice)+len(never)+len(missing) > 0 {
			// the message exchange after the first fault, for the reader of the artefact
			var lines []string
			npub, nresp := 0, 0
			for _, m := range msgs {
				if len(o.injected) > 0 && m.Conn == 0 {
					continue
				}
				if o.secondAt > 0 && m.At < o.secondAt {
					continue // the exchange after the second loss
				}
				l := fmt.Sprintf("%dms conn%d %s req%d %T", m.At/1e6, m.Conn, m.Dir, m.ReqID, m.Svc)
				if r, ok := m.Svc.(ua.Response); ok && r.Header() != nil && r.Header().ServiceResult != ua.StatusOK {
					l += " " + r.Header().ServiceResult.Error()
				}
				if _, ok := m.Svc.(*ua.PublishRequest); ok {
					npub++
					if npub > 3 {
						continue
					}
				}
				if pr, ok := m.Svc.(*ua.PublishResponse); ok {
					nresp++
					l += fmt.Sprintf(" sub=%d", pr.SubscriptionID)
					if pr.NotificationMessage != nil {
						l += fmt.Sprintf(" seq=%d data=%d", pr.NotificationMessage.SequenceNumber, len(pr.NotificationMessage.NotificationData))
					}
					if nresp > 3 && (pr.NotificationMessage == nil || len(pr.NotificationMessage.NotificationData) == 0) {
						continue
					}
				}
				lines = append(lines, l)
				if len(lines) >= 40 {
					break
				}
			}
			detail += fmt.Sprintf("\nmessages after the fault (%d publish requests, %d publish responses; only the first three of each and those with data are listed):\n  ", npub, nresp) + strings.Join(lines, "\n  ")
		}
		switch {
		case len(twice) > 0:
			return out, tag + "/notification-acknowledged-twice", detail
		case len(never) > 0:
			return out, tag + "/notification-never-acknowledged", detail
		case len(missing) > 0 && len(o.injected) == 0:
			return out, tag + "/engine/no-delivery-without-fault", detail
		case len(missing) > 0:
			return out, tag + "/no-data-change-after-reconnect", detail
		}
		return out, "", ""
	}
}

func c26Scenarios(thorough bool) []driver.Scenario {
	var out []driver.Scenario
	add := func(p c26Params) {
		name := fmt.Sprintf("c26/subs=%d/items=%d", p.Subs, p.Items)
		for _, f := range p.Faults {
			name += fmt.Sprintf("/%s@%d", f.Kind, f.At)
		}
		if p.Second != "" {
			name += "/then-" + p.Second
		}
		if p.Cancel > 0 {
			name += fmt.Sprintf("/cancel-last-after-%dms", p.Cancel)
		}
		if p.Mixed {
			name += "/mixed-timestamps"
		}
		out = append(out, driver.Scenario{
			Name:   name,
			Params: p, Cfg: vrt.Config{Horizon: int64(time.Hour), MaxSteps: 8000000},
			Body: c26Body(p), Check: c26Check(p), Sequential: true,
		})
	}
	add(c26Params{Subs: 1, Items: 1})
	add(c26Params{Subs: 2, Items: 2})
	kinds := []string{"reset", "restart", "outage1", "outage3"}
	shapes := [][2]int{{1, 1}}
	maxAt := 12
	if thorough {
		shapes = [][2]int{{1, 1}, {2, 1}, {1, 2}, {2, 2}}
		maxAt = 24
	}
	for _, sh := range shapes {
		for _, k := range kinds {
			for at := 1; at <= maxAt; at++ {
				add(c26Params{Subs: sh[0], Items: sh[1], Faults: []c25Fault{{at, k}}})
			}
		}
	}
	// two losses in a row (the subscription is restored twice), items with different timestamp settings
	// one of two subscriptions is cancelled while acknowledgements are in flight, at every phase of the publishing interval
	for ms := 10; ms <= 100; ms += 10 {
		add(c26Params{Subs: 2, Items: 1, Cancel: ms})
	}
	add(c26Params{Subs: 1, Items: 2, Mixed: true})
	secondAt := 4
	if thorough {
		secondAt = 12
	}
	for _, k := range kinds {
		for _, k2 := range []string{"reset", "restart"} {
			for at := 1; at <= secondAt; at++ {
				add(c26Params{Subs: 1, Items: 2, Mixed: true, Faults: []c25Fault{{at, k}}, Second: k2})
			}
		}
	}
	if !thorough {
		for _, k := range kinds {
			for at := 1; at <= 6; at += 1 {
				add(c26Params{Subs: 2, Items: 2, Faults: []c25Fault{{at, k}}})
			}
		}
	}
	return out
}

// c26AckAudit replays the publish exchange seen on the wire and reports notifications that were
// acknowledged (in a request the client saw answered without a retry being asked for) more often
// than they were received, and notifications never acknowledged although later exchanges took place.
func c26AckAudit(msgs []wireMsg) (twice, never []string, nReceived int) {
	// acknowledgements, from the wire: which (subscription, sequence number) the client received with
	// notification data, and in which PublishRequests it acknowledged them with which result
	type key struct{ sub, seq uint32 }
	type incl struct {
		req      uint32
		conn     int
		answered bool
		status   ua.StatusCode
		hasStat  bool
	}
	received := map[key]int{}  // index of the (last) message that delivered it
	recvCount := map[key]int{} // a restarted server re-uses subscription ids and sequence numbers: count the notifications per id
	recvConn := map[key]int{}
	sent := map[key][]*incl{} // PublishRequests that carried the acknowledgement, in wire order
	type rk struct {
		conn int
		req  uint32
	}
	byReq := map[rk][]*incl{}
	asked := map[rk]bool{} // PublishRequests the client sent, per connection
	lastResp := -1
	for i, m := range msgs {
		switch v := m.Svc.(type) {
		case *ua.PublishRequest:
			if m.Dir != "c2s" {
				continue
			}
			asked[rk{m.Conn, m.ReqID}] = true
			for _, a := range v.SubscriptionAcknowledgements {
				in := &incl{req: m.ReqID, conn: m.Conn}
				k := key{a.SubscriptionID, a.SequenceNumber}
				sent[k] = append(sent[k], in)
				byReq[rk{m.Conn, m.ReqID}] = append(byReq[rk{m.Conn, m.ReqID}], in)
			}
		case *ua.PublishResponse:
			if m.Dir != "s2c" || !m.Consumed {
				continue // a response the client never read does not count as an answer
			}
			if !asked[rk{m.Conn, m.ReqID}] {
				// The server answered a PublishRequest of an earlier connection on this one (it keeps a
				// session's queued requests across channels): the client has no such request outstanding,
				// cannot attribute the response and so never received this notification.
				continue
			}
			lastResp = i
			for j, in := range byReq[rk{m.Conn, m.ReqID}] {
				in.answered = true
				if j < len(v.Results) {
					in.status, in.hasStat = v.Results[j], true
				}
			}
			if v.NotificationMessage != nil && len(v.NotificationMessage.NotificationData) > 0 {
				received[key{v.SubscriptionID, v.NotificationMessage.SequenceNumber}] = i
				recvCount[key{v.SubscriptionID, v.NotificationMessage.SequenceNumber}]++
				recvConn[key{v.SubscriptionID, v.NotificationMessage.SequenceNumber}] = m.Conn
			}
		case *ua.ServiceFault:
			for _, in := range byReq[rk{m.Conn, m.ReqID}] {
				in.answered = true
				in.status, in.hasStat = ua.StatusBad, true // the whole request failed: acknowledging again is legitimate
			}
		}
	}
	// The last publish response the client read on a connection that broke afterwards may or may not
	// have been processed (the request can fail with EOF although its response was read): an
	// acknowledgement answered by it is not counted as made, so that acknowledging again is not a duplicate.
	maxConn := 0
	lastOn := map[int]uint32{}
	for _, m := range msgs {
		if m.Conn > maxConn {
			maxConn = m.Conn
		}
		if _, ok := m.Svc.(*ua.PublishResponse); ok && m.Dir == "s2c" && m.Consumed {
			lastOn[m.Conn] = m.ReqID
		}
	}
	for conn, req := range lastOn {
		if conn == maxConn {
			continue
		}
		for _, in := range byReq[rk{conn, req}] {
			in.answered = false
		}
	}
	for k, idx := range received {
		ins := sent[k]
		// an acknowledgement counts as made once a request carrying it was answered without asking for a
		// retry (Good, or the server reporting the message unknown, or no per-acknowledgement result at all)
		made := 0
		for _, in := range ins {
			if !in.answered {
				continue // the request was lost with the connection: sending the acknowledgement again is legitimate
			}
			if !in.hasStat || in.status == ua.StatusOK || in.status == ua.StatusBadSequenceNumberUnknown || in.status == ua.StatusBadSubscriptionIDInvalid {
				made++
			}
		}
		if made > recvCount[k] {
			d := fmt.Sprintf("%d/%d received %dx acknowledged %dx:", k.sub, k.seq, recvCount[k], made)
			for _, in := range ins {
				d += fmt.Sprintf(" [req%d conn%d answered=%v status=%v]", in.req, in.conn, in.answered, in.status)
			}
			twice = append(twice, d)
		}
		if len(ins) == 0 {
			// only a notification the client had the chance to acknowledge counts: further publish
			// responses arrived after it, so further PublishRequests were sent
			later := 0
			for j := idx + 1; j <= lastResp; j++ {
				if _, ok := msgs[j].Svc.(*ua.PublishResponse); ok && msgs[j].Dir == "s2c" && msgs[j].Conn == recvConn[k] {
					later++
				}
			}
			if later >= 3 {
				never = append(never, fmt.Sprintf("%d/%d", k.sub, k.seq))
			}
		}
	}
	return twice, never, len(received)
}
