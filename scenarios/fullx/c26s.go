package fullx

import (
	"context"
	"fmt"
	"time"

	"github.com/gopcua/opcua"
	"github.com/gopcua/opcua/id"
	"github.com/gopcua/opcua/server"
	"github.com/gopcua/opcua/ua"
	"github.com/gopcua/opcua/uasc"
	"verifrt/driver"
	"verifrt/vnet"
	"verifrt/vrt"
)

// C26, publish histories from a scripted server: the real server with its Publish handler replaced
// (the public RegisterHandler wins when called before Start) answers every PublishRequest at once with
// a data change notification and reports, per acknowledgement, a status taken from a script. The gopcua
// server itself never reports per-acknowledgement results, so this is the only way to drive the client's
// acknowledgement bookkeeping through Good / unknown / retry outcomes.

type c26sParams struct {
	Script []string `json:"ack_results"` // status reported for the k-th acknowledgement the server sees (cyclic)
	Rounds int      `json:"rounds"`
}

type c26sObs struct {
	rounds int
	err    string
	done   bool
}

var c26sobs *c26sObs

var c26sStatus = map[string]ua.StatusCode{
	"good":    ua.StatusOK,
	"unknown": ua.StatusBadSequenceNumberUnknown,
	"nosub":   ua.StatusBadSubscriptionIDInvalid,
	"retry":   ua.StatusBadInternalError,
}

func c26sBody(p c26sParams) func() {
	return func() {
		obs := &c26sObs{}
		c26sobs = obs
		ctx := context.Background()
		s := server.New(server.EnableSecurity("None", ua.MessageSecurityModeNone), server.EnableAuthMode(ua.UserTokenTypeAnonymous), server.EndPoint(host, port))
		var seq uint32
		acks := 0
		s.RegisterHandler(id.PublishRequest_Encoding_DefaultBinary, func(sc *uasc.SecureChannel, r ua.Request, reqID uint32) (ua.Response, error) {
			req := r.(*ua.PublishRequest)
			if obs.rounds >= p.Rounds {
				return nil, nil // the history is over: keep the request pending
			}
			obs.rounds++
			time.Sleep(100 * time.Millisecond)
			seq++
			results := make([]ua.StatusCode, len(req.SubscriptionAcknowledgements))
			for i := range results {
				results[i] = c26sStatus[p.Script[acks%len(p.Script)]]
				acks++
			}
			return &ua.PublishResponse{
				ResponseHeader: &ua.ResponseHeader{Timestamp: time.Now(), RequestHandle: req.RequestHeader.RequestHandle, ServiceDiagnostics: &ua.DiagnosticInfo{}, StringTable: []string{}, AdditionalHeader: ua.NewExtensionObject(nil)},
				SubscriptionID: 1,
				NotificationMessage: &ua.NotificationMessage{SequenceNumber: seq, PublishTime: time.Now(), NotificationData: []*ua.ExtensionObject{
					ua.NewExtensionObject(&ua.DataChangeNotification{MonitoredItems: []*ua.MonitoredItemNotification{{ClientHandle: 100, Value: &ua.DataValue{EncodingMask: ua.DataValueValue, Value: ua.MustVariant(int32(seq))}}}, DiagnosticInfos: []*ua.DiagnosticInfo{}}),
				}},
				AvailableSequenceNumbers: []uint32{},
				Results:                  results,
				DiagnosticInfos:          []*ua.DiagnosticInfo{},
			}, nil
		})
		if err := s.Start(ctx); err != nil {
			panic(err)
		}
		c := connect(ctx, opcua.RequestTimeout(5*time.Second))
		notifs := make(chan *opcua.PublishNotificationData, 256)
		go func() {
			for range notifs {
			}
		}()
		if _, err := c.Subscribe(ctx, &opcua.SubscriptionParameters{Interval: 100 * time.Millisecond, MaxKeepAliveCount: 10, LifetimeCount: 1000}, notifs); err != nil {
			obs.err = err.Error()
		}
		time.Sleep(time.Duration(p.Rounds+5) * 200 * time.Millisecond)
		obs.done = true
	}
}

func c26sCheck(p c26sParams) func(x *vrt.Exec) (string, string, string) {
	tag := fmt.Sprintf("c26/scripted-publish/acks=%v", p.Script)
	return func(x *vrt.Exec) (string, string, string) {
		if out, sig, detail, failed := fail(x); failed {
			if sig != "" {
				sig = tag + "/" + sig
			}
			return out, sig, detail
		}
		o := c26sobs
		if !o.done || o.err != "" {
			return "setup", tag + "/engine/setup-failed", o.err
		}
		twice, never, n := c26AckAudit(decodeTap(vnet.Last().Tap))
		out := fmt.Sprintf("rounds=%d received=%d acked-twice=%d never-acked=%d", o.rounds, n, len(twice), len(never))
		detail := fmt.Sprintf("per-acknowledgement results scripted %v over %d publish rounds; acknowledged again although answered without a retry being due: %v; never acknowledged: %v", p.Script, o.rounds, twice, never)
		if o.rounds < p.Rounds {
			return out, tag + "/engine/history-not-played", detail
		}
		if len(twice) > 0 {
			return out, tag + "/notification-acknowledged-twice", detail
		}
		if len(never) > 0 {
			return out, tag + "/notification-never-acknowledged", detail
		}
		return out, "", ""
	}
}

func c26sScenarios(thorough bool) []driver.Scenario {
	var out []driver.Scenario
	alphabet := []string{"good", "unknown", "nosub", "retry"}
	maxLen := 2
	if thorough {
		maxLen = 3
	}
	var rec func(cur []string)
	rec = func(cur []string) {
		if len(cur) > 0 {
			p := c26sParams{Script: append([]string(nil), cur...), Rounds: 10}
			out = append(out, driver.Scenario{
				Name:   fmt.Sprintf("c26/scripted-publish/%v", p.Script),
				Params: p, Cfg: vrt.Config{Horizon: int64(time.Hour), MaxSteps: 8000000},
				Body: c26sBody(p), Check: c26sCheck(p), Sequential: true,
			})
		}
		if len(cur) == maxLen {
			return
		}
		for _, a := range alphabet {
			rec(append(cur, a))
		}
	}
	rec(nil)
	return out
}
