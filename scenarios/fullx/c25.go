package fullx

import (
	"context"
	"fmt"
	"strings"
	"sync"
	"time"

	"github.com/gopcua/opcua"
	"verifrt/driver"
	"verifrt/vnet"
	"verifrt/vrt"
)

// C25: for any sequence of connection drops, server restarts and outages the
// client reports only documented state transitions, returns to Connected with
// working requests once the server is reachable again (auto-reconnect on), and
// after Close reports Closed, makes no further connection attempts and leaves
// no background goroutines running.

type c25Fault struct {
	At   int    `json:"at"`   // running number of the client-side network operation (1-based)
	Kind string `json:"kind"` // reset | restart | outage1 | outage3
}

type c25Params struct {
	AutoReconnect bool       `json:"auto_reconnect"`
	Faults        []c25Fault `json:"faults"`
}

type c25Obs struct {
	states        []opcua.ConnState
	connectErrs   []string
	read1, read2  string
	stateAfterRec opcua.ConnState
	stateAfterCls opcua.ConnState
	dialsAtClose  int
	dialsLater    int
	live          []string
	clientOps     int
	injected      []string
	done          bool
	closeErr      string
}

var c25obs *c25Obs

const c25Interval = time.Second

func c25Body(p c25Params) func() {
	return func() {
		obs := &c25Obs{}
		c25obs = obs
		ctx := context.Background()
		vrt.SetTag("server")
		e := startServer(ctx, 1)
		n := vnet.Net()
		addr := "127.0.0.1:4840"
		restart := make(chan struct{}, 4)
		var emu sync.Mutex // the operator replaces e when it restarts the server
		cur := func() *env { emu.Lock(); defer emu.Unlock(); return e }
		go func() { // the operator: restarts the server when asked
			for range restart {
				n.SetDown(addr, true)
				e.srv.Close()
				ne := startServer(ctx, 1)
				emu.Lock()
				e = ne
				emu.Unlock()
				n.SetDown(addr, false)
			}
		}()
		n.FaultAt = func(_ int, op, local string) string {
			if !strings.HasPrefix(local, "client") {
				return ""
			}
			obs.clientOps++
			for _, f := range p.Faults {
				if f.At != obs.clientOps {
					continue
				}
				if f.Kind == "stall" {
					// the server stops answering this one message (the client's write is swallowed); a fault only at writes
					if op != "write" {
						return ""
					}
					obs.injected = append(obs.injected, fmt.Sprintf("%s at client op %d (%s)", f.Kind, f.At, op))
					return "drop"
				}
				obs.injected = append(obs.injected, fmt.Sprintf("%s at client op %d (%s)", f.Kind, f.At, op))
				switch f.Kind {
				case "restart":
					for _, c := range n.Conns {
						c.Reset()
					}
					select {
					case restart <- struct{}{}:
					default:
					}
				case "outage1", "outage3":
					d := c25Interval
					if f.Kind == "outage3" {
						d = 3 * c25Interval
					}
					n.SetDown(addr, true)
					vrt.AddTimer(int64(d)+int64(100*time.Millisecond), func() { n.SetDown(addr, false) })
				}
				return "reset"
			}
			return ""
		}
		vrt.SetTag("client")
		c, err := opcua.NewClient(url,
			opcua.AutoReconnect(p.AutoReconnect), opcua.ReconnectInterval(c25Interval), opcua.RequestTimeout(5*time.Second),
			opcua.StateChangedFunc(func(s opcua.ConnState) { obs.states = append(obs.states, s) }))
		if err != nil {
			panic(err)
		}
		connected := false
		for attempt := 0; attempt < 4 && !connected; attempt++ {
			cctx, ccancel := context.WithTimeout(ctx, 10*time.Second) // a caller that does not wait forever for a silent server
			err := c.Connect(cctx)
			ccancel()
			if err != nil {
				obs.connectErrs = append(obs.connectErrs, err.Error())
				time.Sleep(5 * c25Interval) // the server is reachable again by then
				continue
			}
			connected = true
		}
		if connected {
			if _, _, err := readInt(ctx, c, cur().nodeID(0)); err != nil {
				obs.read1 = err.Error()
			}
			// The server is reachable again at the latest 3.1 intervals after the last fault. A fault that
			// strikes during one of these reads makes that read fail; the faults are finitely many, so a
			// later attempt (after another recovery period) must succeed.
			for attempt := 0; attempt < 2+len(p.Faults); attempt++ {
				time.Sleep(20 * c25Interval)
				obs.stateAfterRec = c.State()
				_, _, err := readInt(ctx, c, cur().nodeID(0))
				if err == nil && obs.stateAfterRec == opcua.Connected {
					obs.read2 = ""
					break
				}
				obs.read2 = fmt.Sprint(err)
			}
		}
		if err := c.Close(ctx); err != nil {
			obs.closeErr = err.Error()
		}
		obs.stateAfterCls = c.State()
		obs.dialsAtClose = n.Dials
		time.Sleep(30 * c25Interval)
		obs.dialsLater = n.Dials
		obs.live = vrt.LiveThreads("client")
		obs.done = true
	}
}

var c25Allowed = map[[2]opcua.ConnState]bool{
	{opcua.Closed, opcua.Connecting}:         true,
	{opcua.Connecting, opcua.Connected}:      true,
	{opcua.Connecting, opcua.Closed}:         true,
	{opcua.Connected, opcua.Disconnected}:    true,
	{opcua.Connected, opcua.Closed}:          true,
	{opcua.Disconnected, opcua.Reconnecting}: true,
	{opcua.Disconnected, opcua.Closed}:       true,
	{opcua.Reconnecting, opcua.Connected}:    true,
	{opcua.Reconnecting, opcua.Closed}:       true,
	{opcua.Reconnecting, opcua.Disconnected}: true, // a new loss while reconnecting
}

func c25Check(p c25Params) func(x *vrt.Exec) (string, string, string) {
	kinds := ""
	for _, f := range p.Faults {
		kinds += "+" + f.Kind
	}
	tag := fmt.Sprintf("c25/auto=%v/faults=%s", p.AutoReconnect, kinds)
	return func(x *vrt.Exec) (string, string, string) {
		if out, sig, detail, failed := fail(x); failed {
			if sig != "" {
				sig = tag + "/" + sig
			}
			return out, sig, detail
		}
		o := c25obs
		var seq []string
		prev := opcua.Closed
		bad := ""
		for _, s := range o.states {
			if s == prev {
				continue
			}
			seq = append(seq, s.String())
			if !c25Allowed[[2]opcua.ConnState{prev, s}] && bad == "" {
				bad = prev.String() + "->" + s.String()
			}
			prev = s
		}
		// every loss of an established connection has a cause: at most one per injected fault
		losses := 0
		for i := 1; i < len(seq); i++ {
			if seq[i-1] == opcua.Connected.String() && seq[i] == opcua.Disconnected.String() {
				losses++
			}
		}
		out := fmt.Sprintf("injected=%d states=%s", len(o.injected), strings.Join(seq, ">"))
		detail := fmt.Sprintf("faults injected: %v (of %d client network operations)\nstate sequence: %v\nconnect errors: %v\nread1 err=%q, state after recovery time=%v, read2 err=%q\nafter Close: state=%v dials at close=%d, 30 intervals later=%d, live client threads=%v",
			o.injected, o.clientOps, seq, o.connectErrs, o.read1, o.stateAfterRec, o.read2, o.stateAfterCls, o.dialsAtClose, o.dialsLater, o.live)
		switch {
		case !o.done:
			return out, tag + "/scenario-did-not-finish", detail
		case bad != "":
			return out, tag + "/undocumented-transition/" + bad, detail
		case losses > len(o.injected):
			return out, tag + "/connection-reported-lost-without-a-fault", fmt.Sprintf("%d Connected->Disconnected transitions, %d faults\n", losses, len(o.injected)) + detail
		case len(o.connectErrs) >= 4:
			return out, tag + "/connect-never-succeeds-although-server-reachable", detail
		case p.AutoReconnect && o.stateAfterRec != opcua.Connected:
			return out, tag + "/not-connected-after-server-reachable-again", detail
		case p.AutoReconnect && o.read2 != "":
			return out, tag + "/request-fails-after-recovery", detail
		case o.stateAfterCls != opcua.Closed:
			return out, tag + "/not-closed-after-close", detail
		case o.dialsLater != o.dialsAtClose:
			return out, tag + "/dials-after-close", detail
		case len(o.live) > 0:
			return out, tag + "/goroutines-left-after-close", detail
		}
		return out, "", ""
	}
}

// c25Ops measures the number of client-side network operations of the fault-free run.
func c25Ops() int {
	p := c25Params{AutoReconnect: true}
	x := vrt.Run(nil, vrt.Config{Horizon: int64(time.Hour), MaxSteps: 5000000}, c25Body(p))
	_ = x
	return c25obs.clientOps
}

func c25Scenarios(thorough bool) []driver.Scenario {
	var out []driver.Scenario
	add := func(p c25Params) {
		name := fmt.Sprintf("c25/auto=%v", p.AutoReconnect)
		for _, f := range p.Faults {
			name += fmt.Sprintf("/%s@%d", f.Kind, f.At)
		}
		out = append(out, driver.Scenario{
			Name:   name,
			Params: p, Cfg: vrt.Config{Horizon: int64(time.Hour), MaxSteps: 5000000},
			Body: c25Body(p), Check: c25Check(p), Sequential: true,
		})
	}
	n := c25Ops()
	add(c25Params{AutoReconnect: true})
	kinds := []string{"reset", "restart", "outage1", "outage3"}
	step := 1
	for _, k := range kinds {
		for at := 1; at <= n; at += step {
			add(c25Params{AutoReconnect: true, Faults: []c25Fault{{at, k}}})
		}
	}
	for at := 1; at <= n; at += 2 {
		add(c25Params{AutoReconnect: false, Faults: []c25Fault{{at, "reset"}}})
	}
	// one message of the client is never answered (the server stalls on it)
	for at := 1; at <= n; at++ {
		add(c25Params{AutoReconnect: true, Faults: []c25Fault{{at, "stall"}}})
	}
	if thorough {
		// pairs: a second fault within the 12 operations following the first
		for _, k1 := range []string{"reset", "restart"} {
			for _, k2 := range kinds {
				for at := 1; at <= n; at += 2 {
					for d := 1; d <= 12; d += 3 {
						add(c25Params{AutoReconnect: true, Faults: []c25Fault{{at, k1}, {at + d, k2}}})
					}
				}
			}
		}
	}
	return out
}
