package fullx

import (
	"context"
	"fmt"
	"strings"
	"sync"
	"time"

	"github.com/gopcua/opcua"
	"github.com/gopcua/opcua/id"
	"github.com/gopcua/opcua/server"
	"github.com/gopcua/opcua/ua"
	"github.com/gopcua/opcua/uasc"
	"verifrt/driver"
	"verifrt/vnet"
	"verifrt/vrt"
)

// C27: no combination of subscribe, cancel and forget calls, publish outcomes and
// reconnects leaves an API call blocked forever or stops the publish loop from
// making progress.

type c27Params struct {
	Script  string `json:"script"`   // which application threads run inside the window
	FaultAt int    `json:"fault_at"` // >0: the client's connection is reset at this client network operation counted from the window start
	Delay   bool   `json:"delay_bounded"`
	// PublishErrors > 0: the server's Publish service is scripted: it answers that many PublishRequests with a
	// PublishResponse whose service result is Bad and whose subscription id is 0 (an error that concerns every
	// subscription), then keep-alives; script E runs against it
	PublishErrors int `json:"publish_errors"`
}

type c27Obs struct {
	mu        sync.Mutex
	calls     []string
	apiDone   bool
	notified  bool
	finalErr  string
	done      bool
	injected  bool
	probeAt   int64 // virtual time at which the last probe subscription was established
}

var c27obs *c27Obs

func c27Body(p c27Params) func() {
	return func() {
		obs := &c27Obs{}
		c27obs = obs
		ctx := context.Background()
		vrt.SetTag("server")
		var e *env
		if p.PublishErrors > 0 {
			served := 0
			var seq uint32
			e = startServerWith(ctx, 1, func(s *server.Server) {
				s.RegisterHandler(id.PublishRequest_Encoding_DefaultBinary, func(sc *uasc.SecureChannel, r ua.Request, reqID uint32) (ua.Response, error) {
					req := r.(*ua.PublishRequest)
					hdr := &ua.ResponseHeader{Timestamp: time.Now(), RequestHandle: req.RequestHeader.RequestHandle, ServiceDiagnostics: &ua.DiagnosticInfo{}, StringTable: []string{}, AdditionalHeader: ua.NewExtensionObject(nil)}
					time.Sleep(100 * time.Millisecond)
					served++
					subID := uint32(1)
					if served <= p.PublishErrors {
						hdr.ServiceResult = ua.StatusBadInternalError
						subID = 0
					}
					seq++
					return &ua.PublishResponse{ResponseHeader: hdr, SubscriptionID: subID,
						NotificationMessage:      &ua.NotificationMessage{SequenceNumber: seq, PublishTime: time.Now(), NotificationData: []*ua.ExtensionObject{}},
						AvailableSequenceNumbers: []uint32{}, Results: make([]ua.StatusCode, len(req.SubscriptionAcknowledgements)), DiagnosticInfos: []*ua.DiagnosticInfo{}}, nil
				})
			})
		} else {
			e = startServer(ctx, 1)
		}
		vrt.SetTag("client")
		c := connect(ctx, opcua.AutoReconnect(true), opcua.ReconnectInterval(time.Second), opcua.RequestTimeout(5*time.Second))
		notifs := make(chan *opcua.PublishNotificationData, 64)
		got := make(chan int32, 64)
		go func() { // the application drains its notification channel
			for n := range notifs {
				if n == nil || n.Value == nil {
					continue
				}
				if dc, ok := n.Value.(*ua.DataChangeNotification); ok {
					for _, it := range dc.MonitoredItems {
						if it.Value != nil && it.Value.Value != nil {
							if v, ok := it.Value.Value.Value().(int32); ok {
								select {
								case got <- v:
								default:
								}
							}
						}
					}
				}
			}
		}()
		// Subscribe fills defaults into the parameters it is given: every call gets its own copy
		newParams := func() *opcua.SubscriptionParameters {
			return &opcua.SubscriptionParameters{Interval: 100 * time.Millisecond, MaxKeepAliveCount: 10, LifetimeCount: 1000}
		}
		vrt.Settle()
		n := vnet.Net()
		base := 0
		ops := 0
		n.FaultAt = func(_ int, op, local string) string {
			if !strings.HasPrefix(local, "client") {
				return ""
			}
			ops++
			if p.FaultAt > 0 && ops-base == p.FaultAt {
				obs.injected = true
				return "reset"
			}
			return ""
		}
		base = ops
		note := func(s string, err error) {
			obs.mu.Lock()
			obs.calls = append(obs.calls, fmt.Sprintf("%s:%v", s, err == nil))
			obs.mu.Unlock()
		}
		vrt.BeginWindow()
		var wg sync.WaitGroup
		run := func(f func()) {
			wg.Add(1)
			go func() { defer wg.Done(); f() }()
		}
		if strings.Contains(p.Script, "A") { // subscribe, cancel, cancel again
			run(func() {
				s, err := c.Subscribe(ctx, newParams(), notifs)
				note("A.subscribe", err)
				if err != nil {
					return
				}
				note("A.cancel", s.Cancel(ctx))
				note("A.cancel-again", s.Cancel(ctx))
			})
		}
		if strings.Contains(p.Script, "B") { // subscribe, forget, cancel
			run(func() {
				s, err := c.Subscribe(ctx, newParams(), notifs)
				note("B.subscribe", err)
				if err != nil {
					return
				}
				c.ForgetSubscription(ctx, s.SubscriptionID)
				note("B.forget", nil)
				note("B.cancel", s.Cancel(ctx))
			})
		}
		if strings.Contains(p.Script, "C") { // three subscriptions in a row (resume signals pile up), then cancel all
			run(func() {
				var subs []*opcua.Subscription
				for i := 0; i < 3; i++ {
					s, err := c.Subscribe(ctx, newParams(), notifs)
					note(fmt.Sprintf("C.subscribe%d", i), err)
					if err == nil {
						subs = append(subs, s)
					}
				}
				for i, s := range subs {
					note(fmt.Sprintf("C.cancel%d", i), s.Cancel(ctx))
				}
			})
		}
		if strings.Contains(p.Script, "E") { // two threads subscribing and cancelling while the publish loop reports an error to every subscription
			for k := 0; k < 2; k++ {
				k := k
				run(func() {
					s, err := c.Subscribe(ctx, newParams(), notifs)
					note(fmt.Sprintf("E%d.subscribe", k), err)
					if err != nil {
						return
					}
					time.Sleep(150 * time.Millisecond)
					note(fmt.Sprintf("E%d.cancel", k), s.Cancel(ctx))
				})
			}
		}
		if strings.Contains(p.Script, "D") {
			// the application handles its notifications and makes its calls in one goroutine, over an
			// unbuffered channel: while it deals with one notification the next one is waiting to be handed over
			run(func() {
				own := make(chan *opcua.PublishNotificationData)
				s, err := c.Subscribe(ctx, newParams(), own)
				note("D.subscribe", err)
				if err != nil {
					return
				}
				_, err = s.Monitor(ctx, ua.TimestampsToReturnBoth, opcua.NewMonitoredItemCreateRequestWithDefaults(e.nodeID(0), ua.AttributeIDValue, 77))
				note("D.monitor", err)
				if err == nil {
					for i := int32(1); i <= 3; i++ {
						e.ns.SetAttribute(e.nodeID(0), ua.AttributeIDValue, server.DataValueFromValue(1000+i))
						e.ns.ChangeNotification(e.nodeID(0))
						select {
						case <-own:
						case <-time.After(5 * time.Second):
						}
						time.Sleep(500 * time.Millisecond) // dealing with it
					}
					note("D.ids", nil)
					_ = c.SubscriptionIDs()
				}
				note("D.cancel", s.Cancel(ctx))
				go func() { // whatever was still on its way is taken off the channel
					for range own {
					}
				}()
			})
		}
		wg.Wait()
		vrt.EndWindow()
		obs.apiDone = true
		// The publish loop must still make progress: a new subscription delivers a data change. A fault
		// position beyond the window strikes this probe itself; there is exactly one fault, so a second
		// attempt after the recovery period must succeed.
		for attempt := 0; attempt < 3 && !obs.notified; attempt++ {
			time.Sleep(10 * time.Second) // any reconnect has finished by now
			want := int32(4711 + attempt)
			s, err := c.Subscribe(ctx, newParams(), notifs)
			if err != nil {
				obs.finalErr = "subscribe: " + err.Error()
				continue
			}
			if _, err := s.Monitor(ctx, ua.TimestampsToReturnBoth, opcua.NewMonitoredItemCreateRequestWithDefaults(e.nodeID(0), ua.AttributeIDValue, 42)); err != nil {
				obs.finalErr = "monitor: " + err.Error()
				s.Cancel(ctx)
				continue
			}
			obs.finalErr = ""
			obs.probeAt = vrt.Now()
			e.ns.SetAttribute(e.nodeID(0), ua.AttributeIDValue, server.DataValueFromValue(want))
			e.ns.ChangeNotification(e.nodeID(0))
			wait := time.Hour
			if p.PublishErrors > 0 {
				wait = 5 * time.Second // the scripted server only sends keep-alives: progress is judged by the PublishRequests on the wire
			}
			deadline := time.After(wait)
		wait:
			for {
				select {
				case v := <-got:
					if v == want {
						obs.notified = true
						break wait
					}
				case <-deadline:
					break wait
				}
			}
		}
		obs.done = true
	}
}

func c27Check(p c27Params) func(x *vrt.Exec) (string, string, string) {
	tag := fmt.Sprintf("c27/script=%s/fault=%v", p.Script, p.FaultAt > 0)
	return func(x *vrt.Exec) (string, string, string) {
		o := c27obs
		calls := strings.Join(o.calls, " ")
		if out, sig, detail, failed := fail(x); failed {
			if sig != "" {
				sig = tag + "/" + sig
			}
			return out, sig, detail + "\ncalls completed: " + calls
		}
		out := fmt.Sprintf("api=%v notified=%v injected=%v", o.apiDone, o.notified, o.injected)
		detail := fmt.Sprintf("calls completed: %s\nfinal subscription: err=%q notified=%v", calls, o.finalErr, o.notified)
		switch {
		case !o.apiDone:
			return out, tag + "/api-call-never-returned", detail
		case !o.done:
			return out, tag + "/scenario-did-not-finish", detail
		case o.finalErr != "":
			// an API call that returns an error is not blocked; whether subscribing should succeed here
			// is the business of C25/C26/C32 (the server hands out ids that are still in use)
			return out + " probe-subscribe-error", "", ""
		case !o.notified:
			// The server may fail to deliver (that is the server's business, see C26/C29). The client's
			// publish loop has made progress if it issued a PublishRequest after the probe subscribed.
			published := 0
			for _, m := range decodeTap(vnet.Last().Tap) {
				if _, ok := m.Svc.(*ua.PublishRequest); ok && m.Dir == "c2s" && m.At >= o.probeAt {
					published++
				}
			}
			if published == 0 {
				return out, tag + "/publish-loop-makes-no-progress", detail
			}
			return out + fmt.Sprintf(" publish-requests-after-probe=%v", published > 0), "", ""
		}
		return out, "", ""
	}
}

func c27Scenarios(thorough bool) []driver.Scenario {
	var out []driver.Scenario
	add := func(p c27Params, bound int) {
		out = append(out, driver.Scenario{
			Name:   fmt.Sprintf("c27/script=%s/fault_at=%d/delay_bounded=%v", p.Script, p.FaultAt, p.Delay) + map[bool]string{true: fmt.Sprintf("/publish_errors=%d", p.PublishErrors), false: ""}[p.PublishErrors > 0],
			Params: p, Cfg: vrt.Config{Horizon: int64(6 * time.Hour), MaxSteps: 5000000, DelayBounded: p.Delay, TimersFirst: p.Delay, SelectDeviations: true},
			Body: c27Body(p), Check: c27Check(p), Bound: max(bound, 0), Sequential: bound < 0,
		})
	}
	// fault positions: default schedule, one reset at every client network operation of the window
	for _, sc := range []string{"A", "B", "C", "AB", "D"} {
		add(c27Params{Script: sc}, -1)
		for at := 1; at <= 24; at++ {
			add(c27Params{Script: sc, FaultAt: at}, -1)
		}
	}
	// schedules
	b := 1
	add(c27Params{Script: "E", PublishErrors: 2}, -1)
	add(c27Params{Script: "E", PublishErrors: 2, Delay: true}, b)
	add(c27Params{Script: "D", Delay: true}, b)
	add(c27Params{Script: "AB", Delay: true}, b)
	add(c27Params{Script: "C", Delay: true}, b)
	if !thorough {
		// the quick tier's 100 s are shared: a cap per explored scenario and worker, so that each family gets its turn
		for i := range out {
			if !out[i].Sequential {
				out[i].MaxExec = 25
				if out[i].Params.(c27Params).Script == "E" {
					out[i].MaxExec = 60
				}
			}
		}
	}
	if thorough {
		add(c27Params{Script: "ABC", Delay: true}, 1)
		add(c27Params{Script: "AB", FaultAt: 6, Delay: true}, 1)
		add(c27Params{Script: "AB", Delay: true}, 2)
	}
	return out
}
