// Package fullx holds the whole-stack E2 scenarios: the real opcua.Client against
// the real server.Server under the controlled scheduler, virtual network and
// virtual clock. Plain Go; instrumented by e2run together with the repository.
package fullx

import (
	"context"
	"encoding/binary"
	"fmt"
	"strings"
	"time"

	"github.com/gopcua/opcua"
	"github.com/gopcua/opcua/id"
	"github.com/gopcua/opcua/server"
	"github.com/gopcua/opcua/ua"
	"verifrt/driver"
	"verifrt/vnet"
	"verifrt/vrt"
)

const (
	host = "localhost"
	port = 4840
	url  = "opc.tcp://localhost:4840"
)

type env struct {
	srv   *server.Server
	ns    *server.NodeNameSpace
	nodes []*server.Node
}

// startServer starts a real server (security None, anonymous) with n writable Int32 variables ns=<ns>;i=1000+k.
func startServer(ctx context.Context, n int) *env { return startServerWith(ctx, n, nil) }

// startServerWith: as startServer; before runs before Start (RegisterHandler wins when called before Start).
func startServerWith(ctx context.Context, n int, before func(*server.Server)) *env {
	s := server.New(
		server.EnableSecurity("None", ua.MessageSecurityModeNone),
		server.EnableAuthMode(ua.UserTokenTypeAnonymous),
		server.EndPoint(host, port),
	)
	e := &env{srv: s}
	e.ns = server.NewNodeNameSpace(s, "verif")
	for k := 0; k < n; k++ {
		nd := server.NewNode(
			ua.NewNumericNodeID(e.ns.ID(), uint32(1000+k)),
			map[ua.AttributeID]*ua.DataValue{
				ua.AttributeIDAccessLevel:     server.DataValueFromValue(byte(ua.AccessLevelTypeCurrentRead | ua.AccessLevelTypeCurrentWrite)),
				ua.AttributeIDUserAccessLevel: server.DataValueFromValue(byte(ua.AccessLevelTypeCurrentRead | ua.AccessLevelTypeCurrentWrite)),
				ua.AttributeIDBrowseName:      server.DataValueFromValue(&ua.QualifiedName{NamespaceIndex: e.ns.ID(), Name: fmt.Sprintf("v%d", k)}),
				ua.AttributeIDNodeClass:       server.DataValueFromValue(uint32(ua.NodeClassVariable)),
			},
			nil,
			func() *ua.DataValue { return server.DataValueFromValue(int32(0)) },
		)
		e.ns.AddNode(nd)
		e.ns.Objects().AddRef(nd, id.HasComponent, true)
		e.nodes = append(e.nodes, nd)
	}
	if before != nil {
		before(s)
	}
	if err := s.Start(ctx); err != nil {
		panic(err)
	}
	return e
}

func (e *env) nodeID(k int) *ua.NodeID { return ua.NewNumericNodeID(e.ns.ID(), uint32(1000+k)) }

func connect(ctx context.Context, opts ...opcua.Option) *opcua.Client {
	opts = append([]opcua.Option{opcua.SecurityMode(ua.MessageSecurityModeNone), opcua.RequestTimeout(10 * time.Second)}, opts...)
	c, err := opcua.NewClient(url, opts...)
	if err != nil {
		panic(err)
	}
	if err := c.Connect(ctx); err != nil {
		panic(fmt.Sprintf("connect: %v", err))
	}
	return c
}

func readInt(ctx context.Context, c *opcua.Client, nid *ua.NodeID) (int32, ua.StatusCode, error) {
	resp, err := c.Read(ctx, &ua.ReadRequest{NodesToRead: []*ua.ReadValueID{{NodeID: nid, AttributeID: ua.AttributeIDValue}}, TimestampsToReturn: ua.TimestampsToReturnNeither})
	if err != nil {
		return 0, 0, err
	}
	if len(resp.Results) != 1 {
		return 0, 0, fmt.Errorf("%d results", len(resp.Results))
	}
	r := resp.Results[0]
	if r.Status != ua.StatusOK || r.Value == nil {
		return 0, r.Status, nil
	}
	v, _ := r.Value.Value().(int32)
	return v, r.Status, nil
}

func writeInt(ctx context.Context, c *opcua.Client, nid *ua.NodeID, v int32) (ua.StatusCode, error) {
	resp, err := c.Write(ctx, &ua.WriteRequest{NodesToWrite: []*ua.WriteValue{{NodeID: nid, AttributeID: ua.AttributeIDValue,
		Value: &ua.DataValue{EncodingMask: ua.DataValueValue, Value: ua.MustVariant(v)}}}})
	if err != nil {
		return 0, err
	}
	if len(resp.Results) != 1 {
		return 0, fmt.Errorf("%d results", len(resp.Results))
	}
	return resp.Results[0], nil
}

// wireMsg is one single-chunk message of a security-mode-None connection as seen on the wire tap.
type wireMsg struct {
	Dir   string // c2s | s2c
	Conn  int    // connection epoch: index of the client end of the TCP connection
	ReqID uint32
	At    int64
	Svc   interface{} // decoded service (request or response), nil if it does not decode
	// Consumed reports whether the receiving end read the whole message off the
	// connection (false: it was still in flight when the connection broke or the run ended).
	Consumed bool
}

// decodeTap decodes every single-chunk MSG of the tap (mode None). Multi-chunk messages are skipped.
func decodeTap(tap []vnet.WireEvent) []wireMsg {
	var out []wireMsg
	streams := map[int][]byte{}
	offset := map[int]int{}
	conns := vnet.Last().Conns
	for _, ev := range tap {
		streams[ev.Conn] = append(streams[ev.Conn], ev.Data...)
		for {
			b := streams[ev.Conn]
			if len(b) < 8 {
				break
			}
			size := int(binary.LittleEndian.Uint32(b[4:8]))
			if size < 8 || len(b) < size {
				break
			}
			f := b[:size]
			streams[ev.Conn] = b[size:]
			offset[ev.Conn] += size
			if string(f[:4]) != "MSGF" || size < 28 {
				continue
			}
			consumed := false
			if peer := ev.Conn ^ 1; peer < len(conns) {
				consumed = conns[peer].ReadBytes >= offset[ev.Conn]
			}
			m := wireMsg{Consumed: consumed, Dir: "s2c", ReqID: binary.LittleEndian.Uint32(f[20:]), At: ev.At, Conn: ev.Conn &^ 1}
			if strings.HasPrefix(ev.From, "client") {
				m.Dir = "c2s"
			}
			if _, svc, err := ua.DecodeService(f[24:]); err == nil {
				m.Svc = svc
			}
			out = append(out, m)
		}
	}
	return out
}

func fail(x *vrt.Exec) (string, string, string, bool) { return driver.DefaultFail(x) }
