package fullx

import (
	"context"
	"fmt"
	"sync"
	"time"

	"github.com/gopcua/opcua"
	"github.com/gopcua/opcua/server"
	"github.com/gopcua/opcua/ua"
	"verif/scenarios/chanx"
	"verifrt/driver"
	"verifrt/vrt"
)

// C36: concurrent use of a client, of a secure channel and of the server never
// accesses shared memory in a racy way. The scenarios of C11, C16, C18, C25-C28
// and C34 are re-run in a -race build: the Go race detector, fed with exactly the
// program's own happens-before edges by the shims, judges every explored schedule.

// c36NotifyBody: the application reports a value change of a node (NodeNameSpace.ChangeNotification) while a client
// deletes and re-creates its monitored item on that same node: the server-side bookkeeping of monitored items is
// touched from the application's goroutine and from the server's dispatcher at the same time.
func c36NotifyBody() func() {
	return func() {
		ctx := context.Background()
		e := startServer(ctx, 1)
		c := connect(ctx)
		ch := make(chan *opcua.PublishNotificationData, 64)
		go func() {
			for range ch {
			}
		}()
		sub, err := c.Subscribe(ctx, &opcua.SubscriptionParameters{Interval: 100 * time.Millisecond}, ch)
		if err != nil {
			panic(err)
		}
		mk := func(h uint32) uint32 {
			res, err := sub.Monitor(ctx, ua.TimestampsToReturnBoth, opcua.NewMonitoredItemCreateRequestWithDefaults(e.nodeID(0), ua.AttributeIDValue, h))
			if err != nil || len(res.Results) != 1 {
				panic(fmt.Sprint("monitor: ", err))
			}
			return res.Results[0].MonitoredItemID
		}
		id1 := mk(1)
		mk(2)
		vrt.Settle()
		vrt.BeginWindow()
		var wg sync.WaitGroup
		wg.Add(2)
		go func() { // the application
			defer wg.Done()
			e.ns.SetAttribute(e.nodeID(0), ua.AttributeIDValue, server.DataValueFromValue(int32(7)))
			e.ns.ChangeNotification(e.nodeID(0))
		}()
		go func() { // the client
			defer wg.Done()
			sub.Unmonitor(ctx, id1)
			mk(3)
		}()
		wg.Wait()
		vrt.EndWindow()
		c36NotifyDone = true
	}
}

var c36NotifyDone bool

func c36NotifyCheck(x *vrt.Exec) (string, string, string) {
	if out, sig, detail, failed := fail(x); failed {
		return out, sig, detail
	}
	return "done", "", ""
}

func c36Scenarios(thorough bool) []driver.Scenario {
	var out []driver.Scenario
	// the conflicting accesses only overlap when the application is delayed inside its call (one delay: the client
	// runs instead, its delete is dispatched, then the application goes on)
	notify := driver.Scenario{
		Name:     "c36/server/change-notification-vs-delete-and-create-of-monitored-items",
		Cfg:      vrt.Config{Horizon: int64(10 * time.Minute), MaxSteps: 3000000, DelayBounded: true, TimersFirst: true},
		Body:     c36NotifyBody(),
		Check:    c36NotifyCheck,
		Bound:    1,
		RaceOnly: true,
		MaxExec:  80,
	}
	// every execution starts a server (node set import under the race detector: seconds): the complete delay bound 1
	// (about 600 executions) fits the thorough tier only; the quick tier runs a small share of it at the end
	if thorough {
		out = append(out, notify)
	}
	take := func(scs []driver.Scenario, keep func(i int, s driver.Scenario) bool, bound int) {
		for i, s := range scs {
			if !keep(i, s) {
				continue
			}
			s.Name = "c36/" + s.Name
			s.RaceOnly = true
			s.NeedsConflict = false
			if !s.Sequential {
				s.Cfg.DelayBounded = true
				if s.Bound > bound {
					s.Bound = bound
				}
			}
			out = append(out, s)
		}
	}
	b := 1
	first := func(n int) func(int, driver.Scenario) bool {
		return func(i int, _ driver.Scenario) bool { return i < n }
	}
	every := func(k int) func(int, driver.Scenario) bool {
		return func(i int, _ driver.Scenario) bool { return i%k == 0 }
	}
	explored := func(_ int, s driver.Scenario) bool { return !s.Sequential }
	if thorough {
		take(chanx.Scenarios("C11", false), first(3), 2)
		take(chanx.Scenarios("C16", false), explored, b)
		take(chanx.Scenarios("C18", false), first(4), b)
		take(chanx.Scenarios("C19", false), every(4), b)
		take(c34Scenarios(false), first(2), b)
		take(c27Scenarios(false), explored, b)
		take(c28Scenarios(false), explored, b)
		take(c25Scenarios(false), every(5), 0)
		take(c26Scenarios(false), every(7), 0)
		take(c27Scenarios(false), func(i int, s driver.Scenario) bool { return s.Sequential && i%9 == 0 }, 0)
		return out
	}
	// channel-level families first (cheap executions, many schedules), then the whole-stack ones
	take(chanx.Scenarios("C11", false), first(1), b)
	take(chanx.Scenarios("C18", false), func(i int, _ driver.Scenario) bool { return i == 1 }, b)
	nC16 := 0
	take(chanx.Scenarios("C16", false), func(_ int, s driver.Scenario) bool {
		if s.Sequential || nC16 >= 2 {
			return false
		}
		nC16++
		return true
	}, b)
	take(chanx.Scenarios("C19", false), func(i int, _ driver.Scenario) bool { return i == 0 || i == 5 }, b)
	for i := range out {
		if out[i].Name != notify.Name {
			out[i].MaxExec = 150 // per worker: the quick tier spreads its budget over all scenario families
		}
	}
	n := len(out)
	take(c34Scenarios(false), first(1), b)
	for i := n; i < len(out); i++ {
		out[i].MaxExec = 12
	}
	take(c25Scenarios(false), every(16), 0)
	take(c26Scenarios(false), every(19), 0)
	take(c27Scenarios(false), func(i int, s driver.Scenario) bool { return s.Sequential && i%33 == 0 }, 0)
	take(c28Scenarios(false), func(i int, s driver.Scenario) bool { return s.Sequential && i%5 == 0 }, 0)
	// a server-side writer (ChangeNotification) against add/remove of monitored items on the same nodes, and
	// the consumer-driven application of C27
	byName := func(names ...string) func(int, driver.Scenario) bool {
		return func(_ int, s driver.Scenario) bool {
			for _, n := range names {
				if s.Name == n {
					return true
				}
			}
			return false
		}
	}
	have := map[string]bool{}
	for _, s := range out {
		have[s.Name] = true
	}
	n = len(out)
	take(c28Scenarios(false), byName("c28/script=SA/writes=2/delay_bounded=false/aged=0", "c28/script=SCA/writes=1/delay_bounded=false/aged=0"), 0)
	take(c27Scenarios(false), byName("c27/script=D/fault_at=0/delay_bounded=false"), 0)
	// drop what the modulo selection above already took
	kept := out[:n]
	for _, s := range out[n:] {
		if !have[s.Name] {
			kept = append(kept, s)
		}
	}
	notify.MaxExec = 4
	kept = append(kept, notify)
	return kept
}
