// C04: NodeID text form round-trips and equality matches identity.
//
// Bounded exhaustive enumeration (DESIGN.md §3, C04):
//   - all NodeIDs over the six encodings x namespaces {0,1,255,256,65535} x identifiers:
//     numerics {0,1,255,256,65534,65535,65536,2^32-1} (within the range of the encoding), every
//     string of length <= 3 (quick) / <= 4 (thorough) over {; = n s i g b u 0 1 a ' '}, byte
//     strings of length <= 2 over a byte alphabet, a small set of GUIDs;
//     oracle: ParseNodeID(n.String()) succeeds, is Equal to n and denotes the same
//     (namespace, identifier kind, identifier value);
//   - all ordered pairs over a reduced set: a.Equal(b) <=> same (namespace, kind, value), the
//     three numeric encodings identified;
//   - ExpandedNodeID text forms "nsu=<uri>;<id>" against every namespace table of size <= 3:
//     resolves to the index of the uri iff the uri is in the table.
//
// The identity of a NodeID is read through its accessors (Namespace, IntID, StringID, Type), i.e.
// independently of String/Equal.
package main

import (
	"encoding/base64"
	"fmt"
	"os"
	"strings"

	"github.com/gopcua/opcua/ua"
	"verif/engine/evid"
)

var nss = []uint16{0, 1, 255, 256, 65535}
var nums = []uint32{0, 1, 255, 256, 65534, 65535, 65536, 0xffffffff}
var strAlphabet = []byte{';', '=', 'n', 's', 'i', 'g', 'b', 'u', '0', '1', 'a', ' '}
var byteAlphabet = []byte{0x00, 0x01, 0x02, 0x7f, 0x80, 0xff, 0xfe, 0x3f, 0x40, 0xc0, 0x18, 0x19}
var guids = []string{"00000000-0000-0000-0000-000000000000", "01020304-0506-0708-090A-0B0C0D0E0F10", "FFFFFFFF-FFFF-FFFF-FFFF-FFFFFFFFFFFF", "72962B91-FA75-4AE6-8D28-B404DC7DAF63"}

// spec describes how to build a NodeID (replayable).
type spec struct {
	Enc  string `json:"enc"` // twobyte fourbyte numeric string guid opaque
	NS   uint16 `json:"ns"`
	Num  uint32 `json:"num,omitempty"`
	Str  string `json:"str,omitempty"`  // string id / guid text
	B64  string `json:"b64,omitempty"`  // opaque id
	Nil  bool   `json:"nil,omitempty"`  // opaque: nil byte string
	Flag byte   `json:"flag,omitempty"` // extra mask bits (0x40/0x80) as left behind by decoding an ExpandedNodeID
}

func (s spec) build() *ua.NodeID {
	var n *ua.NodeID
	switch s.Enc {
	case "twobyte":
		n = ua.NewTwoByteNodeID(uint8(s.Num))
	case "fourbyte":
		n = ua.NewFourByteNodeID(uint8(s.NS), uint16(s.Num))
	case "numeric":
		n = ua.NewNumericNodeID(s.NS, s.Num)
	case "string":
		n = ua.NewStringNodeID(s.NS, s.Str)
	case "guid":
		n = ua.NewGUIDNodeID(s.NS, s.Str)
	case "opaque":
		if s.Nil {
			n = ua.NewByteStringNodeID(s.NS, nil)
		} else {
			b, _ := base64.StdEncoding.DecodeString(s.B64)
			n = ua.NewByteStringNodeID(s.NS, b)
		}
	}
	if s.Flag&0x80 != 0 {
		n.SetURIFlag()
	}
	if s.Flag&0x40 != 0 {
		n.SetIndexFlag()
	}
	return n
}

// identity: (namespace, kind, value), independent of String/Equal.
func identity(n *ua.NodeID) string {
	switch n.Type() {
	case ua.NodeIDTypeTwoByte, ua.NodeIDTypeFourByte, ua.NodeIDTypeNumeric:
		return fmt.Sprintf("%d|num|%d", n.Namespace(), n.IntID())
	case ua.NodeIDTypeString:
		return fmt.Sprintf("%d|str|%q", n.Namespace(), n.StringID())
	case ua.NodeIDTypeGUID:
		return fmt.Sprintf("%d|guid|%s", n.Namespace(), n.StringID())
	case ua.NodeIDTypeByteString:
		return fmt.Sprintf("%d|opaque|%s", n.Namespace(), n.StringID()) // base64, nil and empty coincide
	}
	return "?"
}

// idShape is the cell of a string identifier.
func idShape(s spec) string {
	ns := "ns>0"
	if s.NS == 0 {
		ns = "ns=0"
	}
	if s.Enc != "string" {
		return ns
	}
	var f []string
	if s.Str == "" {
		f = append(f, "empty")
	}
	if strings.Contains(s.Str, ";") {
		f = append(f, "has-semicolon")
	}
	for _, p := range []string{"ns=", "nsu=", "i=", "s=", "g=", "b="} {
		if strings.HasPrefix(s.Str, p) {
			f = append(f, "prefix-lookalike")
			break
		}
	}
	if len(f) == 0 {
		f = append(f, "plain")
	}
	return ns + "," + strings.Join(f, ",")
}

func guardStr(fn func()) (p string) {
	defer func() {
		if r := recover(); r != nil {
			p = fmt.Sprint(r)
		}
	}()
	fn()
	return ""
}

// checkRoundTrip returns (signature, detail) or "".
func checkRoundTrip(s spec) (string, string) {
	n := s.build()
	cell := "roundtrip/" + s.Enc + "/" + idShape(s)
	if n == nil {
		return cell + "/constructor-returned-nil", ""
	}
	var text string
	if p := guardStr(func() { text = n.String() }); p != "" {
		return cell + "/String-panics", p
	}
	var back *ua.NodeID
	var err error
	if p := guardStr(func() { back, err = ua.ParseNodeID(text) }); p != "" {
		return cell + "/Parse-panics", fmt.Sprintf("%s on %q", p, text)
	}
	if err != nil {
		return cell + "/Parse-rejects-String", fmt.Sprintf("ParseNodeID(%q): %v", text, err)
	}
	if back == nil {
		return cell + "/Parse-returned-nil", text
	}
	var eq bool
	if p := guardStr(func() { eq = back.Equal(n) && n.Equal(back) }); p != "" {
		return cell + "/Equal-panics", p
	}
	if !eq {
		return cell + "/parsed-not-Equal", fmt.Sprintf("ParseNodeID(%q) = %q", text, back.String())
	}
	if identity(back) != identity(n) {
		return cell + "/parsed-denotes-another-node", fmt.Sprintf("ParseNodeID(%q) denotes %s, the original %s", text, identity(back), identity(n))
	}
	return "", ""
}

func checkEqual(a, b spec) (string, string) {
	x, y := a.build(), b.build()
	var eq bool
	if p := guardStr(func() { eq = x.Equal(y) }); p != "" {
		return "equal/" + a.Enc + "~" + b.Enc + "/Equal-panics", p
	}
	same := identity(x) == identity(y)
	kind := func(s spec) string {
		if s.Enc == "twobyte" || s.Enc == "fourbyte" || s.Enc == "numeric" {
			return "numeric"
		}
		return s.Enc
	}
	switch {
	case eq && !same:
		return "equal/" + kind(a) + "~" + kind(b) + "/Equal-for-different-nodes", fmt.Sprintf("%s Equal %s", identity(x), identity(y))
	case !eq && same:
		return "equal/" + kind(a) + "~" + kind(b) + "/not-Equal-for-the-same-node", fmt.Sprintf("%s (%s) vs %s (%s)", identity(x), a.Enc, identity(y), b.Enc)
	}
	return "", ""
}

// expanded case: a table, a uri and an id text
type expCase struct {
	Table []string `json:"table"`
	URI   string   `json:"uri"`
	ID    string   `json:"id"`
}

func checkExpanded(c expCase) (string, string) {
	text := "nsu=" + c.URI + ";" + c.ID
	var e *ua.ExpandedNodeID
	var err error
	if p := guardStr(func() { e, err = ua.ParseExpandedNodeID(text, c.Table) }); p != "" {
		return "expanded/Parse-panics", fmt.Sprintf("%s on %q with %q", p, text, c.Table)
	}
	var want []int
	for i, u := range c.Table {
		if u == c.URI {
			want = append(want, i)
		}
	}
	idk := c.ID[:1]
	switch {
	case len(want) == 0 && err == nil:
		return "expanded/" + idk + "/resolved-although-uri-not-in-table", fmt.Sprintf("%q with %q -> %s", text, c.Table, e.NodeID)
	case len(want) == 0:
		return "", ""
	case err != nil:
		return "expanded/" + idk + "/rejected-although-uri-in-table", fmt.Sprintf("%q with %q: %v", text, c.Table, err)
	case e == nil || e.NodeID == nil:
		return "expanded/" + idk + "/nil-result", text
	}
	ok := false
	for _, i := range want {
		ref, rerr := ua.ParseNodeID(fmt.Sprintf("ns=%d;%s", i, c.ID))
		if rerr != nil {
			return "", "" // the id text itself is not parseable: outside this case
		}
		if identity(ref) == identity(e.NodeID) {
			ok = true
		}
	}
	if !ok {
		return "expanded/" + idk + "/resolved-to-wrong-node", fmt.Sprintf("%q with %q -> %s, want namespace index in %v", text, c.Table, identity(e.NodeID), want)
	}
	return "", ""
}

type replay struct {
	Kind string   `json:"kind"`
	A    *spec    `json:"a,omitempty"`
	B    *spec    `json:"b,omitempty"`
	E    *expCase `json:"e,omitempty"`
}

func allStrings(maxLen int, alphabet []byte, fn func(string)) {
	var rec func(cur []byte)
	rec = func(cur []byte) {
		fn(string(cur))
		if len(cur) == maxLen {
			return
		}
		for _, c := range alphabet {
			rec(append(cur, c))
		}
	}
	rec(nil)
}

func main() {
	r := evid.New("C04")
	var rp replay
	if evid.ReplayInput(&rp) {
		var sig, detail string
		switch rp.Kind {
		case "roundtrip":
			sig, detail = checkRoundTrip(*rp.A)
		case "equal":
			sig, detail = checkEqual(*rp.A, *rp.B)
		case "expanded":
			sig, detail = checkExpanded(*rp.E)
		}
		fmt.Printf("replay %+v -> sig=%q detail=%q\n", rp, sig, detail)
		if sig != "" {
			os.Exit(1)
		}
		return
	}
	maxStr := 3
	if evid.Thorough() {
		maxStr = 4
	}
	// ---- the NodeID universe
	var all []spec
	for _, v := range nums {
		if v <= 255 {
			all = append(all, spec{Enc: "twobyte", Num: v})
		}
	}
	for _, ns := range nss {
		for _, v := range nums {
			if ns <= 255 && v <= 65535 {
				all = append(all, spec{Enc: "fourbyte", NS: ns, Num: v})
			}
			all = append(all, spec{Enc: "numeric", NS: ns, Num: v})
		}
		allStrings(maxStr, strAlphabet, func(s string) { all = append(all, spec{Enc: "string", NS: ns, Str: s}) })
		all = append(all, spec{Enc: "string", NS: ns, Str: "é\x00;="}, spec{Enc: "string", NS: ns, Str: "ns=2;s=x"}, spec{Enc: "string", NS: ns, Str: "nsu=urn:a;i=1"})
		all = append(all, spec{Enc: "opaque", NS: ns, Nil: true})
		allStrings(2, byteAlphabet, func(s string) {
			all = append(all, spec{Enc: "opaque", NS: ns, B64: base64.StdEncoding.EncodeToString([]byte(s))})
		})
		for _, g := range guids {
			all = append(all, spec{Enc: "guid", NS: ns, Str: g})
		}
	}
	// NodeIDs that carry the ExpandedNodeID flag bits in their mask
	for _, fl := range []byte{0x40, 0x80, 0xc0} {
		all = append(all, spec{Enc: "numeric", NS: 2, Num: 7, Flag: fl}, spec{Enc: "string", NS: 2, Str: "x", Flag: fl}, spec{Enc: "fourbyte", NS: 0, Num: 300, Flag: fl})
	}
	for i, s := range all {
		sig, detail := checkRoundTrip(s)
		key := ""
		if s.Enc != "twobyte" || s.Num != 0 {
			key = fmt.Sprintf("rt/%+v", s)
		}
		r.Eval(key)
		if i%9973 == 5 {
			r.Sample(map[string]any{"roundtrip": s, "text": s.build().String()})
		}
		if sig != "" {
			r.Outcome("roundtrip-violation")
			s := s
			r.Violate(sig, detail+fmt.Sprintf("; node id %+v", s), replay{Kind: "roundtrip", A: &s})
		} else {
			r.Outcome("roundtrip-ok")
		}
	}
	nRT := len(all)
	// ---- equality over all ordered pairs of a reduced set
	var red []spec
	for _, v := range []uint32{0, 1, 255} {
		red = append(red, spec{Enc: "twobyte", Num: v})
	}
	for _, ns := range []uint16{0, 1, 256} {
		for _, v := range []uint32{0, 1, 255, 256, 65535, 65536} {
			if ns <= 255 && v <= 65535 {
				red = append(red, spec{Enc: "fourbyte", NS: ns, Num: v})
			}
			red = append(red, spec{Enc: "numeric", NS: ns, Num: v})
		}
		for _, s := range []string{"", "a", "1", "0", "i=1", "s=a", "a;b", ";", "=", " ", "ns=1;i=1", "YQ==", "b=YQ==", guids[1], "g=" + guids[1], "A"} {
			red = append(red, spec{Enc: "string", NS: ns, Str: s})
		}
		red = append(red, spec{Enc: "opaque", NS: ns, Nil: true})
		for _, b := range [][]byte{{}, {'a'}, {'1'}, {0}, {'a', ';', 'b'}} {
			red = append(red, spec{Enc: "opaque", NS: ns, B64: base64.StdEncoding.EncodeToString(b)})
		}
		for _, g := range guids[:3] {
			red = append(red, spec{Enc: "guid", NS: ns, Str: g})
		}
	}
	red = append(red, spec{Enc: "numeric", NS: 1, Num: 1, Flag: 0x80}, spec{Enc: "string", NS: 1, Str: "a", Flag: 0x40})
	var same int64
	for i, a := range red {
		for j, b := range red {
			sig, detail := checkEqual(a, b)
			r.Eval(fmt.Sprintf("eq/%d/%d", i, j))
			if identity(a.build()) == identity(b.build()) {
				same++
			}
			if (i*len(red)+j)%20011 == 7 {
				r.Sample(map[string]any{"equal": []spec{a, b}, "result": a.build().Equal(b.build())})
			}
			if sig != "" {
				r.Outcome("equality-violation")
				a, b := a, b
				r.Violate(sig, detail, replay{Kind: "equal", A: &a, B: &b})
			} else {
				r.Outcome("equality-ok")
			}
		}
	}
	// ---- ExpandedNodeID text forms against namespace tables of size <= 3
	uris := []string{"urn:a", "urn:b", "http://x/y", "ns=1"}
	ids := []string{"i=0", "i=5", "i=255", "i=256", "i=65535", "i=65536", "i=4294967295", "s=a", "s=", "s=a;b", "s=i=1", "g=" + guids[1], "b=YQ==", "b="}
	var tables [][]string
	var recT func(cur []string)
	recT = func(cur []string) {
		tables = append(tables, append([]string(nil), cur...))
		if len(cur) == 3 {
			return
		}
		for _, u := range uris {
			recT(append(cur, u))
		}
	}
	recT(nil)
	nExp := 0
	for _, tb := range tables {
		for _, u := range uris {
			for _, id := range ids {
				c := expCase{Table: tb, URI: u, ID: id}
				sig, detail := checkExpanded(c)
				r.Eval(fmt.Sprintf("exp/%q/%s/%s", tb, u, id))
				nExp++
				if nExp%3001 == 1 {
					r.Sample(map[string]any{"expanded": c})
				}
				if sig != "" {
					r.Outcome("expanded-violation")
					c := c
					r.Violate(sig, detail, replay{Kind: "expanded", E: &c})
				} else {
					r.Outcome("expanded-ok")
				}
			}
		}
	}
	r.Rule(fmt.Sprintf("(1) %d NodeIDs: six encodings x namespaces %v x identifiers (numerics %v within the range of the encoding, every string of length <= %d over %q plus three look-alikes, byte strings of length <= 2 over a 12-byte alphabet and nil, %d GUIDs, flag bits 0x40/0x80): Parse(String(n)) succeeds, is Equal to n and denotes the same (namespace, kind, value); "+
		"(2) all %d ordered pairs over a reduced set of %d NodeIDs (%d pairs denote the same node): Equal <=> same (namespace, kind, value) with the numeric encodings identified; "+
		"(3) %d ExpandedNodeID texts nsu=<uri>;<id> (%d uris x %d ids) against all %d namespace tables of size <= 3: resolved to the index of the uri iff it is in the table. "+
		"Every case counts as non-trivial except the null NodeID; distinct by construction", nRT, nss, nums, maxStr, string(strAlphabet), len(guids), len(red)*len(red), len(red), same, nExp, len(uris), len(ids), len(tables)))
	r.Set("nodeids", nRT)
	r.Set("pairs", len(red)*len(red))
	r.Set("pairs_same_node", same)
	r.Set("expanded_cases", nExp)
	r.Assume("well-formed NodeIDs only: built with the public constructors, GUID text valid, two/four-byte identifiers within range; namespace URIs without ';' (the text syntax has no escaping); whether an ExpandedNodeID keeps its NamespaceURI after resolution is not judged")
	r.Finish()
}
