// C14: symmetric keys follow the specification and are direction-separated.
//
// Grid: 5 secured policies x every ordered pair (local, remote), local != remote, of a nonce
// set built from lengths x contents. gopcua is observed only through the public
// uapolicy.Symmetric(...) EncryptionAlgorithm; the oracle is refcodec's independent
// P_SHA1/P_SHA256 derivation (engine/refcodec, standard library only):
//
//   - what A signs / encrypts must verify / decrypt with the reference keys of A's sending
//     direction, and what the reference protects with the keys of the opposite direction must
//     verify / decrypt in A (so signing key, encryption key and IV are each pinned, per direction);
//   - the gopcua peer B = Symmetric(remote, local) must accept what A protected;
//   - reflection: what A protected must be rejected by A's own receive path.
package main

import (
	"bytes"
	"crypto/sha256"
	"encoding/hex"
	"fmt"
	"os"

	"github.com/gopcua/opcua/uapolicy"
	"verif/engine/evid"
	"verif/engine/refcodec"
)

type cse struct {
	Policy string `json:"policy"`
	Local  string `json:"local_nonce_hex"`
	Remote string `json:"remote_nonce_hex"`
	LKind  string `json:"local_kind"`
	RKind  string `json:"remote_kind"`
}

type nonce struct {
	kind string
	b    []byte
}

func prand(tag string, n int) []byte {
	var out []byte
	for i := 0; len(out) < n; i++ {
		h := sha256.Sum256([]byte(fmt.Sprintf("verif-c14-%s-%d", tag, i)))
		out = append(out, h[:]...)
	}
	return out[:n]
}

func nonceSet(p *refcodec.Policy, thorough bool) []nonce {
	lengths := []int{p.NonceLen, 1, 16, 32, 64}
	kinds := []string{"zero", "ff", "counter", "prand1", "prand2", "zero-last1"}
	if thorough {
		lengths = append(lengths, 2, 8, 20, 31, 33, 48, 63, 65, 128)
		kinds = append(kinds, "prand3", "prand4", "prand5", "prand6", "first80", "aa55", "counter-down")
	}
	seen := map[string]bool{}
	var out []nonce
	for _, l := range lengths {
		for _, k := range kinds {
			b := make([]byte, l)
			switch k {
			case "zero":
			case "ff":
				for i := range b {
					b[i] = 0xff
				}
			case "counter":
				for i := range b {
					b[i] = byte(i)
				}
			case "counter-down":
				for i := range b {
					b[i] = byte(255 - i)
				}
			case "zero-last1":
				b[l-1] = 1
			case "first80":
				b[0] = 0x80
			case "aa55":
				for i := range b {
					b[i] = []byte{0xaa, 0x55}[i%2]
				}
			default:
				copy(b, prand(k, l))
			}
			if seen[string(b)] {
				continue
			}
			seen[string(b)] = true
			out = append(out, nonce{fmt.Sprintf("%s/%d", k, l), b})
		}
	}
	return out
}

var msgLens = []int{0, 1, 64, 1000}
var ptLens = []int{16, 32, 1024}

func pattern(n int, salt byte) []byte {
	b := make([]byte, n)
	x := uint32(salt)*2654435761 + 12345
	for i := range b {
		x = x*1664525 + 1013904223
		b[i] = byte(x >> 24)
	}
	return b
}

type viol struct{ sig, detail string }

// check runs every oracle on one (policy, local, remote) case.
func check(p *refcodec.Policy, local, remote []byte) (out []viol) {
	add := func(sig, format string, a ...any) {
		out = append(out, viol{p.Name + "/" + sig, fmt.Sprintf(format, a...)})
	}
	defer func() {
		if r := recover(); r != nil {
			add("panic", "%v", r)
		}
	}()
	A, err := uapolicy.Symmetric(p.URI, local, remote)
	if err != nil {
		add("construct-failed", "Symmetric(local,remote): %v", err)
		return
	}
	B, err := uapolicy.Symmetric(p.URI, remote, local)
	if err != nil {
		add("construct-failed", "Symmetric(remote,local): %v", err)
		return
	}
	// A's local nonce plays the client nonce: A sends with the "client" keys and receives with the "server" keys.
	aSend, aRecv := p.DeriveKeys(local, remote)

	if A.SignatureLength() != p.SymSigLen || A.RemoteSignatureLength() != p.SymSigLen {
		add("signature-length", "SignatureLength %d / RemoteSignatureLength %d, HMAC output is %d", A.SignatureLength(), A.RemoteSignatureLength(), p.SymSigLen)
	}
	if A.BlockSize() != 16 || A.PlaintextBlockSize() != 16 {
		add("block-size", "BlockSize %d PlaintextBlockSize %d, AES-CBC has 16/16", A.BlockSize(), A.PlaintextBlockSize())
	}

	for _, n := range msgLens {
		msg := pattern(n, 1)
		sig, err := A.Signature(msg)
		if err != nil {
			add("sign/error", "len %d: %v", n, err)
			continue
		}
		if !p.SymVerify(aSend, msg, sig) {
			add("sign/not-verified-by-reference-sending-key", "message length %d: gopcua signature %x, reference HMAC %x", n, sig, p.SymSign(aSend, msg))
		}
		if err := B.VerifySignature(msg, sig); err != nil {
			add("sign/not-verified-by-gopcua-peer", "message length %d: %v", n, err)
		}
		if err := A.VerifySignature(msg, sig); err == nil {
			add("reflect/own-signature-accepted", "message length %d: A verifies the signature A made", n)
		}
		ref := p.SymSign(aRecv, msg)
		if err := A.VerifySignature(msg, ref); err != nil {
			add("verify/reference-signature-rejected", "message length %d: %v", n, err)
		}
		if len(msg) > 0 {
			bad := append([]byte(nil), msg...)
			bad[len(bad)/2] ^= 0x20
			if err := A.VerifySignature(bad, ref); err == nil {
				add("verify/altered-message-accepted", "message length %d", n)
			}
		}
	}
	for _, n := range ptLens {
		pt := pattern(n, 2)
		ct, err := A.Encrypt(pt)
		if err != nil {
			add("encrypt/error", "len %d: %v", n, err)
			continue
		}
		if len(ct) != len(pt) {
			add("encrypt/length", "plaintext %d bytes, ciphertext %d", len(pt), len(ct))
			continue
		}
		got, err := p.SymDecrypt(aSend, ct)
		switch {
		case err != nil:
			add("encrypt/reference-decrypt-error", "%v", err)
		case !bytes.Equal(got, pt) && bytes.Equal(got[16:], pt[16:]):
			add("encrypt/first-block-differs-under-reference-keys(IV)", "plaintext length %d: only the first block differs => wrong IV", n)
		case !bytes.Equal(got, pt):
			add("encrypt/not-decrypted-by-reference-sending-keys", "plaintext length %d", n)
		}
		if got, err := B.Decrypt(ct); err != nil || !bytes.Equal(got, pt) {
			add("encrypt/not-decrypted-by-gopcua-peer", "plaintext length %d err=%v", n, err)
		}
		if got, err := A.Decrypt(ct); err == nil && bytes.Equal(got, pt) {
			add("reflect/own-ciphertext-decrypts", "plaintext length %d: A decrypts what A encrypted", n)
		}
		rct, _ := p.SymEncrypt(aRecv, pt)
		got, err = A.Decrypt(rct)
		switch {
		case err != nil:
			add("decrypt/error", "%v", err)
		case !bytes.Equal(got, pt) && bytes.Equal(got[16:], pt[16:]):
			add("decrypt/first-block-differs(IV)", "plaintext length %d: only the first block differs => wrong IV", n)
		case !bytes.Equal(got, pt):
			add("decrypt/reference-ciphertext-not-decrypted", "plaintext length %d", n)
		}
	}
	// chunk-level reflection: sign-then-encrypt by A, fed to A's own receive path (decrypt, then verify)
	{
		pt := pattern(64-p.SymSigLen%16, 3) // any length; pad to a block multiple below
		sig, _ := A.Signature(pt)
		full := append(append([]byte(nil), pt...), sig...)
		for len(full)%16 != 0 {
			full = append(full, 0)
		}
		ct, err := A.Encrypt(full)
		if err == nil {
			if dec, err := A.Decrypt(ct); err == nil && len(dec) == len(full) {
				if A.VerifySignature(dec[:len(pt)], dec[len(pt):len(pt)+len(sig)]) == nil {
					add("reflect/own-protected-message-accepted", "A's receive path accepts a message A signed and encrypted")
				}
			}
			// and B must accept it
			dec, err := B.Decrypt(ct)
			if err != nil || len(dec) != len(full) || B.VerifySignature(dec[:len(pt)], dec[len(pt):len(pt)+len(sig)]) != nil {
				add("protected-message-rejected-by-gopcua-peer", "B cannot decrypt+verify what A signed+encrypted (err=%v)", err)
			}
		}
	}
	return
}

func main() {
	id := "C14"
	if len(os.Args) > 1 {
		id = os.Args[1]
	}
	r := evid.New(id)
	var rc cse
	if evid.ReplayInput(&rc) {
		p := refcodec.PolicyByName(rc.Policy)
		l, _ := hex.DecodeString(rc.Local)
		rm, _ := hex.DecodeString(rc.Remote)
		vs := check(p, l, rm)
		fmt.Printf("replay %+v -> %d violations\n", rc, len(vs))
		for _, v := range vs {
			fmt.Printf("  %s: %s\n", v.sig, v.detail)
		}
		if len(vs) > 0 {
			os.Exit(1)
		}
		return
	}
	var nNonces []int
	var i int64
	for _, p := range refcodec.SecuredPolicies {
		ns := nonceSet(p, evid.Thorough())
		nNonces = append(nNonces, len(ns))
		for _, l := range ns {
			for _, rm := range ns {
				if bytes.Equal(l.b, rm.b) {
					continue
				}
				i++
				c := cse{p.Name, hex.EncodeToString(l.b), hex.EncodeToString(rm.b), l.kind, rm.kind}
				vs := check(p, l.b, rm.b)
				r.Eval(p.Name + "|" + c.Local + "|" + c.Remote)
				if i%997 == 1 {
					r.Sample(c)
				}
				if len(vs) == 0 {
					r.Outcome("all-directions-agree-with-reference")
				}
				for _, v := range vs {
					r.Outcome("violation:" + v.sig)
					r.Violate(v.sig, fmt.Sprintf("%s; policy %s local=%s(%s) remote=%s(%s)", v.detail, p.Name, c.Local, l.kind, c.Remote, rm.kind), c)
				}
			}
		}
	}
	r.Rule(fmt.Sprintf("every ordered pair (local, remote), local != remote, of the nonce set {lengths x contents, duplicates removed} (%v nonces per policy) for each of the 5 secured policies; per case: signatures over messages of %v bytes and AES-CBC over plaintexts of %v bytes in both directions against refcodec's P_SHA keys, the gopcua peer, and reflection into the sender's own receive path; every case is non-trivial (two distinct nonces give two distinct key sets), distinct by (policy, local nonce, remote nonce)", nNonces, msgLens, ptLens))
	r.Set("nonces_per_policy", nNonces)
	r.Assume("HMAC-SHA1/SHA256, AES and the TLS P_hash construction are taken from Go's crypto packages on the reference side; the reference P_SHA256 was checked against the published TLS 1.2 PRF vector (engine/refcodec tests)")
	r.Finish()
}
