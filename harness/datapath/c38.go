// C38: a maximal chunk body always fits the negotiated chunk size.
//
// Every chunk size of the tier's range x every (policy, mode) cell: the real
// channelInstance.SetMaximumBodySize computes the maximum body, the real chunk
// encoder (Message.EncodeChunks) and the real channelInstance.signAndEncrypt
// produce the wire chunk for body = max (and max+1 in SignAndEncrypt). The
// oracle is ref.go: chunk <= size, MessageSize == length, encrypted region a
// whole number of cipher blocks, signature valid under independently derived
// keys, padding bytes all equal PaddingSize; max+1 does not fit.
package main

import (
	"bytes"
	"encoding/binary"
	"fmt"
	"os"
	"sort"

	"github.com/gopcua/opcua/ua"
	"github.com/gopcua/opcua/uasc"
	"verif/engine/evid"
)

type c38Case struct {
	Policy    string `json:"policy"`
	Mode      int    `json:"mode"`
	ChunkSize int    `json:"chunk_size"`
	// Kind: "max" body = what SetMaximumBodySize computed; "max+1" one more byte put
	// into one chunk; "body" an explicit body size <= max (Body).
	Kind string `json:"kind"`
	Body int    `json:"body,omitempty"`
}

type c38Cell struct {
	sp   *symSpec
	mode int
	inst *uasc.VerifInstance
	keys symKeys // keys the instance sends with, derived independently
}

func fixedNonce(n int, salt byte) []byte {
	b := make([]byte, n)
	for i := range b {
		b[i] = byte(i*7) ^ salt
	}
	return b
}

const (
	c38ChannelID = 0x01020304
	c38TokenID   = 0x0a0b0c0d
)

func newC38Cell(policy string, mode int) (*c38Cell, error) {
	sp := specByName(policy)
	if sp == nil {
		return nil, fmt.Errorf("unknown policy %s", policy)
	}
	var ln, rn []byte
	if sp.Name != "None" {
		ln, rn = fixedNonce(sp.NonceLen, 0x11), fixedNonce(sp.NonceLen, 0xa5)
	}
	inst, err := uasc.VerifNewSymmetricInstance(sp.URI, ua.MessageSecurityMode(mode), ln, rn, c38ChannelID, c38TokenID)
	if err != nil {
		return nil, err
	}
	c := &c38Cell{sp: sp, mode: mode, inst: inst}
	if sp.Name != "None" {
		c.keys = senderKeys(sp, ln, rn)
	}
	return c, nil
}

func c38Pattern(n, salt int) []byte {
	b := make([]byte, n)
	for i := range b {
		b[i] = byte(i*131 + salt + i>>8)
	}
	return b
}

type c38Info struct {
	Max, TrueMax, WireLen, RefLen, Pad, Chunks int
}

// c38Run executes one case on the real code and judges it.
func c38Run(cell *c38Cell, c c38Case) (sig, detail string, info c38Info) {
	pfx := fmt.Sprintf("C38/%s/%s/", cell.sp.Name, modeName(cell.mode))
	defer func() {
		if p := recover(); p != nil {
			sig, detail = pfx+"body="+c.Kind+"/panic/"+topRepoFunc(), fmt.Sprintf("panic: %v", p)
		}
	}()
	N := c.ChunkSize
	max := int(cell.inst.SetMaximumBodySize(N))
	info.Max = max
	info.TrueMax = refTrueMaxBody(cell.sp, cell.mode, N)

	// arithmetic part of the statement, judged on the number the real code computed
	if max < 4 || max > N {
		return pfx + "maxBodySize-out-of-range/SetMaximumBodySize", fmt.Sprintf("chunk size %d: maxBodySize=%d", N, max), info
	}
	if refChunkLen(cell.sp, cell.mode, max) > N {
		return pfx + "maxBodySize-too-large/SetMaximumBodySize", fmt.Sprintf("chunk size %d: maxBodySize=%d needs a %d byte chunk by Part 6 arithmetic (largest fitting body is %d)", N, max, refChunkLen(cell.sp, cell.mode, max), info.TrueMax), info
	}
	if cell.mode == modeSE && refChunkLen(cell.sp, cell.mode, max+1) <= N {
		return pfx + "maxBodySize-too-small/SetMaximumBodySize", fmt.Sprintf("chunk size %d: maxBodySize=%d but %d would still fit (chunk %d)", N, max, max+1, refChunkLen(cell.sp, cell.mode, max+1)), info
	}

	n, limit := max, max
	switch c.Kind {
	case "max+1":
		n, limit = max+1, max+1
	case "body":
		n = c.Body
	}
	raw := c38Pattern(n-4, N)
	chunks, err := cell.inst.EncodeAndProtect(raw, uint32(limit), 7)
	if err != nil {
		return pfx + "body=" + c.Kind + "/protect-error/signAndEncrypt", fmt.Sprintf("chunk size %d body %d: %v", N, n, err), info
	}
	info.Chunks = len(chunks)
	if len(chunks) == 0 {
		return pfx + "body=" + c.Kind + "/no-chunk/EncodeChunks", "", info
	}
	info.WireLen = len(chunks[0])
	info.RefLen = refChunkLen(cell.sp, cell.mode, n)

	if c.Kind == "max+1" {
		// one more body byte in the same chunk must no longer fit
		if len(chunks[0]) <= N {
			return pfx + "body=max+1/still-fits/SetMaximumBodySize", fmt.Sprintf("chunk size %d: a body of maxBodySize+1=%d bytes gives a %d byte chunk", N, n, len(chunks[0])), info
		}
		return "", "", info
	}

	var got []byte
	for j, w := range chunks {
		if len(w) > N {
			return pfx + "body=" + c.Kind + "/chunk-exceeds-size/signAndEncrypt", fmt.Sprintf("chunk size %d, maxBodySize %d, body %d: chunk %d/%d has %d bytes", N, max, n, j+1, len(chunks), len(w)), info
		}
		if ms := binary.LittleEndian.Uint32(w[4:]); int(ms) != len(w) {
			return pfx + "body=" + c.Kind + "/MessageSize-mismatch/signAndEncrypt", fmt.Sprintf("chunk size %d body %d: header says %d, chunk has %d bytes", N, n, ms, len(w)), info
		}
		_, _, body, pad, err := refOpen(cell.sp, cell.mode, cell.keys, w)
		if err != nil {
			return pfx + "body=" + c.Kind + "/layout/" + layoutClass(err) + "/signAndEncrypt", fmt.Sprintf("chunk size %d body %d chunk %d/%d (%d bytes): %v", N, n, j+1, len(chunks), len(w), err), info
		}
		if j == 0 {
			info.Pad = pad
		}
		got = append(got, body...)
	}
	if len(got) != n || !bytes.Equal(got[4:], raw) {
		return pfx + "body=" + c.Kind + "/body-differs/EncodeChunks", fmt.Sprintf("chunk size %d: %d body bytes in, %d recovered from the chunks", N, n, len(got)), info
	}
	return "", "", info
}

func layoutClass(err error) string {
	s := err.Error()
	switch {
	case bytes.Contains([]byte(s), []byte("cipher blocks")):
		return "not-whole-cipher-blocks"
	case bytes.Contains([]byte(s), []byte("signature")):
		return "signature-invalid"
	case bytes.Contains([]byte(s), []byte("adding")):
		return "padding-malformed"
	case bytes.Contains([]byte(s), []byte("MessageSize")):
		return "MessageSize-mismatch"
	}
	return "malformed"
}

// c38Sizes returns the chunk sizes of the tier, ascending, without duplicates.
func c38Sizes(thorough bool) (sizes []int, text string) {
	set := map[int]bool{}
	add := func(lo, hi, step int) {
		for n := lo; n <= hi; n += step {
			set[n] = true
		}
	}
	if thorough {
		add(8192, 65791, 1)
		add(65792, 1<<20+64, 4099)
		for k := 16; k <= 20; k++ {
			add(1<<k-64, 1<<k+64, 1)
		}
		text = "every chunk size 8192..65791; 65792..2^20+64 in steps of 4099; every size within +-64 of 2^16, 2^17, 2^18, 2^19, 2^20"
	} else {
		add(8192, 16383, 1)
		add(65535-256, 65536+255, 1)
		for k := 17; k <= 20; k++ {
			add(1<<k-16, 1<<k+16, 1)
		}
		text = "every chunk size 8192..16383 (each residue mod 16 512 times); every size 65279..65791 (around the default 65535 and 2^16); every size within +-16 of 2^17, 2^18, 2^19, 2^20"
	}
	for n := range set {
		sizes = append(sizes, n)
	}
	sort.Ints(sizes)
	return
}

type c38CellID struct {
	Policy string
	Mode   int
}

func c38Cells() []c38CellID {
	cells := []c38CellID{{"None", modeNone}}
	for _, sp := range symSpecs {
		for _, m := range []int{modeNone, modeSign, modeSE} {
			cells = append(cells, c38CellID{sp.Name, m})
		}
	}
	return cells
}

// residue sweep: chunk sizes at which many body sizes are run, so that every
// PaddingSize value occurs (body = max alone always pads minimally).
var c38SweepSizes = []int{8192, 8193, 8194, 8195, 8196, 8197, 8198, 8199, 8200, 8201, 8202, 8203, 8204, 8205, 8206, 8207, 65535, 65536}

func runC38() {
	r := evid.New("C38")
	var rc c38Case
	if evid.ReplayInput(&rc) {
		cell, err := newC38Cell(rc.Policy, rc.Mode)
		if err != nil {
			evid.EngineError("C38", "replay: %v", err)
		}
		sig, detail, info := c38Run(cell, rc)
		fmt.Printf("replay %+v\n  -> %+v\n  sig=%q\n  detail=%q\n", rc, info, sig, detail)
		if sig != "" {
			os.Exit(1)
		}
		return
	}
	sizes, text := c38Sizes(evid.Thorough())
	cells := c38Cells()
	r.Rule("grid: {" + text + "} x 16 cells (policy None/mode None; 5 symmetric policies x modes None, Sign, SignAndEncrypt); per cell and size the real SetMaximumBodySize, then body=max through the real EncodeChunks+signAndEncrypt, and body=max+1 in SignAndEncrypt; plus, at chunk sizes 8192..8207, 65535, 65536, every body size 4..68 and max-64..max-1 (every PaddingSize value). A case = (policy, mode, chunk size, body kind/size); non-trivial = mode Sign or SignAndEncrypt (mode None adds no security footer), distinct by that tuple")
	r.Assume("symmetric keys derived from fixed nonces (the size arithmetic does not depend on key values)",
		"policy None is run in mode None only; real policies in mode None are reachable on a server channel (mode comes from the OpenSecureChannel request) and are included as trivial cases")

	deaths := evid.Sharded(r, 4<<30, func(s evid.ShardInfo, w *evid.Run) {
		insts := map[c38CellID]*c38Cell{}
		for _, id := range cells {
			c, err := newC38Cell(id.Policy, id.Mode)
			if err != nil {
				evid.EngineError("C38", "cell %v: %v", id, err)
			}
			insts[id] = c
		}
		var idx int64
		run := func(id c38CellID, c c38Case) {
			idx++
			if !s.Mine(idx) {
				return
			}
			evid.Publish(fmt.Sprintf("%+v", c))
			sig, detail, info := c38Run(insts[id], c)
			key := ""
			if id.Mode != modeNone {
				key = fmt.Sprintf("%s/%d/%d/%s/%d", c.Policy, c.Mode, c.ChunkSize, c.Kind, c.Body)
			}
			w.Eval(key)
			if sig != "" {
				w.Violate(sig, detail+fmt.Sprintf("; case %+v; %+v", c, info), c)
				w.Outcome("violation")
				return
			}
			switch {
			case c.Kind == "max+1":
				w.Outcome(fmt.Sprintf("%s/max+1 overflows by %d", modeName(id.Mode), info.WireLen-c.ChunkSize))
			case id.Mode == modeSE && c.Kind == "max":
				w.Outcome(fmt.Sprintf("SignAndEncrypt/body=max/pad=%d/slack=%d", info.Pad, c.ChunkSize-info.WireLen))
			case id.Mode == modeSE:
				w.Outcome(fmt.Sprintf("SignAndEncrypt/body<max/pad=%d", info.Pad))
			default:
				w.Outcome(fmt.Sprintf("%s/%s/fits", modeName(id.Mode), kindClass(c.Kind)))
			}
			if info.WireLen != info.RefLen {
				w.Outcome("not judged: chunk length differs from minimal-padding reference")
			}
			if (c.ChunkSize == 65535 || c.ChunkSize == 8201) && c.Kind != "body" && id.Policy == "Basic256Sha256" {
				w.Sample(map[string]any{"case": c, "result": info})
			}
		}
		for _, N := range sizes {
			for _, id := range cells {
				run(id, c38Case{Policy: id.Policy, Mode: id.Mode, ChunkSize: N, Kind: "max"})
				if id.Mode == modeSE {
					run(id, c38Case{Policy: id.Policy, Mode: id.Mode, ChunkSize: N, Kind: "max+1"})
				}
			}
		}
		for _, N := range c38SweepSizes {
			for _, id := range cells {
				max := int(insts[id].inst.SetMaximumBodySize(N))
				for n := 4; n <= 68; n++ {
					run(id, c38Case{Policy: id.Policy, Mode: id.Mode, ChunkSize: N, Kind: "body", Body: n})
				}
				for n := max - 64; n < max; n++ {
					run(id, c38Case{Policy: id.Policy, Mode: id.Mode, ChunkSize: N, Kind: "body", Body: n})
				}
			}
		}
	})
	for _, d := range deaths {
		r.Violate("C38/worker-death", fmt.Sprintf("worker %d died (%s) while running %s\n%s", d.Shard, d.ExitErr, d.LastCase, d.Stderr), d.LastCase)
	}
	r.Set("chunk_sizes", len(sizes))
	r.Set("cells", len(cells))
	r.Finish()
}

func kindClass(k string) string {
	if k == "body" {
		return "body<max"
	}
	return "body=" + k
}
