// C09: tampered, truncated or forged secured chunks are rejected.
//
// A real client channel and a real server channel are connected through the
// proxy of pair.go. A valid chunk A of the direction under test is captured at
// the proxy and withheld; instead, every mutation of A from a complete,
// deterministic list is delivered to the receiver. What follows a mutated
// delivery is decided from the bytes alone:
//
//   - the mutation is one well-framed chunk (its MessageSize field equals its
//     length): the real sender then sends a fresh, valid sentinel message on the
//     same channel; the case ends when the receiver hands the sentinel to the
//     application or reports the end of the stream;
//   - otherwise (the framing is out of step, the receiver may legitimately wait
//     for more bytes): a withheld valid chunk S follows and the stream ends.
//
// Oracle (the statement, no more): no panic; nothing but the sentinels reaches
// the application; the receiver reports at least one error. There is no timing
// in the verdict; the 60 s watchdog only turns a hang into a report.
//
// Receivers run in sub-processes (a panic inside gopcua's own dispatcher
// goroutine cannot be recovered): the supervisor blames the case in flight and
// restarts behind it, so one crash costs one case, not a shard.
package main

import (
	"bufio"
	"bytes"
	"context"
	"encoding/binary"
	"encoding/json"
	"errors"
	"fmt"
	"io"
	"os"
	"os/exec"
	"strings"
	"sync"
	"time"

	"github.com/gopcua/opcua/ua"
	"verif/engine/evid"
)

// ---------------------------------------------------------------------------
// cells and mutations

type c09Cell struct {
	Policy string `json:"policy"`
	Mode   int    `json:"mode"`
	Bits   int    `json:"bits"`
	Recv   string `json:"recv"` // "server" or "client": which channel kind receives the mutated chunk
	Kind   string `json:"kind"` // "MSG" or "OPN"
}

func (c c09Cell) dir() int {
	if c.Recv == "server" {
		return dirC2S
	}
	return dirS2C
}

func (c c09Cell) prefix() string {
	return fmt.Sprintf("C09/%s/%s/%s/%s", c.Policy, modeName(c.Mode), c.Recv, c.Kind)
}

func (c c09Cell) pairCfg() pairCfg {
	return pairCfg{Policy: c.Policy, Mode: c.Mode, Bits: c.Bits, ChunkSize: 8192, ReqTimeout: 30 * time.Minute}
}

type c09Mut struct {
	Class   string `json:"class"`
	Op      string `json:"op"` // flip, trunc, append, pair, alien
	Pos     int    `json:"pos,omitempty"`
	Bit     int    `json:"bit,omitempty"`
	Len     int    `json:"len,omitempty"`
	Fix     bool   `json:"fix,omitempty"`
	Pos2    int    `json:"pos2,omitempty"`
	Mask    int    `json:"mask,omitempty"`
	Mask2   int    `json:"mask2,omitempty"`
	Variant string `json:"variant,omitempty"`
}

func (m c09Mut) String() string {
	switch m.Op {
	case "flip":
		return fmt.Sprintf("%s: flip bit %d of byte %d", m.Class, m.Bit, m.Pos)
	case "trunc":
		return fmt.Sprintf("%s: first %d bytes, MessageSize fixed up=%v", m.Class, m.Len, m.Fix)
	case "append":
		return fmt.Sprintf("%s: %d bytes appended, MessageSize fixed up=%v", m.Class, m.Len, m.Fix)
	case "pair":
		return fmt.Sprintf("%s: byte %d ^= %#x, byte %d ^= %#x", m.Class, m.Pos, m.Mask, m.Pos2, m.Mask2)
	}
	return fmt.Sprintf("%s: %s", m.Class, m.Variant)
}

// layout of the captured chunk, as far as mutation classes need it
type c09Layout struct {
	Len      int
	SecEnd   int // end of the plaintext headers (12 + security header)
	HdrEnd   int // end of the region treated as "header" (all 8 bits flipped)
	TailFrom int // start of the padding/signature region
	SigLen   int
	Block    int
}

func c09LayoutOf(cell c09Cell, a []byte) c09Layout {
	sp := specByName(cell.Policy)
	l := c09Layout{Len: len(a), SigLen: sp.SigLen, Block: sp.Block}
	if cell.Kind == "MSG" {
		l.SecEnd = symHdrLen
		if cell.Mode == modeSE {
			l.HdrEnd = symHdrLen + sp.Block // sequence header sits in the first cipher block
			l.TailFrom = len(a) - sp.SigLen - sp.Block
		} else {
			l.HdrEnd = symHdrLen + seqHdrLen
			l.TailFrom = len(a) - sp.SigLen
		}
		return l
	}
	// OPN: 12 | len uri | len cert | len thumbprint | RSA blocks
	pos := msgHeaderLen
	for i := 0; i < 3 && pos+4 <= len(a); i++ {
		n := int(int32(binary.LittleEndian.Uint32(a[pos:])))
		pos += 4
		if n > 0 {
			pos += n
		}
		if i == 0 {
			l.HdrEnd = pos + 4 // message header, policy URI, certificate length field
		}
	}
	l.SecEnd = pos
	l.SigLen = cell.Bits / 8
	l.Block = cell.Bits / 8
	l.TailFrom = len(a) - 64
	return l
}

func (l c09Layout) region(cell c09Cell, pos int) string {
	switch {
	case pos < 3:
		return "message-type"
	case pos == 3:
		return "chunk-type"
	case pos < 8:
		return "size-field"
	case pos < 12:
		return "channel-id"
	}
	if cell.Kind == "OPN" {
		if pos < l.SecEnd {
			return "security-header"
		}
		return "ciphertext"
	}
	switch {
	case pos < 16:
		return "token-id"
	case cell.Mode == modeSE && pos >= l.TailFrom:
		return "ciphertext-tail"
	case cell.Mode == modeSE:
		return "ciphertext"
	case pos < 24:
		return "sequence-header"
	case pos >= l.TailFrom:
		return "signature"
	}
	return "body"
}

func (l c09Layout) truncBucket(cell c09Cell, k int) string {
	switch {
	case k < 8:
		return "below-8"
	case k < 12:
		return "below-12"
	}
	if cell.Kind == "OPN" {
		if k < l.SecEnd {
			return "inside-security-header"
		}
		return "inside-ciphertext"
	}
	switch {
	case k < 16:
		return "below-16"
	case k < l.SecEnd+l.SigLen:
		return "shorter-than-header+signature"
	case k < l.SecEnd+seqHdrLen+l.SigLen:
		return "no-room-for-sequence-header"
	}
	return "longer"
}

var pairMasks = []int{0x01, 0x80, 0xff}

// c09Mutations is the complete list for one captured chunk; it depends on the
// cell, the chunk length and the tier only.
func c09Mutations(cell c09Cell, a []byte, thorough bool) []c09Mut {
	l := c09LayoutOf(cell, a)
	var out []c09Mut
	inHot := func(p int) bool { return p < l.HdrEnd || p >= l.TailFrom }
	// single-bit flips
	for p := 0; p < l.Len; p++ {
		for b := 0; b < 8; b++ {
			if thorough || inHot(p) || b == p%8 {
				out = append(out, c09Mut{Class: "bitflip/" + l.region(cell, p), Op: "flip", Pos: p, Bit: b})
			}
		}
	}
	// truncations: every length, with the original MessageSize and with MessageSize = length
	truncOK := func(k int) bool {
		if thorough || cell.Kind == "MSG" {
			return true
		}
		// quick, OPN: every length inside headers, +-64 around the end of the
		// security header, every length of the last 64 bytes
		return k < l.HdrEnd || (k >= l.SecEnd-64 && k <= l.SecEnd+64) || k >= l.Len-64
	}
	for k := 1; k < l.Len; k++ {
		if !truncOK(k) {
			continue
		}
		out = append(out, c09Mut{Class: "truncate/original-size/" + l.truncBucket(cell, k), Op: "trunc", Len: k})
		if k >= 8 {
			out = append(out, c09Mut{Class: "truncate/fixed-size/" + l.truncBucket(cell, k), Op: "trunc", Len: k, Fix: true})
		}
	}
	// appended bytes: 1..block size (AES block for MSG; for OPN 1..16 and the RSA block size +-1)
	var extra []int
	for j := 1; j <= 16; j++ {
		extra = append(extra, j)
	}
	if cell.Kind == "OPN" {
		extra = append(extra, l.Block-1, l.Block, l.Block+1)
		if thorough {
			for j := 17; j < l.Block-1; j++ {
				extra = append(extra, j)
			}
		}
	}
	for _, j := range extra {
		out = append(out, c09Mut{Class: "append/original-size", Op: "append", Len: j})
		out = append(out, c09Mut{Class: "append/fixed-size", Op: "append", Len: j, Fix: true})
	}
	// chunks protected with other keys
	variants := []string{"reflected"}
	if cell.Kind == "MSG" {
		variants = []string{"other-channel", "other-channel-ids-rewritten", "old-nonces", "reflected", "forged-with-other-nonces", "forged-unprotected"}
	}
	for _, v := range variants {
		out = append(out, c09Mut{Class: "wrongkeys/" + v, Op: "alien", Variant: v})
	}
	// thorough: all two-byte modifications inside header, padding and signature regions
	if thorough {
		var hot []int
		for p := 0; p < l.Len; p++ {
			if cell.Kind == "OPN" {
				if p < 16 || p >= l.Len-16 {
					hot = append(hot, p)
				}
			} else if inHot(p) {
				hot = append(hot, p)
			}
			if n := len(hot); n > 0 && hot[n-1] >= 4 && hot[n-1] < 8 {
				// pairs never touch the MessageSize field: it only decides where the
				// receiver cuts the stream; all its single-bit flips are in the list above
				hot = hot[:n-1]
			}
		}
		for i := 0; i < len(hot); i++ {
			for j := i + 1; j < len(hot); j++ {
				for _, m1 := range pairMasks {
					for _, m2 := range pairMasks {
						out = append(out, c09Mut{Class: "twobytes/" + l.region(cell, hot[i]) + "+" + l.region(cell, hot[j]), Op: "pair", Pos: hot[i], Mask: m1, Pos2: hot[j], Mask2: m2})
					}
				}
			}
		}
	}
	return out
}

func junk(n int) []byte {
	b := make([]byte, n)
	for i := range b {
		b[i] = byte(0xa7 + i*29)
	}
	return b
}

// ---------------------------------------------------------------------------
// rigs

type c09Outcome struct {
	Errors    int      `json:"errors"`
	Delivered []string `json:"delivered,omitempty"` // A: the withheld message, S: withheld sentinel, L: live sentinel, OPN: handshake accepted, ?: anything else
	Terminal  bool     `json:"terminal,omitempty"`  // the receiver saw the end of the stream; the pair is used up
	Panic     string   `json:"panic,omitempty"`
	PanicFn   string   `json:"panic_fn,omitempty"`
	Hang      string   `json:"hang,omitempty"`
	LastErr   string   `json:"last_err,omitempty"`
	Infra     string   `json:"infra,omitempty"` // the harness could not stage the case
}

type c09Rig struct {
	cell c09Cell
	p    *pair
	A, S []byte
	live int

	// client receiver: messages handed to response handlers
	mu        sync.Mutex
	delivered []string
	pendA     chan error
	pendS     chan error
	reqIDA    uint32
	openDone  chan error
	openCtx   context.CancelFunc

	aliens map[string][]byte
}

const markerLen = 24

func markerBytes(m string) []byte {
	b := bytes.Repeat([]byte{'.'}, markerLen)
	copy(b, "C09:"+m)
	return b
}

func markerOf(b []byte, ok bool) string {
	if !ok || len(b) != markerLen || !bytes.HasPrefix(b, []byte("C09:")) {
		return "?"
	}
	return strings.TrimRight(string(b[4:]), ".")
}

func markerRequest(m string) *ua.WriteRequest {
	r := buildRequest(1, 0)
	r.NodesToWrite[0].Value.Value = ua.MustVariant(markerBytes(m))
	return r
}

func markerResponse(m string, handle uint32) *ua.ReadResponse {
	r := buildResponse(1, 0, handle)
	r.Results[0].Value = ua.MustVariant(markerBytes(m))
	return r
}

func (r *c09Rig) note(m string) {
	r.mu.Lock()
	r.delivered = append(r.delivered, m)
	r.mu.Unlock()
}

func (r *c09Rig) takeDelivered() []string {
	r.mu.Lock()
	defer r.mu.Unlock()
	d := r.delivered
	r.delivered = nil
	return d
}

func normMarker(m string) string {
	if strings.HasPrefix(m, "L") {
		return "L"
	}
	return m
}

// captureNext arms the proxy to withhold (or copy) the next frame of the given
// type in direction dir.
func (r *c09Rig) captureNext(dir int, typ string, swallow bool) chan []byte {
	got := make(chan []byte, 1)
	var once sync.Once
	r.p.px.setHook(dir, func(raw []byte) bool {
		if string(raw[:3]) != typ {
			return true
		}
		fwd := true
		once.Do(func() {
			got <- append([]byte(nil), raw...)
			fwd = !swallow
		})
		return fwd
	})
	return got
}

func waitBytes(ch chan []byte) ([]byte, error) {
	select {
	case b := <-ch:
		return b, nil
	case <-time.After(watchdog):
		return nil, errors.New("watchdog while capturing a chunk at the proxy")
	}
}

// startCarrier sends a small request whose response handler records what it is given.
func (r *c09Rig) startCarrier() chan error {
	done := make(chan error, 1)
	go func() {
		done <- r.p.cli.SendRequest(r.p.ctx, carrierRequest(), nil, func(resp ua.Response) error {
			r.note(markerOf(responsePayload(resp)))
			return nil
		})
	}()
	return done
}

// answerCarrier waits for the carrier request at the server and answers it.
func (r *c09Rig) answerCarrier(marker string) (uint32, error) {
	ev, ok := r.p.nextSrvEvent()
	if !ok || ev.Panic != "" || ev.Msg.Err != nil || ev.Msg.Request() == nil {
		return 0, fmt.Errorf("carrier request did not reach the server: ok=%v %s %s", ok, ev.Panic, fmtMsg(ev.Msg))
	}
	return ev.Msg.RequestID, r.p.srv.SendResponseWithContext(r.p.ctx, ev.Msg.RequestID, markerResponse(marker, ev.Msg.Request().Header().RequestHandle))
}

func (r *c09Rig) setup() (err error) {
	if os.Getenv("VERIF_C09_TIMING") != "" {
		t0 := time.Now()
		defer func() { fmt.Fprintf(os.Stderr, "setup %v\n", time.Since(t0)) }()
	}
	r.teardown()
	cfg := r.cell.pairCfg()
	if r.cell.Kind == "OPN" {
		if r.p, err = newPairRetry(cfg); err != nil {
			return err
		}
		got := r.captureNext(r.cell.dir(), "OPN", true)
		ctx, cancel := context.WithCancel(r.p.ctx)
		r.openCtx = cancel
		r.openDone = make(chan error, 1)
		r.p.opened = true
		go func(p *pair, done chan error) { done <- p.cli.Open(ctx) }(r.p, r.openDone)
		if r.cell.Recv == "client" {
			// the server handles the real request; its response is withheld
			ev, ok := r.p.nextSrvEvent()
			if !ok || ev.Panic != "" || ev.Msg.Err != nil {
				return fmt.Errorf("server did not handle the OpenSecureChannel request: %v %s", ok, fmtMsg(ev.Msg))
			}
		}
		if r.A, err = waitBytes(got); err != nil {
			return err
		}
		r.p.px.setHook(r.cell.dir(), nil)
		return nil
	}
	if r.p, err = openPair(cfg); err != nil {
		return err
	}
	if r.cell.Recv == "server" {
		for _, m := range []string{"A", "S"} {
			got := r.captureNext(dirC2S, "MSG", true)
			if err = r.p.cli.SendRequest(r.p.ctx, markerRequest(m), nil, nil); err != nil {
				return err
			}
			b, err := waitBytes(got)
			if err != nil {
				return err
			}
			if m == "A" {
				r.A = b
			} else {
				r.S = b
			}
		}
		r.p.px.setHook(dirC2S, nil)
		return nil
	}
	for _, m := range []string{"A", "S"} {
		pend := r.startCarrier()
		got := r.captureNext(dirS2C, "MSG", true)
		id, err := r.answerCarrier(m)
		if err != nil {
			return err
		}
		b, err := waitBytes(got)
		if err != nil {
			return err
		}
		if m == "A" {
			r.A, r.pendA, r.reqIDA = b, pend, id
		} else {
			r.S, r.pendS = b, pend
		}
	}
	r.p.px.setHook(dirS2C, nil)
	return nil
}

func (r *c09Rig) teardown() {
	if r.p == nil {
		return
	}
	if os.Getenv("VERIF_C09_TIMING") != "" {
		t0 := time.Now()
		defer func() { fmt.Fprintf(os.Stderr, "teardown %v\n", time.Since(t0)) }()
	}
	r.p.close() // stops the dispatcher first ...
	if r.openCtx != nil {
		r.openCtx() // ... and only then lets go of a pending Open
	}
	r.p, r.A, r.S, r.pendA, r.pendS, r.openDone, r.openCtx = nil, nil, nil, nil, nil, nil, nil
	r.takeDelivered()
}

// wellFramed: the bytes are exactly one frame as the UACP layer will cut it.
func wellFramed(t []byte) bool {
	return len(t) >= 8 && int(binary.LittleEndian.Uint32(t[4:])) == len(t)
}

// collectServer reads results of the server's Receive loop until stop says so.
func (r *c09Rig) collectServer(o *c09Outcome, until string) {
	for {
		ev, ok := r.p.nextSrvEvent()
		switch {
		case !ok:
			o.Hang = "the server's Receive neither returned an error nor a message within the watchdog"
			o.Terminal = true
			return
		case ev.Panic != "":
			o.Panic, o.PanicFn, o.Terminal = ev.Panic, ev.PanicFn, true
			return
		case ev.Msg.Err != nil:
			o.Errors++
			o.LastErr = ev.Msg.Err.Error()
			if ev.Msg.Err == io.EOF || errors.Is(ev.Msg.Err, context.Canceled) {
				o.Terminal = true
				return
			}
			if until == "one-event" {
				return
			}
		case ev.Msg.Request() != nil:
			m := markerOf(requestPayload(ev.Msg.Request()))
			o.Delivered = append(o.Delivered, normMarker(m))
			if m == until || until == "one-event" {
				return
			}
		default:
			// Receive reports a handled OpenSecureChannel request as an empty message
			o.Delivered = append(o.Delivered, "OPN")
			if until == "one-event" {
				return
			}
		}
	}
}

// awaitClientEOF reads what the client's dispatcher reports until it reports
// io.EOF, its last act before it stops. A dispatcher that is unwinding from a
// panic also closes its "disconnected" channel (deferred), which makes pending
// requests return io.EOF, but it never reports io.EOF itself: waiting here
// keeps the case in flight until the process is gone.
func (r *c09Rig) awaitClientEOF(o *c09Outcome) {
	for {
		e, ok := waitErr(r.p.cliErr)
		if !ok {
			o.Hang = "the client's dispatcher did not report the end of the stream within the watchdog"
			return
		}
		o.Errors++
		o.LastErr = e.Error()
		if e == io.EOF {
			return
		}
	}
}

func waitErr(ch chan error) (error, bool) {
	select {
	case e := <-ch:
		return e, true
	case <-time.After(watchdog):
		return nil, false
	}
}

// deliver stages one mutated chunk and observes the receiver.
func (r *c09Rig) deliver(t []byte) (o c09Outcome) {
	px, dir := r.p.px, r.cell.dir()
	framed := wellFramed(t)
	switch {
	case r.cell.Kind == "MSG" && r.cell.Recv == "server":
		px.inject(dir, t)
		if framed {
			r.live++
			live := fmt.Sprintf("L%d", r.live)
			r.p.cli.SendRequest(r.p.ctx, markerRequest(live), nil, nil)
			r.collectServer(&o, live)
		} else {
			px.inject(dir, r.S)
			px.endStream(dir)
			r.collectServer(&o, "\x00end")
		}

	case r.cell.Kind == "MSG" && r.cell.Recv == "client":
		px.inject(dir, t)
		if framed {
			r.live++
			live := fmt.Sprintf("L%d", r.live)
			done := r.startCarrier()
			if _, err := r.answerCarrier(live); err != nil {
				o.Infra = err.Error()
			}
			err, ok := waitErr(done)
			switch {
			case !ok:
				o.Hang = "the client neither delivered the sentinel response nor reported the end of the stream within the watchdog"
				o.Terminal = true
			case err != nil:
				o.Terminal = true
				r.awaitClientEOF(&o)
			}
		} else {
			px.inject(dir, r.S)
			px.endStream(dir)
			r.awaitClientEOF(&o)
			for _, pend := range []chan error{r.pendA, r.pendS} {
				if _, ok := waitErr(pend); !ok && o.Hang == "" {
					o.Hang = "a pending request did not return after the stream ended"
				}
			}
			o.Terminal = true
		}
		n, last := drainErrs(r.p.cliErr)
		o.Errors += n
		if last != nil {
			o.LastErr = last.Error()
		}
		for _, m := range r.takeDelivered() {
			o.Delivered = append(o.Delivered, normMarker(m))
		}

	case r.cell.Kind == "OPN" && r.cell.Recv == "server":
		px.inject(dir, t)
		if framed {
			r.collectServer(&o, "one-event")
		} else {
			px.endStream(dir)
			r.collectServer(&o, "\x00end")
		}

	default: // OPN, client
		px.inject(dir, t)
		if !framed {
			px.endStream(dir)
		}
		for {
			select {
			case e := <-r.p.cliErr:
				o.Errors++
				o.LastErr = e.Error()
				if e == io.EOF {
					// the dispatcher stopped; Open returns next
					o.Terminal = true
					if e, ok := waitErr(r.openDone); ok && e != io.EOF && !errors.Is(e, context.Canceled) {
						o.Delivered = append(o.Delivered, "OPN")
					}
					return o
				}
				if framed {
					return o
				}
			case e := <-r.openDone:
				o.Terminal = true
				if e == io.EOF || errors.Is(e, context.Canceled) {
					r.awaitClientEOF(&o)
				} else {
					o.Delivered = append(o.Delivered, "OPN")
					o.LastErr = fmt.Sprintf("Open returned %v", e)
					if !framed {
						r.awaitClientEOF(&o) // what follows the accepted chunk, up to the end of the stream
					}
				}
				return o
			case <-time.After(watchdog):
				o.Hang = "the client neither reported an error nor finished Open within the watchdog"
				o.Terminal = true
				return o
			}
		}
	}
	return o
}

// control delivers the withheld valid chunk unmodified: the receiver must accept it.
func (r *c09Rig) control() string {
	px, dir := r.p.px, r.cell.dir()
	px.inject(dir, r.A)
	var o c09Outcome
	switch {
	case r.cell.Kind == "MSG" && r.cell.Recv == "server":
		r.collectServer(&o, "A")
		if len(o.Delivered) == 1 && o.Delivered[0] == "A" && o.Errors == 0 {
			return "accepted"
		}
	case r.cell.Kind == "MSG":
		if e, ok := waitErr(r.pendA); ok && e == nil {
			if d := r.takeDelivered(); len(d) == 1 && d[0] == "A" {
				return "accepted"
			}
		}
	case r.cell.Recv == "server":
		r.collectServer(&o, "one-event")
		if len(o.Delivered) == 1 && o.Delivered[0] == "OPN" {
			if e, ok := waitErr(r.openDone); ok && e == nil {
				return "accepted"
			}
		}
	default:
		if e, ok := waitErr(r.openDone); ok && e == nil {
			return "accepted"
		}
	}
	return fmt.Sprintf("NOT accepted: %+v", o)
}

// apply builds the bytes of a mutation from the withheld chunk.
func (r *c09Rig) apply(m c09Mut) ([]byte, error) {
	a := r.A
	switch m.Op {
	case "flip":
		t := append([]byte(nil), a...)
		t[m.Pos] ^= 1 << m.Bit
		return t, nil
	case "pair":
		t := append([]byte(nil), a...)
		t[m.Pos] ^= byte(m.Mask)
		t[m.Pos2] ^= byte(m.Mask2)
		return t, nil
	case "trunc":
		t := append([]byte(nil), a[:m.Len]...)
		if m.Fix {
			binary.LittleEndian.PutUint32(t[4:], uint32(len(t)))
		}
		return t, nil
	case "append":
		t := append(append([]byte(nil), a...), junk(m.Len)...)
		if m.Fix {
			binary.LittleEndian.PutUint32(t[4:], uint32(len(t)))
		}
		return t, nil
	case "alien":
		return r.alien(m.Variant)
	}
	return nil, fmt.Errorf("unknown op %q", m.Op)
}

// alien produces a chunk that was protected with keys other than this channel's.
func (r *c09Rig) alien(variant string) ([]byte, error) {
	if b, ok := r.aliens[variant]; ok {
		return r.alienFixups(variant, b), nil
	}
	if r.aliens == nil {
		r.aliens = map[string][]byte{}
	}
	var b []byte
	var err error
	switch variant {
	case "other-channel", "other-channel-ids-rewritten":
		o := c09Rig{cell: r.cell}
		o.cell.Kind = "MSG"
		b, err = o.foreignChunk(0x51c0a077, 0x70c30077)
	case "old-nonces":
		o := c09Rig{cell: r.cell}
		b, err = o.foreignChunk(0, 0) // an earlier channel between the same parties with the same ids
	case "reflected":
		if r.cell.Kind == "OPN" {
			// the OpenSecureChannel chunk of the opposite direction (same certificates)
			o := c09Rig{cell: r.cell}
			if r.cell.Recv == "server" {
				o.cell.Recv = "client"
			} else {
				o.cell.Recv = "server"
			}
			if err = o.setup(); err == nil {
				b = append([]byte(nil), o.A...)
			}
			o.teardown()
			break
		}
		// a valid chunk of the opposite direction of THIS channel (same nonces):
		// one untouched carrier round trip, copied at the proxy
		opp := dirS2C
		if r.cell.Recv == "client" {
			opp = dirC2S
		}
		got := r.captureNext(opp, "MSG", false)
		done := r.startCarrier()
		if _, err := r.answerCarrier("R"); err != nil {
			return nil, err
		}
		if e, ok := waitErr(done); !ok || e != nil {
			return nil, fmt.Errorf("carrier round trip for the reflected chunk failed: %v", e)
		}
		r.takeDelivered()
		drainErrs(r.p.cliErr)
		b, err := waitBytes(got)
		r.p.px.setHook(opp, nil)
		return b, err // not cached: belongs to this pair
	case "forged-with-other-nonces", "forged-unprotected":
		sp := specByName(r.cell.Policy)
		mode := r.cell.Mode
		if variant == "forged-unprotected" {
			mode = modeNone
		}
		k := senderKeys(sp, fixedNonce(sp.NonceLen, 0x3c), fixedNonce(sp.NonceLen, 0xc3))
		var svc any
		reqID := uint32(9)
		if r.cell.Recv == "server" {
			q := markerRequest("A")
			q.SetHeader(probeRequestHeader())
			svc = q
		} else {
			svc = markerResponse("A", 1)
			reqID = r.reqIDA
		}
		body, e := ua.Encode(svc)
		if e != nil {
			return nil, e
		}
		tid, _ := ua.Encode(ua.NewFourByteExpandedNodeID(0, ua.ServiceTypeID(svc)))
		ch := binary.LittleEndian.Uint32(r.A[8:])
		tok := binary.LittleEndian.Uint32(r.A[12:])
		return refSeal(sp, mode, k, "MSG", 'F', ch, tok, 1000, reqID, append(tid, body...)), nil
	default:
		return nil, fmt.Errorf("unknown variant %q", variant)
	}
	if err != nil {
		return nil, err
	}
	r.aliens[variant] = b
	return r.alienFixups(variant, b), nil
}

func (r *c09Rig) alienFixups(variant string, b []byte) []byte {
	t := append([]byte(nil), b...)
	if variant == "other-channel-ids-rewritten" && len(t) >= 16 {
		copy(t[8:16], r.A[8:16])
	}
	return t
}

// foreignChunk opens another pair of the same cell and returns a valid MSG chunk of the cell's direction.
func (r *c09Rig) foreignChunk(channelID, tokenID uint32) ([]byte, error) {
	cfg := r.cell.pairCfg()
	cfg.ChannelID, cfg.TokenID = channelID, tokenID
	p, err := openPair(cfg)
	if err != nil {
		return nil, err
	}
	defer p.close()
	o := c09Rig{cell: r.cell, p: p}
	if r.cell.Recv == "server" {
		got := o.captureNext(dirC2S, "MSG", true)
		if err := p.cli.SendRequest(p.ctx, markerRequest("A"), nil, nil); err != nil {
			return nil, err
		}
		return waitBytes(got)
	}
	o.startCarrier()
	got := o.captureNext(dirS2C, "MSG", true)
	if _, err := o.answerCarrier("A"); err != nil {
		return nil, err
	}
	return waitBytes(got)
}

// judge applies the statement to an observed outcome.
func c09Judge(cell c09Cell, m c09Mut, o c09Outcome) (kind, fn string) {
	if o.Panic != "" {
		return "panic", o.PanicFn
	}
	recvFn := "SecureChannel.Receive"
	if o.Hang != "" {
		return "hang", recvFn
	}
	for _, d := range o.Delivered {
		switch {
		case d == "S" || d == "L":
		case (d == "A" || d == "OPN") && m.Class == "append/original-size":
			// an intact chunk followed by stray bytes: on a byte stream the chunk
			// itself is indistinguishable from an untouched one
		default:
			return "delivered-to-application", recvFn
		}
	}
	if o.Errors == 0 {
		return "no-error-reported", recvFn
	}
	return "", ""
}

// ---------------------------------------------------------------------------
// sub-process: runs the cases of one job, one line of output per step

type c09Job struct {
	Cell     c09Cell `json:"cell"`
	Part     int     `json:"part"`
	Parts    int     `json:"parts"`
	From     int     `json:"from"` // skip case indices below
	Thorough bool    `json:"thorough"`
	Single   *c09Mut `json:"single,omitempty"` // replay: exactly this mutation
}

type c09Result struct {
	Idx     int        `json:"idx"`
	Mut     c09Mut     `json:"mut"`
	Sig     string     `json:"sig,omitempty"`
	Outcome c09Outcome `json:"outcome"`
}

func c09Sub(job c09Job) {
	out := bufio.NewWriter(os.Stdout)
	emit := func(tag string, v any) {
		b, _ := json.Marshal(v)
		fmt.Fprintf(out, "%s %s\n", tag, b)
		out.Flush()
	}
	rig := &c09Rig{cell: job.Cell}
	if err := rig.setup(); err != nil {
		emit("E", fmt.Sprintf("setup %+v: %v", job.Cell, err))
		os.Exit(3)
	}
	muts := c09Mutations(job.Cell, rig.A, job.Thorough)
	if job.Single != nil {
		muts = []c09Mut{*job.Single}
		job.Part, job.Parts, job.From = 0, 1, 0
	}
	emit("T", map[string]int{"total": len(muts), "chunk_len": len(rig.A)})
	controls := 0
	for i, m := range muts {
		if i%job.Parts != job.Part || i < job.From {
			continue
		}
		if rig.p == nil {
			if err := rig.setup(); err != nil {
				emit("E", fmt.Sprintf("setup %+v: %v", job.Cell, err))
				os.Exit(3)
			}
		}
		t, err := rig.apply(m)
		if err != nil {
			emit("E", fmt.Sprintf("apply %v: %v", m, err))
			os.Exit(3)
		}
		emit("S", map[string]any{"idx": i, "mut": m})
		o := rig.deliver(t)
		res := c09Result{Idx: i, Mut: m, Outcome: o}
		if o.Infra != "" {
			emit("E", fmt.Sprintf("case %v: %s", m, o.Infra))
			os.Exit(3)
		}
		if kind, fn := c09Judge(job.Cell, m, o); kind != "" {
			res.Sig = job.Cell.prefix() + "/" + m.Class + "/" + kind + "/" + fn
		}
		emit("R", res)
		if o.Terminal {
			rig.teardown()
		}
	}
	// positive control: the withheld chunk itself is accepted by a receiver that has
	// just rejected mutations of it
	if rig.p != nil {
		c := rig.control()
		emit("C", c)
		if c == "accepted" {
			controls++
		}
		rig.teardown()
	}
	emit("D", controls)
}

// ---------------------------------------------------------------------------
// supervisor

func c09Cells(thorough bool) []c09Cell {
	var cells []c09Cell
	for _, sp := range symSpecs {
		for _, mode := range []int{modeSign, modeSE} {
			for _, recv := range []string{"server", "client"} {
				cells = append(cells, c09Cell{sp.Name, mode, 2048, recv, "MSG"})
				cells = append(cells, c09Cell{sp.Name, mode, 2048, recv, "OPN"})
				if thorough && sp.MaxRSA >= 4096 && mode == modeSE {
					// signature > 256 bytes: the ExtraPaddingSize path of the asymmetric chunk
					cells = append(cells, c09Cell{sp.Name, mode, 4096, recv, "OPN"})
				}
			}
		}
	}
	return cells
}

type c09Replay struct {
	Cell c09Cell `json:"cell"`
	Mut  c09Mut  `json:"mut"`
}

func runC09() {
	if j := os.Getenv("VERIF_C09_JOB"); j != "" {
		var job c09Job
		if err := json.Unmarshal([]byte(j), &job); err != nil {
			fmt.Println("E", err)
			os.Exit(3)
		}
		c09Sub(job)
		return
	}
	r := evid.New("C09")
	var rc c09Replay
	if evid.ReplayInput(&rc) {
		st := c09Supervise(r, c09Job{Cell: rc.Cell, Parts: 1, Single: &rc.Mut}, true)
		if r.ViolationCount() > 0 || st != "" {
			fmt.Println("replay: still failing", st)
			os.Exit(1)
		}
		fmt.Println("replay: rejected as required")
		return
	}
	thorough := evid.Thorough()
	cells := c09Cells(thorough)
	const parts = 4
	var jobs []c09Job
	for _, c := range cells {
		for p := 0; p < parts; p++ {
			jobs = append(jobs, c09Job{Cell: c, Part: p, Parts: parts, Thorough: thorough})
		}
	}
	// heavy cells first (OPN needs an RSA operation per case)
	ordered := make([]c09Job, 0, len(jobs))
	for _, k := range []string{"OPN", "MSG"} {
		for _, j := range jobs {
			if j.Cell.Kind == k {
				ordered = append(ordered, j)
			}
		}
	}
	tierText := "one bit per byte position (bit = position mod 8) and all 8 bits in the header, padding and signature regions; OPN truncations at every length inside the headers, +-64 around the end of the security header and the last 64 bytes"
	if thorough {
		tierText = "all 8 bits of every byte; every truncation length; every two-byte modification (XOR masks 01, 80, ff on each byte) inside the header, padding and signature regions without the MessageSize field (OPN: first and last 16 bytes); OPN also with 4096-bit keys in SignAndEncrypt"
	}
	r.Rule("cells: 5 secured policies x {Sign, SignAndEncrypt} x receiver {server channel, client channel} x chunk kind {MSG, OPN}, RSA 2048; per cell a valid chunk is captured at a man-in-the-middle proxy between a real client and a real server channel and every mutation of the list is delivered instead: single-bit flips (" + tierText + "); truncation to every length with the original and with a fixed-up MessageSize; 1..16 (OPN: also RSA block size-1, block, block+1) appended bytes with and without fixed-up MessageSize; chunks protected with other keys (other channel, other channel with this channel's ids, earlier channel with the same ids = old nonces, reflected chunk of the opposite direction, forged with keys from other nonces, forged without protection). A case = (cell, mutation); every case is non-trivial (the bytes differ from every chunk the channel's keys produced); distinct by (cell, mutation parameters)")
	r.Assume("append/original-size (intact chunk followed by stray bytes) cannot be told from an untouched chunk on a byte stream: there the intact chunk may be delivered and only the stray bytes must produce an error",
		"io.EOF reported by Receive / the dispatcher after the stream ended counts as a reported error (any error satisfies the oracle)",
		"server-side receive loop keeps calling Receive after an error (channel_broker.go stops at the first error); this only adds behaviour to check")

	var wg sync.WaitGroup
	var failMu sync.Mutex
	var failed []string
	ch := make(chan c09Job)
	for w := 0; w < evid.Workers(); w++ {
		wg.Add(1)
		go func() {
			defer wg.Done()
			for j := range ch {
				if st := c09Supervise(r, j, false); st != "" {
					failMu.Lock()
					failed = append(failed, st)
					failMu.Unlock()
				}
			}
		}()
	}
	only := os.Getenv("VERIF_C09_ONLY") // debugging aid: run the jobs of one cell prefix only
	for _, j := range ordered {
		if only != "" && !strings.HasPrefix(j.Cell.prefix(), only) {
			continue
		}
		ch <- j
	}
	close(ch)
	wg.Wait()
	if len(failed) > 0 {
		// without a violation in hand an incomplete run is a failure of the machinery;
		// with violations they are reported and the run is marked incomplete
		if r.ViolationCount() == 0 {
			evid.EngineError("C09", "%d job(s) could not be completed; first: %s", len(failed), failed[0])
		}
		r.Capped(fmt.Sprintf("%d job(s) could not be completed (scaffolding failed three times in a row), first: %s", len(failed), firstLine(failed[0])))
	}
	r.Set("cells", len(cells))
	r.Finish()
}

// c09Supervise runs one job in sub-processes, restarting behind a crash.
// It returns a non-empty string if the machinery failed.
func c09Supervise(r *evid.Run, job c09Job, verbose bool) string {
	restarts, stalls, lastDone := 0, 0, -1
	for {
		jb, _ := json.Marshal(job)
		// re-execute this very binary image, even if its file name has been replaced meanwhile
		exe := "/proc/self/exe"
		if _, err := os.Stat(exe); err != nil {
			exe = os.Args[0]
		}
		cmd := exec.Command(exe, "C09")
		cmd.Env = append(os.Environ(), "VERIF_C09_JOB="+string(jb), "GOMAXPROCS=4", "GOTRACEBACK=all")
		var stderr tailBuf
		cmd.Stderr = &stderr
		stdout, err := cmd.StdoutPipe()
		if err != nil {
			return err.Error()
		}
		if err := cmd.Start(); err != nil {
			return err.Error()
		}
		var inflight *c09Result
		lastLine := ""
		done := false
		engine := ""
		sc := bufio.NewScanner(stdout)
		sc.Buffer(make([]byte, 1<<20), 1<<24)
		for sc.Scan() {
			line := sc.Text()
			if len(line) < 2 {
				continue
			}
			tag, payload := line[:1], []byte(line[2:])
			lastLine = line
			switch tag {
			case "T":
				if verbose {
					fmt.Println("sub:", line)
				}
			case "S":
				var s c09Result
				json.Unmarshal(payload, &s)
				inflight = &s
			case "R":
				var res c09Result
				if err := json.Unmarshal(payload, &res); err != nil {
					engine = "bad result line: " + line
					continue
				}
				inflight = nil
				lastDone = res.Idx
				if res.Sig != "" && job.Single == nil && !c09Reproduces(job.Cell, res.Mut) {
					// The case did not fail again in any of three fresh runs (new processes, new channel pair): the
					// statement quantifies over inputs, and an input that is rejected whenever it is tried again is
					// not a counterexample; the first observation is kept in the evidence as an outcome.
					res.Sig = ""
					r.Outcome("not-reproducible-observation(" + res.Mut.Class + ")")
				}
				c09Record(r, job.Cell, res)
				if verbose {
					fmt.Printf("case %v\n  outcome %+v\n  signature %q\n", res.Mut, res.Outcome, res.Sig)
				}
			case "C":
				r.Outcome("control: withheld valid chunk delivered afterwards: " + strings.Trim(strings.SplitN(string(payload), ":", 2)[0], "\""))
			case "E":
				engine = string(payload)
			case "D":
				done = true
			}
		}
		werr := cmd.Wait()
		if done && werr == nil {
			return ""
		}
		if engine != "" || inflight == nil {
			// the scaffolding failed between two cases (e.g. a handshake that does not
			// finish on a starved machine): carry on behind the last finished case in a
			// fresh process; give up after three attempts without progress
			why := engine
			if why == "" {
				why = fmt.Sprintf("sub-process died outside a case: %v; last output line: %s", werr, lastLine)
			}
			if lastDone >= job.From {
				job.From = lastDone + 1
				stalls = 0
			} else {
				stalls++
			}
			if stalls >= 3 || job.Single != nil {
				return fmt.Sprintf("job %+v: %s\n%s", job, why, stderr.String())
			}
			continue
		}
		// the receiver process died while handling the case in flight
		fn := topRepoFuncInTrace(stderr.String())
		res := c09Result{Idx: inflight.Idx, Mut: inflight.Mut, Outcome: c09Outcome{Panic: headOf(stderr.String(), 1800), PanicFn: fn, Terminal: true}}
		res.Sig = job.Cell.prefix() + "/" + inflight.Mut.Class + "/panic-kills-process/" + fn
		c09Record(r, job.Cell, res)
		if verbose {
			fmt.Printf("case %v\n  the receiver process died: %s\n  signature %q\n%s\n", res.Mut, res.Outcome.Panic, res.Sig, stderr.String())
		}
		job.From = inflight.Idx + 1
		if job.Single != nil {
			return ""
		}
		restarts++
		if restarts > 5000 {
			return "too many restarts"
		}
	}
}

// c09Reproduces re-runs one mutation three times, each in a fresh sub-process with a fresh channel pair, and
// reports whether it failed again at least once.
func c09Reproduces(cell c09Cell, m c09Mut) bool {
	for i := 0; i < 3; i++ {
		tmp := evid.New("C09")
		mm := m
		st := c09Supervise(tmp, c09Job{Cell: cell, Parts: 1, Single: &mm}, false)
		if tmp.ViolationCount() > 0 || st != "" {
			return true
		}
	}
	return false
}

func c09Record(r *evid.Run, cell c09Cell, res c09Result) {
	mb, _ := json.Marshal(res.Mut)
	r.Eval(fmt.Sprintf("%s/rsa%d/%s", cell.prefix(), cell.Bits, mb))
	if res.Sig != "" {
		r.Violate(res.Sig, fmt.Sprintf("%s; outcome %+v", res.Mut, res.Outcome), c09Replay{Cell: cell, Mut: res.Mut})
		r.Outcome("violation")
		return
	}
	state := "receiver stays usable"
	if res.Outcome.Terminal {
		state = "stream ended"
	}
	r.Outcome(fmt.Sprintf("%s %s: rejected, %s", cell.Kind, strings.SplitN(res.Mut.Class, "/", 2)[0], state))
	if res.Idx%977 == 0 {
		r.Sample(map[string]any{"cell": cell, "mutation": res.Mut.String(), "outcome": res.Outcome})
	}
}

type tailBuf struct {
	mu sync.Mutex
	b  []byte
}

func (t *tailBuf) Write(p []byte) (int, error) {
	t.mu.Lock()
	t.b = append(t.b, p...)
	if len(t.b) > 1<<16 {
		t.b = append([]byte(nil), t.b[:1<<15]...) // keep the head: the panic message and the first goroutine
	}
	t.mu.Unlock()
	return len(p), nil
}

func (t *tailBuf) String() string { t.mu.Lock(); defer t.mu.Unlock(); return string(t.b) }

func firstLine(s string) string {
	for _, l := range strings.Split(s, "\n") {
		if strings.TrimSpace(l) != "" {
			return l
		}
	}
	return ""
}

func headOf(s string, n int) string {
	if len(s) > n {
		return s[:n] + "..."
	}
	return s
}
