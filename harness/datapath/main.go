// Harness "datapath": secure-channel data path properties
//
//	C38  a maximal chunk body always fits the negotiated chunk size      (c38.go)
//	C07  chunking round-trips every message under every policy and mode  (c07.go)
//	C09  tampered, truncated or forged secured chunks are rejected       (c09.go)
//
// All three run the real gopcua/uasc code; the oracles live in ref.go (Part 6
// arithmetic and symmetric crypto written from the specification) and in the
// wire tap of pair.go.
package main

import (
	"fmt"
	"os"
)

func main() {
	if len(os.Args) < 2 {
		fmt.Println("ENGINE-ERROR property=? usage: datapath <C07|C09|C38>")
		os.Exit(2)
	}
	switch os.Args[1] {
	case "C38":
		runC38()
	case "C07":
		runC07()
	case "C09":
		runC09()
	default:
		fmt.Printf("ENGINE-ERROR property=%s not handled by harness/datapath\n", os.Args[1])
		os.Exit(2)
	}
}
