package main

import (
	"runtime"
	"strings"
)

// topRepoFunc returns the innermost gopcua function on the current stack
// (call it from a deferred recover: the panicking frames are still there).
// Verification hooks (Verif*) are skipped. Never a line number.
func topRepoFunc() string {
	pc := make([]uintptr, 64)
	n := runtime.Callers(2, pc)
	fr := runtime.CallersFrames(pc[:n])
	for {
		f, more := fr.Next()
		if strings.Contains(f.Function, "github.com/gopcua/opcua/") && !strings.Contains(f.Function, "Verif") {
			return shortFunc(f.Function)
		}
		if !more {
			break
		}
	}
	return "?"
}

func shortFunc(fn string) string {
	fn = strings.TrimPrefix(fn, "github.com/gopcua/opcua/")
	return fn
}

// topRepoFuncInTrace extracts the innermost gopcua function from a textual
// goroutine trace (stderr of a dead worker).
func topRepoFuncInTrace(trace string) string {
	for _, line := range strings.Split(trace, "\n") {
		line = strings.TrimSpace(line)
		if strings.HasPrefix(line, "github.com/gopcua/opcua/") && !strings.Contains(line, "Verif") {
			if i := strings.LastIndex(line, "("); i > 0 {
				line = line[:i]
			}
			return shortFunc(line)
		}
	}
	return "?"
}
