// Real channel pairs over real loopback TCP, with a man-in-the-middle proxy.
//
//	client uasc.SecureChannel --TCP--> proxy --TCP--> uacp.Listener -> server uasc.SecureChannel
//
// Both channels are built by the real handshake (uacp Hello/Acknowledge,
// uasc.NewSecureChannel + Open on the client, uasc.NewServerSecureChannel + a
// Receive loop on the server, the way server/channel_broker.go drives it).
// The proxy parses the byte stream of each direction into UACP frames (tap),
// can swallow frames coming from the real sender and can inject arbitrary
// bytes towards either receiver.
package main

import (
	"context"
	"encoding/binary"
	"errors"
	"fmt"
	"io"
	"net"
	"sync"
	"time"

	"github.com/gopcua/opcua/ua"
	"github.com/gopcua/opcua/uacp"
	"github.com/gopcua/opcua/uasc"
	"verif/engine/keys"
)

const (
	dirC2S = 0 // client -> server
	dirS2C = 1 // server -> client
)

func dirName(d int) string {
	if d == dirC2S {
		return "client->server"
	}
	return "server->client"
}

// watchdog is a hang detector only: every awaited step normally takes micro- to
// milliseconds.
const watchdog = 60 * time.Second

type tapFrame struct {
	Type  string
	Chunk byte
	Size  int
	Raw   []byte
}

type proxy struct {
	ln     *net.TCPListener
	target string

	mu      sync.Mutex
	frames  [2][]tapFrame
	tapErr  [2]string
	keepRaw bool
	hook    [2]func(raw []byte) bool // false = swallow the frame

	dst   [2]*net.TCPConn // dst[dir]: the connection on which bytes of direction dir leave the proxy
	wmu   [2]sync.Mutex
	ready chan struct{}
	wg    sync.WaitGroup
}

func newProxy(target string) (*proxy, error) {
	l, err := net.ListenTCP("tcp", &net.TCPAddr{IP: net.IPv4(127, 0, 0, 1)})
	if err != nil {
		return nil, err
	}
	p := &proxy{ln: l, target: target, ready: make(chan struct{})}
	p.wg.Add(1)
	go p.serve()
	return p, nil
}

func (p *proxy) addr() string { return p.ln.Addr().String() }

func (p *proxy) serve() {
	defer p.wg.Done()
	c, err := p.ln.AcceptTCP()
	if err != nil {
		return
	}
	sc, err := net.Dial("tcp", p.target)
	if err != nil {
		c.Close()
		return
	}
	s := sc.(*net.TCPConn)
	c.SetNoDelay(true)
	s.SetNoDelay(true)
	p.mu.Lock()
	p.dst[dirC2S], p.dst[dirS2C] = s, c
	p.mu.Unlock()
	close(p.ready)
	p.wg.Add(2)
	go p.pump(dirC2S, c, s)
	go p.pump(dirS2C, s, c)
}

var knownFrameTypes = map[string]bool{"HEL": true, "ACK": true, "ERR": true, "RHE": true, "OPN": true, "MSG": true, "CLO": true}

const maxTapFrame = 64 << 20

func (p *proxy) pump(dir int, src, dst *net.TCPConn) {
	defer p.wg.Done()
	defer dst.Close()
	defer src.Close()
	hdr := make([]byte, 8)
	for {
		n, err := io.ReadFull(src, hdr)
		if err != nil {
			if n > 0 {
				p.setTapErr(dir, fmt.Sprintf("stream ends with %d stray bytes that are not a chunk header", n))
			}
			return
		}
		size := binary.LittleEndian.Uint32(hdr[4:])
		typ := string(hdr[:3])
		if !knownFrameTypes[typ] || size < 8 || size > maxTapFrame {
			p.setTapErr(dir, fmt.Sprintf("bytes %x at a chunk boundary are not a chunk header", hdr))
			p.write(dir, hdr)
			io.Copy(dst, src)
			return
		}
		buf := make([]byte, size)
		copy(buf, hdr)
		if n, err := io.ReadFull(src, buf[8:]); err != nil {
			p.setTapErr(dir, fmt.Sprintf("stream ends inside a %s chunk announced with %d bytes after %d bytes", typ, size, 8+n))
			return
		}
		p.mu.Lock()
		f := tapFrame{Type: typ, Chunk: hdr[3], Size: int(size)}
		if p.keepRaw {
			f.Raw = buf
		}
		p.frames[dir] = append(p.frames[dir], f)
		hook := p.hook[dir]
		p.mu.Unlock()
		if hook != nil && !hook(buf) {
			continue
		}
		if p.write(dir, buf) != nil {
			return
		}
	}
}

func (p *proxy) setTapErr(dir int, s string) {
	p.mu.Lock()
	if p.tapErr[dir] == "" {
		p.tapErr[dir] = s
	}
	p.mu.Unlock()
}

func (p *proxy) write(dir int, b []byte) error {
	p.wmu[dir].Lock()
	defer p.wmu[dir].Unlock()
	_, err := p.dst[dir].Write(b)
	return err
}

// inject writes raw bytes towards the receiver of direction dir.
func (p *proxy) inject(dir int, b []byte) error { return p.write(dir, b) }

// endStream closes the connection towards the receiver of direction dir.
func (p *proxy) endStream(dir int) {
	p.wmu[dir].Lock()
	p.dst[dir].Close()
	p.wmu[dir].Unlock()
}

func (p *proxy) setHook(dir int, h func(raw []byte) bool) {
	p.mu.Lock()
	p.hook[dir] = h
	p.mu.Unlock()
}

// take returns and clears what the tap saw in direction dir.
func (p *proxy) take(dir int) ([]tapFrame, string) {
	p.mu.Lock()
	defer p.mu.Unlock()
	f, e := p.frames[dir], p.tapErr[dir]
	p.frames[dir] = nil
	return f, e
}

func (p *proxy) close() {
	p.ln.Close()
	select {
	case <-p.ready:
		p.dst[0].Close()
		p.dst[1].Close()
	default:
	}
	p.wg.Wait()
}

// ---------------------------------------------------------------------------

type pairCfg struct {
	Policy    string `json:"policy"`
	Mode      int    `json:"mode"`
	Bits      int    `json:"bits"` // RSA key size of both sides (0 for policy None)
	SrvBits   int    `json:"server_bits,omitempty"` // RSA key size of the server side when it differs from the client's (0 = Bits)
	ChunkSize uint32 `json:"chunk_size"`
	ChannelID uint32 `json:"channel_id,omitempty"`
	TokenID   uint32 `json:"token_id,omitempty"`
	// ReqTimeout is the client's RequestTimeout (default: watchdog). C09 keeps
	// requests pending for a whole batch and sets it far beyond the batch time.
	ReqTimeout time.Duration `json:"-"`
}

func (c pairCfg) String() string {
	if c.SrvBits != 0 && c.SrvBits != c.Bits {
		return fmt.Sprintf("%s/%s/client-rsa%d/server-rsa%d/chunk=%d", c.Policy, modeName(c.Mode), c.Bits, c.SrvBits, c.ChunkSize)
	}
	return fmt.Sprintf("%s/%s/rsa%d/chunk=%d", c.Policy, modeName(c.Mode), c.Bits, c.ChunkSize)
}

type srvEvent struct {
	Msg     *uasc.MessageBody
	Panic   string // non-empty: the Receive call panicked
	PanicFn string
}

type pair struct {
	cfg pairCfg
	ln  *uacp.Listener
	px  *proxy

	cli, srv         *uasc.SecureChannel
	cliConn, srvConn *uacp.Conn
	cliErr, srvErr   chan error
	srvEv            chan srvEvent
	srvUp            chan error
	srvDone          chan struct{}

	ctx    context.Context
	cancel context.CancelFunc
	opened bool // Open was called on the client: its dispatcher goroutine exists
}

const (
	pairMaxMessage = 64 << 20
	pairMaxChunks  = 1 << 16
)

// newPair brings up listener, proxy, the server channel (with its Receive
// loop) and the client channel object; the client channel is not opened yet.
func newPair(cfg pairCfg) (p *pair, err error) {
	if cfg.ChannelID == 0 {
		cfg.ChannelID = 0x51c0a001
	}
	if cfg.TokenID == 0 {
		cfg.TokenID = 0x70c30001
	}
	sp := specByName(cfg.Policy)
	if sp == nil {
		return nil, fmt.Errorf("unknown policy %q", cfg.Policy)
	}
	p = &pair{cfg: cfg, cliErr: make(chan error, 4096), srvErr: make(chan error, 4096),
		srvEv: make(chan srvEvent, 4096), srvUp: make(chan error, 1), srvDone: make(chan struct{})}
	p.ctx, p.cancel = context.WithCancel(context.Background())
	defer func() {
		if err != nil {
			p.close()
		}
	}()
	ack := &uacp.Acknowledge{ReceiveBufSize: cfg.ChunkSize, SendBufSize: cfg.ChunkSize, MaxMessageSize: pairMaxMessage, MaxChunkCount: pairMaxChunks}
	if p.ln, err = uacp.Listen(p.ctx, "opc.tcp://127.0.0.1:0", ack); err != nil {
		return p, err
	}
	if p.px, err = newProxy(p.ln.Addr().String()); err != nil {
		return p, err
	}

	srvCfg := &uasc.Config{SecurityPolicyURI: ua.SecurityPolicyURINone, SecurityMode: ua.MessageSecurityModeNone, Lifetime: 3600000, RequestTimeout: watchdog}
	cliCfg := &uasc.Config{SecurityPolicyURI: sp.URI, SecurityMode: ua.MessageSecurityMode(cfg.Mode), Lifetime: 3600000, RequestTimeout: watchdog}
	if cfg.ReqTimeout > 0 {
		cliCfg.RequestTimeout = cfg.ReqTimeout
	}
	if cfg.Policy != "None" {
		sb := cfg.SrvBits
		if sb == 0 {
			sb = cfg.Bits
		}
		a, b := keys.MustLoad(cfg.Bits, "a"), keys.MustLoad(sb, "b")
		cliCfg.Certificate, cliCfg.LocalKey = a.CertDER, a.Key
		cliCfg.RemoteCertificate, cliCfg.Thumbprint = b.CertDER, b.Thumbprint()
		srvCfg.Certificate, srvCfg.LocalKey = b.CertDER, b.Key
	}

	go p.serverLoop(srvCfg)

	clientAck := *ack
	d := &uacp.Dialer{ClientACK: &clientAck}
	dctx, dcancel := context.WithTimeout(p.ctx, watchdog/4)
	defer dcancel()
	if p.cliConn, err = d.Dial(dctx, "opc.tcp://"+p.px.addr()); err != nil {
		return p, fmt.Errorf("client dial/hello: %v", err)
	}
	select {
	case err = <-p.srvUp:
		if err != nil {
			return p, fmt.Errorf("server accept: %v", err)
		}
	case <-time.After(watchdog):
		return p, errors.New("server accept: watchdog")
	}
	if p.cli, err = uasc.NewSecureChannel("opc.tcp://"+p.px.addr(), p.cliConn, cliCfg, p.cliErr); err != nil {
		return p, err
	}
	return p, nil
}

func (p *pair) serverLoop(cfg *uasc.Config) {
	defer close(p.srvDone)
	conn, err := p.ln.Accept(p.ctx)
	if err != nil {
		p.srvUp <- err
		return
	}
	p.srvConn = conn
	// sequence number start: channel_broker picks 1..1023 at random; fixed here
	srv, err := uasc.NewServerSecureChannel("", conn, cfg, p.srvErr, p.cfg.ChannelID, 77, p.cfg.TokenID)
	if err != nil {
		p.srvUp <- err
		return
	}
	p.srv = srv
	p.srvUp <- nil
	for i := 0; ; i++ {
		ev, stop := p.receiveOnce()
		p.srvEv <- ev
		if stop {
			return
		}
	}
}

func (p *pair) receiveOnce() (ev srvEvent, stop bool) {
	defer func() {
		if r := recover(); r != nil {
			ev = srvEvent{Panic: fmt.Sprint(r), PanicFn: topRepoFunc()}
			stop = true
		}
	}()
	msg := p.srv.Receive(p.ctx)
	stop = msg.Err == io.EOF || errors.Is(msg.Err, context.Canceled)
	return srvEvent{Msg: msg}, stop
}

// open runs the real client handshake.
func (p *pair) open() error {
	p.opened = true
	ctx, cancel := context.WithTimeout(p.ctx, watchdog)
	defer cancel()
	return p.cli.Open(ctx)
}

// errInfra marks failures of the scaffolding below the secure channel (TCP
// listen/connect, Hello/Acknowledge): they are retried and never judged.
type errInfra struct{ error }

// newPairRetry tolerates a transient failure of the loopback plumbing (seen
// once in ~10^4 pairs on an overloaded machine: a connect that never completes).
func newPairRetry(cfg pairCfg) (p *pair, err error) {
	for attempt := 0; attempt < 4; attempt++ {
		if p, err = newPair(cfg); err == nil {
			return p, nil
		}
	}
	return nil, errInfra{err}
}

func openPair(cfg pairCfg) (*pair, error) {
	p, err := newPairRetry(cfg)
	if err != nil {
		return nil, err
	}
	if err := p.open(); err != nil {
		p.close()
		return nil, fmt.Errorf("open: %v", err)
	}
	// the server reports the handled OpenSecureChannel request as an empty message
	select {
	case ev := <-p.srvEv:
		if ev.Panic != "" || ev.Msg == nil || ev.Msg.Err != nil {
			p.close()
			return nil, fmt.Errorf("server side of the handshake: %+v", ev)
		}
	case <-time.After(watchdog):
		p.close()
		return nil, errors.New("server side of the handshake: watchdog")
	}
	return p, nil
}

func (p *pair) close() {
	if p.cli != nil {
		// sends CloseSecureChannel when the channel is still connected
		done := make(chan struct{})
		go func() { p.cli.Close(); close(done) }()
		select {
		case <-done:
		case <-time.After(5 * time.Second):
		}
	}
	if p.cliConn != nil {
		p.cliConn.Close()
	}
	if p.srvConn != nil {
		p.srvConn.Close()
	}
	if p.ln != nil {
		p.ln.Close()
	}
	if p.px != nil {
		p.px.close()
	}
	// Quiesce before any context is cancelled: gopcua's dispatcher must have
	// stopped, otherwise a cancelled Open can clear openingInstance under the
	// feet of a dispatcher that is still working on an OpenSecureChannel
	// response (nil dereference in readChunk; seen once in 9*10^5 cases) and
	// the crash would be blamed on whatever case runs next.
	if p.cli != nil && p.opened {
		select {
		case <-p.cli.VerifDisconnected():
		case <-time.After(5 * time.Second):
		}
	}
	p.cancel()
	if p.ln != nil {
		select {
		case <-p.srvDone:
		case <-time.After(5 * time.Second):
		}
	}
}

// nextSrvEvent waits for the next result of the server's Receive loop.
func (p *pair) nextSrvEvent() (srvEvent, bool) {
	select {
	case ev := <-p.srvEv:
		return ev, true
	case <-time.After(watchdog):
		return srvEvent{}, false
	}
}

func drainErrs(ch chan error) (n int, last error) {
	for {
		select {
		case e := <-ch:
			n++
			last = e
		default:
			return
		}
	}
}
