// C07: chunking round-trips every message under every policy and mode.
//
// Grid: (policy, mode, RSA key size) cells x negotiated chunk sizes x body
// sizes around multiples of the channel's maximum chunk body x direction.
// Each pair of channels is built by the real handshake over loopback TCP; the
// oracle is (a) the message the peer's Receive hands to the application and
// (b) the chunk stream seen by the tap in the proxy.
package main

import (
	"bytes"
	"context"
	"fmt"
	"os"
	"strings"
	"time"

	"github.com/gopcua/opcua/ua"
	"github.com/gopcua/opcua/uasc"
	"verif/engine/evid"
)

type c07Case struct {
	Pair  pairCfg `json:"pair"`
	Dir   int     `json:"dir"`
	Class string  `json:"class"` // body size class: payload=0, payload=1, m-1, m, m+1, 2m-1, 2m, 2m+1, 3m
}

var c07Classes = []string{"payload=0", "payload=1", "m-1", "m", "m+1", "2m-1", "2m", "2m+1", "3m"}

var fixedTime = time.Date(2024, 1, 2, 3, 4, 5, 600, time.UTC)

func payloadPattern(n int, salt int) []byte {
	if n == 0 {
		return nil // a null ByteString: the codec documents nil and empty as the same value
	}
	b := make([]byte, n)
	for i := range b {
		b[i] = byte(i*37 + salt + i>>9)
	}
	return b
}

// buildRequest returns a WriteRequest carrying a ByteString of n bytes.
func buildRequest(n, salt int) *ua.WriteRequest {
	return &ua.WriteRequest{
		NodesToWrite: []*ua.WriteValue{{
			NodeID:      ua.NewNumericNodeID(2, 4711),
			AttributeID: ua.AttributeIDValue,
			Value: &ua.DataValue{
				EncodingMask: ua.DataValueValue,
				Value:        ua.MustVariant(payloadPattern(n, salt)),
			},
		}},
	}
}

func requestPayload(r ua.Request) ([]byte, bool) {
	w, ok := r.(*ua.WriteRequest)
	if !ok || len(w.NodesToWrite) != 1 || w.NodesToWrite[0] == nil || w.NodesToWrite[0].Value == nil || w.NodesToWrite[0].Value.Value == nil {
		return nil, false
	}
	b, ok := w.NodesToWrite[0].Value.Value.Value().([]byte)
	return b, ok
}

// buildResponse returns a ReadResponse carrying a ByteString of n bytes.
func buildResponse(n, salt int, handle uint32) *ua.ReadResponse {
	return &ua.ReadResponse{
		ResponseHeader: &ua.ResponseHeader{
			Timestamp:          fixedTime,
			RequestHandle:      handle,
			ServiceDiagnostics: &ua.DiagnosticInfo{},
			StringTable:        []string{},
			AdditionalHeader:   ua.NewExtensionObject(nil),
		},
		Results: []*ua.DataValue{{
			EncodingMask: ua.DataValueValue,
			Value:        ua.MustVariant(payloadPattern(n, salt)),
		}},
	}
}

func responsePayload(r ua.Response) ([]byte, bool) {
	w, ok := r.(*ua.ReadResponse)
	if !ok || len(w.Results) != 1 || w.Results[0] == nil || w.Results[0].Value == nil {
		return nil, false
	}
	b, ok := w.Results[0].Value.Value().([]byte)
	return b, ok
}

// bodyLen is the size of the encoded message body: 4-byte TypeId + service.
func bodyLen(svc any) (int, error) {
	b, err := ua.Encode(svc)
	return 4 + len(b), err
}

// request header as channelInstance.newRequestMessage fills it in; only used to
// predict the encoded size (all its fields have a fixed width).
func probeRequestHeader() *ua.RequestHeader {
	return &ua.RequestHeader{AuthenticationToken: ua.NewTwoByteNodeID(0), Timestamp: fixedTime, RequestHandle: 1, TimeoutHint: 1}
}

type c07Sizes struct {
	reqBase, respBase int // body size with an empty payload
}

func c07Bases() (c07Sizes, error) {
	rq := buildRequest(0, 0)
	rq.SetHeader(probeRequestHeader())
	a, err := bodyLen(rq)
	if err != nil {
		return c07Sizes{}, err
	}
	b, err := bodyLen(buildResponse(0, 0, 1))
	return c07Sizes{a, b}, err
}

func classBody(class string, m, base int) int {
	switch class {
	case "payload=0":
		return base
	case "payload=1":
		return base + 1
	case "m-1":
		return m - 1
	case "m":
		return m
	case "m+1":
		return m + 1
	case "2m-1":
		return 2*m - 1
	case "2m":
		return 2 * m
	case "2m+1":
		return 2*m + 1
	case "3m":
		return 3 * m
	}
	return -1
}

type c07Result struct {
	Sig, Detail string
	Body        int
	M           int
	Frames      []int // sizes of the chunks seen on the wire
	Flags       string
}

func sameEncoding(a, b any) (bool, string) {
	ea, err1 := ua.Encode(a)
	eb, err2 := ua.Encode(b)
	if err1 != nil || err2 != nil {
		return false, fmt.Sprintf("re-encoding failed: %v / %v", err1, err2)
	}
	if !bytes.Equal(ea, eb) {
		i := 0
		for i < len(ea) && i < len(eb) && ea[i] == eb[i] {
			i++
		}
		return false, fmt.Sprintf("messages differ: encodings have %d and %d bytes, first difference at offset %d", len(ea), len(eb), i)
	}
	return true, ""
}

// c07Message sends one message of the given class over an open pair and judges it.
func c07Message(p *pair, dir int, class string, bases c07Sizes) (res c07Result) {
	pfx := fmt.Sprintf("C07/%s/%s/%s/body=%s/", p.cfg.Policy, modeName(p.cfg.Mode), dirName(dir), class)
	fail := func(kind, fn, detail string) c07Result {
		res.Sig, res.Detail = pfx+kind+"/"+fn, detail
		return res
	}
	N := int(p.cfg.ChunkSize)
	p.px.take(dirC2S)
	p.px.take(dirS2C)
	ctx, cancel := context.WithTimeout(p.ctx, watchdog)
	defer cancel()
	salt := dir*101 + len(class)*7 + N

	if dir == dirC2S {
		m := int(p.cli.VerifMaxBodySize())
		res.M = m
		B := classBody(class, m, bases.reqBase)
		res.Body = B
		req := buildRequest(B-bases.reqBase, salt)
		if err := p.cli.SendRequest(ctx, req, nil, nil); err != nil {
			return fail("send-error", "SecureChannel.SendRequest", fmt.Sprintf("body %d (m=%d): %v", B, m, err))
		}
		if got, _ := bodyLen(req); got != B {
			evid.EngineError("C07", "request body size prediction wrong: want %d got %d", B, got)
		}
		ev, ok := p.nextSrvEvent()
		switch {
		case !ok:
			return fail("no-delivery-within-watchdog", "SecureChannel.Receive", fmt.Sprintf("body %d (m=%d): the server's Receive did not return within %s", B, m, watchdog))
		case ev.Panic != "":
			return fail("panic", ev.PanicFn, ev.Panic)
		case ev.Msg.Err != nil:
			return fail("receive-error", "SecureChannel.Receive", fmt.Sprintf("body %d (m=%d): %v", B, m, ev.Msg.Err))
		case ev.Msg.Request() == nil:
			return fail("not-a-request", "SecureChannel.Receive", fmt.Sprintf("body %d: Receive returned %+v", B, ev.Msg))
		}
		if same, why := sameEncoding(req, ev.Msg.Request()); !same {
			return fail("message-differs", "SecureChannel.Receive", fmt.Sprintf("body %d (m=%d): %s", B, m, why))
		}
		want, _ := requestPayload(req)
		if got, ok := requestPayload(ev.Msg.Request()); !ok || !bytes.Equal(got, want) {
			return fail("payload-differs", "SecureChannel.Receive", fmt.Sprintf("body %d (m=%d): payload of %d bytes arrived as %d bytes", B, m, len(want), len(got)))
		}
	} else {
		m := int(p.srv.VerifMaxBodySize())
		res.M = m
		B := classBody(class, m, bases.respBase)
		res.Body = B
		var got ua.Response
		done := make(chan error, 1)
		go func() {
			done <- p.cli.SendRequest(ctx, carrierRequest(), nil,
				func(r ua.Response) error { got = r; return nil })
		}()
		ev, ok := p.nextSrvEvent()
		if !ok || ev.Panic != "" || ev.Msg.Err != nil || ev.Msg.Request() == nil {
			cancel()
			<-done
			return fail("carrier-request-failed", "SecureChannel.Receive", fmt.Sprintf("the small request that carries the response did not arrive: ok=%v panic=%q msg=%s", ok, ev.Panic, fmtMsg(ev.Msg)))
		}
		resp := buildResponse(B-bases.respBase, salt, ev.Msg.Request().Header().RequestHandle)
		if n, _ := bodyLen(resp); n != B {
			evid.EngineError("C07", "response body size prediction wrong: want %d got %d", B, n)
		}
		p.px.take(dirS2C)
		if err := p.srv.SendResponseWithContext(ctx, ev.Msg.RequestID, resp); err != nil {
			cancel()
			<-done
			return fail("send-error", "SecureChannel.SendResponseWithContext", fmt.Sprintf("body %d (m=%d): %v", B, m, err))
		}
		select {
		case err := <-done:
			if err != nil {
				return fail("receive-error", "SecureChannel.SendRequest", fmt.Sprintf("body %d (m=%d): the client did not get the response: %v", B, m, err))
			}
		case <-time.After(watchdog + 5*time.Second):
			return fail("no-delivery-within-watchdog", "SecureChannel.dispatcher", fmt.Sprintf("body %d (m=%d)", B, m))
		}
		if same, why := sameEncoding(resp, got); !same {
			return fail("message-differs", "SecureChannel.Receive", fmt.Sprintf("body %d (m=%d): %s", B, m, why))
		}
		want, _ := responsePayload(resp)
		if g, ok := responsePayload(got); !ok || !bytes.Equal(g, want) {
			return fail("payload-differs", "SecureChannel.Receive", fmt.Sprintf("body %d (m=%d): payload of %d bytes arrived as %d bytes", B, m, len(want), len(g)))
		}
	}

	// wire oracle
	frames, tapErr := p.px.take(dir)
	sender := "SecureChannel.sendAsyncWithTimeout"
	if dir == dirS2C {
		sender = "SecureChannel.writeMessageChunks"
	}
	if tapErr != "" {
		return fail("MessageSize-inconsistent-with-stream", sender, tapErr)
	}
	if len(frames) == 0 {
		return fail("no-chunk-on-wire", sender, "")
	}
	for i, f := range frames {
		res.Frames = append(res.Frames, f.Size)
		res.Flags += string(f.Chunk)
		if f.Type != "MSG" {
			return fail("unexpected-message-type", sender, fmt.Sprintf("chunk %d/%d is %s%c", i+1, len(frames), f.Type, f.Chunk))
		}
		if f.Size > N {
			return fail("chunk-exceeds-size", sender, fmt.Sprintf("chunk %d/%d has %d bytes, negotiated chunk size %d (body %d, m=%d)", i+1, len(frames), f.Size, N, res.Body, res.M))
		}
		want := byte('C')
		if i == len(frames)-1 {
			want = 'F'
		}
		if f.Chunk != want {
			return fail("chunk-flag", sender, fmt.Sprintf("chunk %d/%d is flagged %c, want %c", i+1, len(frames), f.Chunk, want))
		}
	}
	return res
}

type c07Cell struct {
	Policy  string
	Mode    int
	Bits    int
	SrvBits int // 0 = same as Bits
}

func c07Cells() []c07Cell {
	cells := []c07Cell{{"None", modeNone, 0, 0}}
	for _, sp := range symSpecs {
		for _, bits := range []int{1024, 2048, 3072, 4096} {
			if bits < sp.MinRSA || bits > sp.MaxRSA {
				continue
			}
			for _, m := range []int{modeSign, modeSE} {
				cells = append(cells, c07Cell{sp.Name, m, bits, 0})
			}
		}
	}
	return cells
}

// c07MixedCells: client and server keys of different sizes (the OpenSecureChannel chunks are encrypted with the
// receiver's key and signed with the sender's: block sizes, signature sizes and the extra padding byte differ per direction).
func c07MixedCells() []c07Cell {
	var cells []c07Cell
	for _, sp := range symSpecs {
		var sizes []int
		for _, bits := range []int{1024, 2048, 3072, 4096} {
			if bits >= sp.MinRSA && bits <= sp.MaxRSA {
				sizes = append(sizes, bits)
			}
		}
		for _, cb := range sizes {
			for _, sb := range sizes {
				if cb == sb {
					continue
				}
				for _, m := range []int{modeSign, modeSE} {
					cells = append(cells, c07Cell{sp.Name, m, cb, sb})
				}
			}
		}
	}
	return cells
}

func c07ChunkSizes(thorough bool) ([]uint32, string) {
	var s []uint32
	hi := uint32(8207)
	text := "8192..8207 (every residue mod 16), 65535, 65536"
	if thorough {
		hi = 8447
		text = "8192..8447, 65535, 65536, 2^20"
	}
	for n := uint32(8192); n <= hi; n++ {
		s = append(s, n)
	}
	s = append(s, 65535, 65536)
	if thorough {
		s = append(s, 1<<20)
	}
	return s, text
}

func runC07() {
	r := evid.New("C07")
	bases, err := c07Bases()
	if err != nil {
		evid.EngineError("C07", "size probe: %v", err)
	}
	var rc c07Case
	if evid.ReplayInput(&rc) {
		p, err := openPair(rc.Pair)
		if err != nil {
			fmt.Printf("replay %+v: pair does not open: %v\n", rc, err)
			os.Exit(1)
		}
		res := c07Message(p, rc.Dir, rc.Class, bases)
		p.close()
		fmt.Printf("replay %+v\n  -> %+v\n", rc, res)
		if res.Sig != "" {
			os.Exit(1)
		}
		return
	}
	cells := c07Cells()
	sizes, text := c07ChunkSizes(evid.Thorough())
	r.Rule(fmt.Sprintf("grid: %d cells (policy None/mode None; Basic128Rsa15, Basic256 x RSA 1024, 2048 and Basic256Sha256, Aes128_Sha256_RsaOaep, Aes256_Sha256_RsaPss x RSA 2048, 3072, 4096, each x Sign, SignAndEncrypt) x negotiated chunk sizes {%s} x body size classes %v (m = the sender's maxBodySize; payload=k: the smallest message plus k payload bytes) x direction (client->server WriteRequest, server->client ReadResponse); every pair built by the real Hello/Acknowledge + OpenSecureChannel handshake over loopback TCP. A case = (cell, chunk size, class, direction); every case is non-trivial (a real message crosses a real channel); distinct by that tuple", len(cells), text, c07Classes))
	r.Assume(fmt.Sprintf("client key pair a, server key pair b; besides the equal-size cells, %d cells with every ordered pair of unequal key sizes the policy allows, at chunk sizes 8192 and 65536; MaxMessageSize", len(c07MixedCells()))+" 64 MiB and MaxChunkCount 65536 so that no message of the grid hits a message limit",
		"message equality = identical ua.Encode re-encoding plus byte-equal ByteString payload")

	type job struct {
		cell c07Cell
		n    uint32
	}
	var jobs []job
	for _, n := range sizes {
		for _, c := range cells {
			jobs = append(jobs, job{c, n})
		}
	}
	// unequal key sizes: at the smallest chunk size and at 65536 (the key sizes matter to the asymmetric
	// chunks of the handshake and to nothing that depends on the chunk size)
	mixed := c07MixedCells()
	for _, n := range []uint32{8192, 65536} {
		for _, c := range mixed {
			jobs = append(jobs, job{c, n})
		}
	}
	deaths := evid.Sharded(r, 0, func(s evid.ShardInfo, w *evid.Run) {
		// Every case that ends in the hang watchdog costs a minute. On a tree that breaks the property that can be
		// thousands of cases; once a worker has seen a few such cases the verdict is clear and the rest of its
		// share is skipped (reported as a cap, not silently).
		slow := 0
		for i, j := range jobs {
			if !s.Mine(int64(i)) {
				continue
			}
			if slow >= 6 {
				w.Capped("a worker stopped after 6 failing cases (3 if they ended in the 60 s hang watchdog); the violations found so far are reported")
				break
			}
			cfg := pairCfg{Policy: j.cell.Policy, Mode: j.cell.Mode, Bits: j.cell.Bits, SrvBits: j.cell.SrvBits, ChunkSize: j.n}
			evid.Publish("pair " + cfg.String())
			p, err := openPair(cfg)
			if _, infra := err.(errInfra); infra {
				evid.EngineError("C07", "loopback plumbing failed 4 times in a row for %s: %v", cfg, err)
			}
			if err != nil {
				w.Violate(fmt.Sprintf("C07/%s/%s/handshake-failed", cfg.Policy, modeName(cfg.Mode)), fmt.Sprintf("%s: %v", cfg, err), c07Case{Pair: cfg})
				continue
			}
			for dir := 0; dir < 2; dir++ {
				for _, class := range c07Classes {
					c := c07Case{Pair: cfg, Dir: dir, Class: class}
					evid.Publish(fmt.Sprintf("%+v", c))
					res := c07Message(p, dir, class, bases)
					w.Eval(fmt.Sprintf("%s/%d/%s", cfg, dir, class))
					if res.Sig != "" {
						// a failing case costs seconds to minutes (hang watchdog, tearing the pair down, a new handshake)
						if strings.Contains(res.Sig, "watchdog") {
							slow += 2
						} else {
							slow++
						}
						w.Violate(res.Sig, fmt.Sprintf("%s; case %+v; wire chunks %v flags %q", res.Detail, c, res.Frames, res.Flags), c)
						w.Outcome("violation")
						// the pair may be out of step now: take a fresh one
						p.close()
						if p, err = openPair(cfg); err != nil || slow >= 6 {
							break
						}
						continue
					}
					last := res.Frames[len(res.Frames)-1]
					w.Outcome(fmt.Sprintf("%d chunk(s), flags %s, final chunk %s", len(res.Frames), res.Flags, emptyFinal(cfg, last)))
					if i%97 == 0 && (class == "2m" || class == "m+1") {
						w.Sample(map[string]any{"case": c, "m": res.M, "body": res.Body, "wire_chunk_sizes": res.Frames, "flags": res.Flags})
					}
				}
				if p == nil || err != nil {
					break
				}
			}
			if p != nil && err == nil {
				p.close()
			}
		}
	})
	for _, d := range deaths {
		r.Violate("C07/worker-death/"+topRepoFuncInTrace(d.Stderr), fmt.Sprintf("worker %d died (%s) while running %s\n%s", d.Shard, d.ExitErr, d.LastCase, d.Stderr), d.LastCase)
	}
	r.Set("pairs", len(jobs))
	r.Set("request_base_body", bases.reqBase)
	r.Set("response_base_body", bases.respBase)
	r.Finish()
}

// emptyFinal classifies the last chunk: does it carry body bytes at all?
func emptyFinal(cfg pairCfg, size int) string {
	sp := specByName(cfg.Policy)
	if size == refChunkLen(sp, cfg.Mode, 0) {
		return "of minimal size"
	}
	return "larger than minimal"
}

func fmtMsg(m *uasc.MessageBody) string {
	if m == nil {
		return "<nil>"
	}
	return fmt.Sprintf("{RequestID:%d SecureChannelID:%d Err:%v Request:%T Response:%T}", m.RequestID, m.SecureChannelID, m.Err, m.Request(), m.Response())
}

// carrierRequest is the small request whose response is the message under test.
func carrierRequest() *ua.ReadRequest {
	return &ua.ReadRequest{NodesToRead: []*ua.ReadValueID{{NodeID: ua.NewNumericNodeID(0, 2258), AttributeID: ua.AttributeIDValue, DataEncoding: &ua.QualifiedName{}}}}
}
