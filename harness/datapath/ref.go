// Independent reference for the symmetric part of OPC UA Secure Conversation
// (OPC 10000-6 §6.7.2 chunk layout, §6.7.5 key derivation), written from the
// specification with Go's crypto primitives only. It does not import any
// gopcua crypto code: it is the oracle side of C38 and the forger of C09.
package main

import (
	"crypto/aes"
	"crypto/cipher"
	"crypto/hmac"
	"crypto/sha1"
	"crypto/sha256"
	"encoding/binary"
	"fmt"
	"hash"
)

// symSpec is the symmetric algorithm suite of a security policy (Part 7 profiles).
type symSpec struct {
	Name      string
	URI       string
	Hash      func() hash.Hash // HMAC hash and P_HASH hash
	SigLen    int              // symmetric signature size
	SigKeyLen int              // DerivedSignatureKeyLength
	EncKeyLen int              // AES key size in bytes
	Block     int              // cipher block = plaintext block for AES-CBC
	NonceLen  int              // SecureChannelNonceLength
	MinRSA    int              // asymmetric key length limits in bits
	MaxRSA    int
}

const uriPrefix = "http://opcfoundation.org/UA/SecurityPolicy#"

var symSpecs = []symSpec{
	{"Basic128Rsa15", uriPrefix + "Basic128Rsa15", sha1.New, 20, 16, 16, 16, 16, 1024, 2048},
	{"Basic256", uriPrefix + "Basic256", sha1.New, 20, 24, 32, 16, 32, 1024, 2048},
	{"Basic256Sha256", uriPrefix + "Basic256Sha256", sha256.New, 32, 32, 32, 16, 32, 2048, 4096},
	{"Aes128_Sha256_RsaOaep", uriPrefix + "Aes128_Sha256_RsaOaep", sha256.New, 32, 32, 16, 16, 32, 2048, 4096},
	{"Aes256_Sha256_RsaPss", uriPrefix + "Aes256_Sha256_RsaPss", sha256.New, 32, 32, 32, 16, 32, 2048, 4096},
}

var noneSpec = symSpec{Name: "None", URI: uriPrefix + "None", Block: 1}

func specByName(n string) *symSpec {
	if n == "None" {
		return &noneSpec
	}
	for i := range symSpecs {
		if symSpecs[i].Name == n {
			return &symSpecs[i]
		}
	}
	return nil
}

// Security modes (Part 4 §7.15): 1 None, 2 Sign, 3 SignAndEncrypt.
const (
	modeNone = 1
	modeSign = 2
	modeSE   = 3
)

func modeName(m int) string {
	switch m {
	case modeNone:
		return "None"
	case modeSign:
		return "Sign"
	case modeSE:
		return "SignAndEncrypt"
	}
	return fmt.Sprint(m)
}

// pHash is P_HASH of RFC 5246 §5 (P_SHA1 / P_SHA256 of Part 6 §6.7.5).
func pHash(h func() hash.Hash, secret, seed []byte, n int) []byte {
	mac := func(parts ...[]byte) []byte {
		m := hmac.New(h, secret)
		for _, p := range parts {
			m.Write(p)
		}
		return m.Sum(nil)
	}
	var out []byte
	a := mac(seed)
	for len(out) < n {
		out = append(out, mac(a, seed)...)
		a = mac(a)
	}
	return out[:n]
}

type symKeys struct {
	Sign, Enc, IV []byte
}

// senderKeys derives the keys a party uses to protect what it SENDS: secret =
// the peer's nonce, seed = its own nonce (Part 6 table "Cryptography key
// generation parameters": ClientSigningKey = PRF(ServerNonce, ClientNonce)).
func senderKeys(sp *symSpec, ownNonce, peerNonce []byte) symKeys {
	p := pHash(sp.Hash, peerNonce, ownNonce, sp.SigKeyLen+sp.EncKeyLen+sp.Block)
	return symKeys{Sign: p[:sp.SigKeyLen], Enc: p[sp.SigKeyLen : sp.SigKeyLen+sp.EncKeyLen], IV: p[sp.SigKeyLen+sp.EncKeyLen:]}
}

const (
	msgHeaderLen = 12 // MessageType(3) ChunkType(1) MessageSize(4) SecureChannelId(4)
	symSecHdrLen = 4  // TokenId
	seqHdrLen    = 8  // SequenceNumber, RequestId
	symHdrLen    = msgHeaderLen + symSecHdrLen
)

// refChunkLen is the wire length of a symmetric chunk carrying n body bytes
// (§6.7.2): headers, then sequence header + body [+ padding + PaddingSize]
// + signature, the part behind the security header encrypted to a whole
// number of cipher blocks in SignAndEncrypt. Padding is the minimum.
func refChunkLen(sp *symSpec, mode, n int) int {
	switch mode {
	case modeNone:
		return symHdrLen + seqHdrLen + n
	case modeSign:
		return symHdrLen + seqHdrLen + n + sp.SigLen
	}
	plain := seqHdrLen + n + 1 + sp.SigLen // 1 = PaddingSize byte
	blocks := (plain + sp.Block - 1) / sp.Block
	return symHdrLen + blocks*sp.Block
}

// refTrueMaxBody is the largest n whose chunk fits into chunkSize; found by
// definition (search), not by the closed formula the implementation uses.
func refTrueMaxBody(sp *symSpec, mode, chunkSize int) int {
	// upper bound: everything but headers; walk down at most two blocks + signature
	n := chunkSize - symHdrLen - seqHdrLen
	for n >= 0 && refChunkLen(sp, mode, n) > chunkSize {
		n--
	}
	return n
}

// refOpen undoes the protection of a symmetric chunk made by the party whose
// sending keys are k, and checks everything Part 6 says about its layout.
// It returns the body (behind the sequence header) and the padding size.
func refOpen(sp *symSpec, mode int, k symKeys, wire []byte) (seq, reqID uint32, body []byte, pad int, err error) {
	if len(wire) < symHdrLen {
		return 0, 0, nil, 0, fmt.Errorf("chunk shorter than its headers: %d", len(wire))
	}
	if ms := binary.LittleEndian.Uint32(wire[4:]); int(ms) != len(wire) {
		return 0, 0, nil, 0, fmt.Errorf("MessageSize %d != chunk length %d", ms, len(wire))
	}
	plain := append([]byte(nil), wire...)
	if mode == modeSE {
		ct := wire[symHdrLen:]
		if len(ct) == 0 || len(ct)%sp.Block != 0 {
			return 0, 0, nil, 0, fmt.Errorf("encrypted region of %d bytes is not a whole number of %d-byte cipher blocks", len(ct), sp.Block)
		}
		blk, e := aes.NewCipher(k.Enc)
		if e != nil {
			return 0, 0, nil, 0, e
		}
		cipher.NewCBCDecrypter(blk, k.IV).CryptBlocks(plain[symHdrLen:], ct)
	}
	end := len(plain)
	if mode != modeNone {
		if end-sp.SigLen < symHdrLen+seqHdrLen {
			return 0, 0, nil, 0, fmt.Errorf("no room for a signature")
		}
		m := hmac.New(sp.Hash, k.Sign)
		m.Write(plain[:end-sp.SigLen])
		if !hmac.Equal(m.Sum(nil), plain[end-sp.SigLen:]) {
			return 0, 0, nil, 0, fmt.Errorf("signature over header+sequence header+body+padding does not verify")
		}
		end -= sp.SigLen
	}
	if mode == modeSE {
		pad = int(plain[end-1])
		if end-1-pad < symHdrLen+seqHdrLen {
			return 0, 0, nil, 0, fmt.Errorf("PaddingSize %d larger than the chunk", pad)
		}
		for i := end - 1 - pad; i < end; i++ {
			if int(plain[i]) != pad {
				return 0, 0, nil, 0, fmt.Errorf("padding byte at -%d is %d, want PaddingSize %d", end-i, plain[i], pad)
			}
		}
		end -= pad + 1
	}
	if end < symHdrLen+seqHdrLen {
		return 0, 0, nil, 0, fmt.Errorf("no room for the sequence header")
	}
	seq = binary.LittleEndian.Uint32(plain[symHdrLen:])
	reqID = binary.LittleEndian.Uint32(plain[symHdrLen+4:])
	return seq, reqID, plain[symHdrLen+seqHdrLen : end], pad, nil
}

// refSeal builds a protected symmetric chunk from scratch (used to forge
// chunks with keys of the harness' choosing).
func refSeal(sp *symSpec, mode int, k symKeys, msgType string, chunkType byte, channelID, tokenID, seq, reqID uint32, body []byte) []byte {
	b := make([]byte, 0, symHdrLen+seqHdrLen+len(body)+64)
	b = append(b, msgType[:3]...)
	b = append(b, chunkType)
	b = binary.LittleEndian.AppendUint32(b, 0)
	b = binary.LittleEndian.AppendUint32(b, channelID)
	b = binary.LittleEndian.AppendUint32(b, tokenID)
	b = binary.LittleEndian.AppendUint32(b, seq)
	b = binary.LittleEndian.AppendUint32(b, reqID)
	b = append(b, body...)
	if mode == modeSE {
		plain := seqHdrLen + len(body) + 1 + sp.SigLen
		pad := (sp.Block - plain%sp.Block) % sp.Block
		for i := 0; i <= pad; i++ {
			b = append(b, byte(pad))
		}
	}
	total := len(b)
	if mode != modeNone {
		total += sp.SigLen
	}
	binary.LittleEndian.PutUint32(b[4:], uint32(total))
	if mode != modeNone {
		m := hmac.New(sp.Hash, k.Sign)
		m.Write(b)
		b = m.Sum(b)
	}
	if mode == modeSE {
		blk, err := aes.NewCipher(k.Enc)
		if err != nil {
			panic(err)
		}
		cipher.NewCBCEncrypter(blk, k.IV).CryptBlocks(b[symHdrLen:], b[symHdrLen:])
	}
	return b
}
