package main

import (
	"fmt"
	"math"
	"reflect"
	"time"

	"github.com/gopcua/opcua/ua"
)

// eqMode selects the normalisations.
//   - normC01: the documented normalisations of C01 (nil≈empty slices/strings, 100 ns time
//     resolution, NaN≈NaN).
//   - normC03: decode vs decode of the re-encoding: both values went through the same decoder, so
//     only NaN≈NaN and nil≈empty are applied (time is already on the 100 ns grid).
type eqMode int

const (
	normC01 eqMode = iota
	normC03
)

// diff returns "" if a and b are equal under the mode, else a short description starting with the
// path of the first difference (indices stripped by the caller for signatures).
func diff(a, b reflect.Value, path string, mode eqMode, depth int) string {
	if depth > 200000 {
		return ""
	}
	if !a.IsValid() || !b.IsValid() {
		if a.IsValid() != b.IsValid() {
			return path + ": one side has no value"
		}
		return ""
	}
	if a.Type() != b.Type() {
		return fmt.Sprintf("%s: type %s vs %s", path, a.Type(), b.Type())
	}
	switch a.Type() {
	case timeT:
		ta, tb := a.Interface().(time.Time), b.Interface().(time.Time)
		if ta.IsZero() || tb.IsZero() {
			if ta.IsZero() != tb.IsZero() {
				return fmt.Sprintf("%s: time %v vs %v", path, ta, tb)
			}
			return ""
		}
		d := ta.Sub(tb)
		if mode == normC01 {
			if d <= -100 || d >= 100 {
				return fmt.Sprintf("%s: time %v vs %v", path, ta.UTC(), tb.UTC())
			}
		} else if d != 0 {
			return fmt.Sprintf("%s: time %v vs %v", path, ta.UTC(), tb.UTC())
		}
		return ""
	case variantT:
		va, vb := a.Interface().(*ua.Variant), b.Interface().(*ua.Variant)
		if va == nil || vb == nil {
			if (va == nil) != (vb == nil) {
				return path + ": nil variant pointer on one side"
			}
			return ""
		}
		if va.EncodingMask() != vb.EncodingMask() {
			return fmt.Sprintf("%s.mask: %#02x vs %#02x", path, va.EncodingMask(), vb.EncodingMask())
		}
		if va.ArrayLength() != vb.ArrayLength() {
			return fmt.Sprintf("%s.arrayLength: %d vs %d", path, va.ArrayLength(), vb.ArrayLength())
		}
		if d := diff(reflect.ValueOf(va.ArrayDimensions()), reflect.ValueOf(vb.ArrayDimensions()), path+".arrayDimensions", mode, depth+1); d != "" {
			return d
		}
		return diff(reflect.ValueOf(va.Value()), reflect.ValueOf(vb.Value()), path+".value", mode, depth+1)
	case nodeIDT:
		na, nb := a.Interface().(*ua.NodeID), b.Interface().(*ua.NodeID)
		if na == nil || nb == nil {
			if (na == nil) != (nb == nil) {
				return path + ": nil node id pointer on one side"
			}
			return ""
		}
		if na.EncodingMask() != nb.EncodingMask() {
			return fmt.Sprintf("%s.mask: %#02x vs %#02x", path, na.EncodingMask(), nb.EncodingMask())
		}
		if na.Namespace() != nb.Namespace() {
			return fmt.Sprintf("%s.ns: %d vs %d", path, na.Namespace(), nb.Namespace())
		}
		if na.IntID() != nb.IntID() {
			return fmt.Sprintf("%s.nid: %d vs %d", path, na.IntID(), nb.IntID())
		}
		if sa, sb := safeStringID(na), safeStringID(nb); sa != sb {
			return fmt.Sprintf("%s.id: %q vs %q", path, sa, sb)
		}
		return ""
	}
	switch a.Kind() {
	case reflect.Bool:
		if a.Bool() != b.Bool() {
			return fmt.Sprintf("%s: %v vs %v", path, a.Bool(), b.Bool())
		}
	case reflect.Int, reflect.Int8, reflect.Int16, reflect.Int32, reflect.Int64:
		if a.Int() != b.Int() {
			return fmt.Sprintf("%s: %d vs %d", path, a.Int(), b.Int())
		}
	case reflect.Uint, reflect.Uint8, reflect.Uint16, reflect.Uint32, reflect.Uint64:
		if a.Uint() != b.Uint() {
			return fmt.Sprintf("%s: %d vs %d", path, a.Uint(), b.Uint())
		}
	case reflect.Float32:
		fa, fb := float32(a.Float()), float32(b.Float())
		if fa != fa && fb != fb {
			return ""
		}
		if math.Float32bits(fa) != math.Float32bits(fb) {
			return fmt.Sprintf("%s: %v vs %v", path, fa, fb)
		}
	case reflect.Float64:
		fa, fb := a.Float(), b.Float()
		if fa != fa && fb != fb {
			return ""
		}
		if math.Float64bits(fa) != math.Float64bits(fb) {
			return fmt.Sprintf("%s: %v vs %v", path, fa, fb)
		}
	case reflect.String:
		if a.String() != b.String() {
			return fmt.Sprintf("%s: %q vs %q", path, clip(a.String()), clip(b.String()))
		}
	case reflect.Slice, reflect.Array:
		if a.Len() != b.Len() { // nil ≈ empty: only the length counts
			return fmt.Sprintf("%s: len %d vs %d", path, a.Len(), b.Len())
		}
		if a.Type().Elem().Kind() == reflect.Uint8 {
			for i := 0; i < a.Len(); i++ {
				if a.Index(i).Uint() != b.Index(i).Uint() {
					return fmt.Sprintf("%s[%d]: %d vs %d", path, i, a.Index(i).Uint(), b.Index(i).Uint())
				}
			}
			return ""
		}
		for i := 0; i < a.Len(); i++ {
			if d := diff(a.Index(i), b.Index(i), fmt.Sprintf("%s[%d]", path, i), mode, depth+1); d != "" {
				return d
			}
		}
	case reflect.Ptr, reflect.Interface:
		if a.IsNil() || b.IsNil() {
			if a.IsNil() != b.IsNil() {
				return fmt.Sprintf("%s: nil vs non-nil (%v/%v)", path, a.IsNil(), b.IsNil())
			}
			return ""
		}
		return diff(a.Elem(), b.Elem(), path, mode, depth+1)
	case reflect.Struct:
		t := a.Type()
		for i := 0; i < t.NumField(); i++ {
			if t.Field(i).PkgPath != "" {
				continue
			}
			if d := diff(a.Field(i), b.Field(i), path+"."+t.Field(i).Name, mode, depth+1); d != "" {
				return d
			}
		}
	default:
		return fmt.Sprintf("%s: unsupported kind %s", path, a.Kind())
	}
	return ""
}

func safeStringID(n *ua.NodeID) (s string) {
	defer func() {
		if r := recover(); r != nil {
			s = fmt.Sprintf("<panic %v>", r)
		}
	}()
	return n.StringID()
}

func clip(s string) string {
	if len(s) > 40 {
		return s[:40] + "…"
	}
	return s
}

// stripIdx removes [n] indices and everything after ": " from a diff, leaving the field path.
func diffField(d string) string {
	out := make([]byte, 0, len(d))
	skip := false
	for i := 0; i < len(d); i++ {
		c := d[i]
		if c == ':' {
			break
		}
		if c == '[' {
			skip = true
			out = append(out, '[', ']')
			continue
		}
		if c == ']' {
			skip = false
			continue
		}
		if !skip {
			out = append(out, c)
		}
	}
	return string(out)
}
