// Codec checks C01 (round-trip), C02 (decode safety) and C03 (decode -> encode -> decode
// stability) for package ua. One binary, dispatch on os.Args[1].
//
// The type universe is discovered from the code through the public API; values are enumerated
// by reflection (k-deviation), byte strings by mutation neighbourhoods and exhaustively up to a
// length L. See DESIGN.md §2.1 and §3 (C01-C03).
package main

import (
	"fmt"
	"os"

	"verif/engine/evid"
)

func exit(c int) { os.Exit(c) }

func main() {
	if len(os.Args) < 2 {
		fmt.Println("usage: codec C01|C02|C03")
		os.Exit(2)
	}
	switch os.Args[1] {
	case "C01":
		alphabetMaxArrays = true
		runC01(evid.New("C01"))
	case "C02", "C03":
		runC02(os.Args[1])
	case "count":
		countMode()
	case "sites": // debugging: codec sites <target> <seed index>
		debugSites(os.Args[2], os.Args[3])
	case "case": // debugging: codec case <target> <hex>
		prop := "C02"
		if len(os.Args) > 4 {
			prop = os.Args[4]
		}
		replayC02(prop, caseReplay{Target: os.Args[2], Kind: "builtin", Hex: os.Args[3], Desc: "manual"})
	default:
		evid.EngineError(os.Args[1], "harness/codec does not implement this property")
	}
}

func countMode() {
	ts := discover(nil)
	var npos, s1, s2 int64
	for _, t := range ts {
		tp := buildTemplate(t.Typ)
		_, k1, k2 := tp.counts()
		npos += int64(len(tp.Pos))
		s1 += k1 + 1
		s2 += k2
		if len(os.Args) > 2 {
			fmt.Printf("%-8s %-50s pos=%4d k1=%6d k2=%10d\n", t.Kind, t.Name, len(tp.Pos), k1, k2)
		}
	}
	fmt.Printf("types=%d positions=%d values(k<=1)=%d values(k=2)=%d\n", len(ts), npos, s1, s2)
}
