package main

import (
	"encoding/binary"
	"reflect"
	"strconv"

	"github.com/gopcua/opcua/ua"
)

// Mutation neighbourhood of a seed byte string (DESIGN.md §2.1):
//   every truncation s[:i];
//   every single-position substitution from byteAlphabet;
//   every 4-byte window replaced by each int32 edge value (and the window's own value ±1).
// Enumeration order is fixed; a mutation is identified by its index.

var byteAlphabet = []byte{0x00, 0x01, 0x02, 0x7f, 0x80, 0xff, 0xfe, 0x3f, 0x40, 0xc0, 0x18, 0x19}

var int32Edges = []uint32{0xffffffff, 0xfffffffe, 0, 1, 0xffff, 0x10000, 0x7fffffff, 0x80000000}

type mutation struct {
	Kind byte // 't' truncation, 's' substitution, 'w' window
	Off  int
	New  [4]byte
	W    int // bytes replaced (0 for truncation)
}

func (m mutation) String() string {
	switch m.Kind {
	case 't':
		return "trunc@" + strconv.Itoa(m.Off)
	case 's':
		return "subst@" + strconv.Itoa(m.Off) + "=" + strconv.FormatUint(uint64(m.New[0]), 16)
	}
	return "window@" + strconv.Itoa(m.Off) + "=" + strconv.FormatUint(uint64(binary.LittleEndian.Uint32(m.New[:])), 16)
}

// apply writes the mutated input into dst (reused) and returns it.
func (m mutation) apply(seed, dst []byte) []byte {
	if m.Kind == 't' {
		return append(dst[:0], seed[:m.Off]...)
	}
	dst = append(dst[:0], seed...)
	copy(dst[m.Off:m.Off+m.W], m.New[:m.W])
	return dst
}

// singles enumerates the single mutations of seed that change it.
func singles(seed []byte, fn func(m mutation)) {
	n := len(seed)
	for i := 0; i < n; i++ {
		fn(mutation{Kind: 't', Off: i})
	}
	for p := 0; p < n; p++ {
		for _, a := range byteAlphabet {
			if a != seed[p] {
				fn(mutation{Kind: 's', Off: p, New: [4]byte{a}, W: 1})
			}
		}
	}
	for p := 0; p+4 <= n; p++ {
		old := binary.LittleEndian.Uint32(seed[p:])
		var seen [10]uint32
		k := 0
		try := func(v uint32) {
			if v == old {
				return
			}
			for _, s := range seen[:k] {
				if s == v {
					return
				}
			}
			seen[k] = v
			k++
			var m mutation
			m.Kind, m.Off, m.W = 'w', p, 4
			binary.LittleEndian.PutUint32(m.New[:], v)
			fn(m)
		}
		for _, v := range int32Edges {
			try(v)
		}
		try(old + 1)
		try(old - 1)
	}
}

func countSingles(seed []byte) int {
	c := 0
	singles(seed, func(mutation) { c++ })
	return c
}

// ---- length sites ---------------------------------------------------------------------------
//
// A site is a 4-byte length prefix in a seed at which the decoder pre-allocates: the length of a
// slice decoded by the reflection codec, and the array/dimension lengths of a Variant. Sites are
// located with the real encoder (a struct encoding is the concatenation of its field encodings).
// They are used only to recognise repeated instances of an already observed allocation failure
// (same type, same field, same replacement bytes), never to judge a case.

type site struct {
	Off   int
	Label string // field path, for reports
	Class string // element class of the pre-allocated storage: the memo is per class, not per field
}

func elemClass(t reflect.Type) string {
	switch t.Kind() {
	case reflect.Ptr:
		return "slice-of-pointers"
	case reflect.Slice:
		return "slice-of-bytestrings"
	}
	return "slice-of-" + t.Kind().String()
}

func encLen(v reflect.Value) int {
	defer func() { recover() }()
	b, err := ua.Encode(v.Interface())
	if err != nil {
		return -1
	}
	return len(b)
}

// encLenElem is the encoded length of one Variant element (strings and byte strings carry a
// length prefix; everything else is encoded like a field).
func encLenElem(x reflect.Value) int {
	switch x.Kind() {
	case reflect.String:
		if x.Len() == 0 {
			return 4
		}
		return 4 + x.Len()
	case reflect.Slice:
		return 4 + x.Len()
	}
	return encLen(x)
}

func findSites(v reflect.Value, off int, label string, out *[]site, depth int) {
	if depth > 6 || !v.IsValid() {
		return
	}
	switch v.Type() {
	case variantT:
		va := v.Interface().(*ua.Variant)
		if va == nil {
			return
		}
		if va.EncodingMask()&ua.VariantArrayValues != 0 {
			*out = append(*out, site{off + 1, label + ".arrayLength", "variant.arrayLength"})
			if va.EncodingMask()&ua.VariantArrayDimensions != 0 {
				if n := encLen(v); n > 0 {
					*out = append(*out, site{off + n - 4*(len(va.ArrayDimensions())+1), label + ".arrayDimensionsLength", "variant.arrayDimensionsLength"})
				}
			}
		}
		// nested values that have length fields of their own
		eoff := off + 1
		if va.EncodingMask()&ua.VariantArrayValues != 0 {
			eoff += 4
		}
		var walk func(x reflect.Value)
		walk = func(x reflect.Value) {
			if !x.IsValid() || eoff < 0 {
				return
			}
			if x.Kind() == reflect.Slice && x.Type() != bytesT && x.Type().Elem().Kind() != reflect.Uint8 {
				for i := 0; i < x.Len(); i++ {
					walk(x.Index(i))
				}
				return
			}
			switch x.Type() {
			case variantT, dataValT, extObjT:
				findSites(x, eoff, label+".value", out, depth+1)
			}
			if n := encLenElem(x); n >= 0 {
				eoff += n
			} else {
				eoff = -1
			}
		}
		walk(reflect.ValueOf(va.Value()))
		return
	case dataValT:
		dv := v.Interface().(*ua.DataValue)
		if dv != nil && dv.EncodingMask&ua.DataValueValue != 0 {
			findSites(reflect.ValueOf(dv.Value), off+1, label+".Value", out, depth+1)
		}
		return
	case extObjT:
		eo := v.Interface().(*ua.ExtensionObject)
		if eo != nil && eo.EncodingMask == ua.ExtensionObjectBinary && eo.Value != nil {
			if n := encLen(reflect.ValueOf(eo.TypeID)); n > 0 {
				findSites(reflect.ValueOf(eo.Value), off+n+1+4, label+".Value", out, depth+1)
			}
		}
		return
	case nodeIDT, expIDT, diagT, locTextT, guidT, timeT:
		return
	}
	switch v.Kind() {
	case reflect.Ptr:
		if !v.IsNil() {
			findSites(v.Elem(), off, label, out, depth)
		}
	case reflect.Struct:
		t := v.Type()
		for i := 0; i < t.NumField(); i++ {
			if t.Field(i).PkgPath != "" {
				return
			}
			f := v.Field(i)
			findSites(f, off, label+"."+t.Field(i).Name, out, depth+1)
			n := encLen(f)
			if n < 0 {
				return
			}
			off += n
		}
	case reflect.Slice:
		if v.Type().Elem().Kind() == reflect.Uint8 {
			return
		}
		*out = append(*out, site{off, label, elemClass(v.Type().Elem())})
		off += 4
		for i := 0; i < v.Len() && i < 4; i++ {
			findSites(v.Index(i), off, label+"[]", out, depth+1)
			n := encLen(v.Index(i))
			if n < 0 {
				return
			}
			off += n
		}
	}
}

// memoKey returns the identity of "this replacement at a site of this class, decoded through this
// entry class" or "" if the mutation touches no site, and the shape of the attacked length field
// ("<site class>/len<0", "/len<=65535" or "/len>65535": the value the field has after the mutation), which is part
// of the signature of an allocation failure.
func memoKey(typ string, sites []site, seed []byte, m mutation) (key, shape string) {
	if m.Kind == 't' {
		return "", ""
	}
	for _, s := range sites {
		if m.Off < s.Off+4 && m.Off+m.W > s.Off && s.Off+4 <= len(seed) {
			var f [4]byte
			copy(f[:], seed[s.Off:s.Off+4])
			for i := 0; i < m.W; i++ {
				if j := m.Off + i - s.Off; j >= 0 && j < 4 {
					f[j] = m.New[i]
				}
			}
			switch v := binary.LittleEndian.Uint32(f[:]); {
			case m.Off < s.Off || m.Off+m.W > s.Off+4:
				// the window also rewrites a neighbouring field: what the decoder reads as this
				// length is no longer certain
				shape = s.Class + "/straddling"
			case v >= 0x80000000:
				shape = s.Class + "/len<0"
			case v > 0xffff:
				shape = s.Class + "/len>65535"
			default:
				shape = s.Class + "/len<=65535"
			}
			return s.Class + "|" + strconv.Itoa(m.Off-s.Off) + "|" + string(m.Kind) + strconv.FormatUint(uint64(binary.LittleEndian.Uint32(m.New[:])), 16), shape
		}
	}
	return "", ""
}
