package main

import (
	"fmt"
	"reflect"

	"github.com/gopcua/opcua/ua"
)

// k-deviation structural value enumeration.
//
// d(T): all struct pointers allocated, slices nil, scalars zero, hand-written built-ins at their
// simplest well-formed value. A *position* is one place where a value can depart from d(T); it
// has a list of alternatives (index 0.. = non-default values, simplest first). The enumerator
// yields every value that differs from d(T) in at most k positions.

type alt struct {
	Label string
	Set   func(f reflect.Value) // f: the addressable field (or the struct for mask-driven types)
}

type position struct {
	Path []int  // field index chain from the root struct, through struct pointers
	Name string // dotted field path, for reports
	Kind string // alphabet class
	Alts []alt
}

type template struct {
	Typ reflect.Type
	Pos []*position
}

// newDefault returns a pointer to d(T) for a struct type T.
func newDefault(t reflect.Type) reflect.Value {
	p := reflect.New(t)
	fillDefault(p.Elem())
	return p
}

func defaultSpecial(t reflect.Type) (reflect.Value, bool) {
	switch t {
	case variantT:
		return reflect.ValueOf(ua.MustVariant(nil)), true
	case nodeIDT:
		return reflect.ValueOf(ua.NewTwoByteNodeID(0)), true
	case expIDT:
		return reflect.ValueOf(ua.NewTwoByteExpandedNodeID(0)), true
	case extObjT:
		return reflect.ValueOf(&ua.ExtensionObject{TypeID: ua.NewTwoByteExpandedNodeID(0)}), true
	case dataValT:
		return reflect.ValueOf(&ua.DataValue{Value: ua.MustVariant(nil)}), true
	case diagT:
		return reflect.ValueOf(&ua.DiagnosticInfo{}), true
	case locTextT:
		return reflect.ValueOf(&ua.LocalizedText{}), true
	case guidT:
		return reflect.ValueOf(&ua.GUID{Data4: make([]byte, 8)}), true
	}
	return reflect.Value{}, false
}

func fillDefault(s reflect.Value) {
	if s.Kind() != reflect.Struct || s.Type() == timeT {
		return
	}
	for i := 0; i < s.NumField(); i++ {
		f := s.Field(i)
		if !f.CanSet() {
			continue
		}
		if v, ok := defaultSpecial(f.Type()); ok {
			f.Set(v)
			continue
		}
		switch f.Kind() {
		case reflect.Ptr:
			if f.Type().Elem().Kind() == reflect.Struct {
				f.Set(newDefault(f.Type().Elem()))
			}
		case reflect.Struct:
			fillDefault(f)
		}
	}
}

// defaultOfType returns d(T) for any field/element type (pointer, scalar, slice).
func defaultOfType(t reflect.Type) reflect.Value {
	if v, ok := defaultSpecial(t); ok {
		return v
	}
	if t.Kind() == reflect.Ptr && t.Elem().Kind() == reflect.Struct {
		return newDefault(t.Elem())
	}
	v := reflect.New(t).Elem()
	if t.Kind() == reflect.Struct {
		fillDefault(v)
	}
	return v
}

// fullOfType returns a second, distinct element for slice shapes: every position of the element
// takes its first non-default alternative.
func fullOfType(t reflect.Type, depth int) reflect.Value {
	v := defaultOfType(t)
	if t.Kind() == reflect.Ptr && t.Elem().Kind() == reflect.Struct {
		if _, special := defaultSpecial(t); !special {
			tp := buildTemplateDepth(t.Elem(), depth+1)
			for _, p := range tp.Pos {
				p.Alts[0].Set(resolve(v, p.Path))
			}
			return v
		}
	}
	// specials and scalars: first non-default alternative of the field alphabet
	holder := reflect.New(t).Elem()
	holder.Set(v)
	alts := fieldAlts(t, depth+1)
	if len(alts) > 0 {
		alts[0].Set(holder)
	}
	return holder
}

func resolve(root reflect.Value, path []int) reflect.Value {
	v := root
	for _, i := range path {
		for v.Kind() == reflect.Ptr {
			v = v.Elem()
		}
		v = v.Field(i)
	}
	return v
}

var templateCache = map[reflect.Type]*template{}

func buildTemplate(t reflect.Type) *template { return buildTemplateDepth(t, 0) }

func buildTemplateDepth(t reflect.Type, depth int) *template {
	if depth == 0 {
		if tp, ok := templateCache[t]; ok {
			return tp
		}
	}
	tp := &template{Typ: t}
	if v, ok := defaultSpecial(reflect.PtrTo(t)); ok {
		_ = v
		// a hand-written built-in as the root: its positions are those of a field of that type
		tp.Pos = specialPositions(reflect.PtrTo(t), nil, "", depth)
	} else {
		walkStruct(t, nil, "", depth, &tp.Pos)
	}
	if depth == 0 {
		templateCache[t] = tp
	}
	return tp
}

func walkStruct(t reflect.Type, path []int, prefix string, depth int, out *[]*position) {
	for i := 0; i < t.NumField(); i++ {
		sf := t.Field(i)
		if sf.PkgPath != "" {
			continue
		}
		p := append(append([]int(nil), path...), i)
		name := prefix + sf.Name
		ft := sf.Type
		if _, ok := defaultSpecial(ft); ok {
			*out = append(*out, specialPositions(ft, p, name, depth)...)
			continue
		}
		switch {
		case ft.Kind() == reflect.Ptr && ft.Elem().Kind() == reflect.Struct:
			walkStruct(ft.Elem(), p, name+".", depth, out)
		case ft.Kind() == reflect.Struct && ft != timeT:
			walkStruct(ft, p, name+".", depth, out)
		default:
			alts := fieldAlts(ft, depth)
			if len(alts) == 0 {
				panic(fmt.Sprintf("no alphabet for field %s of type %s", name, ft))
			}
			*out = append(*out, &position{Path: p, Name: name, Kind: kindLabel(ft), Alts: alts})
		}
	}
}

func kindLabel(t reflect.Type) string {
	switch {
	case t == timeT:
		return "time"
	case t == bytesT:
		return "bytes"
	case t.Kind() == reflect.Slice:
		return "slice"
	}
	return t.Kind().String()
}

// fieldAlts returns the non-default alternatives of a non-special field type.
func fieldAlts(t reflect.Type, depth int) []alt {
	var out []alt
	if _, ok := defaultSpecial(t); ok {
		// a special as a slice element / wrapped value: replace the whole pointer
		for _, p := range specialPositions(t, nil, "", depth) {
			out = append(out, p.Alts...)
			if len(out) > 0 {
				break
			}
		}
		return out
	}
	if t == bytesT {
		for i, b := range bytesAlphabet()[1:] {
			b := b
			out = append(out, alt{fmt.Sprintf("bytes#%d", i+1), func(f reflect.Value) { f.SetBytes(append([]byte{}, b...)) }})
		}
		return out
	}
	if sc := scalarAlphabet(t); sc != nil {
		for i, v := range sc[1:] {
			v := v
			out = append(out, alt{fmt.Sprintf("%s#%d", kindLabel(t), i+1), func(f reflect.Value) { f.Set(v) }})
		}
		return out
	}
	if t.Kind() == reflect.Slice {
		et := t.Elem()
		mk := func(n int) func(f reflect.Value) {
			return func(f reflect.Value) {
				s := reflect.MakeSlice(t, n, n)
				for i := 0; i < n; i++ {
					if i == 0 {
						s.Index(i).Set(defaultOfType(et))
					} else if depth < 3 {
						s.Index(i).Set(fullOfType(et, depth))
					} else {
						s.Index(i).Set(defaultOfType(et))
					}
				}
				f.Set(s)
			}
		}
		return []alt{{"[]", mk(0)}, {"[d]", mk(1)}, {"[d,d']", mk(2)}}
	}
	if t.Kind() == reflect.Ptr && t.Elem().Kind() == reflect.Struct {
		// pointer to a generated struct used as an element: "full" value
		return []alt{{"full", func(f reflect.Value) { f.Set(fullOfType(t, depth)) }}}
	}
	return nil
}

// specialPositions returns the positions contributed by a field of a hand-written built-in type.
func specialPositions(ft reflect.Type, path []int, name string, depth int) []*position {
	one := func(kind string, alts []alt) []*position {
		return []*position{{Path: path, Name: name, Kind: kind, Alts: alts}}
	}
	switch ft {
	case variantT:
		var alts []alt
		for _, va := range variantAlphabet()[1:] {
			va := va
			alts = append(alts, alt{va.Label, func(f reflect.Value) { f.Set(reflect.ValueOf(va.Make())) }})
		}
		return one("variant", alts)
	case nodeIDT:
		var alts []alt
		for i, mk := range nodeIDAlphabet()[1:] {
			mk := mk
			alts = append(alts, alt{fmt.Sprintf("nodeid#%d", i+1), func(f reflect.Value) { f.Set(reflect.ValueOf(mk())) }})
		}
		return one("nodeid", alts)
	case expIDT:
		var alts []alt
		for i, mk := range expandedNodeIDAlphabet()[1:] {
			mk := mk
			alts = append(alts, alt{fmt.Sprintf("expnodeid#%d", i+1), func(f reflect.Value) { f.Set(reflect.ValueOf(mk())) }})
		}
		return one("expnodeid", alts)
	case extObjT:
		var alts []alt
		for i, mk := range extensionObjectAlphabet()[1:] {
			mk := mk
			alts = append(alts, alt{fmt.Sprintf("extobj#%d", i+1), func(f reflect.Value) { f.Set(reflect.ValueOf(mk())) }})
		}
		return one("extobj", alts)
	case guidT:
		var alts []alt
		for i := range guidAlphabet()[1:] {
			i := i
			alts = append(alts, alt{fmt.Sprintf("guid#%d", i+1), func(f reflect.Value) { f.Set(reflect.ValueOf(guidAlphabet()[i+1])) }})
		}
		return one("guid", alts)
	case locTextT:
		set := func(fn func(l *ua.LocalizedText)) func(f reflect.Value) {
			return func(f reflect.Value) { fn(f.Interface().(*ua.LocalizedText)) }
		}
		var out []*position
		var masks []alt
		for _, m := range []byte{1, 2, 3, 4, 7, 0xfc, 0xff} {
			m := m
			masks = append(masks, alt{fmt.Sprintf("mask=%#02x", m), set(func(l *ua.LocalizedText) {
				l.EncodingMask |= m
				if m&1 != 0 && l.Locale == "" {
					l.Locale = "lo"
				}
				if m&2 != 0 && l.Text == "" {
					l.Text = "tx"
				}
			})})
		}
		out = append(out, &position{Path: path, Name: join(name, "EncodingMask"), Kind: "mask:LocalizedText", Alts: masks})
		var la, ta []alt
		for i, v := range scalarAlphabet(reflect.TypeOf(""))[1:] {
			s := v.String()
			la = append(la, alt{fmt.Sprintf("string#%d", i+1), set(func(l *ua.LocalizedText) { l.EncodingMask |= 1; l.Locale = s })})
			ta = append(ta, alt{fmt.Sprintf("string#%d", i+1), set(func(l *ua.LocalizedText) { l.EncodingMask |= 2; l.Text = s })})
		}
		out = append(out, &position{Path: path, Name: join(name, "Locale"), Kind: "string", Alts: la},
			&position{Path: path, Name: join(name, "Text"), Kind: "string", Alts: ta})
		return out
	case diagT:
		set := func(fn func(d *ua.DiagnosticInfo)) func(f reflect.Value) {
			return func(f reflect.Value) { fn(f.Interface().(*ua.DiagnosticInfo)) }
		}
		fill := func(d *ua.DiagnosticInfo, m byte) {
			d.EncodingMask |= m
			if m&ua.DiagnosticInfoSymbolicID != 0 && d.SymbolicID == 0 {
				d.SymbolicID = 11
			}
			if m&ua.DiagnosticInfoNamespaceURI != 0 && d.NamespaceURI == 0 {
				d.NamespaceURI = 22
			}
			if m&ua.DiagnosticInfoLocale != 0 && d.Locale == 0 {
				d.Locale = 33
			}
			if m&ua.DiagnosticInfoLocalizedText != 0 && d.LocalizedText == 0 {
				d.LocalizedText = 44
			}
			if m&ua.DiagnosticInfoAdditionalInfo != 0 && d.AdditionalInfo == "" {
				d.AdditionalInfo = "add"
			}
			if m&ua.DiagnosticInfoInnerStatusCode != 0 && d.InnerStatusCode == 0 {
				d.InnerStatusCode = 66
			}
			if m&ua.DiagnosticInfoInnerDiagnosticInfo != 0 && d.InnerDiagnosticInfo == nil {
				d.InnerDiagnosticInfo = &ua.DiagnosticInfo{EncodingMask: ua.DiagnosticInfoSymbolicID, SymbolicID: 77}
			}
		}
		var masks []alt
		for m := 1; m < 256; m++ {
			if m >= 0x80 && m != 0x80 && m != 0xff {
				continue
			}
			m := byte(m)
			masks = append(masks, alt{fmt.Sprintf("mask=%#02x", m), set(func(d *ua.DiagnosticInfo) { fill(d, m) })})
		}
		out := []*position{{Path: path, Name: join(name, "EncodingMask"), Kind: "mask:DiagnosticInfo", Alts: masks}}
		i32 := func(fname string, bit byte, setv func(d *ua.DiagnosticInfo, x int32)) {
			var alts []alt
			for i, v := range scalarAlphabet(reflect.TypeOf(int32(0)))[1:] {
				x := int32(v.Int())
				alts = append(alts, alt{fmt.Sprintf("int32#%d", i+1), set(func(d *ua.DiagnosticInfo) { d.EncodingMask |= bit; setv(d, x) })})
			}
			// present but zero
			alts = append(alts, alt{"present-zero", set(func(d *ua.DiagnosticInfo) { d.EncodingMask |= bit })})
			out = append(out, &position{Path: path, Name: join(name, fname), Kind: "int32", Alts: alts})
		}
		i32("SymbolicID", ua.DiagnosticInfoSymbolicID, func(d *ua.DiagnosticInfo, x int32) { d.SymbolicID = x })
		i32("NamespaceURI", ua.DiagnosticInfoNamespaceURI, func(d *ua.DiagnosticInfo, x int32) { d.NamespaceURI = x })
		i32("Locale", ua.DiagnosticInfoLocale, func(d *ua.DiagnosticInfo, x int32) { d.Locale = x })
		i32("LocalizedText", ua.DiagnosticInfoLocalizedText, func(d *ua.DiagnosticInfo, x int32) { d.LocalizedText = x })
		var sa []alt
		for i, v := range scalarAlphabet(reflect.TypeOf(""))[1:] {
			s := v.String()
			sa = append(sa, alt{fmt.Sprintf("string#%d", i+1), set(func(d *ua.DiagnosticInfo) { d.EncodingMask |= ua.DiagnosticInfoAdditionalInfo; d.AdditionalInfo = s })})
		}
		out = append(out, &position{Path: path, Name: join(name, "AdditionalInfo"), Kind: "string", Alts: sa})
		var sc []alt
		for i, v := range scalarAlphabet(reflect.TypeOf(uint32(0)))[1:] {
			x := ua.StatusCode(v.Uint())
			sc = append(sc, alt{fmt.Sprintf("uint32#%d", i+1), set(func(d *ua.DiagnosticInfo) { d.EncodingMask |= ua.DiagnosticInfoInnerStatusCode; d.InnerStatusCode = x })})
		}
		out = append(out, &position{Path: path, Name: join(name, "InnerStatusCode"), Kind: "uint32", Alts: sc})
		var in []alt
		for i, mk := range diagnosticInfoAlphabet() {
			mk := mk
			in = append(in, alt{fmt.Sprintf("inner#%d", i), set(func(d *ua.DiagnosticInfo) {
				d.EncodingMask |= ua.DiagnosticInfoInnerDiagnosticInfo
				d.InnerDiagnosticInfo = mk()
			})})
		}
		out = append(out, &position{Path: path, Name: join(name, "InnerDiagnosticInfo"), Kind: "diag", Alts: in})
		return out
	case dataValT:
		set := func(fn func(d *ua.DataValue)) func(f reflect.Value) {
			return func(f reflect.Value) { fn(f.Interface().(*ua.DataValue)) }
		}
		fill := func(d *ua.DataValue, m byte) {
			d.EncodingMask |= m
			if m&ua.DataValueValue != 0 && d.Value.Type() == ua.TypeIDNull {
				d.Value = ua.MustVariant(uint16(0x1234))
			}
			if m&ua.DataValueStatusCode != 0 && d.Status == 0 {
				d.Status = 0x80010000
			}
			if m&ua.DataValueSourceTimestamp != 0 && d.SourceTimestamp.IsZero() {
				d.SourceTimestamp = timeAlphabet()[2]
			}
			if m&ua.DataValueSourcePicoseconds != 0 && d.SourcePicoseconds == 0 {
				d.SourcePicoseconds = 0x0102
			}
			if m&ua.DataValueServerTimestamp != 0 && d.ServerTimestamp.IsZero() {
				d.ServerTimestamp = timeAlphabet()[1]
			}
			if m&ua.DataValueServerPicoseconds != 0 && d.ServerPicoseconds == 0 {
				d.ServerPicoseconds = 0x0304
			}
		}
		var masks []alt
		for m := 1; m < 256; m++ {
			if m >= 0x40 && m != 0x40 && m != 0x80 && m != 0xff && m != 0xc1 {
				continue
			}
			m := byte(m)
			masks = append(masks, alt{fmt.Sprintf("mask=%#02x", m), set(func(d *ua.DataValue) { fill(d, m) })})
		}
		out := []*position{{Path: path, Name: join(name, "EncodingMask"), Kind: "mask:DataValue", Alts: masks}}
		var va []alt
		for _, a := range variantAlphabet() { // including the null variant with the value bit set
			a := a
			va = append(va, alt{a.Label, set(func(d *ua.DataValue) { d.EncodingMask |= ua.DataValueValue; d.Value = a.Make() })})
		}
		out = append(out, &position{Path: path, Name: join(name, "Value"), Kind: "variant", Alts: va})
		var st []alt
		for i, v := range scalarAlphabet(reflect.TypeOf(uint32(0)))[1:] {
			x := ua.StatusCode(v.Uint())
			st = append(st, alt{fmt.Sprintf("uint32#%d", i+1), set(func(d *ua.DataValue) { d.EncodingMask |= ua.DataValueStatusCode; d.Status = x })})
		}
		out = append(out, &position{Path: path, Name: join(name, "Status"), Kind: "uint32", Alts: st})
		tm := func(fname string, bit byte, setv func(d *ua.DataValue, t reflect.Value)) {
			var alts []alt
			for i, v := range scalarAlphabet(timeT) {
				v := v
				alts = append(alts, alt{fmt.Sprintf("time#%d", i), set(func(d *ua.DataValue) { d.EncodingMask |= bit; setv(d, v) })})
			}
			out = append(out, &position{Path: path, Name: join(name, fname), Kind: "time", Alts: alts})
		}
		tm("SourceTimestamp", ua.DataValueSourceTimestamp, func(d *ua.DataValue, t reflect.Value) { reflect.ValueOf(&d.SourceTimestamp).Elem().Set(t) })
		tm("ServerTimestamp", ua.DataValueServerTimestamp, func(d *ua.DataValue, t reflect.Value) { reflect.ValueOf(&d.ServerTimestamp).Elem().Set(t) })
		ps := func(fname string, bit byte, setv func(d *ua.DataValue, x uint16)) {
			var alts []alt
			for i, v := range scalarAlphabet(reflect.TypeOf(uint16(0))) {
				x := uint16(v.Uint())
				alts = append(alts, alt{fmt.Sprintf("uint16#%d", i), set(func(d *ua.DataValue) { d.EncodingMask |= bit; setv(d, x) })})
			}
			out = append(out, &position{Path: path, Name: join(name, fname), Kind: "uint16", Alts: alts})
		}
		ps("SourcePicoseconds", ua.DataValueSourcePicoseconds, func(d *ua.DataValue, x uint16) { d.SourcePicoseconds = x })
		ps("ServerPicoseconds", ua.DataValueServerPicoseconds, func(d *ua.DataValue, x uint16) { d.ServerPicoseconds = x })
		return out
	}
	return nil
}

func join(name, field string) string {
	if name == "" {
		return field
	}
	return name + "." + field
}

// value is one enumerated value: the default plus a list of (position, alternative) deviations.
type deviation struct{ Pos, Alt int }

func (tp *template) build(devs []deviation) reflect.Value {
	v := newDefaultRoot(tp.Typ)
	for _, d := range devs {
		p := tp.Pos[d.Pos]
		p.Alts[d.Alt].Set(resolveRoot(v, p.Path))
	}
	return v.Elem() // the pointer to the struct
}

// The root is kept in a one-field holder so that a hand-written built-in root (whose positions
// replace the whole pointer) is handled like a field.
func newDefaultRoot(t reflect.Type) reflect.Value {
	h := reflect.New(reflect.PtrTo(t))
	h.Elem().Set(defaultOfType(reflect.PtrTo(t)))
	return h
}

func resolveRoot(holder reflect.Value, path []int) reflect.Value {
	if len(path) == 0 {
		return holder.Elem()
	}
	return resolve(holder.Elem(), path)
}

func (tp *template) describe(devs []deviation) string {
	if len(devs) == 0 {
		return tp.Typ.Name() + "{default}"
	}
	s := tp.Typ.Name() + "{"
	for i, d := range devs {
		if i > 0 {
			s += ", "
		}
		s += tp.Pos[d.Pos].Name + "=" + tp.Pos[d.Pos].Alts[d.Alt].Label
	}
	return s + "}"
}

// count of values with exactly 0,1,2 deviations
func (tp *template) counts() (k0, k1, k2 int64) {
	k0 = 1
	var sum, sq int64
	for _, p := range tp.Pos {
		n := int64(len(p.Alts))
		sum += n
		sq += n * n
	}
	return 1, sum, (sum*sum - sq) / 2
}

// each calls fn for every value with at most k deviations (k<=2), in a fixed order, with its global index.
func (tp *template) each(k int, fn func(devs []deviation)) {
	fn(nil)
	if k < 1 {
		return
	}
	for i, p := range tp.Pos {
		for a := range p.Alts {
			fn([]deviation{{i, a}})
		}
	}
	if k < 2 {
		return
	}
	for i, p := range tp.Pos {
		for a := range p.Alts {
			for j := i + 1; j < len(tp.Pos); j++ {
				for b := range tp.Pos[j].Alts {
					fn([]deviation{{i, a}, {j, b}})
				}
			}
		}
	}
}
