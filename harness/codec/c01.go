package main

import (
	"bytes"
	"fmt"
	"reflect"
	"regexp"
	"runtime"
	"strings"

	"github.com/gopcua/opcua/ua"
	"verif/engine/evid"
)

// c01Case is the replayable identity of one C01 case.
type c01Case struct {
	Type string      `json:"type"`
	Kind string      `json:"kind"`
	ID   uint16      `json:"id"`
	Devs []deviation `json:"devs"`
	Desc string      `json:"desc"`
}

var trailer = []byte{0xa5, 0xc3, 0xb2, 0xe1, 0xff, 0x00, 0x7f, 0x80}

var hashIdx = regexp.MustCompile(`#\d+`)

// topRepoFrame returns the innermost function of the repository on the current (panicking) stack.
func topRepoFrame() string {
	pc := make([]uintptr, 64)
	n := runtime.Callers(3, pc)
	fr := runtime.CallersFrames(pc[:n])
	for {
		f, more := fr.Next()
		if strings.Contains(f.Function, "github.com/gopcua/opcua/") {
			return strings.TrimPrefix(f.Function, "github.com/gopcua/opcua/")
		}
		if !more {
			return "?"
		}
	}
}

// panicClass reduces a panic value to a stable class (no addresses, no lengths).
func panicClass(r interface{}) string {
	s := fmt.Sprint(r)
	s = regexp.MustCompile(`0x[0-9a-f]+`).ReplaceAllString(s, "N")
	s = regexp.MustCompile(`-?\d+`).ReplaceAllString(s, "N")
	if len(s) > 80 {
		s = s[:80]
	}
	return s
}

type callResult struct {
	panicked bool
	pclass   string
	ptop     string
	pmsg     string
}

// guard runs fn and converts a panic into a callResult.
func guard(fn func()) (res callResult) {
	defer func() {
		if r := recover(); r != nil {
			res = callResult{panicked: true, pclass: panicClass(r), ptop: topRepoFrame(), pmsg: clip(fmt.Sprint(r))}
		}
	}()
	fn()
	return
}

// devCell is the case-class part of a signature: kinds and alternative classes of the deviating positions.
func devCell(tp *template, t *target, devs []deviation) string {
	if len(devs) == 0 {
		return "default"
	}
	var parts []string
	for _, d := range devs {
		p := tp.Pos[d.Pos]
		lbl := hashIdx.ReplaceAllString(p.Alts[d.Alt].Label, "")
		if strings.HasPrefix(p.Kind, "mask:") {
			lbl = "mask"
		}
		name := p.Kind
		if t.Kind == "builtin" {
			name = p.Name
		}
		if lbl == p.Kind || lbl == "" {
			parts = append(parts, name)
		} else {
			parts = append(parts, name+"="+lbl)
		}
	}
	return strings.Join(parts, "+")
}

// checkC01 runs the round-trip oracle on one value. It returns (signature, detail) or "".
func checkC01(t *target, tp *template, devs []deviation, r *evid.Run) (sig, detail string) {
	cell := t.class() + "/" + devCell(tp, t, devs)
	fail := func(kind, where, msg string) (string, string) {
		// the field path of a difference is reported relative to the deviating position, so that
		// the same cell in different generated types has the same signature
		if strings.HasPrefix(where, "@.") {
			w := where[2:]
			rel := "@(outside the deviating positions)." + lastField(w)
			for _, d := range devs {
				n := tp.Pos[d.Pos].Name
				if i := strings.LastIndex(n, "."); t.Kind == "builtin" || i < 0 {
					// position names of built-ins and top-level fields are kept
				}
				if n == "" {
					rel = "@" + w
					break
				}
				if w == n || strings.HasPrefix(w, n+".") || strings.HasPrefix(w, n+"[") {
					rel = "@<" + tp.Pos[d.Pos].Kind + ">" + w[len(n):]
					if t.Kind == "builtin" {
						rel = "@" + w
					}
					break
				}
				// mask-driven positions are named Owner.Field: a difference elsewhere in the owner
				if i := strings.LastIndex(n, "."); strings.HasPrefix(tp.Pos[d.Pos].Kind, "mask:") && (i < 0 || strings.HasPrefix(w, n[:i+1])) {
					rel = "@<" + tp.Pos[d.Pos].Kind + ">." + w[i+1:]
					break
				}
			}
			if len(devs) == 0 {
				rel = "@" + lastField(w)
			}
			where = rel
		}
		return "roundtrip/" + cell + "/" + kind + where, msg + "; value " + tp.describe(devs)
	}
	var v reflect.Value
	if g := guard(func() { v = tp.build(devs) }); g.panicked {
		evid.EngineError(r.ID, "value builder panicked for %s: %s", tp.describe(devs), g.pmsg)
	}
	var b []byte
	var err error
	if g := guard(func() { b, err = ua.Encode(v.Interface()) }); g.panicked {
		return fail("encode-panic", "@"+g.ptop, g.pclass+": "+g.pmsg)
	}
	if err != nil {
		return fail("encode-error", "", err.Error())
	}
	// 1. stand-alone
	w := reflect.New(t.Typ)
	var n int
	if g := guard(func() { n, err = ua.Decode(b, w.Interface()) }); g.panicked {
		return fail("decode-panic", "@"+g.ptop, g.pclass+": "+g.pmsg+fmt.Sprintf("; bytes %x", b))
	}
	if err != nil {
		return fail("decode-error", "", fmt.Sprintf("%v; bytes %x", err, b))
	}
	if d := diff(v, w, "", normC01, 0); d != "" {
		return fail("value-differs", "@"+diffField(d), fmt.Sprintf("%s; bytes %x", d, b))
	}
	if n != len(b) {
		return fail("consumed-differs", "", fmt.Sprintf("consumed %d of %d bytes; bytes %x", n, len(b), b))
	}
	// 2. embedded: the same bytes followed by other data, as a nested decoder sees them
	w2 := reflect.New(t.Typ)
	eb := append(append([]byte{}, b...), trailer...)
	if g := guard(func() { n, err = ua.Decode(eb, w2.Interface()) }); g.panicked {
		return fail("embedded-decode-panic", "@"+g.ptop, g.pclass+": "+g.pmsg)
	}
	if err != nil {
		return fail("embedded-decode-error", "", fmt.Sprintf("%v; bytes %x", err, eb))
	}
	if n != len(b) {
		return fail("embedded-consumed-differs", "", fmt.Sprintf("consumed %d, encoding has %d bytes; bytes %x", n, len(b), eb))
	}
	if d := diff(v, w2, "", normC01, 0); d != "" {
		return fail("embedded-value-differs", "@"+diffField(d), fmt.Sprintf("%s; bytes %x", d, eb))
	}
	// 3. through the registries
	switch t.Kind {
	case "service":
		var sv interface{}
		sb := append(fourByteID(t.ID), b...)
		if g := guard(func() { _, sv, err = ua.DecodeService(sb) }); g.panicked {
			return fail("service-decode-panic", "@"+g.ptop, g.pclass+": "+g.pmsg)
		}
		if err != nil {
			return fail("service-decode-error", "", fmt.Sprintf("%v; bytes %x", err, sb))
		}
		if d := diff(v, reflect.ValueOf(sv), "", normC01, 0); d != "" {
			return fail("service-value-differs", "@"+diffField(d), d)
		}
	case "extobj":
		eo := &ua.ExtensionObject{TypeID: ua.NewFourByteExpandedNodeID(0, t.ID), EncodingMask: ua.ExtensionObjectBinary, Value: v.Interface()}
		var xb []byte
		if g := guard(func() { xb, err = ua.Encode(eo) }); g.panicked {
			return fail("extobj-encode-panic", "@"+g.ptop, g.pclass+": "+g.pmsg)
		}
		if err != nil {
			return fail("extobj-encode-error", "", err.Error())
		}
		eo2 := new(ua.ExtensionObject)
		xb2 := append(append([]byte{}, xb...), trailer...)
		if g := guard(func() { n, err = ua.Decode(xb2, eo2) }); g.panicked {
			return fail("extobj-decode-panic", "@"+g.ptop, g.pclass+": "+g.pmsg)
		}
		if err != nil {
			return fail("extobj-decode-error", "", fmt.Sprintf("%v; bytes %x", err, xb))
		}
		if n != len(xb) {
			return fail("extobj-consumed-differs", "", fmt.Sprintf("consumed %d of %d; bytes %x", n, len(xb), xb))
		}
		if d := diff(reflect.ValueOf(eo), reflect.ValueOf(eo2), "", normC01, 0); d != "" {
			return fail("extobj-value-differs", "@"+diffField(d), fmt.Sprintf("%s; bytes %x", d, xb))
		}
	}
	// recorded, not judged: is the re-encoding of the decoded value byte-identical?
	if b2, err2 := ua.Encode(w.Interface()); err2 == nil && bytes.Equal(b, b2) {
		r.Outcome("reencoding-identical")
	} else {
		r.Outcome("reencoding-differs(not judged)")
	}
	return "", ""
}

func lastField(w string) string {
	if i := strings.LastIndex(w, "."); i >= 0 {
		return w[i+1:]
	}
	return w
}

func runC01(r *evid.Run) {
	var rc c01Case
	if evid.ReplayInput(&rc) {
		for _, t := range discover(nil) {
			if t.Name == rc.Type && t.Kind == rc.Kind {
				tp := buildTemplate(t.Typ)
				sig, detail := checkC01(t, tp, rc.Devs, r)
				fmt.Printf("replay %s\n  sig=%q\n  detail=%s\n", tp.describe(rc.Devs), sig, detail)
				if sig != "" {
					exit(1)
				}
				exit(0)
			}
		}
		evid.EngineError("C01", "replay: type %s/%s not found", rc.Kind, rc.Type)
	}
	k := 1
	if evid.Thorough() {
		k = 2
	}
	targets := discover(nil)
	var npos, total, k2cap int64
	nsvc, next := 0, 0
	// per-type budget of k=2 values; types above it are enumerated completely at k=1 and the cap is reported
	const k2Budget = 400000
	capped := []string{}
	for _, t := range targets {
		tp := buildTemplate(t.Typ)
		npos += int64(len(tp.Pos))
		k0, k1, k2 := tp.counts()
		total += k0 + k1
		if k == 2 {
			if k2 > k2Budget {
				capped = append(capped, fmt.Sprintf("%s(%d)", t.Name, k2))
				k2cap += k2
			} else {
				total += k2
			}
		}
		switch t.Kind {
		case "service":
			nsvc++
		case "extobj":
			next++
		}
	}
	r.Rule(fmt.Sprintf("every type discovered by probing ns=0 ids 0..65535 through ua.DecodeService and ExtensionObject decoding (%d services, %d extension objects) plus %d built-ins; "+
		"for each, every value that differs from the default value in at most %d of its %d deviation positions (leaf alphabets, slice shapes, Variant type x shape, mask values). "+
		"A case is one value; it is non-trivial if it has at least one deviation; distinct by (type, deviation set)", nsvc, next, len(targets)-nsvc-next, k, npos))
	r.Set("k", k)
	r.Set("types", len(targets))
	r.Set("positions", npos)
	r.Set("values_planned", total)
	r.Assume("well-formed values only: struct pointers non-nil (the decoder always allocates them), fields not selected by an encoding mask are zero, GUID.Data4 has 8 bytes, two/four-byte node ids within their range, DateTime within the int64-nanosecond range and not exactly 1601-01-01 (which is the null DateTime)")
	if len(capped) > 0 {
		r.Capped(fmt.Sprintf("k=2 pairs skipped for %d types whose pair space exceeds %d values (%d values in total): %s; these types are covered completely at k<=1", len(capped), k2Budget, k2cap, strings.Join(capped, " ")))
	}
	deaths := evid.Sharded(r, 4<<30, func(s evid.ShardInfo, w *evid.Run) {
		var idx int64
		for _, t := range targets {
			tp := buildTemplate(t.Typ)
			kk := k
			if _, _, k2 := tp.counts(); kk == 2 && k2 > k2Budget {
				kk = 1
			}
			t := t
			tp.each(kk, func(devs []deviation) {
				idx++
				if !s.Mine(idx) {
					return
				}
				desc := tp.describe(devs)
				evid.Publish("C01 " + t.Kind + " " + desc)
				sig, detail := checkC01(t, tp, devs, w)
				if sig != "" && len(devs) > 1 {
					// a pair fails: if one of its deviations fails on its own, the pair is another case
					// of that cell; only a failure that needs both is a cell of its own
					for _, d := range devs {
						if s1, _ := checkC01(t, tp, []deviation{d}, w); s1 != "" {
							sig = s1
							break
						}
					}
				}
				key := ""
				if len(devs) > 0 {
					key = t.Kind + "/" + desc
				}
				w.Eval(key)
				if idx%20011 == 0 {
					w.Sample(desc)
				}
				if sig != "" {
					w.Outcome("violation")
					w.Violate(sig, detail, c01Case{Type: t.Name, Kind: t.Kind, ID: t.ID, Devs: devs, Desc: desc})
				} else {
					w.Outcome("roundtrip-ok")
				}
			})
		}
	})
	for _, d := range deaths {
		r.Violate("roundtrip/worker-death", fmt.Sprintf("worker %d died (%s) while running %q\n%s", d.Shard, d.ExitErr, d.LastCase, tail(d.Stderr, 1500)), d.LastCase)
	}
	r.Finish()
}

func tail(s string, n int) string {
	if len(s) > n {
		return s[len(s)-n:]
	}
	return s
}
