package main

import (
	"encoding/binary"
	"reflect"
	"sort"

	"github.com/gopcua/opcua/ua"
)

// A target is one decodable protocol type discovered from the code under test.
type target struct {
	Name    string       // Go type name without package ("ReadRequest", "Variant")
	Kind    string       // "service" | "extobj" | "builtin"
	ID      uint16       // ns=0 numeric id of the binary encoding (services, extension objects)
	Typ     reflect.Type // struct type (not the pointer)
	HandDec bool         // the type has its own hand-written Decode (BinaryDecoder)
}

func (t *target) New() interface{} { return reflect.New(t.Typ).Interface() }

// class is the type part of a violation signature: the name for hand-written
// decoders, the shared reflection codec otherwise (the code path is the same
// for every generated struct; the field kind / top function distinguishes cells).
func (t *target) class() string {
	if t.HandDec || t.Kind == "builtin" {
		return t.Name
	}
	return t.Kind + "-struct"
}

var binaryDecoderT = reflect.TypeOf((*ua.BinaryDecoder)(nil)).Elem()

func fourByteID(id uint16) []byte {
	b := []byte{0x01, 0x00, 0, 0}
	binary.LittleEndian.PutUint16(b[2:], id)
	return b
}

// discover probes every ns=0 numeric id through the public API.
// ids: nil = all of 0..65535.
func discover(ids []uint16) []*target {
	var out []*target
	seen := map[string]bool{}
	probe := func(id uint16) {
		// service registry: DecodeService returns a fresh instance of the registered type
		// (possibly together with a decode error because no body follows).
		func() {
			defer func() { recover() }()
			_, v, _ := ua.DecodeService(fourByteID(id))
			if v != nil {
				t := reflect.TypeOf(v).Elem()
				out = append(out, &target{Name: t.Name(), Kind: "service", ID: id, Typ: t, HandDec: reflect.PtrTo(t).Implements(binaryDecoderT)})
				seen["service/"+t.Name()] = true
			}
		}()
		// extension object registry: a binary body of one byte makes Decode instantiate the type.
		func() {
			defer func() { recover() }()
			b := append(fourByteID(id), 0x01, 0x01, 0x00, 0x00, 0x00, 0x00)
			eo := new(ua.ExtensionObject)
			eo.Decode(b)
			if eo.Value != nil {
				t := reflect.TypeOf(eo.Value).Elem()
				out = append(out, &target{Name: t.Name(), Kind: "extobj", ID: id, Typ: t, HandDec: reflect.PtrTo(t).Implements(binaryDecoderT)})
			}
		}()
	}
	if ids == nil {
		for id := 0; id <= 0xffff; id++ {
			probe(uint16(id))
		}
	} else {
		for _, id := range ids {
			probe(id)
		}
	}
	sort.SliceStable(out, func(i, j int) bool {
		if out[i].Kind != out[j].Kind {
			return out[i].Kind > out[j].Kind // service before extobj
		}
		return out[i].ID < out[j].ID
	})
	for _, v := range []interface{}{
		new(ua.Variant), new(ua.DataValue), new(ua.DiagnosticInfo), new(ua.LocalizedText), new(ua.QualifiedName),
		new(ua.NodeID), new(ua.ExpandedNodeID), new(ua.ExtensionObject), new(ua.GUID),
		new(ua.RequestHeader), new(ua.ResponseHeader),
	} {
		t := reflect.TypeOf(v).Elem()
		out = append(out, &target{Name: t.Name(), Kind: "builtin", Typ: t, HandDec: reflect.PtrTo(t).Implements(binaryDecoderT)})
	}
	return out
}
