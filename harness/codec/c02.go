package main

// C02 (decode safety) and C03 (decode -> encode -> decode stability).
//
// Process structure:
//   parent  --evid.Sharded-->  16 shard supervisors (RLIMIT_AS 4 GiB, inherited)
//   supervisor --exec--> executor (same binary, VERIF_CODEC_EXEC set): runs the units of the shard
//       one after the other, reports one JSON line per completed unit on stdout, publishes the
//       case it is about to run in an mmap'd file. If the executor dies (out of memory under the
//       address-space limit, stack overflow, fatal error, watchdog), the supervisor records a
//       violation for the published case and restarts the executor at the same unit with that
//       case on the skip list. A unit is accounted exactly once, when it completes.

import (
	"bufio"
	"bytes"
	"encoding/binary"
	"encoding/hex"
	"encoding/json"
	"fmt"
	"io"
	"os"
	"os/exec"
	"path/filepath"
	"reflect"
	"regexp"
	"runtime"
	"runtime/metrics"
	"sort"
	"strconv"
	"strings"
	"sync/atomic"
	"syscall"
	"time"

	"github.com/gopcua/opcua/ua"
	"verif/engine/evid"
)

const (
	memLimit     = 4 << 30
	smallLimit   = 192 << 20
	allocSlack   = 16 << 20
	allocPerByte = 1024
	watchdogCPU  = 60 * time.Second
	watchdogWall = 15 * time.Minute
)

// probeMarker is published instead of a case index while the length fields of a seed are probed.
const probeMarker = 0x7ffffffe

const maxDeathsPerUnit = 6

func cpuTime() time.Duration {
	var ru syscall.Rusage
	syscall.Getrusage(syscall.RUSAGE_SELF, &ru)
	return time.Duration(ru.Utime.Nano() + ru.Stime.Nano())
}

// ---- decode targets ---------------------------------------------------------------------------

type dtarget struct {
	*target
	svc bool // entry through ua.DecodeService
}

func (d *dtarget) decode(b []byte) (v reflect.Value, n int, err error) {
	if d.svc {
		var x interface{}
		_, x, err = ua.DecodeService(b)
		if x != nil {
			v = reflect.ValueOf(x)
		}
		return v, -1, err
	}
	v = reflect.New(d.Typ)
	n, err = ua.Decode(b, v.Interface())
	return
}

type seed struct {
	Desc  string
	Bytes []byte // nil: the value has no encoding (Encode failed; that is C01's subject)
	Sites []site // pre-allocating length fields (see findSites)
}

// ---- units ------------------------------------------------------------------------------------

type unit struct {
	Kind   string `json:"k"` // mut | pair | exh | tower | grid
	Target int    `json:"t"` // index into targets
	Seed   int    `json:"s"` // mut: seed index; pair: 0 = default seed, -1 = richest seed; exh: first byte (256 = empty string); tower/grid: variant
	Cost   int64  `json:"c"`
}

type plan struct {
	targets  []*dtarget
	all      []*target
	units    []unit
	L        int
	pairs    bool
	thorough bool
	tier     string
	cache    map[[2]int]*seed
}

var handExh = map[string]bool{"Variant": true, "DataValue": true, "DiagnosticInfo": true, "LocalizedText": true, "QualifiedName": true,
	"NodeID": true, "ExpandedNodeID": true, "ExtensionObject": true, "GUID": true, "DecodeService": true}

func makePlan(ts []*target, thorough bool) *plan {
	p := &plan{L: 2, tier: "quick", all: ts, thorough: thorough, cache: map[[2]int]*seed{}}
	if thorough {
		p.L, p.pairs, p.tier = 3, true, "thorough"
	}
	for _, t := range ts {
		p.targets = append(p.targets, &dtarget{target: t})
	}
	// DecodeService as its own entry point
	p.targets = append(p.targets, &dtarget{target: &target{Name: "DecodeService", Kind: "builtin", HandDec: true}, svc: true})
	return p
}

func encodeSeed(v reflect.Value) []byte {
	var b []byte
	var err error
	if g := guard(func() { b, err = ua.Encode(v.Interface()) }); g.panicked || err != nil {
		return nil
	}
	return b
}

func (p *plan) kindTargets(kind string) []*target {
	var out []*target
	for _, t := range p.all {
		if t.Kind == kind {
			out = append(out, t)
		}
	}
	return out
}

// k1Seeds reports whether the seeds of a target are all its k<=1 values (else: default + full).
func (p *plan) k1Seeds(t *dtarget) bool { return p.thorough || t.Kind == "builtin" }

// seedCount is known without building any seed.
func (p *plan) seedCount(ti int) int {
	t := p.targets[ti]
	if t.svc {
		return len(p.kindTargets("service")) + 2
	}
	tp := buildTemplate(t.Typ)
	n := 2
	if len(tp.Pos) == 0 {
		n = 1
	}
	if p.k1Seeds(t) {
		_, k1, _ := tp.counts()
		n = 1 + int(k1)
	}
	if t.Name == "ExtensionObject" && t.Kind == "builtin" {
		n += len(p.kindTargets("extobj")) + 2
	}
	return n
}

// devsAt maps a k<=1 value index to its deviations (same order as template.each).
func (tp *template) devsAt(idx int) []deviation {
	if idx == 0 {
		return nil
	}
	idx--
	for i, ps := range tp.Pos {
		if idx < len(ps.Alts) {
			return []deviation{{i, idx}}
		}
		idx -= len(ps.Alts)
	}
	return nil
}

func (p *plan) seedAt(ti, si int) *seed {
	if s, ok := p.cache[[2]int{ti, si}]; ok {
		return s
	}
	s := p.buildSeed(ti, si)
	p.cache[[2]int{ti, si}] = s
	return s
}

func (p *plan) buildSeed(ti, si int) *seed {
	t := p.targets[ti]
	mk := func(desc string, v reflect.Value, prefix []byte) *seed {
		b := encodeSeed(v)
		if b == nil {
			return &seed{Desc: desc}
		}
		var sites []site
		findSites(v, len(prefix), "", &sites, 0)
		return &seed{Desc: desc, Bytes: append(append([]byte{}, prefix...), b...), Sites: sites}
	}
	if t.svc {
		svcs := p.kindTargets("service")
		switch {
		case si < len(svcs):
			return mk("service "+svcs[si].Name+"{default}", newDefault(svcs[si].Typ), fourByteID(svcs[si].ID))
		case si == len(svcs):
			return &seed{Desc: "unknown service id", Bytes: []byte{0x01, 0x00, 0xff, 0xff, 0, 0, 0, 0}}
		default:
			return &seed{Desc: "string service id", Bytes: []byte{0x03, 0x00, 0x00, 0x01, 0, 0, 0, 'x', 0, 0}}
		}
	}
	tp := buildTemplate(t.Typ)
	n := 2
	if len(tp.Pos) == 0 {
		n = 1
	}
	if p.k1Seeds(t) {
		_, k1, _ := tp.counts()
		n = 1 + int(k1)
		if si < n {
			devs := tp.devsAt(si)
			return mk(tp.describe(devs), tp.build(devs), nil)
		}
	} else if si < n {
		if si == 0 {
			return mk(tp.describe(nil), tp.build(nil), nil)
		}
		var full []deviation
		for i := range tp.Pos {
			full = append(full, deviation{i, 0})
		}
		return mk(t.Name+"{full}", tp.build(full), nil)
	}
	// ExtensionObject: one seed per registered type, then unregistered ids
	exts := p.kindTargets("extobj")
	si -= n
	switch {
	case si < len(exts):
		eo := &ua.ExtensionObject{TypeID: ua.NewFourByteExpandedNodeID(0, exts[si].ID), EncodingMask: ua.ExtensionObjectBinary, Value: newDefault(exts[si].Typ).Interface()}
		return mk("ExtensionObject{"+exts[si].Name+"{default}}", reflect.ValueOf(eo), nil)
	case si == len(exts):
		return &seed{Desc: "ExtensionObject{unregistered id, binary body}", Bytes: []byte{0x01, 0x00, 0xff, 0xff, 0x01, 0x03, 0, 0, 0, 1, 2, 3}}
	default:
		return &seed{Desc: "ExtensionObject{unregistered string id, xml body}", Bytes: []byte{0x03, 0x01, 0x00, 0x01, 0, 0, 0, 'x', 0x02, 0x04, 0, 0, 0, 0xff, 0xff, 0xff, 0xff}}
	}
}

// exhaustive byte strings: unit Seed = first byte 0..255 covers all strings of length 1..L starting
// with it; Seed = 256 is the empty string.
func exhCount(L int) int64 {
	c := int64(1)
	pow := int64(1)
	for i := 1; i < L; i++ {
		pow *= 256
		c += pow
	}
	return c
}

var towerKinds = []string{"Variant>Variant(scalar)", "Variant>Variant(array[1])", "DiagnosticInfo>Inner", "Variant>DataValue>Variant", "Variant>ExtensionObject>KeyValuePair>Variant", "DataValue>Variant(array[1]) of DataValue"}

// c03 is set when the binary runs C03: Encode copies the encoding of every nesting level into its
// parent, i.e. it is quadratic in the depth (a 64 KiB tower needs gigabytes), so the re-encoding
// oracle is applied to towers of depth <= 2^12 only.
var c03 bool

func towerDepths(thorough bool) []int {
	var d []int
	max := 1 << 16
	if thorough {
		max = 1 << 20
	}
	if c03 {
		max = 1 << 12
	}
	for x := 1; x <= max; x *= 2 {
		d = append(d, x)
	}
	return d
}

func (p *plan) buildUnits() {
	for ti, t := range p.targets {
		n := p.seedCount(ti)
		// cost estimate from the default encoding of the type
		dl := int64(len(p.seedAt(ti, 0).Bytes)) + 8
		for si := 0; si < n; si++ {
			p.units = append(p.units, unit{Kind: "mut", Target: ti, Seed: si, Cost: dl * (dl + 40) * 23 / 40})
		}
		if handExh[t.Name] && (t.Kind == "builtin") {
			for fb := 0; fb <= 256; fb++ {
				p.units = append(p.units, unit{Kind: "exh", Target: ti, Seed: fb, Cost: exhCount(p.L) * 2})
			}
		}
		if p.pairs && t.Kind == "builtin" && !t.svc {
			p.units = append(p.units, unit{Kind: "pair", Target: ti, Seed: 0, Cost: pairCost(int(dl))}, unit{Kind: "pair", Target: ti, Seed: -1, Cost: pairCost(pairMaxLen)})
		}
	}
	vi := -1
	for ti, t := range p.targets {
		if t.Name == "Variant" && t.Kind == "builtin" {
			vi = ti
		}
	}
	for k := range towerKinds {
		p.units = append(p.units, unit{Kind: "tower", Target: towerTarget(p, k), Seed: k, Cost: 300000})
	}
	for g := 0; g < gridChunks; g++ {
		p.units = append(p.units, unit{Kind: "grid", Target: vi, Seed: g, Cost: 100000})
	}
}

// richestSeed: the longest seed of the target that is at most pairMaxLen bytes long.
func (p *plan) richestSeed(ti int) int {
	best := 0
	n := p.seedCount(ti)
	for si := 0; si < n; si++ {
		l := len(p.seedAt(ti, si).Bytes)
		if l <= pairMaxLen && l > len(p.seedAt(ti, best).Bytes) {
			best = si
		}
	}
	return best
}

const pairMaxLen = 48

func pairCost(n int) int64 { c := int64(n) * 23; return c * c / 2 * int64(n+40) / 40 }

func towerTarget(p *plan, k int) int {
	name := "Variant"
	switch k {
	case 2:
		name = "DiagnosticInfo"
	case 5:
		name = "DataValue"
	}
	for ti, t := range p.targets {
		if t.Name == name && t.Kind == "builtin" {
			return ti
		}
	}
	return 0
}

// shardOf assigns units to shards. All "mut" units of one target go to the same shard, in seed
// order, so that the repeated-failure memo is deterministic.
func (p *plan) shardOf(n int) []int {
	type grp struct {
		key  string
		cost int64
		idx  []int
	}
	groups := map[string]*grp{}
	var order []*grp
	for i, u := range p.units {
		key := u.Kind + "/" + strconv.Itoa(u.Target)
		if u.Kind != "mut" {
			key += "/" + strconv.Itoa(u.Seed)
		}
		g := groups[key]
		if g == nil {
			g = &grp{key: key}
			groups[key] = g
			order = append(order, g)
		}
		g.cost += u.Cost + 2000
		g.idx = append(g.idx, i)
	}
	sort.SliceStable(order, func(i, j int) bool { return order[i].cost > order[j].cost })
	load := make([]int64, n)
	out := make([]int, len(p.units))
	for _, g := range order {
		best := 0
		for s := 1; s < n; s++ {
			if load[s] < load[best] {
				best = s
			}
		}
		load[best] += g.cost
		for _, i := range g.idx {
			out[i] = best
		}
	}
	return out
}

// ---- case execution ---------------------------------------------------------------------------

type caseReplay struct {
	Target string `json:"target"`
	Kind   string `json:"kind"`
	Hex    string `json:"hex,omitempty"`
	Tower  string `json:"tower,omitempty"`
	Depth  int    `json:"depth,omitempty"`
	Desc   string `json:"desc"`
}

type violationMsg struct {
	V      bool       `json:"v"` // marks the line as a violation message
	Unit   int        `json:"unit"`
	M      int        `json:"m"`
	Sig    string     `json:"sig"`
	Detail string     `json:"detail"`
	Replay caseReplay `json:"replay"`
}

// unitResult is reported when a unit completes. Cases that violated are reported immediately
// (violationMsg lines) and are not part of Evals; neither are cases that killed an executor.
type unitResult struct {
	Unit      int              `json:"unit"`
	Evals     int64            `json:"evals"`
	NonTriv   []uint64         `json:"nontriv"`
	Outcomes  map[string]int64 `json:"outcomes"`
	NotJudged int64            `json:"not_judged"`
	Skipped   int64            `json:"skipped"`
	Abandoned int64            `json:"abandoned"` // cases not run because the unit exceeded its budget of allocation failures outside known length fields
	Samples   []string         `json:"samples,omitempty"`
}

type executor struct {
	prop       string // C02 or C03
	plan       *plan
	pub        []byte
	memo       map[string]bool
	memoFile   *os.File
	res        *unitResult
	sample     []metrics.Sample
	caseStart  atomic.Int64 // unix nanos of the running case, 0 if none
	caseSeq    atomic.Int64
	scratch    []byte
	topCache   map[string]string
	lastProf   map[[32]uintptr]profEntry
	curUnit    int
	curM       int
	violated   bool // the running case has produced a violation
	out        *bufio.Writer
	sigSeen    map[string]int
	shape      string // shape of the attacked length field of the running case ("" if none)
	towerKind  string
	towerDepth int
}

func (e *executor) readAlloc() uint64 {
	metrics.Read(e.sample)
	return e.sample[0].Value.Uint64()
}

// publish: unit, case index, memo key.
func (e *executor) publish(unit, m int, key string) {
	e.curUnit, e.curM = unit, m
	if e.pub == nil {
		return
	}
	binary.LittleEndian.PutUint32(e.pub[0:], uint32(unit))
	binary.LittleEndian.PutUint32(e.pub[4:], uint32(m))
	if len(key) > 400 {
		key = key[:400]
	}
	binary.LittleEndian.PutUint32(e.pub[8:], uint32(len(key)))
	copy(e.pub[12:], key)
}

// noteHeavy tells the supervisor that the running case allocated beyond the C02 bound without being
// a violation of the property at hand (C03): it is not run again if the unit is restarted.
func (e *executor) noteHeavy() {
	if e.out == nil {
		return
	}
	b, _ := json.Marshal(violationMsg{V: true, Unit: e.curUnit, M: e.curM})
	e.out.Write(b)
	e.out.WriteByte('\n')
	e.out.Flush()
	e.violated = true // accounted for by the supervisor
}

// publishPhase replaces the published key of the running case by a phase marker.
func (e *executor) publishPhase(ph string) {
	if e.pub == nil {
		return
	}
	binary.LittleEndian.PutUint32(e.pub[8:], uint32(len(ph)))
	copy(e.pub[12:], ph)
}

func (e *executor) violate(sig, detail string, rp caseReplay) {
	e.violated = true
	if e.sigSeen == nil {
		e.sigSeen = map[string]int{}
	}
	e.sigSeen[sig]++
	if e.sigSeen[sig] > 3 {
		detail, rp = "", caseReplay{} // the supervisor keeps the first one only
	}
	if len(detail) > 1500 {
		detail = detail[:1500] + "…"
	}
	if e.out != nil {
		b, _ := json.Marshal(violationMsg{V: true, Unit: e.curUnit, M: e.curM, Sig: sig, Detail: detail, Replay: rp})
		e.out.Write(b)
		e.out.WriteByte('\n')
		e.out.Flush()
	} else {
		fmt.Printf("  sig=%q\n  detail=%s\n", sig, detail)
	}
}

var errClassRe = regexp.MustCompile(`\d+`)

func errClass(err error) string {
	s := err.Error()
	if i := strings.Index(s, " Status"); i > 0 {
		s = s[i+1:]
	}
	s = errClassRe.ReplaceAllString(s, "N")
	if len(s) > 48 {
		s = s[:48]
	}
	return s
}

// allocTop returns the innermost repository function on the stack of the largest allocation made
// since the previous call (allocations of 512 KiB and more are always in the memory profile).
func (e *executor) allocTop() string {
	runtime.GC()
	runtime.GC()
	runtime.GC() // the profile lags two collection cycles
	after := snapshotProfile()
	best, top := int64(0), "?"
	for k, a := range after {
		d := a.bytes - e.lastProf[k].bytes
		if d > best {
			best, top = d, a.top
		}
	}
	e.lastProf = after
	return top
}

type profEntry struct {
	bytes int64
	top   string
}

func snapshotProfile() map[[32]uintptr]profEntry {
	n, _ := runtime.MemProfile(nil, true)
	recs := make([]runtime.MemProfileRecord, n+64)
	n, ok := runtime.MemProfile(recs, true)
	if !ok {
		return nil
	}
	out := map[[32]uintptr]profEntry{}
	for _, r := range recs[:n] {
		top := "?"
		fr := runtime.CallersFrames(r.Stack())
		for {
			f, more := fr.Next()
			if strings.Contains(f.Function, "github.com/gopcua/opcua/") {
				top = strings.TrimPrefix(f.Function, "github.com/gopcua/opcua/")
				break
			}
			if !more {
				break
			}
		}
		out[r.Stack0] = profEntry{r.AllocBytes, top}
	}
	return out
}

// runCase executes one input against one target and applies the oracle of the property.
// It returns true if the case produced an allocation failure (for the memo).
func (e *executor) runCase(t *dtarget, in []byte, desc func() string) (allocFail bool) {
	e.shape = ""
	return e.runCaseKey(t, in, "", desc)
}

func (e *executor) runCaseKey(t *dtarget, in []byte, key string, desc func() string) (allocFail bool) {
	r := e.res
	e.violated = false
	defer func() {
		if !e.violated {
			r.Evals++
		}
	}()
	var v reflect.Value
	var n int
	var err error
	if e.pub != nil { // the input itself, for the report of a process death
		n := len(in)
		binary.LittleEndian.PutUint32(e.pub[512:], uint32(n))
		if n > 3000 {
			n = 3000
		}
		copy(e.pub[516:], in[:n])
	}
	e.caseStart.Store(time.Now().UnixNano())
	e.caseSeq.Add(1)
	a0 := e.readAlloc()
	g := guard(func() { v, n, err = t.decode(in) })
	a1 := e.readAlloc()
	e.caseStart.Store(0)
	rp := func() caseReplay {
		if e.towerKind != "" {
			return caseReplay{Target: t.Name, Kind: t.Kind, Tower: e.towerKind, Depth: e.towerDepth, Desc: desc()}
		}
		return caseReplay{Target: t.Name, Kind: t.Kind, Hex: hex.EncodeToString(clipReplay(in)), Desc: desc()}
	}
	alloc := a1 - a0
	if alloc > 8<<20 {
		defer runtime.GC()
	}
	if e.prop == "C02" {
		switch {
		case g.panicked:
			r.Outcomes["panic"]++
			e.violate("decode/panic:"+g.pclass+"/"+g.ptop, fmt.Sprintf("%s; entry point %s; input %x (%s)", g.pmsg, t.Name, clipBytes(in), desc()), rp())
		case err != nil:
			r.Outcomes["error:"+errClass(err)]++
		default:
			r.Outcomes["value"]++
		}
		if bound := uint64(allocPerByte*len(in) + allocSlack); alloc > bound {
			v = reflect.Value{}
			// The allocation site (innermost repository function of the largest allocation in the
			// memory profile) is reported in the detail only: the profile lags behind, and an
			// allocation near the address-space limit may or may not kill the process, so the
			// signature of an allocation failure is (entry class, attacked length field) for both.
			ck := key
			if i := strings.LastIndex(ck, "|"); i > 0 {
				ck = ck[:strings.LastIndex(ck[:i], "|")]
			}
			top, ok := e.topCache[ck]
			if !ok || ck == "" {
				top = e.allocTop()
				if ck != "" {
					e.topCache[ck] = top
				}
			}
			r.Outcomes["alloc-over-bound"]++
			e.violate("decode/alloc"+shapeSuffix(e.shape), fmt.Sprintf("allocated %d bytes for an input of %d bytes (bound %d), largest allocation in %s; entry point %s; input %x (%s)", alloc, len(in), bound, top, t.Name, clipBytes(in), desc()), rp())
			return true
		}
		return false
	}
	// C03
	if g.panicked || err != nil {
		r.Outcomes["not-decodable"]++
		if alloc > uint64(allocPerByte*len(in)+allocSlack) {
			e.noteHeavy()
			return true
		}
		return false
	}
	if alloc > uint64(allocPerByte*len(in)+allocSlack) {
		// C02 territory; the value is not re-encoded (a 2^31 element slice cannot be)
		r.Outcomes["decoded-with-excessive-allocation(C02)"]++
		r.NotJudged++
		e.noteHeavy()
		return true
	}
	e.publishPhase("@reencode")
	e.caseStart.Store(time.Now().UnixNano())
	sig, detail := reencodeOracle(t, v, n, in)
	detail = "entry point " + t.Name + ": " + detail
	e.caseStart.Store(0)
	if sig == "" {
		r.Outcomes["stable"]++
	} else {
		r.Outcomes["violation"]++
		e.violate(sig, detail+" ("+desc()+")", rp())
	}
	return false
}

func shapeSuffix(shape string) string {
	if shape == "" {
		return "/outside-known-length-fields"
	}
	return "/" + shape
}

// diffLeaf names the kind of the differing leaf (the field path would make one signature per
// nesting of the same defect): "DateTime" for time values, else the last field name.
func diffLeaf(d string) string {
	if strings.Contains(d, ": time ") {
		return "DateTime"
	}
	f := diffField(d)
	f = strings.TrimRight(f, "[]")
	return lastField(f)
}

func clipBytes(b []byte) []byte {
	if len(b) > 96 {
		return b[:96]
	}
	return b
}

// reencodeOracle: Encode(v) must succeed; decoding that encoding (stand-alone and followed by other
// data) must give a value equal to the first decode and consume exactly the encoding. The first
// decode is repeated after Encode so that an Encode which modifies its receiver cannot hide a
// difference. A failure is attributed to the innermost built-in value that is unstable on its own
// (see culprit), so that the same defect reached through different entry points is one finding.
func reencodeOracle(t *dtarget, v reflect.Value, n int, in []byte) (string, string) {
	kind, detail := reencodeCheck(func(b []byte) (reflect.Value, int, error) { return t.decode(b) }, v, in, t.svc)
	if kind == "" {
		return "", ""
	}
	// the attribution is searched for the first 8 failures of the same (entry point, kind); after
	// that it is taken over (the search costs several encode/decode rounds per failing case)
	ck := t.Name + "|" + kind
	if c := culpritCache[ck]; c != nil && c.n >= 8 {
		return c.sig, detail
	}
	ref, _, err := t.decode(in)
	who := "generated-struct"
	if t.Kind == "builtin" {
		who = t.Name
	}
	if err == nil {
		if name, k2, d2 := culprit(ref, 0); name != "" {
			noteCulprit(ck, "reencode/"+name+"/"+k2)
			return "reencode/" + name + "/" + k2, d2 + "; reached through " + t.Name + " with input " + fmt.Sprintf("%x", clipBytes(in)) + " (" + kind + ": " + detail + ")"
		}
	}
	noteCulprit(ck, "reencode/"+who+"/"+kind)
	return "reencode/" + who + "/" + kind, detail
}

type culpritEntry struct {
	sig string
	n   int
}

var culpritCache = map[string]*culpritEntry{}

func noteCulprit(ck, sig string) {
	c := culpritCache[ck]
	if c == nil || c.sig != sig {
		culpritCache[ck] = &culpritEntry{sig: sig, n: 1}
		return
	}
	c.n++
}

// reencodeCheck applies the oracle to one value with the given decoder; it returns (failure kind, detail).
func reencodeCheck(dec func([]byte) (reflect.Value, int, error), v reflect.Value, in []byte, svc bool) (string, string) {
	var enc []byte
	var err error
	if g := guard(func() { enc, err = ua.Encode(v.Interface()) }); g.panicked {
		return "encode-panic:" + g.pclass + "/" + g.ptop, fmt.Sprintf("%s; input %x", g.pmsg, clipBytes(in))
	}
	if err != nil {
		return "encode-error:" + errClass(err), fmt.Sprintf("%v; input %x", err, clipBytes(in))
	}
	// the reference value: a fresh first decode (Encode may have modified v)
	ref := v
	if in != nil {
		var rerr error
		if g := guard(func() { ref, _, rerr = dec(in) }); g.panicked || rerr != nil {
			return "first-decode-not-repeatable", fmt.Sprintf("input %x", clipBytes(in))
		}
	}
	wire := enc
	if svc {
		// the service type id is not part of the decoded value; put the original one back
		idn := 0
		var tid ua.ExpandedNodeID
		guard(func() { idn, _ = tid.Decode(in) })
		wire = append(append([]byte{}, in[:idn]...), enc...)
	}
	var v2 reflect.Value
	var n2 int
	if g := guard(func() { v2, n2, err = dec(wire) }); g.panicked {
		return "redecode-panic:" + g.pclass + "/" + g.ptop, fmt.Sprintf("%s; input %x reencoded %x", g.pmsg, clipBytes(in), clipBytes(enc))
	}
	if err != nil {
		return "redecode-error:" + errClass(err), fmt.Sprintf("%v; input %x reencoded %x", err, clipBytes(in), clipBytes(enc))
	}
	if d := diff(ref, v2, "", normC03, 0); d != "" {
		return "value-differs@" + diffLeaf(d), fmt.Sprintf("%s; input %x reencoded %x", d, clipBytes(in), clipBytes(enc))
	}
	if !svc {
		if n2 != len(enc) {
			return "reencoding-not-consumed", fmt.Sprintf("decoding the re-encoding consumed %d of %d bytes; input %x reencoded %x", n2, len(enc), clipBytes(in), clipBytes(enc))
		}
		// as a field of a container: followed by a sentinel
		var v3 reflect.Value
		var n3 int
		emb := append(append([]byte{}, enc...), trailer...)
		if g := guard(func() { v3, n3, err = dec(emb) }); g.panicked {
			return "embedded-redecode-panic:" + g.pclass + "/" + g.ptop, g.pmsg
		}
		if err != nil {
			return "embedded-redecode-error:" + errClass(err), fmt.Sprintf("%v; input %x reencoded %x", err, clipBytes(in), clipBytes(enc))
		}
		if n3 != len(enc) {
			return "embedded-sentinel-changed", fmt.Sprintf("in a container the re-encoded value is read as %d bytes instead of %d: the following field changes; input %x reencoded %x", n3, len(enc), clipBytes(in), clipBytes(enc))
		}
		if d := diff(ref, v3, "", normC03, 0); d != "" {
			return "embedded-value-differs@" + diffLeaf(d), d
		}
	}
	return "", ""
}

// culprit searches a decoded value for the innermost value of a built-in type (or DateTime) that
// does not survive Encode -> Decode on its own. It returns its type name and failure.
func culprit(v reflect.Value, depth int) (string, string, string) {
	if !v.IsValid() || depth > 64 {
		return "", "", ""
	}
	// children first
	switch v.Kind() {
	case reflect.Ptr, reflect.Interface:
		if v.IsNil() {
			return "", "", ""
		}
		if v.Type() == variantT {
			if n, k, d := culprit(reflect.ValueOf(v.Interface().(*ua.Variant).Value()), depth+1); n != "" {
				return n, k, d
			}
		} else if n, k, d := culprit(v.Elem(), depth+1); n != "" {
			return n, k, d
		}
	case reflect.Struct:
		if v.Type() != timeT {
			for i := 0; i < v.NumField(); i++ {
				if v.Type().Field(i).PkgPath != "" {
					continue
				}
				if n, k, d := culprit(v.Field(i), depth+1); n != "" {
					return n, k, d
				}
			}
		}
	case reflect.Slice, reflect.Array:
		if v.Type().Elem().Kind() != reflect.Uint8 {
			for i := 0; i < v.Len() && i < 64; i++ {
				if n, k, d := culprit(v.Index(i), depth+1); n != "" {
					return n, k, d
				}
			}
		}
	}
	// then the value itself, if it is a built-in
	var name string
	var typ reflect.Type
	switch {
	case v.Type() == timeT:
		name, typ = "DateTime", timeT
	case v.Kind() == reflect.Ptr:
		if _, ok := defaultSpecial(v.Type()); ok || v.Type() == reflect.TypeOf((*ua.QualifiedName)(nil)) {
			name, typ = v.Type().Elem().Name(), v.Type().Elem()
		}
	}
	if name == "" {
		return "", "", ""
	}
	dec := func(b []byte) (reflect.Value, int, error) {
		w := reflect.New(typ)
		n, err := ua.Decode(b, w.Interface())
		if typ == timeT {
			return w.Elem(), n, err
		}
		return w, n, err
	}
	val := v
	if typ == timeT && !v.CanInterface() {
		return "", "", ""
	}
	if k, d := reencodeCheck(dec, val, nil, false); k != "" {
		return name, k, d
	}
	return "", "", ""
}

// ---- unit runners -----------------------------------------------------------------------------

func (e *executor) memoHit(key string) bool { return key != "" && e.memo[key] }

func (e *executor) memoAdd(key string) {
	if key == "" || e.memo[key] {
		return
	}
	e.memo[key] = true
	if e.memoFile != nil {
		e.memoFile.WriteString(key + "\n")
	}
}

// setAddressSpace sets the soft address-space limit of the executor: the full 4 GiB for nesting
// towers (the goroutine stack grows by doubling), 192 MiB above the current size for everything else, so that an
// absurd allocation fails at once instead of page-faulting through gigabytes. Any allocation that
// can fail under 192 MiB is far beyond the C02 bound (16 MiB + 1 KiB per input byte, inputs of
// these units are shorter than 64 KiB).
func setAddressSpace(kind string) {
	// the limit counts address space, including what the Go runtime has reserved at start-up:
	// allow smallLimit on top of the current size
	lim := syscall.Rlimit{Cur: memLimit, Max: memLimit}
	if kind != "tower" {
		if b, err := os.ReadFile("/proc/self/statm"); err == nil {
			var pages uint64
			fmt.Sscanf(string(b), "%d", &pages)
			if c := pages*uint64(os.Getpagesize()) + smallLimit; c < memLimit {
				lim.Cur = c
			}
		}
	}
	syscall.Setrlimit(syscall.RLIMIT_AS, &lim)
}

func (e *executor) runUnit(ui int, skip map[int]bool) {
	u := e.plan.units[ui]
	setAddressSpace(u.Kind)
	t := e.plan.targets[u.Target]
	e.res = &unitResult{Unit: ui, Outcomes: map[string]int64{}}
	switch u.Kind {
	case "mut":
		s := e.plan.seedAt(u.Target, u.Seed)
		kinds := map[byte]bool{}
		m := -1
		unkeyed := 0
		singles(s.Bytes, func(mu mutation) {
			m++
			if skip[m] {
				return
			}
			if unkeyed > maxDeathsPerUnit {
				e.res.Abandoned++
				e.res.NotJudged++
				return
			}
			key, shape := memoKey(t.class(), s.Sites, s.Bytes, mu)
			if e.memoHit(key) {
				e.res.Skipped++
				e.res.NotJudged++
				return
			}
			in := mu.apply(s.Bytes, e.scratch)
			e.scratch = in[:0]
			e.publish(ui, m, key+"#"+shape)
			e.shape = shape
			if e.runCaseKey(t, in, key, func() string { return s.Desc + " " + mu.String() }) {
				e.memoAdd(key)
				if key == "" {
					unkeyed++
				}
			}
			kinds[mu.Kind] = true
		})
		for k := range kinds {
			e.res.NonTriv = append(e.res.NonTriv, evid.H(fmt.Sprintf("mut/%s/%d/%c", t.Name, u.Seed, k)))
		}
		if u.Seed%7 == 0 {
			e.res.Samples = append(e.res.Samples, fmt.Sprintf("%s: %d single mutations of %x", s.Desc, m+1, clipBytes(s.Bytes)))
		}
	case "pair":
		si := u.Seed
		if si < 0 {
			si = e.plan.richestSeed(u.Target)
			if si == 0 {
				break // same as the default-seed unit
			}
		}
		e.runPairs(ui, t, *e.plan.seedAt(u.Target, si), skip)
	case "exh":
		e.runExh(ui, t, u.Seed, skip)
	case "tower":
		e.runTower(ui, t, u.Seed, skip)
	case "grid":
		e.runGrid(ui, t, u.Seed, skip)
	}
}

func (e *executor) runPairs(ui int, t *dtarget, s seed, skip map[int]bool) {
	var ms []mutation
	singles(s.Bytes, func(mu mutation) {
		if mu.Kind != 't' {
			ms = append(ms, mu)
		}
	})
	keys := make([]string, len(ms))
	for i, mu := range ms {
		keys[i], _ = memoKey(t.class(), s.Sites, s.Bytes, mu)
	}
	buf := make([]byte, 0, len(s.Bytes))
	m := -1
	for i := 0; i < len(ms); i++ {
		a := ms[i]
		for j := i + 1; j < len(ms); j++ {
			b := ms[j]
			if b.Off < a.Off+a.W && a.Off < b.Off+b.W {
				continue // overlapping
			}
			m++
			if skip[m] {
				continue
			}
			if e.memoHit(keys[i]) || e.memoHit(keys[j]) {
				e.res.Skipped++
				e.res.NotJudged++
				continue
			}
			buf = append(buf[:0], s.Bytes...)
			copy(buf[a.Off:a.Off+a.W], a.New[:a.W])
			copy(buf[b.Off:b.Off+b.W], b.New[:b.W])
			key := keys[i]
			if key == "" {
				key = keys[j]
			}
			e.publish(ui, m, "")
			e.runCase(t, buf, func() string { return s.Desc + " " + a.String() + " + " + b.String() })
			// mutated value followed by a truncation behind both windows is covered by the
			// single-mutation units of the truncated seeds only in part; add the cut right after the later window
			end := b.Off + b.W
			if end < len(buf) {
				m++
				if !skip[m] {
					e.publish(ui, m, "")
					e.runCase(t, buf[:end], func() string { return s.Desc + " " + a.String() + " + " + b.String() + " + trunc@" + strconv.Itoa(end) })
				}
			}
		}
	}
	e.res.NonTriv = append(e.res.NonTriv, evid.H(fmt.Sprintf("pair/%s/%s", t.Name, s.Desc)))
	e.res.Samples = append(e.res.Samples, fmt.Sprintf("%s: %d mutation pairs of %x", s.Desc, m+1, clipBytes(s.Bytes)))
}

func (e *executor) runExh(ui int, t *dtarget, fb int, skip map[int]bool) {
	L := e.plan.L
	m := -1
	run := func(in []byte) {
		m++
		if skip[m] {
			return
		}
		e.publish(ui, m, "")
		e.runCase(t, in, func() string { return fmt.Sprintf("all byte strings up to length %d", L) })
	}
	if fb == 256 {
		run([]byte{})
		e.res.NonTriv = append(e.res.NonTriv, evid.H("exh/"+t.Name+"/empty"))
		return
	}
	buf := make([]byte, L)
	buf[0] = byte(fb)
	var rec func(n int)
	rec = func(n int) {
		run(buf[:n])
		if n == L {
			return
		}
		for b := 0; b < 256; b++ {
			buf[n] = byte(b)
			rec(n + 1)
		}
	}
	rec(1)
	e.res.NonTriv = append(e.res.NonTriv, evid.H(fmt.Sprintf("exh/%s/%d", t.Name, fb)))
}

// tower builds a nesting tower of the given kind and depth in O(size).
func tower(kind, depth int) []byte {
	switch kind {
	case 0: // Variant scalar of type Variant: mask 0x18 per level, innermost a null variant
		b := bytes.Repeat([]byte{0x18}, depth)
		return append(b, 0x00)
	case 1: // Variant array[1] of Variant
		b := bytes.Repeat([]byte{0x98, 1, 0, 0, 0}, depth)
		return append(b, 0x00)
	case 2: // DiagnosticInfo with inner diagnostic info
		b := bytes.Repeat([]byte{0x40}, depth)
		return append(b, 0x00)
	case 3: // Variant(DataValue(Variant(...)))
		b := bytes.Repeat([]byte{0x17, 0x01}, depth)
		return append(b, 0x00)
	case 5: // DataValue(Variant array[1] of DataValue ...)
		b := bytes.Repeat([]byte{0x01, 0x97, 1, 0, 0, 0}, depth)
		return append(b, 0x00)
	case 4:
		// Variant(ExtensionObject(KeyValuePair{Key, Value: Variant(ExtensionObject(...))}))
		// level = 0x16 | typeid(4) | 0x01 | len(4) | key(2+4) | <inner variant>
		// KeyValuePair binary encoding id is looked up through the registry
		id := ua.ExtensionObjectTypeID(&ua.KeyValuePair{})
		tid, _ := id.Encode()
		head := 1 + len(tid) + 1 + 4
		keyLen := 2 + 4
		size := make([]int, depth+1) // size[k] = size of a variant tower of k levels
		size[0] = 1
		for k := 1; k <= depth; k++ {
			size[k] = head + keyLen + size[k-1]
		}
		b := make([]byte, 0, size[depth])
		for k := depth; k >= 1; k-- {
			b = append(b, 0x16)
			b = append(b, tid...)
			b = append(b, 0x01)
			var l [4]byte
			binary.LittleEndian.PutUint32(l[:], uint32(keyLen+size[k-1]))
			b = append(b, l[:]...)
			b = append(b, 0, 0, 0xff, 0xff, 0xff, 0xff) // QualifiedName{0, null}
		}
		return append(b, 0x00)
	}
	return nil
}

func (e *executor) runTower(ui int, t *dtarget, kind int, skip map[int]bool) {
	for m, d := range towerDepths(e.plan.tier == "thorough") {
		if skip[m] {
			continue
		}
		in := tower(kind, d)
		e.publish(ui, m, "")
		e.towerKind, e.towerDepth = strconv.Itoa(kind), d
		e.runCase(t, in, func() string { return fmt.Sprintf("tower %s depth %d", towerKinds[kind], d) })
		e.towerKind, e.towerDepth = "", 0
		e.res.NonTriv = append(e.res.NonTriv, evid.H(fmt.Sprintf("tower/%d/%d", kind, d)))
	}
	e.res.Samples = append(e.res.Samples, fmt.Sprintf("tower %s depths 1..%d", towerKinds[kind], towerDepths(e.plan.tier == "thorough")[len(towerDepths(e.plan.tier == "thorough"))-1]))
}

// ---- Variant grid: structured attack on array length / dimensions -------------------------------

const gridChunks = 16

var gridTypes = []byte{0x01, 0x03, 0x06, 0x0c, 0x0f, 0x11, 0x15, 0x16, 0x17, 0x18, 0x19} // Boolean Byte Int32 String ByteString NodeId LocalizedText ExtObj DataValue Variant DiagInfo
var gridLens = []int32{-2147483648, -65536, -2, -1, 0, 1, 2, 3, 4, 6, 0xffff, 0x10000, 0x7fffffff}
var gridDimCounts = []int32{-2147483648, -1, 0, 1, 2, 3, 4, 0x10000, 0x7fffffff}
var gridDimsSmall = []int32{-1, 0, 1, 2, 3}
var gridDimsBig = []int32{-1, 0, 1, 2, 3, 0x8000, 0x10000, 0x7fffffff}

// modInverse32 of an odd number modulo 2^32.
func modInverse32(a uint32) uint32 {
	x := a
	for i := 0; i < 5; i++ {
		x *= 2 - a*x
	}
	return x
}

func (e *executor) runGrid(ui int, t *dtarget, chunk int, skip map[int]bool) {
	m := -1
	idx := -1
	var buf []byte
	pass := 0
	emit := func(typ byte, flags byte, n int32, elems int, nd int32, dims []int32) {
		// pass 0: the inputs with plausible lengths; pass 1: the attacks on lengths and dimensions
		// (on a tree where these kill the process the unit is cut short after a few deaths)
		big := n > 0xffff || n < -1 || nd > 4 || nd < 0
		for _, d := range dims {
			if d > 3 || d < 0 {
				big = true
			}
		}
		if big != (pass == 1) {
			return
		}
		idx++
		if idx%gridChunks != chunk {
			return
		}
		m++
		if skip[m] {
			return
		}
		buf = buf[:0]
		buf = append(buf, typ|flags)
		var w [4]byte
		if flags&0x80 != 0 {
			binary.LittleEndian.PutUint32(w[:], uint32(n))
			buf = append(buf, w[:]...)
		}
		for i := 0; i < elems; i++ {
			buf = append(buf, gridElem(typ, i)...)
		}
		if flags&0x40 != 0 {
			binary.LittleEndian.PutUint32(w[:], uint32(nd))
			buf = append(buf, w[:]...)
			for _, d := range dims {
				binary.LittleEndian.PutUint32(w[:], uint32(d))
				buf = append(buf, w[:]...)
			}
		}
		e.publish(ui, m, "")
		e.runCase(t, buf, func() string {
			return fmt.Sprintf("variant grid type=%d flags=%#x arrayLength=%d elements=%d dimensions=%d %v", typ, flags, n, elems, nd, dims)
		})
	}
	for pass = 0; pass < 2; pass++ {
		for _, typ := range gridTypes {
			for _, n := range gridLens {
				present := []int{0}
				if n > 0 && n <= 6 {
					present = []int{int(n), int(n) - 1}
				}
				for _, el := range present {
					// array without dimensions
					emit(typ, 0x80, n, el, 0, nil)
					// scalar with the dimensions bit
					if n == 0 {
						emit(typ, 0x40, 0, 1, 0, nil)
					}
					for _, nd := range gridDimCounts {
						switch {
						case nd <= 0 || nd > 4:
							emit(typ, 0xc0, n, el, nd, nil)
							emit(typ, 0xc0, n, el, nd, []int32{1, 1})
						default:
							// every dims vector of that length over gridDims, plus the modular solutions
							vec := make([]int32, nd)
							var rec func(i int)
							rec = func(i int) {
								if i == int(nd) {
									emit(typ, 0xc0, n, el, nd, append([]int32(nil), vec...))
									return
								}
								// the dimension arithmetic does not depend on the element type: the large
								// dimensions are combined with two element types only
								ds := gridDimsSmall
								if typ == 0x01 || typ == 0x18 {
									ds = gridDimsBig
								}
								for _, d := range ds {
									vec[i] = d
									rec(i + 1)
								}
							}
							if nd == 3 {
								// the 64-bit product of the dimensions wraps around to 0
								emit(typ, 0xc0, n, el, nd, []int32{1 << 22, 1 << 21, 1 << 21})
							}
							if nd == 4 {
								emit(typ, 0xc0, n, el, nd, []int32{0x10000, 0x10000, 0x10000, 0x10000})
								emit(typ, 0xc0, n, el, nd, []int32{1 << 30, 1 << 30, 4, 4})
							}
							if nd <= 3 {
								rec(0)
							} else {
								emit(typ, 0xc0, n, el, nd, []int32{2, 1, 1, 2})
								emit(typ, 0xc0, n, el, nd, []int32{0x10000, 0x10000, 1, 1})
							}
							if nd >= 2 && (typ == 0x01 || typ == 0x18 || typ == 0x06) {
								// d1 odd, d2 = n * d1^-1 (mod 2^32): the product wraps around to n
								for _, d1 := range []uint32{3, 5, 0x10001, 0x7fffffff} {
									d2 := uint32(n) * modInverse32(d1)
									dv := []int32{int32(d1), int32(d2)}
									for len(dv) < int(nd) {
										dv = append(dv, 1)
									}
									emit(typ, 0xc0, n, el, nd, dv)
								}
							}
						}
					}
				}
			}
		}
	}
	e.res.NonTriv = append(e.res.NonTriv, evid.H(fmt.Sprintf("grid/%d", chunk)))
	if chunk == 0 {
		e.res.Samples = append(e.res.Samples, fmt.Sprintf("variant grid: %d inputs (type x arrayLength x element count x dimension count x dimension vectors)", idx+1))
	}
}

func gridElem(typ byte, i int) []byte {
	switch typ {
	case 0x01, 0x03:
		return []byte{byte(i + 1)}
	case 0x06:
		return []byte{byte(i + 1), 0, 0, 0}
	case 0x0c, 0x0f:
		return []byte{1, 0, 0, 0, byte('a' + i)}
	case 0x11:
		return []byte{0x00, byte(i + 1)}
	case 0x15:
		return []byte{0x02, 1, 0, 0, 0, byte('a' + i)}
	case 0x16:
		return []byte{0x00, byte(i + 1), 0x00}
	case 0x17:
		return []byte{0x02, byte(i + 1), 0, 0, 0}
	case 0x18:
		return []byte{0x03, byte(i + 1)}
	case 0x19:
		return []byte{0x01, byte(i + 1), 0, 0, 0}
	}
	return nil
}

// ---- executor process -------------------------------------------------------------------------

func executorMain(prop string) {
	start, _ := strconv.Atoi(os.Getenv("VERIF_CODEC_START")) // index into this shard's unit list
	skip := map[int]bool{}
	skipList, _ := os.ReadFile(os.Getenv("VERIF_CODEC_SKIPFILE"))
	for _, s := range strings.Split(string(skipList), ",") {
		if s != "" {
			n, _ := strconv.Atoi(s)
			skip[n] = true
		}
	}
	p := makePlan(discover(idsFromEnv()), evid.Thorough())
	ub, err := os.ReadFile(os.Getenv("VERIF_CODEC_UNITS"))
	if err != nil {
		fmt.Fprintf(os.Stderr, "executor: %v\n", err)
		os.Exit(2)
	}
	if err := json.Unmarshal(ub, &p.units); err != nil {
		fmt.Fprintf(os.Stderr, "executor: %v\n", err)
		os.Exit(2)
	}
	e := &executor{prop: prop, plan: p, memo: map[string]bool{}, topCache: map[string]string{}, sample: []metrics.Sample{{Name: "/gc/heap/allocs:bytes"}}}
	if pf := os.Getenv("VERIF_CODEC_PUB"); pf != "" {
		if f, err := os.OpenFile(pf, os.O_RDWR, 0); err == nil {
			e.pub, _ = syscall.Mmap(int(f.Fd()), 0, 4096, syscall.PROT_READ|syscall.PROT_WRITE, syscall.MAP_SHARED)
		}
	}
	if mf := os.Getenv("VERIF_CODEC_MEMO"); mf != "" {
		if b, err := os.ReadFile(mf); err == nil {
			for _, l := range strings.Split(string(b), "\n") {
				if l != "" {
					e.memo[l] = true
				}
			}
		}
		e.memoFile, _ = os.OpenFile(mf, os.O_WRONLY|os.O_APPEND|os.O_CREATE, 0o644)
	}
	// watchdog: a case that has consumed more than watchdogCPU of processor time (normal cost:
	// microseconds), or has not returned after watchdogWall. CPU time, so that an overloaded
	// machine cannot turn a slow case into a "hang".
	go func() {
		var lastSeq int64 = -1
		var cpu0 time.Duration
		for {
			time.Sleep(500 * time.Millisecond)
			seq := e.caseSeq.Load()
			if seq != lastSeq {
				lastSeq, cpu0 = seq, cpuTime()
				continue
			}
			st := e.caseStart.Load()
			if st == 0 {
				continue
			}
			if c := cpuTime() - cpu0; c > watchdogCPU {
				fmt.Fprintf(os.Stderr, "\nVERIF-WATCHDOG: case has used %v of CPU time\n", c)
				os.Exit(97)
			}
			if time.Since(time.Unix(0, st)) > watchdogWall {
				fmt.Fprintf(os.Stderr, "\nVERIF-WATCHDOG: case still running after %v\n", watchdogWall)
				os.Exit(97)
			}
		}
	}()
	runtime.GC()
	runtime.GC()
	e.lastProf = snapshotProfile()
	out := bufio.NewWriter(os.Stdout)
	e.out = out
	enc := json.NewEncoder(out)
	for k := start; k < len(p.units); k++ {
		sk := map[int]bool(nil)
		if k == start {
			sk = skip
		}
		e.runUnit(k, sk)
		enc.Encode(e.res)
		out.Flush()
		if p.units[k].Kind == "tower" {
			os.Exit(0)
		}
	}
	os.Exit(0)
}

func idsFromEnv() []uint16 {
	s := os.Getenv("VERIF_CODEC_IDS")
	if s == "" {
		return nil
	}
	var ids []uint16
	for _, x := range strings.Split(s, ",") {
		n, _ := strconv.Atoi(x)
		ids = append(ids, uint16(n))
	}
	return ids
}

// ---- supervisor (runs inside the evid.Sharded child) -------------------------------------------

var repoFrameRe = regexp.MustCompile(`github\.com/gopcua/opcua/([A-Za-z0-9_/.()*]+)\(`)

// deathClass turns the stderr of a dead executor into (failure kind, top in-repo function).
func deathClass(stderr string, exitErr string) (kind, top string) {
	kind = "crash"
	switch {
	case strings.Contains(stderr, "VERIF-WATCHDOG"):
		return "hang", "?"
	case strings.Contains(stderr, "out of memory") || strings.Contains(stderr, "cannot allocate"):
		kind = "alloc"
	case strings.Contains(stderr, "stack overflow") || strings.Contains(stderr, "stack exceeds"):
		kind = "stack-overflow"
	case strings.Contains(exitErr, "killed"):
		kind = "killed"
	}
	// the goroutine that was running: frames after "goroutine N ... [running]" up to the next blank line
	i := strings.Index(stderr, "[running]")
	if i < 0 {
		i = 0
	}
	trace := stderr[i:]
	if j := strings.Index(trace, "\n\n"); j > 0 {
		trace = trace[:j]
	}
	ms := repoFrameRe.FindAllStringSubmatch(trace, -1)
	if len(ms) == 0 {
		return kind, "?"
	}
	if kind == "stack-overflow" {
		// the frame at which the limit is hit is arbitrary within the recursion cycle: name the cycle
		set := map[string]bool{}
		for _, m := range ms {
			set[m[1]] = true
		}
		var names []string
		for n := range set {
			names = append(names, n)
		}
		sort.Strings(names)
		return kind, strings.Join(names, "+")
	}
	return kind, ms[0][1]
}

var logStart = time.Now()

func logf(format string, a ...interface{}) {
	lf := os.Getenv("VERIF_CODEC_LOG")
	if lf == "" {
		return
	}
	if f, err := os.OpenFile(lf, os.O_WRONLY|os.O_APPEND|os.O_CREATE, 0o644); err == nil {
		fmt.Fprintf(f, "%7.1fs "+format+"\n", append([]interface{}{time.Since(logStart).Seconds()}, a...)...)
		f.Close()
	}
}

type headWriter struct {
	b   bytes.Buffer
	max int
}

func (h *headWriter) Write(p []byte) (int, error) {
	if room := h.max - h.b.Len(); room > 0 {
		if len(p) > room {
			h.b.Write(p[:room])
		} else {
			h.b.Write(p)
		}
	}
	return len(p), nil
}

func superviseShard(prop string, s evid.ShardInfo, w *evid.Run, p *plan, assign []int) {
	var mine []int
	for i, sh := range assign {
		if sh == s.Index {
			mine = append(mine, i)
		}
	}
	// order of execution inside a shard: default seeds first, then the small complete spaces, then
	// the other seeds (in seed order per entry point), then pairs
	prio := func(u unit) int {
		bi := p.targets[u.Target].Kind == "builtin"
		switch {
		case u.Kind == "mut" && u.Seed == 0 && bi:
			return 0
		case u.Kind == "mut" && u.Seed == 0:
			return 2
		case u.Kind == "mut" && bi:
			return 3
		case u.Kind == "mut":
			return 4
		case u.Kind == "pair":
			return 5
		}
		return 1 // exh, grid, tower
	}
	sort.SliceStable(mine, func(a, b int) bool { return prio(p.units[mine[a]]) < prio(p.units[mine[b]]) })
	// Every input that kills the decoding process or allocates beyond the bound costs a process
	// start (or hundreds of megabytes of page faults). Each priority class has a budget of such
	// inputs per shard; when it is used up the remaining units of the class are reported as not
	// run. On a tree without such inputs nothing is cut.
	budgets := []int{12, 32, 8, 12, 8, 8}
	if p.thorough {
		budgets = []int{24, 64, 16, 24, 16, 16}
	}
	if x, _ := strconv.Atoi(os.Getenv("VERIF_CODEC_BUDGET_X")); x > 1 { // exploration aid: larger budgets
		for i := range budgets {
			budgets[i] *= x
		}
	}
	classNames := []string{"default seeds of built-ins", "exhaustive/grid/tower units", "default seeds of generated types", "other seeds of built-ins", "other seeds of generated types", "pairs"}
	fails, curClass, curKey := 0, -1, -1
	dir, err := os.MkdirTemp(evid.Scratch(), "codec-")
	if err != nil {
		evid.EngineError(prop, "scratch: %v", err)
	}
	defer os.RemoveAll(dir)
	pubPath := filepath.Join(dir, "pub")
	memoPath := filepath.Join(dir, "memo")
	f, _ := os.Create(pubPath)
	f.Truncate(4096)
	pub, _ := syscall.Mmap(int(f.Fd()), 0, 4096, syscall.PROT_READ|syscall.PROT_WRITE, syscall.MAP_SHARED)
	f.Close()
	os.WriteFile(memoPath, nil, 0o644)
	skipPath := filepath.Join(dir, "skip")
	unitsPath := filepath.Join(dir, "units.json")
	myUnits := make([]unit, len(mine))
	for k, i := range mine {
		myUnits[k] = p.units[i]
	}
	ub, _ := json.Marshal(myUnits)
	os.WriteFile(unitsPath, ub, 0o644)
	outcomes := map[string]int64{}
	judged := map[int]bool{} // cases of the current unit already accounted for (violation reported or executor killed)
	start := 0
	skip := []string{}
	deaths, unitDeaths := 0, 0
	var samples int
	for start < len(mine) {
		// the budget is per class and shard; for the built-ins (classes 0 and 3) it is per entry
		// point, so that a failing built-in cannot use up the budget of the others
		bkey := func(u unit) int {
			c := prio(u)
			if c == 0 || c == 3 {
				return c*100000 + u.Target
			}
			return c * 100000
		}
		if k := bkey(myUnits[start]); k != curKey {
			curKey, curClass, fails = k, prio(myUnits[start]), 0
		}
		if fails > budgets[curClass] {
			// skip the remaining units of this class (of this entry point)
			var cases int64
			nskip := 0
			for start < len(mine) && bkey(myUnits[start]) == curKey {
				u := myUnits[start]
				switch u.Kind {
				case "mut":
					cases += int64(countSingles(p.seedAt(u.Target, u.Seed).Bytes))
				case "exh":
					cases += exhCount(p.L)
				}
				nskip++
				start++
			}
			w.NotJudged(cases)
			outcomes["not-run:class-over-failure-budget"] += cases
			w.Capped(fmt.Sprintf("shard %d: %q stopped after %d inputs that killed the decoding process or allocated beyond the bound: %d units (at least %d inputs) not run",
				s.Index, classNames[curClass], fails, nskip, cases))
			skip = skip[:0]
			judged = map[int]bool{}
			unitDeaths = 0
			continue
		}
		binary.LittleEndian.PutUint32(pub[0:], 0xffffffff)
		os.WriteFile(skipPath, []byte(strings.Join(skip, ",")), 0o644)
		cmd := exec.Command("/proc/self/exe", os.Args[1:]...) // survives a rebuild of the binary by another run
		cmd.Env = append(os.Environ(), "VERIF_CODEC_EXEC=1", "VERIF_CODEC_UNITS="+unitsPath,
			"VERIF_CODEC_START="+strconv.Itoa(start), "VERIF_CODEC_SKIPFILE="+skipPath, "VERIF_CODEC_PUB="+pubPath, "VERIF_CODEC_MEMO="+memoPath, "GOMAXPROCS=2")
		hw := &headWriter{max: 24 << 10}
		cmd.Stderr = hw
		stdout, _ := cmd.StdoutPipe()
		if err := cmd.Start(); err != nil {
			evid.EngineError(prop, "start executor: %v", err)
		}
		rd := bufio.NewReaderSize(stdout, 1<<20)
		for {
			line, err := rd.ReadBytes('\n')
			if len(line) > 1 && bytes.HasPrefix(line, []byte(`{"v":true`)) {
				var vm violationMsg
				if jerr := json.Unmarshal(line, &vm); jerr != nil {
					evid.EngineError(prop, "executor output: %v: %s", jerr, clip(string(line)))
				}
				if vm.Unit != start {
					evid.EngineError(prop, "executor reported a violation in unit %d, expected %d", vm.Unit, start)
				}
				if vm.Sig == "" { // a case with an excessive allocation that is not a violation of this property
					if !judged[vm.M] {
						judged[vm.M] = true
						w.Eval("")
						fails++
						skip = append(skip, strconv.Itoa(vm.M))
					}
					continue
				}
				w.Violate(vm.Sig, vm.Detail, vm.Replay)
				if !judged[vm.M] && strings.Contains(vm.Sig, "/alloc/") {
					fails++
				}
				if !judged[vm.M] {
					judged[vm.M] = true
					w.Eval("")
					outcomes["violation"]++
					skip = append(skip, strconv.Itoa(vm.M))
				}
			} else if len(line) > 1 {
				var ur unitResult
				if jerr := json.Unmarshal(line, &ur); jerr != nil {
					evid.EngineError(prop, "executor output: %v: %s", jerr, clip(string(line)))
				}
				if ur.Unit != start {
					evid.EngineError(prop, "executor reported unit %d, expected %d", ur.Unit, start)
				}
				mergeUnit(w, &ur, &samples, outcomes)
				logf("shard %d unit %d/%d done (%s %s seed %d): evals %d skipped %d", s.Index, start, len(mine), myUnits[start].Kind, p.targets[myUnits[start].Target].Name, myUnits[start].Seed, ur.Evals, ur.Skipped)
				unitDeaths = 0
				start++
				skip = skip[:0]
				judged = map[int]bool{}
			}
			if err != nil {
				break
			}
		}
		io.Copy(io.Discard, stdout)
		werr := cmd.Wait()
		if werr == nil && start >= len(mine) {
			break
		}
		if werr == nil {
			continue // the executor retires after a tower unit (its address space has grown); start a fresh one
		}
		// death: attribute it to the published case
		ui := int(binary.LittleEndian.Uint32(pub[0:]))
		m := int(binary.LittleEndian.Uint32(pub[4:]))
		kl := int(binary.LittleEndian.Uint32(pub[8:]))
		key, shape := "", ""
		if kl > 0 && kl <= 400 {
			key = string(pub[12 : 12+kl])
			if i := strings.LastIndex(key, "#"); i >= 0 {
				key, shape = key[:i], key[i+1:]
			}
		}
		stderr := hw.b.String()
		if uint32(ui) == 0xffffffff || ui != start {
			evid.EngineError(prop, "executor died outside a case (%v), published unit %d, expected %d: %s", werr, ui, start, firstLines(stderr, 8))
		}
		deaths++
		fails++
		unitDeaths++
		kind, top := deathClass(stderr, werr.Error())
		if m == probeMarker {
			// the probe for length fields killed the executor: run this unit without probing
			skip = append(skip, strconv.Itoa(probeMarker))
			outcomes["site-probe-died"]++
			logf("shard %d unit %d: site probe died (%s %s)", s.Index, ui, kind, top)
			continue
		}
		if unitDeaths > maxDeathsPerUnit {
			u := myUnits[ui]
			w.Capped(fmt.Sprintf("%s unit of %s (seed %d) abandoned after %d process deaths", u.Kind, p.targets[u.Target].Name, u.Seed, maxDeathsPerUnit))
			start++
			skip = skip[:0]
			judged = map[int]bool{}
			unitDeaths = 0
			continue
		}
		logf("shard %d death #%d unit %d case %d key %q kind %s top %s err %v\n%s", s.Index, deaths, ui, m, key, kind, top, werr, firstLines(stderr, 4))
		u := myUnits[ui]
		t := p.targets[u.Target]
		in, desc := reconstructCase(p, u, m)
		if in == nil {
			if n := int(binary.LittleEndian.Uint32(pub[512:])); n <= 3000 {
				in = append([]byte{}, pub[516:516+n]...)
			}
		}
		if prop == "C02" {
			sig := "decode/" + kind + "/" + top
			if kind == "alloc" {
				sig = "decode/alloc" + shapeSuffix(shape)
			}
			w.Violate(sig, fmt.Sprintf("the decoding process died (%v); entry point %s; input %x (%s)\n%s", werr, t.Name, clipBytes(in), desc, firstLines(stderr, 14)),
				caseReplay{Target: t.Name, Kind: t.Kind, Hex: hex.EncodeToString(clipReplay(in)), Desc: desc})
			outcomes["process-death:"+kind]++
		} else if key == "@reencode" {
			w.Violate("reencode/process-death:"+kind+"/"+top, fmt.Sprintf("entry point "+t.Name+": the process died (%v) while re-encoding or re-decoding the value decoded from %x (%s)\n%s", werr, clipBytes(in), desc, firstLines(stderr, 14)),
				caseReplay{Target: t.Name, Kind: t.Kind, Hex: hex.EncodeToString(clipReplay(in)), Desc: desc})
			outcomes["process-death-in-reencode:"+kind]++
			key = ""
		} else {
			// C03 quantifies over inputs that decode successfully; a decoder death is C02's finding
			w.NotJudged(1)
			outcomes["decoder-died(C02)"]++
		}
		w.Eval("")
		judged[m] = true
		if key != "" {
			mf, _ := os.OpenFile(memoPath, os.O_WRONLY|os.O_APPEND, 0o644)
			mf.WriteString(key + "\n")
			mf.Close()
		}
		skip = append(skip, strconv.Itoa(m))
		if deaths > 200000 {
			evid.EngineError(prop, "more than 200000 executor deaths in shard %d", s.Index)
		}
	}
	for k := range outcomes {
		w.Outcome(k) // presence; exact counts below (evid has no add-n call)
	}
	w.Set(fmt.Sprintf("shard%02d_outcome_counts", s.Index), outcomes)
	w.Set(fmt.Sprintf("shard%02d_executor_deaths", s.Index), deaths)
}

func clipReplay(b []byte) []byte {
	if len(b) > 1<<16 {
		return b[:1<<16]
	}
	return b
}

func firstLines(s string, n int) string {
	l := strings.SplitN(s, "\n", n+1)
	if len(l) > n {
		l = l[:n]
	}
	return strings.Join(l, "\n")
}

func mergeUnit(w *evid.Run, ur *unitResult, samples *int, outcomes map[string]int64) {
	w.EvalN(ur.Evals + ur.Skipped)
	if ur.Abandoned > 0 {
		w.Capped(fmt.Sprintf("a mutation unit was cut short after %d allocation failures outside known length fields", maxDeathsPerUnit))
		outcomes["abandoned:unit-over-failure-budget"] += ur.Abandoned
	}
	for _, h := range ur.NonTriv {
		w.DistinctHash(h)
	}
	for k, n := range ur.Outcomes {
		outcomes[k] += n
	}
	if ur.Skipped > 0 {
		outcomes["skipped:repeat-of-recorded-allocation-failure"] += ur.Skipped
	}
	w.NotJudged(ur.NotJudged)
	for _, s := range ur.Samples {
		if *samples < 8 {
			w.Sample(s)
			*samples++
		}
	}
}

// reconstructCase rebuilds the input of case m of a unit (for the report of a death).
func reconstructCase(p *plan, u unit, m int) ([]byte, string) {
	t := p.targets[u.Target]
	switch u.Kind {
	case "mut":
		s := p.seedAt(u.Target, u.Seed)
		i := -1
		var in []byte
		var desc string
		singles(s.Bytes, func(mu mutation) {
			i++
			if i == m {
				in = append([]byte{}, mu.apply(s.Bytes, nil)...)
				desc = s.Desc + " " + mu.String()
			}
		})
		return in, desc
	case "tower":
		d := towerDepths(p.tier == "thorough")
		if m < len(d) {
			return tower(u.Seed, d[m]), fmt.Sprintf("tower %s depth %d", towerKinds[u.Seed], d[m])
		}
	}
	return nil, fmt.Sprintf("%s unit of %s, case %d ", u.Kind, t.Name, m)
}

// ---- entry ------------------------------------------------------------------------------------

func runC02(prop string) {
	c03 = prop == "C03"
	if os.Getenv("VERIF_CODEC_EXEC") != "" {
		executorMain(prop)
		return
	}
	r := evid.New(prop)
	var rc caseReplay
	if evid.ReplayInput(&rc) {
		replayC02(prop, rc)
		return
	}
	thorough := evid.Thorough()
	var ts []*target
	if os.Getenv("VERIF_SHARD") == "" {
		ts = discover(nil)
		var ids []string
		seen := map[uint16]bool{}
		for _, t := range ts {
			if t.Kind != "builtin" && !seen[t.ID] {
				seen[t.ID] = true
				ids = append(ids, strconv.Itoa(int(t.ID)))
			}
		}
		os.Setenv("VERIF_CODEC_IDS", strings.Join(ids, ","))
	} else {
		ts = discover(idsFromEnv())
	}
	p := makePlan(ts, thorough)
	p.buildUnits()
	if only := os.Getenv("VERIF_CODEC_ONLY"); only != "" { // debugging aid: restrict to some entry points
		var keep []unit
		for _, u := range p.units {
			if strings.Contains(","+only+",", ","+p.targets[u.Target].Name+",") {
				keep = append(keep, u)
			}
		}
		p.units = keep
		r.Capped("VERIF_CODEC_ONLY=" + only)
	}
	n := evid.Workers()
	assign := p.shardOf(n)
	if os.Getenv("VERIF_SHARD") == "" {
		var nseed, npair int
		for _, u := range p.units {
			switch u.Kind {
			case "mut":
				nseed++
			case "pair":
				npair++
			}
		}
		scope := "every generated type: its default value and its all-positions-deviated value; every built-in: all values with at most one deviation"
		if thorough {
			scope = "every type: all values with at most one deviation"
		}
		what := "decode returns a value or an error; no panic; the process survives; bytes allocated <= 1024*len(input)+16 MiB (runtime/metrics /gc/heap/allocs:bytes delta); no case uses more than 60 s of CPU time (watchdog; normal cost is microseconds)"
		if prop == "C03" {
			what = "for every input that decodes without error: Encode of the decoded value neither panics nor fails; decoding the re-encoding (alone, and followed by other data as inside a container) yields an equal value and consumes exactly the re-encoding"
		}
		r.Rule(fmt.Sprintf("inputs = for each of %d decode entry points (discovered services and extension objects, built-ins, ua.DecodeService): (a) the complete single-mutation neighbourhood "+
			"(every truncation, every single-byte substitution from a 12-byte alphabet, every 4-byte window replaced by 8 int32 edge values and by its own value +-1) of %d seed encodings (%s); "+
			"(b) all byte strings of length <= %d into each of the 10 hand-written decoders; (c) %d nesting-tower shapes at depths 1..%d in powers of two; (d) a Variant grid over type x arrayLength x present elements x dimension count x dimension vectors incl. products that wrap modulo 2^32"+
			"%s. Oracle: %s. distinct_nontrivial counts distinct (entry point, seed, mutation kind) neighbourhoods, exhaustive (entry point, first byte) blocks, towers and grid chunks that were executed completely; all inputs inside one are pairwise distinct by construction",
			len(p.targets), nseed, scope, p.L, len(towerKinds), towerDepths(thorough)[len(towerDepths(thorough))-1],
			map[bool]string{true: fmt.Sprintf("; (e) all pairs of non-overlapping substitutions/windows on the default and the richest seed (<= %d bytes) of every built-in (%d pair units)", pairMaxLen, npair), false: ""}[thorough], what))
		r.Set("seeds", nseed)
		r.Set("units", len(p.units))
		r.Set("L", p.L)
	}
	deaths := evid.Sharded(r, memLimit, func(s evid.ShardInfo, w *evid.Run) {
		superviseShard(prop, s, w, p, assign)
	})
	for _, d := range deaths {
		evid.EngineError(prop, "shard supervisor %d died: %s %s", d.Shard, d.ExitErr, tail(d.Stderr, 800))
	}
	r.Assume("a repeated instance (same type, same length field, same replacement bytes) of an allocation failure already recorded in this run is not executed again but counted in not_judged; on a tree without such failures nothing is skipped")
	if prop == "C03" {
		r.Assume("inputs on which the decoder panics, dies or allocates beyond the C02 bound are C02's subject and are not re-encoded")
	}
	r.Finish()
}

func replayC02(prop string, rc caseReplay) {
	if os.Getenv("VERIF_CODEC_REPLAYCHILD") == "" {
		// run the case in a child under the address-space limit: it may kill the process
		cmd := exec.Command("/proc/self/exe", os.Args[1:]...)
		cmd.Env = append(os.Environ(), "VERIF_CODEC_REPLAYCHILD=1", "GOMAXPROCS=2")
		hw := &headWriter{max: 4 << 10}
		cmd.Stdout, cmd.Stderr = os.Stdout, hw
		err := cmd.Run()
		if ee, ok := err.(*exec.ExitError); ok && ee.ExitCode() == 1 {
			exit(1)
		}
		if err != nil {
			kind, top := deathClass(hw.b.String(), err.Error())
			fmt.Printf("  the process died (%v): kind=%s top=%s\n%s\n", err, kind, top, firstLines(hw.b.String(), 10))
			exit(1)
		}
		exit(0)
	}
	lim := syscall.Rlimit{Cur: memLimit, Max: memLimit}
	syscall.Setrlimit(syscall.RLIMIT_AS, &lim)
	if rc.Tower == "" {
		setAddressSpace("mut")
	}
	ts := discover(nil)
	p := makePlan(ts, false)
	for _, t := range p.targets {
		if t.Name != rc.Target || t.Kind != rc.Kind {
			continue
		}
		var in []byte
		if rc.Tower != "" {
			k, _ := strconv.Atoi(rc.Tower)
			in = tower(k, rc.Depth)
		} else {
			in, _ = hex.DecodeString(rc.Hex)
		}
		e := &executor{prop: prop, plan: p, memo: map[string]bool{}, topCache: map[string]string{}, sample: []metrics.Sample{{Name: "/gc/heap/allocs:bytes"}}}
		e.res = &unitResult{Outcomes: map[string]int64{}}
		fmt.Printf("replay %s target=%s input(%d bytes)=%x\n", rc.Desc, t.Name, len(in), clipBytes(in))
		e.runCase(t, in, func() string { return rc.Desc })
		fmt.Printf("  outcomes=%v\n", e.res.Outcomes)
		if len(e.sigSeen) > 0 {
			exit(1)
		}
		exit(0)
	}
	evid.EngineError(prop, "replay: target %s/%s not found", rc.Kind, rc.Target)
}

func debugSites(name, idx string) {
	p := makePlan(discover(nil), evid.Thorough())
	si, _ := strconv.Atoi(idx)
	for ti, t := range p.targets {
		if t.Name != name {
			continue
		}
		e := &executor{prop: "C02", plan: p, memo: map[string]bool{}, topCache: map[string]string{}, sample: []metrics.Sample{{Name: "/gc/heap/allocs:bytes"}}}
		s := p.seedAt(ti, si)
		_ = e
		fmt.Printf("%s seed %d %s\n  %x\n  sites %+v\n", name, si, s.Desc, s.Bytes, s.Sites)
	}
}
