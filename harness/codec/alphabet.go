package main

import (
	"math"
	"reflect"
	"strings"
	"time"

	"github.com/gopcua/opcua/ua"
)

// Leaf alphabets, simplest first. Index 0 is always the default (zero) value.

var (
	timeT    = reflect.TypeOf(time.Time{})
	variantT = reflect.TypeOf((*ua.Variant)(nil))
	nodeIDT  = reflect.TypeOf((*ua.NodeID)(nil))
	expIDT   = reflect.TypeOf((*ua.ExpandedNodeID)(nil))
	extObjT  = reflect.TypeOf((*ua.ExtensionObject)(nil))
	dataValT = reflect.TypeOf((*ua.DataValue)(nil))
	diagT    = reflect.TypeOf((*ua.DiagnosticInfo)(nil))
	locTextT = reflect.TypeOf((*ua.LocalizedText)(nil))
	guidT    = reflect.TypeOf((*ua.GUID)(nil))
	bytesT   = reflect.TypeOf([]byte(nil))
)

const weirdString = "é\x00;="

func timeAlphabet() []time.Time {
	return []time.Time{
		{},
		time.Unix(0, 0).UTC(), // 1970-01-01: UnixNano()==0 but not the zero time
		time.Date(2020, 1, 1, 0, 0, 0, 123456700, time.UTC),
		time.Date(2020, 1, 1, 0, 0, 0, 123456789, time.UTC),               // sub-100ns part: truncated
		time.Date(1969, 12, 31, 23, 59, 59, 999999911, time.UTC),          // negative UnixNano with sub-100ns part
		time.Date(2021, 6, 1, 12, 0, 0, 500, time.FixedZone("x", 2*3600)), // non-UTC location
		time.Unix(0, math.MaxInt64-math.MaxInt64%100).UTC(),               // upper end of the int64-ns range
		time.Unix(0, math.MinInt64-math.MinInt64%100).UTC(),               // lower end of the int64-ns range (1677)
	}
}

// scalarAlphabet returns the alphabet of a scalar kind as reflect.Values convertible to t.
func scalarAlphabet(t reflect.Type) []reflect.Value {
	conv := func(xs ...interface{}) []reflect.Value {
		out := make([]reflect.Value, len(xs))
		for i, x := range xs {
			out[i] = reflect.ValueOf(x).Convert(t)
		}
		return out
	}
	if t == timeT {
		var xs []interface{}
		for _, x := range timeAlphabet() {
			xs = append(xs, x)
		}
		return conv(xs...)
	}
	switch t.Kind() {
	case reflect.Bool:
		return conv(false, true)
	case reflect.Int8:
		return conv(int8(0), int8(1), int8(-1), int8(math.MinInt8), int8(math.MaxInt8))
	case reflect.Uint8:
		return conv(uint8(0), uint8(1), uint8(0x7f), uint8(0x80), uint8(0xff))
	case reflect.Int16:
		return conv(int16(0), int16(1), int16(-1), int16(math.MinInt16), int16(math.MaxInt16))
	case reflect.Uint16:
		return conv(uint16(0), uint16(1), uint16(255), uint16(256), uint16(0xffff))
	case reflect.Int32:
		return conv(int32(0), int32(1), int32(-1), int32(math.MinInt32), int32(math.MaxInt32))
	case reflect.Uint32:
		return conv(uint32(0), uint32(1), uint32(0xffff), uint32(0x80000000), uint32(0xffffffff))
	case reflect.Int64:
		return conv(int64(0), int64(1), int64(-1), int64(math.MinInt64), int64(math.MaxInt64))
	case reflect.Uint64:
		return conv(uint64(0), uint64(1), uint64(1)<<32, uint64(1)<<63, uint64(math.MaxUint64))
	case reflect.Float32:
		return conv(float32(0), float32(1.5), float32(math.Copysign(0, -1)), float32(math.NaN()), float32(math.Inf(1)), float32(math.Inf(-1)), math.Float32frombits(1),
			math.Float32frombits(0x7fc00001)) // a NaN with a payload
	case reflect.Float64:
		return conv(float64(0), 1.5, math.Copysign(0, -1), math.NaN(), math.Inf(1), math.Inf(-1), math.Float64frombits(1),
			math.Float64frombits(0x7ff8000000000001))
	case reflect.String:
		return conv("", "a", weirdString, strings.Repeat("x", 300))
	}
	return nil
}

func bytesAlphabet() [][]byte {
	return [][]byte{nil, {}, {0}, {1, 2, 255}}
}

func guidAlphabet() []*ua.GUID {
	return []*ua.GUID{
		{Data4: make([]byte, 8)},
		{Data1: 0x01020304, Data2: 0x0506, Data3: 0x0708, Data4: []byte{9, 10, 11, 12, 13, 14, 15, 16}},
		{Data1: 0xffffffff, Data2: 0xffff, Data3: 0xffff, Data4: []byte{255, 255, 255, 255, 255, 255, 255, 255}},
	}
}

const guidStr = "01020304-0506-0708-090A-0B0C0D0E0F10"

func nodeIDAlphabet() []func() *ua.NodeID {
	return []func() *ua.NodeID{
		func() *ua.NodeID { return ua.NewTwoByteNodeID(0) },
		func() *ua.NodeID { return ua.NewTwoByteNodeID(1) },
		func() *ua.NodeID { return ua.NewTwoByteNodeID(255) },
		func() *ua.NodeID { return ua.NewFourByteNodeID(0, 256) },
		func() *ua.NodeID { return ua.NewFourByteNodeID(1, 0) },
		func() *ua.NodeID { return ua.NewFourByteNodeID(255, 65535) },
		func() *ua.NodeID { return ua.NewNumericNodeID(0, 0) },
		func() *ua.NodeID { return ua.NewNumericNodeID(256, 65536) },
		func() *ua.NodeID { return ua.NewNumericNodeID(65535, math.MaxUint32) },
		func() *ua.NodeID { return ua.NewStringNodeID(0, "") },
		func() *ua.NodeID { return ua.NewStringNodeID(1, "a") },
		func() *ua.NodeID { return ua.NewStringNodeID(65535, weirdString) },
		func() *ua.NodeID { return ua.NewGUIDNodeID(0, "00000000-0000-0000-0000-000000000000") },
		func() *ua.NodeID { return ua.NewGUIDNodeID(2, guidStr) },
		func() *ua.NodeID { return ua.NewByteStringNodeID(0, nil) },
		func() *ua.NodeID { return ua.NewByteStringNodeID(1, []byte{}) },
		func() *ua.NodeID { return ua.NewByteStringNodeID(3, []byte{1, 2, 255}) },
	}
}

func expandedNodeIDAlphabet() []func() *ua.ExpandedNodeID {
	var out []func() *ua.ExpandedNodeID
	for _, f := range nodeIDAlphabet() {
		f := f
		out = append(out, func() *ua.ExpandedNodeID { return &ua.ExpandedNodeID{NodeID: f()} })
	}
	pick := []int{1, 3, 7, 10, 13, 16}
	nids := nodeIDAlphabet()
	for _, i := range pick {
		f := nids[i]
		out = append(out,
			func() *ua.ExpandedNodeID { return ua.NewExpandedNodeID(f(), "urn:x", 0) },
			func() *ua.ExpandedNodeID { return ua.NewExpandedNodeID(f(), "", 1) },
			func() *ua.ExpandedNodeID { return ua.NewExpandedNodeID(f(), weirdString, math.MaxUint32) },
		)
	}
	// URI flag set with an empty URI (encodes a null string)
	out = append(out, func() *ua.ExpandedNodeID {
		n := ua.NewNumericNodeID(2, 3)
		n.SetURIFlag()
		return &ua.ExpandedNodeID{NodeID: n}
	})
	return out
}

func qualifiedNameAlphabet() []func() *ua.QualifiedName {
	return []func() *ua.QualifiedName{
		func() *ua.QualifiedName { return &ua.QualifiedName{} },
		func() *ua.QualifiedName { return &ua.QualifiedName{NamespaceIndex: 1, Name: "a"} },
		func() *ua.QualifiedName { return &ua.QualifiedName{NamespaceIndex: 65535, Name: weirdString} },
	}
}

func localizedTextAlphabet() []func() *ua.LocalizedText {
	return []func() *ua.LocalizedText{
		func() *ua.LocalizedText { return &ua.LocalizedText{} },
		func() *ua.LocalizedText { return ua.NewLocalizedText("t") },
		func() *ua.LocalizedText { return ua.NewLocalizedTextWithLocale("text", "en") },
		func() *ua.LocalizedText { return &ua.LocalizedText{EncodingMask: ua.LocalizedTextLocale, Locale: "de"} },
		func() *ua.LocalizedText { return &ua.LocalizedText{EncodingMask: 3} }, // both present, both empty
	}
}

func diagnosticInfoAlphabet() []func() *ua.DiagnosticInfo {
	return []func() *ua.DiagnosticInfo{
		func() *ua.DiagnosticInfo { return &ua.DiagnosticInfo{} },
		func() *ua.DiagnosticInfo {
			return &ua.DiagnosticInfo{EncodingMask: ua.DiagnosticInfoSymbolicID, SymbolicID: 7}
		},
		func() *ua.DiagnosticInfo {
			return &ua.DiagnosticInfo{EncodingMask: 0x7f, SymbolicID: 1, NamespaceURI: 2, Locale: 3, LocalizedText: 4, AdditionalInfo: "info", InnerStatusCode: 6,
				InnerDiagnosticInfo: &ua.DiagnosticInfo{EncodingMask: ua.DiagnosticInfoInnerDiagnosticInfo | ua.DiagnosticInfoLocale, Locale: -1,
					InnerDiagnosticInfo: &ua.DiagnosticInfo{}}}
		},
	}
}

func dataValueAlphabet() []func() *ua.DataValue {
	return []func() *ua.DataValue{
		func() *ua.DataValue { return &ua.DataValue{Value: ua.MustVariant(nil)} },
		func() *ua.DataValue {
			return &ua.DataValue{EncodingMask: ua.DataValueValue, Value: ua.MustVariant(int32(5))}
		},
		func() *ua.DataValue {
			return &ua.DataValue{EncodingMask: 0x3f, Value: ua.MustVariant([]string{"a", ""}), Status: ua.StatusBad,
				SourceTimestamp: timeAlphabet()[2], SourcePicoseconds: 1, ServerTimestamp: timeAlphabet()[1], ServerPicoseconds: 65535}
		},
		func() *ua.DataValue {
			return &ua.DataValue{EncodingMask: ua.DataValueStatusCode | ua.DataValueServerTimestamp, Value: ua.MustVariant(nil), Status: 0x80000000, ServerTimestamp: timeAlphabet()[2]}
		},
	}
}

// extension object alternatives: empty, registered bodies, XML body, odd masks.
func extensionObjectAlphabet() []func() *ua.ExtensionObject {
	return []func() *ua.ExtensionObject{
		func() *ua.ExtensionObject { return &ua.ExtensionObject{TypeID: ua.NewTwoByteExpandedNodeID(0)} },
		func() *ua.ExtensionObject {
			return ua.NewExtensionObject(&ua.AnonymousIdentityToken{PolicyID: "anon"})
		},
		func() *ua.ExtensionObject {
			return ua.NewExtensionObject(&ua.UserNameIdentityToken{PolicyID: "p", UserName: "u", Password: []byte{1, 2}, EncryptionAlgorithm: "e"})
		},
		func() *ua.ExtensionObject {
			return ua.NewExtensionObject(&ua.ServerStatusDataType{StartTime: timeAlphabet()[2], BuildInfo: &ua.BuildInfo{ProductName: "x"}, ShutdownReason: &ua.LocalizedText{}})
		},
		func() *ua.ExtensionObject { // registered through the generic registry (Lookup path)
			return ua.NewExtensionObject(&ua.Argument{Name: "arg", DataType: ua.NewTwoByteNodeID(6), ValueRank: -1, Description: &ua.LocalizedText{}})
		},
		func() *ua.ExtensionObject { // empty struct body
			return ua.NewExtensionObject(&ua.Union{})
		},
		func() *ua.ExtensionObject {
			x := ua.XMLElement("<a/>")
			return &ua.ExtensionObject{TypeID: ua.NewFourByteExpandedNodeID(1, 1000), EncodingMask: ua.ExtensionObjectXML, Value: &x}
		},
		func() *ua.ExtensionObject { // empty body but a non-null type id
			return &ua.ExtensionObject{TypeID: ua.NewStringExpandedNodeID(2, "t")}
		},
		func() *ua.ExtensionObject { // mask 3: not XML, so treated as a binary body
			e := ua.NewExtensionObject(&ua.AnonymousIdentityToken{PolicyID: "m3"})
			e.EncodingMask = 3
			return e
		},
		func() *ua.ExtensionObject { // nested: the body contains an extension object and a variant
			return ua.NewExtensionObject(&ua.KeyValuePair{Key: &ua.QualifiedName{Name: "k"}, Value: ua.MustVariant(ua.NewExtensionObject(&ua.AnonymousIdentityToken{PolicyID: "in"}))})
		},
	}
}

// ---- Variant alphabet --------------------------------------------------------------------

type variantAlt struct {
	Label string
	Make  func() *ua.Variant
}

// element samples for a built-in id; each call returns fresh values; index 0 is the zero element.
func variantElems(id ua.TypeID) (reflect.Type, []func() reflect.Value) {
	fromScalars := func(t reflect.Type) (reflect.Type, []func() reflect.Value) {
		var fs []func() reflect.Value
		for _, v := range scalarAlphabet(t) {
			v := v
			fs = append(fs, func() reflect.Value { return v })
		}
		return t, fs
	}
	wrap := func(t reflect.Type, n int, f func(i int) interface{}) (reflect.Type, []func() reflect.Value) {
		var fs []func() reflect.Value
		for i := 0; i < n; i++ {
			i := i
			fs = append(fs, func() reflect.Value { return reflect.ValueOf(f(i)) })
		}
		return t, fs
	}
	switch id {
	case ua.TypeIDBoolean:
		return fromScalars(reflect.TypeOf(false))
	case ua.TypeIDSByte:
		return fromScalars(reflect.TypeOf(int8(0)))
	case ua.TypeIDByte:
		return fromScalars(reflect.TypeOf(uint8(0)))
	case ua.TypeIDInt16:
		return fromScalars(reflect.TypeOf(int16(0)))
	case ua.TypeIDUint16:
		return fromScalars(reflect.TypeOf(uint16(0)))
	case ua.TypeIDInt32:
		return fromScalars(reflect.TypeOf(int32(0)))
	case ua.TypeIDUint32:
		return fromScalars(reflect.TypeOf(uint32(0)))
	case ua.TypeIDInt64:
		return fromScalars(reflect.TypeOf(int64(0)))
	case ua.TypeIDUint64:
		return fromScalars(reflect.TypeOf(uint64(0)))
	case ua.TypeIDFloat:
		return fromScalars(reflect.TypeOf(float32(0)))
	case ua.TypeIDDouble:
		return fromScalars(reflect.TypeOf(float64(0)))
	case ua.TypeIDString:
		return fromScalars(reflect.TypeOf(""))
	case ua.TypeIDDateTime:
		return fromScalars(timeT)
	case ua.TypeIDGUID:
		return wrap(guidT, len(guidAlphabet()), func(i int) interface{} { return guidAlphabet()[i] })
	case ua.TypeIDByteString:
		return wrap(bytesT, len(bytesAlphabet()), func(i int) interface{} { return bytesAlphabet()[i] })
	case ua.TypeIDXMLElement:
		return fromScalars(reflect.TypeOf(ua.XMLElement("")))
	case ua.TypeIDNodeID:
		return wrap(nodeIDT, len(nodeIDAlphabet()), func(i int) interface{} { return nodeIDAlphabet()[i]() })
	case ua.TypeIDExpandedNodeID:
		return wrap(expIDT, len(expandedNodeIDAlphabet()), func(i int) interface{} { return expandedNodeIDAlphabet()[i]() })
	case ua.TypeIDStatusCode:
		return fromScalars(reflect.TypeOf(ua.StatusCode(0)))
	case ua.TypeIDQualifiedName:
		return wrap(reflect.TypeOf((*ua.QualifiedName)(nil)), len(qualifiedNameAlphabet()), func(i int) interface{} { return qualifiedNameAlphabet()[i]() })
	case ua.TypeIDLocalizedText:
		return wrap(locTextT, len(localizedTextAlphabet()), func(i int) interface{} { return localizedTextAlphabet()[i]() })
	case ua.TypeIDExtensionObject:
		return wrap(extObjT, len(extensionObjectAlphabet()), func(i int) interface{} { return extensionObjectAlphabet()[i]() })
	case ua.TypeIDDataValue:
		return wrap(dataValT, len(dataValueAlphabet()), func(i int) interface{} { return dataValueAlphabet()[i]() })
	case ua.TypeIDVariant:
		return wrap(variantT, 4, func(i int) interface{} {
			switch i {
			case 0:
				return ua.MustVariant(nil)
			case 1:
				return ua.MustVariant(int32(7))
			case 2:
				return ua.MustVariant([]string{"x", "y"})
			default:
				return ua.MustVariant([][]uint16{{1, 2}, {3, 4}})
			}
		})
	case ua.TypeIDDiagnosticInfo:
		return wrap(diagT, len(diagnosticInfoAlphabet()), func(i int) interface{} { return diagnosticInfoAlphabet()[i]() })
	}
	return nil, nil
}

var typeIDNames = map[ua.TypeID]string{
	1: "Boolean", 2: "SByte", 3: "Byte", 4: "Int16", 5: "UInt16", 6: "Int32", 7: "UInt32", 8: "Int64", 9: "UInt64", 10: "Float", 11: "Double",
	12: "String", 13: "DateTime", 14: "Guid", 15: "ByteString", 16: "XmlElement", 17: "NodeId", 18: "ExpandedNodeId", 19: "StatusCode",
	20: "QualifiedName", 21: "LocalizedText", 22: "ExtensionObject", 23: "DataValue", 24: "Variant", 25: "DiagnosticInfo",
}

// variantAlphabet: index 0 = null variant; then for each built-in id every scalar sample and the
// array shapes nil / empty / 1-D / 2-D / 3-D.
// alphabetMaxArrays adds the arrays of MaxVariantArrayLength elements to the alphabet. Only the round-trip check
// (C01) sets it: as seeds of the byte-mutation checks (C02, C03) values of 256 KiB would be 6 million inputs each.
var alphabetMaxArrays bool

func variantAlphabet() []variantAlt {
	out := []variantAlt{{"Null", func() *ua.Variant { return ua.MustVariant(nil) }}}
	for id := ua.TypeID(1); id <= 25; id++ {
		et, elems := variantElems(id)
		name := typeIDNames[id]
		sliceT := reflect.SliceOf(et)
		if id == ua.TypeIDByte {
			sliceT = reflect.TypeOf(ua.ByteArray(nil))
		}
		for i := range elems {
			i := i
			out = append(out, variantAlt{name + "/scalar#" + itoa(i), func() *ua.Variant { return ua.MustVariant(elems[i]().Interface()) }})
		}
		e := func(i int) reflect.Value { return elems[i%len(elems)]() }
		if id == ua.TypeIDByteString {
			// NewVariant refuses an array of byte strings of different lengths ("unbalanced"), so the
			// array shapes use elements of equal length
			e = func(i int) reflect.Value { return reflect.ValueOf([]byte{byte(i), byte(255 - i)}) }
		}
		mk1 := func(idx ...int) reflect.Value {
			s := reflect.MakeSlice(sliceT, len(idx), len(idx))
			for k, i := range idx {
				s.Index(k).Set(e(i))
			}
			return s
		}
		mkN := func(inner ...reflect.Value) reflect.Value {
			s := reflect.MakeSlice(reflect.SliceOf(inner[0].Type()), len(inner), len(inner))
			for k, v := range inner {
				s.Index(k).Set(v)
			}
			return s
		}
		out = append(out,
			variantAlt{name + "/nil-array", func() *ua.Variant { return ua.MustVariant(reflect.Zero(sliceT).Interface()) }},
			variantAlt{name + "/empty", func() *ua.Variant { return ua.MustVariant(mk1().Interface()) }},
			variantAlt{name + "/1-D[1]", func() *ua.Variant { return ua.MustVariant(mk1(1).Interface()) }},
			variantAlt{name + "/1-D[3]", func() *ua.Variant { return ua.MustVariant(mk1(0, 1, 2).Interface()) }},
			variantAlt{name + "/2-D[2x2]", func() *ua.Variant { return ua.MustVariant(mkN(mk1(0, 1), mk1(2, 3)).Interface()) }},
			variantAlt{name + "/2-D[1x1]", func() *ua.Variant { return ua.MustVariant(mkN(mk1(1)).Interface()) }},
			variantAlt{name + "/3-D[2x1x2]", func() *ua.Variant {
				return ua.MustVariant(mkN(mkN(mk1(0, 1)), mkN(mk1(2, 3))).Interface())
			}},
		)
		if alphabetMaxArrays && (id == ua.TypeIDInt32 || id == ua.TypeIDBoolean) {
			// the largest arrays a Variant may hold (MaxVariantArrayLength elements), in every shape of that size
			seq := func(n int) []int {
				idx := make([]int, n)
				for i := range idx {
					idx[i] = i
				}
				return idx
			}
			rows := func(n, m int) reflect.Value {
				in := make([]reflect.Value, n)
				for i := range in {
					in[i] = mk1(seq(m)...)
				}
				return mkN(in...)
			}
			max := ua.MaxVariantArrayLength
			out = append(out,
				variantAlt{name + "/1-D[max]", func() *ua.Variant { return ua.MustVariant(mk1(seq(max)...).Interface()) }},
				variantAlt{name + "/1-D[max-1]", func() *ua.Variant { return ua.MustVariant(mk1(seq(max - 1)...).Interface()) }},
				variantAlt{name + "/2-D[255x257=max]", func() *ua.Variant { return ua.MustVariant(rows(255, 257).Interface()) }},
				variantAlt{name + "/2-D[1xmax]", func() *ua.Variant { return ua.MustVariant(rows(1, max).Interface()) }},
				variantAlt{name + "/2-D[maxx1]", func() *ua.Variant { return ua.MustVariant(rows(max, 1).Interface()) }},
				variantAlt{name + "/3-D[15x17x257=max]", func() *ua.Variant {
					in := make([]reflect.Value, 15)
					for i := range in {
						in[i] = rows(17, 257)
					}
					return ua.MustVariant(mkN(in...).Interface())
				}},
			)
		}
	}
	return out
}

func itoa(i int) string {
	if i == 0 {
		return "0"
	}
	s := ""
	neg := i < 0
	if neg {
		i = -i
	}
	for i > 0 {
		s = string(rune('0'+i%10)) + s
		i /= 10
	}
	if neg {
		s = "-" + s
	}
	return s
}
