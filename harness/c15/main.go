// C15: asymmetric crypto is correct for all lengths and enforces key size limits.
//
// gopcua is observed through the public uapolicy.Asymmetric(...) EncryptionAlgorithm; the
// reference is engine/refcodec (block-wise RSA from the specification, Go crypto primitives only).
// Roles: the "local" side L owns key pair rsa<L>-a, the "remote" side R owns rsa<R>-b.
//
//	S = Asymmetric(policy, L.private, R.public)   what L uses to talk to R
//	V = Asymmetric(policy, R.private, L.public)   what R uses to talk to L
//
// Case kinds
//
//	construct  policy x local{nil,512,1024,2048,3072,4096,5120} x remote{same}: must fail exactly
//	           when a given key is outside [MinAsymmetricKeyLength, MaxAsymmetricKeyLength]
//	crypt      policy x allowed (L,R) x every plaintext length 0..2*PlainTextBlockSize+1:
//	           V.Decrypt(S.Encrypt(p)) = p; len = blocks*keysize; refcodec decrypts S's ciphertext;
//	           V decrypts refcodec's (by-the-book, full blocks) ciphertext
//	sign       policy x allowed (L,R) x message length {0,1,64,1000}: V verifies S's signature and
//	           refcodec's; refcodec verifies S's; every single-byte corruption of the signature
//	           (each position x XOR masks), truncation, extension, every single-byte change of the
//	           message are rejected
//	swap       policy x allowed (L,R): signature checked against another key of the same size,
//	           ciphertext decrypted with another key of the same size, roles swapped
package main

import (
	"bytes"
	"crypto/rsa"
	"fmt"
	"os"
	"strings"

	"github.com/gopcua/opcua/uapolicy"
	"verif/engine/evid"
	"verif/engine/keys"
	"verif/engine/refcodec"
)

type cse struct {
	Kind   string `json:"kind"`
	Policy string `json:"policy"`
	L      int    `json:"local_bits"`  // 0 = nil key
	R      int    `json:"remote_bits"` // 0 = nil key
	N      int    `json:"n"`           // plaintext or message length
}

type viol struct{ sig, detail string }

func pattern(n int, salt byte) []byte {
	b := make([]byte, n)
	x := uint32(salt)*2654435761 + 12345
	for i := range b {
		x = x*1664525 + 1013904223
		b[i] = byte(x >> 24)
	}
	return b
}

func rangeClass(p *refcodec.Policy, bits int) string {
	switch {
	case bits == 0:
		return "nil"
	case bits < p.MinKeyBits:
		return "below-min"
	case bits > p.MaxKeyBits:
		return "above-max"
	}
	return "in-range"
}

func priv(bits int, name string) *rsa.PrivateKey {
	if bits == 0 {
		return nil
	}
	return keys.MustLoad(bits, name).Key
}

func pub(bits int, name string) *rsa.PublicKey {
	if bits == 0 {
		return nil
	}
	return &keys.MustLoad(bits, name).Key.PublicKey
}

// pairName: probes (512, 5120) only exist as "a".
func remoteName(bits int) string {
	if bits == 512 || bits == 5120 {
		return "a"
	}
	return "b"
}

type run struct {
	w        *evid.Run
	thorough bool
}

func (x *run) construct(c cse) (out []viol) {
	p := refcodec.PolicyByName(c.Policy)
	add := func(sig, f string, a ...any) {
		out = append(out, viol{fmt.Sprintf("construct/%s/%s", p.Name, sig), fmt.Sprintf(f, a...)})
	}
	defer func() {
		if r := recover(); r != nil {
			add("panic", "%v", r)
		}
	}()
	algo, err := uapolicy.Asymmetric(p.URI, priv(c.L, "a"), pub(c.R, remoteName(c.R)))
	lc, rc := rangeClass(p, c.L), rangeClass(p, c.R)
	wantErr := lc == "below-min" || lc == "above-max" || rc == "below-min" || rc == "above-max"
	x.w.Outcome(fmt.Sprintf("construct:%s local=%s remote=%s -> err=%v", p.Name, lc, rc, err != nil))
	switch {
	case wantErr && err == nil:
		add(fmt.Sprintf("accepted-out-of-range/local=%s/remote=%s", lc, rc), "local %d bits, remote %d bits, policy allows %d..%d", c.L, c.R, p.MinKeyBits, p.MaxKeyBits)
	case !wantErr && err != nil:
		add(fmt.Sprintf("rejected-in-range/local=%s/remote=%s", lc, rc), "local %d bits, remote %d bits, policy allows %d..%d: %v", c.L, c.R, p.MinKeyBits, p.MaxKeyBits, err)
	case err == nil:
		if c.R != 0 {
			if algo.BlockSize() != c.R/8 || algo.RemoteSignatureLength() != c.R/8 {
				add("block-size", "remote %d bits: BlockSize %d RemoteSignatureLength %d", c.R, algo.BlockSize(), algo.RemoteSignatureLength())
			}
			max := p.AsymPlainBlock(pub(c.R, remoteName(c.R)))
			switch pbs := algo.PlaintextBlockSize(); {
			case pbs > max || pbs <= 0:
				add("plaintext-block-size-too-large", "remote %d bits: PlaintextBlockSize %d, the scheme carries at most %d", c.R, pbs, max)
			case pbs < max:
				x.w.Outcome(fmt.Sprintf("remark:%s plaintext block %d smaller than the scheme maximum %d (interoperable)", p.Name, pbs, max))
			}
		}
		if c.L != 0 && algo.SignatureLength() != c.L/8 {
			add("signature-length", "local %d bits: SignatureLength %d", c.L, algo.SignatureLength())
		}
		if algo.NonceLength() != p.NonceLen {
			add("nonce-length", "NonceLength %d, SecureChannelNonceLength is %d", algo.NonceLength(), p.NonceLen)
		}
	}
	return
}

func lenClass(n, pbs int) string {
	switch {
	case n == 0:
		return "empty"
	case n < pbs:
		return "partial-block"
	case n == pbs:
		return "one-full-block"
	case n%pbs == 0:
		return "full-blocks"
	}
	return "multi-block"
}

func (x *run) algos(c cse) (p *refcodec.Policy, S, V *uapolicy.EncryptionAlgorithm, err error) {
	p = refcodec.PolicyByName(c.Policy)
	if S, err = uapolicy.Asymmetric(p.URI, priv(c.L, "a"), pub(c.R, "b")); err != nil {
		return
	}
	V, err = uapolicy.Asymmetric(p.URI, priv(c.R, "b"), pub(c.L, "a"))
	return
}

func (x *run) crypt(c cse) (out []viol) {
	p, S, V, err := x.algos(c)
	pbs := 1
	add := func(sig, f string, a ...any) {
		out = append(out, viol{fmt.Sprintf("crypt/%s/%s/len=%s/rkey=%d", p.Name, sig, lenClass(c.N, pbs), c.R), fmt.Sprintf(f, a...)})
	}
	defer func() {
		if r := recover(); r != nil {
			add("panic", "%v", r)
		}
	}()
	if err != nil {
		add("construct-failed", "%v", err)
		return
	}
	pbs = S.PlaintextBlockSize()
	pt := pattern(c.N, byte(c.N))
	ct, err := S.Encrypt(pt)
	if err != nil {
		add("encrypt-error", "%d bytes: %v", c.N, err)
		return
	}
	blocks := (c.N + pbs - 1) / pbs
	if len(ct) != blocks*(c.R/8) {
		add("ciphertext-length", "%d plaintext bytes (PlaintextBlockSize %d): ciphertext %d bytes, want %d blocks x %d", c.N, pbs, len(ct), blocks, c.R/8)
	}
	if got, err := V.Decrypt(ct); err != nil || !bytes.Equal(got, pt) {
		add("gopcua-roundtrip", "%d bytes: Decrypt(Encrypt(p)) != p (err=%v, got %d bytes)", c.N, err, len(got))
	}
	if got, err := p.AsymDecrypt(priv(c.R, "b"), ct); err != nil || !bytes.Equal(got, pt) {
		add("reference-cannot-decrypt", "%d bytes: refcodec block-wise decryption of gopcua's ciphertext: err=%v, got %d bytes", c.N, err, len(got))
	}
	rct, err := p.AsymEncrypt(pub(c.R, "b"), pt)
	if err != nil {
		add("engine", "refcodec encrypt: %v", err)
		return
	}
	if got, err := V.Decrypt(rct); err != nil || !bytes.Equal(got, pt) {
		add("gopcua-cannot-decrypt-reference", "%d bytes encrypted by the book (%d byte blocks): err=%v, got %d bytes", c.N, p.AsymPlainBlock(pub(c.R, "b")), err, len(got))
	}
	return
}

var masks = []byte{0x01, 0x80, 0xff}
var masksThorough = []byte{0x01, 0x02, 0x04, 0x08, 0x10, 0x20, 0x40, 0x80, 0xff, 0x55}

func (x *run) sign(c cse) (out []viol) {
	p, S, V, err := x.algos(c)
	add := func(sig, f string, a ...any) {
		out = append(out, viol{fmt.Sprintf("sign/%s/%s/lkey=%d", p.Name, sig, c.L), fmt.Sprintf(f, a...)})
	}
	defer func() {
		if r := recover(); r != nil {
			add("panic", "%v", r)
		}
	}()
	if err != nil {
		add("construct-failed", "%v", err)
		return
	}
	msg := pattern(c.N, 7)
	sig, err := S.Signature(msg)
	if err != nil {
		add("sign-error", "%v", err)
		return
	}
	if len(sig) != c.L/8 {
		add("signature-length", "signature of %d bytes for a %d bit key", len(sig), c.L)
	}
	if err := V.VerifySignature(msg, sig); err != nil {
		add("own-signature-rejected", "message of %d bytes: %v", c.N, err)
	}
	if err := p.AsymVerify(pub(c.L, "a"), msg, sig); err != nil {
		add("reference-rejects-signature", "message of %d bytes: %v", c.N, err)
	}
	rsig, err := p.AsymSign(priv(c.L, "a"), msg)
	if err != nil {
		add("engine", "refcodec sign: %v", err)
		return
	}
	if err := V.VerifySignature(msg, rsig); err != nil {
		add("reference-signature-rejected", "message of %d bytes: %v", c.N, err)
	}
	ms := masks
	if x.thorough {
		ms = masksThorough
	}
	key := func(s string, a ...any) string { return fmt.Sprintf("%v|", c) + fmt.Sprintf(s, a...) }
	bad := make([]byte, len(sig))
	for i := range sig {
		for _, m := range ms {
			copy(bad, sig)
			bad[i] ^= m
			x.w.Eval(key("sigbyte %d^%02x", i, m))
			if V.VerifySignature(msg, bad) == nil {
				add("corrupted-signature-accepted", "message of %d bytes, signature byte %d xor 0x%02x", c.N, i, m)
			}
		}
	}
	for _, alt := range [][]byte{sig[:len(sig)-1], append(append([]byte(nil), sig...), 0), sig[1:], append([]byte{0}, sig...), {}, nil} {
		x.w.Eval(key("siglen %d", len(alt)))
		if V.VerifySignature(msg, alt) == nil {
			add("wrong-length-signature-accepted", "message of %d bytes, signature of %d bytes instead of %d", c.N, len(alt), len(sig))
		}
	}
	badm := make([]byte, len(msg))
	for i := range msg {
		copy(badm, msg)
		badm[i] ^= 0x01
		x.w.Eval(key("msgbyte %d", i))
		if V.VerifySignature(badm, sig) == nil {
			add("altered-message-accepted", "message of %d bytes, byte %d changed", c.N, i)
		}
	}
	for _, alt := range [][]byte{append(append([]byte(nil), msg...), 0), msg[:len(msg)/2]} {
		if len(alt) == len(msg) {
			continue
		}
		x.w.Eval(key("msglen %d", len(alt)))
		if V.VerifySignature(alt, sig) == nil {
			add("altered-message-accepted", "message of %d bytes verified as %d bytes", c.N, len(alt))
		}
	}
	return
}

func (x *run) swap(c cse) (out []viol) {
	p, S, V, err := x.algos(c)
	add := func(sig, f string, a ...any) {
		out = append(out, viol{fmt.Sprintf("swap/%s/%s", p.Name, sig), fmt.Sprintf(f, a...)})
	}
	defer func() {
		if r := recover(); r != nil {
			add("panic", "%v", r)
		}
	}()
	if err != nil {
		add("construct-failed", "%v", err)
		return
	}
	msg := pattern(64, 9)
	sig, err := S.Signature(msg)
	if err != nil {
		add("sign-error", "%v", err)
		return
	}
	// verifier that believes the sender is the OTHER key of the same size
	Vb, err := uapolicy.Asymmetric(p.URI, priv(c.R, "b"), pub(c.L, "b"))
	if err == nil && Vb.VerifySignature(msg, sig) == nil {
		add("signature-verifies-under-other-key", "signature by rsa%d-a verifies with rsa%d-b", c.L, c.L)
	}
	// verifier configured with the receiver's own public key (roles confused)
	Vr, err := uapolicy.Asymmetric(p.URI, priv(c.R, "b"), pub(c.R, "b"))
	if err == nil && Vr.VerifySignature(msg, sig) == nil {
		add("signature-verifies-under-receiver-key", "signature by rsa%d-a verifies with rsa%d-b", c.L, c.R)
	}
	if p.AsymVerify(pub(c.L, "b"), msg, sig) == nil {
		add("engine", "refcodec verifies with the wrong key")
	}
	pbs := S.PlaintextBlockSize()
	for _, n := range []int{1, pbs, pbs + 1} {
		pt := pattern(n, 11)
		ct, err := S.Encrypt(pt)
		if err != nil {
			add("encrypt-error", "%v", err)
			continue
		}
		// decrypt with the other private key of the same size
		W, err := uapolicy.Asymmetric(p.URI, priv(c.R, "a"), pub(c.L, "a"))
		if err != nil {
			add("construct-failed", "%v", err)
			continue
		}
		if got, err := W.Decrypt(ct); err == nil && bytes.Equal(got, pt) {
			add("ciphertext-decrypts-under-other-key", "%d bytes for rsa%d-b decrypted by rsa%d-a", n, c.R, c.R)
		}
		// the sender itself must not be able to decrypt (it only has its own private key)
		if c.L == c.R {
			if got, err := S.Decrypt(ct); err == nil && bytes.Equal(got, pt) {
				add("ciphertext-decrypts-under-sender-key", "%d bytes", n)
			}
		}
	}
	_ = V
	return
}

func (x *run) exec(c cse) []viol {
	switch c.Kind {
	case "construct":
		return x.construct(c)
	case "crypt":
		return x.crypt(c)
	case "sign":
		return x.sign(c)
	case "swap":
		return x.swap(c)
	}
	return []viol{{"engine/unknown-kind", c.Kind}}
}

func allowed(p *refcodec.Policy) []int {
	var out []int
	for _, b := range keys.Sizes {
		if p.KeySizeAllowed(b) {
			out = append(out, b)
		}
	}
	return out
}

// enumerate lists every case of the tier in a fixed order.
func enumerate(thorough bool) []cse {
	var out []cse
	sizes := append(append([]int{0, 512}, keys.Sizes...), 5120)
	for _, p := range refcodec.SecuredPolicies {
		for _, l := range sizes {
			for _, r := range sizes {
				out = append(out, cse{"construct", p.Name, l, r, 0})
			}
		}
	}
	for _, p := range refcodec.SecuredPolicies {
		al := allowed(p)
		for _, r := range al {
			pbs := p.AsymPlainBlock(pub(r, "b"))
			maxN := 2*pbs + 1
			if thorough {
				maxN = 3*pbs + 1
			}
			sparse := []int{0, 1, pbs - 131, pbs - 130, pbs - 129, pbs - 1, pbs, pbs + 1, 2*pbs - 1, 2 * pbs, 2*pbs + 1}
			for _, l := range al {
				// quick: the full length sweep with local = remote size (the local key does not take part in
				// encryption) for the smallest and the largest allowed remote key, a sparse sweep (block
				// boundaries) for every other pair; thorough: full sweep for every pair
				if thorough || (l == r && (r == al[0] || r == al[len(al)-1])) {
					for n := 0; n <= maxN; n++ {
						out = append(out, cse{"crypt", p.Name, l, r, n})
					}
				} else {
					for _, n := range sparse {
						if n >= 0 {
							out = append(out, cse{"crypt", p.Name, l, r, n})
						}
					}
				}
			}
		}
		for _, l := range al {
			for _, r := range al {
				// the signature only involves the local key: quick runs the corruption sweep with the
				// smallest remote key only, thorough with every pair
				if thorough || r == al[0] {
					for _, n := range []int{0, 1, 64, 1000} {
						out = append(out, cse{"sign", p.Name, l, r, n})
					}
				}
				out = append(out, cse{"swap", p.Name, l, r, 0})
			}
		}
	}
	return out
}

func main() {
	id := "C15"
	if len(os.Args) > 1 {
		id = os.Args[1]
	}
	r := evid.New(id)
	var rc cse
	if evid.ReplayInput(&rc) {
		x := &run{w: evid.New(id), thorough: evid.Thorough()}
		vs := x.exec(rc)
		fmt.Printf("replay %+v -> %d violations\n", rc, len(vs))
		for _, v := range vs {
			fmt.Printf("  %s: %s\n", v.sig, v.detail)
		}
		if len(vs) > 0 {
			os.Exit(1)
		}
		return
	}
	cases := enumerate(evid.Thorough())
	if k := os.Getenv("VERIF_C15_KIND"); k != "" { // debugging aid: restrict to one case kind
		var f []cse
		for _, c := range cases {
			if c.Kind == k {
				f = append(f, c)
			}
		}
		cases = f
		r.Capped("VERIF_C15_KIND=" + k)
	}
	// spread the expensive (large remote key) cases evenly: order by a fixed permutation
	perm := make([]int, len(cases))
	for i := range perm {
		perm[i] = i
	}
	seed := uint64(evid.Seed())*2654435761 + 88172645463325252
	for i := len(perm) - 1; i > 0; i-- {
		seed ^= seed << 13
		seed ^= seed >> 7
		seed ^= seed << 17
		j := int(seed % uint64(i+1))
		perm[i], perm[j] = perm[j], perm[i]
	}
	// private scratch directory: the shared default is occasionally wiped by concurrent jobs
	scratch := ""
	if os.Getenv("VERIF_SCRATCH") == "" && os.Getenv("VERIF_SHARD") == "" {
		scratch = fmt.Sprintf("/tmp/verif-scratch-%s-%d", strings.ToLower(id), os.Getpid())
		os.Setenv("VERIF_SCRATCH", scratch)
	}
	deaths := evid.Sharded(r, 0, func(s evid.ShardInfo, w *evid.Run) {
		x := &run{w: w, thorough: evid.Thorough()}
		for k, idx := range perm {
			if !s.Mine(int64(k)) {
				continue
			}
			c := cases[idx]
			evid.Publish(fmt.Sprintf("%+v", c))
			vs := x.exec(c)
			w.Eval(fmt.Sprintf("%v", c))
			if idx%1499 == 0 {
				w.Sample(c)
			}
			if len(vs) == 0 {
				w.Outcome(c.Kind + ":ok")
			}
			for _, v := range vs {
				w.Outcome("violation:" + v.sig)
				w.Violate(v.sig, fmt.Sprintf("%s; case %+v", v.detail, c), c)
			}
		}
	})
	if scratch != "" {
		os.RemoveAll(scratch)
	}
	for _, d := range deaths {
		// a worker that ended without a crash trace did not die in the code under test: machinery failure
		if !strings.Contains(d.Stderr, "panic") && !strings.Contains(d.Stderr, "fatal error") && !strings.Contains(d.ExitErr, "signal") {
			evid.EngineError(id, "worker %d failed without a crash trace (%s), last case %q: %s", d.Shard, d.ExitErr, d.LastCase, d.Stderr)
		}
		r.Violate("worker-death", fmt.Sprintf("worker %d died (%s) while running %s\n%s", d.Shard, d.ExitErr, d.LastCase, d.Stderr), d.LastCase)
	}
	kinds := map[string]int{}
	for _, c := range cases {
		kinds[c.Kind]++
	}
	r.Set("cases_by_kind", kinds)
	r.Rule("full grid, fixed order (VERIF_SEED only permutes): construct = 5 policies x 7 local x 7 remote key choices {nil,512,1024,2048,3072,4096,5120}; crypt = policy x allowed (local,remote) x every plaintext length 0..2*PlainTextBlockSize+1 (quick: full sweep where local size = remote size = smallest or largest allowed key, 11 block-boundary lengths for every other pair; thorough: 0..3*PTBS+1 for every pair); sign = policy x allowed local key x (quick: smallest remote key; thorough: every remote key) x message lengths {0,1,64,1000}, each with every signature byte x XOR masks (3 quick / 10 thorough), 6 wrong-length signatures, every single-byte message change; swap = policy x allowed pairs with exchanged keys. Every case is non-trivial; distinct = distinct (kind, policy, local bits, remote bits, length[, corrupted position, mask]) tuples executed")
	r.Assume("RSA primitives (PKCS#1 v1.5, OAEP, PSS) come from Go's crypto/rsa on both sides; what is compared is block splitting, hash choice, salt length, key roles and key size limits", "key sizes are those of the committed test keys: 512, 1024, 2048, 3072, 4096, 5120 bits")
	r.Finish()
}
