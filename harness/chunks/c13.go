// C13: the receive path of a secure channel survives any peer byte stream.
//
// Structure-aware, complete enumeration over a frame grammar (not random
// fuzzing): every case is a short sequence of hostile frames, or a flood of
// intermediate chunks, sent by a scripted TCP peer to a REAL receiving channel
// (client kind: NewSecureChannel+Open, real dispatcher; server kind:
// NewServerSecureChannel+Receive loop) before or after a successful open.
// Cases run in executor sub-processes (exec.go): a panic on one of gopcua's
// own goroutines or a runtime fatal error kills only the executor and is
// attributed to the case in flight.
package main

import (
	"context"
	"encoding/json"
	"fmt"
	"io"
	"net"
	"os"
	"sort"
	"strings"
	"time"

	"github.com/gopcua/opcua/ua"
	"github.com/gopcua/opcua/uapolicy"
	"github.com/gopcua/opcua/uasc"
	"verif/engine/evid"
	"verif/engine/keys"
)

// ---------------------------------------------------------------- frame grammar

type frameSpec struct {
	Type   string `json:"t"`             // 3 bytes of message type
	Chunk  string `json:"c"`             // chunk type byte
	Size   string `json:"sz"`            // true, true-1, true+1, 0, 7, 8, 11, 12, 16, buf, buf+1, max
	Chan   string `json:"ch"`            // right, zero, wrong
	Token  string `json:"tok"`           // right, wrong            (non-OPN)
	Seq    string `json:"seq"`           // next, zero
	Req    string `json:"req"`           // pending, other
	Body   string `json:"b"`             // valid, empty, opn, fault, unknown-type, abort, junk, trunc:<n>, atrunc:<n>
	Policy string `json:"pol,omitempty"` // OPN: none, <short real name>, garbage, 4k, null
	Cert   string `json:"cert,omitempty"`
	Thumb  string `json:"th,omitempty"`
}

func validFrame(typ string) frameSpec {
	f := frameSpec{Type: typ, Chunk: "F", Size: "true", Chan: "right", Token: "right", Seq: "next", Req: "pending", Body: "valid"}
	if typ == "OPN" {
		f.Policy, f.Cert, f.Thumb, f.Body = "none", "null", "null", "opn"
	}
	return f
}

// class is the symbolic identity of a frame for signatures: the message type plus the fields that
// deviate from the conforming frame of that type, reduced to what selects a code path in the receive
// path: size field, channel id, body class (every shortened body is "short"), and for OPN the policy
// class and the certificate. Chunk type, token id, sequence number, request id and thumbprint are
// part of the replay artefact and of the detail, not of the class.
func (f frameSpec) class() string {
	base := validFrame(f.Type)
	if f.Type != "OPN" && f.Type != "MSG" && f.Type != "CLO" {
		base = validFrame("MSG")
		base.Type = f.Type
	}
	var dev []string
	add := func(name, v, b string) {
		if v != b {
			dev = append(dev, name+"="+v)
		}
	}
	bodyClass := func(b string) string {
		if b == "empty" || strings.HasPrefix(b, "trunc:") || strings.HasPrefix(b, "atrunc:") {
			return "short"
		}
		if b == "abort" {
			return "valid" // the conforming body of an abort chunk
		}
		return b
	}
	add("size", f.Size, base.Size)
	add("chan", f.Chan, base.Chan)
	add("body", bodyClass(f.Body), bodyClass(base.Body))
	if f.Type == "OPN" {
		pol := f.Policy
		if pol != "none" && pol != "garbage" && pol != "4k" && pol != "null" {
			pol = "real"
		}
		add("policy", pol, base.Policy)
		add("cert", f.Cert, base.Cert)
	}
	return fmt.Sprintf("%s[%s]", printable(f.Type), strings.Join(dev, ","))
}

func printable(s string) string {
	var b strings.Builder
	for _, r := range []byte(s) {
		if r >= 0x21 && r < 0x7f {
			b.WriteByte(r)
		} else {
			fmt.Fprintf(&b, "\\x%02x", r)
		}
	}
	return b.String()
}

type frameCtx struct {
	kind       string
	chanID     uint32
	tokenID    uint32
	nextSeq    uint32
	pendingReq uint32
	recvBuf    uint32
}

var ecCert []byte

func loadProbeCert() []byte {
	if ecCert == nil {
		b, err := os.ReadFile(evid.Root() + "/testdata/keys-chunks/ecdsa-p256.cert.der")
		if err != nil {
			panic(err)
		}
		ecCert = b
	}
	return ecCert
}

func validBody(kind string, handle uint32, which string) []byte {
	switch which {
	case "opn":
		if kind == "server" {
			return opnRequestBodyNone(handle)
		}
		return opnResponseBodyNone(handle, cliChannelID, cliTokenID)
	case "fault":
		h := respHeader(handle)
		h.ServiceResult = ua.StatusBadInternalError
		return svcBody(&ua.ServiceFault{ResponseHeader: h})
	case "unknown-type":
		return []byte{0x01, 0x00, 0xff, 0xff, 1, 2, 3, 4}
	case "junk":
		return []byte{0xff, 0xff, 0xff, 0x7f, 0xff, 0xff, 0xff, 0x7f, 0x80, 0x00, 0x00, 0x00, 0xfe, 0xff, 0xff, 0xff}
	case "abort":
		return abortBody(uint32(ua.StatusBadRequestTooLarge), "hostile abort")
	}
	if kind == "server" {
		return svcBody(&ua.ReadRequest{RequestHeader: reqHeader(handle), NodesToRead: []*ua.ReadValueID{{NodeID: ua.NewNumericNodeID(0, 2258), AttributeID: ua.AttributeIDValue, DataEncoding: &ua.QualifiedName{}}}})
	}
	return svcBody(&ua.ReadResponse{ResponseHeader: respHeader(handle), Results: []*ua.DataValue{{EncodingMask: ua.DataValueValue, Value: ua.MustVariant(int32(7))}}})
}

// bodyLen returns the length of the body the truncation variants are cut from.
func bodyLen(kind, which string) int { return len(validBody(kind, 1, which)) }

func buildFrame(f frameSpec, cx *frameCtx) []byte {
	w := &wbuf{}
	w.raw([]byte(f.Type))
	w.raw([]byte(f.Chunk))
	w.u32(0)
	switch f.Chan {
	case "zero":
		w.u32(0)
	case "wrong":
		w.u32(0xdeadbeef)
	default:
		w.u32(cx.chanID)
	}
	if f.Type == "OPN" {
		switch f.Policy {
		case "none":
			w.str(ua.SecurityPolicyURINone)
		case "garbage":
			w.str("urn:not-a-policy")
		case "4k":
			w.str(strings.Repeat("P", 4096))
		case "null":
			w.u32(0xffffffff)
		default:
			w.str(policyURI(f.Policy))
		}
		switch f.Cert {
		case "null":
			w.bstr(nil)
		case "empty":
			w.bstr([]byte{})
		case "valid":
			w.bstr(keys.MustLoad(2048, "a").CertDER)
		case "truncated":
			d := keys.MustLoad(2048, "a").CertDER
			w.bstr(d[:len(d)/2])
		case "non-rsa":
			w.bstr(loadProbeCert())
		}
		switch f.Thumb {
		case "null":
			w.bstr(nil)
		case "valid":
			w.bstr(keys.MustLoad(2048, "b").Thumbprint())
		case "garbage":
			w.bstr([]byte{1, 2, 3})
		}
	} else {
		if f.Token == "wrong" {
			w.u32(0x0badf00d)
		} else {
			w.u32(cx.tokenID)
		}
	}
	req := cx.pendingReq
	if f.Req == "other" {
		req = cx.pendingReq + 1000
	}
	if f.Seq == "zero" {
		w.u32(0)
	} else {
		w.u32(cx.nextSeq)
	}
	w.u32(req)
	body := f.Body
	switch {
	case body == "empty":
	case strings.HasPrefix(body, "trunc:"):
		var n int
		fmt.Sscanf(body, "trunc:%d", &n)
		which := "valid"
		if f.Type == "OPN" {
			which = "opn"
		}
		w.raw(validBody(cx.kind, req, which)[:n])
	case strings.HasPrefix(body, "atrunc:"):
		var n int
		fmt.Sscanf(body, "atrunc:%d", &n)
		w.raw(validBody(cx.kind, req, "abort")[:n])
	default:
		w.raw(validBody(cx.kind, req, body))
	}
	b := w.b
	n := uint32(len(b))
	var sz uint32
	switch f.Size {
	case "true":
		sz = n
	case "true-1":
		sz = n - 1
	case "true+1":
		sz = n + 1
	case "buf":
		sz = cx.recvBuf
	case "buf+1":
		sz = cx.recvBuf + 1
	case "max":
		sz = 0xffffffff
	default:
		fmt.Sscanf(f.Size, "%d", &sz)
	}
	b[4], b[5], b[6], b[7] = byte(sz), byte(sz>>8), byte(sz>>16), byte(sz>>24)
	return b
}

// ---------------------------------------------------------------- cases

type floodSpec struct {
	IDs     int  `json:"ids"`
	PerID   int  `json:"per_id"`
	Full    bool `json:"full"`    // chunk bodies fill the receive buffer (else 1 byte)
	Pending bool `json:"pending"` // client kind: the flood uses the id of the pending request for its first id
}

type c13Case struct {
	Kind   string      `json:"kind"` // receiving channel kind
	Ctx    string      `json:"ctx"`  // none/pre, none/post, nokey/pre, secured/pre, Sign/post, SignAndEncrypt/post
	Lim    limits      `json:"lim"`
	Frames []frameSpec `json:"frames,omitempty"`
	Flood  *floodSpec  `json:"flood,omitempty"`
	// Patience multiplies the hang watchdog; the supervisor re-runs a case that hit the watchdog with
	// more patience before it reports a hang (a loaded machine must not turn into a verdict).
	Patience int `json:"patience,omitempty"`
}

func (c c13Case) wd() time.Duration { return watchdog * time.Duration(1+c.Patience) }

type c13Obs struct {
	Panic      string `json:"panic,omitempty"`
	PanicTop   string `json:"panic_top,omitempty"`
	Hang       string `json:"hang,omitempty"`
	HangKind   string `json:"hang_kind,omitempty"`
	Mem        string `json:"mem,omitempty"`
	MemKind    string `json:"mem_kind,omitempty"`
	NotJudged  bool   `json:"not_judged,omitempty"`
	Results    int    `json:"results"`
	Errors     int    `json:"errors"`
	Delivered  int    `json:"delivered"`
	OpenErr    string `json:"open_err,omitempty"`
	OpenOK     bool   `json:"open_ok,omitempty"`
	PolicyFrom string `json:"policy_from,omitempty"`
	PolicyTo   string `json:"policy_to,omitempty"`
	OpenIDs    int    `json:"open_ids"`
	DataBytes  int    `json:"data_bytes"`
	Pinned     int    `json:"pinned"`
	Fatal      string `json:"fatal,omitempty"`
	Died       string `json:"died,omitempty"`
	DiedTop    string `json:"died_top,omitempty"`
	DiedLog    string `json:"died_log,omitempty"`
}

var grammarLimits = limits{Recv: 8192, Send: 8192, MaxMsg: 65536, MaxChunks: 8}

type c13Env struct {
	srv map[limits]*srvSide
	cli *cliSide
	px  *proxySide
}

func newC13Env() *c13Env {
	cli, err := newCliSide()
	if err != nil {
		panic(err)
	}
	px, err := newProxySide()
	if err != nil {
		panic(err)
	}
	return &c13Env{srv: map[limits]*srvSide{}, cli: cli, px: px}
}

func (e *c13Env) srvFor(l limits) *srvSide {
	if s, ok := e.srv[l]; ok {
		return s
	}
	s, err := newSrvSide(l)
	if err != nil {
		panic(err)
	}
	e.srv[l] = s
	return s
}

func drain(c net.Conn) {
	go func() {
		buf := make([]byte, 4096)
		for {
			c.SetReadDeadline(time.Now().Add(5 * time.Minute))
			if _, err := c.Read(buf); err != nil {
				return
			}
		}
	}()
}

func judgeMem(o *c13Obs, st uasc.VerifChunkStats, recv, maxMsg, maxChunks uint32, kind string) {
	o.OpenIDs, o.DataBytes, o.Pinned = st.OpenIDs, st.DataBytes, st.PinnedBytes
	if st.Chunks == 0 {
		return
	}
	if maxMsg == 0 || maxChunks == 0 {
		o.NotJudged = true
		return
	}
	perID := int(maxMsg) + int(recv)
	n := int(maxChunks)
	if kind == "client" {
		n = st.Handlers
		if n < 1 {
			n = 1
		}
	}
	switch {
	case st.MaxPerID > perID:
		o.MemKind = "bytes-per-request-id-exceed-MaxMessageSize-plus-one-chunk"
		o.Mem = fmt.Sprintf("%d bytes buffered for one request id; MaxMessageSize %d + one chunk %d = %d", st.MaxPerID, maxMsg, recv, perID)
	case st.MaxChunksPerID > int(maxChunks):
		o.MemKind = "chunks-per-request-id-exceed-MaxChunkCount"
		o.Mem = fmt.Sprintf("%d chunks buffered for one request id; MaxChunkCount %d", st.MaxChunksPerID, maxChunks)
	case st.OpenIDs > n:
		o.MemKind = "open-request-ids-unbounded"
		o.Mem = fmt.Sprintf("%d request ids have buffered chunks; bound %d (server kind: MaxChunkCount; client kind: requests awaiting a response)", st.OpenIDs, n)
	case st.DataBytes > n*perID:
		o.MemKind = "total-buffered-bytes"
		o.Mem = fmt.Sprintf("%d bytes buffered in total; bound %d x %d", st.DataBytes, n, perID)
	}
}

func (c c13Case) post() bool { return strings.HasSuffix(c.Ctx, "/post") }

func (c c13Case) secMode() int {
	switch {
	case strings.HasPrefix(c.Ctx, "SignAndEncrypt"):
		return int(ua.MessageSecurityModeSignAndEncrypt)
	case strings.HasPrefix(c.Ctx, "Sign"):
		return int(ua.MessageSecurityModeSign)
	}
	return int(ua.MessageSecurityModeNone)
}

// payload builds the hostile bytes of a case and, for floods, the conforming sentinel that follows.
func payload(c c13Case, cx *frameCtx, sentinelReq uint32) []byte {
	var all []byte
	if c.Flood != nil {
		fl := c.Flood
		blen := 1
		if fl.Full {
			blen = int(cx.recvBuf) - 24
		}
		body := make([]byte, blen)
		for i := range body {
			body[i] = byte(i)
		}
		for j := 0; j < fl.PerID; j++ {
			for i := 0; i < fl.IDs; i++ {
				id := cx.pendingReq + 5000 + uint32(i)
				if fl.Pending && i == 0 {
					id = cx.pendingReq
				}
				all = append(all, symChunk("MSG", 'C', cx.chanID, cx.tokenID, cx.nextSeq, id, body)...)
				cx.nextSeq++
			}
		}
		all = append(all, symChunk("MSG", 'F', cx.chanID, cx.tokenID, cx.nextSeq, sentinelReq, validBody(cx.kind, sentinelReq, "valid"))...)
		cx.nextSeq++
		return all
	}
	for _, f := range c.Frames {
		all = append(all, buildFrame(f, cx)...)
		cx.nextSeq++
	}
	return all
}

func runC13(c c13Case, env *c13Env) (o c13Obs) {
	defer func() {
		if r := recover(); r != nil {
			// a panic on the harness goroutine itself (only reachable through direct calls into the repo)
			o.Panic = fmt.Sprint(r)
			o.PanicTop = topRepoFunc(stackOfPanic())
		}
	}()
	if c.Kind == "server" {
		return runC13Server(c, env)
	}
	return runC13Client(c, env)
}

func serverCfg(ctx string) *uasc.Config {
	cfg := noneConfig()
	if !strings.HasPrefix(ctx, "nokey") {
		k := keys.MustLoad(2048, "b")
		cfg.Certificate, cfg.LocalKey = k.CertDER, k.Key
	}
	return cfg
}

func runC13Server(c c13Case, env *c13Env) (o c13Obs) {
	srv := env.srvFor(c.Lim)
	var (
		peer *net.TCPConn
		sc   *uasc.SecureChannel
		out  chan recvResult
	)
	cx := &frameCtx{kind: "server", chanID: srvChannelID, tokenID: srvTokenID, nextSeq: 1, pendingReq: 100, recvBuf: c.Lim.Recv}
	if m := c.secMode(); m != int(ua.MessageSecurityModeNone) {
		p, err := openSecuredPair(env.px, srv, "Basic256Sha256", m)
		if err != nil {
			o.Fatal = err.Error()
			return
		}
		defer p.close()
		peer, sc, out = p.ps, p.srv, p.srvOut
		cx.nextSeq, cx.pendingReq = 3, 302
	} else {
		pr, s, conn, _, err := srv.connect(serverCfg(c.Ctx))
		if err != nil {
			o.Fatal = err.Error()
			return
		}
		defer func() { pr.Close(); s.Close(); conn.Close() }()
		peer, sc = pr, s
		out = make(chan recvResult, 4096)
		go recvLoop(sc, out, false)
		if c.post() {
			if _, _, err := peerOpenNone(peer, 1, 100); err != nil {
				o.Fatal = err.Error()
				return
			}
			select {
			case <-out:
			case <-time.After(watchdog):
				o.Fatal = "server Receive did not return after a conforming OPN"
				return
			}
			cx.nextSeq, cx.pendingReq = 2, 101
		}
	}
	o.PolicyFrom, _ = sc.VerifConfigPolicy()
	drain(peer)
	sentinel := cx.pendingReq + 9000
	if err := writeAll(peer, payload(c, cx, sentinel)); err != nil {
		// the receiver may legitimately have closed the connection already
		_ = err
	}
	peer.CloseWrite()
	timer := time.NewTimer(c.wd())
	defer timer.Stop()
	for {
		select {
		case r, ok := <-out:
			if !ok {
				recv, maxMsg, maxChunks := sc.VerifLimits()
				judgeMem(&o, sc.VerifChunkStats(), recv, maxMsg, maxChunks, "server")
				o.PolicyTo, _ = sc.VerifConfigPolicy()
				return
			}
			o.Results++
			if r.panicked != "" {
				o.Panic, o.PanicTop = r.panicked, topRepoFunc(r.stack)
				continue
			}
			switch {
			case r.msg.Err == io.EOF:
			case r.msg.Err != nil:
				o.Errors++
			default:
				o.Delivered++
			}
			if o.Results > 1000000 {
				o.Hang, o.HangKind = "Receive keeps returning without reaching the end of the stream", "receive-livelock"
				return
			}
		case <-timer.C:
			o.Hang, o.HangKind = "server-kind Receive did not return after the peer sent its bytes and closed its sending side", "no-return-after-peer-close"
			return
		}
	}
}

func clientCfg(ctx string) *uasc.Config {
	cfg := noneConfig()
	cfg.RequestIDSeed = 200
	if strings.HasPrefix(ctx, "secured") {
		ck, sk := keys.MustLoad(2048, "a"), keys.MustLoad(2048, "b")
		cfg.SecurityPolicyURI, cfg.SecurityMode = ua.SecurityPolicyURIBasic256Sha256, ua.MessageSecurityModeSignAndEncrypt
		cfg.Certificate, cfg.LocalKey = ck.CertDER, ck.Key
		cfg.RemoteCertificate = sk.CertDER
		cfg.Thumbprint = uapolicy.Thumbprint(sk.CertDER)
	}
	return cfg
}

func runC13Client(c c13Case, env *c13Env) (o c13Obs) {
	var (
		peer     *net.TCPConn
		sc       *uasc.SecureChannel
		errch    chan error
		openDone <-chan error
	)
	cx := &frameCtx{kind: "client", chanID: cliChannelID, tokenID: cliTokenID, nextSeq: 1, recvBuf: c.Lim.Send}
	openReturned := true
	if m := c.secMode(); m != int(ua.MessageSecurityModeNone) {
		p, err := openSecuredPair(env.px, env.srvFor(c.Lim), "Basic256Sha256", m)
		if err != nil {
			o.Fatal = err.Error()
			return
		}
		defer p.close()
		peer, sc, errch = p.pc, p.cli, p.cliErr
		cx.chanID, cx.tokenID, cx.nextSeq = srvChannelID, srvTokenID, srvSeqStart+2
	} else {
		cc, err := env.cli.connect(c.Lim, clientCfg(c.Ctx))
		if err != nil {
			o.Fatal = err.Error()
			return
		}
		defer func() { cc.peer.Close(); cc.sc.Close(); cc.conn.Close() }()
		peer, sc, errch = cc.peer, cc.sc, cc.errch
		if c.post() {
			if err := cc.openNone(1); err != nil {
				o.Fatal = "open: " + err.Error()
				return
			}
			cx.nextSeq = 2
		} else {
			done := make(chan error, 1)
			go func() { done <- cc.sc.Open(context.Background()) }()
			if _, err := readFrame(cc.peer); err != nil {
				o.Fatal = "peer: no OPN request from the client: " + err.Error()
				return
			}
			openDone, openReturned = done, false
			cx.pendingReq = 201 // RequestIDSeed+1
		}
	}
	o.PolicyFrom, _ = sc.VerifConfigPolicy()
	// post-open: one request is waiting for its response, and (floods) a second one for the sentinel
	type reqOut struct{ err error }
	var reqDone []chan reqOut
	nreq := 0
	if c.post() {
		nreq = 1
		if c.Flood != nil {
			nreq = 2
		}
	}
	ids := make([]uint32, nreq)
	for i := 0; i < nreq; i++ {
		ch := make(chan reqOut, 1)
		reqDone = append(reqDone, ch)
		i := i
		go func() {
			err := sc.SendRequest(context.Background(), &ua.ReadRequest{MaxAge: float64(i), NodesToRead: []*ua.ReadValueID{{NodeID: ua.NewNumericNodeID(0, 2258), AttributeID: ua.AttributeIDValue, DataEncoding: &ua.QualifiedName{}}}}, nil,
				func(ua.Response) error { return nil })
			ch <- reqOut{err}
		}()
		f, err := readFrame(peer)
		if err != nil {
			o.Fatal = "peer: no request from the client: " + err.Error()
			return
		}
		if c.secMode() == int(ua.MessageSecurityModeNone) {
			rc, err := parsePlainChunk(f)
			if err != nil {
				o.Fatal = "peer: bad request: " + err.Error()
				return
			}
			ids[i] = rc.ReqID
		} else {
			ids[i] = 302 + uint32(i) // RequestIDSeed 300: OPN 301, then 302...
		}
	}
	sentinel := uint32(0)
	if nreq > 0 {
		cx.pendingReq = ids[0]
	}
	if nreq > 1 {
		sentinel = ids[1]
	}
	drain(peer)
	if err := writeAll(peer, payload(c, cx, sentinel)); err != nil {
		_ = err
	}
	if c.Flood != nil {
		// the conforming sentinel response marks the point where the dispatcher has consumed the flood
		select {
		case <-reqDone[1]:
		case <-time.After(c.wd()):
			o.Hang, o.HangKind = "the conforming response sent after the flood was never delivered", "no-delivery-after-flood"
			return
		}
		recv, maxMsg, maxChunks := sc.VerifLimits()
		judgeMem(&o, sc.VerifChunkStats(), recv, maxMsg, maxChunks, "client")
	}
	peer.CloseWrite()
	// the dispatcher must report the end of the stream (io.EOF on the error channel)
	deadline := time.NewTimer(c.wd())
	defer deadline.Stop()
	tick := time.NewTicker(2 * time.Millisecond)
	defer tick.Stop()
	gotEOF := false
	for !gotEOF {
		select {
		case err := <-errch:
			o.Errors++
			if err == io.EOF {
				gotEOF = true
			}
		case err := <-openDone:
			openReturned, openDone = true, nil
			if err != nil {
				o.OpenErr = err.Error()
			} else {
				o.OpenOK = true
			}
		case <-tick.C:
			// rcvLocker set while no open() is running: only open() and Close() ever clear it, so the
			// dispatcher waits in waitIfLock forever. The state is absorbing; observing it once is a proof, not a timing guess.
			if openReturned && sc.VerifReceiveLocked() {
				o.Hang, o.HangKind = "dispatcher is parked in rcvLocker.waitIfLock with no open() in progress: the end of the stream is never reported and pending requests never fail", "dispatcher-wedged-on-receive-lock"
				return
			}
		case <-deadline.C:
			o.Hang, o.HangKind = "the dispatcher did not report io.EOF after the peer sent its bytes and closed its sending side", "no-return-after-peer-close"
			return
		}
	}
	if openDone != nil {
		select {
		case err := <-openDone:
			if err != nil {
				o.OpenErr = err.Error()
			} else {
				o.OpenOK = true
			}
		case <-time.After(watchdog):
			o.Hang, o.HangKind = "Open did not return although the dispatcher reported the end of the stream", "open-blocked-after-disconnect"
			return
		}
	}
	for i, ch := range reqDone {
		if c.Flood != nil && i == 1 {
			continue
		}
		select {
		case <-ch:
		case <-time.After(watchdog):
			o.Hang, o.HangKind = "SendRequest did not return although the dispatcher reported the end of the stream", "request-blocked-after-disconnect"
			return
		}
	}
	if c.Flood == nil {
		recv, maxMsg, maxChunks := sc.VerifLimits()
		judgeMem(&o, sc.VerifChunkStats(), recv, maxMsg, maxChunks, "client")
	}
	o.PolicyTo, _ = sc.VerifConfigPolicy()
	return
}

// ---------------------------------------------------------------- verdict

func (c c13Case) streamClass() string {
	if c.Flood != nil {
		fl := c.Flood
		m := int(c.Lim.MaxChunks)
		per := "many"
		switch {
		case fl.PerID == 1:
			per = "1"
		case m > 0 && fl.PerID <= m:
			per = "<=MaxChunkCount"
		case m > 0 && fl.PerID == m+1:
			per = "MaxChunkCount+1"
		}
		lim := "finite-limits"
		if c.Lim.MaxChunks == 0 || c.Lim.MaxMsg == 0 {
			lim = "peer-announced-no-limits"
		}
		return fmt.Sprintf("flood[chunks-per-request-id=%s,%s]", per, lim)
	}
	var cl []string
	for _, f := range c.Frames {
		cl = append(cl, f.class())
	}
	return strings.Join(cl, ";")
}

// failure returns the failure kind and site of an observation ("" = held).
func (o c13Obs) failure(kind string) (fk, site string) {
	recvSiteOf := recvSite(kind)
	switch {
	case o.Died != "":
		if strings.Contains(o.Died, "out of memory") {
			return "process-died[" + o.Died + "]", "?" // the allocation that happened to fail says nothing about the cause
		}
		return "process-died[" + o.Died + "]", o.DiedTop
	case o.Panic != "":
		return "panic[" + panicClass(o.Panic) + "]", o.PanicTop
	case o.Hang != "":
		return "blocks[" + o.HangKind + "]", recvSiteOf
	case o.Mem != "":
		return "memory[" + o.MemKind + "]", "uasc.(*SecureChannel).Receive"
	}
	return "", ""
}

func (o c13Obs) detail() string {
	switch {
	case o.Died != "":
		return "the receiving process died\n" + o.DiedLog
	case o.Panic != "":
		return "panic in Receive: " + o.Panic
	case o.Hang != "":
		return o.Hang
	}
	return o.Mem
}

func sigC13(c c13Case, class, fk, site string) string {
	return fmt.Sprintf("hostile/%s/%s/%s/%s/%s", c.Kind, c.Ctx, class, fk, site)
}

// ---------------------------------------------------------------- enumeration

var realPolicies = []string{"Basic128Rsa15", "Basic256", "Basic256Sha256", "Aes128_Sha256_RsaOaep", "Aes256_Sha256_RsaPss"}

type ctxSpec struct {
	kind, ctx string
}

func contextsC13() []ctxSpec {
	return []ctxSpec{
		{"server", "none/pre"}, {"server", "none/post"}, {"server", "nokey/pre"},
		{"client", "none/pre"}, {"client", "none/post"}, {"client", "secured/pre"},
		{"server", "Sign/post"}, {"server", "SignAndEncrypt/post"},
		{"client", "Sign/post"}, {"client", "SignAndEncrypt/post"},
	}
}

func secured(ctx string) bool { return strings.HasPrefix(ctx, "Sign") }

// singleFrames: the grammar product for one context.
func singleFrames(cs ctxSpec, thorough bool) []frameSpec {
	var out []frameSpec
	seen := map[string]bool{}
	add := func(f frameSpec) {
		k := fmt.Sprint(f)
		if !seen[k] {
			seen[k] = true
			out = append(out, f)
		}
	}
	sizes := []string{"true", "true-1", "true+1", "0", "7", "8", "11", "12", "16", "buf", "buf+1", "max"}
	chans := []string{"right", "zero", "wrong"}
	// G1: header product
	for _, t := range []string{"MSG", "OPN", "CLO", "HEL", "ACK", "ERR", "XXX", "\x00\x00\x00"} {
		for _, ch := range []string{"F", "C", "A", "X", "\x00"} {
			for _, sz := range sizes {
				for _, cid := range chans {
					f := validFrame(t)
					if t != "OPN" && t != "MSG" && t != "CLO" {
						f = validFrame("MSG")
						f.Type = t
					}
					f.Chunk, f.Size, f.Chan = ch, sz, cid
					if ch == "A" {
						f.Body = "abort"
					}
					add(f)
				}
			}
		}
	}
	// G2: symmetric-frame field product with every body variant
	bodies := []string{"valid", "empty", "opn", "fault", "unknown-type", "junk"}
	for n := 0; n < bodyLen(cs.kind, "valid"); n++ {
		bodies = append(bodies, fmt.Sprintf("trunc:%d", n))
	}
	abodies := []string{"abort", "empty", "junk"}
	for n := 0; n < bodyLen(cs.kind, "abort"); n++ {
		abodies = append(abodies, fmt.Sprintf("atrunc:%d", n))
	}
	for _, t := range []string{"MSG", "CLO"} {
		for _, ch := range []string{"F", "C", "A"} {
			for _, tok := range []string{"right", "wrong"} {
				for _, sq := range []string{"next", "zero"} {
					for _, rq := range []string{"pending", "other"} {
						bs := bodies
						if ch == "A" {
							bs = abodies
						}
						if secured(cs.ctx) && !thorough && (tok != "right" || sq != "next") {
							continue
						}
						if !thorough && (tok != "right" || sq != "next") {
							// quick: the every-length truncations only with the conforming token id and sequence number
							bs = []string{"valid", "empty", "opn", "fault", "unknown-type", "junk"}
							if ch == "A" {
								bs = []string{"abort", "empty", "junk"}
							}
						}
						for _, b := range bs {
							f := validFrame(t)
							f.Chunk, f.Token, f.Seq, f.Req, f.Body = ch, tok, sq, rq, b
							add(f)
						}
					}
				}
			}
		}
	}
	// G3: OPN product
	pols := append([]string{"none"}, realPolicies...)
	pols = append(pols, "garbage", "4k", "null")
	for _, ch := range []string{"F", "C", "A"} {
		for _, pol := range pols {
			for _, cert := range []string{"null", "empty", "valid", "truncated", "non-rsa"} {
				for _, th := range []string{"null", "valid", "garbage"} {
					for _, b := range []string{"opn", "empty", "valid", "junk"} {
						if !thorough && (th == "garbage" || b == "valid") {
							continue
						}
						f := validFrame("OPN")
						f.Chunk, f.Policy, f.Cert, f.Thumb, f.Body = ch, pol, cert, th, b
						add(f)
					}
				}
			}
		}
	}
	for n := 0; n < bodyLen(cs.kind, "opn"); n++ {
		for _, cid := range []string{"right", "zero"} {
			f := validFrame("OPN")
			f.Body, f.Chan = fmt.Sprintf("trunc:%d", n), cid
			add(f)
		}
	}
	return out
}

// alphabet for sequences: every frame that differs from a conforming MSG/OPN/CLO frame in at most one field
// (one representative truncation), plus the conforming frames themselves.
func sequenceAlphabet(cs ctxSpec, reduced bool) []frameSpec {
	var out []frameSpec
	seen := map[string]bool{}
	add := func(f frameSpec) {
		k := fmt.Sprint(f)
		if !seen[k] {
			seen[k] = true
			out = append(out, f)
		}
	}
	half := fmt.Sprintf("trunc:%d", bodyLen(cs.kind, "valid")/2)
	for _, t := range []string{"MSG", "OPN", "CLO"} {
		base := validFrame(t)
		add(base)
		vary := func(set func(f *frameSpec, v string), vals ...string) {
			for _, v := range vals {
				f := base
				set(&f, v)
				add(f)
			}
		}
		vary(func(f *frameSpec, v string) { f.Chunk = v }, "C", "A", "X")
		if reduced {
			vary(func(f *frameSpec, v string) { f.Size = v }, "true-1", "true+1", "8")
			vary(func(f *frameSpec, v string) { f.Chan = v }, "wrong")
			if t == "MSG" {
				vary(func(f *frameSpec, v string) { f.Body = v }, "empty", "opn", half)
				vary(func(f *frameSpec, v string) { f.Req = v }, "other")
			}
			if t == "OPN" {
				vary(func(f *frameSpec, v string) { f.Policy = v }, "Basic256Sha256", "garbage")
				vary(func(f *frameSpec, v string) { f.Cert = v }, "valid")
			}
			continue
		}
		vary(func(f *frameSpec, v string) { f.Size = v }, "true-1", "true+1", "0", "8", "12", "buf", "buf+1", "max")
		vary(func(f *frameSpec, v string) { f.Chan = v }, "zero", "wrong")
		vary(func(f *frameSpec, v string) { f.Seq = v }, "zero")
		vary(func(f *frameSpec, v string) { f.Req = v }, "other")
		if t != "OPN" {
			vary(func(f *frameSpec, v string) { f.Token = v }, "wrong")
			vary(func(f *frameSpec, v string) { f.Body = v }, "empty", "opn", "fault", "unknown-type", "junk", half)
		} else {
			vary(func(f *frameSpec, v string) { f.Policy = v }, "Basic256Sha256", "Aes256_Sha256_RsaPss", "garbage", "4k", "null")
			vary(func(f *frameSpec, v string) { f.Cert = v }, "empty", "valid", "truncated", "non-rsa")
			vary(func(f *frameSpec, v string) { f.Thumb = v }, "valid", "garbage")
			vary(func(f *frameSpec, v string) { f.Body = v }, "empty", "valid", "junk", fmt.Sprintf("trunc:%d", bodyLen(cs.kind, "opn")/2))
			// a real policy with a usable certificate and a plaintext body
			f := base
			f.Policy, f.Cert, f.Thumb = "Basic256Sha256", "valid", "valid"
			add(f)
		}
	}
	return out
}

func floodsC13(thorough bool) []c13Case {
	var out []c13Case
	small := limits{Recv: 8192, Send: 8192, MaxMsg: 16384, MaxChunks: 4}
	def := limits{Recv: 65535, Send: 65535, MaxMsg: 2 << 20, MaxChunks: 512}
	nolim := limits{Recv: 8192, Send: 8192, MaxMsg: 0, MaxChunks: 0}
	many := []int{64, 1024}
	if thorough {
		many = append(many, 8192)
	}
	for _, kind := range []string{"server", "client"} {
		for _, lim := range []limits{small, def, nolim} {
			if kind == "server" && lim == nolim {
				// a server-kind channel whose ACK says 0 ("no limit") compares every message against 0 and
				// refuses even the OPN request (a negotiation defect, C06); nothing can be flooded there
				continue
			}
			m := int(lim.MaxChunks)
			idsSet := []int{1}
			perSet := []int{1}
			if m > 0 {
				idsSet = append(idsSet, m, m+1)
				perSet = append(perSet, m, m+1, 3*m+2)
			} else {
				perSet = append(perSet, 4, 5)
			}
			idsSet = append(idsSet, many...)
			for _, ids := range idsSet {
				for _, per := range perSet {
					if m > 0 && per == 3*m+2 && ids != 1 {
						continue // the long stream is about what one request id may retain; many ids are the known finding
					}
					for _, full := range []bool{false, true} {
						bytes := ids * per
						if full {
							bytes *= int(lim.Recv)
						}
						if bytes > 48<<20 {
							continue // more than 48 MiB on the wire for one case: left out, stated in the rule
						}
						if lim == def && ids*per > 2048 {
							// every buffered chunk pins a whole 64 KiB receive buffer: more than 2048 chunks would
							// bring the executor near its 2 GiB address-space limit and make the outcome depend on the allocator
							continue
						}
						pend := []bool{false}
						if kind == "client" {
							pend = []bool{false, true}
						}
						for _, p := range pend {
							out = append(out, c13Case{Kind: kind, Ctx: "none/post", Lim: lim, Flood: &floodSpec{IDs: ids, PerID: per, Full: full, Pending: p}})
						}
					}
				}
			}
		}
	}
	return out
}

// quickSecuredSingle: the part of the single-frame product run in the Sign/SignAndEncrypt contexts in
// the quick tier (every case there costs a real RSA handshake): right channel id only, the header
// product over the real message types plus one unknown type, and MSG frames with every body variant.
func quickSecuredSingle(fr frameSpec) bool {
	if fr.Chan != "right" {
		return false
	}
	switch fr.Type {
	case "MSG":
		return true
	case "OPN":
		return fr.Policy == "none" && fr.Cert == "null" && fr.Thumb == "null" && !strings.HasPrefix(fr.Body, "trunc:")
	case "CLO":
		return fr.Body == "valid" || fr.Body == "abort"
	case "XXX":
		return true
	}
	return false
}

func enumerateC13(thorough bool, f func(idx int64, c c13Case)) int64 {
	var idx int64
	emit := func(c c13Case) { f(idx, c); idx++ }
	for _, cs := range contextsC13() {
		for _, fr := range singleFrames(cs, thorough) {
			if secured(cs.ctx) && !thorough && !quickSecuredSingle(fr) {
				continue
			}
			emit(c13Case{Kind: cs.kind, Ctx: cs.ctx, Lim: grammarLimits, Frames: []frameSpec{fr}})
		}
	}
	for _, cs := range contextsC13() {
		if secured(cs.ctx) && !thorough {
			continue
		}
		alpha := sequenceAlphabet(cs, secured(cs.ctx) || !thorough)
		for _, a := range alpha {
			for _, b := range alpha {
				emit(c13Case{Kind: cs.kind, Ctx: cs.ctx, Lim: grammarLimits, Frames: []frameSpec{a, b}})
			}
		}
	}
	if thorough {
		for _, cs := range contextsC13() {
			if secured(cs.ctx) {
				continue
			}
			alpha := sequenceAlphabet(cs, true)
			for _, a := range alpha {
				for _, b := range alpha {
					for _, d := range alpha {
						emit(c13Case{Kind: cs.kind, Ctx: cs.ctx, Lim: grammarLimits, Frames: []frameSpec{a, b, d}})
					}
				}
			}
		}
	}
	for _, c := range floodsC13(thorough) {
		emit(c)
	}
	return idx
}

// ---------------------------------------------------------------- main

func executorC13() {
	env := newC13Env()
	executorMain(func(line []byte) any {
		var c c13Case
		if err := json.Unmarshal(line, &c); err != nil {
			return c13Obs{Fatal: "bad case: " + err.Error()}
		}
		o := runC13(c, env)
		if o.Fatal != "" {
			o = runC13(c, env)
		}
		return o
	})
}

func runViaPool(pl *pool, c c13Case) c13Obs {
	var o c13Obs
	d, err := pl.run(c, &o)
	if err != nil {
		evid.EngineError("C13", "executor failure on case %+v: %v", c, err)
	}
	if d != nil {
		o = c13Obs{Died: d.Kind, DiedTop: d.Top, DiedLog: d.Exit + "\n" + head(d.Stderr, 2500)}
	}
	if o.Fatal != "" {
		evid.EngineError("C13", "harness failure on case %+v: %s", c, o.Fatal)
	}
	if o.Hang != "" && o.HangKind != "dispatcher-wedged-on-receive-lock" && c.Patience < 3 {
		// a watchdog verdict is only reported if the case still hangs with 2x and 4x the patience
		c.Patience = c.Patience*2 + 1
		return runViaPool(pl, c)
	}
	return o
}

// classify runs the verdict of a case; a failing sequence is attributed to one of its frames if that
// frame alone (same context) fails in the same way, so that sequences do not multiply signatures.
func classifyC13(pl *pool, c c13Case, o c13Obs) (sig, detail string) {
	fk, site := o.failure(c.Kind)
	if fk == "" {
		return "", ""
	}
	if len(c.Frames) > 1 {
		for _, fr := range c.Frames {
			single := c
			single.Frames = []frameSpec{fr}
			so := runViaPool(pl, single)
			if sfk, ssite := so.failure(c.Kind); sfk == fk && ssite == site {
				return sigC13(c, fr.class(), fk, site), o.detail() + fmt.Sprintf(" (sequence %s; the frame %s alone fails in the same way)", c.streamClass(), fr.class())
			}
		}
		// no single frame reproduces it: a genuinely sequence-dependent (possibly schedule-dependent) failure.
		// Class = the set of message types in the sequence, so that the signature does not depend on which
		// of many equivalent sequences happened to expose it.
		set := map[string]bool{}
		for _, fr := range c.Frames {
			set[printable(fr.Type)] = true
		}
		var ts []string
		for t := range set {
			ts = append(ts, t)
		}
		sort.Strings(ts)
		return sigC13(c, "sequence-only{"+strings.Join(ts, ",")+"}", fk, site), o.detail() + " (sequence " + c.streamClass() + "; no single frame of it fails in this way)"
	}
	return sigC13(c, c.streamClass(), fk, site), o.detail()
}

func mainC13() {
	r := evid.New("C13")
	var rc c13Case
	if evid.ReplayInput(&rc) {
		pl := &pool{prop: "C13"}
		o := runViaPool(pl, rc)
		sig, detail := classifyC13(pl, rc, o)
		pl.close()
		fmt.Printf("replay %+v\n observed %+v\n sig=%q\n detail=%s\n", rc, o, sig, detail)
		if sig != "" {
			os.Exit(1)
		}
		return
	}
	thorough := evid.Thorough()
	rule := "scripted TCP peer -> real receiving channel; contexts = channel kind {server, client} x {before any open: server with key, server without key, client None, client configured for Basic256Sha256/SignAndEncrypt; after a conforming mode-None open (client: with one request pending); after a REAL Basic256Sha256 Sign / SignAndEncrypt open (proxy between a real client and a real server channel)} = 10 contexts. Single frames, complete products: G1 = message type {MSG,OPN,CLO,HEL,ACK,ERR,XXX,NUL}(8) x chunk type {F,C,A,X,NUL}(5) x size field {true, true-1, true+1, 0, 7, 8, 11, 12, 16, buffer, buffer+1, 2^32-1}(12) x channel id {right, 0, wrong}(3); G2 = {MSG,CLO} x {F,C,A} x token id(2) x sequence number(2) x request id {pending, other}(2) x body {valid, empty, OPN body, ServiceFault, unknown type id, junk length prefixes, the valid body (resp. abort body) truncated at EVERY length}; G3 = OPN x {F,C,A} x policy URI {None, each of the 5 real, garbage, 4 KiB, null} x certificate {null, empty, valid, truncated DER, non-RSA} x thumbprint x body, plus the OPN body truncated at every length x channel id {right, 0}. "
	if thorough {
		rule += "thorough: G1-G3 in full in all 10 contexts; every ordered PAIR over the 1-field-deviation alphabet (conforming MSG/OPN/CLO frame with one field changed: ~75 frames; ~20 frames in the secured contexts) in all contexts; every ordered TRIPLE over the reduced alphabet (~20 frames) in the 6 unsecured contexts; "
	} else {
		rule += "quick: in the 6 unsecured contexts G1 in full, G2 with the every-length truncations only for the conforming token id/sequence number, G3 without garbage thumbprint and without the non-OPN body; in the 4 secured contexts (each case = one real RSA handshake) the right-channel-id part of G1 for MSG/OPN/CLO/XXX and all MSG body variants; every ordered PAIR over the reduced 1-field-deviation alphabet (~20 frames) in the 6 unsecured contexts; "
	}
	rule += "floods of intermediate chunks after a None open: request ids {1, MaxChunkCount, MaxChunkCount+1, 64, 1024(, 8192 thorough)} x chunks per id {1, MaxChunkCount, MaxChunkCount+1} x chunk size {1 byte, full buffer} x limits {MaxChunkCount 4/MaxMessageSize 16384/8 KiB buffers; library defaults 512/2 MiB/64 KiB; client whose peer announced 0/0} (client: also with the flood hitting the pending request id), each followed by a conforming message; floods above 48 MiB on the wire are left out. Counted as non-trivial and distinct: every (context, limits, frame sequence or flood) - all of them are hostile or useless streams"
	r.Rule(rule)
	total := enumerateC13(thorough, func(int64, c13Case) {})
	r.Set("cases_enumerated", total)
	if os.Getenv("CHUNKS_BENCH") != "" {
		benchC13(thorough)
		return
	}
	if os.Getenv("CHUNKS_COUNT") != "" {
		fmt.Println("cases", total)
		return
	}
	deaths := evid.Sharded(r, 2<<30, func(s evid.ShardInfo, w *evid.Run) {
		pl := &pool{prop: "C13"}
		defer pl.close()
		enumerateC13(thorough, func(idx int64, c c13Case) {
			if !s.Mine(idx) {
				return
			}
			if pl.tooManyDeaths(150) {
				w.Capped("worker stopped after 150 executor deaths; the remaining cases of this shard were not run")
				return
			}
			t0 := time.Now()
			o := runViaPool(pl, c)
			if tf := os.Getenv("CHUNKS_TIMING"); tf != "" {
				if d := time.Since(t0); d > 100*time.Millisecond {
					if f, err := os.OpenFile(fmt.Sprintf("%s-%d.log", tf, s.Index), os.O_APPEND|os.O_CREATE|os.O_WRONLY, 0o644); err == nil {
						fk, _ := o.failure(c.Kind)
						fmt.Fprintf(f, "%v %s %s %s %s\n", d, c.Kind, c.Ctx, c.streamClass(), fk)
						f.Close()
					}
				}
			}
			w.Eval(fmt.Sprint(c.Kind, c.Ctx, c.Lim, c.Frames, c.Flood))
			if idx%4001 == 0 {
				w.Sample(c)
			}
			if o.NotJudged {
				w.NotJudged(1)
			}
			if c.Flood != nil && o.Pinned >= 64<<20 && o.DataBytes <= 4096 {
				w.Outcome("observation: a flood of <= 2048 one-byte intermediate chunks keeps >= 64 MiB of receive buffers reachable (each buffered chunk pins its whole ReceiveBufSize buffer)")
			}
			if o.PolicyFrom != o.PolicyTo && !o.OpenOK && o.Delivered == 0 {
				w.Outcome("observation: a rejected OPN frame changed the channel's configured security policy (not judged)")
			}
			sig, detail := classifyC13(pl, c, o)
			if sig == "" {
				w.Outcome(fmt.Sprintf("held: errors>0=%v delivered>0=%v open-ok=%v retained>0=%v", o.Errors > 0, o.Delivered > 0, o.OpenOK, o.OpenIDs > 0))
				return
			}
			fk, _ := o.failure(c.Kind)
			w.Outcome(fk)
			cj, _ := json.Marshal(c)
			w.Violate(sig, detail+"\ncase "+string(cj), c)
		})
	})
	for _, d := range deaths {
		if d.LastCase == "" {
			evid.EngineError("C13", "worker %d ended without a result and without a published case: %s %s", d.Shard, d.ExitErr, tail(d.Stderr, 500))
		}
		evid.EngineError("C13", "supervisor %d died (%s) while running %s: %s", d.Shard, d.ExitErr, d.LastCase, tail(d.Stderr, 800))
	}
	r.Assume("termination is judged after the peer has sent its bytes and closed its sending side: server kind = Receive returns io.EOF; client kind = the dispatcher reports io.EOF on the error channel and Open/SendRequest return. A peer that simply stops sending keeps any receiver waiting and is not a case",
		"hang detection: a 25 s watchdog after the peer closed (normal cost: microseconds), or the positive observation that the dispatcher is parked behind rcvLocker with no open() running (an absorbing state)",
		"memory bound judged (hook VerifChunkStats, uasc/export_verif_chunks.go): bytes buffered for one request id <= MaxMessageSize + one chunk; number of request ids with buffered chunks <= MaxChunkCount (server kind) / number of requests awaiting a response (client kind); with MaxMessageSize or MaxChunkCount = 0 (unlimited) retained chunks are reported as not_judged",
		"hostile frames in the Sign/SignAndEncrypt contexts are not protected with the channel keys (forging valid protection is C09/C10 territory); they exercise everything up to and including verifyAndDecrypt",
		"floods above 48 MiB on the wire per case, and floods of more than 2048 chunks with 64 KiB buffers (pinned memory would approach the executor's 2 GiB limit), are left out",
		"that readChunk copies the policy URI of an unverified OPN frame into the channel configuration is counted as an observation, not as a violation: the statement does not speak about configuration")
	r.Finish()
}

func benchC13(thorough bool) {
	env := newC13Env()
	type acc struct {
		n int
		d time.Duration
	}
	per := map[string]*acc{}
	enumerateC13(thorough, func(idx int64, c c13Case) {
		if idx%23 != 0 {
			return
		}
		k := c.Kind + " " + c.Ctx + fmt.Sprintf(" frames=%d flood=%v", len(c.Frames), c.Flood != nil)
		t0 := time.Now()
		o := runC13(c, env)
		if fk, _ := o.failure(c.Kind); fk != "" && !strings.HasPrefix(fk, "memory") && !strings.HasPrefix(fk, "panic") {
			k += " " + fk
		}
		a := per[k]
		if a == nil {
			a = &acc{}
			per[k] = a
		}
		a.n++
		a.d += time.Since(t0)
		if d := time.Since(t0); d > 15*time.Millisecond && c.Flood == nil && !secured(c.Ctx) {
			fmt.Printf("SLOW %v %s %s %s errors=%d results=%d\n", d, c.Kind, c.Ctx, c.streamClass(), o.Errors, o.Results)
		}
	})
	var ks []string
	for k := range per {
		ks = append(ks, k)
	}
	sort.Strings(ks)
	for _, k := range ks {
		fmt.Printf("%-80s n=%5d avg=%v total=%v\n", k, per[k].n, per[k].d/time.Duration(per[k].n), per[k].d)
	}
}
