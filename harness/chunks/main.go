// Receive path of the secure channel: C10 (replay), C12 (conforming chunk
// streams), C13 (hostile byte streams). One binary, dispatched on os.Args[1].
// All three drive the REAL uasc.SecureChannel over real loopback TCP.
package main

import (
	"fmt"
	"os"
)

func main() {
	if len(os.Args) < 2 {
		fmt.Println("ENGINE-ERROR usage: chunks <C10|C12|C13>")
		os.Exit(2)
	}
	// private scratch directory: the shared /var/tmp/verif-work is cleaned by other checks while this one runs
	if os.Getenv("VERIF_SCRATCH") == "" {
		os.Setenv("VERIF_SCRATCH", "/tmp/verif-chunks-work")
	}
	if os.Getenv("CHUNKS_EXECUTOR") != "" {
		switch os.Args[1] {
		case "C10":
			executorC10()
		case "C12":
			executorC12()
		case "C13":
			executorC13()
		}
		return
	}
	switch os.Args[1] {
	case "C10":
		mainC10()
	case "C12":
		mainC12()
	case "C13":
		mainC13()
	default:
		fmt.Printf("ENGINE-ERROR property=%s not handled by harness/chunks\n", os.Args[1])
		os.Exit(2)
	}
}
