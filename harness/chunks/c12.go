// C12: chunk streams from any conforming peer are reassembled correctly.
//
// The peer is the byte-level reference sender of wire.go. It opens a mode-None
// channel with the REAL receiving channel (client kind: uasc.NewSecureChannel +
// Open + SendRequest handlers; server kind: uasc.NewServerSecureChannel +
// Receive, as server/channel_broker.go does) over loopback TCP and then sends a
// conforming chunk stream.
package main

import (
	"context"
	"encoding/json"
	"fmt"
	"io"
	"os"
	"reflect"
	"sort"
	"strings"
	"sync"
	"time"

	"github.com/gopcua/opcua/ua"
	"verif/engine/evid"
)

// msgShape: a complete message of Data chunks (Data-1 'C' + one 'F'), or an
// aborted one (Data 'C' chunks followed by an 'A' chunk).
type msgShape struct {
	Data  int  `json:"data"`
	Abort bool `json:"abort"`
}

func (m msgShape) wire() int {
	if m.Abort {
		return m.Data + 1
	}
	return m.Data
}

func (m msgShape) String() string {
	if m.Abort {
		return fmt.Sprintf("%dC+A", m.Data)
	}
	return fmt.Sprintf("%dchunk", m.Data)
}

type seqPlan struct {
	// Plain: OPN carries First-1 and the stream counts up from First without a wrap.
	// Otherwise the chunk with index WrapAfter (-1 = the OPN chunk, k = k-th stream chunk)
	// carries Last (a value > 2^32-1025 from which the specification allows the roll-over)
	// and the next chunk carries WrapTo (< 1024).
	Plain     bool   `json:"plain"`
	First     uint32 `json:"first,omitempty"`
	WrapAfter int    `json:"wrap_after,omitempty"`
	Last      uint32 `json:"last,omitempty"`
	WrapTo    uint32 `json:"wrap_to,omitempty"`
}

type c12Case struct {
	Kind  string     `json:"kind"` // "server" or "client": kind of the RECEIVING channel
	Msgs  []msgShape `json:"msgs"`
	Order []int      `json:"order"` // interleaving: message index of every stream chunk
	Seq   seqPlan    `json:"seq"`
	Split int        `json:"split"` // 0 even, 1 one-byte first chunk, 2 empty final chunk
}

// seqNumbers returns the OPN sequence number and the numbers of the n stream chunks.
func (p seqPlan) numbers(n int) (opn uint32, s []uint32) {
	s = make([]uint32, n)
	if p.Plain {
		opn = p.First - 1
		for i := range s {
			s[i] = p.First + uint32(i)
		}
		return
	}
	// index -1 = OPN
	at := func(i int) uint32 {
		if i <= p.WrapAfter {
			return p.Last - uint32(p.WrapAfter-i)
		}
		return p.WrapTo + uint32(i-p.WrapAfter-1)
	}
	opn = at(-1)
	for i := range s {
		s[i] = at(i)
	}
	return
}

func pattern(tag byte, n int) []byte {
	b := make([]byte, n)
	for i := range b {
		b[i] = 'a' + byte((int(tag)*7+i*13+i/26)%26)
	}
	return b
}

var abortCodes = []uint32{uint32(ua.StatusBadRequestTooLarge), uint32(ua.StatusBadResponseTooLarge), uint32(ua.StatusBadEncodingLimitsExceeded)}

// splitBody cuts body into n parts according to the split class.
func splitBody(body []byte, n, class int) [][]byte {
	if n <= 0 {
		return nil
	}
	if n == 1 {
		return [][]byte{body}
	}
	parts := make([][]byte, 0, n)
	switch class {
	case 1: // first chunk one byte, rest even
		parts = append(parts, body[:1])
		parts = append(parts, splitBody(body[1:], n-1, 0)...)
	case 2: // final chunk empty
		parts = append(parts, splitBody(body, n-1, 0)...)
		parts = append(parts, body[len(body):])
	default:
		for i := 0; i < n; i++ {
			parts = append(parts, body[i*len(body)/n:(i+1)*len(body)/n])
		}
	}
	return parts
}

type streamChunk struct {
	msg   int
	typ   byte
	seq   uint32
	bytes []byte
}

// buildStream encodes the stream of a case. bodies[i] is the full service body of message i,
// reqIDs[i] its request id.
func buildStream(c c12Case, chanID, tokenID uint32, reqIDs []uint32, bodies [][]byte) (opnSeq uint32, stream []streamChunk, sentinelSeq uint32) {
	n := len(c.Order)
	opnSeq, seqs := c.Seq.numbers(n + 1) // +1: the sentinel/close that follows the stream
	parts := make([][][]byte, len(c.Msgs))
	for i, m := range c.Msgs {
		if m.Abort {
			// the data chunks an aborting sender had already sent: the first m.Data parts of a 3-way split
			parts[i] = splitBody(bodies[i], 3, 0)[:m.Data]
		} else {
			parts[i] = splitBody(bodies[i], m.Data, c.Split)
		}
	}
	next := make([]int, len(c.Msgs))
	for k, mi := range c.Order {
		m := c.Msgs[mi]
		j := next[mi]
		next[mi]++
		var typ byte
		var body []byte
		switch {
		case m.Abort && j == m.Data:
			typ, body = 'A', abortBody(abortCodes[mi%len(abortCodes)], "aborted by the reference sender")
		case !m.Abort && j == m.Data-1:
			typ, body = 'F', parts[mi][j]
		default:
			typ, body = 'C', parts[mi][j]
		}
		stream = append(stream, streamChunk{msg: mi, typ: typ, seq: seqs[k], bytes: symChunk("MSG", typ, chanID, tokenID, seqs[k], reqIDs[mi], body)})
	}
	return opnSeq, stream, seqs[n]
}

type c12Result struct {
	// per message: how often delivered, last error text, whether the content matched
	Delivered []int
	Detail    []string
	OK        []bool
	Order     []int // message indices in the order of delivery
	Spurious  []string
	Fatal     string // harness-level problem (engine error)
	Hang      string
	Died      string // the executor process died on this case
	DiedTop   string
	DiedLog   string
}

func executorC12() {
	srv, err := newSrvSide(c12Limits)
	if err != nil {
		fmt.Fprintln(os.Stderr, "executor:", err)
		os.Exit(3)
	}
	cli, err := newCliSide()
	if err != nil {
		fmt.Fprintln(os.Stderr, "executor:", err)
		os.Exit(3)
	}
	executorMain(func(line []byte) any {
		var c c12Case
		if err := json.Unmarshal(line, &c); err != nil {
			return c12Result{Fatal: "bad case: " + err.Error()}
		}
		res := runC12(c, srv, cli)
		if res.Fatal != "" { // retry once: a harness-level socket hiccup must not become a verdict
			res = runC12(c, srv, cli)
		}
		return res
	})
}

func runC12(c c12Case, srv *srvSide, cli *cliSide) c12Result {
	if c.Kind == "server" {
		return runC12Server(c, srv)
	}
	return runC12Client(c, cli)
}

func newC12Result(n int) c12Result {
	return c12Result{Delivered: make([]int, n), Detail: make([]string, n), OK: make([]bool, n)}
}

func runC12Server(c c12Case, srv *srvSide) (res c12Result) {
	res = newC12Result(len(c.Msgs))
	peer, sc, conn, _, err := srv.connect(noneConfig())
	if err != nil {
		res.Fatal = err.Error()
		return
	}
	defer func() { peer.Close(); sc.Close(); conn.Close() }()
	out := make(chan recvResult, 64)
	go recvLoop(sc, out, false)

	reqIDs := make([]uint32, len(c.Msgs))
	bodies := make([][]byte, len(c.Msgs))
	want := make([]any, len(c.Msgs))
	for i := range c.Msgs {
		reqIDs[i] = 101 + uint32(i)
		bodies[i] = svcBody(&ua.FindServersRequest{RequestHeader: reqHeader(reqIDs[i]), EndpointURL: string(pattern(byte(i), 90+7*i)), LocaleIDs: []string{"en"}})
		_, v, err := ua.DecodeService(bodies[i])
		if err != nil {
			res.Fatal = "reference body does not decode: " + err.Error()
			return
		}
		want[i] = v
	}
	opnSeq, stream, _ := buildStream(c, srvChannelID, srvTokenID, reqIDs, bodies)
	chanID, tokenID, err := peerOpenNone(peer, opnSeq, 100)
	if err != nil {
		res.Fatal = err.Error()
		return
	}
	if chanID != srvChannelID || tokenID != srvTokenID {
		res.Fatal = fmt.Sprintf("server issued channel %d token %d", chanID, tokenID)
		return
	}
	var all []byte
	for _, ch := range stream {
		all = append(all, ch.bytes...)
	}
	if err := writeAll(peer, all); err != nil {
		res.Fatal = err.Error()
		return
	}
	peer.CloseWrite()

	byID := map[uint32]int{}
	for i, id := range reqIDs {
		byID[id] = i
	}
	timer := time.NewTimer(watchdog)
	defer timer.Stop()
	first := true
	for {
		select {
		case r, ok := <-out:
			if !ok {
				return
			}
			if r.panicked != "" {
				res.Spurious = append(res.Spurious, "panic in Receive: "+r.panicked+" in "+topRepoFunc(r.stack))
				return
			}
			m := r.msg
			if m.Err == io.EOF {
				continue
			}
			if first && m.Err == nil && m.Request() == nil && m.RequestID == 0 {
				first = false // the placeholder Receive returns for the handled OPN request
				continue
			}
			i, known := byID[m.RequestID]
			if !known {
				res.Spurious = append(res.Spurious, fmt.Sprintf("Receive returned request id %d err=%v body=%T", m.RequestID, m.Err, m.Request()))
				continue
			}
			res.Delivered[i]++
			res.Order = append(res.Order, i)
			judgeC12(&res, c, i, m.Request(), m.Err, want[i])
		case <-timer.C:
			res.Hang = "server-kind Receive did not return after the peer finished and closed its sending side"
			return
		}
	}
}

func judgeC12(res *c12Result, c c12Case, i int, got any, err error, want any) {
	m := c.Msgs[i]
	if m.Abort {
		code := ua.StatusCode(abortCodes[i%len(abortCodes)])
		if err == code && isNilBody(got) {
			res.OK[i] = true
		} else {
			res.Detail[i] = fmt.Sprintf("aborted message: want error %v, got err=%v body=%T", code, err, got)
		}
		return
	}
	if err != nil {
		res.Detail[i] = fmt.Sprintf("complete message delivered with error: %v", err)
		return
	}
	if !reflect.DeepEqual(got, want) {
		res.Detail[i] = fmt.Sprintf("content differs from what the sender encoded: got %s", short(got))
		return
	}
	res.OK[i] = true
}

func isNilBody(v any) bool {
	if v == nil {
		return true
	}
	rv := reflect.ValueOf(v)
	return rv.Kind() == reflect.Ptr && rv.IsNil()
}

func short(v any) string {
	s := fmt.Sprintf("%+v", v)
	if len(s) > 300 {
		s = s[:300] + "…"
	}
	return s
}

func runC12Client(c c12Case, cli *cliSide) (res c12Result) {
	res = newC12Result(len(c.Msgs))
	cfg := noneConfig()
	cfg.RequestIDSeed = 200
	cc, err := cli.connect(c12Limits, cfg)
	if err != nil {
		res.Fatal = err.Error()
		return
	}
	defer func() { cc.peer.Close(); cc.sc.Close(); cc.conn.Close() }()

	n := len(c.Msgs)
	// the OPN response's sequence number is part of the plan, but the request ids are only known
	// after the client has sent its requests; open first with a provisional plan.
	opnSeq, _ := c.Seq.numbers(len(c.Order) + 1)
	if err := cc.openNone(opnSeq); err != nil {
		res.Fatal = "open: " + err.Error()
		return
	}

	type outcome struct {
		resp ua.Response
		err  error
	}
	outs := make([]chan outcome, n+1)
	reqIDs := make([]uint32, n+1)
	var mu sync.Mutex
	calls := make([]int, n+1)
	for i := 0; i <= n; i++ {
		outs[i] = make(chan outcome, 1)
		i := i
		go func() {
			var got ua.Response
			err := cc.sc.SendRequest(context.Background(), &ua.ReadRequest{MaxAge: float64(i), NodesToRead: []*ua.ReadValueID{{NodeID: ua.NewNumericNodeID(0, 2258), AttributeID: ua.AttributeIDValue, DataEncoding: &ua.QualifiedName{}}}}, nil,
				func(r ua.Response) error {
					mu.Lock()
					calls[i]++
					mu.Unlock()
					got = r
					return nil
				})
			outs[i] <- outcome{got, err}
		}()
		f, err := readFrame(cc.peer)
		if err != nil {
			res.Fatal = "peer: no request from client: " + err.Error()
			return
		}
		rc, err := parsePlainChunk(f)
		if err != nil || rc.MsgType != "MSG" {
			res.Fatal = fmt.Sprintf("peer: bad request chunk: %v", err)
			return
		}
		reqIDs[i] = rc.ReqID
	}
	bodies := make([][]byte, n)
	want := make([]any, n)
	for i := 0; i < n; i++ {
		bodies[i] = svcBody(&ua.ReadResponse{ResponseHeader: respHeader(reqIDs[i]), Results: []*ua.DataValue{{EncodingMask: ua.DataValueValue, Value: ua.MustVariant(pattern(byte(i), 90+7*i))}}})
		_, v, err := ua.DecodeService(bodies[i])
		if err != nil {
			res.Fatal = "reference body does not decode: " + err.Error()
			return
		}
		want[i] = v
	}
	_, stream, sentSeq := buildStream(c, cliChannelID, cliTokenID, reqIDs[:n], bodies)
	var all []byte
	for _, ch := range stream {
		all = append(all, ch.bytes...)
	}
	// sentinel: a conforming single-chunk response to the last request; once its handler has run,
	// the dispatcher has processed every chunk before it.
	sentBody := svcBody(&ua.ReadResponse{ResponseHeader: respHeader(reqIDs[n]), Results: []*ua.DataValue{{EncodingMask: ua.DataValueValue, Value: ua.MustVariant("sentinel")}}})
	all = append(all, symChunk("MSG", 'F', cliChannelID, cliTokenID, sentSeq, reqIDs[n], sentBody)...)
	if err := writeAll(cc.peer, all); err != nil {
		res.Fatal = err.Error()
		return
	}
	select {
	case o := <-outs[n]:
		if o.err != nil {
			res.Spurious = append(res.Spurious, fmt.Sprintf("the conforming single-chunk sentinel response after the stream was not delivered: %v", o.err))
			// continue: classification of the other messages still applies
		}
	case <-time.After(watchdog):
		res.Hang = "the conforming single-chunk sentinel response after the stream was never delivered (dispatcher stuck or response lost)"
		return
	}
	// everything the dispatcher will ever deliver for this stream has been handed to a handler channel;
	// requests whose handler is still registered were never answered.
	pending := map[uint32]bool{}
	for _, id := range cc.sc.VerifChunkStats().HandlerIDs {
		pending[id] = true
	}
	results := make([]*outcome, n)
	for i := 0; i < n; i++ {
		if pending[reqIDs[i]] {
			continue
		}
		select {
		case o := <-outs[i]:
			results[i] = &o
		case <-time.After(watchdog):
			res.Hang = fmt.Sprintf("handler of request %d was popped but SendRequest never returned", reqIDs[i])
			return
		}
	}
	cc.peer.Close()
	for i := 0; i < n; i++ {
		if results[i] != nil {
			continue
		}
		select {
		case <-outs[i]: // returns io.EOF after the disconnect: never answered
		case <-time.After(watchdog):
			res.Hang = fmt.Sprintf("SendRequest %d did not return after the connection closed", reqIDs[i])
			return
		}
	}
	for i := 0; i < n; i++ {
		if results[i] == nil {
			continue
		}
		res.Delivered[i] = 1
		var got any
		if results[i].resp != nil {
			got = results[i].resp
		}
		judgeC12(&res, c, i, got, results[i].err, want[i])
	}
	mu.Lock()
	for i := 0; i < n; i++ {
		if calls[i] > 1 {
			res.Delivered[i] = calls[i]
		}
	}
	mu.Unlock()
	return
}

// ---------------------------------------------------------------- classification

func c12Features(c c12Case, i int) string {
	_, seqs := c.Seq.numbers(len(c.Order) + 1)
	firstSeq, zeroInside, interleaved := uint32(1), false, false
	firstPos, lastPos, cnt := -1, -1, 0
	for k, mi := range c.Order {
		if mi != i {
			continue
		}
		if firstPos < 0 {
			firstPos = k
			firstSeq = seqs[k]
		} else if seqs[k] == 0 {
			zeroInside = true
		}
		lastPos = k
		cnt++
	}
	if lastPos-firstPos+1 != cnt {
		interleaved = true
	}
	f := c.Msgs[i].String()
	if firstSeq == 0 {
		f += ",first-chunk-seq=0"
	} else {
		f += ",first-chunk-seq>0"
	}
	if zeroInside {
		f += ",later-chunk-seq=0"
	}
	_ = interleaved // reported in the detail only: the known defect does not depend on it
	return f
}

// verdictC12 turns a result into (signature, detail); "" = held.
func verdictC12(c c12Case, r c12Result) (sig, detail string) {
	if r.Died != "" {
		return fmt.Sprintf("reassembly/%s/None/process-died[%s]/%s", c.Kind, r.Died, r.DiedTop), "the receiving process died while handling a conforming stream\n" + r.DiedLog
	}
	if r.Hang != "" {
		return fmt.Sprintf("reassembly/%s/None/hang/%s", c.Kind, hangSite(c.Kind)), r.Hang
	}
	if len(r.Spurious) > 0 {
		return fmt.Sprintf("reassembly/%s/None/spurious-delivery/%s", c.Kind, recvSite(c.Kind)), strings.Join(r.Spurious, "; ")
	}
	// expected delivery order = order of the closing (F or A) chunks
	var wantOrder []int
	seen := make([]int, len(c.Msgs))
	for _, mi := range c.Order {
		seen[mi]++
		if seen[mi] == c.Msgs[mi].wire() {
			wantOrder = append(wantOrder, mi)
		}
	}
	for i := range c.Msgs {
		kind := ""
		switch {
		case r.Delivered[i] == 0:
			kind = "not-delivered"
		case r.Delivered[i] > 1:
			kind = "delivered-more-than-once"
		case !r.OK[i]:
			if c.Msgs[i].Abort {
				kind = "abort-not-reported-as-sent"
			} else {
				kind = "not-delivered-intact"
			}
		}
		if kind != "" {
			return fmt.Sprintf("reassembly/%s/None/msg[%s]/%s/%s", c.Kind, c12Features(c, i), kind, recvSite(c.Kind)),
				fmt.Sprintf("message %d (%s): delivered %d time(s); %s", i, c.Msgs[i], r.Delivered[i], r.Detail[i])
		}
	}
	if c.Kind == "server" && !reflect.DeepEqual(r.Order, wantOrder) {
		return fmt.Sprintf("reassembly/%s/None/delivery-order/%s", c.Kind, recvSite(c.Kind)), fmt.Sprintf("delivered in order %v, closing chunks arrived in order %v", r.Order, wantOrder)
	}
	return "", ""
}

func recvSite(kind string) string {
	if kind == "server" {
		return "uasc.(*SecureChannel).Receive"
	}
	return "uasc.(*SecureChannel).dispatcher"
}
func hangSite(kind string) string { return recvSite(kind) }

// ---------------------------------------------------------------- enumeration

// small buffers: every Receive allocates a buffer of the negotiated size
var c12Limits = limits{Recv: 8192, Send: 8192, MaxMsg: 1 << 20, MaxChunks: 64}

func shapesC12() []msgShape {
	return []msgShape{{1, false}, {2, false}, {3, false}, {0, true}, {1, true}, {2, true}}
}

// interleavings enumerates every merge of the per-message chunk sequences.
func interleavings(counts []int, f func(order []int)) {
	total := 0
	for _, c := range counts {
		total += c
	}
	left := append([]int(nil), counts...)
	cur := make([]int, 0, total)
	var rec func()
	rec = func() {
		if len(cur) == total {
			f(cur)
			return
		}
		for i := range left {
			if left[i] > 0 {
				left[i]--
				cur = append(cur, i)
				rec()
				cur = cur[:len(cur)-1]
				left[i]++
			}
		}
	}
	rec()
}

// seqPlansC12 returns the numberings explored for a stream of n chunks sent as nmsgs messages.
// quick:    plain numbering from 2 for every stream; additionally, for streams of at most 2 messages
//
//	or at most 5 chunks: plain from 1 and the roll-over (last = 2^32-1025) to 0 and to 1,
//	placed after the OPN chunk and after every stream chunk.
//
// thorough: the quick set for every stream; for streams of at most 2 messages or at most 5 chunks
//
//	additionally plain from 1000, last in {2^32-1024, 2^32-1} and roll-over to 1023.
func seqPlansC12(n, nmsgs int, thorough bool) []seqPlan {
	plans := []seqPlan{{Plain: true, First: 2}}
	small := nmsgs <= 2 || n <= 5
	if !small && !thorough {
		return plans
	}
	plans = append(plans, seqPlan{Plain: true, First: 1})
	lasts := []uint32{0xffffffff - 1024}
	tos := []uint32{0, 1}
	if thorough && small {
		plans = append(plans, seqPlan{Plain: true, First: 1000})
		lasts = []uint32{0xffffffff - 1024, 0xffffffff - 1023, 0xffffffff}
		tos = []uint32{0, 1, 1023}
	}
	for _, l := range lasts {
		for _, to := range tos {
			for at := -1; at <= n-2; at++ {
				plans = append(plans, seqPlan{WrapAfter: at, Last: l, WrapTo: to})
			}
		}
	}
	return plans
}

func enumerateC12(thorough bool, f func(idx int64, c c12Case)) int64 {
	shapes := shapesC12()
	var idx int64
	maxMsgs := 3
	var tuple []msgShape
	var rec func()
	rec = func() {
		if len(tuple) > 0 {
			counts := make([]int, len(tuple))
			multi := false
			for i, m := range tuple {
				counts[i] = m.wire()
				if !m.Abort && m.Data > 1 {
					multi = true
				}
			}
			splits := []int{0}
			if multi {
				splits = []int{0, 1, 2}
			}
			interleavings(counts, func(order []int) {
				n := len(order)
				plans := seqPlansC12(n, len(tuple), thorough)
				for _, kind := range []string{"server", "client"} {
					for _, p := range plans {
						for _, sp := range splits {
							if sp != 0 && (!(p.Plain && p.First == 2) || (!thorough && len(tuple) > 2 && n > 5)) {
								continue // the uneven split classes are combined with the plain numbering only (quick: only for small streams)
							}
							f(idx, c12Case{Kind: kind, Msgs: append([]msgShape(nil), tuple...), Order: append([]int(nil), order...), Seq: p, Split: sp})
							idx++
						}
					}
				}
			})
		}
		if len(tuple) == maxMsgs {
			return
		}
		for _, s := range shapes {
			tuple = append(tuple, s)
			rec()
			tuple = tuple[:len(tuple)-1]
		}
	}
	rec()
	return idx
}

func caseKeyC12(c c12Case) string {
	// non-trivial: more than one chunk in the stream (so that merging, keyed buffering or abort handling is exercised)
	if len(c.Order) < 2 {
		return ""
	}
	return fmt.Sprint(c.Kind, c.Msgs, c.Order, c.Seq, c.Split)
}

func mainC12() {
	r := evid.New("C12")
	var rc c12Case
	if evid.ReplayInput(&rc) {
		pl := &pool{prop: "C12"}
		var res c12Result
		d, err := pl.run(rc, &res)
		pl.close()
		if err != nil {
			evid.EngineError("C12", "%v", err)
		}
		if d != nil {
			res = newC12Result(len(rc.Msgs))
			res.Died, res.DiedTop, res.DiedLog = d.Kind, d.Top, d.Exit+"\n"+head(d.Stderr, 2500)
		}
		sig, detail := verdictC12(rc, res)
		fmt.Printf("replay %+v\n result %+v\n sig=%q\n detail=%q\n", rc, res, sig, detail)
		if sig != "" || res.Fatal != "" {
			os.Exit(1)
		}
		return
	}
	thorough := evid.Thorough()
	if nb := os.Getenv("CHUNKS_BENCH"); nb != "" {
		benchC12(thorough, nb)
		return
	}
	r.Rule("reference sender (hand-encoded, mode None) -> real receiving channel over loopback TCP; every tuple of 1..3 messages over the shapes {1,2,3 data chunks complete; 0,1,2 data chunks then abort} x EVERY interleaving of their chunks that keeps per-message order x receiving channel kind {server, client} x sequence numbering {plain starts; roll-over placed after the OPN chunk and after every stream chunk, to 0/1(/1023)} x body split class; counted as non-trivial and distinct: (kind, shapes, interleaving, numbering, split) with at least 2 chunks in the stream")
	total := enumerateC12(thorough, func(int64, c12Case) {})
	r.Set("cases_enumerated", total)
	deaths := evid.Sharded(r, 2<<30, func(s evid.ShardInfo, w *evid.Run) {
		pl := &pool{prop: "C12"}
		defer pl.close()
		outcomes := map[string]int{}
		hangs := 0
		enumerateC12(thorough, func(idx int64, c c12Case) {
			if !s.Mine(idx) {
				return
			}
			if pl.tooManyDeaths(5) {
				w.Capped("worker stopped after 5 executor deaths; the remaining cases of this shard were not run")
				return
			}
			if hangs >= 2 {
				// every hang verdict costs a full watchdog period; the run already FAILED, do not spend hours confirming it
				w.Capped("worker stopped after 2 hang verdicts (each costs a 25 s watchdog); the remaining cases of this shard were not run")
				return
			}
			var res c12Result
			d, err := pl.run(c, &res)
			if err != nil {
				evid.EngineError("C12", "executor failure on case %+v: %v", c, err)
			}
			if d != nil {
				res = newC12Result(len(c.Msgs))
				res.Died, res.DiedTop, res.DiedLog = d.Kind, d.Top, d.Exit+"\n"+head(d.Stderr, 2500)
			}
			if res.Fatal != "" {
				evid.EngineError("C12", "harness failure on case %+v: %s", c, res.Fatal)
			}
			w.Eval(caseKeyC12(c))
			if idx%9973 == 0 {
				w.Sample(c)
			}
			sig, detail := verdictC12(c, res)
			if res.Hang != "" {
				hangs++
			}
			o := "all messages delivered exactly once and intact"
			if sig != "" {
				o = sig
				w.Violate(sig, fmt.Sprintf("%s; case %+v", detail, c), c)
			} else {
				ab := 0
				for _, m := range c.Msgs {
					if m.Abort {
						ab++
					}
				}
				o = fmt.Sprintf("held: %d message(s), %d aborted", len(c.Msgs), ab)
			}
			outcomes[o]++
		})
		keys := make([]string, 0, len(outcomes))
		for k := range outcomes {
			keys = append(keys, k)
		}
		sort.Strings(keys)
		for _, k := range keys {
			for i := 0; i < outcomes[k]; i++ {
				w.Outcome(k)
			}
		}
	})
	for _, d := range deaths {
		evid.EngineError("C12", "supervisor %d died (%s) while running %s: %s", d.Shard, d.ExitErr, d.LastCase, tail(d.Stderr, 800))
	}
	r.Assume("security mode None only: reassembly (Receive, the chunks table, mergeChunks) runs after verifyAndDecrypt and does not depend on the mode; the secured receive path is covered by C10/C13",
		"message bodies are FindServersRequest / ReadResponse values carrying a position-dependent pattern, so a lost, duplicated or misplaced chunk changes the decoded value",
		"client kind: delivery is observed at the SendRequest response handler; a conforming sentinel response sent after the stream marks the point where the dispatcher has consumed the stream (no timers decide anything)",
		"server kind: Receive is called in a loop until io.EOF as server/channel_broker.go does, except that the loop continues after a non-EOF error (the statement is about the channel, the broker's policy of dropping the channel on any error is not judged here)")
	r.Finish()
}

func firstPanicLine(s string) string {
	for _, l := range strings.Split(s, "\n") {
		if strings.HasPrefix(l, "panic:") || strings.HasPrefix(l, "fatal error:") {
			return l
		}
	}
	return "no-panic-line"
}

func head(s string, n int) string {
	if len(s) > n {
		return s[:n] + "…"
	}
	return s
}

func tail(s string, n int) string {
	if len(s) > n {
		return s[len(s)-n:]
	}
	return s
}

func benchC12(thorough bool, nb string) {
	var n int64
	fmt.Sscan(nb, &n)
	total := enumerateC12(thorough, func(int64, c12Case) {})
	fmt.Println("total cases", total)
	srv, _ := newSrvSide(c12Limits)
	cli, _ := newCliSide()
	stride := total / n
	for _, kind := range []string{"server", "client"} {
		t0 := time.Now()
		cnt := 0
		bad := map[string]int{}
		enumerateC12(thorough, func(idx int64, c c12Case) {
			if idx%stride != 0 && !(idx%stride == 1) || c.Kind != kind {
				return
			}
			res := runC12(c, srv, cli)
			if res.Fatal != "" {
				fmt.Println("FATAL", res.Fatal)
			}
			sig, _ := verdictC12(c, res)
			bad[sig]++
			cnt++
		})
		fmt.Println(kind, cnt, "cases", time.Since(t0), time.Since(t0)/time.Duration(cnt+1), bad)
	}
}
