// Crash-isolating case executor. gopcua starts its own goroutines (the client
// dispatcher, timers) whose panics cannot be recovered by a harness, and a
// runtime "fatal error" (out of memory under the address-space limit, stack
// overflow) kills the process in any case. Every evid.Sharded worker therefore
// supervises ONE executor sub-process (this same binary with CHUNKS_EXECUTOR
// set): cases go in as JSON lines on stdin, results come back as JSON lines on
// stdout. When the executor dies, the supervisor knows the case in flight
// (also evid.Publish-ed, in case the supervisor dies too), keeps the head of
// the crash output (the faulting goroutine comes first), reports that case and
// starts a fresh executor for the next case.
package main

import (
	"bufio"
	"encoding/json"
	"fmt"
	"io"
	"os"
	"os/exec"
	"strings"
	"sync"
	"time"

	"verif/engine/evid"
)

type headBuf struct {
	mu  sync.Mutex
	b   []byte
	max int
}

func (h *headBuf) Write(p []byte) (int, error) {
	h.mu.Lock()
	if room := h.max - len(h.b); room > 0 {
		if len(p) < room {
			room = len(p)
		}
		h.b = append(h.b, p[:room]...)
	}
	h.mu.Unlock()
	return len(p), nil
}

func (h *headBuf) String() string { h.mu.Lock(); defer h.mu.Unlock(); return string(h.b) }

type executor struct {
	prop   string
	cmd    *exec.Cmd
	in     io.WriteCloser
	out    *bufio.Reader
	stderr *headBuf
	done   chan error
}

func startExecutor(prop string) (*executor, error) {
	// /proc/self/exe keeps working when the binary file is replaced or removed while the check runs
	// (bin/check rebuilds into the same path; other checks clean /verif/.bin)
	self := "/proc/self/exe"
	if _, err := os.Stat(self); err != nil {
		self = os.Args[0]
	}
	cmd := exec.Command(self, prop)
	env := []string{"CHUNKS_EXECUTOR=1", "GOMAXPROCS=2", "GOTRACEBACK=single"}
	for _, e := range os.Environ() {
		if strings.HasPrefix(e, "VERIF_SHARD") || strings.HasPrefix(e, "GOMAXPROCS=") || strings.HasPrefix(e, "GOTRACEBACK=") {
			continue
		}
		env = append(env, e)
	}
	cmd.Env = env
	in, err := cmd.StdinPipe()
	if err != nil {
		return nil, err
	}
	outp, err := cmd.StdoutPipe()
	if err != nil {
		return nil, err
	}
	hb := &headBuf{max: 1 << 16}
	cmd.Stderr = hb
	if err := cmd.Start(); err != nil {
		return nil, err
	}
	e := &executor{prop: prop, cmd: cmd, in: in, out: bufio.NewReaderSize(outp, 1<<20), stderr: hb, done: make(chan error, 1)}
	return e, nil
}

func (e *executor) stop() {
	if e == nil {
		return
	}
	e.in.Close()
	t := time.AfterFunc(5*time.Second, func() { e.cmd.Process.Kill() })
	e.cmd.Wait()
	t.Stop()
}

type death struct {
	Exit   string
	Stderr string
	Kind   string // "panic: ..." / "fatal error: ..." class
	Top    string // top in-repo function of the faulting goroutine
}

// supervisorTimeout bounds one case from the outside; every wait inside the executor has its own
// watchdog, so reaching this means the executor itself is stuck.
const supervisorTimeout = 10 * time.Minute

// run executes one case. res is the executor's JSON result; d != nil if the executor died on this case.
func (e *executor) run(c any) (res json.RawMessage, d *death, err error) {
	b, err := json.Marshal(c)
	if err != nil {
		return nil, nil, err
	}
	if _, err := e.in.Write(append(b, '\n')); err != nil {
		// the executor is already gone (cannot happen between cases unless it was killed from outside)
		return nil, e.collectDeath(), nil
	}
	type rd struct {
		line []byte
		err  error
	}
	ch := make(chan rd, 1)
	go func() {
		l, err := e.out.ReadBytes('\n')
		ch <- rd{l, err}
	}()
	select {
	case r := <-ch:
		if r.err != nil {
			return nil, e.collectDeath(), nil
		}
		return json.RawMessage(r.line), nil, nil
	case <-time.After(supervisorTimeout):
		e.cmd.Process.Kill()
		<-ch
		e.cmd.Wait()
		return nil, nil, fmt.Errorf("executor did not answer within %s", supervisorTimeout)
	}
}

func (e *executor) collectDeath() *death {
	err := e.cmd.Wait()
	d := &death{Stderr: e.stderr.String()}
	if err != nil {
		d.Exit = err.Error()
	} else {
		d.Exit = "exit 0 without a result"
	}
	d.Kind = panicClass(firstPanicLine(d.Stderr))
	d.Top = topRepoFunc(d.Stderr)
	return d
}

// pool is the per-worker supervisor state.
type pool struct {
	prop   string
	ex     *executor
	deaths int // executor deaths so far in this worker
}

// tooManyDeaths: every death costs a process start and, for out-of-memory deaths, seconds of page
// faults; a run that keeps killing its executor has FAILED already and is cut short (reported as capped).
func (p *pool) tooManyDeaths(limit int) bool { return p.deaths >= limit }

func (p *pool) run(c any, into any) (*death, error) {
	if p.ex == nil {
		ex, err := startExecutor(p.prop)
		if err != nil {
			return nil, err
		}
		p.ex = ex
	}
	pub, _ := json.Marshal(c)
	evid.Publish(string(pub))
	res, d, err := p.ex.run(c)
	if err != nil {
		p.ex = nil
		return nil, err
	}
	if d != nil {
		p.ex = nil
		p.deaths++
		return d, nil
	}
	return nil, json.Unmarshal(res, into)
}

func (p *pool) close() {
	if p.ex != nil {
		p.ex.stop()
		p.ex = nil
	}
}

// executorMain is the loop of the executor sub-process.
func executorMain(handle func(line []byte) any) {
	in := bufio.NewReaderSize(os.Stdin, 1<<20)
	out := bufio.NewWriter(os.Stdout)
	for {
		line, err := in.ReadBytes('\n')
		if len(line) > 0 {
			res := handle(line)
			b, merr := json.Marshal(res)
			if merr != nil {
				fmt.Fprintln(os.Stderr, "executor: marshal:", merr)
				os.Exit(3)
			}
			out.Write(b)
			out.WriteByte('\n')
			out.Flush()
		}
		if err != nil {
			return
		}
	}
}
