// C10: a replayed (or re-ordered) secured chunk is never delivered twice.
//
// A REAL gopcua sender (client channel for client->server, server channel for
// server->client) talks to a REAL gopcua receiver through a TCP proxy written
// here. The proxy forwards HEL/ACK and the OPN exchange untouched, then
// captures the n secured chunks of a message history, and delivers a mutated
// history (verbatim copies of earlier chunks inserted, adjacent chunks
// swapped) to the receiver. Nothing is forged: every delivered byte string is
// a chunk the real sender produced for this very channel.
package main

import (
	"context"
	"encoding/json"
	"fmt"
	"io"
	"net"
	"os"
	"reflect"
	"sort"
	"strings"
	"sync"
	"time"

	"github.com/gopcua/opcua/ua"
	"github.com/gopcua/opcua/uacp"
	"github.com/gopcua/opcua/uapolicy"
	"github.com/gopcua/opcua/uasc"
	"verif/engine/evid"
	"verif/engine/keys"
)

type c10Case struct {
	Dir    string `json:"dir"`    // "c2s": receiver is the server-kind channel; "s2c": receiver is the client-kind channel
	Policy string `json:"policy"` // short name
	Mode   int    `json:"mode"`   // 2 Sign, 3 SignAndEncrypt
	Hist   []int  `json:"hist"`   // chunks per message, in sending order
	Op     string `json:"op"`     // "none", "dup1", "dup2", "swap"
	Seq    []int  `json:"seq"`    // the delivered history as indices into the captured chunk list
}

var c10Limits = limits{Recv: 8192, Send: 8192, MaxMsg: 1 << 20, MaxChunks: 64}

// body sizes that make the real sender emit exactly 1,2,3,4 chunks with 8192-byte buffers
var c10BodyLen = map[int]int{1: 200, 2: 12000, 3: 20000, 4: 28000}

func policyURI(short string) string { return ua.SecurityPolicyURIPrefix + short }

func modeName(m int) string {
	switch ua.MessageSecurityMode(m) {
	case ua.MessageSecurityModeSign:
		return "Sign"
	case ua.MessageSecurityModeSignAndEncrypt:
		return "SignAndEncrypt"
	case ua.MessageSecurityModeNone:
		return "None"
	}
	return fmt.Sprint(m)
}

func keyBitsFor(policy string) int {
	return 2048 // allowed by all five policies
}

// securedPair is a real client channel and a real server channel connected through the proxy sockets.
type securedPair struct {
	cli     *uasc.SecureChannel
	cliConn *uacp.Conn
	cliErr  chan error
	srv     *uasc.SecureChannel
	srvConn *uacp.Conn
	pc      *net.TCPConn // proxy <-> client
	ps      *net.TCPConn // proxy <-> server
	srvOut  chan recvResult
}

func (p *securedPair) close() {
	p.pc.Close()
	p.ps.Close()
	p.cli.Close()
	p.srv.Close()
	p.cliConn.Close()
	p.srvConn.Close()
}

type proxySide struct {
	ln   *net.TCPListener
	addr *net.TCPAddr
}

func newProxySide() (*proxySide, error) {
	ln, err := net.ListenTCP("tcp", &net.TCPAddr{IP: net.IPv4(127, 0, 0, 1)})
	if err != nil {
		return nil, err
	}
	return &proxySide{ln: ln, addr: ln.Addr().(*net.TCPAddr)}, nil
}

func fwd(from, to *net.TCPConn) ([]byte, error) {
	f, err := readFrame(from)
	if err != nil {
		return nil, err
	}
	return f, writeAll(to, f)
}

// openSecuredPair builds real client <-> proxy <-> real server with the given policy and mode.
// mode 1 (None) uses policy None.
func openSecuredPair(px *proxySide, srv *srvSide, policy string, mode int) (*securedPair, error) {
	ck, sk := keys.MustLoad(keyBitsFor(policy), "a"), keys.MustLoad(keyBitsFor(policy), "b")
	type cres struct {
		conn *uacp.Conn
		err  error
	}
	cch := make(chan cres, 1)
	go func() {
		tc, err := net.DialTCP("tcp", nil, px.addr)
		if err != nil {
			cch <- cres{nil, err}
			return
		}
		conn, err := uacp.NewConn(tc, &uacp.Acknowledge{ReceiveBufSize: srv.lim.Send, SendBufSize: srv.lim.Recv})
		if err != nil {
			tc.Close()
			cch <- cres{nil, err}
			return
		}
		ctx, cancel := context.WithTimeout(context.Background(), peerIOTimeout)
		defer cancel()
		if err := conn.Handshake(ctx, "opc.tcp://127.0.0.1"); err != nil {
			conn.Close()
			cch <- cres{nil, err}
			return
		}
		cch <- cres{conn, nil}
	}()
	px.ln.SetDeadline(time.Now().Add(peerIOTimeout))
	pc, err := px.ln.AcceptTCP()
	if err != nil {
		return nil, err
	}
	hel, err := readFrame(pc)
	if err != nil {
		pc.Close()
		return nil, fmt.Errorf("proxy: no HEL: %v", err)
	}
	sch := make(chan cres, 1)
	go func() {
		c, err := srv.ln.Accept(context.Background())
		sch <- cres{c, err}
	}()
	ps, err := net.DialTCP("tcp", nil, srv.addr)
	if err != nil {
		pc.Close()
		return nil, err
	}
	fail := func(err error) (*securedPair, error) { pc.Close(); ps.Close(); return nil, err }
	if err := writeAll(ps, hel); err != nil {
		return fail(err)
	}
	if _, err := fwd(ps, pc); err != nil {
		return fail(fmt.Errorf("proxy: ACK: %v", err))
	}
	cr, sr := <-cch, <-sch
	if cr.err != nil || sr.err != nil {
		return fail(fmt.Errorf("handshake: client %v server %v", cr.err, sr.err))
	}
	ccfg := &uasc.Config{Lifetime: 3600000, RequestTimeout: requestTimeout, RequestIDSeed: 300}
	scfg := &uasc.Config{SecurityPolicyURI: ua.SecurityPolicyURINone, SecurityMode: ua.MessageSecurityModeNone, Lifetime: 3600000, RequestTimeout: requestTimeout,
		Certificate: sk.CertDER, LocalKey: sk.Key}
	if ua.MessageSecurityMode(mode) == ua.MessageSecurityModeNone {
		ccfg.SecurityPolicyURI, ccfg.SecurityMode = ua.SecurityPolicyURINone, ua.MessageSecurityModeNone
	} else {
		ccfg.SecurityPolicyURI, ccfg.SecurityMode = policyURI(policy), ua.MessageSecurityMode(mode)
		ccfg.Certificate, ccfg.LocalKey = ck.CertDER, ck.Key
		ccfg.RemoteCertificate = sk.CertDER
		ccfg.Thumbprint = uapolicy.Thumbprint(sk.CertDER)
	}
	p := &securedPair{pc: pc, ps: ps, cliConn: cr.conn, srvConn: sr.conn, cliErr: make(chan error, 4096)}
	p.srv, err = uasc.NewServerSecureChannel("", sr.conn, scfg, make(chan error, 4096), srvChannelID, srvSeqStart, srvTokenID)
	if err != nil {
		return fail(err)
	}
	p.cli, err = uasc.NewSecureChannel("opc.tcp://127.0.0.1", cr.conn, ccfg, p.cliErr)
	if err != nil {
		return fail(err)
	}
	p.srvOut = make(chan recvResult, 256)
	go recvLoop(p.srv, p.srvOut, false)
	odone := make(chan error, 1)
	go func() { odone <- p.cli.Open(context.Background()) }()
	if _, err := fwd(pc, ps); err != nil {
		p.close()
		return nil, fmt.Errorf("proxy: OPN request: %v", err)
	}
	if _, err := fwd(ps, pc); err != nil {
		p.close()
		return nil, fmt.Errorf("proxy: OPN response: %v", err)
	}
	select {
	case err := <-odone:
		if err != nil {
			p.close()
			return nil, fmt.Errorf("open through proxy: %v", err)
		}
	case <-time.After(watchdog):
		p.close()
		return nil, fmt.Errorf("open through proxy did not return")
	}
	// the placeholder Receive returns for the OPN request
	select {
	case r := <-p.srvOut:
		if r.panicked != "" || r.msg.Err != nil {
			p.close()
			return nil, fmt.Errorf("server Receive after OPN: %v %s", r.msg, r.panicked)
		}
	case <-time.After(watchdog):
		p.close()
		return nil, fmt.Errorf("server Receive did not return after OPN")
	}
	return p, nil
}

// readFrames reads n frames on a goroutine.
func readFrames(c *net.TCPConn, n int) <-chan [][]byte {
	ch := make(chan [][]byte, 1)
	go func() {
		var out [][]byte
		for i := 0; i < n; i++ {
			f, err := readFrame(c)
			if err != nil {
				break
			}
			out = append(out, f)
		}
		ch <- out
	}()
	return ch
}

// ---------------------------------------------------------------- reference receiver

type chunkInfo struct {
	msg  int
	typ  byte // 'C' or 'F'
	role string
}

func histChunks(hist []int) []chunkInfo {
	var out []chunkInfo
	for m, n := range hist {
		for j := 0; j < n; j++ {
			ci := chunkInfo{msg: m, typ: 'C', role: "intermediate"}
			if j == n-1 {
				ci.typ = 'F'
				ci.role = "final-of-multi"
				if n == 1 {
					ci.role = "single"
				}
			}
			out = append(out, ci)
		}
	}
	return out
}

type refOutcome struct {
	intact   []int        // messages delivered intact, in order
	garbage  map[int]bool // messages for which an incomplete assembly reaches the decoder
	retained int          // chunks left buffered at the end
	rejected []int        // positions (in the delivered history) a strictly-increasing receiver rejects
}

// refReceive is the reference: a receiver that enforces strictly increasing sequence numbers
// (captured order = sequence order; no roll-over inside these short histories).
func refReceive(hist []int, seq []int) refOutcome {
	info := histChunks(hist)
	out := refOutcome{garbage: map[int]bool{}}
	last := -1
	buf := map[int][]int{}
	for pos, k := range seq {
		if k <= last {
			out.rejected = append(out.rejected, pos)
			continue
		}
		last = k
		m := info[k].msg
		if info[k].typ == 'C' {
			buf[m] = append(buf[m], k)
			continue
		}
		all := append(buf[m], k)
		delete(buf, m)
		if len(all) == hist[m] {
			out.intact = append(out.intact, m)
		} else {
			out.garbage[m] = true
		}
	}
	for _, b := range buf {
		out.retained += len(b)
	}
	return out
}

// offenderClass names the class of the rejected chunk at position pos of the delivered history.
func offenderClass(c c10Case, pos int) string {
	info := histChunks(c.Hist)
	k := c.Seq[pos]
	if c.Op == "swap" {
		// the chunk that now arrives late is k; the one that overtook it is the element before it
		o := c.Seq[pos-1]
		same := "other-message"
		if info[o].msg == info[k].msg {
			same = "same-message"
		}
		return fmt.Sprintf("swap[late=%s,overtaken-by=%s,%s]", info[k].role, info[o].role, same)
	}
	// position of the first occurrence (the original) and of the message's final chunk
	orig, fin := -1, -1
	for p, x := range c.Seq {
		if x == k && orig < 0 {
			orig = p
		}
		if info[x].msg == info[k].msg && info[x].typ == 'F' && fin < 0 {
			fin = p
		}
	}
	where := "after-message-complete"
	switch {
	case pos == orig+1:
		where = "adjacent"
	case info[k].typ == 'C' && (fin < 0 || pos < fin):
		where = "before-final"
	}
	return fmt.Sprintf("copy[%s,%s]", info[k].role, where)
}

// ---------------------------------------------------------------- running a case

type c10Obs struct {
	Delivered []int  // message index of every intact delivery, in observation order (s2c: by message index)
	Corrupt   []int  // message indices (by request id) delivered without error but not equal to what was sent
	Unknown   int    // deliveries with an unknown request id
	Errors    int    // error results seen (server kind: Receive errors)
	Retained  int    // chunks buffered in the receiver at the end
	Fatal     string // harness problem
	Hang      string
	Panic     string
	Died      string // the executor process died on this case: class of the fatal message
	DiedTop   string // top in-repo function of the faulting goroutine
	DiedLog   string
}

func executorC10() {
	px, err := newProxySide()
	if err != nil {
		fmt.Fprintln(os.Stderr, "executor:", err)
		os.Exit(3)
	}
	srv, err := newSrvSide(c10Limits)
	if err != nil {
		fmt.Fprintln(os.Stderr, "executor:", err)
		os.Exit(3)
	}
	executorMain(func(line []byte) any {
		var c c10Case
		if err := json.Unmarshal(line, &c); err != nil {
			return c10Obs{Fatal: "bad case: " + err.Error()}
		}
		o := runC10(c, px, srv)
		if o.Fatal != "" { // a harness-level socket hiccup must not become a verdict
			o = runC10(c, px, srv)
		}
		return o
	})
}

func runC10(c c10Case, px *proxySide, srv *srvSide) (o c10Obs) {
	p, err := openSecuredPair(px, srv, c.Policy, c.Mode)
	if err != nil {
		o.Fatal = err.Error()
		return
	}
	defer p.close()
	if c.Dir == "c2s" {
		return runC10c2s(c, p)
	}
	return runC10s2c(c, p)
}

func totalChunks(hist []int) int {
	n := 0
	for _, h := range hist {
		n += h
	}
	return n
}

func checkCaptured(frames [][]byte, hist []int) error {
	info := histChunks(hist)
	if len(frames) < len(info) {
		return fmt.Errorf("captured %d chunks, expected %d", len(frames), len(info))
	}
	for i, ci := range info {
		if string(frames[i][:3]) != "MSG" || frames[i][3] != ci.typ {
			return fmt.Errorf("captured chunk %d is %q, expected MSG%c (body sizes do not match the buffer size)", i, frames[i][:4], ci.typ)
		}
	}
	return nil
}

func runC10c2s(c c10Case, p *securedPair) (o c10Obs) {
	n := totalChunks(c.Hist)
	got := readFrames(p.pc, n)
	reqs := make([]*ua.FindServersRequest, len(c.Hist))
	for i, k := range c.Hist {
		reqs[i] = &ua.FindServersRequest{EndpointURL: string(pattern(byte(i), c10BodyLen[k])), LocaleIDs: []string{"en"}}
		if err := p.cli.SendRequest(context.Background(), reqs[i], nil, nil); err != nil {
			o.Fatal = "real sender: " + err.Error()
			return
		}
	}
	var frames [][]byte
	select {
	case frames = <-got:
	case <-time.After(watchdog):
		o.Fatal = "proxy: did not capture the chunks"
		return
	}
	if err := checkCaptured(frames, c.Hist); err != nil {
		o.Fatal = err.Error()
		return
	}
	want := make([]any, len(reqs))
	byHandle := map[uint32]int{}
	for i, r := range reqs {
		_, v, err := ua.DecodeService(svcBody(r))
		if err != nil {
			o.Fatal = err.Error()
			return
		}
		want[i] = v
		byHandle[r.RequestHeader.RequestHandle] = i // the client uses the request id as handle
	}
	var all []byte
	for _, k := range c.Seq {
		all = append(all, frames[k]...)
	}
	if err := writeAll(p.ps, all); err != nil {
		o.Fatal = err.Error()
		return
	}
	p.ps.CloseWrite()
	timer := time.NewTimer(watchdog)
	defer timer.Stop()
loop:
	for {
		select {
		case r, ok := <-p.srvOut:
			if !ok {
				break loop
			}
			if r.panicked != "" {
				o.Panic = r.panicked + " in " + topRepoFunc(r.stack)
				break loop
			}
			m := r.msg
			switch {
			case m.Err == io.EOF:
			case m.Err != nil:
				o.Errors++
			case m.Request() == nil:
				o.Unknown++
			default:
				i, ok := byHandle[m.RequestID]
				if !ok {
					o.Unknown++
				} else if reflect.DeepEqual(m.Request(), want[i]) {
					o.Delivered = append(o.Delivered, i)
				} else {
					o.Corrupt = append(o.Corrupt, i)
				}
			}
		case <-timer.C:
			o.Hang = "server-kind Receive did not return after the proxy closed its sending side"
			return
		}
	}
	o.Retained = p.srv.VerifChunkStats().Chunks
	return
}

func runC10s2c(c c10Case, p *securedPair) (o c10Obs) {
	k := len(c.Hist)
	n := totalChunks(c.Hist)
	type outcome struct {
		resp ua.Response
		err  error
	}
	outs := make([]chan outcome, k+1)
	reqIDs := make([]uint32, k+1)
	var mu sync.Mutex
	calls := make([]int, k+1)
	for i := 0; i <= k; i++ {
		outs[i] = make(chan outcome, 1)
		i := i
		go func() {
			var got ua.Response
			err := p.cli.SendRequest(context.Background(), &ua.ReadRequest{MaxAge: float64(i), NodesToRead: []*ua.ReadValueID{{NodeID: ua.NewNumericNodeID(0, 2258), AttributeID: ua.AttributeIDValue, DataEncoding: &ua.QualifiedName{}}}}, nil,
				func(r ua.Response) error {
					mu.Lock()
					calls[i]++
					mu.Unlock()
					got = r
					return nil
				})
			outs[i] <- outcome{got, err}
		}()
		if _, err := fwd(p.pc, p.ps); err != nil {
			o.Fatal = "proxy: request: " + err.Error()
			return
		}
		select {
		case r := <-p.srvOut:
			if r.panicked != "" || r.msg == nil || r.msg.Err != nil || r.msg.Request() == nil {
				o.Fatal = fmt.Sprintf("server did not receive request %d: %+v %s", i, r.msg, r.panicked)
				return
			}
			reqIDs[i] = r.msg.RequestID
		case <-time.After(watchdog):
			o.Fatal = "server did not receive the request"
			return
		}
	}
	got := readFrames(p.ps, n+1)
	want := make([]any, k)
	for i := 0; i <= k; i++ {
		var resp *ua.ReadResponse
		if i < k {
			resp = &ua.ReadResponse{ResponseHeader: respHeader(reqIDs[i]), Results: []*ua.DataValue{{EncodingMask: ua.DataValueValue, Value: ua.MustVariant(pattern(byte(i), c10BodyLen[c.Hist[i]]))}}}
			_, v, err := ua.DecodeService(svcBody(resp))
			if err != nil {
				o.Fatal = err.Error()
				return
			}
			want[i] = v
		} else {
			resp = &ua.ReadResponse{ResponseHeader: respHeader(reqIDs[i]), Results: []*ua.DataValue{{EncodingMask: ua.DataValueValue, Value: ua.MustVariant("sentinel")}}}
		}
		if err := p.srv.SendResponseWithContext(context.Background(), reqIDs[i], resp); err != nil {
			o.Fatal = "real sender: " + err.Error()
			return
		}
	}
	var frames [][]byte
	select {
	case frames = <-got:
	case <-time.After(watchdog):
		o.Fatal = "proxy: did not capture the chunks"
		return
	}
	if len(frames) != n+1 {
		o.Fatal = fmt.Sprintf("captured %d chunks, expected %d", len(frames), n+1)
		return
	}
	if err := checkCaptured(frames, c.Hist); err != nil {
		o.Fatal = err.Error()
		return
	}
	var all []byte
	for _, x := range c.Seq {
		all = append(all, frames[x]...)
	}
	all = append(all, frames[n]...) // the genuine next message: marks the end of the history for the dispatcher
	if err := writeAll(p.pc, all); err != nil {
		o.Fatal = err.Error()
		return
	}
	select {
	case <-outs[k]:
		// delivered, or refused together with the channel: either way the dispatcher is past the history
	case <-time.After(watchdog):
		o.Hang = "the genuine response that follows the history was neither delivered nor refused (dispatcher stuck)"
		return
	}
	st := p.cli.VerifChunkStats()
	o.Retained = st.Chunks
	pending := map[uint32]bool{}
	for _, id := range st.HandlerIDs {
		pending[id] = true
	}
	res := make([]*outcome, k)
	for i := 0; i < k; i++ {
		if pending[reqIDs[i]] {
			continue
		}
		select {
		case oc := <-outs[i]:
			res[i] = &oc
		case <-time.After(watchdog):
			o.Hang = "handler popped but SendRequest never returned"
			return
		}
	}
	p.pc.Close()
	for i := 0; i < k; i++ {
		if res[i] != nil {
			continue
		}
		select {
		case <-outs[i]:
		case <-time.After(watchdog):
			o.Hang = "SendRequest did not return after the connection closed"
			return
		}
	}
	o.Errors = len(drainErr(p.cliErr))
	for i := 0; i < k; i++ {
		if res[i] == nil {
			continue
		}
		switch {
		case res[i].err != nil:
			// an error result for this request: nothing was delivered as a response
		case res[i].resp != nil && reflect.DeepEqual(any(res[i].resp), want[i]):
			o.Delivered = append(o.Delivered, i)
		default:
			o.Corrupt = append(o.Corrupt, i)
		}
	}
	mu.Lock()
	for i := 0; i < k; i++ {
		for j := 1; j < calls[i]; j++ {
			o.Delivered = append(o.Delivered, i)
		}
	}
	mu.Unlock()
	return
}

// verdictC10 compares the observation with the reference receiver.
func verdictC10(c c10Case, o c10Obs) (sig, detail string) {
	kind := "server"
	site := "uasc.(*SecureChannel).Receive"
	if c.Dir == "s2c" {
		kind = "client"
		site = "uasc.(*SecureChannel).dispatcher"
	}
	pre := fmt.Sprintf("replay/%s/%s/", kind, modeName(c.Mode))
	if o.Panic != "" {
		return pre + "panic/" + panicClass(o.Panic), o.Panic
	}
	if o.Died != "" {
		r := refReceive(c.Hist, c.Seq)
		cl := "no-rejected-chunk"
		if len(r.rejected) > 0 {
			cl = offenderClass(c, r.rejected[0])
		}
		return pre + cl + "/process-died[" + o.Died + "]/" + o.DiedTop, "the receiving process died while handling the history\n" + o.DiedLog
	}
	if o.Hang != "" {
		return pre + "hang/" + site, o.Hang
	}
	ref := refReceive(c.Hist, c.Seq)
	info := histChunks(c.Hist)
	firstRejectedOf := func(m int, typ byte) int {
		for _, pos := range ref.rejected {
			ci := info[c.Seq[pos]]
			if (m < 0 || ci.msg == m) && (typ == 0 || ci.typ == typ) {
				return pos
			}
		}
		return -1
	}
	cls := func(pos int) string {
		if pos < 0 {
			return "no-rejected-chunk"
		}
		return offenderClass(c, pos)
	}
	if c.Op == "none" {
		if !reflect.DeepEqual(o.Delivered, ref.intact) || len(o.Corrupt) > 0 || o.Retained != 0 {
			return pre + "valid-history/not-delivered-exactly-once-in-order/" + site, fmt.Sprintf("unmodified history %v: delivered %v corrupt %v retained %d", c.Hist, o.Delivered, o.Corrupt, o.Retained)
		}
		return "", ""
	}
	if o.Unknown > 0 {
		return pre + "unknown-delivery/" + site, fmt.Sprintf("%d deliveries with an unknown request id", o.Unknown)
	}
	// 1. at most once
	count := map[int]int{}
	for _, m := range o.Delivered {
		count[m]++
	}
	for _, m := range sortedKeys(count) {
		if count[m] > 1 {
			return pre + cls(firstRejectedOf(m, 0)) + "/delivered-twice/" + site, fmt.Sprintf("message %d was delivered %d times; delivered %v, a strictly-increasing receiver delivers %v", m, count[m], o.Delivered, ref.intact)
		}
	}
	// 2. nothing that contains a non-increasing chunk is delivered (subsequence of the reference deliveries)
	refSet := map[int]bool{}
	for _, m := range ref.intact {
		refSet[m] = true
	}
	for _, m := range o.Delivered {
		if !refSet[m] {
			return pre + cls(firstRejectedOf(m, 0)) + "/delivered-although-not-increasing/" + site, fmt.Sprintf("message %d was delivered although one of its chunks arrived after a chunk with a higher sequence number; delivered %v, reference %v", m, o.Delivered, ref.intact)
		}
	}
	if kind == "server" && !isSubsequence(o.Delivered, ref.intact) {
		return pre + cls(firstRejectedOf(-1, 0)) + "/delivered-out-of-order/" + site, fmt.Sprintf("delivered %v, reference %v", o.Delivered, ref.intact)
	}
	// 3. no message assembled from replayed material
	for _, m := range o.Corrupt {
		if !ref.garbage[m] {
			return pre + cls(firstRejectedOf(m, 0)) + "/delivered-corrupted/" + site, fmt.Sprintf("a message with the request id of message %d was delivered without error but differs from what the sender sent (assembled with a replayed chunk)", m)
		}
	}
	// 4. replayed chunks are not kept
	if o.Retained > ref.retained {
		return pre + cls(firstRejectedOf(-1, 'C')) + "/retained-in-chunk-table/" + site, fmt.Sprintf("%d chunk(s) stay buffered after the history; a strictly-increasing receiver keeps %d", o.Retained, ref.retained)
	}
	return "", ""
}

// failureOf returns the failure kind and site of a C10 signature (everything after the stream class).
func failureOf(sig string) string {
	parts := strings.Split(sig, "/")
	if len(parts) < 2 {
		return sig
	}
	return strings.Join(parts[len(parts)-2:], "/")
}

func sortedKeys(m map[int]int) []int {
	var k []int
	for x := range m {
		k = append(k, x)
	}
	sort.Ints(k)
	return k
}

func isSubsequence(a, b []int) bool {
	j := 0
	for _, x := range a {
		for j < len(b) && b[j] != x {
			j++
		}
		if j == len(b) {
			return false
		}
		j++
	}
	return true
}

// ---------------------------------------------------------------- enumeration

func compositions(n, maxPart int) [][]int {
	if n == 0 {
		return [][]int{{}}
	}
	var out [][]int
	for p := 1; p <= maxPart && p <= n; p++ {
		for _, rest := range compositions(n-p, maxPart) {
			out = append(out, append([]int{p}, rest...))
		}
	}
	return out
}

// insertions returns every sequence obtained from seq by inserting a copy of one element at a later position.
func insertions(seq []int) [][]int {
	seen := map[string]bool{}
	var out [][]int
	for i := range seq {
		for j := i + 1; j <= len(seq); j++ {
			s := make([]int, 0, len(seq)+1)
			s = append(s, seq[:j]...)
			s = append(s, seq[i])
			s = append(s, seq[j:]...)
			key := fmt.Sprint(s)
			if !seen[key] {
				seen[key] = true
				out = append(out, s)
			}
		}
	}
	return out
}

func enumerateC10(thorough bool, f func(idx int64, c c10Case)) int64 {
	policies := []string{"Basic256Sha256"}
	if thorough {
		policies = []string{"Basic256Sha256", "Aes128_Sha256_RsaOaep", "Aes256_Sha256_RsaPss", "Basic256", "Basic128Rsa15"}
	}
	var idx int64
	for _, pol := range policies {
		for _, mode := range []int{int(ua.MessageSecurityModeSign), int(ua.MessageSecurityModeSignAndEncrypt)} {
			for _, dir := range []string{"c2s", "s2c"} {
				for n := 1; n <= 4; n++ {
					for _, hist := range compositions(n, 4) {
						base := make([]int, n)
						for i := range base {
							base[i] = i
						}
						emit := func(op string, seq []int) {
							f(idx, c10Case{Dir: dir, Policy: pol, Mode: mode, Hist: hist, Op: op, Seq: seq})
							idx++
						}
						emit("none", base)
						one := insertions(base)
						for _, s := range one {
							emit("dup1", s)
						}
						for i := 0; i+1 < n; i++ {
							s := append([]int(nil), base...)
							s[i], s[i+1] = s[i+1], s[i]
							emit("swap", s)
						}
						{ // two insertions (both tiers: a rejected copy must not make a later copy acceptable)
							seen := map[string]bool{}
							for _, s1 := range one {
								for _, s2 := range insertions(s1) {
									if key := fmt.Sprint(s2); !seen[key] {
										seen[key] = true
										emit("dup2", s2)
									}
								}
							}
						}
					}
				}
			}
		}
	}
	return idx
}

func mainC10() {
	r := evid.New("C10")
	var rc c10Case
	if evid.ReplayInput(&rc) {
		pl := &pool{prop: "C10"}
		var o c10Obs
		d, err := pl.run(rc, &o)
		pl.close()
		if err != nil {
			evid.EngineError("C10", "%v", err)
		}
		if d != nil {
			o = c10Obs{Died: d.Kind, DiedTop: d.Top, DiedLog: d.Exit + "\n" + head(d.Stderr, 2500)}
		}
		sig, detail := verdictC10(rc, o)
		fmt.Printf("replay %+v\n observed %+v\n reference %+v\n sig=%q\n detail=%q\n", rc, o, refReceive(rc.Hist, rc.Seq), sig, detail)
		if sig != "" || o.Fatal != "" {
			os.Exit(1)
		}
		return
	}
	thorough := evid.Thorough()
	r.Rule("real gopcua sender -> capturing TCP proxy -> real gopcua receiver; every history of n<=4 secured chunks (every composition of n into messages of 1..4 chunks) x {unmodified; a verbatim copy of chunk i inserted at every later position; every result of two such insertions; every swap of two adjacent chunks} x {Sign, SignAndEncrypt} x {client->server (server-kind receiver), server->client (client-kind receiver)} x policies; counted as non-trivial and distinct: (direction, policy, mode, history, delivered index sequence) of every modified history")
	total := enumerateC10(thorough, func(int64, c10Case) {})
	r.Set("cases_enumerated", total)
	deaths := evid.Sharded(r, 2<<30, func(s evid.ShardInfo, w *evid.Run) {
		pl := &pool{prop: "C10"}
		defer pl.close()
		enumerateC10(thorough, func(idx int64, c c10Case) {
			if !s.Mine(idx) {
				return
			}
			if pl.tooManyDeaths(400) {
				w.Capped("worker stopped after 400 executor deaths; the remaining cases of this shard were not run")
				return
			}
			var o c10Obs
			d, err := pl.run(c, &o)
			if err != nil {
				evid.EngineError("C10", "executor failure on case %+v: %v", c, err)
			}
			if d != nil {
				o = c10Obs{Died: d.Kind, DiedTop: d.Top, DiedLog: d.Exit + "\n" + head(d.Stderr, 2500)}
			}
			if o.Fatal != "" {
				evid.EngineError("C10", "harness failure on case %+v: %s", c, o.Fatal)
			}
			key := ""
			if c.Op != "none" {
				key = fmt.Sprint(c.Dir, c.Policy, c.Mode, c.Hist, c.Seq)
			}
			w.Eval(key)
			if idx%97 == 0 {
				w.Sample(c)
			}
			sig, detail := verdictC10(c, o)
			if sig != "" && c.Op == "dup2" {
				// attribute a two-copy failure to one of its copies if the history with only that copy fails
				// in the same way (same failure kind and site), so that two-copy histories do not multiply signatures
				ref := refReceive(c.Hist, c.Seq)
				for _, pos := range ref.rejected {
					sub := c
					sub.Op = "dup1"
					sub.Seq = append(append([]int(nil), c.Seq[:pos]...), c.Seq[pos+1:]...)
					var so c10Obs
					d, err := pl.run(sub, &so)
					if err != nil {
						evid.EngineError("C10", "executor failure on case %+v: %v", sub, err)
					}
					if d != nil {
						so = c10Obs{Died: d.Kind, DiedTop: d.Top, DiedLog: d.Exit}
					}
					if ssig, _ := verdictC10(sub, so); ssig != "" && failureOf(ssig) == failureOf(sig) {
						sig, detail = ssig, detail+fmt.Sprintf(" (two copies; the history %v with one copy fails in the same way)", sub.Seq)
						break
					}
				}
			}
			if sig != "" {
				w.Violate(sig, fmt.Sprintf("%s; case %+v; observed %+v", detail, c, o), c)
				w.Outcome(strings.SplitN(sig, "/", 4)[3])
			} else {
				ref := refReceive(c.Hist, c.Seq)
				w.Outcome(fmt.Sprintf("held: delivered %d of %d reference deliveries, %d error(s) reported", len(o.Delivered), len(ref.intact), min(o.Errors, 2)))
			}
		})
	})
	for _, d := range deaths {
		evid.EngineError("C10", "supervisor %d died (%s) while running %s: %s", d.Shard, d.ExitErr, d.LastCase, tail(d.Stderr, 800))
	}
	r.Assume("reference = a receiver that rejects every chunk whose sequence number is not greater than the last accepted one; the real receiver may deliver less than the reference (e.g. close the channel) but never more: no message twice, no message containing a non-increasing chunk, no message assembled with replayed material, no replayed chunk kept in the chunk table",
		"whether the rejection is reported as an error is not judged (the statement asks for rejection, not for a particular report)",
		"the sender is the real gopcua channel of the opposite kind with 2048-bit keys; histories contain no sequence-number roll-over (C12 covers roll-over)",
		"client-kind receiver: delivery is observed at the SendRequest response handlers; the genuine next response of the real server marks the end of the history (no timers decide anything)")
	r.Finish()
}
