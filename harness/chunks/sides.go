// Construction of the REAL receiving channels (client kind and server kind)
// over loopback TCP with a scripted byte-level peer on the other end.
package main

import (
	"bytes"
	"context"
	"fmt"
	"io"
	"net"
	"time"

	"github.com/gopcua/opcua/ua"
	"github.com/gopcua/opcua/uacp"
	"github.com/gopcua/opcua/uasc"
)

type limits struct {
	Recv      uint32 `json:"recv"`
	Send      uint32 `json:"send"`
	MaxMsg    uint32 `json:"max_msg"`
	MaxChunks uint32 `json:"max_chunks"`
}

var defaultLimits = limits{Recv: 65535, Send: 65535, MaxMsg: 2 << 20, MaxChunks: 512}

// generous: never used as an oracle, only so that a broken harness cannot hang a worker forever
const (
	requestTimeout = 10 * time.Minute
	watchdog       = 25 * time.Second
)

func svcBody(v any) []byte {
	id := ua.ServiceTypeID(v)
	if id == 0 {
		panic(fmt.Sprintf("unregistered service %T", v))
	}
	t, err := ua.Encode(ua.NewFourByteExpandedNodeID(0, id))
	if err != nil {
		panic(err)
	}
	b, err := ua.Encode(v)
	if err != nil {
		panic(err)
	}
	return append(t, b...)
}

func reqHeader(handle uint32) *ua.RequestHeader {
	return &ua.RequestHeader{
		AuthenticationToken: ua.NewTwoByteNodeID(0),
		Timestamp:           time.Date(2020, 1, 1, 0, 0, 0, 0, time.UTC),
		RequestHandle:       handle,
		AdditionalHeader:    ua.NewExtensionObject(nil),
	}
}

func respHeader(handle uint32) *ua.ResponseHeader {
	return &ua.ResponseHeader{
		Timestamp:          time.Date(2020, 1, 1, 0, 0, 0, 0, time.UTC),
		RequestHandle:      handle,
		ServiceDiagnostics: &ua.DiagnosticInfo{},
		StringTable:        []string{},
		AdditionalHeader:   ua.NewExtensionObject(nil),
	}
}

// ---------------------------------------------------------------- server kind

// srvSide owns a real uacp.Listener; every case accepts one connection on it
// and wraps it in a real server-kind SecureChannel exactly as
// server/channel_broker.go RegisterConn does.
type srvSide struct {
	ln   *uacp.Listener
	addr *net.TCPAddr
	lim  limits
}

func newSrvSide(lim limits) (*srvSide, error) {
	ln, err := uacp.Listen(context.Background(), "opc.tcp://127.0.0.1:0", &uacp.Acknowledge{
		ReceiveBufSize: lim.Recv, SendBufSize: lim.Send, MaxMessageSize: lim.MaxMsg, MaxChunkCount: lim.MaxChunks})
	if err != nil {
		return nil, err
	}
	return &srvSide{ln: ln, addr: ln.Addr().(*net.TCPAddr), lim: lim}, nil
}

func (s *srvSide) close() { s.ln.Close() }

const (
	srvChannelID = 0x1001
	srvTokenID   = 0x2002
	srvSeqStart  = 50
)

// connect performs the TCP connect and HEL/ACK (peer side hand-encoded, server side real uacp)
// and returns the peer socket and the real server-kind channel.
func (s *srvSide) connect(cfg *uasc.Config) (peer *net.TCPConn, sc *uasc.SecureChannel, conn *uacp.Conn, errch chan error, err error) {
	type acc struct {
		c   *uacp.Conn
		err error
	}
	ch := make(chan acc, 1)
	go func() {
		c, err := s.ln.Accept(context.Background())
		ch <- acc{c, err}
	}()
	peer, err = net.DialTCP("tcp", nil, s.addr)
	if err != nil {
		return nil, nil, nil, nil, err
	}
	if err = writeAll(peer, encHello(65535, 65535, 0, 0, "opc.tcp://127.0.0.1")); err != nil {
		peer.Close()
		return nil, nil, nil, nil, err
	}
	var a acc
	select {
	case a = <-ch:
	case <-time.After(watchdog):
		peer.Close()
		return nil, nil, nil, nil, fmt.Errorf("harness: accept did not return")
	}
	if a.err != nil {
		peer.Close()
		return nil, nil, nil, nil, a.err
	}
	ack, err := readFrame(peer)
	if err != nil || string(ack[:4]) != "ACKF" {
		peer.Close()
		a.c.Close()
		return nil, nil, nil, nil, fmt.Errorf("harness: no ACK: %v", err)
	}
	errch = make(chan error, 4096)
	sc, err = uasc.NewServerSecureChannel("", a.c, cfg, errch, srvChannelID, srvSeqStart, srvTokenID)
	if err != nil {
		peer.Close()
		a.c.Close()
		return nil, nil, nil, nil, err
	}
	return peer, sc, a.c, errch, nil
}

func noneConfig() *uasc.Config {
	return &uasc.Config{
		SecurityPolicyURI: ua.SecurityPolicyURINone,
		SecurityMode:      ua.MessageSecurityModeNone,
		Lifetime:          uint32(time.Hour / time.Millisecond),
		RequestTimeout:    requestTimeout,
	}
}

// opnRequestBodyNone is the body of a conforming OpenSecureChannelRequest in mode None.
func opnRequestBodyNone(handle uint32) []byte {
	return svcBody(&ua.OpenSecureChannelRequest{
		RequestHeader:         reqHeader(handle),
		ClientProtocolVersion: 0,
		RequestType:           ua.SecurityTokenRequestTypeIssue,
		SecurityMode:          ua.MessageSecurityModeNone,
		ClientNonce:           []byte{},
		RequestedLifetime:     3600000,
	})
}

func opnResponseBodyNone(handle, chanID, tokenID uint32) []byte {
	return svcBody(&ua.OpenSecureChannelResponse{
		ResponseHeader:        respHeader(handle),
		ServerProtocolVersion: 0,
		SecurityToken: &ua.ChannelSecurityToken{
			ChannelID:       chanID,
			TokenID:         tokenID,
			CreatedAt:       time.Now().UTC(),
			RevisedLifetime: 3600000,
		},
		ServerNonce: []byte{},
	})
}

// recvResult is one value returned by SecureChannel.Receive.
type recvResult struct {
	msg      *uasc.MessageBody
	panicked string // recovered panic text (server kind: Receive runs on a harness goroutine)
	stack    string
}

// recvLoop calls the real Receive until it reports io.EOF (what channel_broker does,
// except that non-EOF errors do not end the loop) and forwards every result.
func recvLoop(sc *uasc.SecureChannel, out chan<- recvResult, stopOnError bool) {
	defer close(out)
	ctx := context.Background()
	for {
		var res recvResult
		func() {
			defer func() {
				if r := recover(); r != nil {
					res.panicked = fmt.Sprint(r)
					res.stack = stackOfPanic()
				}
			}()
			res.msg = sc.Receive(ctx)
		}()
		out <- res
		if res.panicked != "" {
			return
		}
		if res.msg.Err == io.EOF {
			return
		}
		if stopOnError && res.msg.Err != nil {
			return
		}
	}
}

// peerOpenNone sends a conforming mode-None OPN request with the given sequence number / request id
// and reads the OPN response. The server's recvLoop must be running.
func peerOpenNone(peer net.Conn, seq, reqID uint32) (chanID, tokenID uint32, err error) {
	if err = writeAll(peer, opnChunk('F', 0, ua.SecurityPolicyURINone, nil, nil, seq, reqID, opnRequestBodyNone(reqID))); err != nil {
		return
	}
	f, err := readFrame(peer)
	if err != nil {
		return 0, 0, fmt.Errorf("harness: no OPN response: %v", err)
	}
	c, err := parsePlainChunk(f)
	if err != nil || c.MsgType != "OPN" {
		return 0, 0, fmt.Errorf("harness: bad OPN response: %v %q", err, f[:4])
	}
	_, v, err := ua.DecodeService(c.Body)
	if err != nil {
		return 0, 0, err
	}
	r, ok := v.(*ua.OpenSecureChannelResponse)
	if !ok {
		return 0, 0, fmt.Errorf("harness: OPN response is %T", v)
	}
	return r.SecurityToken.ChannelID, r.SecurityToken.TokenID, nil
}

// ---------------------------------------------------------------- client kind

// cliSide owns a plain TCP listener for the scripted peer; every case dials it
// with the real uacp client handshake and wraps the connection in a real
// client-kind SecureChannel.
type cliSide struct {
	ln   *net.TCPListener
	addr *net.TCPAddr
}

func newCliSide() (*cliSide, error) {
	ln, err := net.ListenTCP("tcp", &net.TCPAddr{IP: net.IPv4(127, 0, 0, 1)})
	if err != nil {
		return nil, err
	}
	return &cliSide{ln: ln, addr: ln.Addr().(*net.TCPAddr)}, nil
}

func (c *cliSide) close() { c.ln.Close() }

type cliConn struct {
	peer  *net.TCPConn
	sc    *uasc.SecureChannel
	conn  *uacp.Conn
	errch chan error
	// first request id the client will use (OPN); cfg.RequestIDSeed+1
	opnReq rxChunk
}

// connect: real client dials + handshakes; the peer answers the HEL with an ACK carrying lim.
func (c *cliSide) connect(lim limits, cfg *uasc.Config) (*cliConn, error) {
	type res struct {
		conn *uacp.Conn
		err  error
	}
	ch := make(chan res, 1)
	go func() {
		tc, err := net.DialTCP("tcp", nil, c.addr)
		if err != nil {
			ch <- res{nil, err}
			return
		}
		conn, err := uacp.NewConn(tc, &uacp.Acknowledge{ReceiveBufSize: lim.Send, SendBufSize: lim.Recv})
		if err != nil {
			tc.Close()
			ch <- res{nil, err}
			return
		}
		ctx, cancel := context.WithTimeout(context.Background(), peerIOTimeout)
		defer cancel()
		if err := conn.Handshake(ctx, "opc.tcp://127.0.0.1"); err != nil {
			conn.Close()
			ch <- res{nil, err}
			return
		}
		ch <- res{conn, nil}
	}()
	c.ln.SetDeadline(time.Now().Add(peerIOTimeout))
	peer, err := c.ln.AcceptTCP()
	if err != nil {
		return nil, err
	}
	hel, err := readFrame(peer)
	if err != nil || string(hel[:4]) != "HELF" {
		peer.Close()
		return nil, fmt.Errorf("harness: no HEL: %v", err)
	}
	if err := writeAll(peer, encAck(lim.Recv, lim.Send, lim.MaxMsg, lim.MaxChunks)); err != nil {
		peer.Close()
		return nil, err
	}
	r := <-ch
	if r.err != nil {
		peer.Close()
		return nil, r.err
	}
	errch := make(chan error, 4096)
	sc, err := uasc.NewSecureChannel("opc.tcp://127.0.0.1", r.conn, cfg, errch)
	if err != nil {
		peer.Close()
		r.conn.Close()
		return nil, err
	}
	return &cliConn{peer: peer, sc: sc, conn: r.conn, errch: errch}, nil
}

// startOpen runs the real Open on its own goroutine and reads the client's OPN request at the peer.
func (cc *cliConn) startOpen() (<-chan error, error) {
	done := make(chan error, 1)
	go func() { done <- cc.sc.Open(context.Background()) }()
	f, err := readFrame(cc.peer)
	if err != nil {
		return done, fmt.Errorf("harness: no OPN request from client: %v", err)
	}
	cc.opnReq, err = parsePlainChunk(f)
	if err != nil || cc.opnReq.MsgType != "OPN" {
		return done, fmt.Errorf("harness: bad OPN request from client: %v", err)
	}
	return done, nil
}

const (
	cliChannelID = 0x3003
	cliTokenID   = 0x4004
)

// openNone completes a conforming mode-None open; the peer's OPN response carries sequence number seq.
func (cc *cliConn) openNone(seq uint32) error {
	done, err := cc.startOpen()
	if err != nil {
		return err
	}
	if err := writeAll(cc.peer, opnChunk('F', cliChannelID, ua.SecurityPolicyURINone, nil, nil, seq, cc.opnReq.ReqID,
		opnResponseBodyNone(cc.opnReq.ReqID, cliChannelID, cliTokenID))); err != nil {
		return err
	}
	select {
	case err := <-done:
		return err
	case <-time.After(watchdog):
		return fmt.Errorf("harness: Open did not return after a conforming OPN response")
	}
}

// drainErr collects what the dispatcher reported so far.
func drainErr(ch chan error) []error {
	var out []error
	for {
		select {
		case e := <-ch:
			out = append(out, e)
		default:
			return out
		}
	}
}

func sameBytes(a, b []byte) bool { return bytes.Equal(a, b) }
