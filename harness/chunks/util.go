package main

import (
	"bufio"
	"runtime/debug"
	"strings"
)

const repoPrefix = "github.com/gopcua/opcua/"

// stackOfPanic must be called from the deferred function that recovered.
func stackOfPanic() string { return string(debug.Stack()) }

// topRepoFunc extracts, from a goroutine stack dump (runtime/debug.Stack or the
// crash output of a dead process), the innermost function of the FIRST goroutine
// block (the recovering / panicking / faulting goroutine) that belongs to the
// repository under test — the "top in-repo function" of a signature. Frames of
// the harness itself (package main) and of the runtime are skipped.
func topRepoFunc(stack string) string {
	sc := bufio.NewScanner(strings.NewReader(stack))
	sc.Buffer(make([]byte, 1<<16), 1<<22)
	started := false
	for sc.Scan() {
		line := sc.Text()
		if strings.HasPrefix(line, "goroutine ") {
			if started {
				break
			}
			started = true
			continue
		}
		if !started {
			continue
		}
		if strings.HasPrefix(line, repoPrefix) {
			fn := line
			if i := strings.LastIndex(fn, "("); i > 0 {
				fn = fn[:i]
			}
			return strings.TrimPrefix(fn, repoPrefix)
		}
	}
	return "?"
}

// panicClass reduces a panic message to its class (numbers removed) so that it is stable across cases.
func panicClass(msg string) string {
	if i := strings.Index(msg, "\n"); i >= 0 {
		msg = msg[:i]
	}
	msg = strings.TrimPrefix(msg, "panic: ")
	var b strings.Builder
	prevDigit := false
	for _, r := range msg {
		if r >= '0' && r <= '9' {
			if !prevDigit {
				b.WriteByte('N')
			}
			prevDigit = true
			continue
		}
		prevDigit = false
		b.WriteRune(r)
	}
	s := b.String()
	if len(s) > 100 {
		s = s[:100]
	}
	return s
}
