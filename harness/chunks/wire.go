// Reference byte-level encoder for UACP (HEL/ACK) and UASC chunk framing,
// written from OPC UA Part 6 (7.1.2 message header, 6.7.2 chunk layout) and
// independent of gopcua's uacp/uasc encoders. Only service *bodies* are
// produced with ua.Encode (the codec is not what these checks judge).
package main

import (
	"encoding/binary"
	"fmt"
	"io"
	"net"
	"time"
)

type wbuf struct{ b []byte }

func (w *wbuf) u8(v byte)    { w.b = append(w.b, v) }
func (w *wbuf) u32(v uint32) { w.b = binary.LittleEndian.AppendUint32(w.b, v) }
func (w *wbuf) raw(p []byte) { w.b = append(w.b, p...) }
func (w *wbuf) str(s string) { w.u32(uint32(len(s))); w.b = append(w.b, s...) }
func (w *wbuf) bstr(p []byte) {
	if p == nil {
		w.u32(0xffffffff)
		return
	}
	w.u32(uint32(len(p)))
	w.b = append(w.b, p...)
}

// setSize patches the MessageSize field (offset 4) with the true length.
func setSize(b []byte) []byte {
	binary.LittleEndian.PutUint32(b[4:], uint32(len(b)))
	return b
}

// encHello builds a HEL message.
func encHello(recv, send, maxMsg, maxChunks uint32, endpoint string) []byte {
	w := &wbuf{}
	w.raw([]byte("HELF"))
	w.u32(0)
	w.u32(0) // protocol version
	w.u32(recv)
	w.u32(send)
	w.u32(maxMsg)
	w.u32(maxChunks)
	w.str(endpoint)
	return setSize(w.b)
}

// encAck builds an ACK message.
func encAck(recv, send, maxMsg, maxChunks uint32) []byte {
	w := &wbuf{}
	w.raw([]byte("ACKF"))
	w.u32(0)
	w.u32(0)
	w.u32(recv)
	w.u32(send)
	w.u32(maxMsg)
	w.u32(maxChunks)
	return setSize(w.b)
}

// symChunk builds a MSG/CLO chunk: header, channel id, token id, sequence header, body (mode None: plain).
func symChunk(msgType string, chunkType byte, chanID, tokenID, seq, reqID uint32, body []byte) []byte {
	w := &wbuf{}
	w.raw([]byte(msgType))
	w.u8(chunkType)
	w.u32(0)
	w.u32(chanID)
	w.u32(tokenID)
	w.u32(seq)
	w.u32(reqID)
	w.raw(body)
	return setSize(w.b)
}

// opnChunk builds an OPN chunk with an asymmetric security header (unencrypted: policy None layout).
func opnChunk(chunkType byte, chanID uint32, policy string, cert, thumb []byte, seq, reqID uint32, body []byte) []byte {
	w := &wbuf{}
	w.raw([]byte("OPN"))
	w.u8(chunkType)
	w.u32(0)
	w.u32(chanID)
	w.str(policy)
	w.bstr(cert)
	w.bstr(thumb)
	w.u32(seq)
	w.u32(reqID)
	w.raw(body)
	return setSize(w.b)
}

// abortBody is the body of an 'A' chunk: status code + reason.
func abortBody(code uint32, reason string) []byte {
	w := &wbuf{}
	w.u32(code)
	w.str(reason)
	return w.b
}

// readFrame reads one UACP/UASC frame (8 byte header with size, then the rest).
func readFrame(c net.Conn) ([]byte, error) {
	c.SetReadDeadline(time.Now().Add(peerIOTimeout))
	hdr := make([]byte, 8)
	if _, err := io.ReadFull(c, hdr); err != nil {
		return nil, err
	}
	n := binary.LittleEndian.Uint32(hdr[4:])
	if n < 8 || n > 1<<24 {
		return nil, fmt.Errorf("peer: bad frame size %d", n)
	}
	b := make([]byte, n)
	copy(b, hdr)
	if _, err := io.ReadFull(c, b[8:]); err != nil {
		return nil, err
	}
	return b, nil
}

// parsed view of a received (mode None) chunk
type rxChunk struct {
	MsgType   string
	ChunkType byte
	ChanID    uint32
	TokenID   uint32 // MSG/CLO
	Policy    string // OPN
	Seq       uint32
	ReqID     uint32
	Body      []byte
}

func parsePlainChunk(b []byte) (rxChunk, error) {
	var r rxChunk
	if len(b) < 12 {
		return r, fmt.Errorf("short chunk")
	}
	r.MsgType = string(b[:3])
	r.ChunkType = b[3]
	r.ChanID = binary.LittleEndian.Uint32(b[8:])
	p := 12
	rd32 := func() (uint32, error) {
		if p+4 > len(b) {
			return 0, fmt.Errorf("short chunk")
		}
		v := binary.LittleEndian.Uint32(b[p:])
		p += 4
		return v, nil
	}
	rdbs := func() ([]byte, error) {
		n, err := rd32()
		if err != nil {
			return nil, err
		}
		if n == 0xffffffff {
			return nil, nil
		}
		if p+int(n) > len(b) {
			return nil, fmt.Errorf("short chunk")
		}
		v := b[p : p+int(n)]
		p += int(n)
		return v, nil
	}
	var err error
	switch r.MsgType {
	case "OPN":
		var pol []byte
		if pol, err = rdbs(); err != nil {
			return r, err
		}
		r.Policy = string(pol)
		if _, err = rdbs(); err != nil {
			return r, err
		}
		if _, err = rdbs(); err != nil {
			return r, err
		}
	case "MSG", "CLO":
		if r.TokenID, err = rd32(); err != nil {
			return r, err
		}
	default:
		return r, fmt.Errorf("unexpected message type %q", r.MsgType)
	}
	if r.Seq, err = rd32(); err != nil {
		return r, err
	}
	if r.ReqID, err = rd32(); err != nil {
		return r, err
	}
	r.Body = b[p:]
	return r, nil
}

const peerIOTimeout = 60 * time.Second

func writeAll(c net.Conn, b []byte) error {
	c.SetWriteDeadline(time.Now().Add(peerIOTimeout))
	_, err := c.Write(b)
	return err
}
