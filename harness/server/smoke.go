// SMOKE: the real gopcua client against the real server: connect, read, write,
// read back, browse, subscribe and receive a data change, delete the
// subscription, close; then a second client on the same server. Used to show
// that a candidate fix leaves honest clients working. Not a property check:
// run as `.bin/server SMOKE` (exit 0 = all steps worked).
package main

import (
	"context"
	"fmt"
	"os"
	"time"

	"github.com/gopcua/opcua"
	"github.com/gopcua/opcua/server"
	"github.com/gopcua/opcua/server/attrs"
	"github.com/gopcua/opcua/ua"
)

func smoke() {
	fail := func(step string, err error) {
		fmt.Printf("SMOKE FAILED at %s: %v\n", step, err)
		os.Exit(1)
	}
	var target *ua.NodeID
	s, url, err := startServer(noneOpts(), func(s *server.Server) {
		ns := server.NewNodeNameSpace(s, "urn:verif:smoke")
		target = ua.NewStringNodeID(ns.ID(), "v")
		ns.AddNode(server.NewNode(target, map[ua.AttributeID]*ua.DataValue{
			ua.AttributeIDNodeClass:  server.DataValueFromValue(uint32(ua.NodeClassVariable)),
			ua.AttributeIDBrowseName: server.DataValueFromValue(attrs.BrowseName("v")),
		}, nil, func() *ua.DataValue { return server.DataValueFromValue(int32(1)) }))
	})
	if err != nil {
		fail("start", err)
	}
	defer s.Close()
	for round := 0; round < 2; round++ {
		c, err := connectClient(url)
		if err != nil {
			fail("connect", err)
		}
		ctx, cancel := context.WithTimeout(context.Background(), watchdog)
		rd := func() (any, error) {
			resp, err := c.Read(ctx, &ua.ReadRequest{NodesToRead: []*ua.ReadValueID{{NodeID: target, AttributeID: ua.AttributeIDValue}}, TimestampsToReturn: ua.TimestampsToReturnBoth})
			if err != nil {
				return nil, err
			}
			if resp.Results[0].Status != ua.StatusOK {
				return nil, resp.Results[0].Status
			}
			return resp.Results[0].Value.Value(), nil
		}
		v, err := rd()
		if err != nil {
			fail("read", err)
		}
		want := int32(1 + round)
		if v != want {
			fail("read", fmt.Errorf("got %v want %v", v, want))
		}
		wr, err := c.Write(ctx, &ua.WriteRequest{NodesToWrite: []*ua.WriteValue{{NodeID: target, AttributeID: ua.AttributeIDValue, Value: &ua.DataValue{EncodingMask: ua.DataValueValue, Value: ua.MustVariant(want + 1)}}}})
		if err != nil || wr.Results[0] != ua.StatusOK {
			fail("write", fmt.Errorf("%v %v", err, wr))
		}
		if v, err = rd(); err != nil || v != want+1 {
			fail("read back", fmt.Errorf("%v %v", v, err))
		}
		br, err := c.Browse(ctx, &ua.BrowseRequest{NodesToBrowse: []*ua.BrowseDescription{{NodeID: ua.NewNumericNodeID(0, 85), BrowseDirection: ua.BrowseDirectionForward, ReferenceTypeID: ua.NewNumericNodeID(0, 33), IncludeSubtypes: true, ResultMask: uint32(ua.BrowseResultMaskAll)}}})
		if err != nil || len(br.Results) != 1 || len(br.Results[0].References) == 0 {
			fail("browse", fmt.Errorf("%v %+v", err, br))
		}
		ch := make(chan *opcua.PublishNotificationData, 16)
		sub, err := c.Subscribe(ctx, &opcua.SubscriptionParameters{Interval: 50 * time.Millisecond}, ch)
		if err != nil {
			fail("subscribe", err)
		}
		mr, err := sub.Monitor(ctx, ua.TimestampsToReturnBoth, opcua.NewMonitoredItemCreateRequestWithDefaults(target, ua.AttributeIDValue, 42))
		if err != nil || mr.Results[0].StatusCode != ua.StatusOK {
			fail("monitor", fmt.Errorf("%v %+v", err, mr))
		}
		got := false
		for !got {
			select {
			case n := <-ch:
				if n.Error != nil {
					fail("notification", n.Error)
				}
				if dc, ok := n.Value.(*ua.DataChangeNotification); ok && len(dc.MonitoredItems) > 0 {
					got = true
				}
			case <-ctx.Done():
				fail("notification", ctx.Err())
			}
		}
		if err := sub.Cancel(ctx); err != nil {
			fail("cancel subscription", err)
		}
		if err := c.Close(ctx); err != nil {
			fail("close", err)
		}
		cancel()
	}
	fmt.Println("SMOKE OK: 2 clients x {connect, read, write, read back, browse, subscribe, data change, unsubscribe, close}")
}
