// Server checks: C29 (no crash / no hang), C30 (enabled security only),
// C31 (access levels), C32 (subscription / monitored item ids), C33 (browse
// filter), C35 (sessions required). One binary, dispatch on os.Args[1].
//
// All checks drive the REAL server (server.New + Start on loopback TCP) with
// the real client and raw uasc secure channels.
package main

import (
	"fmt"
	"os"
)

func main() {
	quiet()
	// A private scratch directory: other checks run concurrently and tidy up the
	// shared one (a removed shard directory makes the workers fail).
	if os.Getenv("VERIF_SCRATCH") == "" {
		os.Setenv("VERIF_SCRATCH", "/var/tmp/verif-work/server-harness")
	}
	if os.Getenv("VERIF_SRVHOST") != "" {
		hostMain()
		return
	}
	if len(os.Args) < 2 {
		fmt.Println("usage: server <C29|C30|C31|C32|C33|C35>")
		os.Exit(2)
	}
	switch os.Args[1] {
	case "C33":
		c33()
	case "C31":
		c31()
	case "C32":
		c32()
	case "C35":
		c35()
	case "C30":
		c30()
	case "C29":
		c29()
	case "SMOKE":
		smoke()
	default:
		fmt.Printf("ENGINE-ERROR property=%s not implemented by harness/server\n", os.Args[1])
		os.Exit(2)
	}
}
