package main

import (
	"os"
	"runtime/pprof"
)

func startProf() func() {
	p := os.Getenv("VERIF_PROF")
	if p == "" {
		return func() {}
	}
	f, _ := os.Create(p + "." + os.Getenv("VERIF_SHARD")[:1])
	pprof.StartCPUProfile(f)
	return func() { pprof.StopCPUProfile(); f.Close() }
}
