package main

func c30()     {}
func c29()     {}
func c29Host() {}
