package main

func c29()     {}
func c29Host() {}
