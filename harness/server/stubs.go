package main

func c31()      {}
func c32()      {}
func c35()      {}
func c30()      {}
func c29()      {}
func hostMain() {}
