package main

func c35()     {}
func c30()     {}
func c29()     {}
func c35Host() {}
func c29Host() {}
