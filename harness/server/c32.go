// C32: subscription and monitored item ids are unique and session-scoped.
//
// Explicit-state breadth-first search over histories of
//
//	{CreateSubscription, DeleteSubscriptions(t), CreateMonitoredItems(t) with one
//	 item, CreateMonitoredItems(t) with two items in one request,
//	 DeleteMonitoredItems(t), SetMonitoringMode(t)} x 2 sessions,
//	 t in {own-oldest, own-newest, foreign(oldest), unknown} and, for the two
//	 monitored item services whose request names a subscription id besides the
//	 item ids, foreign-item-own-sub (the other session's oldest item id together
//	 with the caller's OWN oldest subscription id; the plain foreign target
//	 names the item's real, i.e. foreign, subscription)
//
// on a real server. A state *is* a history; the successor of a state is
// computed by replaying the history over the wire (two raw secure channels,
// one session each) on a freshly reset server and applying one more operation,
// first directly through the registered handler (panic recovered; the server
// cannot recover a panic in its dispatcher goroutine), then - if that did not
// panic - again over the wire on another freshly reset replay. Both must agree.
//
// Fresh state without paying server.New (~150 ms) per transition: one server
// per worker process; before every replay the harness closes both sessions,
// deletes every subscription through the server's own exported
// SubscriptionService.DeleteSubscription, waits for quiescence and *verifies*
// that Subs, Items, Nodes, Subs-by-item are empty and the session table holds
// exactly the worker's two sessions (else the server is replaced). The two
// sessions live as long as the worker's server: a session object holds only
// its token and a publish queue that no operation of this alphabet touches. State independence argument: the five services read
// and write only SubscriptionService.Subs, MonitoredItemService.{Items, Nodes,
// Subs, id} and (read-only) the session table; after the reset these equal a
// new server's except for the monitored item counter `id`, which is only ever
// incremented and compared for equality - handled by the canonicalisation
// below.
// The argument is additionally tested: every history of depth <= 2 is also
// executed on a brand-new server and must reach the same canonical state.
//
// Canonical state (what C32 can observe): for every session (A, B, other) the
// sorted live subscription ids, and for every live monitored item its
// subscription id, owner and monitoring mode, with item ids replaced by their
// rank among the live item ids. Rank renaming is sound because item ids come
// from a monotone counter and are used only as map keys (order-preserving
// renaming commutes with every operation). Subscription ids are NOT
// rank-renamed, because the server under test may derive new ones from the
// live set (it does: len(Subs)+1); they are only shifted by `base` = (first
// subscription id handed out in this replay) - 1, which is 0 for a len-based
// server and the hidden counter for a counter-based one, and the state carries
// `hw`, the highest (shifted) id handed out so far in the history. Two
// histories with the same canonical state therefore leave a len-based server
// with identical maps and a counter-based server with maps equal up to the
// shift and the same next id; both have the same future. (hw splits some
// states a len-based server cannot distinguish: less merging, still sound.)
//
// Oracle (no stronger than the statement): an id returned by a create is not
// live in any session at that moment; an operation aimed at a foreign id does
// not report Good and leaves the full state unchanged; an operation aimed at an
// unknown id leaves the state unchanged; no operation changes what belongs to
// the other session. A panic on an unknown id is a crash (C29) and is recorded
// as an outcome, not judged here.
package main

import (
	"encoding/json"
	"fmt"
	"os"
	"runtime/debug"
	"sort"
	"strings"
	"time"

	"github.com/gopcua/opcua/server"
	"github.com/gopcua/opcua/ua"
	"github.com/gopcua/opcua/uasc"
	"verif/engine/evid"
)

type c32Op struct {
	S int    `json:"s"` // session 0/1
	K string `json:"k"` // CS DS CMI CMI2 (two items in one request) DMI SMM
	T string `json:"t"` // "", own-oldest, own-newest, foreign, unknown, foreign-item-own-sub (DMI, SMM only)
}

func (o c32Op) String() string {
	if o.T == "" {
		return fmt.Sprintf("%c:%s", 'A'+o.S, o.K)
	}
	return fmt.Sprintf("%c:%s(%s)", 'A'+o.S, o.K, o.T)
}

type c32Hist []c32Op

func (h c32Hist) String() string {
	p := make([]string, len(h))
	for i, o := range h {
		p[i] = o.String()
	}
	return strings.Join(p, " ")
}

var c32Kinds = []string{"CS", "DS", "CMI", "CMI2", "DMI", "SMM"}
var c32Targets = []string{"own-oldest", "own-newest", "foreign", "unknown", c32ForeignOwnSub}

// c32ForeignOwnSub: a monitored item of the other session, named in a request
// whose SubscriptionID is one of the caller's own subscriptions.
const c32ForeignOwnSub = "foreign-item-own-sub"

func c32Foreign(t string) bool { return t == "foreign" || t == c32ForeignOwnSub }

var c32Service = map[string]string{"CS": "CreateSubscription", "DS": "DeleteSubscriptions", "CMI": "CreateMonitoredItems", "CMI2": "CreateMonitoredItems[2 items]", "DMI": "DeleteMonitoredItems", "SMM": "SetMonitoringMode"}

const c32Unknown = uint32(999999)

type c32Item struct {
	Sub   uint32
	Owner int
	Mode  uint32
}

// c32Snap is the observable server state.
type c32Snap struct {
	Subs  map[uint32]int // id -> owner: 0 A, 1 B, 2 other/none
	Items map[uint32]c32Item
}

func (s c32Snap) raw() string {
	var b strings.Builder
	ids := make([]uint32, 0, len(s.Subs))
	for id := range s.Subs {
		ids = append(ids, id)
	}
	sort.Slice(ids, func(i, j int) bool { return ids[i] < ids[j] })
	for _, id := range ids {
		fmt.Fprintf(&b, "s%d@%c ", id, 'A'+s.Subs[id])
	}
	its := make([]uint32, 0, len(s.Items))
	for id := range s.Items {
		its = append(its, id)
	}
	sort.Slice(its, func(i, j int) bool { return its[i] < its[j] })
	for _, id := range its {
		it := s.Items[id]
		fmt.Fprintf(&b, "i%d:s%d@%c/m%d ", id, it.Sub, 'A'+it.Owner, it.Mode)
	}
	return b.String()
}

// canon: subscription ids relative to base, item ids replaced by their rank,
// plus the high-water mark of the subscription ids handed out in this history.
func (s c32Snap) canon(base, hw uint32) string {
	var b strings.Builder
	for owner := 0; owner < 3; owner++ {
		var ids []uint32
		for id, o := range s.Subs {
			if o == owner {
				ids = append(ids, id-base)
			}
		}
		sort.Slice(ids, func(i, j int) bool { return ids[i] < ids[j] })
		fmt.Fprintf(&b, "%c:%v ", 'A'+owner, ids)
	}
	fmt.Fprintf(&b, "hw=%d ", hw)
	its := make([]uint32, 0, len(s.Items))
	for id := range s.Items {
		its = append(its, id)
	}
	sort.Slice(its, func(i, j int) bool { return its[i] < its[j] })
	for rank, id := range its {
		it := s.Items[id]
		fmt.Fprintf(&b, "#%d:s%d@%c/m%d ", rank, it.Sub-base, 'A'+it.Owner, it.Mode)
	}
	return b.String()
}

// restrict returns the raw description of what belongs to one owner.
func (s c32Snap) restrict(owner int) string {
	t := c32Snap{Subs: map[uint32]int{}, Items: map[uint32]c32Item{}}
	for id, o := range s.Subs {
		if o == owner {
			t.Subs[id] = o
		}
	}
	for id, it := range s.Items {
		if it.Owner == owner {
			t.Items[id] = it
		}
	}
	return t.raw()
}

type c32World struct {
	srv      *server.Server
	url      string
	ch       [2]*rawChan
	tok      [2]*ua.NodeID
	replays  int
	rebuilds int
	pre      c32Snap // state right before the last applied operation (same replay)
	base     uint32  // first subscription id handed out in this replay, minus 1
	baseSet  bool
	hw       uint32 // highest subscription id handed out in this replay, relative to base
}

func (w *c32World) canon(sn c32Snap) string { return sn.canon(w.base, w.hw) }

func newC32World() (*c32World, error) {
	s, url, err := startServer(noneOpts(), nil)
	if err != nil {
		return nil, err
	}
	w := &c32World{srv: s, url: url}
	for i := range w.ch {
		if w.ch[i], err = openRaw(url, nil); err != nil {
			return nil, err
		}
	}
	return w, nil
}

func (w *c32World) close() {
	for _, c := range w.ch {
		c.Close()
	}
	w.srv.Close()
}

func (w *c32World) owner(tok string) int {
	for i, t := range w.tok {
		if t != nil && t.String() == tok {
			return i
		}
	}
	return 2
}

func (w *c32World) snap() c32Snap {
	sn := c32Snap{Subs: map[uint32]int{}, Items: map[uint32]c32Item{}}
	ss := w.srv.SubscriptionService
	ss.Mu.Lock()
	for id, sub := range ss.Subs {
		sn.Subs[id] = w.owner(sub.VerifSubOwner())
	}
	ss.Mu.Unlock()
	ms := w.srv.MonitoredItemService
	ms.Mu.Lock()
	for id, it := range ms.Items {
		ci := c32Item{Owner: 2, Mode: uint32(it.Mode)}
		if it.Sub != nil {
			ci.Sub = it.Sub.ID
			ci.Owner = w.owner(it.Sub.VerifSubOwner())
		}
		sn.Items[id] = ci
	}
	ms.Mu.Unlock()
	return sn
}

// reset brings the server back to the state of a new one (see the header).
func (w *c32World) reset() error {
	w.base, w.baseSet, w.hw = 0, false, 0
	nsess := 0
	for _, t := range w.tok {
		if t != nil {
			nsess++
		}
	}
	ss := w.srv.SubscriptionService
	ss.Mu.Lock()
	var ids []uint32
	for id := range ss.Subs {
		ids = append(ids, id)
	}
	ss.Mu.Unlock()
	for _, id := range ids {
		ss.DeleteSubscription(id)
	}
	ms := w.srv.MonitoredItemService
	ms.Mu.Lock()
	var its []uint32
	for id := range ms.Items {
		its = append(its, id)
	}
	ms.Mu.Unlock()
	for _, id := range its {
		ms.DeleteMonitoredItem(id)
	}
	if ok, why := waitQuiescent(); !ok {
		return fmt.Errorf("server not quiescent after reset: %s", why)
	}
	ss.Mu.Lock()
	nsubs := len(ss.Subs)
	ss.Mu.Unlock()
	ms.Mu.Lock()
	nit, nn, nsb := len(ms.Items), len(ms.Nodes), len(ms.Subs)
	ms.Mu.Unlock()
	if nsubs+nit+nn+nsb != 0 || len(w.srv.VerifSessionTokens()) != nsess {
		return fmt.Errorf("reset did not reach the empty state: subs=%d items=%d nodes=%d bysub=%d sessions=%d", nsubs, nit, nn, nsb, len(w.srv.VerifSessionTokens()))
	}
	for i := range w.tok {
		if w.tok[i] != nil {
			continue
		}
		t, err := w.ch[i].createSession(w.url)
		if err != nil {
			return fmt.Errorf("create session: %v", err)
		}
		if err := w.ch[i].activateSession(t); err != nil {
			return fmt.Errorf("activate session: %v", err)
		}
		w.tok[i] = t
	}
	return nil
}

// resolve turns an operation's symbolic target into a concrete id (ok=false: not enabled in this state).
func c32Resolve(o c32Op, sn c32Snap) (id uint32, subOf uint32, ok bool) {
	if o.K == "CS" {
		return 0, 0, true
	}
	if o.T == "unknown" {
		return c32Unknown, c32Unknown, true
	}
	if o.T == c32ForeignOwnSub {
		if o.K != "DMI" && o.K != "SMM" {
			return 0, 0, false
		}
		var item, sub uint32
		haveItem, haveSub := false, false
		for id, it := range sn.Items {
			if it.Owner != o.S && (!haveItem || id < item) {
				item, haveItem = id, true
			}
		}
		for id, ow := range sn.Subs {
			if ow == o.S && (!haveSub || id < sub) {
				sub, haveSub = id, true
			}
		}
		return item, sub, haveItem && haveSub
	}
	var own, foreign []uint32
	subOfItem := map[uint32]uint32{}
	if o.K == "DS" || o.K == "CMI" || o.K == "CMI2" {
		for id, ow := range sn.Subs {
			if ow == o.S {
				own = append(own, id)
			} else {
				foreign = append(foreign, id)
			}
		}
	} else {
		for id, it := range sn.Items {
			subOfItem[id] = it.Sub
			if it.Owner == o.S {
				own = append(own, id)
			} else {
				foreign = append(foreign, id)
			}
		}
	}
	sort.Slice(own, func(i, j int) bool { return own[i] < own[j] })
	sort.Slice(foreign, func(i, j int) bool { return foreign[i] < foreign[j] })
	switch o.T {
	case "own-oldest":
		if len(own) == 0 {
			return 0, 0, false
		}
		id = own[0]
	case "own-newest":
		if len(own) < 2 {
			return 0, 0, false
		}
		id = own[len(own)-1]
	case "foreign":
		if len(foreign) == 0 {
			return 0, 0, false
		}
		id = foreign[0]
	}
	return id, subOfItem[id], true
}

func c32Enabled(sn c32Snap) []c32Op {
	var out []c32Op
	for s := 0; s < 2; s++ {
		for _, k := range c32Kinds {
			if k == "CS" {
				out = append(out, c32Op{s, k, ""})
				continue
			}
			for _, t := range c32Targets {
				o := c32Op{s, k, t}
				if _, _, ok := c32Resolve(o, sn); ok {
					out = append(out, o)
				}
			}
		}
	}
	return out
}

func c32Request(o c32Op, id, subOf uint32) ua.Request {
	switch o.K {
	case "CS":
		// one hour publishing interval: the subscription's ticker never fires during the check
		return &ua.CreateSubscriptionRequest{RequestedPublishingInterval: 3600000, RequestedLifetimeCount: 10000, RequestedMaxKeepAliveCount: 1000, PublishingEnabled: true}
	case "DS":
		return &ua.DeleteSubscriptionsRequest{SubscriptionIDs: []uint32{id}}
	case "CMI", "CMI2":
		n := 1
		if o.K == "CMI2" {
			n = 2
		}
		req := &ua.CreateMonitoredItemsRequest{SubscriptionID: id, TimestampsToReturn: ua.TimestampsToReturnBoth}
		for i := 0; i < n; i++ {
			req.ItemsToCreate = append(req.ItemsToCreate, &ua.MonitoredItemCreateRequest{
				ItemToMonitor:       &ua.ReadValueID{NodeID: ua.NewNumericNodeID(0, 2258), AttributeID: ua.AttributeIDValue, DataEncoding: &ua.QualifiedName{}},
				MonitoringMode:      ua.MonitoringModeReporting,
				RequestedParameters: &ua.MonitoringParameters{ClientHandle: uint32(i + 1), SamplingInterval: 1000, QueueSize: 1, Filter: ua.NewExtensionObject(nil)},
			})
		}
		return req
	case "DMI":
		return &ua.DeleteMonitoredItemsRequest{SubscriptionID: subOf, MonitoredItemIDs: []uint32{id}}
	case "SMM":
		return &ua.SetMonitoringModeRequest{SubscriptionID: subOf, MonitoringMode: ua.MonitoringModeReporting, MonitoredItemIDs: []uint32{id}}
	}
	panic("bad op")
}

// c32Res is the normalised answer of one operation.
type c32Res struct {
	Service  string   `json:"service"`
	Results  []string `json:"results,omitempty"`
	IDs      []uint32 `json:"ids,omitempty"`
	Panicked string   `json:"panicked,omitempty"`
	Detail   string   `json:"detail,omitempty"`
	good     bool
}

func stName(c ua.StatusCode) string {
	if c == ua.StatusOK {
		return "Good"
	}
	s := c.Error()
	if i := strings.Index(s, "Status"); i >= 0 {
		s = s[i:]
		if j := strings.IndexByte(s, ' '); j > 0 {
			s = s[:j]
		}
		return strings.TrimPrefix(s, "Status")
	}
	return fmt.Sprintf("0x%08x", uint32(c))
}

func c32Normalise(resp ua.Response, err error) c32Res {
	var r c32Res
	if err != nil {
		if sc, ok := err.(ua.StatusCode); ok {
			r.Service = stName(sc)
		} else {
			r.Service = "error"
			r.Detail = err.Error()
		}
		return r
	}
	r.Service = stName(serviceResult(resp))
	r.good = r.Service == "Good"
	switch v := resp.(type) {
	case *ua.CreateSubscriptionResponse:
		r.IDs = []uint32{v.SubscriptionID}
	case *ua.DeleteSubscriptionsResponse:
		for _, c := range v.Results {
			r.Results = append(r.Results, stName(c))
		}
	case *ua.CreateMonitoredItemsResponse:
		for _, c := range v.Results {
			r.Results = append(r.Results, stName(c.StatusCode))
			r.IDs = append(r.IDs, c.MonitoredItemID)
		}
	case *ua.DeleteMonitoredItemsResponse:
		for _, c := range v.Results {
			r.Results = append(r.Results, stName(c))
		}
	case *ua.SetMonitoringModeResponse:
		for _, c := range v.Results {
			r.Results = append(r.Results, stName(c))
		}
	case *ua.ServiceFault:
	default:
		r.Detail = fmt.Sprintf("answered %T", resp)
	}
	for _, s := range r.Results {
		if s != "Good" {
			r.good = false
		}
	}
	return r
}

func (w *c32World) serverChannel() *uasc.SecureChannel {
	chs := w.srv.VerifChannels()
	if len(chs) == 0 {
		return nil
	}
	return chs[0]
}

var c32Handle uint32

// apply executes one operation (resolved against the current state) and waits for quiescence.
func (w *c32World) apply(o c32Op, direct bool) (c32Res, uint32, error) {
	sn := w.snap()
	w.pre = sn
	id, subOf, ok := c32Resolve(o, sn)
	if !ok {
		return c32Res{}, 0, fmt.Errorf("operation %v not enabled in state %s", o, sn.raw())
	}
	req := c32Request(o, id, subOf)
	var res c32Res
	if direct {
		func() {
			defer func() {
				if p := recover(); p != nil {
					res = c32Res{Panicked: panicSite(), Detail: stripHex(fmt.Sprint(p))}
				}
			}()
			c32Handle++
			req.SetHeader(&ua.RequestHeader{AuthenticationToken: w.tok[o.S], Timestamp: time.Now(), RequestHandle: c32Handle})
			resp, err, _ := w.srv.VerifHandle(w.serverChannel(), req, c32Handle)
			if err != nil {
				if _, isSC := err.(ua.StatusCode); !isSC {
					err = ua.StatusBadUnexpectedError // what handleService turns it into
				}
			}
			res = c32Normalise(resp, err)
		}()
	} else {
		resp, err := w.ch[o.S].send(req, w.tok[o.S])
		res = c32Normalise(resp, err)
		if res.Service == "error" {
			return res, id, fmt.Errorf("wire: %s", res.Detail)
		}
	}
	if o.K == "CS" && res.good && len(res.IDs) == 1 {
		if !w.baseSet {
			w.base, w.baseSet = res.IDs[0]-1, true
		}
		if rel := res.IDs[0] - w.base; rel > w.hw {
			w.hw = rel
		}
	}
	if ok, why := waitQuiescent(); !ok {
		return res, id, fmt.Errorf("server not quiescent after %v: %s", o, why)
	}
	return res, id, nil
}

// replay resets the server and executes h over the wire.
func (w *c32World) replay(h c32Hist) error {
	w.replays++
	if w.replays%400 == 0 {
		// bound what orphaned Subscription.run goroutines (subscriptions overwritten by a reused id) can pile up
		if err := w.rebuild(); err != nil {
			return err
		}
	}
	if err := w.reset(); err != nil {
		// the reset could not reach the empty state: replace the server
		if err2 := w.rebuild(); err2 != nil {
			return fmt.Errorf("%v; rebuild: %v", err, err2)
		}
		if err = w.reset(); err != nil {
			return err
		}
	}
	for _, o := range h {
		if _, _, err := w.apply(o, false); err != nil {
			return err
		}
	}
	return nil
}

func (w *c32World) rebuild() error {
	w.close()
	nw, err := newC32World()
	if err != nil {
		return err
	}
	nw.replays, nw.rebuilds = w.replays, w.rebuilds+1
	*w = *nw
	return nil
}

// judge applies the C32 oracle to one transition.
func c32Judge(o c32Op, id uint32, pre, post c32Snap, res c32Res) (out [][2]string) {
	svc := c32Service[o.K]
	add := func(kind, detail string) {
		out = append(out, [2]string{svc + "/" + kind, detail})
	}
	other := 1 - o.S
	switch o.K {
	case "CS":
		if res.good && len(res.IDs) == 1 {
			if ow, live := pre.Subs[res.IDs[0]]; live {
				who := "another-session"
				if ow == o.S {
					who = "the-same-session"
				}
				add("returned-id-still-live-in-"+who, fmt.Sprintf("returned subscription id %d; live before: %s", res.IDs[0], pre.raw()))
			}
		}
	case "CMI", "CMI2":
		// uniqueness is judged over all ids returned Good: against what was live before, and among themselves
		seen := map[uint32]bool{}
		for i, st := range res.Results {
			if st == "Good" && i < len(res.IDs) {
				if _, live := pre.Items[res.IDs[i]]; live {
					add("returned-item-id-still-live", fmt.Sprintf("returned monitored item id %d; live before: %s", res.IDs[i], pre.raw()))
				}
				if seen[res.IDs[i]] {
					add("returned-item-id-twice-in-one-response", fmt.Sprintf("returned monitored item ids %v", res.IDs))
				}
				seen[res.IDs[i]] = true
			}
		}
	}
	if c32Foreign(o.T) {
		if res.good {
			add(o.T+"/reported-Good", fmt.Sprintf("session %c used id %d of the other session and was answered Good (%+v)", 'A'+o.S, id, res))
		}
		if pre.raw() != post.raw() {
			add(o.T+"/state-changed", fmt.Sprintf("session %c used id %d of the other session: %s -> %s", 'A'+o.S, id, pre.raw(), post.raw()))
		}
	}
	if o.T == "unknown" && pre.raw() != post.raw() {
		add("unknown/state-changed", fmt.Sprintf("unknown id %d: %s -> %s", id, pre.raw(), post.raw()))
	}
	if !c32Foreign(o.T) && pre.restrict(other) != post.restrict(other) {
		add(strings.TrimSuffix("own/"+o.T, "/")+"/other-session-state-changed", fmt.Sprintf("operation of session %c changed what session %c owns: %s -> %s", 'A'+o.S, 'A'+other, pre.raw(), post.raw()))
	}
	return out
}

type c32Frontier struct {
	Hist  c32Hist `json:"hist"`
	Canon string  `json:"canon"`
	Fresh bool    `json:"fresh,omitempty"` // also replay on a brand-new server (tests the reset argument)
}

// c32Rec is what a worker reports about one transition.
type c32Rec struct {
	Hist      c32Hist     `json:"hist"`
	Succ      string      `json:"succ"` // canonical successor ("" = the handler panicked)
	Res       c32Res      `json:"res"`
	Viol      [][2]string `json:"viol,omitempty"`
	Outcome   string      `json:"outcome"`
	Key       string      `json:"key"`
	Evals     int         `json:"evals"`
	NotJudged int         `json:"not_judged"`
}

type c32Reply struct {
	Recs      []c32Rec `json:"recs"`
	EngineErr string   `json:"engine_err,omitempty"`
	FreshOK   bool     `json:"fresh_ok,omitempty"`
}

func c32() {
	r := evid.New("C32")
	var rh c32Hist
	if evid.ReplayInput(&rh) {
		c32Replay(rh)
		return
	}
	depth := 4
	if evid.Thorough() {
		depth = 6
	}
	depth = envInt("VERIF_C32_DEPTH", depth)
	budget := 75 * time.Second
	if evid.Thorough() {
		budget = 9 * time.Minute
	}
	start := time.Now()
	p := newPool("c32", evid.Workers(), nil)
	defer p.close()
	visited := map[string]c32Hist{}
	frontier := []c32Frontier{{Hist: c32Hist{}, Canon: c32Snap{}.canon(0, 0)}}
	visited[frontier[0].Canon] = c32Hist{}
	var states, transitions int64 = 1, 0
	maxDepth, completeDepth := 0, 0
	timeUp := func() bool { return time.Since(start) > budget }
	for level := 0; level < depth && len(frontier) > 0; level++ {
		jobs := make([][]byte, len(frontier))
		for i, f := range frontier {
			f.Fresh = level <= 2
			jobs[i], _ = json.Marshal(f)
		}
		results := p.run("C32", jobs, 10*time.Minute, timeUp)
		var all []c32Rec
		skipped := 0
		for i, jr := range results {
			switch {
			case jr.Death != nil:
				if jr.Death.Headline == "" {
					evid.EngineError("C32", "worker failed without a Go panic on %v: %s", frontier[i].Hist, deathDetail(jr.Death))
				}
				r.Eval("")
				r.Violate("server-died/"+jr.Death.Func, fmt.Sprintf("the server process died while the successors of history [%v] were computed\n%s", frontier[i].Hist, deathDetail(jr.Death)), frontier[i].Hist)
				r.Capped(fmt.Sprintf("a worker died expanding [%v]; that state's successors are missing", frontier[i].Hist))
			case jr.Out == nil:
				skipped++
			default:
				var rep c32Reply
				if err := json.Unmarshal(jr.Out, &rep); err != nil {
					evid.EngineError("C32", "bad worker reply: %v: %.200s", err, jr.Out)
				}
				if rep.EngineErr != "" {
					evid.EngineError("C32", "%s", rep.EngineErr)
				}
				if rep.FreshOK {
					r.Outcome("fresh-server cross-check agreed")
				}
				all = append(all, rep.Recs...)
			}
		}
		for _, t := range all {
			r.Eval(t.Key)
			if t.Evals > 1 {
				r.EvalN(int64(t.Evals - 1))
			}
			r.NotJudged(int64(t.NotJudged))
			r.Outcome(t.Outcome)
			for _, v := range t.Viol {
				r.Violate(v[0], v[1], t.Hist)
			}
			if len(t.Hist) == 3 && t.Hist[2].K == "CS" {
				r.Sample(map[string]any{"history": t.Hist.String(), "answer": t.Res, "state": t.Succ})
			}
		}
		transitions += int64(len(all))
		if skipped > 0 {
			r.Capped(fmt.Sprintf("time budget reached at level %d: all histories of length <= %d explored; %d of %d states of depth %d were not expanded", level+1, level, skipped, len(frontier), level))
		} else {
			completeDepth = level + 1
		}
		sort.Slice(all, func(i, j int) bool { return all[i].Hist.String() < all[j].Hist.String() })
		var next []c32Frontier
		for _, t := range all {
			if t.Succ == "" {
				continue
			}
			if _, seen := visited[t.Succ]; seen {
				continue
			}
			visited[t.Succ] = t.Hist
			next = append(next, c32Frontier{Hist: t.Hist, Canon: t.Succ})
			states++
			maxDepth = level + 1
		}
		frontier = next
		if skipped > 0 {
			break
		}
	}
	r.AddStates(states, transitions)
	r.Set("max_depth", maxDepth)
	r.Set("depth_bound", depth)
	r.Set("complete_to_depth", completeDepth)
	r.Set("unexpanded_states_at_bound", len(frontier))
	r.Set("worker_processes_started", p.Started)
	r.Rule(fmt.Sprintf("breadth-first over histories of length <= %d of {CreateSubscription, DeleteSubscriptions, CreateMonitoredItems with 1 item, CreateMonitoredItems with 2 items in one request, DeleteMonitoredItems, SetMonitoringMode} x targets {own-oldest, own-newest, foreign, unknown; DeleteMonitoredItems and SetMonitoringMode also foreign-item-own-sub = the other session's item id in a request that names one of the caller's own subscription ids} x 2 sessions; states deduplicated by canonical state (live subscription ids per session + rank-renamed monitored items with subscription, owner and mode); every transition = replay of the state's representative history on a reset real server + one operation, executed directly (handler call) and over the wire; evaluations = executed transitions (direct and wire counted separately); non-trivial = a transition from a state with at least one live subscription; distinct = (canonical source state, operation)", depth))
	r.Assume("the ticker of every subscription is set to one hour so that no subscription expires during the check", "reset server == new server for these services (argued in c32.go, and tested for every state of depth <= 2)", "effects of a step are collected at a quiescence barrier (all server goroutines parked), not after a delay")
	r.Finish()
}

// c32Host is the worker process: one real server, jobs = expand one state.
func c32Host() {
	debug.SetGCPercent(400)
	var w *c32World
	hostLoop(func(job []byte) any {
		var f c32Frontier
		if err := json.Unmarshal(job, &f); err != nil {
			return c32Reply{EngineErr: err.Error()}
		}
		if w == nil {
			var err error
			if w, err = newC32World(); err != nil {
				return c32Reply{EngineErr: err.Error()}
			}
		}
		rep := c32Reply{}
		if err := c32Expand(w, f, &rep); err != nil {
			rep.EngineErr = err.Error()
		}
		return rep
	})
}

func c32Expand(w *c32World, f c32Frontier, rep *c32Reply) error {
	if err := w.replay(f.Hist); err != nil {
		return fmt.Errorf("replay %v: %v", f.Hist, err)
	}
	pre := w.snap()
	if w.canon(pre) != f.Canon {
		return fmt.Errorf("nondeterministic replay: history %v reached %q, recorded %q", f.Hist, w.canon(pre), f.Canon)
	}
	if f.Fresh {
		if err := c32FreshCheck(f); err != nil {
			return err
		}
		rep.FreshOK = true
	}
	for oi, o := range c32Enabled(pre) {
		h := append(append(c32Hist{}, f.Hist...), o)
		if oi > 0 {
			if err := w.replay(f.Hist); err != nil {
				return fmt.Errorf("replay %v: %v", f.Hist, err)
			}
		}
		rec := c32Rec{Hist: h, Evals: 1}
		if len(pre.Subs) > 0 {
			rec.Key = f.Canon + "|" + o.String()
		}
		resD, _, err := w.apply(o, true)
		if err != nil {
			return fmt.Errorf("%v: %v", h, err)
		}
		if resD.Panicked != "" {
			rec.NotJudged = 1
			rec.Res = resD
			rec.Outcome = fmt.Sprintf("%s(%s): panic in %s (crash, see C29)", c32Service[o.K], o.T, resD.Panicked)
			rep.Recs = append(rep.Recs, rec)
			// make sure the recovered panic left the server usable
			if err := w.replay(nil); err != nil {
				return fmt.Errorf("server unusable after recovered panic in %v: %v", h, err)
			}
			continue
		}
		postD := w.canon(w.snap())
		// the same transition over the wire
		if err := w.replay(f.Hist); err != nil {
			return fmt.Errorf("replay %v: %v", f.Hist, err)
		}
		resW, idW, err := w.apply(o, false)
		if err != nil {
			return fmt.Errorf("%v: %v", h, err)
		}
		rec.Evals = 2
		postW := w.snap()
		rec.Res = resW
		rec.Succ = w.canon(postW)
		rec.Outcome = fmt.Sprintf("%s(%s): %s %v", c32Service[o.K], o.T, resW.Service, resW.Results)
		if postD != rec.Succ || resD.Service != resW.Service || fmt.Sprint(resD.Results) != fmt.Sprint(resW.Results) {
			rec.Viol = append(rec.Viol, [2]string{"direct-and-wire-differ/" + c32Service[o.K] + "/" + o.T, fmt.Sprintf("history %v: direct %+v -> %s; wire %+v -> %s", h, resD, postD, resW, rec.Succ)})
		}
		for _, v := range c32Judge(o, idW, w.pre, postW, resW) {
			rec.Viol = append(rec.Viol, [2]string{v[0], fmt.Sprintf("%s; history %v; answer %+v", v[1], h, resW)})
		}
		rep.Recs = append(rep.Recs, rec)
	}
	return nil
}

// c32FreshCheck tests the reset argument: the history replayed on a brand-new server reaches the same canonical state.
func c32FreshCheck(f c32Frontier) error {
	w, err := newC32World()
	if err != nil {
		return err
	}
	defer w.close()
	if err := w.replay(f.Hist); err != nil {
		return fmt.Errorf("fresh replay %v: %v", f.Hist, err)
	}
	if got := w.canon(w.snap()); got != f.Canon {
		return fmt.Errorf("reset server and new server disagree on history %v: %q vs %q", f.Hist, f.Canon, got)
	}
	return nil
}

func c32Replay(h c32Hist) {
	w, err := newC32World()
	if err != nil {
		evid.EngineError("C32", "%v", err)
	}
	if len(h) == 0 {
		return
	}
	if err := w.replay(h[:len(h)-1]); err != nil {
		evid.EngineError("C32", "%v", err)
	}
	fmt.Printf("replay %v\n", h)
	pre := w.snap()
	fmt.Printf(" state before last operation: %s\n", pre.raw())
	o := h[len(h)-1]
	res, id, err := w.apply(o, true)
	fmt.Printf(" direct: target id %d answer %+v err %v\n", id, res, err)
	if res.Panicked != "" {
		fmt.Printf(" the handler panicked in %s: not sent over the wire\n", res.Panicked)
		os.Exit(1)
	}
	if err := w.replay(h[:len(h)-1]); err != nil {
		evid.EngineError("C32", "%v", err)
	}
	res, id, err = w.apply(o, false)
	pre = w.pre
	post := w.snap()
	fmt.Printf(" wire: target id %d answer %+v err %v\n state after: %s\n", id, res, err, post.raw())
	vs := c32Judge(o, id, pre, post, res)
	for _, v := range vs {
		fmt.Printf(" DISCREPANCY %s: %s\n", v[0], v[1])
	}
	if len(vs) > 0 {
		os.Exit(1)
	}
}
