// A pool of crash-isolating worker processes.
//
// The server cannot recover a panic in its dispatcher or subscription
// goroutines, so a check that may kill the server runs it inside worker
// processes: the same binary re-executed with VERIF_SRVHOST=<mode>, fed one JSON
// job per line on stdin and answering one JSON line per job on stdout. The
// parent always knows which job a worker is executing; if the worker dies, the
// death (exit status + stderr tail with the Go panic trace) is reported for
// exactly that job, the worker is restarted and the remaining jobs continue.
// Jobs are handed out dynamically (next free worker), results are delivered to
// the caller in job order, so the verdicts do not depend on scheduling.
package main

import (
	"bufio"
	"encoding/json"
	"fmt"
	"io"
	"os"
	"os/exec"
	"strings"
	"sync"
	"syscall"
	"time"

	"verif/engine/evid"
)

type death struct {
	ExitErr  string
	Stderr   string
	Headline string // "panic: ..." / "fatal error: ..." ("" if none)
	Func     string // top in-repo function of the trace
}

type jobResult struct {
	Out      json.RawMessage
	Death    *death
	Progress string // last progress line ("P ...") the worker wrote before the answer or its death
}

type pworker struct {
	mode   string
	cmd    *exec.Cmd
	in     io.WriteCloser
	out    *bufio.Reader
	errBuf *tailBuf
	extra  []string
}

type tailBuf struct {
	mu sync.Mutex
	b  []byte
}

func (t *tailBuf) Write(p []byte) (int, error) {
	t.mu.Lock()
	t.b = append(t.b, p...)
	if len(t.b) > 1<<16 {
		// keep the head (the panic headline and top frames come first) and the tail
		t.b = append(t.b[:1<<15:1<<15], t.b[len(t.b)-(1<<14):]...)
	}
	t.mu.Unlock()
	return len(p), nil
}

func (t *tailBuf) Reset() { t.mu.Lock(); t.b = t.b[:0]; t.mu.Unlock() }

func (t *tailBuf) String() string { t.mu.Lock(); defer t.mu.Unlock(); return string(t.b) }

func startWorker(mode string, extraEnv []string) (*pworker, error) {
	w := &pworker{mode: mode, errBuf: &tailBuf{}, extra: extraEnv}
	w.cmd = exec.Command(os.Args[0], os.Args[1:]...)
	w.cmd.Env = append(os.Environ(), "VERIF_SRVHOST="+mode, "GOMAXPROCS=2", "GOTRACEBACK=all")
	w.cmd.Env = append(w.cmd.Env, extraEnv...)
	w.cmd.Stderr = w.errBuf
	var err error
	if w.in, err = w.cmd.StdinPipe(); err != nil {
		return nil, err
	}
	so, err := w.cmd.StdoutPipe()
	if err != nil {
		return nil, err
	}
	w.out = bufio.NewReaderSize(so, 1<<20)
	if err := w.cmd.Start(); err != nil {
		return nil, err
	}
	return w, nil
}

func (w *pworker) stop() {
	if w == nil || w.cmd == nil {
		return
	}
	w.in.Close()
	done := make(chan struct{})
	go func() { w.cmd.Wait(); close(done) }()
	select {
	case <-done:
	case <-time.After(5 * time.Second):
		w.cmd.Process.Kill()
		<-done
	}
}

// do sends one job and waits for its answer line. jobWatchdog bounds a job
// that neither answers nor dies (a hung worker is killed and reported).
func (w *pworker) do(job []byte, jobWatchdog time.Duration) jobResult {
	w.errBuf.Reset() // keep only what the worker writes during this job: a panic trace then starts at the top
	if _, err := w.in.Write(append(job, '\n')); err != nil {
		return w.dead(err)
	}
	type rd struct {
		line []byte
		err  error
	}
	ch := make(chan rd, 1)
	progress := ""
	var pmu sync.Mutex
	go func() {
		for {
			l, err := w.out.ReadBytes('\n')
			if err == nil && len(l) > 1 && l[0] == 'P' && l[1] == ' ' {
				pmu.Lock()
				progress = strings.TrimSpace(string(l[2:]))
				pmu.Unlock()
				continue
			}
			ch <- rd{l, err}
			return
		}
	}()
	getP := func() string { pmu.Lock(); defer pmu.Unlock(); return progress }
	select {
	case r := <-ch:
		if r.err != nil {
			d := w.dead(r.err)
			d.Progress = getP()
			return d
		}
		return jobResult{Out: r.line, Progress: getP()}
	case <-time.After(jobWatchdog):
		// SIGQUIT makes the Go runtime dump every goroutine before exiting: the hang's evidence
		w.cmd.Process.Signal(syscall.SIGQUIT)
		select {
		case <-ch:
		case <-time.After(10 * time.Second):
			w.cmd.Process.Kill()
			<-ch
		}
		d := w.dead(fmt.Errorf("no answer within %v (worker killed)", jobWatchdog))
		d.Death.Headline = "hang: " + d.Death.ExitErr
		d.Progress = getP()
		return d
	}
}

func (w *pworker) dead(cause error) jobResult {
	w.in.Close()
	err := w.cmd.Wait()
	d := &death{Stderr: w.errBuf.String()}
	if err != nil {
		d.ExitErr = err.Error()
	} else {
		d.ExitErr = cause.Error()
	}
	d.Headline, d.Func = topRepoFunc(d.Stderr)
	w.cmd = nil
	return jobResult{Death: d}
}

type pool struct {
	mode    string
	env     []string
	n       int
	mu      sync.Mutex
	idle    []*pworker
	Deaths  int
	Started int
	// retire (optional) inspects a worker's answer; true = the worker declared itself
	// unusable for further jobs and is stopped (a fresh one is started when needed).
	retire func(out []byte) bool
}

func newPool(mode string, n int, env []string) *pool {
	return &pool{mode: mode, n: n, env: env}
}

func (p *pool) get() (*pworker, error) {
	p.mu.Lock()
	if k := len(p.idle); k > 0 {
		w := p.idle[k-1]
		p.idle = p.idle[:k-1]
		p.mu.Unlock()
		return w, nil
	}
	p.Started++
	p.mu.Unlock()
	return startWorker(p.mode, p.env)
}

func (p *pool) put(w *pworker) {
	p.mu.Lock()
	p.idle = append(p.idle, w)
	p.mu.Unlock()
}

func (p *pool) close() {
	p.mu.Lock()
	ws := p.idle
	p.idle = nil
	p.mu.Unlock()
	for _, w := range ws {
		w.stop()
	}
}

// run executes all jobs on at most p.n workers and returns the results in job
// order. stop (optional) is polled before a job is handed out; jobs not
// started when it returns true come back with Out == nil and Death == nil.
func (p *pool) run(id string, jobs [][]byte, jobWatchdog time.Duration, stop func() bool) []jobResult {
	res := make([]jobResult, len(jobs))
	next := make(chan int)
	var wg sync.WaitGroup
	n := p.n
	if n > len(jobs) {
		n = len(jobs)
	}
	for i := 0; i < n; i++ {
		wg.Add(1)
		go func() {
			defer wg.Done()
			var w *pworker
			for j := range next {
				if w == nil {
					var err error
					if w, err = p.get(); err != nil {
						evid.EngineError(id, "cannot start worker: %v", err)
					}
				}
				r := w.do(jobs[j], jobWatchdog)
				if r.Death != nil {
					p.mu.Lock()
					p.Deaths++
					p.mu.Unlock()
					w = nil
				}
				if r.Death == nil && p.retire != nil && p.retire(r.Out) {
					w.stop()
					w = nil
				}
				res[j] = r
			}
			if w != nil {
				p.put(w)
			}
		}()
	}
	for j := range jobs {
		if stop != nil && stop() {
			break
		}
		next <- j
	}
	close(next)
	wg.Wait()
	return res
}

// hostLoop is the worker side: read job lines, answer one line per job.
func hostLoop(handle func(job []byte) any) {
	in := bufio.NewReaderSize(os.Stdin, 1<<20)
	out := bufio.NewWriter(os.Stdout)
	for {
		line, err := in.ReadBytes('\n')
		if len(line) > 0 {
			v := handle(line)
			b, merr := json.Marshal(v)
			if merr != nil {
				b, _ = json.Marshal(map[string]string{"engine_error": merr.Error()})
			}
			out.Write(b)
			out.WriteByte('\n')
			out.Flush()
		}
		if err != nil {
			return
		}
	}
}

// hostProgress tells the parent how far the current job got (survives the worker's death).
func hostProgress(s string) {
	os.Stdout.WriteString("P " + s + "\n")
}

func hostMain() {
	switch os.Getenv("VERIF_SRVHOST") {
	case "c32":
		c32Host()
	case "c35":
		c35Host()
	case "c30":
		c30Host()
	case "c29":
		c29Host()
	default:
		fmt.Fprintln(os.Stderr, "unknown VERIF_SRVHOST")
		os.Exit(2)
	}
}

func deathDetail(d *death) string {
	return fmt.Sprintf("%s\n%s\n%s", d.ExitErr, d.Headline, lastLines(strings.TrimSpace(d.Stderr), 40))
}
