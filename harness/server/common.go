// Shared helpers of the server checks (C29-C33, C35): starting a real server on
// loopback, real clients, raw secure channels with chosen authentication tokens.
package main

import (
	"context"
	"fmt"
	"io"
	"log"
	"net"
	"os"
	"reflect"
	"runtime"
	"sort"
	"strings"
	"time"

	"github.com/gopcua/opcua"
	"github.com/gopcua/opcua/server"
	"github.com/gopcua/opcua/ua"
	"github.com/gopcua/opcua/uacp"
	"github.com/gopcua/opcua/uasc"
)

// watchdog is the generous bound after which an unanswered request counts as
// "the server stopped answering". Normal latency is < 1 ms, so this is four
// orders of magnitude away from a timing oracle.
const watchdog = 20 * time.Second

func quiet() {
	log.SetOutput(io.Discard)
}

// freePort asks the kernel for an unused loopback port.
func freePort() int {
	l, err := net.Listen("tcp", "127.0.0.1:0")
	if err != nil {
		return 0
	}
	p := l.Addr().(*net.TCPAddr).Port
	l.Close()
	return p
}

// startServer builds a real server (server.New + Start) on a fresh loopback port.
// setup runs between New and Start (namespaces, nodes).
func startServer(opts []server.Option, setup func(*server.Server)) (*server.Server, string, error) {
	var lastErr error
	for try := 0; try < 20; try++ {
		port := freePort()
		if port == 0 {
			continue
		}
		o := append([]server.Option{}, opts...)
		o = append(o, server.EndPoint("127.0.0.1", port))
		s := server.New(o...)
		if setup != nil {
			setup(s)
		}
		if err := s.Start(context.Background()); err != nil {
			lastErr = err
			continue
		}
		return s, fmt.Sprintf("opc.tcp://127.0.0.1:%d", port), nil
	}
	return nil, "", fmt.Errorf("could not start server: %v", lastErr)
}

func noneOpts() []server.Option {
	return []server.Option{
		server.EnableSecurity("None", ua.MessageSecurityModeNone),
		server.EnableAuthMode(ua.UserTokenTypeAnonymous),
	}
}

// connectClient connects a real gopcua client (policy None, anonymous).
func connectClient(url string) (*opcua.Client, error) { return connectClientT(url, watchdog) }

func connectClientT(url string, requestTimeout time.Duration) (*opcua.Client, error) {
	c, err := opcua.NewClient(url, opcua.SecurityMode(ua.MessageSecurityModeNone), opcua.AutoReconnect(false), opcua.RequestTimeout(requestTimeout))
	if err != nil {
		return nil, err
	}
	ctx, cancel := context.WithTimeout(context.Background(), watchdog)
	defer cancel()
	if err := c.Connect(ctx); err != nil {
		return nil, err
	}
	return c, nil
}

// rawChan is a real uasc.SecureChannel opened by hand; requests are sent with
// an arbitrary authentication token.
type rawChan struct {
	conn *uacp.Conn
	sc   *uasc.SecureChannel
	errs chan error
	cert []byte // client certificate sent in CreateSession (secured channels)
}

func openRaw(url string, cfg *uasc.Config) (*rawChan, error) {
	ctx, cancel := context.WithTimeout(context.Background(), watchdog)
	defer cancel()
	conn, err := uacp.Dial(ctx, url)
	if err != nil {
		return nil, fmt.Errorf("dial: %w", err)
	}
	if cfg == nil {
		cfg = &uasc.Config{
			SecurityPolicyURI: ua.SecurityPolicyURINone,
			SecurityMode:      ua.MessageSecurityModeNone,
			Lifetime:          3600000,
			RequestTimeout:    watchdog,
		}
	}
	errs := make(chan error, 16)
	sc, err := uasc.NewSecureChannel(url, conn, cfg, errs)
	if err != nil {
		conn.Close()
		return nil, fmt.Errorf("new channel: %w", err)
	}
	if err := sc.Open(ctx); err != nil {
		conn.Close()
		return nil, fmt.Errorf("open: %w", err)
	}
	return &rawChan{conn: conn, sc: sc, errs: errs}, nil
}

func (r *rawChan) Close() {
	if r == nil {
		return
	}
	r.sc.Close()
	r.conn.Close()
}

// send sends req with the given authentication token and waits for the answer
// (or the watchdog). It returns the response, or the error the channel reported.
func (r *rawChan) send(req ua.Request, tok *ua.NodeID) (ua.Response, error) {
	return r.sendT(req, tok, watchdog)
}

func (r *rawChan) sendT(req ua.Request, tok *ua.NodeID, d time.Duration) (ua.Response, error) {
	var resp ua.Response
	ctx, cancel := context.WithTimeout(context.Background(), d+5*time.Second)
	defer cancel()
	err := r.sc.SendRequestWithTimeout(ctx, req, tok, d, func(v ua.Response) error {
		resp = v
		return nil
	})
	return resp, err
}

// rawSession creates (and optionally activates) a session over a raw channel.
func (r *rawChan) createSession(url string) (*ua.NodeID, error) {
	nonce := make([]byte, 32)
	req := &ua.CreateSessionRequest{
		ClientDescription:       &ua.ApplicationDescription{ApplicationURI: "urn:verif", ApplicationName: ua.NewLocalizedText("verif"), ApplicationType: ua.ApplicationTypeClient},
		EndpointURL:             url,
		SessionName:             "verif",
		ClientNonce:             nonce,
		ClientCertificate:       r.cert,
		RequestedSessionTimeout: 3600000,
	}
	resp, err := r.send(req, nil)
	if err != nil {
		return nil, err
	}
	cr, ok := resp.(*ua.CreateSessionResponse)
	if !ok {
		return nil, fmt.Errorf("CreateSession answered %T", resp)
	}
	if cr.ResponseHeader.ServiceResult != ua.StatusOK {
		return nil, cr.ResponseHeader.ServiceResult
	}
	return cr.AuthenticationToken, nil
}

func (r *rawChan) activateSession(tok *ua.NodeID) error {
	req := &ua.ActivateSessionRequest{
		ClientSignature:    &ua.SignatureData{},
		UserIdentityToken:  ua.NewExtensionObject(&ua.AnonymousIdentityToken{PolicyID: "anonymous_none"}),
		UserTokenSignature: &ua.SignatureData{},
	}
	resp, err := r.send(req, tok)
	if err != nil {
		return err
	}
	ar, ok := resp.(*ua.ActivateSessionResponse)
	if !ok {
		return fmt.Errorf("ActivateSession answered %T", resp)
	}
	if ar.ResponseHeader.ServiceResult != ua.StatusOK {
		return ar.ResponseHeader.ServiceResult
	}
	return nil
}

func (r *rawChan) closeSession(tok *ua.NodeID) error {
	resp, err := r.send(&ua.CloseSessionRequest{DeleteSubscriptions: true}, tok)
	if err != nil {
		return err
	}
	if _, ok := resp.(*ua.CloseSessionResponse); !ok {
		return fmt.Errorf("CloseSession answered %T", resp)
	}
	return nil
}

// serviceResult extracts the service result of a response.
func serviceResult(resp ua.Response) ua.StatusCode {
	if resp == nil || resp.Header() == nil {
		return ua.StatusBadUnexpectedError
	}
	return resp.Header().ServiceResult
}

func typeName(v any) string {
	s := fmt.Sprintf("%T", v)
	s = strings.TrimPrefix(s, "*ua.")
	return s
}

// topRepoFunc parses a Go panic/fatal trace and returns the panic headline and
// the first frame inside github.com/gopcua/opcua (function name, no line number).
func topRepoFunc(stderr string) (headline, fn string) {
	lines := strings.Split(stderr, "\n")
	start := -1
	for i, l := range lines {
		if strings.HasPrefix(l, "panic: ") || strings.HasPrefix(l, "fatal error: ") {
			start = i
			headline = l
			break
		}
	}
	if start < 0 {
		return "", ""
	}
	// normalise addresses out of the headline
	if i := strings.Index(headline, "[signal"); i > 0 {
		headline = strings.TrimSpace(headline[:i])
	}
	headline = stripHex(headline)
	for _, l := range lines[start:] {
		l = strings.TrimSpace(l)
		if strings.HasPrefix(l, "github.com/gopcua/opcua") && strings.Contains(l, "(") && !strings.HasPrefix(l, "github.com/gopcua/opcua/server.(*Server).VerifHandle") {
			f := l[:strings.LastIndex(l, "(")]
			f = strings.TrimPrefix(f, "github.com/gopcua/opcua/")
			f = strings.TrimPrefix(f, "github.com/gopcua/opcua.")
			// drop closure counters (func1.2) but keep the enclosing function
			if i := strings.Index(f, ".func"); i > 0 {
				f = f[:i]
			}
			return headline, f
		}
	}
	return headline, "?"
}

func stripHex(s string) string {
	var b strings.Builder
	for i := 0; i < len(s); i++ {
		if s[i] == '0' && i+1 < len(s) && s[i+1] == 'x' {
			j := i + 2
			for j < len(s) && strings.ContainsRune("0123456789abcdef", rune(s[j])) {
				j++
			}
			b.WriteString("0x_")
			i = j - 1
			continue
		}
		b.WriteByte(s[i])
	}
	return b.String()
}

func sortedKeys[V any](m map[string]V) []string {
	out := make([]string, 0, len(m))
	for k := range m {
		out = append(out, k)
	}
	sort.Strings(out)
	return out
}

func envInt(name string, def int) int {
	var n int
	if _, err := fmt.Sscanf(os.Getenv(name), "%d", &n); err == nil {
		return n
	}
	return def
}

// serverQuiescent reports whether every goroutine that is executing code of
// the server package is parked waiting for input (select, channel receive,
// network). It is the barrier the history-driven checks use between steps:
// handlers start background goroutines (go DeleteSubscription, go
// DeleteMonitoredItem, go ChangeNotification, Subscription.run exiting) whose
// effects belong to the step that started them. This is a state predicate,
// not a timer.
var stackBuf = make([]byte, 1<<16)

func serverQuiescent() (bool, string) {
	var buf []byte
	for {
		n := runtime.Stack(stackBuf, true)
		if n < len(stackBuf) {
			buf = stackBuf[:n]
			break
		}
		stackBuf = make([]byte, 2*len(stackBuf))
	}
	for _, g := range strings.Split(string(buf), "\n\n") {
		if !strings.Contains(g, "github.com/gopcua/opcua/server.") {
			continue
		}
		head := g
		if i := strings.IndexByte(g, '\n'); i > 0 {
			head = g[:i]
		}
		// "goroutine 12 [select]:" / "[IO wait, 2 minutes]:" / "[chan receive]:"
		st := head
		if i := strings.IndexByte(head, '['); i >= 0 {
			st = head[i+1:]
		}
		if i := strings.IndexAny(st, ",]"); i >= 0 {
			st = st[:i]
		}
		switch st {
		case "select", "chan receive", "IO wait", "select (no cases)":
			continue
		}
		return false, head
	}
	return true, ""
}

// serverWedged reports whether no goroutine executing server code can make
// progress by itself although the server is not quiescent: every one of them
// is parked waiting for input or blocked on a channel send or a lock, and at
// least one is blocked. (runtime.Stack(all) stops the world, so the states
// are one consistent snapshot: a blocked goroutine whose partner is about to
// release it would show that partner as runnable or running.) A state
// predicate, not a timer.
func serverWedged() (bool, string) {
	var buf []byte
	for {
		n := runtime.Stack(stackBuf, true)
		if n < len(stackBuf) {
			buf = stackBuf[:n]
			break
		}
		stackBuf = make([]byte, 2*len(stackBuf))
	}
	blocked := ""
	for _, g := range strings.Split(string(buf), "\n\n") {
		if !strings.Contains(g, "github.com/gopcua/opcua/server.") {
			continue
		}
		head := g
		if i := strings.IndexByte(g, '\n'); i > 0 {
			head = g[:i]
		}
		st := head
		if i := strings.IndexByte(head, '['); i >= 0 {
			st = head[i+1:]
		}
		if i := strings.IndexAny(st, ",]"); i >= 0 {
			st = st[:i]
		}
		switch st {
		case "select", "chan receive", "IO wait", "select (no cases)":
			continue
		case "chan send", "chan send (nil chan)", "chan receive (nil chan)", "semacquire", "sync.Mutex.Lock", "sync.RWMutex.Lock", "sync.RWMutex.RLock", "sync.Cond.Wait", "sync.WaitGroup.Wait":
			if blocked == "" {
				blocked = st
			}
			continue
		}
		return false, head // running, runnable, syscall, sleep, ...: somebody is still working
	}
	return blocked != "", "a server goroutine is blocked in [" + blocked + "]"
}

// waitQuiescent spins until the server is quiescent; false after the watchdog.
func waitQuiescent() (bool, string) {
	deadline := time.Now().Add(watchdog)
	why := ""
	for i := 0; ; i++ {
		ok, w := serverQuiescent()
		if ok {
			return true, ""
		}
		why = w
		if time.Now().After(deadline) {
			return false, why
		}
		if i < 50 {
			runtime.Gosched()
		} else {
			time.Sleep(200 * time.Microsecond)
		}
	}
}

// fillPointers allocates every nil pointer-to-struct member (recursively) and
// gives nil NodeID / ExpandedNodeID / ExtensionObject members their null
// value, so that a registry instance encodes to something the peer can decode
// (gopcua encodes a nil struct pointer as nothing at all).
func fillPointers(v reflect.Value, depth int) {
	if depth > 6 {
		return
	}
	switch v.Kind() {
	case reflect.Ptr:
		if !v.IsNil() {
			fillPointers(v.Elem(), depth+1)
		}
	case reflect.Struct:
		for i := 0; i < v.NumField(); i++ {
			f := v.Field(i)
			if !f.CanSet() {
				continue
			}
			if f.Kind() == reflect.Ptr && f.IsNil() {
				switch f.Type() {
				case reflect.TypeOf((*ua.NodeID)(nil)):
					f.Set(reflect.ValueOf(ua.NewTwoByteNodeID(0)))
				case reflect.TypeOf((*ua.ExpandedNodeID)(nil)):
					f.Set(reflect.ValueOf(ua.NewTwoByteExpandedNodeID(0)))
				case reflect.TypeOf((*ua.ExtensionObject)(nil)):
					f.Set(reflect.ValueOf(ua.NewExtensionObject(nil)))
				case reflect.TypeOf((*ua.Variant)(nil)):
					// a nil Variant is encoded as the null variant
				default:
					if f.Type().Elem().Kind() == reflect.Struct {
						f.Set(reflect.New(f.Type().Elem()))
						fillPointers(f.Elem(), depth+1)
					}
				}
				continue
			}
			fillPointers(f, depth+1)
		}
	case reflect.Slice:
		for i := 0; i < v.Len(); i++ {
			fillPointers(v.Index(i), depth+1)
		}
	}
}

// roundTrips reports whether the request survives gopcua's own encode/decode.
func roundTrips(req ua.Request) error {
	b, err := ua.Encode(req)
	if err != nil {
		return err
	}
	back := reflect.New(reflect.TypeOf(req).Elem()).Interface()
	_, err = ua.Decode(b, back)
	return err
}
