// C33: Browse returns exactly the matching references.
//
// Enumeration: every (requested reference type in {all ReferenceType nodes of
// the address space} + {null} + {ids that denote no ReferenceType node: string,
// GUID, opaque, ns>0;i=0, unused numeric, namespace out of range, a non-type
// node; expected result empty}) x IncludeSubtypes x direction {Forward, Inverse,
// Both} x class mask {0, each single class bit, all bits} on a node set that
// covers every (actual reference type, direction, target class) occurring in
// the address space (thorough: every node), on a real server with the imported
// ns0 plus an added namespace with hand-made nodes (custom reference type,
// dangling and ill-formed references).
//
// Each case runs (1) directly through NameSpace.Browse (panic recovered) and
// (2) through a real client over loopback TCP (cells whose direct call
// panicked are not sent: the server cannot recover a panic and would take the
// whole worker down; if it dies anyway the worker death is a violation).
//
// Histories (the address space changes while the server runs): on a brand-new
// server per history, [optionally one Browse with IncludeSubtypes for a
// supertype T of P, direct or over the wire] -> a new ReferenceType node is
// added below P through the public API (NewNode / AddNode / AddRef, HasSubtype
// in both notations) together with two nodes joined by references of the new
// type -> the oracle is recomputed from the address space -> grid of Browses
// on the touched nodes -> the same once more one level deeper (new type below
// the first new type) -> grid again. P ranges over a few types (thorough: every
// ReferenceType node), T over {none, P, every supertype of P}.
//
// Oracle: computed from the node's reference list (read through the verif
// hook) with an independent subtype closure (own walk over HasSubtype
// references, both notations). Result compared as a set of
// (reference type, isForward, target). Only well-formed references are judged;
// mask 0 = all classes; the null reference type is executed (crash detection)
// but left out of the verdict.
package main

import (
	"context"
	"fmt"
	"os"
	"runtime"
	"runtime/debug"
	"sort"
	"strings"

	"github.com/gopcua/opcua"
	"github.com/gopcua/opcua/id"
	"github.com/gopcua/opcua/server"
	"github.com/gopcua/opcua/server/attrs"
	"github.com/gopcua/opcua/ua"
	"verif/engine/evid"
)

type c33Case struct {
	Node    string `json:"node"`
	RefType string `json:"ref_type"` // "i=0" = null
	Sub     bool   `json:"include_subtypes"`
	Dir     int    `json:"direction"`
	Mask    uint32 `json:"class_mask"`
	Path    string `json:"path"` // direct | wire
}

var c33Masks = []uint32{0, 1, 2, 4, 8, 16, 32, 64, 128, 255}
var dirNames = []string{"Forward", "Inverse", "Both"}

func maskClass(m uint32) string {
	switch m {
	case 0:
		return "0"
	case 255:
		return "all"
	}
	return "single"
}

type wref struct {
	typ      string
	fwd      bool
	target   string
	class    uint32 // class recorded in the reference
	actClass uint32 // class of the target node in the address space (0 = no such node)
}

type c33World struct {
	srv      *server.Server
	url      string
	nodes    []*server.Node          // all nodes, de-duplicated, deterministic order
	byID     map[string]*server.Node // id string -> node
	refTypes []string                // ids of all ReferenceType nodes, sorted by (ns, numeric order of appearance)
	sub      map[string]map[string]bool
	refs     map[string][]wref // well-formed references per node
	nkeys    map[string]int    // distinct (type, direction, target) among them
	ids      map[string]*ua.NodeID
	mapNode  string // Objects node of the added MapNamespace
	// requested reference types that denote no ReferenceType node (id string -> kind, part of signatures)
	unknownTypes []string
	unknownKind  map[string]string
	illForm      int
}

func mkVar(nid *ua.NodeID, name string, class ua.NodeClass, refs []*ua.ReferenceDescription) *server.Node {
	return server.NewNode(nid, map[ua.AttributeID]*ua.DataValue{
		ua.AttributeIDNodeClass:  server.DataValueFromValue(uint32(class)),
		ua.AttributeIDBrowseName: server.DataValueFromValue(attrs.BrowseName(name)),
	}, refs, func() *ua.DataValue { return server.DataValueFromValue(int32(7)) })
}

func rd(rt *ua.NodeID, fwd bool, target *ua.NodeID, name string, class ua.NodeClass) *ua.ReferenceDescription {
	return &ua.ReferenceDescription{
		ReferenceTypeID: rt,
		IsForward:       fwd,
		NodeID:          ua.NewExpandedNodeID(target, "", 0),
		BrowseName:      &ua.QualifiedName{NamespaceIndex: target.Namespace(), Name: name},
		DisplayName:     &ua.LocalizedText{EncodingMask: ua.LocalizedTextText, Text: name},
		NodeClass:       class,
		TypeDefinition:  ua.NewTwoByteExpandedNodeID(0),
	}
}

// c33Setup adds the extra namespace: a folder with one reference of every
// interesting kind, a custom reference type (subtype of Organizes) and
// ill-formed / dangling references.
func c33Setup(s *server.Server) {
	ns := server.NewNodeNameSpace(s, "urn:verif:c33")
	n0, _ := s.Namespace(0)
	nsid := ns.ID()
	objs := ns.Objects()
	n0.Objects().AddRef(objs, id.HasComponent, true)
	objs.AddRef(n0.Objects(), id.HasComponent, false)

	rt := func(i uint32) *ua.NodeID { return ua.NewNumericNodeID(0, i) }
	custom := ua.NewNumericNodeID(nsid, 5000)
	folder := ua.NewStringNodeID(nsid, "folder")
	v1, v2, v3 := ua.NewStringNodeID(nsid, "v1"), ua.NewStringNodeID(nsid, "v2"), ua.NewStringNodeID(nsid, "v3")
	o2, m1, vw := ua.NewStringNodeID(nsid, "o2"), ua.NewStringNodeID(nsid, "m1"), ua.NewStringNodeID(nsid, "view")
	dangling := ua.NewStringNodeID(nsid, "dangling")
	otherNS := ua.NewStringNodeID(7, "nowhere")

	// custom reference type: subtype of Organizes, both notations
	ns.AddNode(server.NewNode(custom, map[ua.AttributeID]*ua.DataValue{
		ua.AttributeIDNodeClass:  server.DataValueFromValue(uint32(ua.NodeClassReferenceType)),
		ua.AttributeIDBrowseName: server.DataValueFromValue(attrs.BrowseName("VerifOrganizes")),
	}, []*ua.ReferenceDescription{rd(rt(id.HasSubtype), false, rt(id.Organizes), "Organizes", ua.NodeClassReferenceType)}, nil))
	s.Node(rt(id.Organizes)).AddRef(s.Node(custom), id.HasSubtype, true)

	bad1 := rd(rt(id.Organizes), true, v1, "bad-noname", ua.NodeClassVariable)
	bad1.BrowseName = nil
	bad2 := rd(rt(id.Organizes), true, v1, "bad-nodisplay", ua.NodeClassVariable)
	bad2.DisplayName = nil
	bad3 := rd(rt(id.Organizes), true, v1, "bad-notypedef", ua.NodeClassVariable)
	bad3.TypeDefinition = nil
	bad4 := rd(rt(id.Organizes), true, v1, "bad-notarget", ua.NodeClassVariable)
	bad4.NodeID = nil

	ns.AddNode(server.NewNode(folder, map[ua.AttributeID]*ua.DataValue{
		ua.AttributeIDNodeClass:  server.DataValueFromValue(uint32(ua.NodeClassObject)),
		ua.AttributeIDBrowseName: server.DataValueFromValue(attrs.BrowseName("folder")),
	}, []*ua.ReferenceDescription{
		rd(rt(id.Organizes), true, v1, "v1", ua.NodeClassVariable),
		bad1,
		rd(rt(id.HasComponent), true, v2, "v2", ua.NodeClassVariable),
		rd(rt(id.HasProperty), true, v3, "v3", ua.NodeClassVariable),
		bad2, bad3,
		rd(custom, true, o2, "o2", ua.NodeClassObject),
		rd(rt(id.Organizes), false, objs.ID(), "Objects", ua.NodeClassObject),
		rd(rt(id.HasTypeDefinition), true, rt(id.FolderType), "FolderType", ua.NodeClassObjectType),
		bad4,
		rd(rt(id.HasComponent), true, m1, "m1", ua.NodeClassMethod),
		rd(rt(id.Organizes), true, vw, "view", ua.NodeClassView),
		rd(rt(id.HasComponent), true, dangling, "dangling", ua.NodeClassVariable),
		rd(rt(id.Organizes), true, otherNS, "nowhere", ua.NodeClassObject),
		rd(rt(id.HasEventSource), true, o2, "o2", ua.NodeClassObject),
		rd(rt(id.NonHierarchicalReferences), false, v1, "v1", ua.NodeClassVariable),
		rd(rt(id.HasChild), true, v2, "v2", ua.NodeClassVariable), // abstract type used directly
	}, nil))
	objs.AddRef(s.Node(folder), id.Organizes, true)

	ns.AddNode(mkVar(v1, "v1", ua.NodeClassVariable, []*ua.ReferenceDescription{rd(rt(id.Organizes), false, folder, "folder", ua.NodeClassObject)}))
	ns.AddNode(mkVar(v2, "v2", ua.NodeClassVariable, []*ua.ReferenceDescription{rd(rt(id.HasComponent), false, folder, "folder", ua.NodeClassObject)}))
	ns.AddNode(mkVar(v3, "v3", ua.NodeClassVariable, []*ua.ReferenceDescription{rd(rt(id.HasProperty), false, folder, "folder", ua.NodeClassObject)}))
	ns.AddNode(mkVar(o2, "o2", ua.NodeClassObject, []*ua.ReferenceDescription{rd(custom, false, folder, "folder", ua.NodeClassObject)}))
	ns.AddNode(mkVar(m1, "m1", ua.NodeClassMethod, nil))
	ns.AddNode(mkVar(vw, "view", ua.NodeClassView, nil))

	// second added namespace: the map-backed namespace (own Browse implementation)
	mp := server.NewMapNamespace(s, "urn:verif:c33map")
	mp.Data["a"] = int32(1)
	mp.Data["b"] = "x"
}

func buildC33World() (*c33World, error) {
	s, url, err := startServer(noneOpts(), c33Setup)
	if err != nil {
		return nil, err
	}
	w := &c33World{srv: s, url: url, ids: map[string]*ua.NodeID{}}
	if err := w.index(); err != nil {
		s.Close()
		return nil, err
	}
	return w, nil
}

// index (re)computes the oracle's view of the address space from what the
// server holds now: node list, ReferenceType nodes, the independent subtype
// closure and the well-formed references per node.
func (w *c33World) index() error {
	s := w.srv
	w.nodes, w.refTypes, w.unknownTypes, w.illForm = nil, nil, nil, 0
	w.byID, w.sub, w.refs, w.nkeys = map[string]*server.Node{}, map[string]map[string]bool{}, map[string][]wref{}, map[string]int{}
	for _, ns := range s.Namespaces() {
		nn, ok := ns.(*server.NodeNameSpace)
		if !ok {
			continue
		}
		for _, n := range nn.VerifNodes() {
			k := n.ID().String()
			if w.byID[k] != nil { // AddNode keeps replaced nodes in the list; the map entry is the live one
				continue
			}
			live := nn.Node(n.ID())
			w.byID[k] = live
			w.nodes = append(w.nodes, live)
		}
	}
	hasSubtype := ua.NewNumericNodeID(0, id.HasSubtype).String()
	direct := map[string]map[string]bool{}
	add := func(parent, child string) {
		if direct[parent] == nil {
			direct[parent] = map[string]bool{}
		}
		direct[parent][child] = true
	}
	for _, n := range w.nodes {
		if n.NodeClass() == ua.NodeClassReferenceType {
			w.refTypes = append(w.refTypes, n.ID().String())
		}
		for _, r := range n.VerifRefs() {
			if r.ReferenceTypeID == nil || r.NodeID == nil || r.NodeID.NodeID == nil {
				continue
			}
			if r.ReferenceTypeID.String() != hasSubtype {
				continue
			}
			if r.IsForward {
				add(n.ID().String(), r.NodeID.NodeID.String())
			} else {
				add(r.NodeID.NodeID.String(), n.ID().String())
			}
		}
	}
	// independent transitive closure: strict subtypes of every reference type
	for _, t := range w.refTypes {
		seen := map[string]bool{}
		stack := []string{t}
		for len(stack) > 0 {
			cur := stack[len(stack)-1]
			stack = stack[:len(stack)-1]
			for c := range direct[cur] {
				if !seen[c] {
					seen[c] = true
					stack = append(stack, c)
				}
			}
		}
		delete(seen, t)
		w.sub[t] = seen
	}
	for _, n := range w.nodes {
		var out []wref
		for _, r := range n.VerifRefs() {
			if r.NodeID == nil || r.NodeID.NodeID == nil || r.BrowseName == nil || r.DisplayName == nil || r.TypeDefinition == nil || r.ReferenceTypeID == nil {
				w.illForm++
				continue
			}
			x := wref{typ: r.ReferenceTypeID.String(), fwd: r.IsForward, target: r.NodeID.NodeID.String(), class: uint32(r.NodeClass)}
			if t := w.byID[x.target]; t != nil {
				x.actClass = uint32(t.NodeClass())
			}
			out = append(out, x)
		}
		w.refs[n.ID().String()] = out
		ks := map[refKey]bool{}
		for _, x := range out {
			ks[refKey{x.typ, x.fwd, x.target}] = true
		}
		w.nkeys[n.ID().String()] = len(ks)
	}
	// the map namespace's address space is virtual: its Objects node has one
	// forward HasComponent reference to a Variable per key
	for _, ns := range s.Namespaces() {
		mp, ok := ns.(*server.MapNamespace)
		if !ok {
			continue
		}
		w.mapNode = ua.NewNumericNodeID(mp.ID(), id.ObjectsFolder).String()
		hc := ua.NewNumericNodeID(0, id.HasComponent).String()
		var keys []string
		for k := range mp.Data {
			keys = append(keys, k)
		}
		sort.Strings(keys)
		for _, k := range keys {
			w.refs[w.mapNode] = append(w.refs[w.mapNode], wref{typ: hc, fwd: true, target: ua.NewStringNodeID(mp.ID(), k).String(), class: uint32(ua.NodeClassVariable)})
		}
		w.nkeys[w.mapNode] = len(keys)
	}
	// Requested reference types that are not the null NodeID and denote no ReferenceType node: no reference
	// has such a type and nothing is a subtype of it, so by the statement the expected result is empty.
	addedNS := uint16(1)
	for _, ns := range s.Namespaces() {
		if nn, ok := ns.(*server.NodeNameSpace); ok && nn.ID() != 0 {
			addedNS = nn.ID()
			break
		}
	}
	w.unknownKind = map[string]string{}
	for _, u := range []struct {
		id   *ua.NodeID
		kind string
	}{
		{ua.NewStringNodeID(addedNS, "NoSuchReferenceType"), "string-id"},
		{ua.NewStringNodeID(0, "NoSuchReferenceType"), "string-id-ns0"},
		{ua.NewGUIDNodeID(addedNS, "AAAAAAAA-BBBB-CCCC-DDDD-EEEEEEEEEEEE"), "guid-id"},
		{ua.NewByteStringNodeID(addedNS, []byte("no-such-type")), "opaque-id"},
		{ua.NewNumericNodeID(addedNS, 0), "numeric-0-in-added-namespace"},
		{ua.NewNumericNodeID(addedNS, 4999), "numeric-unknown-in-added-namespace"},
		{ua.NewNumericNodeID(0, 999999), "numeric-unknown-ns0"},
		{ua.NewNumericNodeID(99, id.Organizes), "namespace-out-of-range"},
		{ua.NewNumericNodeID(0, id.ObjectsFolder), "node-that-is-not-a-reference-type"},
	} {
		k := u.id.String()
		if w.byID[k] != nil && w.byID[k].NodeClass() == ua.NodeClassReferenceType {
			return fmt.Errorf("%s was meant to denote no ReferenceType node", k)
		}
		w.unknownTypes = append(w.unknownTypes, k)
		w.unknownKind[k] = u.kind
		w.ids[k] = u.id
	}
	return nil
}

type refKey struct {
	typ    string
	fwd    bool
	target string
}

// expected computes the reference oracle. judged=false when the class recorded
// in a reference disagrees with the target's class and the mask would decide
// differently (address-space inconsistency, not a filter question).
func (w *c33World) expected(c c33Case) (exp map[refKey]bool, judged bool) {
	exp = map[refKey]bool{}
	judged = true
	for _, r := range w.refs[c.Node] {
		if !(c.Dir == 2 || (c.Dir == 0 && r.fwd) || (c.Dir == 1 && !r.fwd)) {
			continue
		}
		if !(r.typ == c.RefType || (c.Sub && w.sub[c.RefType][r.typ])) {
			continue
		}
		if c.Mask != 0 {
			in := c.Mask&r.class != 0
			if r.actClass != 0 && (c.Mask&r.actClass != 0) != in {
				judged = false
			}
			if !in {
				continue
			}
		}
		exp[refKey{r.typ, r.fwd, r.target}] = true
	}
	return exp, judged
}

func panicSite() string {
	pcs := make([]uintptr, 64)
	n := runtime.Callers(2, pcs)
	frames := runtime.CallersFrames(pcs[:n])
	seenPanic := false
	for {
		f, more := frames.Next()
		if strings.HasPrefix(f.Function, "runtime.gopanic") || strings.HasPrefix(f.Function, "runtime.panic") || strings.HasPrefix(f.Function, "runtime.sigpanic") || strings.HasPrefix(f.Function, "runtime.goPanic") {
			seenPanic = true
		} else if seenPanic && strings.HasPrefix(f.Function, "github.com/gopcua/opcua") && !strings.Contains(f.Function, "VerifHandle") {
			fn := strings.TrimPrefix(f.Function, "github.com/gopcua/opcua/")
			fn = strings.TrimPrefix(fn, "github.com/gopcua/opcua.")
			if i := strings.Index(fn, ".func"); i > 0 {
				fn = fn[:i]
			}
			return fn
		}
		if !more {
			break
		}
	}
	return "?"
}

func (w *c33World) nid(s string) *ua.NodeID {
	if n := w.ids[s]; n != nil {
		return n
	}
	n := ua.MustParseNodeID(s)
	w.ids[s] = n
	return n
}

func (w *c33World) desc(c c33Case) *ua.BrowseDescription {
	return &ua.BrowseDescription{
		NodeID:          w.nid(c.Node),
		BrowseDirection: ua.BrowseDirection(c.Dir),
		ReferenceTypeID: w.nid(c.RefType),
		IncludeSubtypes: c.Sub,
		NodeClassMask:   c.Mask,
		ResultMask:      uint32(ua.BrowseResultMaskAll),
	}
}

func (w *c33World) browseDirect(c c33Case) (res *ua.BrowseResult, panicked string, detail string) {
	defer func() {
		if p := recover(); p != nil {
			panicked = panicSite()
			detail = stripHex(fmt.Sprint(p))
		}
	}()
	d := w.desc(c)
	ns, err := w.srv.Namespace(int(d.NodeID.Namespace()))
	if err != nil {
		return nil, "", err.Error()
	}
	return ns.Browse(d), "", ""
}

type c33Verdict struct{ sig, detail string }

// pfx distinguishes the node-centric namespace (ns0 and the added
// NodeNameSpace) from the added MapNamespace, which has its own Browse.
func (w *c33World) pfx(c c33Case) string {
	if c.Node == w.mapNode {
		return "Browse/mapns/"
	}
	return "Browse/"
}

// judge compares a result with the oracle and classifies every discrepancy.
func (w *c33World) judge(c c33Case, res *ua.BrowseResult) (out []c33Verdict, shape string) {
	if res == nil {
		return []c33Verdict{{w.pfx(c) + "no-result", fmt.Sprintf("%+v", c)}}, "none"
	}
	if res.StatusCode != ua.StatusGood {
		return []c33Verdict{{w.pfx(c) + "bad-status-for-existing-node", fmt.Sprintf("%v for %+v", res.StatusCode, c)}}, "none"
	}
	exp, judged := w.expected(c)
	got := map[refKey]bool{}
	for _, r := range res.References {
		if r == nil || r.NodeID == nil || r.ReferenceTypeID == nil {
			out = append(out, c33Verdict{w.pfx(c) + "result-with-nil-member", fmt.Sprintf("%+v", c)})
			continue
		}
		got[refKey{r.ReferenceTypeID.String(), r.IsForward, r.NodeID.NodeID.String()}] = true
	}
	switch {
	case len(exp) == 0:
		shape = "none"
	case len(exp) == w.nkeys[c.Node]:
		shape = "all"
	default:
		shape = "some"
	}
	if c.RefType == "i=0" || !judged {
		return nil, "notjudged"
	}
	// which well-formed references exist on the node, for classification (only needed on a discrepancy)
	var byKey map[refKey]wref
	mk := func() {
		if byKey != nil {
			return
		}
		byKey = map[refKey]wref{}
		for _, r := range w.refs[c.Node] {
			byKey[refKey{r.typ, r.fwd, r.target}] = r
		}
	}
	for k := range got {
		if exp[k] {
			continue
		}
		mk()
		r, exists := byKey[k]
		kind := ""
		switch {
		case !exists:
			kind = "extra-ref:not-a-reference-of-the-node"
		case !(c.Dir == 2 || (c.Dir == 0 && r.fwd) || (c.Dir == 1 && !r.fwd)):
			kind = "dir=" + dirNames[c.Dir] + "/extra-ref:wrong-direction"
		case w.unknownKind[c.RefType] != "":
			kind = fmt.Sprintf("includeSubtypes=%v/requested=unknown-type(%s)/extra-ref:no-reference-has-that-type", c.Sub, w.unknownKind[c.RefType])
		case r.typ != c.RefType && !w.sub[c.RefType][r.typ]:
			kind = fmt.Sprintf("includeSubtypes=%v/extra-ref:unrelated-reference-type", c.Sub)
		case r.typ != c.RefType && !c.Sub:
			kind = "includeSubtypes=false/extra-ref:subtype-of-requested-type"
		default:
			kind = "mask=" + maskClass(c.Mask) + "/extra-ref:class-not-in-mask"
		}
		out = append(out, c33Verdict{w.pfx(c) + kind, fmt.Sprintf("case %+v returned %v which the oracle excludes", c, k)})
	}
	for k := range exp {
		if !got[k] {
			mk()
			r := byKey[k]
			kind := "exact-type"
			if r.typ != c.RefType {
				kind = "subtype"
			}
			out = append(out, c33Verdict{fmt.Sprintf("%sincludeSubtypes=%v/dir=%s/mask=%s/missing-ref:%s", w.pfx(c), c.Sub, dirNames[c.Dir], maskClass(c.Mask), kind),
				fmt.Sprintf("case %+v did not return %v", c, k)})
		}
	}
	return out, shape
}

// reqClass classifies the requested type for panic signatures.
func (w *c33World) reqClass(t string) string {
	if t == "i=0" {
		return "null"
	}
	if k := w.unknownKind[t]; k != "" {
		return "unknown-type(" + k + ")"
	}
	if w.sub[t][ua.NewNumericNodeID(0, id.HasSubtype).String()] {
		return "supertype-of-HasSubtype"
	}
	if len(w.sub[t]) > 0 {
		return "has-subtypes"
	}
	return "leaf"
}

func (w *c33World) nodeSet(thorough bool) []string {
	var out []string
	if thorough {
		for _, n := range w.nodes {
			out = append(out, n.ID().String())
		}
		return out
	}
	// greedy cover, smallest nodes first (stable), so that the cover does not
	// consist of the few hub nodes with thousands of references
	order := make([]*server.Node, len(w.nodes))
	copy(order, w.nodes)
	sort.SliceStable(order, func(i, j int) bool {
		return len(w.refs[order[i].ID().String()]) < len(w.refs[order[j].ID().String()])
	})
	covered := map[string]bool{}
	for _, n := range order {
		k := n.ID().String()
		take := n.ID().Namespace() != 0 && len(w.refs[k]) > 0
		for _, r := range w.refs[k] {
			t := fmt.Sprint(r.typ, r.fwd, r.class)
			if !covered[t] {
				covered[t] = true
				take = true
			}
		}
		if take {
			out = append(out, k)
		}
	}
	return out
}

func (w *c33World) triples(nodes []string) int {
	m := map[string]bool{}
	for _, k := range nodes {
		for _, r := range w.refs[k] {
			m[fmt.Sprint(r.typ, r.fwd, r.class)] = true
		}
	}
	return len(m)
}

func c33() {
	r := evid.New("C33")
	var rc c33Input
	if evid.ReplayInput(&rc) {
		if rc.History != nil {
			c33ReplayHist(*rc.History)
			return
		}
		c33Replay(rc.c33Case)
		return
	}
	thorough := evid.Thorough()
	deaths := evid.Sharded(r, 0, func(s evid.ShardInfo, wr *evid.Run) { c33Worker(s, wr, thorough) })
	for _, d := range deaths {
		head, fn := topRepoFunc(d.Stderr)
		if head == "" {
			evid.EngineError("C33", "worker %d failed without a Go panic: %s: %s", d.Shard, d.ExitErr, lastLines(d.Stderr, 5))
		}
		r.Violate("Browse/wire/server-died/"+fn, fmt.Sprintf("worker died while running %s\n%s\n%s", d.LastCase, head, lastLines(d.Stderr, 30)), d.LastCase)
		r.Capped(fmt.Sprintf("worker %d died; the rest of its shard was not run", d.Shard))
	}
	r.Rule("every (requested reference type in all ReferenceType nodes + null + 9 ids that denote no ReferenceType node: string (added namespace, ns0), GUID, opaque, numeric 0 and an unused numeric id in the added namespace, unused numeric id in ns0, namespace out of range, the Objects folder) x IncludeSubtypes{false,true} x direction{Forward,Inverse,Both} x class mask{0, 8 single bits, 255} on each node of the node set (quick: greedy cover of every (reference type, direction, target class) triple occurring in ns0 + every node of the added namespace; thorough: every node), each executed directly (NameSpace.Browse) and over the wire (real client); plus histories on a brand-new server each: [no Browse | one Browse with IncludeSubtypes for T in {P, every supertype of P}, direct or wire] -> add a ReferenceType node below P (P in Organizes, the custom type of the added namespace, HasComponent, NonHierarchicalReferences, References; thorough: every ReferenceType node) and two nodes joined by references of the new type -> Browse grid (new type, its supertypes and 6 other types x IncludeSubtypes x 3 directions x masks {0, Object, Variable, 255} x direct/wire on the new nodes, the new type node, the supertype node and a folder) -> add a second ReferenceType node below the first one with two more nodes -> the grid again; evaluations = executed Browse operations; non-trivial = the node has at least one well-formed reference; distinct = (requested type, subtypes, direction, mask, shape of the expected result: none/some/all)")
	r.Assume("only well-formed references (non-nil target, names, type definition) are judged; null requested reference type executed but not judged; a requested reference type that is not null and denotes no ReferenceType node matches nothing (expected result: empty); a reference whose recorded target class differs from the target node's class is not judged when the mask would decide differently", "histories: the new ReferenceType node is declared like the ones the server imports (HasSubtype forward on the supertype and inverse on the subtype); the oracle is recomputed from the address space after every extension")
	r.Finish()
}

func lastLines(s string, n int) string {
	l := strings.Split(strings.TrimRight(s, "\n"), "\n")
	if len(l) > n {
		l = l[len(l)-n:]
	}
	return strings.Join(l, "\n")
}

func c33Worker(s evid.ShardInfo, r *evid.Run, thorough bool) {
	debug.SetGCPercent(300)
	w, err := buildC33World()
	for try := 0; err != nil && try < 3; try++ { // a busy machine can make the first start or connect time out
		w, err = buildC33World()
	}
	if err != nil {
		evid.EngineError("C33", "%v", err)
	}
	nodes := w.nodeSet(thorough)
	if w.mapNode != "" {
		nodes = append(nodes, w.mapNode)
	}
	types := append([]string{"i=0"}, w.refTypes...)
	types = append(types, w.unknownTypes...)
	if s.Index == 0 {
		all := make([]string, 0, len(w.nodes))
		for _, n := range w.nodes {
			all = append(all, n.ID().String())
		}
		r.Set("nodes_in_address_space", len(w.nodes))
		r.Set("nodes_browsed", len(nodes))
		r.Set("reference_types_requested", len(types))
		r.Set("requested_types_denoting_no_reference_type", w.unknownTypes)
		r.Set("triples_in_address_space", w.triples(all))
		r.Set("triples_covered_by_node_set", w.triples(nodes))
		r.Set("ill_formed_references_skipped", w.illForm)
		nsub := 0
		for _, t := range w.refTypes {
			nsub += len(w.sub[t])
		}
		r.Set("subtype_pairs_in_closure", nsub)
	}
	cl, err := connectClient(w.url)
	for try := 0; err != nil && try < 3; try++ {
		cl, err = connectClient(w.url)
	}
	if err != nil {
		evid.EngineError("C33", "client connect: %v", err)
	}
	defer cl.Close(context.Background())

	for ni, node := range nodes {
		nontrivial := len(w.refs[node]) > 0
		for ti, t := range types {
			if !s.Mine(int64(ni*len(types) + ti)) {
				continue
			}
			var wire []c33Case
			for _, sub := range []bool{false, true} {
				for dir := 0; dir < 3; dir++ {
					for _, mask := range c33Masks {
						c := c33Case{Node: node, RefType: t, Sub: sub, Dir: dir, Mask: mask, Path: "direct"}
						res, pan, detail := w.browseDirect(c)
						if pan != "" {
							r.Eval("")
							r.Outcome("direct:panic")
							r.Violate(fmt.Sprintf("%sincludeSubtypes=%v/requested=%s/panic/%s", w.pfx(c), c.Sub, w.reqClass(t), pan), fmt.Sprintf("%s; case %+v", detail, c), c)
							continue
						}
						vs, shape := w.judge(c, res)
						key := ""
						if nontrivial {
							key = fmt.Sprint(t, sub, dir, mask, shape)
						}
						r.Eval(key)
						r.Outcome("direct:" + shape)
						if shape == "notjudged" {
							r.NotJudged(1)
						}
						if ni%97 == 0 && t == "i=33" && dir == 0 && mask == 2 && sub {
							r.Sample(c)
						}
						for _, v := range vs {
							r.Violate(v.sig, v.detail, c)
						}
						c.Path = "wire"
						wire = append(wire, c)
					}
				}
			}
			c33Wire(w, cl, r, wire)
		}
	}

	// histories in which the reference type hierarchy grows while the server runs
	hists := c33Histories(w, thorough)
	if s.Index == 0 {
		r.Set("histories", len(hists))
	}
	for i, h := range hists {
		if !s.Mine(int64(i)) {
			continue
		}
		evid.Publish(fmt.Sprintf("history %+v", h))
		err := c33RunHist(h, func(stage int, browsed bool, c c33Case, nontrivial bool, res *ua.BrowseResult, pan, detail string, hw *c33World) {
			sfx, input := "", any(c)
			if stage > 0 {
				sfx = "/after-reference-type-added"
				if browsed {
					sfx += "-following-a-browse"
				}
				input = c33Input{c33Case: c, History: &h, Stage: stage}
			}
			if pan != "" {
				r.Eval("")
				r.Outcome("history-" + c.Path + ":panic")
				r.Violate(fmt.Sprintf("%sincludeSubtypes=%v/requested=%s/panic/%s%s", hw.pfx(c), c.Sub, hw.reqClass(c.RefType), pan, sfx), fmt.Sprintf("%s; case %+v history %+v stage %d", detail, c, h, stage), input)
				return
			}
			vs, shape := hw.judge(c, res)
			key := ""
			if nontrivial && c.Path == "direct" {
				key = fmt.Sprint("hist", h.Parent, h.Warm, h.WarmPath, stage, c.Node, c.RefType, c.Sub, c.Dir, c.Mask, shape)
			}
			r.Eval(key)
			r.Outcome("history-" + c.Path + ":" + shape)
			if shape == "notjudged" {
				r.NotJudged(1)
			}
			for _, v := range vs {
				r.Violate(v.sig+sfx, fmt.Sprintf("%s; history %+v stage %d", v.detail, h, stage), input)
			}
		})
		if err != nil {
			evid.EngineError("C33", "history %+v: %v", h, err)
		}
	}
}

// c33Hist is one history in which the reference type hierarchy is extended on a running server.
type c33Hist struct {
	Parent   string `json:"parent"`             // the new ReferenceType node becomes a subtype of this one
	Warm     string `json:"browse_before"`      // "" = no Browse before the extension, else the requested type (IncludeSubtypes=true)
	WarmPath string `json:"browse_before_path"` // direct | wire
}

// c33Input is what a replay file holds: a plain case, or a case inside a history.
type c33Input struct {
	c33Case
	History *c33Hist `json:"history,omitempty"`
	Stage   int      `json:"stage,omitempty"`
}

func rtID(i uint32) string { return ua.NewNumericNodeID(0, i).String() }

func (w *c33World) addedNS() uint16 {
	for _, ns := range w.srv.Namespaces() {
		if nn, ok := ns.(*server.NodeNameSpace); ok && nn.ID() != 0 {
			return nn.ID()
		}
	}
	return 1
}

func (w *c33World) supertypes(t string) []string {
	var out []string
	for _, sup := range w.refTypes {
		if w.sub[sup][t] {
			out = append(out, sup)
		}
	}
	sort.Strings(out)
	return out
}

func c33Histories(w *c33World, thorough bool) []c33Hist {
	parents := []string{rtID(id.Organizes), ua.NewNumericNodeID(w.addedNS(), 5000).String(), rtID(id.HasComponent), rtID(id.NonHierarchicalReferences), rtID(id.References)}
	if thorough {
		parents = append([]string{}, w.refTypes...)
	}
	var out []c33Hist
	for _, p := range parents {
		out = append(out, c33Hist{Parent: p})
		for _, t := range append([]string{p}, w.supertypes(p)...) {
			for _, path := range []string{"direct", "wire"} {
				out = append(out, c33Hist{Parent: p, Warm: t, WarmPath: path})
			}
		}
	}
	return out
}

// c33RunHist executes one history on a brand-new server and hands every Browse to emit
// (stage 0 = the Browse before the extension, judged like any grid case).
func c33RunHist(h c33Hist, emit func(stage int, browsed bool, c c33Case, nontrivial bool, res *ua.BrowseResult, pan, detail string, w *c33World)) error {
	w, err := buildC33World()
	for try := 0; err != nil && try < 3; try++ {
		w, err = buildC33World()
	}
	if err != nil {
		return err
	}
	defer w.srv.Close()
	cl, err := connectClient(w.url)
	for try := 0; err != nil && try < 3; try++ {
		cl, err = connectClient(w.url)
	}
	if err != nil {
		return fmt.Errorf("client connect: %v", err)
	}
	defer cl.Close(context.Background())

	run := func(stage int, browsed bool, cases []c33Case) error {
		var wire []c33Case
		for _, c := range cases {
			nontrivial := len(w.refs[c.Node]) > 0
			if c.Path == "direct" {
				res, pan, detail := w.browseDirect(c)
				emit(stage, browsed, c, nontrivial, res, pan, detail, w)
				continue
			}
			wire = append(wire, c)
		}
		for len(wire) > 0 {
			n := 200
			if n > len(wire) {
				n = len(wire)
			}
			cur := wire[:n]
			wire = wire[n:]
			req := &ua.BrowseRequest{}
			for _, c := range cur {
				req.NodesToBrowse = append(req.NodesToBrowse, w.desc(c))
			}
			ctx, cancel := context.WithTimeout(context.Background(), watchdog)
			resp, err := cl.Browse(ctx, req)
			cancel()
			if err != nil || resp == nil || len(resp.Results) != len(cur) {
				return fmt.Errorf("wire browse of %d descriptions %+v..: %v", len(cur), cur[0], err)
			}
			for i, c := range cur {
				emit(stage, browsed, c, len(w.refs[c.Node]) > 0, resp.Results[i], "", "", w)
			}
		}
		return nil
	}

	nsid := w.addedNS()
	var nns *server.NodeNameSpace
	for _, ns := range w.srv.Namespaces() {
		if nn, ok := ns.(*server.NodeNameSpace); ok && nn.ID() == nsid {
			nns = nn
		}
	}
	if nns == nil {
		return fmt.Errorf("added namespace not found")
	}
	folder := ua.NewStringNodeID(nsid, "folder").String()
	browsed := false
	if h.Warm != "" {
		if err := run(0, false, []c33Case{{Node: folder, RefType: h.Warm, Sub: true, Dir: 2, Mask: 0, Path: h.WarmPath}}); err != nil {
			return err
		}
		browsed = true
	}
	hasSubtype := ua.NewNumericNodeID(0, id.HasSubtype)
	parent := h.Parent
	touched := []string{folder}
	for stage := 1; stage <= 2; stage++ {
		pn := w.srv.Node(w.nid(parent))
		if pn == nil {
			return fmt.Errorf("no node %s", parent)
		}
		// the new reference type, declared in both notations like the imported ones
		newType := ua.NewNumericNodeID(nsid, uint32(6000+stage))
		tn := nns.AddNode(server.NewNode(newType, map[ua.AttributeID]*ua.DataValue{
			ua.AttributeIDNodeClass:  server.DataValueFromValue(uint32(ua.NodeClassReferenceType)),
			ua.AttributeIDBrowseName: server.DataValueFromValue(attrs.BrowseName(fmt.Sprintf("VerifAdded%d", stage))),
		}, []*ua.ReferenceDescription{rd(hasSubtype, false, pn.ID(), "supertype", ua.NodeClassReferenceType)}, nil))
		pn.AddRef(tn, id.HasSubtype, true)
		// two nodes joined by references of the new type (forward on one, inverse on the other)
		src := ua.NewStringNodeID(nsid, fmt.Sprintf("evo-src%d", stage))
		dst := ua.NewStringNodeID(nsid, fmt.Sprintf("evo-dst%d", stage))
		sn := nns.AddNode(mkVar(src, fmt.Sprintf("evo-src%d", stage), ua.NodeClassObject, []*ua.ReferenceDescription{
			rd(newType, true, dst, fmt.Sprintf("evo-dst%d", stage), ua.NodeClassVariable),
			rd(ua.NewNumericNodeID(0, id.HasProperty), true, dst, fmt.Sprintf("evo-dst%d", stage), ua.NodeClassVariable),
		}))
		nns.AddNode(mkVar(dst, fmt.Sprintf("evo-dst%d", stage), ua.NodeClassVariable, []*ua.ReferenceDescription{
			rd(newType, false, src, fmt.Sprintf("evo-src%d", stage), ua.NodeClassObject),
			rd(ua.NewNumericNodeID(0, id.HasProperty), false, src, fmt.Sprintf("evo-src%d", stage), ua.NodeClassObject),
		}))
		nns.Objects().AddRef(sn, id.Organizes, true)
		sn.AddRef(nns.Objects(), id.Organizes, false)
		if err := w.index(); err != nil {
			return err
		}
		nt := newType.String()
		if !w.sub[parent][nt] || w.byID[nt] == nil || len(w.refs[src.String()]) != 3 {
			return fmt.Errorf("the oracle does not see the extension: %s below %s", nt, parent)
		}
		touched = append(touched, src.String(), dst.String(), nt, parent)
		// requested types: the new type, everything above it, and a few others
		seen := map[string]bool{}
		var types []string
		for _, t := range append(append([]string{nt}, w.supertypes(nt)...), rtID(id.References), rtID(id.NonHierarchicalReferences), rtID(id.Organizes), rtID(id.HasTypeDefinition), rtID(id.HasSubtype), rtID(id.HasProperty)) {
			if !seen[t] {
				seen[t] = true
				types = append(types, t)
			}
		}
		var cases []c33Case
		seenNode := map[string]bool{}
		for _, node := range touched {
			if seenNode[node] {
				continue
			}
			seenNode[node] = true
			for _, t := range types {
				for _, sub := range []bool{true, false} {
					for dir := 0; dir < 3; dir++ {
						for _, mask := range []uint32{0, 1, 2, 255} {
							for _, path := range []string{"direct", "wire"} {
								cases = append(cases, c33Case{Node: node, RefType: t, Sub: sub, Dir: dir, Mask: mask, Path: path})
							}
						}
					}
				}
			}
		}
		if err := run(stage, browsed, cases); err != nil {
			return err
		}
		browsed = true
		parent = nt
	}
	return nil
}

func c33ReplayHist(h c33Hist) {
	fmt.Printf("replay history %+v\n", h)
	failed := false
	n := 0
	err := c33RunHist(h, func(stage int, browsed bool, c c33Case, nontrivial bool, res *ua.BrowseResult, pan, detail string, w *c33World) {
		n++
		if pan != "" {
			fmt.Printf(" stage %d %+v panicked in %s: %s\n", stage, c, pan, detail)
			failed = true
			return
		}
		vs, _ := w.judge(c, res)
		for _, v := range vs {
			fmt.Printf(" DISCREPANCY stage %d %s: %s\n", stage, v.sig, v.detail)
			failed = true
		}
	})
	if err != nil {
		evid.EngineError("C33", "%v", err)
	}
	fmt.Printf(" %d browses\n", n)
	if failed {
		os.Exit(1)
	}
}

// c33Wire sends the cases in one BrowseRequest (split if the node has many references).
func c33Wire(w *c33World, cl *opcua.Client, r *evid.Run, cases []c33Case) {
	if len(cases) == 0 {
		return
	}
	per := 1 + len(w.refs[cases[0].Node])
	batch := 3000 / per
	if batch < 1 {
		batch = 1
	}
	for len(cases) > 0 {
		n := batch
		if n > len(cases) {
			n = len(cases)
		}
		cur := cases[:n]
		cases = cases[n:]
		req := &ua.BrowseRequest{}
		for _, c := range cur {
			req.NodesToBrowse = append(req.NodesToBrowse, w.desc(c))
		}
		evid.Publish(fmt.Sprintf("%+v .. %+v", cur[0], cur[len(cur)-1]))
		ctx, cancel := context.WithTimeout(context.Background(), watchdog)
		resp, err := cl.Browse(ctx, req)
		cancel()
		if err != nil || resp == nil || len(resp.Results) != len(cur) {
			r.EvalN(int64(len(cur)))
			r.Violate("Browse/wire/request-failed", fmt.Sprintf("browse of %d descriptions %+v..: err=%v", len(cur), cur[0], err), cur[0])
			continue
		}
		for i, c := range cur {
			vs, shape := w.judge(c, resp.Results[i])
			r.Eval("")
			r.Outcome("wire:" + shape)
			for _, v := range vs {
				r.Violate(v.sig, "[wire] "+v.detail, c)
			}
		}
	}
}

func c33Replay(c c33Case) {
	w, err := buildC33World()
	if err != nil {
		evid.EngineError("C33", "%v", err)
	}
	fmt.Printf("replay %+v\n well-formed references of the node: %d\n", c, len(w.refs[c.Node]))
	exp, judged := w.expected(c)
	var ek []string
	for k := range exp {
		ek = append(ek, fmt.Sprint(k))
	}
	sort.Strings(ek)
	fmt.Printf(" expected (%d, judged=%v): %v\n", len(exp), judged, ek)
	c.Path = "direct"
	res, pan, detail := w.browseDirect(c)
	if pan != "" {
		fmt.Printf(" direct call panicked in %s: %s\n", pan, detail)
		os.Exit(1)
	}
	vs, _ := w.judge(c, res)
	var gk []string
	for _, x := range res.References {
		gk = append(gk, fmt.Sprint(refKey{x.ReferenceTypeID.String(), x.IsForward, x.NodeID.NodeID.String()}))
	}
	sort.Strings(gk)
	fmt.Printf(" direct result (%d): %v\n", len(gk), gk)
	cl, err := connectClient(w.url)
	if err == nil {
		ctx, cancel := context.WithTimeout(context.Background(), watchdog)
		resp, err := cl.Browse(ctx, &ua.BrowseRequest{NodesToBrowse: []*ua.BrowseDescription{w.desc(c)}})
		cancel()
		if err != nil {
			fmt.Printf(" wire: error %v\n", err)
		} else {
			v2, _ := w.judge(c, resp.Results[0])
			fmt.Printf(" wire result: %d references, %d discrepancies\n", len(resp.Results[0].References), len(v2))
			vs = append(vs, v2...)
		}
	}
	for _, v := range vs {
		fmt.Printf(" DISCREPANCY %s: %s\n", v.sig, v.detail)
	}
	if len(vs) > 0 {
		os.Exit(1)
	}
}
