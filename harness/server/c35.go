// C35: services other than discovery and session setup require an activated session.
//
// Grid: every request type that has a handler in the server's registry
// (enumerated through the verif hook, instances obtained from the ua service
// registry) x authentication token state {null, unknown, created-not-activated,
// closed, valid-but-from-another-channel, valid}. Every cell runs on its own
// brand-new server inside a crash-isolating worker process: a victim session
// with a subscription and a monitored item exists, an added namespace holds a
// writable variable, the request is crafted to *do* something (write that
// variable, delete the victim's subscription, ...) and is sent raw over a real
// uasc.SecureChannel with the chosen token.
//
// Oracle: the Discovery service set (FindServers, FindServersOnNetwork,
// GetEndpoints, RegisterServer, RegisterServer2), CreateSession and
// ActivateSession are exempt (OpenSecureChannel / CloseSecureChannel never
// reach a handler). For every other service and every token state except
// "valid": the answer must be a Bad status of the session/security family
// (ServiceFault or response header), and the canonical server state (live
// subscriptions with owner, monitored items with mode, session tokens, value of
// the variable) must be unchanged. A server death is a violation of the cell.
// "valid" cells are control cells: executed, recorded, not judged.
package main

import (
	"encoding/json"
	"fmt"
	"os"
	"reflect"
	"sort"
	"strings"
	"time"

	"github.com/gopcua/opcua/server"
	"github.com/gopcua/opcua/server/attrs"
	"github.com/gopcua/opcua/ua"
	"github.com/gopcua/opcua/uapolicy"
	"github.com/gopcua/opcua/uasc"
	"verif/engine/evid"
	"verif/engine/keys"
)

// "activation-refused": created on a Sign channel, then an ActivateSession whose client signature does not
// verify was refused; "victim-takeover-refused": the same refused ActivateSession, but for the token of another
// client's activated session. Neither activates (or re-binds) anything.
var c35TokenStates = []string{"null", "unknown", "created-not-activated", "activation-refused", "closed", "other-channel", "victim-takeover-refused", "valid"}

var c35Exempt = map[string]bool{
	"FindServersRequest": true, "FindServersOnNetworkRequest": true, "GetEndpointsRequest": true,
	"RegisterServerRequest": true, "RegisterServer2Request": true,
	"CreateSessionRequest": true, "ActivateSessionRequest": true,
}

type c35Job struct {
	TypeID uint16 `json:"type_id"`
	Token  string `json:"token"`
}

type c35Out struct {
	Service   string `json:"service"`
	Token     string `json:"token"`
	Kind      string `json:"kind"`   // refused:<Status> | answered-<Status> | no-answer | not-sent
	Status    string `json:"status"` // service result
	Changed   string `json:"changed,omitempty"`
	Before    string `json:"before,omitempty"`
	After     string `json:"after,omitempty"`
	EngineErr string `json:"engine_err,omitempty"`
	Detail    string `json:"detail,omitempty"`
}

func newRequestOfType(typeID uint16) ua.Request {
	enc, err := ua.NewFourByteExpandedNodeID(0, typeID).Encode()
	if err != nil {
		return nil
	}
	_, v, _ := ua.DecodeService(enc)
	req, _ := v.(ua.Request)
	return req
}

func isSessionError(c ua.StatusCode) bool {
	if c == ua.StatusOK || uint32(c)&0x80000000 == 0 {
		return false
	}
	n := stName(c)
	for _, k := range []string{"Session", "Security", "Identity", "UserAccessDenied", "SecureChannel", "Nonce", "Certificate"} {
		if strings.Contains(n, k) {
			return true
		}
	}
	return false
}

type c35World struct {
	srv    *server.Server
	url    string
	target *ua.NodeID
	tnode  *server.Node
	victim *rawChan
	vtok   *ua.NodeID
	vsub   uint32
	vitem  uint32
	att    *rawChan // the channel the judged request is sent on
	other  *rawChan
	signed *rawChan // a Basic256Sha256/Sign channel (for the refused activations)
}

// openSigned opens the Sign channel the refused activations are attempted on.
func (w *c35World) openSigned() error {
	srvKey, cliKey := keys.MustLoad(2048, "a"), keys.MustLoad(2048, "b")
	cfg := &uasc.Config{
		SecurityPolicyURI: ua.SecurityPolicyURIBasic256Sha256,
		SecurityMode:      ua.MessageSecurityModeSign,
		Lifetime:          3600000,
		RequestTimeout:    watchdog,
		Certificate:       cliKey.CertDER,
		LocalKey:          cliKey.Key,
		RemoteCertificate: srvKey.CertDER,
		Thumbprint:        uapolicy.Thumbprint(srvKey.CertDER),
	}
	var err error
	w.signed, err = openRaw(w.url, cfg)
	if err == nil {
		w.signed.cert = cliKey.CertDER
	}
	return err
}

// refusedActivation sends an ActivateSession with an empty client signature over the Sign channel; the server
// must refuse it. An activation that is accepted would make the state meaningless: reported as a set-up failure.
func (w *c35World) refusedActivation(tok *ua.NodeID) error {
	err := w.signed.activateSession(tok)
	if err == nil {
		return fmt.Errorf("an ActivateSession with an empty client signature was accepted on a Sign channel")
	}
	if _, ok := err.(ua.StatusCode); !ok {
		return fmt.Errorf("ActivateSession with an empty client signature: %v", err)
	}
	return nil
}

func newC35World() (*c35World, error) {
	w := &c35World{}
	srvKey := keys.MustLoad(2048, "a")
	opts := append(noneOpts(), server.PrivateKey(srvKey.Key), server.Certificate(srvKey.CertDER),
		server.EnableSecurity("Basic256Sha256", ua.MessageSecurityModeSign))
	s, url, err := startServer(opts, func(s *server.Server) {
		ns := server.NewNodeNameSpace(s, "urn:verif:c35")
		w.target = ua.NewStringNodeID(ns.ID(), "target")
		w.tnode = server.NewNode(w.target, map[ua.AttributeID]*ua.DataValue{
			ua.AttributeIDNodeClass:  server.DataValueFromValue(uint32(ua.NodeClassVariable)),
			ua.AttributeIDBrowseName: server.DataValueFromValue(attrs.BrowseName("target")),
		}, nil, func() *ua.DataValue { return server.DataValueFromValue(int32(1)) })
		ns.AddNode(w.tnode)
	})
	if err != nil {
		return nil, err
	}
	w.srv, w.url = s, url
	if w.victim, err = openRaw(url, nil); err != nil {
		return nil, err
	}
	if w.vtok, err = w.victim.createSession(url); err != nil {
		return nil, fmt.Errorf("victim session: %v", err)
	}
	if err = w.victim.activateSession(w.vtok); err != nil {
		return nil, fmt.Errorf("victim session: %v", err)
	}
	resp, err := w.victim.send(c32Request(c32Op{K: "CS"}, 0, 0), w.vtok)
	if err != nil {
		return nil, fmt.Errorf("victim subscription: %v", err)
	}
	w.vsub = resp.(*ua.CreateSubscriptionResponse).SubscriptionID
	cmi := &ua.CreateMonitoredItemsRequest{SubscriptionID: w.vsub, TimestampsToReturn: ua.TimestampsToReturnBoth, ItemsToCreate: []*ua.MonitoredItemCreateRequest{{
		ItemToMonitor:       &ua.ReadValueID{NodeID: w.target, AttributeID: ua.AttributeIDValue, DataEncoding: &ua.QualifiedName{}},
		MonitoringMode:      ua.MonitoringModeReporting,
		RequestedParameters: &ua.MonitoringParameters{ClientHandle: 1, SamplingInterval: 1000, QueueSize: 1, Filter: ua.NewExtensionObject(nil)},
	}}}
	resp, err = w.victim.send(cmi, w.vtok)
	if err != nil {
		return nil, fmt.Errorf("victim item: %v", err)
	}
	w.vitem = resp.(*ua.CreateMonitoredItemsResponse).Results[0].MonitoredItemID
	if w.att, err = openRaw(url, nil); err != nil {
		return nil, err
	}
	return w, nil
}

func (w *c35World) close() {
	w.victim.Close()
	w.att.Close()
	w.other.Close()
	if w.signed != w.att {
		w.signed.Close()
	}
	w.srv.Close()
}

// token prepares the authentication token of the given state.
func (w *c35World) token(state string, publish bool) (*ua.NodeID, error) {
	var tok *ua.NodeID
	var err error
	owner := w.att
	switch state {
	case "null":
		return nil, nil
	case "unknown-string":
		return ua.NewStringNodeID(1, "no-such-session"), nil
	case "unknown-guid":
		return ua.NewGUIDNodeID(1, "AAAAAAAA-BBBB-CCCC-DDDD-EEEEEEEEEEEE"), nil
	case "victim":
		// the token of another client's activated session (bound to that client's channel)
		return w.vtok, nil
	case "unknown":
		tok = ua.NewNumericNodeID(0, 0x7ffffff1)
		for _, t := range w.srv.VerifSessionTokens() {
			if t == tok.String() {
				tok = ua.NewNumericNodeID(0, 0x7ffffff2)
			}
		}
		return tok, nil
	case "created-not-activated":
		if tok, err = w.att.createSession(w.url); err != nil {
			return nil, err
		}
	case "activation-refused":
		if err = w.openSigned(); err != nil {
			return nil, err
		}
		if tok, err = w.signed.createSession(w.url); err != nil {
			return nil, err
		}
		if err = w.refusedActivation(tok); err != nil {
			return nil, err
		}
		w.att.Close()
		w.att, owner = w.signed, w.signed
	case "victim-takeover-refused":
		if err = w.openSigned(); err != nil {
			return nil, err
		}
		if err = w.refusedActivation(w.vtok); err != nil {
			return nil, err
		}
		w.att.Close()
		w.att = w.signed
		return w.vtok, nil
	case "closed":
		if tok, err = w.att.createSession(w.url); err != nil {
			return nil, err
		}
		if err = w.att.activateSession(tok); err != nil {
			return nil, err
		}
		return tok, w.att.closeSession(tok)
	case "other-channel":
		if w.other, err = openRaw(w.url, nil); err != nil {
			return nil, err
		}
		owner = w.other
		if tok, err = w.other.createSession(w.url); err != nil {
			return nil, err
		}
		if err = w.other.activateSession(tok); err != nil {
			return nil, err
		}
	case "valid":
		if tok, err = w.att.createSession(w.url); err != nil {
			return nil, err
		}
		if err = w.att.activateSession(tok); err != nil {
			return nil, err
		}
	}
	if publish {
		// A Publish for an existing session is queued and only answered by a
		// subscription of that session. Give the session a fast subscription so
		// that a queued Publish is answered (keep-alive) instead of waiting for
		// the watchdog. If the server refuses this set-up step, so be it.
		owner.send(&ua.CreateSubscriptionRequest{RequestedPublishingInterval: 20, RequestedLifetimeCount: 1000000, RequestedMaxKeepAliveCount: 0, PublishingEnabled: true}, tok)
	}
	return tok, nil
}

// request crafts a request of the given type that would have an effect.
func (w *c35World) request(typeID uint16) ua.Request {
	req := newRequestOfType(typeID)
	switch r := req.(type) {
	case *ua.ReadRequest:
		r.TimestampsToReturn = ua.TimestampsToReturnBoth
		r.NodesToRead = []*ua.ReadValueID{{NodeID: w.target, AttributeID: ua.AttributeIDValue, DataEncoding: &ua.QualifiedName{}}}
	case *ua.WriteRequest:
		r.NodesToWrite = []*ua.WriteValue{{NodeID: w.target, AttributeID: ua.AttributeIDValue, Value: &ua.DataValue{EncodingMask: ua.DataValueValue, Value: ua.MustVariant(int32(666))}}}
	case *ua.BrowseRequest:
		r.View = &ua.ViewDescription{ViewID: ua.NewTwoByteNodeID(0)}
		r.NodesToBrowse = []*ua.BrowseDescription{{NodeID: ua.NewNumericNodeID(0, 85), BrowseDirection: ua.BrowseDirectionForward, ReferenceTypeID: ua.NewNumericNodeID(0, 33), IncludeSubtypes: true, ResultMask: uint32(ua.BrowseResultMaskAll)}}
	case *ua.CreateSubscriptionRequest:
		return c32Request(c32Op{K: "CS"}, 0, 0)
	case *ua.DeleteSubscriptionsRequest:
		r.SubscriptionIDs = []uint32{w.vsub}
	case *ua.ModifySubscriptionRequest:
		r.SubscriptionID = w.vsub
		r.RequestedPublishingInterval = 3600000
	case *ua.SetPublishingModeRequest:
		r.SubscriptionIDs = []uint32{w.vsub}
	case *ua.TransferSubscriptionsRequest:
		r.SubscriptionIDs = []uint32{w.vsub}
	case *ua.RepublishRequest:
		r.SubscriptionID = w.vsub
	case *ua.CreateMonitoredItemsRequest:
		return c32Request(c32Op{K: "CMI"}, w.vsub, w.vsub)
	case *ua.DeleteMonitoredItemsRequest:
		r.SubscriptionID = w.vsub
		r.MonitoredItemIDs = []uint32{w.vitem}
	case *ua.SetMonitoringModeRequest:
		r.SubscriptionID = w.vsub
		r.MonitoringMode = ua.MonitoringModeReporting
		r.MonitoredItemIDs = []uint32{w.vitem}
	case *ua.ModifyMonitoredItemsRequest:
		r.SubscriptionID = w.vsub
	case *ua.SetTriggeringRequest:
		r.SubscriptionID = w.vsub
		r.TriggeringItemID = w.vitem
	case *ua.CloseSessionRequest:
		r.DeleteSubscriptions = true
	case *ua.CreateSessionRequest:
		r.ClientDescription = &ua.ApplicationDescription{ApplicationURI: "urn:verif", ApplicationName: ua.NewLocalizedText("verif"), ApplicationType: ua.ApplicationTypeClient}
		r.EndpointURL = w.url
		r.ClientNonce = make([]byte, 32)
		r.RequestedSessionTimeout = 3600000
	case *ua.ActivateSessionRequest:
		r.ClientSignature = &ua.SignatureData{}
		r.UserIdentityToken = ua.NewExtensionObject(&ua.AnonymousIdentityToken{PolicyID: "anonymous_none"})
		r.UserTokenSignature = &ua.SignatureData{}
	case *ua.GetEndpointsRequest:
		r.EndpointURL = w.url
	case *ua.FindServersRequest:
		r.EndpointURL = w.url
	}
	fillPointers(reflect.ValueOf(req), 0)
	return req
}

func (w *c35World) state() string {
	var b strings.Builder
	ss := w.srv.SubscriptionService
	ss.Mu.Lock()
	var subs []string
	for id, sub := range ss.Subs {
		subs = append(subs, fmt.Sprintf("sub%d@%s", id, sub.VerifSubOwner()))
	}
	ss.Mu.Unlock()
	sort.Strings(subs)
	ms := w.srv.MonitoredItemService
	ms.Mu.Lock()
	var items []string
	for id, it := range ms.Items {
		sid := uint32(0)
		if it.Sub != nil {
			sid = it.Sub.ID
		}
		items = append(items, fmt.Sprintf("item%d:sub%d/mode%d", id, sid, it.Mode))
	}
	ms.Mu.Unlock()
	sort.Strings(items)
	val := "?"
	if dv := w.tnode.Value(); dv != nil && dv.Value != nil {
		val = fmt.Sprint(dv.Value.Value())
	}
	fmt.Fprintf(&b, "subs=%v items=%v sessions=%v target=%s", subs, items, w.srv.VerifSessionTokens(), val)
	return b.String()
}

func c35Cell(j c35Job) (out c35Out) {
	out.Token = j.Token
	w, err := newC35World()
	if err != nil {
		out.EngineErr = err.Error()
		return
	}
	defer w.close()
	req := w.request(j.TypeID)
	if req == nil {
		out.EngineErr = fmt.Sprintf("no request type registered for id %d", j.TypeID)
		return
	}
	out.Service = typeName(req)
	req.SetHeader(&ua.RequestHeader{AuthenticationToken: ua.NewTwoByteNodeID(0)})
	if err := roundTrips(req); err != nil {
		out.Kind = "not-sent"
		out.Detail = "the crafted request does not survive gopcua's own encode/decode: " + err.Error()
		return
	}
	_, isPublish := req.(*ua.PublishRequest)
	tok, err := w.token(j.Token, isPublish)
	if err != nil {
		out.EngineErr = fmt.Sprintf("preparing token state %s: %v", j.Token, err)
		return
	}
	if ok, why := waitQuiescent(); !ok {
		out.EngineErr = "not quiescent before the request: " + why
		return
	}
	out.Before = w.state()
	resp, err := w.att.send(req, tok)
	switch e := err.(type) {
	case nil:
		st := serviceResult(resp)
		out.Status = stName(st)
		if isSessionError(st) {
			out.Kind = "refused:" + out.Status
		} else {
			out.Kind = "answered-" + out.Status
		}
	case ua.StatusCode:
		out.Status = stName(e)
		switch {
		case e == ua.StatusBadTimeout:
			out.Kind = "no-answer-within-watchdog"
		case isSessionError(e):
			out.Kind = "refused:" + out.Status
		default:
			out.Kind = "answered-" + out.Status
		}
	default:
		out.Kind = "not-sent"
		out.Detail = err.Error()
	}
	if ok, why := waitQuiescent(); !ok {
		out.Detail += " not quiescent after the request: " + why
	}
	out.After = w.state()
	if out.Before != out.After {
		out.Changed = fmt.Sprintf("%s -> %s", out.Before, out.After)
	}
	return out
}

func c35Host() {
	hostLoop(func(job []byte) any {
		var j c35Job
		if err := json.Unmarshal(job, &j); err != nil {
			return c35Out{EngineErr: err.Error()}
		}
		return c35Cell(j)
	})
}

func c35Services() (ids []uint16, names []string, err error) {
	s, _, err := startServer(noneOpts(), nil)
	if err != nil {
		return nil, nil, err
	}
	defer s.Close()
	for _, id := range s.VerifHandlerIDs() {
		req := newRequestOfType(id)
		if req == nil {
			return nil, nil, fmt.Errorf("handler registered for type id %d which the ua registry does not know as a request", id)
		}
		ids = append(ids, id)
		names = append(names, typeName(req))
	}
	return ids, names, nil
}

func c35() {
	r := evid.New("C35")
	var rj c35Job
	if evid.ReplayInput(&rj) {
		p := newPool("c35", 1, nil)
		b, _ := json.Marshal(rj)
		res := p.run("C35", [][]byte{b}, 5*time.Minute, nil)
		p.close()
		if res[0].Death != nil {
			fmt.Printf("replay %+v: the server process died\n%s\n", rj, deathDetail(res[0].Death))
			os.Exit(1)
		}
		fmt.Printf("replay %+v -> %s\n", rj, res[0].Out)
		var o c35Out
		json.Unmarshal(res[0].Out, &o)
		if rj.Token != "valid" && !c35Exempt[o.Service] && (!strings.HasPrefix(o.Kind, "refused:") || o.Changed != "") {
			os.Exit(1)
		}
		return
	}
	ids, names, err := c35Services()
	if err != nil {
		evid.EngineError("C35", "%v", err)
	}
	var jobs [][]byte
	var meta []c35Job
	var svc []string
	states := c35TokenStates
	if evid.Thorough() {
		states = append(append([]string{}, states...), "unknown-string", "unknown-guid", "victim")
	}
	// the cells that can end in the watchdog (Publish) first: they are the long pole
	order := make([]int, 0, len(ids))
	for i := range ids {
		if names[i] == "PublishRequest" {
			order = append([]int{i}, order...)
		} else {
			order = append(order, i)
		}
	}
	for _, i := range order {
		id := ids[i]
		for _, t := range states {
			j := c35Job{TypeID: id, Token: t}
			b, _ := json.Marshal(j)
			jobs = append(jobs, b)
			meta = append(meta, j)
			svc = append(svc, names[i])
		}
	}
	p := newPool("c35", evid.Workers(), nil)
	results := p.run("C35", jobs, 5*time.Minute, nil)
	p.close()
	judged := 0
	for i, jr := range results {
		j := meta[i]
		name := svc[i]
		cell := name + "/token=" + j.Token
		exempt := c35Exempt[name]
		key := ""
		if !exempt && j.Token != "valid" {
			key = cell
		}
		r.Eval(key)
		if jr.Death != nil {
			if jr.Death.Headline == "" {
				evid.EngineError("C35", "worker failed without a Go panic on %s: %s", cell, deathDetail(jr.Death))
			}
			r.Outcome("server-crash")
			if exempt || j.Token == "valid" {
				r.NotJudged(1)
				r.Outcome("crash in a not-judged cell (" + cell + ", see C29)")
				continue
			}
			judged++
			r.Violate(cell+"/server-crash/"+jr.Death.Func, fmt.Sprintf("the server process died answering %s with token state %s\n%s", name, j.Token, deathDetail(jr.Death)), j)
			continue
		}
		var o c35Out
		if err := json.Unmarshal(jr.Out, &o); err != nil {
			evid.EngineError("C35", "bad worker reply for %s: %v", cell, err)
		}
		if o.EngineErr != "" {
			evid.EngineError("C35", "%s: %s", cell, o.EngineErr)
		}
		r.Outcome(o.Kind)
		if i%23 == 0 {
			r.Sample(o)
		}
		if exempt || j.Token == "valid" || o.Kind == "not-sent" {
			r.NotJudged(1)
			continue
		}
		judged++
		if !strings.HasPrefix(o.Kind, "refused:") {
			r.Violate(cell+"/"+o.Kind, fmt.Sprintf("%s sent with token state %s was not refused with a session error: %s (status %s) %s", name, j.Token, o.Kind, o.Status, o.Detail), j)
		}
		if o.Changed != "" {
			r.Violate(cell+"/state-changed", fmt.Sprintf("%s sent with token state %s changed the server state: %s", name, j.Token, o.Changed), j)
		}
	}
	r.Set("registered_services", len(ids))
	r.Set("exempt_services", len(c35Exempt))
	r.Set("token_states", states)
	r.Set("judged_cells", judged)
	r.Set("worker_deaths", p.Deaths)
	r.Rule(fmt.Sprintf("grid of the %d request types with a registered handler x %d authentication token states, one brand-new real server per cell, request crafted to have an effect and sent raw over uasc; non-trivial = a non-exempt service with a token state other than valid (a judged cell); distinct = (service, token state)", len(ids), len(states)))
	r.Assume("exempt: the Discovery service set (FindServers, FindServersOnNetwork, GetEndpoints, RegisterServer, RegisterServer2), CreateSession, ActivateSession; OpenSecureChannel/CloseSecureChannel are handled below the service dispatch", "session error = any Bad status whose name contains Session, Security, Identity, UserAccessDenied, SecureChannel, Nonce or Certificate", "valid-token cells are control cells and are not judged")
	r.Finish()
}
