// C30: the server only opens channels with security settings it enabled.
//
// Server configurations: every subset of size <= 2 of the 11 (policy, mode)
// pairs (None/None + 5 policies x {Sign, SignAndEncrypt}), the full set, and
// the complement of every singleton (79 configurations). Against each: an
// OpenSecureChannel for each of the 11 pairs plus 7 ill-formed pairs (policy
// None with mode Sign / SignAndEncrypt, each real policy with mode None).
// Every request is sent by the independent reference client
// (verif/engine/refcodec: HEL/ACK + OPN written from the specification, it
// takes policy and mode independently, so it can also ask for the ill-formed
// pairs); the 11 well-formed pairs are additionally tried with the real gopcua
// channel (uasc.NewSecureChannel + Open). Each configuration runs on its own
// real server (RSA-2048 key pair from /verif/testdata/keys) inside a
// crash-isolating worker process.
//
// Oracle: a channel opens <=> its (policy, mode) pair is enabled (ill-formed
// pairs are never enabled); the endpoints the server advertises (Endpoints()
// directly, and GetEndpoints over an opened channel) are exactly the enabled
// pairs.
package main

import (
	"context"
	"encoding/json"
	"errors"
	"fmt"
	"net"
	"os"
	"sort"
	"strings"
	"sync"
	"time"

	"github.com/gopcua/opcua/server"
	"github.com/gopcua/opcua/ua"
	"github.com/gopcua/opcua/uacp"
	"github.com/gopcua/opcua/uapolicy"
	"github.com/gopcua/opcua/uasc"
	"verif/engine/evid"
	"verif/engine/keys"
	"verif/engine/refcodec"
)

type secPair struct {
	Policy string `json:"policy"` // short name
	Mode   int    `json:"mode"`   // 1 None 2 Sign 3 SignAndEncrypt
}

func (p secPair) String() string {
	return p.Policy + "+" + []string{"Invalid", "None", "Sign", "SignAndEncrypt"}[p.Mode]
}

var c30Policies = []string{"Basic128Rsa15", "Basic256", "Basic256Sha256", "Aes128_Sha256_RsaOaep", "Aes256_Sha256_RsaPss"}

func c30Pairs() (wellFormed, illFormed []secPair) {
	wellFormed = append(wellFormed, secPair{"None", 1})
	for _, p := range c30Policies {
		wellFormed = append(wellFormed, secPair{p, 2}, secPair{p, 3})
	}
	illFormed = append(illFormed, secPair{"None", 2}, secPair{"None", 3})
	for _, p := range c30Policies {
		illFormed = append(illFormed, secPair{p, 1})
	}
	return
}

func c30Configs() []uint16 {
	seen := map[uint16]bool{}
	var out []uint16
	add := func(m uint16) {
		if !seen[m] {
			seen[m] = true
			out = append(out, m)
		}
	}
	add(0)
	for i := 0; i < 11; i++ {
		add(1 << i)
	}
	for i := 0; i < 11; i++ {
		for j := i + 1; j < 11; j++ {
			add(1<<i | 1<<j)
		}
	}
	full := uint16(1<<11 - 1)
	add(full)
	for i := 0; i < 11; i++ {
		add(full &^ (1 << i))
	}
	if evid.Thorough() {
		// all subsets of size 3 and the complements of all pairs
		for i := 0; i < 11; i++ {
			for j := i + 1; j < 11; j++ {
				add(full &^ (1<<i | 1<<j))
				for k := j + 1; k < 11; k++ {
					add(1<<i | 1<<j | 1<<k)
				}
			}
		}
	}
	return out
}

type c30Job struct {
	Mask uint16 `json:"mask"`
	Only int    `json:"only"` // -1 = all attempts; else the index of the single attempt to run
}

type c30Attempt struct {
	Pair     secPair  `json:"pair"`
	Client   string   `json:"client"` // ref | gopcua
	Ill      bool     `json:"ill_formed"`
	Opened   bool     `json:"opened"`
	Usable   bool     `json:"usable"` // a request on the opened channel was answered
	Refusal  string   `json:"refusal,omitempty"`
	Answered string   `json:"answered,omitempty"`  // not opened, but the server answered with an OPN response (not a refusal)
	Endpoint []string `json:"endpoints,omitempty"` // pairs advertised by GetEndpoints over this channel
}

type c30Out struct {
	Mask       uint16       `json:"mask"`
	Enabled    []string     `json:"enabled"`
	StartErr   string       `json:"start_err,omitempty"`
	Attempts   []c30Attempt `json:"attempts"`
	Advertised []string     `json:"advertised"` // Endpoints() directly
	EngineErr  string       `json:"engine_err,omitempty"`
}

func policyURI(short string) string { return ua.SecurityPolicyURIPrefix + short }

func c30Attempts() []c30Attempt {
	wf, ill := c30Pairs()
	var out []c30Attempt
	for _, p := range wf {
		out = append(out, c30Attempt{Pair: p, Client: "ref"})
	}
	for _, p := range ill {
		out = append(out, c30Attempt{Pair: p, Client: "ref", Ill: true})
	}
	// the same well-formed pairs, but the first OpenSecureChannel says Renew instead of Issue
	for _, p := range wf {
		out = append(out, c30Attempt{Pair: p, Client: "ref-renew"})
	}
	for _, p := range wf {
		out = append(out, c30Attempt{Pair: p, Client: "gopcua"})
	}
	return out
}

func epPair(e *ua.EndpointDescription) string {
	return secPair{strings.TrimPrefix(e.SecurityPolicyURI, ua.SecurityPolicyURIPrefix), int(e.SecurityMode)}.String()
}

func c30Run(j c30Job) (out c30Out) {
	out.Mask = j.Mask
	srvKey, cliKey := keys.MustLoad(2048, "a"), keys.MustLoad(2048, "b")
	wf, _ := c30Pairs()
	opts := []server.Option{server.PrivateKey(srvKey.Key), server.Certificate(srvKey.CertDER), server.EnableAuthMode(ua.UserTokenTypeAnonymous)}
	for i, p := range wf {
		if j.Mask&(1<<i) != 0 {
			opts = append(opts, server.EnableSecurity(p.Policy, ua.MessageSecurityMode(p.Mode)))
			out.Enabled = append(out.Enabled, p.String())
		}
	}
	out.Enabled = c30Enabled(j.Mask)
	s, url, err := startServer(opts, nil)
	if err != nil {
		out.StartErr = err.Error()
		return
	}
	defer s.Close()
	for _, e := range s.Endpoints() {
		out.Advertised = append(out.Advertised, epPair(e))
	}
	sort.Strings(out.Advertised)
	atts := c30Attempts()
	var wg sync.WaitGroup
	for i := range atts {
		if j.Only >= 0 && i != j.Only {
			continue
		}
		wg.Add(1)
		go func(a *c30Attempt) {
			defer wg.Done()
			if a.Client == "ref" || a.Client == "ref-renew" {
				c30Ref(s, a, url, srvKey, cliKey)
			} else {
				c30Gopcua(s, a, url, srvKey, cliKey)
			}
		}(&atts[i])
	}
	wg.Wait()
	for i := range atts {
		if j.Only >= 0 && i != j.Only {
			continue
		}
		out.Attempts = append(out.Attempts, atts[i])
	}
	return out
}

// c30WatchDrop closes the client's connection as soon as the server has
// given up on it: the server-side channel for this connection was registered
// and is not registered any more (the server's RegisterConn loop ended without
// closing the socket, so the client would otherwise wait for its timeout). This
// is a state predicate read through the verif hook, not a timer; the watchdog
// only bounds the case that the server never registers the connection at all.
func c30WatchDrop(s *server.Server, local string, closeConn func(), done <-chan struct{}) *bool {
	dropped := new(bool)
	go func() {
		has := func() bool {
			for _, sc := range s.VerifChannels() {
				if sc.RemoteAddr().String() == local {
					return true
				}
			}
			return false
		}
		seen := false
		deadline := time.Now().Add(watchdog)
		for {
			select {
			case <-done:
				return
			default:
			}
			h := has()
			if h {
				seen = true
			}
			if seen && !h {
				*dropped = true
				closeConn()
				return
			}
			if !seen && time.Now().After(deadline) {
				closeConn()
				return
			}
			time.Sleep(500 * time.Microsecond)
		}
	}()
	return dropped
}

func c30Ref(s *server.Server, a *c30Attempt, url string, srvKey, cliKey *keys.Pair) {
	conn, err := net.DialTimeout("tcp", strings.TrimPrefix(url, "opc.tcp://"), watchdog)
	if err != nil {
		a.Refusal = "tcp: " + err.Error()
		return
	}
	defer conn.Close()
	conn.SetDeadline(time.Now().Add(watchdog))
	done := make(chan struct{})
	defer close(done)
	dropped := c30WatchDrop(s, conn.LocalAddr().String(), func() { conn.Close() }, done)
	pol := refcodec.PolicyByName(a.Pair.Policy)
	if pol == nil {
		a.Refusal = "refcodec does not know policy " + a.Pair.Policy
		return
	}
	ep := &refcodec.Endpoint{Policy: pol, Mode: refcodec.Mode(a.Pair.Mode), EndpointURL: url, RequestedLifetime: 3600000, Timestamp: 132000000000000000}
	if a.Client == "ref-renew" {
		ep.OPNRequestType = 1
	}
	if !pol.IsNone() {
		ep.Key, ep.CertDER, ep.PeerCertDER = cliKey.Key, cliKey.CertDER, srvKey.CertDER
	}
	ch, err := refcodec.Dial(conn, ep)
	if err != nil {
		a.Refusal = c30Norm(err.Error())
		if *dropped {
			a.Refusal = "the server dropped the connection's channel without answering or closing the socket (" + a.Refusal + ")"
		}
		var se *refcodec.StepError
		if errors.As(err, &se) && se.Step == "opn-response" {
			if k := refcodec.ErrKind(err); k != "" && k != "other" {
				// an OPN response chunk arrived but does not pass the reference client's verification
				a.Answered = "opn-response-fails-verification:" + k
			}
		}
		return
	}
	a.Opened = true
	// is the channel usable? GetEndpoints (same layout as FindServers: url + two string arrays)
	fs := &refcodec.FindServersRequest{Header: refcodec.RequestHeader{Timestamp: ep.Timestamp, RequestHandle: 7}, EndpointURL: url}
	_, payload, err := refcodec.SplitBody(fs.Encode())
	if err != nil {
		return
	}
	if _, err := ch.Send(refcodec.TypeMessage, ch.NextRequestID(), refcodec.JoinBody(428, payload)); err != nil {
		a.Refusal = "request on the opened channel: " + c30Norm(err.Error())
		return
	}
	msg, err := ch.Recv()
	if err != nil {
		a.Refusal = "answer on the opened channel: " + c30Norm(err.Error())
		return
	}
	a.Usable = true
	if _, v, err := ua.DecodeService(msg.Body); err == nil {
		if ger, ok := v.(*ua.GetEndpointsResponse); ok {
			a.Endpoint = []string{}
			for _, e := range ger.Endpoints {
				a.Endpoint = append(a.Endpoint, epPair(e))
			}
			sort.Strings(a.Endpoint)
		}
	}
}

func c30Gopcua(s *server.Server, a *c30Attempt, url string, srvKey, cliKey *keys.Pair) {
	cfg := &uasc.Config{
		SecurityPolicyURI: policyURI(a.Pair.Policy),
		SecurityMode:      ua.MessageSecurityMode(a.Pair.Mode),
		Lifetime:          3600000,
		RequestTimeout:    watchdog,
	}
	if a.Pair.Policy != "None" {
		cfg.Certificate, cfg.LocalKey = cliKey.CertDER, cliKey.Key
		cfg.RemoteCertificate = srvKey.CertDER
		cfg.Thumbprint = uapolicy.Thumbprint(srvKey.CertDER)
	}
	ctx, cancel := context.WithTimeout(context.Background(), watchdog)
	defer cancel()
	conn, err := uacp.Dial(ctx, url)
	if err != nil {
		a.Refusal = "dial: " + c30Norm(err.Error())
		return
	}
	defer conn.Close()
	done := make(chan struct{})
	defer close(done)
	dropped := c30WatchDrop(s, conn.LocalAddr().String(), func() { conn.Close() }, done)
	sc, err := uasc.NewSecureChannel(url, conn, cfg, make(chan error, 16))
	if err != nil {
		a.Refusal = "the gopcua client refuses to build the channel: " + c30Norm(err.Error())
		return
	}
	if err := sc.Open(ctx); err != nil {
		a.Refusal = c30Norm(err.Error())
		if *dropped {
			a.Refusal = "the server dropped the connection's channel without answering or closing the socket (" + a.Refusal + ")"
		}
		return
	}
	rc := &rawChan{conn: conn, sc: sc}
	defer sc.Close()
	a.Opened = true
	resp, err := rc.send(&ua.GetEndpointsRequest{EndpointURL: url}, nil)
	if err != nil {
		a.Refusal = "request on the opened channel: " + c30Norm(err.Error())
		return
	}
	a.Usable = true
	if ger, ok := resp.(*ua.GetEndpointsResponse); ok {
		a.Endpoint = []string{}
		for _, e := range ger.Endpoints {
			a.Endpoint = append(a.Endpoint, epPair(e))
		}
		sort.Strings(a.Endpoint)
	}
}

// c30Norm removes run-dependent parts (ports, addresses) from an error text.
func c30Norm(s string) string {
	s = stripHex(s)
	var b strings.Builder
	for i := 0; i < len(s); i++ {
		if s[i] == ':' && i+1 < len(s) && s[i+1] >= '0' && s[i+1] <= '9' {
			j := i + 1
			for j < len(s) && s[j] >= '0' && s[j] <= '9' {
				j++
			}
			if j-i > 4 {
				b.WriteString(":<port>")
				i = j - 1
				continue
			}
		}
		b.WriteByte(s[i])
	}
	return b.String()
}

func c30Host() {
	hostLoop(func(job []byte) any {
		var j c30Job
		if err := json.Unmarshal(job, &j); err != nil {
			return c30Out{EngineErr: err.Error()}
		}
		return c30Run(j)
	})
}

func c30() {
	r := evid.New("C30")
	var rj c30Job
	replay := evid.ReplayInput(&rj)
	configs := c30Configs()
	if replay {
		configs = []uint16{rj.Mask}
	}
	var jobs [][]byte
	for _, m := range configs {
		j := c30Job{Mask: m, Only: -1}
		if replay {
			j.Only = rj.Only
		}
		b, _ := json.Marshal(j)
		jobs = append(jobs, b)
	}
	p := newPool("c30", evid.Workers(), nil)
	defer p.close()
	results := p.run("C30", jobs, 10*time.Minute, nil)
	natt := len(c30Attempts())
	wf, _ := c30Pairs()
	for ci, jr := range results {
		mask := configs[ci]
		if jr.Death != nil {
			if jr.Death.Headline == "" {
				evid.EngineError("C30", "worker failed without a Go panic on configuration %011b: %s", mask, deathDetail(jr.Death))
			}
			if replay {
				fmt.Printf("replay %+v: the server process died\n%s\n", rj, deathDetail(jr.Death))
				os.Exit(1)
			}
			// attribute the death: rerun the configuration one attempt at a time
			var single [][]byte
			for a := 0; a < natt; a++ {
				b, _ := json.Marshal(c30Job{Mask: mask, Only: a})
				single = append(single, b)
			}
			for a, sr := range p.run("C30", single, 10*time.Minute, nil) {
				att := c30Attempts()[a]
				if sr.Death != nil {
					r.Eval(fmt.Sprint(mask, att.Pair, att.Client))
					r.Violate(fmt.Sprintf("OPN/%s/server-crash/%s", att.Pair, sr.Death.Func), fmt.Sprintf("configuration %v: OpenSecureChannel %s by the %s client killed the server\n%s", c30Enabled(mask), att.Pair, att.Client, deathDetail(sr.Death)), c30Job{Mask: mask, Only: a})
					continue
				}
				var o c30Out
				if err := json.Unmarshal(sr.Out, &o); err != nil {
					evid.EngineError("C30", "bad worker reply: %v", err)
				}
				c30Judge(r, o, wf)
			}
			continue
		}
		var o c30Out
		if err := json.Unmarshal(jr.Out, &o); err != nil {
			evid.EngineError("C30", "bad worker reply: %v", err)
		}
		if o.EngineErr != "" {
			evid.EngineError("C30", "%s", o.EngineErr)
		}
		if replay {
			b, _ := json.MarshalIndent(o, "", " ")
			fmt.Printf("replay %+v\n%s\n", rj, b)
		}
		c30Judge(r, o, wf)
	}
	if replay {
		if r.ViolationCount() > 0 {
			os.Exit(1)
		}
		return
	}
	r.Set("configurations", len(configs))
	r.Set("attempts_per_configuration", natt)
	r.Set("worker_deaths", p.Deaths)
	r.Rule(fmt.Sprintf("%d server configurations (all subsets of size <= 2 (thorough: <= 3) of the 11 (policy, mode) pairs, the full set, every singleton's (thorough: and every pair's) complement) x %d OpenSecureChannel attempts (11 well-formed + 7 ill-formed pairs by the reference client, the 11 well-formed pairs again with RequestType Renew in the first request, 11 well-formed pairs by the gopcua channel), one real server per configuration; plus the advertised endpoints per configuration; non-trivial = an attempt against a non-empty configuration; distinct = (configuration, requested pair, client)", len(configs), natt))
	r.Assume("RSA-2048 keys for both sides (inside every policy's allowed range)", "a pair counts as opened when the OPN response is Good and passes the client's verification; usability (a request answered on the channel) is recorded", "policy None for discovery-only channels is not treated specially: the statement says any pair that is not configured is refused")
	r.Finish()
}

// c30Enabled is the configuration a mask stands for. A server built without any EnableSecurity option is the
// library's unsecured default server: its configuration is the single pair None/None (the repository's own tests
// start such servers and connect without security), which it must then both advertise and accept, and nothing else.
func c30Enabled(mask uint16) []string {
	wf, _ := c30Pairs()
	var out []string
	for i, p := range wf {
		if mask&(1<<i) != 0 {
			out = append(out, p.String())
		}
	}
	if mask == 0 {
		for _, p := range wf {
			if p.Policy == "None" {
				out = append(out, p.String())
			}
		}
	}
	return out
}

func c30Judge(r *evid.Run, o c30Out, wf []secPair) {
	enabled := map[string]bool{}
	for _, e := range o.Enabled {
		enabled[e] = true
	}
	if o.StartErr != "" {
		r.Eval("")
		r.NotJudged(1)
		r.Outcome("server did not start: " + o.StartErr)
		return
	}
	for _, a := range o.Attempts {
		key := ""
		if o.Mask != 0 {
			key = fmt.Sprint(o.Mask, a.Pair, a.Client)
		}
		r.Eval(key)
		replay := c30Job{Mask: o.Mask, Only: -1}
		en := enabled[a.Pair.String()] && !a.Ill
		cls := a.Pair.String()
		if a.Ill {
			cls = "illformed:" + cls
		}
		renew := a.Client == "ref-renew"
		if renew {
			cls = "renew-as-first-request:" + cls
		}
		cfgClass := "config=nonempty"
		if o.Mask == 0 {
			cfgClass = "config=empty"
		}
		switch {
		case a.Opened && !en:
			r.Outcome("opened although not enabled")
			r.Violate("OPN/"+cls+"/opened-although-not-enabled/"+cfgClass, fmt.Sprintf("server configured with %v opened a channel for %s requested by the %s client (usable=%v)", o.Enabled, a.Pair, a.Client, a.Usable), replay)
		case !a.Opened && !en && a.Answered != "":
			r.Outcome("not enabled, yet answered with an OPN response")
			r.Violate("OPN/"+cls+"/not-refused:"+a.Answered+"/"+cfgClass, fmt.Sprintf("server configured with %v answered the OpenSecureChannel for %s (%s client) with an OPN response instead of refusing it: %s", o.Enabled, a.Pair, a.Client, a.Refusal), replay)
		case renew && en:
			// whether a server should open a channel for a Renew that renews nothing is not C30's business
			r.Outcome(fmt.Sprintf("renew as first request for an enabled pair: opened=%v", a.Opened))
		case !a.Opened && en:
			r.Outcome("refused although enabled")
			r.Violate("OPN/"+cls+"/refused-although-enabled", fmt.Sprintf("server configured with %v refused %s requested by the %s client: %s", o.Enabled, a.Pair, a.Client, a.Refusal), replay)
		case a.Opened:
			r.Outcome("opened, enabled")
			if !a.Usable {
				r.Violate("OPN/"+cls+"/opened-but-unusable", fmt.Sprintf("server configured with %v opened %s for the %s client but no request was answered on it: %s", o.Enabled, a.Pair, a.Client, a.Refusal), replay)
			}
		default:
			r.Outcome("refused, not enabled")
		}
		if a.Endpoint != nil {
			c30Endpoints(r, "wire", o, a.Endpoint, replay)
		}
		if a.Pair.Policy == "Basic256Sha256" && a.Pair.Mode == 3 && o.Mask == 1 {
			r.Sample(map[string]any{"enabled": o.Enabled, "attempt": a})
		}
	}
	r.Eval("")
	c30Endpoints(r, "direct", o, o.Advertised, c30Job{Mask: o.Mask, Only: -1})
}

func c30Endpoints(r *evid.Run, path string, o c30Out, adv []string, replay c30Job) {
	en := map[string]bool{}
	for _, e := range o.Enabled {
		en[e] = true
	}
	got := map[string]bool{}
	for _, a := range adv {
		got[a] = true
		if !en[a] {
			r.Violate("GetEndpoints/"+path+"/advertises-pair-not-enabled", fmt.Sprintf("configured %v, advertised %v", o.Enabled, adv), replay)
		}
	}
	for e := range en {
		if !got[e] {
			r.Violate("GetEndpoints/"+path+"/enabled-pair-not-advertised", fmt.Sprintf("configured %v, advertised %v", o.Enabled, adv), replay)
		}
	}
}
