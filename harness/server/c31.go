// C31: node access levels are enforced for value reads and writes.
//
// Enumeration: one variable node per (AccessLevel option x UserAccessLevel
// option x history x path); options = {absent, uint8 0, uint8 CurrentRead,
// uint8 CurrentWrite, uint8 Read|Write, uint32 Read (wrong type), null Variant,
// DataValue without a Variant, and four uint8 masks with bits other than
// CurrentRead / CurrentWrite set: Read|StatusWrite (0x21), Read|TimestampWrite
// (0x41), StatusWrite|TimestampWrite (0x60), every bit but Read and Write
// (0xFC)}; histories = every sequence of length 0..3 over
// {read value, write v1, write v2, write AccessLevel := Read|Write, write
// UserAccessLevel := Read|Write} plus every sequence of length 0..2 (thorough
// 0..3) over these and three more value writes whose DataValue carries, besides
// the value, a status code (Good), a source timestamp, or both; paths = direct
// (NameSpace.Attribute / SetAttribute, panic recovered) and wire (real client
// Read / Write over loopback TCP). Every history gets its own node, so each
// starts from the same initial value.
//
// Oracle: a register guarded by the two masks. The masks of the reference
// change only through an access level attribute write that the reference
// permits at that moment (no well-typed mask lacks CurrentWrite - the rule the
// server implements for every attribute write); then they become what the
// node holds afterwards (peeked server-side; the status of the attribute write
// itself is not judged). An attribute write the reference does not permit
// leaves the reference masks as they are, so a server that lets it take effect
// is caught by the value reads / writes that follow.
//   - a well-typed (uint8) attribute lacking CurrentRead: a read must not
//     deliver a value;
//   - a well-typed attribute lacking CurrentWrite: a write must be refused and
//     the value (peeked server-side after the history) must be unchanged;
//   - absent attribute: no requirement from that attribute ("global access");
//   - mistyped / null attribute: a refusal is acceptable, a grant too;
//   - register consistency: a write answered Good is the value a later
//     delivering read returns; a refused write changes nothing.
//
// A panic in the access check (DataValue without Variant) is reported as an
// outcome and not judged here: it is a crash (C29), not an access decision.
package main

import (
	"context"
	"fmt"
	"os"
	"time"

	"github.com/gopcua/opcua"
	"github.com/gopcua/opcua/server"
	"github.com/gopcua/opcua/server/attrs"
	"github.com/gopcua/opcua/ua"
	"verif/engine/evid"
)

type c31Case struct {
	AL   int    `json:"access_level"`
	UAL  int    `json:"user_access_level"`
	Hist string `json:"history"` // letters R, A (write v1), B (write v2), L (write AccessLevel := 3), U (write UserAccessLevel := 3), S (write v2 + status code), T (write v1 + source timestamp), X (write v2 + status code + source timestamp)
	Path string `json:"path"`
}

var c31OptNames = []string{"absent", "u8:0", "u8:Read", "u8:Write", "u8:ReadWrite", "u32:Read", "nullVariant", "noVariant", "u8:Read|StatusWrite", "u8:Read|TimestampWrite", "u8:StatusWrite|TimestampWrite", "u8:allButReadWrite"}

const (
	c31V0 = int32(100)
	c31V1 = int32(111)
	c31V2 = int32(222)
)

func c31Attr(opt int) (*ua.DataValue, bool) {
	switch opt {
	case 0:
		return nil, false
	case 1:
		return server.DataValueFromValue(uint8(0)), true
	case 2:
		return server.DataValueFromValue(uint8(ua.AccessLevelTypeCurrentRead)), true
	case 3:
		return server.DataValueFromValue(uint8(ua.AccessLevelTypeCurrentWrite)), true
	case 4:
		return server.DataValueFromValue(uint8(ua.AccessLevelTypeCurrentRead | ua.AccessLevelTypeCurrentWrite)), true
	case 5:
		return server.DataValueFromValue(uint32(ua.AccessLevelTypeCurrentRead)), true
	case 6:
		return &ua.DataValue{EncodingMask: ua.DataValueValue, Value: &ua.Variant{}}, true
	case 7:
		return &ua.DataValue{}, true
	case 8:
		return server.DataValueFromValue(uint8(ua.AccessLevelTypeCurrentRead | ua.AccessLevelTypeStatusWrite)), true
	case 9:
		return server.DataValueFromValue(uint8(ua.AccessLevelTypeCurrentRead | ua.AccessLevelTypeTimestampWrite)), true
	case 10:
		return server.DataValueFromValue(uint8(ua.AccessLevelTypeStatusWrite | ua.AccessLevelTypeTimestampWrite)), true
	case 11:
		return server.DataValueFromValue(uint8(0xFC)), true
	}
	panic("bad option")
}

// c31Mask is what the reference knows about one of the two attributes.
type c31Mask struct {
	present   bool
	wellTyped bool // a uint8
	mask      uint8
}

func c31MaskOf(dv *ua.DataValue, present bool) c31Mask {
	if !present {
		return c31Mask{}
	}
	m := c31Mask{present: true}
	if dv != nil && dv.Value != nil {
		if v, ok := dv.Value.Value().(uint8); ok {
			m.wellTyped, m.mask = true, v
		}
	}
	return m
}

// c31Ref is the reference's view of the node's two masks.
type c31Ref struct{ al, ual c31Mask }

func c31InitialRef(c c31Case) c31Ref {
	a, aok := c31Attr(c.AL)
	u, uok := c31Attr(c.UAL)
	return c31Ref{al: c31MaskOf(a, aok), ual: c31MaskOf(u, uok)}
}

// forbidden: some well-typed mask lacks the flag.
func (r c31Ref) forbidden(flag uint8) bool {
	for _, m := range []c31Mask{r.al, r.ual} {
		if m.wellTyped && m.mask&flag == 0 {
			return true
		}
	}
	return false
}

// determined: every present attribute is well-typed, i.e. the reference fully
// determines whether the operation is granted.
func (r c31Ref) determined() bool {
	for _, m := range []c31Mask{r.al, r.ual} {
		if m.present && !m.wellTyped {
			return false
		}
	}
	return true
}

const c31Ops = "RABLU"

// c31OpsWide adds value writes whose DataValue carries more than the value:
// S = v2 + status code, T = v1 + source timestamp, X = v2 + both.
const c31OpsWide = "RABLUSTX"

func c31Seqs(ops string, maxLen int) []string {
	out := []string{""}
	prev := []string{""}
	for l := 1; l <= maxLen; l++ {
		var cur []string
		for _, p := range prev {
			for _, o := range ops {
				cur = append(cur, p+string(o))
			}
		}
		out = append(out, cur...)
		prev = cur
	}
	return out
}

// c31Histories: every sequence over the plain alphabet up to length 3 (thorough
// 5), then the sequences over the wide alphabet up to length 2 (thorough 3)
// that are not among them.
func c31Histories() []string {
	maxLen, maxWide := 3, 2
	if evid.Thorough() {
		maxLen, maxWide = 5, 3
	}
	out := c31Seqs(c31Ops, maxLen)
	seen := map[string]bool{}
	for _, h := range out {
		seen[h] = true
	}
	for _, h := range c31Seqs(c31OpsWide, maxWide) {
		if !seen[h] {
			out = append(out, h)
		}
	}
	return out
}

func c31NodeID(ns uint16, c c31Case) *ua.NodeID {
	return ua.NewStringNodeID(ns, fmt.Sprintf("al%d_ual%d_%s_%s", c.AL, c.UAL, c.Hist, c.Path))
}

func c31AddNode(ns *server.NodeNameSpace, c c31Case) *server.Node {
	at := map[ua.AttributeID]*ua.DataValue{
		ua.AttributeIDNodeClass:  server.DataValueFromValue(uint32(ua.NodeClassVariable)),
		ua.AttributeIDBrowseName: server.DataValueFromValue(attrs.BrowseName("n")),
	}
	if dv, ok := c31Attr(c.AL); ok {
		at[ua.AttributeIDAccessLevel] = dv
	}
	if dv, ok := c31Attr(c.UAL); ok {
		at[ua.AttributeIDUserAccessLevel] = dv
	}
	n := server.NewNode(c31NodeID(ns.ID(), c), at, nil, func() *ua.DataValue { return server.DataValueFromValue(c31V0) })
	ns.AddNode(n)
	return n
}

type c31Step struct {
	Op       string `json:"op"`
	Status   string `json:"status"`
	Value    any    `json:"value,omitempty"`
	Panicked string `json:"panicked,omitempty"`
}

// opResult: what one operation did, path independent.
type opResult struct {
	status   ua.StatusCode
	hasValue bool
	value    any
	panicked string
	failed   string // transport failure
}

type c31Exec struct {
	ns  *server.NodeNameSpace
	cl  *opcua.Client
	srv *server.Server
}

func (e *c31Exec) read(c c31Case, nid *ua.NodeID) (res opResult) {
	if c.Path == "direct" {
		defer func() {
			if p := recover(); p != nil {
				res.panicked = panicSite()
			}
		}()
		dv := e.ns.Attribute(nid, ua.AttributeIDValue)
		return dvResult(dv)
	}
	ctx, cancel := context.WithTimeout(context.Background(), watchdog)
	defer cancel()
	resp, err := e.cl.Read(ctx, &ua.ReadRequest{NodesToRead: []*ua.ReadValueID{{NodeID: nid, AttributeID: ua.AttributeIDValue}}, TimestampsToReturn: ua.TimestampsToReturnBoth})
	if err != nil || len(resp.Results) != 1 {
		return opResult{failed: fmt.Sprint("read: ", err)}
	}
	return dvResult(resp.Results[0])
}

func dvResult(dv *ua.DataValue) opResult {
	if dv == nil {
		return opResult{status: ua.StatusBad}
	}
	r := opResult{status: dv.Status}
	if dv.Value != nil && dv.Value.Value() != nil {
		r.hasValue = true
		r.value = dv.Value.Value()
	}
	return r
}

func (e *c31Exec) write(c c31Case, nid *ua.NodeID, v int32) (res opResult) {
	return e.writeAttr(c, nid, ua.AttributeIDValue, v)
}

var c31Stamp = time.Date(2020, 2, 2, 2, 2, 2, 0, time.UTC)

// writeWide writes the value with a DataValue that also carries a status code (Good) and / or a source timestamp.
func (e *c31Exec) writeWide(c c31Case, nid *ua.NodeID, v int32, status, stamp bool) (res opResult) {
	dv := &ua.DataValue{EncodingMask: ua.DataValueValue, Value: ua.MustVariant(v)}
	if status {
		dv.EncodingMask |= ua.DataValueStatusCode
		dv.Status = ua.StatusOK
	}
	if stamp {
		dv.EncodingMask |= ua.DataValueSourceTimestamp
		dv.SourceTimestamp = c31Stamp
	}
	return e.writeDV(c, nid, ua.AttributeIDValue, dv)
}

func (e *c31Exec) writeAttr(c c31Case, nid *ua.NodeID, attr ua.AttributeID, v any) (res opResult) {
	return e.writeDV(c, nid, attr, &ua.DataValue{EncodingMask: ua.DataValueValue, Value: ua.MustVariant(v)})
}

func (e *c31Exec) writeDV(c c31Case, nid *ua.NodeID, attr ua.AttributeID, dv *ua.DataValue) (res opResult) {
	if c.Path == "direct" {
		defer func() {
			if p := recover(); p != nil {
				res.panicked = panicSite()
			}
		}()
		return opResult{status: e.ns.SetAttribute(nid, attr, dv)}
	}
	ctx, cancel := context.WithTimeout(context.Background(), watchdog)
	defer cancel()
	resp, err := e.cl.Write(ctx, &ua.WriteRequest{NodesToWrite: []*ua.WriteValue{{NodeID: nid, AttributeID: attr, Value: dv}}})
	if err != nil || len(resp.Results) != 1 {
		return opResult{failed: fmt.Sprint("write: ", err)}
	}
	return opResult{status: resp.Results[0]}
}

// run executes one history on its own node and judges it.
func (e *c31Exec) run(c c31Case, n *server.Node) (viol [][2]string, steps []c31Step, panicked bool) {
	nid := n.ID()
	reg := any(c31V0)
	ref := c31InitialRef(c)
	// tampered: the history contains an access level write that the reference did not permit; what follows is
	// a different way of getting at the value than a plain read / write, so it gets its own signatures
	tampered := ""
	add := func(sig, detail string) {
		viol = append(viol, [2]string{sig + tampered, fmt.Sprintf("%s; case AL=%s UAL=%s history=%q path=%s steps=%+v", detail, c31OptNames[c.AL], c31OptNames[c.UAL], c.Hist, c.Path, steps)})
	}
	for i, op := range c.Hist {
		evid.Publish(fmt.Sprintf("%+v step %d", c, i))
		readForbidden := ref.forbidden(1)
		writeForbidden := ref.forbidden(2)
		determined := ref.determined()
		var res opResult
		switch op {
		case 'R':
			res = e.read(c, nid)
		case 'A':
			res = e.write(c, nid, c31V1)
		case 'B':
			res = e.write(c, nid, c31V2)
		case 'S':
			res = e.writeWide(c, nid, c31V2, true, false)
		case 'T':
			res = e.writeWide(c, nid, c31V1, false, true)
		case 'X':
			res = e.writeWide(c, nid, c31V2, true, true)
		case 'L':
			res = e.writeAttr(c, nid, ua.AttributeIDAccessLevel, uint8(ua.AccessLevelTypeCurrentRead|ua.AccessLevelTypeCurrentWrite))
		case 'U':
			res = e.writeAttr(c, nid, ua.AttributeIDUserAccessLevel, uint8(ua.AccessLevelTypeCurrentRead|ua.AccessLevelTypeCurrentWrite))
		}
		st := c31Step{Op: string(op), Status: res.status.Error(), Panicked: res.panicked}
		if res.hasValue {
			st.Value = res.value
		}
		steps = append(steps, st)
		if res.panicked != "" {
			return viol, steps, true
		}
		if res.failed != "" {
			add("access/"+c.Path+"/request-failed", res.failed)
			return viol, steps, false
		}
		switch op {
		case 'R':
			switch {
			case readForbidden && res.hasValue:
				add("access/read/value-delivered-although-CurrentRead-missing", fmt.Sprintf("read returned %v (status %v)", res.value, res.status))
			case res.hasValue && res.status == ua.StatusOK && res.value != reg:
				add("access/read/delivered-value-is-not-the-register-value", fmt.Sprintf("read returned %v, register holds %v", res.value, reg))
			case determined && !readForbidden && !(res.hasValue && res.status == ua.StatusOK):
				add("access/read/refused-although-CurrentRead-granted", fmt.Sprintf("read answered %v", res.status))
			}
		case 'L', 'U':
			// Not judged itself. The reference masks follow the node only if the reference permits the write
			// (or cannot decide because an attribute is mistyped).
			if writeForbidden {
				tampered = "/after-access-level-write-without-CurrentWrite"
				break
			}
			at := n.VerifAttrs()
			dvA, okA := at[ua.AttributeIDAccessLevel]
			dvU, okU := at[ua.AttributeIDUserAccessLevel]
			ref = c31Ref{al: c31MaskOf(dvA, okA), ual: c31MaskOf(dvU, okU)}
		default:
			v := any(c31V1)
			if op == 'B' || op == 'S' || op == 'X' {
				v = any(c31V2)
			}
			// a write whose DataValue carries more than the value gets its own signatures
			wide := map[rune]string{'S': "/DataValue-with-status-code", 'T': "/DataValue-with-source-timestamp", 'X': "/DataValue-with-status-code-and-source-timestamp"}[op]
			switch {
			case writeForbidden && res.status == ua.StatusOK:
				add("access/write/accepted-although-CurrentWrite-missing"+wide, "write answered Good")
			case determined && !writeForbidden && res.status != ua.StatusOK:
				add("access/write/refused-although-CurrentWrite-granted"+wide, fmt.Sprintf("write answered %v", res.status))
			}
			if res.status == ua.StatusOK && !writeForbidden {
				reg = v
			}
		}
	}
	// server-side peek at the stored value, independent of the access check
	var stored any
	if dv := n.Value(); dv != nil && dv.Value != nil {
		stored = dv.Value.Value()
	}
	if stored != reg {
		kind := "stored-value-differs-from-register"
		if ref.forbidden(2) {
			kind = "value-changed-although-CurrentWrite-missing"
		}
		add("access/write/"+kind, fmt.Sprintf("node holds %v, register %v", stored, reg))
	}
	return viol, steps, false
}

func c31World(cases []c31Case) (*c31Exec, map[c31Case]*server.Node, error) {
	nodes := map[c31Case]*server.Node{}
	var nns *server.NodeNameSpace
	s, url, err := startServer(noneOpts(), func(s *server.Server) {
		nns = server.NewNodeNameSpace(s, "urn:verif:c31")
		for _, c := range cases {
			nodes[c] = c31AddNode(nns, c)
		}
	})
	if err != nil {
		return nil, nil, err
	}
	cl, err := connectClient(url)
	if err != nil {
		return nil, nil, err
	}
	return &c31Exec{ns: nns, cl: cl, srv: s}, nodes, nil
}

func c31() {
	r := evid.New("C31")
	var rc c31Case
	if evid.ReplayInput(&rc) {
		failed := false
		for _, p := range []string{"direct", "wire"} {
			c := rc
			c.Path = p
			if p == "wire" && (rc.AL == 7 || rc.UAL == 7) {
				fmt.Println("wire path skipped: the access check panics on this node and would kill the in-process server")
				continue
			}
			e, nodes, err := c31World([]c31Case{c})
			if err != nil {
				evid.EngineError("C31", "%v", err)
			}
			viol, steps, pan := e.run(c, nodes[c])
			fmt.Printf("replay %+v\n steps: %+v\n panicked: %v\n", c, steps, pan)
			for _, v := range viol {
				fmt.Printf(" DISCREPANCY %s: %s\n", v[0], v[1])
				failed = true
			}
		}
		if failed {
			os.Exit(1)
		}
		return
	}
	hists := c31Histories()
	deaths := evid.Sharded(r, 0, func(s evid.ShardInfo, w *evid.Run) {
		var mine []c31Case
		idx := int64(0)
		for al := 0; al < len(c31OptNames); al++ {
			for ual := 0; ual < len(c31OptNames); ual++ {
				my := s.Mine(idx)
				idx++
				if !my {
					continue
				}
				for _, h := range hists {
					for _, p := range []string{"direct", "wire"} {
						mine = append(mine, c31Case{al, ual, h, p})
					}
				}
			}
		}
		if len(mine) == 0 {
			return
		}
		e, nodes, err := c31World(mine)
		if err != nil {
			evid.EngineError("C31", "%v", err)
		}
		// direct first: combos whose access check panics are not sent over the wire
		panics := map[[2]int]bool{}
		for _, path := range []string{"direct", "wire"} {
			for _, c := range mine {
				if c.Path != path {
					continue
				}
				if path == "wire" && panics[[2]int{c.AL, c.UAL}] {
					w.NotJudged(1)
					w.Outcome("wire:skipped-access-check-panics")
					continue
				}
				viol, steps, pan := e.run(c, nodes[c])
				key := ""
				if len(c.Hist) > 0 && (c.AL != 0 || c.UAL != 0) {
					key = fmt.Sprint(c.AL, c.UAL, c.Hist)
				}
				w.Eval(key)
				if pan {
					panics[[2]int{c.AL, c.UAL}] = true
					w.NotJudged(1)
					w.Outcome(path + ":access-check-panicked(" + steps[len(steps)-1].Panicked + ")")
					continue
				}
				out := path + ":"
				for _, st := range steps {
					if st.Status == ua.StatusOK.Error() {
						out += st.Op + "+"
					} else {
						out += st.Op + "-"
					}
				}
				w.Outcome(out)
				if c.AL == 2 && c.UAL == 4 && len(c.Hist) >= 3 && c.Hist[0] == 'A' {
					w.Sample(map[string]any{"case": c, "steps": steps})
				}
				for _, v := range viol {
					w.Violate(v[0], v[1], c)
				}
			}
		}
	})
	for _, d := range deaths {
		head, fn := topRepoFunc(d.Stderr)
		if head == "" {
			evid.EngineError("C31", "worker %d failed without a Go panic: %s: %s", d.Shard, d.ExitErr, lastLines(d.Stderr, 5))
		}
		r.Violate("access/wire/server-died/"+fn, fmt.Sprintf("worker died while running %s\n%s\n%s", d.LastCase, head, lastLines(d.Stderr, 30)), d.LastCase)
		r.Capped(fmt.Sprintf("worker %d died; the rest of its shard was not run", d.Shard))
	}
	r.Rule(fmt.Sprintf("12 AccessLevel options x 12 UserAccessLevel options (absent, uint8 0/Read/Write/Read|Write, uint32 Read, null Variant, DataValue without Variant, uint8 Read|StatusWrite 0x21, Read|TimestampWrite 0x41, StatusWrite|TimestampWrite 0x60, all bits but Read and Write 0xFC) x %d histories (all sequences of length 0..3 (thorough: 0..5) over read value, write value v1, write value v2, write AccessLevel := Read|Write, write UserAccessLevel := Read|Write, plus all sequences of length 0..2 (thorough: 0..3) over these and three value writes whose DataValue also carries a status code (Good), a source timestamp, or both) x 2 paths (direct namespace call, real client over TCP), each on its own node; non-trivial = non-empty history on a node with at least one of the two attributes present; distinct = (AccessLevel option, UserAccessLevel option, history)", len(hists)))
	r.Assume("the reference masks change only through an AccessLevel / UserAccessLevel write made while no well-typed mask lacks CurrentWrite (then they become what the node holds afterwards); the status of these attribute writes is not judged", "absent attribute = no requirement; mistyped or null attribute = refusal or grant both accepted (only register consistency is judged); a panic inside the access check is counted as not judged here (crash property C29)")
	r.Set("histories", len(hists))
	r.Finish()
}
