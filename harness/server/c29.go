// C29 (a): no client can crash or hang the server - history search.
//
// Alphabet: every request type with a registered handler (enumerated through
// the verif hook) in several variants with field values from small domains:
// the registry instance with all struct pointers allocated, the raw registry
// instance (nil-able members nil), and per-service variants (zero / negative /
// tiny / huge / NaN publishing intervals, empty and 10^4-element arrays, own /
// foreign / unknown subscription and monitored item ids, unknown nodes,
// namespace out of range, nil NodeIDs, nil members, writes to the access level
// / data type attributes, ...), plus burst steps (one cheap request - Publish,
// Read, Write, CreateSubscription, CreateMonitoredItems - sent 150 times back to
// back without waiting for the answers: more than the 100 slots of a session's
// publish queue), each with an authentication token mode (own
// valid session, null; thorough: also unknown and the other connection's), on
// one of two client connections. Histories of length 1, then length 2 (thorough:
// length 3 as far as the budget reaches), simplest first.
//
// The server runs inside crash-isolating worker processes together with the
// driver: before every step the worker reports its progress to the parent, so
// a death is attributed to the exact step. After every step: (1) a sentinel
// Read on the same connection must be answered (requests of one connection are
// handled in order, so the step has been handled) - or the server has dropped
// that connection; (2) the server must be quiescent (all its goroutines
// parked), subscriptions created by the step must have started their ticker
// and, if they were created with a 1 ms interval and zero lifetime, must have
// expired; (3) a canary client on its own connection must get a Read
// answered within the watchdog (40 s quick / 60 s thorough in this check).
//
// If the sentinel is not answered within the watchdog and no server goroutine
// can make progress by itself (all parked or blocked on a channel send / lock:
// nothing is left that could drain), the canary is asked right away.
//
// Violations: the worker process dies (signature: step's service and variant,
// token mode, top in-repo function of the panic); the canary is not answered
// (hang). Pruning: an operation that kills, hangs or stalls the server as a history
// of length 1 is reported once and not used to extend histories; a history is
// only extended if its last step changed the canonical server state (see state()).
package main

import (
	"context"
	"encoding/json"
	"fmt"
	"math"
	"os"
	"reflect"
	"runtime"
	"runtime/debug"
	"sort"
	"strings"
	"time"

	"github.com/gopcua/opcua"
	"github.com/gopcua/opcua/id"
	"github.com/gopcua/opcua/server"
	"github.com/gopcua/opcua/server/attrs"
	"github.com/gopcua/opcua/ua"
	"github.com/gopcua/opcua/uacp"
	"github.com/gopcua/opcua/uasc"
	"verif/engine/evid"
)

// ---------------------------------------------------------------- variants

type c29Ctx struct {
	target, folder  *ua.NodeID
	ownSub, ownItem uint32
	forSub, forItem uint32
	url             string
}

type c29Variant struct {
	Svc   string // request type name
	Name  string // variant name (stable: part of signatures)
	Rank  int    // simplicity rank (0 simplest)
	Burst int    // > 1: the step sends the request that many times back to back without waiting for answers
	build func(c *c29Ctx) ua.Request
}

func (v c29Variant) String() string { return v.Svc + ":" + v.Name }

const c29Big = 10000

// c29Burst is the length of a burst step: more than the 100 slots of a session's publish queue.
const c29Burst = 150

// c29Watch bounds every wait of this check. Under heavy machine load a single
// 10^4-element request can take tens of seconds, so it is two (quick) or three
// (thorough) times the usual watchdog (normal step latency is about a millisecond).
var c29Watch = func() time.Duration {
	if evid.Thorough() {
		return 3 * watchdog
	}
	return 2 * watchdog
}()

func c29RVID(n *ua.NodeID, a ua.AttributeID) *ua.ReadValueID {
	return &ua.ReadValueID{NodeID: n, AttributeID: a, DataEncoding: &ua.QualifiedName{}}
}

func c29MonItem(n *ua.NodeID) *ua.MonitoredItemCreateRequest {
	return &ua.MonitoredItemCreateRequest{
		ItemToMonitor:       c29RVID(n, ua.AttributeIDValue),
		MonitoringMode:      ua.MonitoringModeReporting,
		RequestedParameters: &ua.MonitoringParameters{ClientHandle: 1, SamplingInterval: 1000, QueueSize: 1, Filter: ua.NewExtensionObject(nil)},
	}
}

func c29DV(v any) *ua.DataValue {
	return &ua.DataValue{EncodingMask: ua.DataValueValue, Value: ua.MustVariant(v)}
}

func c29U32s(n int, v uint32) []uint32 {
	out := make([]uint32, n)
	for i := range out {
		out[i] = v + uint32(i)
	}
	return out
}

// c29Variants builds the alphabet for the given handler type ids.
func c29Variants(ids []uint16) []c29Variant {
	var vs []c29Variant
	add := func(svc, name string, rank int, b func(c *c29Ctx) ua.Request) {
		vs = append(vs, c29Variant{Svc: svc, Name: name, Rank: rank, build: b})
	}
	unknownNode := ua.NewStringNodeID(1, "no-such-node")
	farNS := ua.NewNumericNodeID(99, 1)
	for _, tid := range ids {
		tid := tid
		svc := typeName(newRequestOfType(tid))
		add(svc, "filled", 0, func(c *c29Ctx) ua.Request {
			r := newRequestOfType(tid)
			fillPointers(reflect.ValueOf(r), 0)
			return r
		})
		add(svc, "raw-nil-members", 3, func(c *c29Ctx) ua.Request { return newRequestOfType(tid) })
		switch svc {
		case "ReadRequest":
			rd := func(name string, rank int, f func(c *c29Ctx, r *ua.ReadRequest)) {
				add(svc, name, rank, func(c *c29Ctx) ua.Request {
					r := &ua.ReadRequest{TimestampsToReturn: ua.TimestampsToReturnBoth}
					f(c, r)
					return r
				})
			}
			rd("target-value", 1, func(c *c29Ctx, r *ua.ReadRequest) {
				r.NodesToRead = []*ua.ReadValueID{c29RVID(c.target, ua.AttributeIDValue)}
			})
			rd("unknown-node", 1, func(c *c29Ctx, r *ua.ReadRequest) {
				r.NodesToRead = []*ua.ReadValueID{c29RVID(unknownNode, ua.AttributeIDValue)}
			})
			rd("namespace-out-of-range", 1, func(c *c29Ctx, r *ua.ReadRequest) {
				r.NodesToRead = []*ua.ReadValueID{c29RVID(farNS, ua.AttributeIDValue)}
			})
			rd("attribute-0", 2, func(c *c29Ctx, r *ua.ReadRequest) { r.NodesToRead = []*ua.ReadValueID{c29RVID(c.target, 0)} })
			rd("attribute-9999", 2, func(c *c29Ctx, r *ua.ReadRequest) { r.NodesToRead = []*ua.ReadValueID{c29RVID(c.target, 9999)} })
			rd("nil-nodeid", 3, func(c *c29Ctx, r *ua.ReadRequest) {
				r.NodesToRead = []*ua.ReadValueID{{AttributeID: ua.AttributeIDValue}}
			})
			rd("nil-element", 3, func(c *c29Ctx, r *ua.ReadRequest) { r.NodesToRead = []*ua.ReadValueID{nil} })
			rd("maxage-negative-timestamps-99", 2, func(c *c29Ctx, r *ua.ReadRequest) {
				r.MaxAge, r.TimestampsToReturn = -1, 99
				r.NodesToRead = []*ua.ReadValueID{c29RVID(c.target, ua.AttributeIDValue)}
			})
			rd("10000-nodes", 4, func(c *c29Ctx, r *ua.ReadRequest) {
				for i := 0; i < c29Big; i++ {
					r.NodesToRead = append(r.NodesToRead, c29RVID(c.target, ua.AttributeIDValue))
				}
			})
		case "WriteRequest":
			wr := func(name string, rank int, f func(c *c29Ctx) []*ua.WriteValue) {
				add(svc, name, rank, func(c *c29Ctx) ua.Request { return &ua.WriteRequest{NodesToWrite: f(c)} })
			}
			one := func(n func(c *c29Ctx) *ua.NodeID, a ua.AttributeID, dv func() *ua.DataValue) func(c *c29Ctx) []*ua.WriteValue {
				return func(c *c29Ctx) []*ua.WriteValue { return []*ua.WriteValue{{NodeID: n(c), AttributeID: a, Value: dv()}} }
			}
			tgt := func(c *c29Ctx) *ua.NodeID { return c.target }
			wr("target-value", 1, one(tgt, ua.AttributeIDValue, func() *ua.DataValue { return c29DV(int32(5)) }))
			wr("target-value-empty-datavalue", 2, one(tgt, ua.AttributeIDValue, func() *ua.DataValue { return &ua.DataValue{} }))
			wr("target-nil-datavalue", 3, one(tgt, ua.AttributeIDValue, func() *ua.DataValue { return nil }))
			wr("target-accesslevel-empty-datavalue", 2, one(tgt, ua.AttributeIDAccessLevel, func() *ua.DataValue { return &ua.DataValue{} }))
			wr("target-useraccesslevel-empty-datavalue", 2, one(tgt, ua.AttributeIDUserAccessLevel, func() *ua.DataValue { return &ua.DataValue{} }))
			wr("target-datatype-int32", 2, one(tgt, ua.AttributeIDDataType, func() *ua.DataValue { return c29DV(int32(1)) }))
			wr("target-displayname-int32", 2, one(tgt, ua.AttributeIDDisplayName, func() *ua.DataValue { return c29DV(int32(1)) }))
			wr("target-nodeclass-string", 2, one(tgt, ua.AttributeIDNodeClass, func() *ua.DataValue { return c29DV("x") }))
			wr("unknown-node", 1, one(func(*c29Ctx) *ua.NodeID { return unknownNode }, ua.AttributeIDValue, func() *ua.DataValue { return c29DV(int32(5)) }))
			wr("namespace-out-of-range", 1, one(func(*c29Ctx) *ua.NodeID { return farNS }, ua.AttributeIDValue, func() *ua.DataValue { return c29DV(int32(5)) }))
			wr("nil-nodeid", 3, one(func(*c29Ctx) *ua.NodeID { return nil }, ua.AttributeIDValue, func() *ua.DataValue { return c29DV(int32(5)) }))
			wr("attribute-9999", 2, one(tgt, 9999, func() *ua.DataValue { return c29DV(int32(5)) }))
			wr("10000-writes", 4, func(c *c29Ctx) []*ua.WriteValue {
				var out []*ua.WriteValue
				for i := 0; i < c29Big; i++ {
					out = append(out, &ua.WriteValue{NodeID: c.target, AttributeID: ua.AttributeIDValue, Value: c29DV(int32(i))})
				}
				return out
			})
		case "BrowseRequest":
			br := func(name string, rank int, f func(c *c29Ctx) []*ua.BrowseDescription) {
				add(svc, name, rank, func(c *c29Ctx) ua.Request {
					return &ua.BrowseRequest{View: &ua.ViewDescription{ViewID: ua.NewTwoByteNodeID(0)}, NodesToBrowse: f(c)}
				})
			}
			bd := func(n *ua.NodeID, rt *ua.NodeID, sub bool, dir ua.BrowseDirection, mask uint32) *ua.BrowseDescription {
				return &ua.BrowseDescription{NodeID: n, BrowseDirection: dir, ReferenceTypeID: rt, IncludeSubtypes: sub, NodeClassMask: mask, ResultMask: uint32(ua.BrowseResultMaskAll)}
			}
			hier, refs := ua.NewNumericNodeID(0, id.HierarchicalReferences), ua.NewNumericNodeID(0, id.References)
			objects := ua.NewNumericNodeID(0, id.ObjectsFolder)
			br("objects-hierarchical-subtypes", 1, func(c *c29Ctx) []*ua.BrowseDescription {
				return []*ua.BrowseDescription{bd(objects, hier, true, ua.BrowseDirectionForward, 0)}
			})
			br("objects-references-no-subtypes", 1, func(c *c29Ctx) []*ua.BrowseDescription {
				return []*ua.BrowseDescription{bd(objects, refs, false, ua.BrowseDirectionBoth, 0)}
			})
			br("folder-of-target", 1, func(c *c29Ctx) []*ua.BrowseDescription {
				return []*ua.BrowseDescription{bd(c.folder, hier, true, ua.BrowseDirectionBoth, 0)}
			})
			br("unknown-node", 1, func(c *c29Ctx) []*ua.BrowseDescription {
				return []*ua.BrowseDescription{bd(unknownNode, hier, true, ua.BrowseDirectionBoth, 0)}
			})
			br("namespace-out-of-range", 1, func(c *c29Ctx) []*ua.BrowseDescription {
				return []*ua.BrowseDescription{bd(farNS, hier, true, ua.BrowseDirectionBoth, 0)}
			})
			br("nil-nodeid", 3, func(c *c29Ctx) []*ua.BrowseDescription {
				return []*ua.BrowseDescription{bd(nil, hier, true, ua.BrowseDirectionBoth, 0)}
			})
			br("nil-reference-type", 3, func(c *c29Ctx) []*ua.BrowseDescription {
				return []*ua.BrowseDescription{bd(objects, nil, true, ua.BrowseDirectionBoth, 0)}
			})
			br("nil-element", 3, func(c *c29Ctx) []*ua.BrowseDescription { return []*ua.BrowseDescription{nil} })
			br("direction-99-mask-all-bits", 2, func(c *c29Ctx) []*ua.BrowseDescription {
				return []*ua.BrowseDescription{bd(objects, hier, true, 99, 0xffffffff)}
			})
			br("10000-descriptions", 4, func(c *c29Ctx) []*ua.BrowseDescription {
				var out []*ua.BrowseDescription
				for i := 0; i < c29Big; i++ {
					out = append(out, bd(c.folder, hier, true, ua.BrowseDirectionForward, 0))
				}
				return out
			})
		case "CreateSubscriptionRequest":
			cs := func(name string, rank int, interval float64, life, keep uint32) {
				add(svc, name, rank, func(c *c29Ctx) ua.Request {
					return &ua.CreateSubscriptionRequest{RequestedPublishingInterval: interval, RequestedLifetimeCount: life, RequestedMaxKeepAliveCount: keep, PublishingEnabled: true}
				})
			}
			cs("interval-1h", 1, 3600000, 10000, 1000)
			cs("interval-0", 1, 0, 10000, 1000)
			cs("interval-negative", 1, -1, 10000, 1000)
			cs("interval-1ms-lifetime-0", 1, 1, 0, 0)
			cs("interval-1e300", 2, 1e300, math.MaxUint32, math.MaxUint32)
			cs("interval-NaN", 2, math.NaN(), 0, 0)
		case "DeleteSubscriptionsRequest":
			ds := func(name string, rank int, f func(c *c29Ctx) []uint32) {
				add(svc, name, rank, func(c *c29Ctx) ua.Request { return &ua.DeleteSubscriptionsRequest{SubscriptionIDs: f(c)} })
			}
			ds("own", 1, func(c *c29Ctx) []uint32 { return []uint32{c.ownSub} })
			ds("own-twice", 2, func(c *c29Ctx) []uint32 { return []uint32{c.ownSub, c.ownSub} })
			ds("foreign", 1, func(c *c29Ctx) []uint32 { return []uint32{c.forSub} })
			ds("unknown", 1, func(c *c29Ctx) []uint32 { return []uint32{999999} })
			ds("10000-unknown", 4, func(c *c29Ctx) []uint32 { return c29U32s(c29Big, 1000000) })
		case "CreateMonitoredItemsRequest":
			cm := func(name string, rank int, sub func(c *c29Ctx) uint32, f func(c *c29Ctx) []*ua.MonitoredItemCreateRequest) {
				add(svc, name, rank, func(c *c29Ctx) ua.Request {
					return &ua.CreateMonitoredItemsRequest{SubscriptionID: sub(c), TimestampsToReturn: ua.TimestampsToReturnBoth, ItemsToCreate: f(c)}
				})
			}
			own := func(c *c29Ctx) uint32 { return c.ownSub }
			tgt := func(c *c29Ctx) []*ua.MonitoredItemCreateRequest {
				return []*ua.MonitoredItemCreateRequest{c29MonItem(c.target)}
			}
			cm("own-sub-target", 1, own, tgt)
			cm("foreign-sub-target", 1, func(c *c29Ctx) uint32 { return c.forSub }, tgt)
			cm("unknown-sub-target", 1, func(c *c29Ctx) uint32 { return 999999 }, tgt)
			cm("own-sub-no-items", 1, own, func(c *c29Ctx) []*ua.MonitoredItemCreateRequest { return nil })
			cm("own-sub-unknown-node", 1, own, func(c *c29Ctx) []*ua.MonitoredItemCreateRequest {
				return []*ua.MonitoredItemCreateRequest{c29MonItem(unknownNode)}
			})
			cm("own-sub-namespace-out-of-range", 1, own, func(c *c29Ctx) []*ua.MonitoredItemCreateRequest {
				return []*ua.MonitoredItemCreateRequest{c29MonItem(farNS)}
			})
			cm("own-sub-nil-item-to-monitor", 3, own, func(c *c29Ctx) []*ua.MonitoredItemCreateRequest {
				m := c29MonItem(c.target)
				m.ItemToMonitor = nil
				return []*ua.MonitoredItemCreateRequest{m}
			})
			cm("own-sub-nil-requested-parameters", 3, own, func(c *c29Ctx) []*ua.MonitoredItemCreateRequest {
				m := c29MonItem(c.target)
				m.RequestedParameters = nil
				return []*ua.MonitoredItemCreateRequest{m}
			})
			cm("own-sub-nil-nodeid", 3, own, func(c *c29Ctx) []*ua.MonitoredItemCreateRequest {
				m := c29MonItem(nil)
				return []*ua.MonitoredItemCreateRequest{m}
			})
			cm("own-sub-nil-element", 3, own, func(c *c29Ctx) []*ua.MonitoredItemCreateRequest { return []*ua.MonitoredItemCreateRequest{nil} })
			cm("own-sub-10000-items", 4, own, func(c *c29Ctx) []*ua.MonitoredItemCreateRequest {
				var out []*ua.MonitoredItemCreateRequest
				for i := 0; i < c29Big; i++ {
					out = append(out, c29MonItem(c.target))
				}
				return out
			})
		case "DeleteMonitoredItemsRequest", "SetMonitoringModeRequest":
			mk := func(c *c29Ctx, sub uint32, ids []uint32, mode ua.MonitoringMode) ua.Request {
				if svc == "DeleteMonitoredItemsRequest" {
					return &ua.DeleteMonitoredItemsRequest{SubscriptionID: sub, MonitoredItemIDs: ids}
				}
				return &ua.SetMonitoringModeRequest{SubscriptionID: sub, MonitoringMode: mode, MonitoredItemIDs: ids}
			}
			add(svc, "own", 1, func(c *c29Ctx) ua.Request { return mk(c, c.ownSub, []uint32{c.ownItem}, ua.MonitoringModeReporting) })
			add(svc, "own-twice", 2, func(c *c29Ctx) ua.Request {
				return mk(c, c.ownSub, []uint32{c.ownItem, c.ownItem}, ua.MonitoringModeReporting)
			})
			add(svc, "foreign", 1, func(c *c29Ctx) ua.Request { return mk(c, c.forSub, []uint32{c.forItem}, ua.MonitoringModeReporting) })
			add(svc, "unknown", 1, func(c *c29Ctx) ua.Request { return mk(c, c.ownSub, []uint32{999999}, ua.MonitoringModeReporting) })
			add(svc, "own-mode-99", 2, func(c *c29Ctx) ua.Request { return mk(c, c.ownSub, []uint32{c.ownItem}, 99) })
			add(svc, "10000-unknown", 4, func(c *c29Ctx) ua.Request {
				return mk(c, c.ownSub, c29U32s(c29Big, 1000000), ua.MonitoringModeReporting)
			})
		case "PublishRequest":
			add(svc, "ack-unknown", 1, func(c *c29Ctx) ua.Request {
				return &ua.PublishRequest{SubscriptionAcknowledgements: []*ua.SubscriptionAcknowledgement{{SubscriptionID: 999999, SequenceNumber: 1}}}
			})
			add(svc, "10000-acks", 4, func(c *c29Ctx) ua.Request {
				r := &ua.PublishRequest{}
				for i := 0; i < c29Big; i++ {
					r.SubscriptionAcknowledgements = append(r.SubscriptionAcknowledgements, &ua.SubscriptionAcknowledgement{SubscriptionID: c.ownSub, SequenceNumber: uint32(i)})
				}
				return r
			})
		case "CloseSessionRequest":
			add(svc, "delete-subscriptions", 1, func(c *c29Ctx) ua.Request { return &ua.CloseSessionRequest{DeleteSubscriptions: true} })
		case "CreateSessionRequest":
			csr := func(c *c29Ctx) *ua.CreateSessionRequest {
				return &ua.CreateSessionRequest{
					ClientDescription: &ua.ApplicationDescription{ApplicationURI: "urn:verif", ApplicationName: ua.NewLocalizedText("verif"), ApplicationType: ua.ApplicationTypeClient},
					EndpointURL:       c.url, SessionName: "x", ClientNonce: make([]byte, 32), RequestedSessionTimeout: 3600000,
				}
			}
			add(svc, "normal", 1, func(c *c29Ctx) ua.Request { return csr(c) })
			add(svc, "timeout-NaN-nonce-10000", 2, func(c *c29Ctx) ua.Request {
				r := csr(c)
				r.RequestedSessionTimeout, r.ClientNonce = math.NaN(), make([]byte, c29Big)
				return r
			})
			add(svc, "garbage-certificate", 2, func(c *c29Ctx) ua.Request {
				r := csr(c)
				r.ClientCertificate = []byte{0x30, 0x82, 0xff, 0xff, 1, 2, 3}
				return r
			})
		case "ActivateSessionRequest":
			asr := func() *ua.ActivateSessionRequest {
				return &ua.ActivateSessionRequest{ClientSignature: &ua.SignatureData{}, UserIdentityToken: ua.NewExtensionObject(&ua.AnonymousIdentityToken{PolicyID: "anonymous_none"}), UserTokenSignature: &ua.SignatureData{}}
			}
			add(svc, "normal", 1, func(c *c29Ctx) ua.Request { return asr() })
			add(svc, "nil-client-signature", 3, func(c *c29Ctx) ua.Request { r := asr(); r.ClientSignature = nil; return r })
			add(svc, "nil-identity-token", 3, func(c *c29Ctx) ua.Request { r := asr(); r.UserIdentityToken = nil; return r })
		case "GetEndpointsRequest":
			add(svc, "own-url", 1, func(c *c29Ctx) ua.Request { return &ua.GetEndpointsRequest{EndpointURL: c.url} })
			add(svc, "url-10000-chars", 4, func(c *c29Ctx) ua.Request { return &ua.GetEndpointsRequest{EndpointURL: strings.Repeat("x", c29Big)} })
		}
	}
	// Burst steps: a cheap request sent c29Burst times back to back on one connection without waiting for the
	// answers (a pipelining client), then the usual sentinel and canary. Appended after all single-request
	// variants so that the variant indices of those stay what they were.
	have := map[string]bool{}
	for _, tid := range ids {
		have[typeName(newRequestOfType(tid))] = true
	}
	burst := func(svc, name string, rank int, b func(c *c29Ctx) ua.Request) {
		if have[svc] {
			vs = append(vs, c29Variant{Svc: svc, Name: fmt.Sprintf("burst%d-%s", c29Burst, name), Rank: rank, Burst: c29Burst, build: b})
		}
	}
	burst("PublishRequest", "no-acks", 2, func(c *c29Ctx) ua.Request { return &ua.PublishRequest{} })
	burst("ReadRequest", "target-value", 3, func(c *c29Ctx) ua.Request {
		return &ua.ReadRequest{TimestampsToReturn: ua.TimestampsToReturnBoth, NodesToRead: []*ua.ReadValueID{c29RVID(c.target, ua.AttributeIDValue)}}
	})
	burst("WriteRequest", "target-value", 3, func(c *c29Ctx) ua.Request {
		return &ua.WriteRequest{NodesToWrite: []*ua.WriteValue{{NodeID: c.target, AttributeID: ua.AttributeIDValue, Value: c29DV(int32(5))}}}
	})
	burst("CreateSubscriptionRequest", "interval-1h", 3, func(c *c29Ctx) ua.Request {
		return &ua.CreateSubscriptionRequest{RequestedPublishingInterval: 3600000, RequestedLifetimeCount: 10000, RequestedMaxKeepAliveCount: 1000, PublishingEnabled: true}
	})
	burst("CreateMonitoredItemsRequest", "own-sub-target", 3, func(c *c29Ctx) ua.Request {
		return &ua.CreateMonitoredItemsRequest{SubscriptionID: c.ownSub, TimestampsToReturn: ua.TimestampsToReturnBoth, ItemsToCreate: []*ua.MonitoredItemCreateRequest{c29MonItem(c.target)}}
	})
	return vs
}

// ---------------------------------------------------------------- jobs

type c29Step struct {
	V    int    `json:"v"`    // variant index
	Tok  string `json:"tok"`  // valid | null | unknown | foreign
	Conn int    `json:"conn"` // 0 | 1
}

type c29Job struct {
	ID    int       `json:"id"`
	Steps []c29Step `json:"steps"`
}

type c29Reply struct {
	Steps     []string `json:"steps"` // per step: answered | dropped | conn-dead | not-sent:<why> | stalled
	Hang      string   `json:"hang,omitempty"`
	HangWhere string   `json:"hang_where,omitempty"`
	EngineErr string   `json:"engine_err,omitempty"`
	Neutral   []bool   `json:"neutral"`        // per step: the canonical server state after the step equals the state before it
	Busy      string   `json:"busy,omitempty"` // the server was still working on a step when the watchdog expired
	Exit      bool     `json:"exit,omitempty"` // the worker abandons its server after this reply (unusable)
}

// ---------------------------------------------------------------- worker

type c29Conn struct {
	conn    *uacp.Conn
	sc      *uasc.SecureChannel
	local   string
	tok     *ua.NodeID
	sub     uint32
	item    uint32
	dropped bool
	tainted bool // a Publish request was sent in the last history: the session's publish queue may not be empty
}

type c29World struct {
	srv      *server.Server
	url      string
	ns       *server.NodeNameSpace
	target   *ua.NodeID
	folder   *ua.NodeID
	canary   *opcua.Client
	variants []c29Variant
	jobs     int
	conns    [2]*c29Conn // kept between histories while their channel and session are intact
}

func newC29World() (*c29World, error) {
	w := &c29World{}
	s, url, err := startServer(noneOpts(), func(s *server.Server) {
		w.ns = server.NewNodeNameSpace(s, "urn:verif:c29")
	})
	if err != nil {
		return nil, err
	}
	w.srv, w.url = s, url
	w.target = ua.NewStringNodeID(w.ns.ID(), "target")
	w.folder = ua.NewStringNodeID(w.ns.ID(), "folder")
	w.freshNodes()
	w.variants = c29Variants(s.VerifHandlerIDs())
	if w.canary, err = connectClientT(url, c29Watch); err != nil {
		return nil, fmt.Errorf("canary: %v", err)
	}
	return w, nil
}

// freshNodes (re)creates the two nodes histories may tamper with.
func (w *c29World) freshNodes() {
	rt := ua.NewNumericNodeID(0, id.HasComponent)
	w.ns.AddNode(server.NewNode(w.folder, map[ua.AttributeID]*ua.DataValue{
		ua.AttributeIDNodeClass:  server.DataValueFromValue(uint32(ua.NodeClassObject)),
		ua.AttributeIDBrowseName: server.DataValueFromValue(attrs.BrowseName("folder")),
	}, []*ua.ReferenceDescription{rd(rt, true, w.target, "target", ua.NodeClassVariable)}, nil))
	w.ns.AddNode(server.NewNode(w.target, map[ua.AttributeID]*ua.DataValue{
		ua.AttributeIDNodeClass:  server.DataValueFromValue(uint32(ua.NodeClassVariable)),
		ua.AttributeIDBrowseName: server.DataValueFromValue(attrs.BrowseName("target")),
	}, []*ua.ReferenceDescription{rd(rt, false, w.folder, "folder", ua.NodeClassObject)}, func() *ua.DataValue { return server.DataValueFromValue(int32(1)) }))
}

func (w *c29World) hasChannel(local string) bool {
	for _, sc := range w.srv.VerifChannels() {
		if sc.RemoteAddr().String() == local {
			return true
		}
	}
	return false
}

func (w *c29World) openConn() (*c29Conn, error) {
	ctx, cancel := context.WithTimeout(context.Background(), watchdog)
	defer cancel()
	conn, err := uacp.Dial(ctx, w.url)
	if err != nil {
		return nil, err
	}
	cfg := &uasc.Config{SecurityPolicyURI: ua.SecurityPolicyURINone, SecurityMode: ua.MessageSecurityModeNone, Lifetime: 3600000, RequestTimeout: watchdog}
	sc, err := uasc.NewSecureChannel(w.url, conn, cfg, make(chan error, 64))
	if err != nil {
		conn.Close()
		return nil, err
	}
	if err := sc.Open(ctx); err != nil {
		conn.Close()
		return nil, err
	}
	c := &c29Conn{conn: conn, sc: sc, local: conn.LocalAddr().String()}
	rc := &rawChan{conn: conn, sc: sc}
	if c.tok, err = rc.createSession(w.url); err != nil {
		return nil, fmt.Errorf("create session: %v", err)
	}
	if err = rc.activateSession(c.tok); err != nil {
		return nil, fmt.Errorf("activate session: %v", err)
	}
	return c, w.equip(c)
}

// equip gives the connection's session its initial subscription and monitored item.
func (w *c29World) equip(c *c29Conn) error {
	rc := &rawChan{conn: c.conn, sc: c.sc}
	resp, err := rc.send(c32Request(c32Op{K: "CS"}, 0, 0), c.tok)
	if err != nil {
		return fmt.Errorf("initial subscription: %v", err)
	}
	c.sub = resp.(*ua.CreateSubscriptionResponse).SubscriptionID
	resp, err = rc.send(&ua.CreateMonitoredItemsRequest{SubscriptionID: c.sub, TimestampsToReturn: ua.TimestampsToReturnBoth, ItemsToCreate: []*ua.MonitoredItemCreateRequest{c29MonItem(w.target)}}, c.tok)
	if err != nil {
		return fmt.Errorf("initial item: %v", err)
	}
	c.item = resp.(*ua.CreateMonitoredItemsResponse).Results[0].MonitoredItemID
	return nil
}

// reusable: the connection's channel is still registered and its session still exists.
func (w *c29World) reusable(c *c29Conn) bool {
	if c == nil || c.dropped || c.tainted || !w.hasChannel(c.local) {
		return false
	}
	for _, t := range w.srv.VerifSessionTokens() {
		if t == c.tok.String() {
			return true
		}
	}
	return false
}

// cleanup removes what a history left behind (same reset as C32).
func (w *c29World) cleanup(conns []*c29Conn) error {
	for i, c := range conns {
		if c == nil {
			continue
		}
		if w.reusable(c) {
			w.conns[i] = c
			continue
		}
		w.conns[i] = nil
		c.sc.Close()
		c.conn.Close()
	}
	ss := w.srv.SubscriptionService
	ss.Mu.Lock()
	var ids []uint32
	for id := range ss.Subs {
		ids = append(ids, id)
	}
	ss.Mu.Unlock()
	for _, id := range ids {
		ss.DeleteSubscription(id)
	}
	ms := w.srv.MonitoredItemService
	ms.Mu.Lock()
	var its []uint32
	for id := range ms.Items {
		its = append(its, id)
	}
	ms.Mu.Unlock()
	for _, id := range its {
		ms.DeleteMonitoredItem(id)
	}
	w.freshNodes()
	if ok, why := waitQuiescent(); !ok {
		return fmt.Errorf("server not quiescent after cleanup: %s", why)
	}
	return nil
}

func (w *c29World) canaryRead() error {
	ctx, cancel := context.WithTimeout(context.Background(), c29Watch)
	defer cancel()
	resp, err := w.canary.Read(ctx, &ua.ReadRequest{NodesToRead: []*ua.ReadValueID{{NodeID: ua.NewNumericNodeID(0, id.Server_ServerStatus_State), AttributeID: ua.AttributeIDValue}}, TimestampsToReturn: ua.TimestampsToReturnBoth})
	if err != nil {
		return err
	}
	if len(resp.Results) != 1 {
		return fmt.Errorf("canary read answered %d results", len(resp.Results))
	}
	// two requests that take the subscription and the monitored item service locks without changing anything:
	// a server whose services are wedged behind a lock does not serve other clients either
	for _, req := range []ua.Request{&ua.DeleteSubscriptionsRequest{SubscriptionIDs: []uint32{}}, &ua.SetMonitoringModeRequest{MonitoredItemIDs: []uint32{}}} {
		err := w.canary.Send(ctx, req, func(ua.Response) error { return nil })
		if _, isStatus := err.(ua.StatusCode); err != nil && !(isStatus && err != ua.StatusBadTimeout) {
			return fmt.Errorf("canary %T: %v", req, err)
		}
	}
	return nil
}

// dispatcherWhere reports the innermost in-repo frame of the server's dispatcher goroutine.
func dispatcherWhere() string {
	buf := make([]byte, 1<<20)
	buf = buf[:runtime.Stack(buf, true)]
	for _, g := range strings.Split(string(buf), "\n\n") {
		if !strings.Contains(g, "server.(*Server).monitorConnections") {
			continue
		}
		for _, l := range strings.Split(g, "\n") {
			l = strings.TrimSpace(l)
			if strings.HasPrefix(l, "github.com/gopcua/opcua") && strings.Contains(l, "(") {
				f := strings.TrimPrefix(l[:strings.LastIndex(l, "(")], "github.com/gopcua/opcua/")
				return f
			}
		}
	}
	return "?"
}

// state is the canonical server state used for the reduction "a step that leaves
// the state unchanged cannot enable anything": subscriptions (id, owner,
// parameters, queued publish requests), monitored items (rank, subscription,
// mode), session tokens, attributes and value of the two nodes the alphabet can
// write to. (The set of open channels is left out on purpose: a connection the
// server dropped only matters to the client that lost it.)
func (w *c29World) state() string {
	var b strings.Builder
	ss := w.srv.SubscriptionService
	ss.Mu.Lock()
	var subs []string
	for id, sub := range ss.Subs {
		subs = append(subs, fmt.Sprintf("sub%d@%s/%v/%d/%d/q%d", id, sub.VerifSubOwner(), sub.RevisedPublishingInterval, sub.RevisedLifetimeCount, sub.RevisedMaxKeepAliveCount, sub.VerifPendingPublish()))
	}
	ss.Mu.Unlock()
	sort.Strings(subs)
	ms := w.srv.MonitoredItemService
	ms.Mu.Lock()
	ids := make([]uint32, 0, len(ms.Items))
	for id := range ms.Items {
		ids = append(ids, id)
	}
	sort.Slice(ids, func(i, j int) bool { return ids[i] < ids[j] })
	var items []string
	for rank, id := range ids {
		it := ms.Items[id]
		sid := uint32(0)
		if it.Sub != nil {
			sid = it.Sub.ID
		}
		node := ""
		if it.Req != nil && it.Req.ItemToMonitor != nil {
			node = it.Req.ItemToMonitor.NodeID.String()
		}
		items = append(items, fmt.Sprintf("#%d:sub%d/m%d/%s", rank, sid, it.Mode, node))
	}
	nn, nsb := len(ms.Nodes), len(ms.Subs)
	ms.Mu.Unlock()
	fmt.Fprintf(&b, "subs=%v items=%v bynode=%d bysub=%d sessions=%v", subs, items, nn, nsb, w.srv.VerifSessionTokens())
	for _, nid := range []*ua.NodeID{w.target, w.folder} {
		n := w.ns.Node(nid)
		if n == nil {
			b.WriteString(" node=nil")
			continue
		}
		at := n.VerifAttrs()
		keys := make([]int, 0, len(at))
		for k := range at {
			keys = append(keys, int(k))
		}
		sort.Ints(keys)
		for _, k := range keys {
			fmt.Fprintf(&b, " a%d=%s", k, dvString(at[ua.AttributeID(k)]))
		}
		func() {
			defer func() { recover() }()
			fmt.Fprintf(&b, " v=%s", dvString(n.Value()))
		}()
	}
	return b.String()
}

func dvString(dv *ua.DataValue) string {
	if dv == nil {
		return "nil"
	}
	if dv.Value == nil {
		return "novariant"
	}
	return fmt.Sprintf("%T:%v", dv.Value.Value(), dv.Value.Value())
}

// subsSettled: every subscription has started its ticker; subscriptions created
// with the 1 ms / lifetime 0 parameters have expired.
func (w *c29World) subsSettled() bool {
	ss := w.srv.SubscriptionService
	ss.Mu.Lock()
	defer ss.Mu.Unlock()
	for _, sub := range ss.Subs {
		if sub.T == nil {
			return false
		}
		if sub.RevisedPublishingInterval == 1 && sub.RevisedLifetimeCount == 0 {
			return false
		}
	}
	return true
}

func (w *c29World) run(j c29Job) (rep c29Reply) {
	conns := make([]*c29Conn, 2)
	for i := range conns {
		var err error
		c := w.conns[i]
		w.conns[i] = nil
		if c != nil {
			err = w.equip(c) // the previous history's cleanup removed every subscription and item
		} else {
			c, err = w.openConn()
		}
		if err != nil {
			rep.EngineErr = fmt.Sprintf("opening connection %d: %v", i, err)
			rep.Exit = true
			return
		}
		conns[i] = c
	}
	defer func() {
		if rep.Hang != "" || rep.EngineErr != "" || rep.Busy != "" {
			rep.Exit = true
			return
		}
		done := make(chan error, 1)
		go func() { done <- w.cleanup(conns) }()
		select {
		case err := <-done:
			if err != nil {
				rep.Busy = "cleanup: " + err.Error()
				rep.Exit = true
			}
		case <-time.After(c29Watch):
			rep.Busy = "cleanup did not finish"
			rep.Exit = true
		}
	}()
	before := w.state()
	for si, st := range j.Steps {
		hostProgress(fmt.Sprint(si))
		c, o := conns[st.Conn], conns[1-st.Conn]
		if c.dropped {
			rep.Steps = append(rep.Steps, "conn-dead")
			rep.Neutral = append(rep.Neutral, true)
			continue
		}
		v := w.variants[st.V]
		ctx := &c29Ctx{target: w.target, folder: w.folder, ownSub: c.sub, ownItem: c.item, forSub: o.sub, forItem: o.item, url: w.url}
		if v.Svc == "PublishRequest" {
			// queued publish requests outlive the history's cleanup inside the session objects: these sessions
			// are not reused, so every history starts with empty publish queues
			c.tainted, o.tainted = true, true
		}
		var tok *ua.NodeID
		switch st.Tok {
		case "valid":
			tok = c.tok
		case "unknown":
			tok = ua.NewNumericNodeID(0, 0x7ffffff1)
		case "foreign":
			tok = o.tok
			// a request with the other connection's token may re-bind that session to this channel
			// (ActivateSession) or close it: neither session is reused by later histories
			c.tainted, o.tainted = true, true
		}
		err := func() (err error) {
			// the gopcua encoder panics on some nil members: that is the client's problem, not the server's
			defer func() {
				if p := recover(); p != nil {
					err = fmt.Errorf("client-side encoder panic in %s", panicSite())
				}
			}()
			sctx, cancel := context.WithTimeout(context.Background(), c29Watch)
			defer cancel()
			n := 1
			if v.Burst > 1 {
				n = v.Burst
			}
			for k := 0; k < n; k++ {
				// do not wait for the answer: the sentinel is the barrier
				if err := c.sc.SendRequestWithTimeout(sctx, v.build(ctx), tok, c29Watch, nil); err != nil {
					return err
				}
			}
			return nil
		}()
		if err != nil {
			rep.Steps = append(rep.Steps, "not-sent:"+c30Norm(err.Error()))
			rep.Neutral = append(rep.Neutral, true)
			continue
		}
		// sentinel on the same connection
		done := make(chan error, 1)
		go func() {
			sctx, cancel := context.WithTimeout(context.Background(), c29Watch+5*time.Second)
			defer cancel()
			done <- c.sc.SendRequestWithTimeout(sctx, &ua.ReadRequest{TimestampsToReturn: ua.TimestampsToReturnBoth, NodesToRead: []*ua.ReadValueID{c29RVID(ua.NewNumericNodeID(0, id.Server_ServerStatus_State), ua.AttributeIDValue)}}, c.tok, c29Watch, func(ua.Response) error { return nil })
		}()
		outcome := ""
		deadline := time.Now().Add(c29Watch + 10*time.Second)
		for outcome == "" {
			select {
			case err := <-done:
				if err == nil {
					outcome = "answered"
				} else if _, isStatus := err.(ua.StatusCode); isStatus && err != ua.StatusBadTimeout {
					outcome = "answered" // a Bad service result is an answer too
				} else if !w.hasChannel(c.local) {
					outcome = "dropped"
				} else {
					outcome = "stalled"
				}
			default:
				if !w.hasChannel(c.local) {
					// the server gave up on this connection without closing the socket
					outcome = "dropped"
					c.conn.Close()
				} else if time.Now().After(deadline) {
					outcome = "stalled"
				} else {
					time.Sleep(200 * time.Microsecond)
				}
			}
		}
		if outcome != "answered" {
			c.dropped = true
		}
		rep.Steps = append(rep.Steps, outcome)
		// The sentinel was not answered within the watchdog. If no goroutine of the server can make progress by
		// itself (each is parked waiting for input or blocked on a channel send / lock, at least one is
		// blocked), there is no backlog that could still drain: the server is wedged, not busy, and the
		// canary decides right away whether other clients are still served.
		wedged, wedgedWhy := false, ""
		if outcome == "stalled" {
			wedged, wedgedWhy = serverWedged()
		}
		ok, why := false, wedgedWhy
		if !wedged {
			// settle: background goroutines of the step, tickers of new subscriptions
			dl := time.Now().Add(c29Watch)
			for !w.subsSettled() && time.Now().Before(dl) {
				time.Sleep(200 * time.Microsecond)
			}
			ok, why = waitQuiescent()
			for tries := 0; !ok && tries < 2; tries++ { // waitQuiescent waits one watchdog; allow c29Watch in total
				ok, why = waitQuiescent()
			}
			if !ok {
				wedged, wedgedWhy = serverWedged()
			}
		}
		if !ok || !w.subsSettled() || outcome == "stalled" {
			rep.Steps[len(rep.Steps)-1] += "+not-quiescent"
			if wedged {
				if err := w.canaryRead(); err != nil {
					rep.Hang = fmt.Sprintf("no server goroutine can make progress after step %d (%s; sentinel %s) and the canary read is not answered: %v", si, wedgedWhy, outcome, err)
					rep.HangWhere = dispatcherWhere()
					return
				}
			}
			// still working on the step after the watchdog: not a verdict (the canary decides about hangs), but
			// this server cannot be reused deterministically
			rep.Busy = "server still busy " + c29Watch.String() + " after the step (sentinel " + outcome + "): " + why
			// While server goroutines are running, the canary's verdict would depend on how fast the backlog
			// drains (machine load), so it is not taken: a hang is only called when the server is quiescent
			// or wedged and still does not answer.
			return
		}
		after := w.state()
		rep.Neutral = append(rep.Neutral, after == before)
		before = after
		// other clients must still be served
		if err := w.canaryRead(); err != nil {
			rep.Hang = fmt.Sprintf("canary read after step %d not answered: %v", si, err)
			rep.HangWhere = dispatcherWhere()
			return
		}
	}
	return rep
}

func c29Host() {
	debug.SetGCPercent(400)
	var w *c29World
	hostLoop(func(job []byte) any {
		var j c29Job
		if err := json.Unmarshal(job, &j); err != nil {
			return c29Reply{EngineErr: err.Error(), Exit: true}
		}
		if w != nil && w.jobs >= 1500 {
			// bound what accumulates in a long-lived server (sessions, replaced nodes, orphaned goroutines)
			w.canary.Close(context.Background())
			w.srv.Close()
			w = nil
		}
		if w == nil {
			var err error
			if w, err = newC29World(); err != nil {
				return c29Reply{EngineErr: err.Error(), Exit: true}
			}
		}
		w.jobs++
		rep := w.run(j)
		if rep.Exit {
			// the server of this worker is unusable (hang, failed cleanup): abandon it, the next job gets a new one
			w = nil
		}
		return rep
	})
}

// ---------------------------------------------------------------- parent

type c29Op struct {
	V   int
	Tok string
}

func c29() {
	r := evid.New("C29")
	var rj c29Job
	if evid.ReplayInput(&rj) {
		p := newPool("c29", 1, nil)
		b, _ := json.Marshal(rj)
		res := p.run("C29", [][]byte{b}, 5*time.Minute, nil)
		p.close()
		vs := c29AlphabetNames()
		for i, s := range rj.Steps {
			fmt.Printf("step %d: %s token=%s connection=%d\n", i, vs[s.V], s.Tok, s.Conn)
		}
		if res[0].Death != nil {
			fmt.Printf("the server process died during step %s\n%s\n", res[0].Progress, deathDetail(res[0].Death))
			os.Exit(1)
		}
		fmt.Printf("result: %s\n", res[0].Out)
		var rep c29Reply
		json.Unmarshal(res[0].Out, &rep)
		if rep.Hang != "" {
			os.Exit(1)
		}
		return
	}
	thorough := evid.Thorough()
	// quick: a fixed amount of work (all single-step histories + the quickL2 simplest two-step histories), so that
	// the evidence does not depend on the speed of the machine; the time budget is only a safety net there
	budget := 10 * time.Minute
	const quickL2 = 600
	if b := envInt("VERIF_C29_BUDGET", 0); b > 0 {
		budget = time.Duration(b) * time.Second
	}
	start := time.Now()
	timeUp := func() bool { return time.Since(start) > budget }

	names := c29AlphabetNames()
	variants := c29Variants(c29HandlerIDs())
	toks := []string{"valid", "null"}
	if thorough {
		toks = append(toks, "unknown", "foreign")
	}
	var ops []c29Op
	for vi := range variants {
		for _, t := range toks {
			ops = append(ops, c29Op{vi, t})
		}
	}
	// simplest first: by variant rank, then token mode, then alphabet order
	tokRank := map[string]int{"valid": 0, "null": 1, "unknown": 2, "foreign": 3}
	sort.SliceStable(ops, func(i, j int) bool {
		a, b := ops[i], ops[j]
		if variants[a.V].Rank != variants[b.V].Rank {
			return variants[a.V].Rank < variants[b.V].Rank
		}
		return tokRank[a.Tok] < tokRank[b.Tok]
	})
	p := newPool("c29", evid.Workers(), nil)
	defer p.close()
	// a worker whose server is hung, stalled or could not be cleaned up must not run further histories:
	// whatever that server does later would be blamed on them
	p.retire = func(out []byte) bool {
		var rep c29Reply
		return json.Unmarshal(out, &rep) == nil && rep.Exit
	}

	busy := map[string]string{}
	bad := map[c29Op]bool{} // operations that kill or hang the server on their own
	levelOne := false
	jobID := 0
	var histories, deaths, hangs int64
	outcomes := map[string]int{}

	// extendable[i]: history i survived, the server was quiescent afterwards, and its last step changed the state
	var extendable []bool
	runLevel := func(level int, hist [][]c29Step) (skipped int) {
		extendable = make([]bool, len(hist))
		jobs := make([][]byte, len(hist))
		for i, h := range hist {
			jobID++
			jobs[i], _ = json.Marshal(c29Job{ID: jobID, Steps: h})
		}
		stop := timeUp
		if levelOne {
			stop = nil // the single-step histories are always run completely: the pruning of longer ones depends on them
		}
		results := p.run("C29", jobs, 4*time.Minute, stop)
		for i, jr := range results {
			h := hist[i]
			if jr.Out == nil && jr.Death == nil {
				skipped++
				continue
			}
			histories++
			key := ""
			if len(h) > 1 {
				key = fmt.Sprint(h)
			} else {
				key = fmt.Sprint("single", h)
			}
			r.Eval(key)
			desc := c29Describe(h, names)
			replay := c29Job{ID: 0, Steps: h}
			if jr.Death != nil {
				deaths++
				step := 0
				fmt.Sscanf(jr.Progress, "%d", &step)
				if step >= len(h) {
					step = len(h) - 1
				}
				if jr.Death.Headline == "" {
					evid.EngineError("C29", "worker failed without a Go panic during [%s]: %s", desc, deathDetail(jr.Death))
				}
				kind := "crash"
				if strings.HasPrefix(jr.Death.Headline, "hang:") {
					kind = "worker-hang"
				}
				r.Outcome(kind)
				if level == 1 {
					bad[c29Op{h[0].V, h[0].Tok}] = true
				}
				r.Violate(c29Sig(kind, h, step, variants, jr.Death.Func), fmt.Sprintf("history [%s]: the server process died during step %d\n%s", desc, step, deathDetail(jr.Death)), replay)
				continue
			}
			var rep c29Reply
			if err := json.Unmarshal(jr.Out, &rep); err != nil {
				evid.EngineError("C29", "bad worker reply: %v: %.300s", err, jr.Out)
			}
			if rep.EngineErr != "" {
				evid.EngineError("C29", "history [%s]: %s", desc, rep.EngineErr)
			}
			for _, s := range rep.Steps {
				if i := strings.IndexByte(s, ':'); i > 0 {
					s = s[:i]
				}
				outcomes[s]++
			}
			if rep.Hang != "" {
				hangs++
				step := len(rep.Steps) - 1
				if step < 0 {
					step = 0
				}
				if level == 1 {
					bad[c29Op{h[0].V, h[0].Tok}] = true
				}
				r.Outcome("hang")
				r.Violate(c29Sig("hang", h, step, variants, rep.HangWhere), fmt.Sprintf("history [%s]: %s; the dispatcher goroutine is in %s", desc, rep.Hang, rep.HangWhere), replay)
				continue
			}
			if rep.Busy != "" {
				r.Outcome("survived, server busy beyond the watchdog (abandoned)")
				r.NotJudged(1)
				busy[desc] = rep.Busy
				if level == 1 {
					bad[c29Op{h[0].V, h[0].Tok}] = true // keeps the server busy beyond the watchdog on its own: not used to extend
				}
				continue
			}
			if n := len(rep.Neutral); n == len(h) && !rep.Neutral[n-1] {
				extendable[i] = true
			}
			r.Outcome("survived")
			if histories%997 == 1 {
				r.Sample(map[string]any{"history": desc, "steps": rep.Steps})
			}
		}
		return skipped
	}

	// level 1
	var l1 [][]c29Step
	for _, o := range ops {
		l1 = append(l1, []c29Step{{V: o.V, Tok: o.Tok, Conn: 0}})
	}
	// level 1 is always run completely, so its order only matters for the wall time: the heaviest
	// requests (10^4-element arrays, which can keep a server busy for a minute) are started first
	sort.SliceStable(l1, func(i, j int) bool { return variants[l1[i][0].V].Rank > variants[l1[j][0].V].Rank })
	levelOne = true
	runLevel(1, l1)
	levelOne = false
	var good []c29Op
	for _, o := range ops {
		// The unknown-token mode is only run as single-step histories: for every handler it is the same
		// situation as the null token (the session lookup returns nil), which is extended.
		if !bad[o] && o.Tok != "unknown" {
			good = append(good, o)
		}
	}
	for i, h := range l1 {
		if h[0].Tok == "unknown" {
			extendable[i] = false
		}
	}
	r.Set("operations", len(ops))
	r.Set("operations_killing_hanging_or_stalling_alone", len(ops)-len(good))
	complete := 1
	// longer histories: only operations that survive on their own are appended, and only to histories whose
	// last step changed the canonical server state (otherwise h+o behaves like h without its last step + o,
	// which is a shorter history that was already run)
	maxLen := 2
	if thorough {
		maxLen = 3
	}
	maxLen = envInt("VERIF_C29_MAXLEN", maxLen)
	pos := map[c29Op]int{}
	for i, o := range good {
		pos[o] = i
	}
	prev := l1
	var reduced int64
	for l := 2; l <= maxLen; l++ {
		type cand struct {
			h    []c29Step
			cost int
		}
		var cands []cand
		nExt := 0
		for i, h := range prev {
			if !extendable[i] {
				continue
			}
			nExt++
			base := 0
			for _, s := range h {
				base += pos[c29Op{s.V, s.Tok}]
			}
			for _, o := range good {
				for conn := 0; conn < 2; conn++ {
					nh := append(append([]c29Step{}, h...), c29Step{V: o.V, Tok: o.Tok, Conn: conn})
					cands = append(cands, cand{nh, base + pos[o]})
				}
			}
		}
		reduced += int64(len(prev)-nExt) * int64(len(good)) * 2
		r.Set(fmt.Sprintf("length_%d_prefixes_extended", l-1), nExt)
		// simplest first: order by the sum of the positions in the (already sorted) operation list
		sort.SliceStable(cands, func(i, j int) bool { return cands[i].cost < cands[j].cost })
		hist := make([][]c29Step, len(cands))
		for i, c := range cands {
			hist[i] = c.h
		}
		if timeUp() {
			r.Capped(fmt.Sprintf("time budget reached before length %d: none of its %d histories was run; all histories of length <= %d were run (modulo the state-neutral reduction)", l, len(hist), complete))
			break
		}
		if !thorough && l == 2 && len(hist) > quickL2 {
			all := len(hist)
			hist = hist[:quickL2]
			if sk := runLevel(l, hist); sk > 0 {
				r.Capped(fmt.Sprintf("length-2 histories: %d of the quick tier's %d run before the safety time budget", quickL2-sk, quickL2))
			}
			r.Capped(fmt.Sprintf("quick tier: the %d simplest of %d length-2 histories (a fixed share); all histories of length 1 were run", quickL2, all))
			break
		}
		sk := runLevel(l, hist)
		if sk > 0 {
			r.Capped(fmt.Sprintf("length-%d histories: %d of %d run (simplest first) before the time budget; all histories of length <= %d were run (modulo the state-neutral reduction)", l, len(hist)-sk, len(hist), complete))
			break
		}
		complete = l
		prev = hist
	}
	r.Set("histories_covered_by_state_neutral_reduction", reduced)
	r.AddStates(histories, histories)
	r.Set("variants", len(variants))
	r.Set("token_modes", toks)
	r.Set("histories_run", histories)
	r.Set("complete_to_length", complete)
	r.Set("server_deaths", deaths)
	r.Set("hangs", hangs)
	r.Set("step_outcomes", outcomes)
	if len(busy) > 0 {
		ks := sortedKeys(busy)
		if len(ks) > 40 {
			ks = ks[:40]
		}
		m := map[string]string{}
		for _, k := range ks {
			m[k] = busy[k]
		}
		r.Set("busy_histories_first_40", m)
	}
	r.Set("worker_processes_started", p.Started)
	r.Rule(fmt.Sprintf("histories over %d operations = %d request variants (every registered request type: filled registry instance, raw registry instance, per-service small-domain variants; plus 5 burst steps = Publish / Read / Write / CreateSubscription / CreateMonitoredItems sent 150 times back to back without waiting for answers) x token modes %v, steps on one of two client connections (first step on connection 0); all histories of length 1, then length 2 (thorough: 3) built only from operations that survive alone, simplest first until the time budget; evaluations = histories executed on a real server; non-trivial = every history (each is a distinct request sequence); distinct = the history", len(ops), len(variants), toks))
	r.Assume("a history that kills the server alone is reported once and not extended (its extensions would die the same way)",
		"state-neutral reduction: a history whose last step left the canonical server state (subscriptions with parameters and queued publishes, monitored items, session tokens, attributes and value of the writable nodes) unchanged is not extended, because h+o then behaves like (h without its last step)+o, a shorter history that was run; state outside that canonical state (sequence numbers, nonces, the monotone item counter) is assumed not to influence crashes or hangs", "every connection starts with an activated session owning one subscription (1 h interval) and one monitored item, so own/foreign ids exist from the first step", "sessions that were sent a Publish request are not reused by later histories (their publish queue may hold requests), so every history starts with empty publish queues", "an unanswered sentinel counts as 'busy, not judged' only while some server goroutine is running or runnable; if all of them are parked or blocked (channel send, lock) the canary decides", "the server is reused between histories after deleting all subscriptions and items and re-creating the two nodes histories can tamper with; it is replaced every 1500 histories and after every death or hang")
	r.Finish()
}

func c29Describe(h []c29Step, names []string) string {
	var p []string
	for _, s := range h {
		p = append(p, fmt.Sprintf("%s token=%s conn=%d", names[s.V], s.Tok, s.Conn))
	}
	return strings.Join(p, " ; ")
}

// c29Sig: cell-level signature. The failing step contributes service, variant and
// token mode; an enabling earlier step contributes service and variant.
func c29Sig(kind string, h []c29Step, step int, vs []c29Variant, fn string) string {
	var b strings.Builder
	b.WriteString(kind + "/")
	if step > 0 {
		var pre []string
		for _, s := range h[:step] {
			pre = append(pre, vs[s.V].String())
		}
		b.WriteString("after(" + strings.Join(pre, ",") + ")/")
		b.WriteString(vs[h[step].V].Svc + "/")
	} else {
		b.WriteString(vs[h[step].V].String() + "/token=" + h[step].Tok + "/")
	}
	b.WriteString(fn)
	return b.String()
}

var c29IDs []uint16

func c29HandlerIDs() []uint16 {
	if c29IDs == nil {
		ids, _, err := c35Services()
		if err != nil {
			evid.EngineError("C29", "%v", err)
		}
		c29IDs = ids
	}
	return c29IDs
}

func c29AlphabetNames() []string {
	vs := c29Variants(c29HandlerIDs())
	out := make([]string, len(vs))
	for i, v := range vs {
		out[i] = v.String()
	}
	return out
}
