package main

import (
	"fmt"
	"sort"
	"testing"
)

func TestDbgC33(t *testing.T) {
	quiet()
	w, err := buildC33World()
	if err != nil {
		t.Fatal(err)
	}
	ns := w.nodeSet(false)
	tot := 0
	var sizes []int
	for _, n := range ns {
		tot += len(w.refs[n])
		sizes = append(sizes, len(w.refs[n]))
	}
	sort.Ints(sizes)
	fmt.Println("nodes", len(ns), "total refs", tot, sizes)
	all := 0
	for _, n := range w.nodes {
		all += len(w.refs[n.ID().String()])
	}
	fmt.Println("all nodes", len(w.nodes), "refs", all)
}
