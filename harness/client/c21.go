// C21: client calls never panic on any well-formed server response.
//
// A real client talks over loopback TCP to a real server.Server whose handlers
// are all scripted (c21_server.go). For every client operation and every
// response shape of the grid (c21_cases.go) the operation must return a value
// or an error; nothing may panic. Panics in the calling goroutine are recovered
// and reported with their stack; a panic in a background goroutine of the client
// (publish loop, monitor pump) kills the worker process, which the parent
// attributes to the case the worker had published (evid.Publish) and reads the
// panic text from the worker's stderr. The shard of a dead worker is resumed
// after the fatal case in the next round, so every case is executed.
package main

import (
	"encoding/json"
	"fmt"
	"os"
	"strconv"
	"strings"

	"verif/engine/evid"
)

const c21hangMarker = "VERIF-C21-HANG-EXIT"

// coarseClass reduces the shape class of a case to the dimension that matters
// for a finding: all lengths below n are one class, all Variant shapes are one
// class, all notification payloads are one class, element statuses are dropped. (The full class and script of the first
// failing case are in the detail and the replay value.)
func coarseClass(class string) string {
	var out []string
	for _, p := range strings.Split(class, "/") {
		switch {
		case p == "expected" || p == "hdr=good" || strings.HasPrefix(p, "elems="):
		case p == "len=nil" || p == "len=0" || p == "len=short":
			out = append(out, "len<n")
		case p == "len=exact":
			out = append(out, "len=n")
		case p == "len=long":
			out = append(out, "len>n")
		case strings.HasPrefix(p, "variant="):
			out = append(out, "variant")
		case strings.HasPrefix(p, "payload="):
			out = append(out, "payload")
		case strings.HasPrefix(p, "acks="):
			out = append(out, "acks")
		default:
			out = append(out, p)
		}
	}
	if len(out) == 0 {
		return "well-shaped"
	}
	return strings.Join(out, ",")
}

// c21signature: one finding per (site, failure kind, scripted service, shape
// dimension). The client operation is not part of it: Sub.Monitor and
// Monitor.AddNodes failing at the same frame are the same defect.
func c21signature(c c21case, kind, frame string) string {
	if frame == "-" {
		return fmt.Sprintf("%s/%s/%s/%s", kind, c.Op, strings.TrimSuffix(c.Svc, "Request"), coarseClass(c.Class))
	}
	return fmt.Sprintf("%s/%s/%s/%s", frame, kind, strings.TrimSuffix(c.Svc, "Request"), coarseClass(c.Class))
}

// c21judge turns a result into a violation (or none).
func c21judge(c c21case, res c21result) (sig, detail string) {
	b, _ := json.Marshal(c.Script)
	what := fmt.Sprintf("operation %s, response class %s, scripted %s responses %s", c.Op, c.Class, c.Svc, b)
	switch res.Outcome {
	case "panic":
		kind := "panic:" + panicKind(res.Panic)
		if res.Phase == "close" {
			kind = "close-after/" + kind
		}
		return c21signature(c, kind, topRepoFrame(res.Stack)), what + "\npanic: " + res.Panic + "\n" + res.Stack
	case "hang":
		return c21signature(c, "does-not-return:"+res.Phase, "-"), what + fmt.Sprintf("\nno return within %v in phase %s; client goroutines:\n%s", watchdog, res.Phase, res.Detail)
	}
	return "", ""
}

func runC21() {
	r := evid.New("C21")
	var rc c21case
	if evid.ReplayInput(&rc) {
		quiet()
		if os.Getenv("C21_REPLAY_CHILD") == "" {
			// run the case in a child so that a background panic is shown, not suffered
			fmt.Printf("replay %s / %s / %s\n", rc.Op, rc.Svc, rc.Class)
			code := replayChild()
			os.Exit(code)
		}
		srv := newC21Server()
		res, ee := c21run(srv, rc)
		sig, detail := c21judge(rc, res)
		fmt.Printf("outcome=%s phase=%s err=%q engine-error=%q\nsignature=%q\n%s\n", res.Outcome, res.Phase, res.Err, ee, sig, detail)
		if sig != "" {
			os.Exit(1)
		}
		os.Exit(0)
	}
	cases := c21allCases(evid.Thorough())
	ops := map[string]bool{}
	for _, c := range cases {
		ops[c.Op] = true
	}
	r.Rule(fmt.Sprintf("%d cases = %d client operations x the response grid of each service they use: response type {expected, ServiceFault Bad/Good, each of the other %d registered response types} + expected type x header {Good, Bad} x result length {null, 0, n-1, n, n+1} x every Good/Bad assignment to the elements + Variant {null, absent, each of 25 built-in types as scalar / empty array / array%s} where the operation reads a Variant + service-specific variations (continuation points, ids 0/duplicate, extreme revised values, empty targets) + for the publish loop and both monitor pumps: every service result the loop distinguishes x subscription id {known, unknown, 0}, subscription id x sequence number {next, other, 0} x %d notification payload combinations, data-change values of every Variant shape, acknowledgement result arrays of length {null,0,k-1,k,k+1} for k = 0,1,2 pending acknowledgements; non-trivial = every case (one real request/response exchange with a distinct response), distinct by (operation, complete script)", len(cases), len(ops), len(respTypes)-2, map[bool]string{false: "", true: " / null array / 2x1 matrix, at the first and the last element, with Good and Bad element status"}[evid.Thorough()], len(publishPayloads)))
	r.Assume("responses are produced by encoding Go values with the repository's own encoder on the real server side, so only decodable responses are sent; client and scripted server share a process (a panic on the server side would be attributed by its stack frame)", "completion of background processing is detected from goroutine states that can only be reached after the processing is done (see waitDigest), never from elapsed time")

	const maxRounds = 400
	resume := map[int]int{} // shard -> first case index still to run
	finished := map[int]bool{}
	var fatalClasses []string // (operation, service, coarse class) of cases that killed a worker
	nw := evid.Workers()
	for round := 0; ; round++ {
		spec := []string{}
		for sh := 0; sh < nw; sh++ {
			if finished[sh] {
				spec = append(spec, fmt.Sprintf("%d:done", sh))
			} else {
				spec = append(spec, fmt.Sprintf("%d:%d", sh, resume[sh]))
			}
		}
		if os.Getenv("VERIF_SHARD") == "" { // (a worker re-executes this function up to Sharded and must keep what the parent gave it)
			os.Setenv("C21_RESUME", strings.Join(spec, ","))
			os.Setenv("C21_FATAL", strings.Join(fatalClasses, ";"))
		}
		deaths := evid.Sharded(r, 4<<30, func(s evid.ShardInfo, w *evid.Run) { c21worker(s, w, cases) })
		died := map[int]bool{}
		if len(deaths) > 0 {
			fmt.Fprintf(os.Stderr, "C21: round %d: %d worker processes died (first at case %s); resuming their shards\n", round, len(deaths), deaths[0].LastCase)
		}
		for _, d := range deaths {
			if os.Getenv("C21_DEBUG") != "" {
				fmt.Fprintf(os.Stderr, "C21:   shard %d died at %s (resume spec %s)\n", d.Shard, d.LastCase, os.Getenv("C21_RESUME"))
			}
			died[d.Shard] = true
			idx, err := strconv.Atoi(strings.SplitN(d.LastCase, "|", 2)[0])
			if err != nil || idx < 0 || idx >= len(cases) {
				evid.EngineError("C21", "worker %d died before publishing a case (%s): %s", d.Shard, d.ExitErr, tail(d.Stderr, 1500))
			}
			resume[d.Shard] = idx + 1
			if strings.Contains(d.Stderr, c21hangMarker) {
				continue // the worker recorded the hang itself and left
			}
			c := cases[idx]
			pt := panicText(d.Stderr)
			if fc := fatalClass(c); !strings.Contains(";"+strings.Join(fatalClasses, ";")+";", ";"+fc+";") {
				fatalClasses = append(fatalClasses, fc)
			}
			r.Eval(c.key())
			r.Outcome("process-died")
			b, _ := json.Marshal(c.Script)
			r.Violate(c21signature(c, "background-panic:"+panicKind(pt), topRepoFrame(pt)),
				fmt.Sprintf("operation %s, scripted %s responses %s\nthe worker process died (%s):\n%s", c.Op, c.Svc, b, d.ExitErr, pt), c)
		}
		for sh := 0; sh < nw; sh++ {
			if !died[sh] {
				finished[sh] = true
			}
		}
		if len(deaths) == 0 {
			break
		}
		if round >= maxRounds {
			r.Capped(fmt.Sprintf("more than %d worker deaths in one shard; the remaining cases of unfinished shards were not run", maxRounds))
			break
		}
	}
	if len(fatalClasses) > 0 {
		r.Capped("after a case killed a worker process, the remaining cases of the same (service, response class) were not run (counted as not_judged): " + strings.Join(fatalClasses, "; "))
	}
	r.Set("operations", len(ops))
	r.Set("response_types", len(respTypes))
	r.Finish()
}

// fatalClass: cases of the same scripted service and shape class as a case that killed a
// worker are not run again (whatever the operation: the signature has no operation either).
func fatalClass(c c21case) string { return c.Svc + "|" + coarseClass(c.Class) }

func tail(s string, n int) string {
	if len(s) > n {
		return s[len(s)-n:]
	}
	return s
}

func c21worker(s evid.ShardInfo, w *evid.Run, cases []c21case) {
	quiet()
	start := -1
	for _, f := range strings.Split(os.Getenv("C21_RESUME"), ",") {
		p := strings.SplitN(f, ":", 2)
		if len(p) == 2 && p[0] == strconv.Itoa(s.Index) && p[1] != "done" {
			start, _ = strconv.Atoi(p[1])
		}
	}
	if start < 0 {
		return
	}
	fatal := map[string]bool{}
	for _, f := range strings.Split(os.Getenv("C21_FATAL"), ";") {
		if f != "" {
			fatal[f] = true
		}
	}
	var srv *c21srv
	out := os.Getenv("VERIF_SHARD_OUT")
	for i := start; i < len(cases); i++ {
		if !s.Mine(int64(i)) {
			continue
		}
		c := cases[i]
		if fatal[fatalClass(c)] {
			// a case of this class already killed a worker: one finding, not one process per case
			w.NotJudged(1)
			w.Outcome("not-run:same-class-as-a-fatal-case")
			continue
		}
		if srv == nil {
			srv = newC21Server()
		}
		// checkpoint, so that the parent keeps what was done if this case kills the process
		w.WritePartial(out)
		evid.Publish(strconv.Itoa(i) + "|" + c.Op + "/" + c.Svc + "/" + c.Class)
		res, ee := c21run(srv, c)
		if ee != "" {
			evid.EngineError("C21", "case %d (%s/%s/%s): %s", i, c.Op, c.Svc, c.Class, ee)
		}
		w.Eval(c.key())
		w.Outcome(res.Outcome)
		if i%97 == 0 {
			w.Sample(map[string]any{"case": c, "outcome": res.Outcome, "error": res.Err})
		}
		if sig, detail := c21judge(c, res); sig != "" {
			w.Violate(sig, detail, c)
		}
		if res.Outcome == "hang" {
			// the stuck goroutines cannot be removed: leave, the parent resumes after this case
			w.WritePartial(out)
			fmt.Fprintln(os.Stderr, c21hangMarker)
			os.Exit(3)
		}
	}
	if srv != nil {
		srv.stop()
	}
}

// replayChild re-executes this binary for the replay and echoes its output.
func replayChild() int {
	cmd := newSelfCommand()
	cmd.Env = append(os.Environ(), "C21_REPLAY_CHILD=1")
	outb, err := cmd.CombinedOutput()
	fmt.Print(string(outb))
	if err != nil {
		if strings.Contains(string(outb), "panic: ") || strings.Contains(string(outb), "fatal error: ") {
			fmt.Printf("the process died: %v\ntop frame: %s\n", err, topRepoFrame(panicText(string(outb))))
		}
		return 1
	}
	return 0
}
