// C21 scripted server: a real server.Server (real listener, real UACP/UASC
// server side, real request dispatch) whose service handlers are all replaced
// through the public RegisterHandler before Start. Every handler answers from
// the script of the current case; without a script entry it gives the
// well-shaped default answer (as many results as the request has items, all
// Good), and Publish requests are held unanswered.
package main

import (
	"context"
	"fmt"
	"reflect"
	"sort"
	"strconv"
	"strings"
	"sync"
	"time"

	"github.com/gopcua/opcua/id"
	"github.com/gopcua/opcua/server"
	"github.com/gopcua/opcua/ua"
	"github.com/gopcua/opcua/uasc"
	"verif/engine/evid"
)

// shape describes one scripted response (JSON-marshalable: it is the replay
// value).
type shape struct {
	// Type: "" = the response type the client expects; "fault-bad" / "fault-good" =
	// ServiceFault with a Bad / Good service result; "other:<T>" = response type T.
	Type string `json:"type,omitempty"`
	// Hdr: service result of the response header ("" = Good; otherwise a status name from hdrStatus).
	Hdr string `json:"hdr,omitempty"`
	// Len: number of elements of the result array: -2 = as many as requested, -1 = null array.
	Len int `json:"len"`
	// Bad[i]: element i carries a Bad status.
	Bad []bool `json:"bad,omitempty"`
	// Var: the Variant delivered in element VarAt (Read: DataValue.Value, Call: first output
	// argument, DataChange: item value): "" default for the attribute, "null",
	// "absent" (DataValue without value), "s:<t>" scalar, "an:<t>" null array, "a0:<t>" empty
	// array, "a2:<t>" two elements, "m:<t>" 2x1 matrix, of built-in type id t.
	Var   string `json:"var,omitempty"`
	VarAt int    `json:"var_at,omitempty"`
	// X: service-specific variation (see the builders).
	X string `json:"x,omitempty"`
}

func defShape() shape { return shape{Len: -2} }

var hdrStatus = map[string]ua.StatusCode{
	"":                          ua.StatusOK,
	"Bad":                       ua.StatusBadInternalError,
	"BadSessionNotActivated":    ua.StatusBadSessionNotActivated,
	"BadSessionIDInvalid":       ua.StatusBadSessionIDInvalid,
	"BadServerNotConnected":     ua.StatusBadServerNotConnected,
	"BadSequenceNumberUnknown":  ua.StatusBadSequenceNumberUnknown,
	"BadTooManyPublishRequests": ua.StatusBadTooManyPublishRequests,
	"BadTimeout":                ua.StatusBadTimeout,
	"BadNoSubscription":         ua.StatusBadNoSubscription,
	"BadSubscriptionIDInvalid":  ua.StatusBadSubscriptionIDInvalid,
	"BadMessageNotAvailable":    ua.StatusBadMessageNotAvailable,
	"UncertainInitialValue":     ua.StatusUncertainInitialValue,
}

var elemBad = ua.StatusBadNodeIDUnknown

// ---- response types of the registry ----------------------------------------

type respType struct {
	Name string
	ID   uint16
	T    reflect.Type // pointer type
}

var (
	respTypesOnce sync.Once
	respTypes     []respType
	requestIDs    []uint16
)

// discoverTypes probes every ns=0 numeric id through the public ua.DecodeService.
func discoverTypes() {
	respTypesOnce.Do(func() {
		for n := 0; n < 65536; n++ {
			_, v, _ := ua.DecodeService([]byte{1, 0, byte(n), byte(n >> 8)})
			if v == nil {
				continue
			}
			if _, ok := v.(ua.Response); ok {
				respTypes = append(respTypes, respType{strings.TrimPrefix(reflect.TypeOf(v).String(), "*ua."), uint16(n), reflect.TypeOf(v)})
			} else if _, ok := v.(ua.Request); ok {
				requestIDs = append(requestIDs, uint16(n))
			}
		}
		sort.Slice(respTypes, func(i, j int) bool { return respTypes[i].Name < respTypes[j].Name })
	})
}

// deepDefault allocates every struct pointer reachable through struct fields
// (slices stay nil), so that the value encodes and decodes.
func deepDefault(t reflect.Type, depth int) reflect.Value {
	v := reflect.New(t.Elem())
	fillDefault(v.Elem(), depth)
	return v
}

var (
	tExtObj  = reflect.TypeOf((*ua.ExtensionObject)(nil))
	tVariant = reflect.TypeOf((*ua.Variant)(nil))
	tDiag    = reflect.TypeOf((*ua.DiagnosticInfo)(nil))
	tNodeID  = reflect.TypeOf((*ua.NodeID)(nil))
	tExpNode = reflect.TypeOf((*ua.ExpandedNodeID)(nil))
	tDataVal = reflect.TypeOf((*ua.DataValue)(nil))
)

func fillDefault(v reflect.Value, depth int) {
	if v.Kind() != reflect.Struct || depth > 6 {
		return
	}
	for i := 0; i < v.NumField(); i++ {
		f := v.Field(i)
		if f.Kind() != reflect.Ptr || !f.CanSet() {
			if f.Kind() == reflect.Struct {
				fillDefault(f, depth+1)
			}
			continue
		}
		switch f.Type() {
		case tExtObj:
			f.Set(reflect.ValueOf(ua.NewExtensionObject(nil)))
		case tVariant:
			f.Set(reflect.ValueOf(ua.MustVariant(int32(0))))
		case tDiag:
			f.Set(reflect.ValueOf(&ua.DiagnosticInfo{}))
		case tNodeID:
			f.Set(reflect.ValueOf(ua.NewTwoByteNodeID(0)))
		case tExpNode:
			f.Set(reflect.ValueOf(ua.NewTwoByteExpandedNodeID(0)))
		case tDataVal:
			f.Set(reflect.ValueOf(&ua.DataValue{}))
		default:
			if f.Type().Elem().Kind() == reflect.Struct {
				f.Set(deepDefault(f.Type(), depth+1))
			}
		}
	}
}

func respHeader(req ua.Request, status ua.StatusCode) *ua.ResponseHeader {
	var handle uint32
	if h := req.Header(); h != nil {
		handle = h.RequestHandle
	}
	return &ua.ResponseHeader{Timestamp: time.Now(), RequestHandle: handle, ServiceResult: status,
		ServiceDiagnostics: &ua.DiagnosticInfo{}, StringTable: []string{}, AdditionalHeader: ua.NewExtensionObject(nil)}
}

// ---- variants ---------------------------------------------------------------

var builtinGoType = map[ua.TypeID]reflect.Type{
	ua.TypeIDBoolean: reflect.TypeOf(false), ua.TypeIDSByte: reflect.TypeOf(int8(0)), ua.TypeIDByte: reflect.TypeOf(uint8(0)),
	ua.TypeIDInt16: reflect.TypeOf(int16(0)), ua.TypeIDUint16: reflect.TypeOf(uint16(0)), ua.TypeIDInt32: reflect.TypeOf(int32(0)),
	ua.TypeIDUint32: reflect.TypeOf(uint32(0)), ua.TypeIDInt64: reflect.TypeOf(int64(0)), ua.TypeIDUint64: reflect.TypeOf(uint64(0)),
	ua.TypeIDFloat: reflect.TypeOf(float32(0)), ua.TypeIDDouble: reflect.TypeOf(float64(0)), ua.TypeIDString: reflect.TypeOf(""),
	ua.TypeIDDateTime: reflect.TypeOf(time.Time{}), ua.TypeIDGUID: reflect.TypeOf(new(ua.GUID)), ua.TypeIDByteString: reflect.TypeOf([]byte{}),
	ua.TypeIDXMLElement: reflect.TypeOf(ua.XMLElement("")), ua.TypeIDNodeID: reflect.TypeOf(new(ua.NodeID)),
	ua.TypeIDExpandedNodeID: reflect.TypeOf(new(ua.ExpandedNodeID)), ua.TypeIDStatusCode: reflect.TypeOf(ua.StatusCode(0)),
	ua.TypeIDQualifiedName: reflect.TypeOf(new(ua.QualifiedName)), ua.TypeIDLocalizedText: reflect.TypeOf(new(ua.LocalizedText)),
	ua.TypeIDExtensionObject: reflect.TypeOf(new(ua.ExtensionObject)), ua.TypeIDDataValue: reflect.TypeOf(new(ua.DataValue)),
	ua.TypeIDVariant: reflect.TypeOf(new(ua.Variant)), ua.TypeIDDiagnosticInfo: reflect.TypeOf(new(ua.DiagnosticInfo)),
}

func sampleScalar(t ua.TypeID, k int) interface{} {
	switch t {
	case ua.TypeIDBoolean:
		return k%2 == 0
	case ua.TypeIDSByte:
		return int8(-3 + k)
	case ua.TypeIDByte:
		return uint8(3 + k)
	case ua.TypeIDInt16:
		return int16(-300 + k)
	case ua.TypeIDUint16:
		return uint16(300 + k)
	case ua.TypeIDInt32:
		return int32(-70000 + k)
	case ua.TypeIDUint32:
		return uint32(70000 + k)
	case ua.TypeIDInt64:
		return int64(-5e9) + int64(k)
	case ua.TypeIDUint64:
		return uint64(5e9) + uint64(k)
	case ua.TypeIDFloat:
		return float32(1.5) + float32(k)
	case ua.TypeIDDouble:
		return 2.25 + float64(k)
	case ua.TypeIDString:
		return "str" + strconv.Itoa(k)
	case ua.TypeIDDateTime:
		return time.Date(2020, 1, 2, 3, 4, 5+k, 0, time.UTC)
	case ua.TypeIDGUID:
		return ua.NewGUID("AAAABBBB-CCDD-EEFF-0102-030405060708")
	case ua.TypeIDByteString:
		return []byte{1, 2, byte(k)}
	case ua.TypeIDXMLElement:
		return ua.XMLElement("<a/>")
	case ua.TypeIDNodeID:
		return ua.NewNumericNodeID(1, uint32(1000+k))
	case ua.TypeIDExpandedNodeID:
		return ua.NewFourByteExpandedNodeID(1, uint16(2000+k))
	case ua.TypeIDStatusCode:
		return ua.StatusBadNodeIDUnknown
	case ua.TypeIDQualifiedName:
		return &ua.QualifiedName{NamespaceIndex: 1, Name: "qn" + strconv.Itoa(k)}
	case ua.TypeIDLocalizedText:
		return ua.NewLocalizedText("lt" + strconv.Itoa(k))
	case ua.TypeIDExtensionObject:
		return ua.NewExtensionObject(&ua.Argument{Name: "arg", DataType: ua.NewTwoByteNodeID(6), Description: ua.NewLocalizedText("d")})
	case ua.TypeIDDataValue:
		return &ua.DataValue{EncodingMask: ua.DataValueValue, Value: ua.MustVariant(int32(k))}
	case ua.TypeIDVariant:
		return ua.MustVariant(int32(7 + k))
	case ua.TypeIDDiagnosticInfo:
		return &ua.DiagnosticInfo{EncodingMask: ua.DiagnosticInfoSymbolicID, SymbolicID: int32(k)}
	}
	return nil
}

// makeVariant builds the Variant named by spec; absent reports that the
// DataValue should carry no value at all.
func makeVariant(spec string) (v *ua.Variant, absent bool) {
	switch spec {
	case "null":
		return ua.MustVariant(nil), false
	case "absent":
		return nil, true
	}
	parts := strings.SplitN(spec, ":", 2)
	n, _ := strconv.Atoi(parts[1])
	t := ua.TypeID(n)
	gt := builtinGoType[t]
	if gt == nil {
		evid.EngineError("C21", "bad variant spec %q", spec)
	}
	st := reflect.SliceOf(gt)
	if t == ua.TypeIDByte {
		st = reflect.TypeOf(ua.ByteArray{})
	}
	var val interface{}
	switch parts[0] {
	case "s":
		val = sampleScalar(t, 0)
	case "an":
		val = reflect.Zero(st).Interface()
	case "a0":
		val = reflect.MakeSlice(st, 0, 0).Interface()
	case "a2":
		s := reflect.MakeSlice(st, 2, 2)
		s.Index(0).Set(reflect.ValueOf(sampleScalar(t, 0)))
		s.Index(1).Set(reflect.ValueOf(sampleScalar(t, 1)))
		val = s.Interface()
	case "m":
		mt := reflect.SliceOf(reflect.SliceOf(gt))
		m := reflect.MakeSlice(mt, 2, 2)
		for i := 0; i < 2; i++ {
			row := reflect.MakeSlice(reflect.SliceOf(gt), 1, 1)
			row.Index(0).Set(reflect.ValueOf(sampleScalar(t, i)))
			m.Index(i).Set(row)
		}
		val = m.Interface()
	default:
		evid.EngineError("C21", "bad variant spec %q", spec)
	}
	vv, err := ua.NewVariant(val)
	if err != nil {
		evid.EngineError("C21", "variant %q: %v", spec, err)
	}
	return vv, false
}

// variantClass is the signature class of a variant spec (no type id).
func variantClass(spec string) string {
	switch {
	case spec == "":
		return ""
	case spec == "null" || spec == "absent":
		return spec
	case strings.HasPrefix(spec, "s:"):
		return "scalar"
	case strings.HasPrefix(spec, "an:"):
		return "null-array"
	case strings.HasPrefix(spec, "a0:"):
		return "empty-array"
	case strings.HasPrefix(spec, "a2:"):
		return "array"
	case strings.HasPrefix(spec, "m:"):
		return "matrix"
	}
	return "?"
}

// defaultAttrVariant is the well-typed answer for a read of attribute a of node n.
func defaultAttrVariant(n *ua.NodeID, a ua.AttributeID) *ua.Variant {
	switch a {
	case ua.AttributeIDBrowseName:
		return ua.MustVariant(&ua.QualifiedName{NamespaceIndex: 0, Name: "Node"})
	case ua.AttributeIDDescription, ua.AttributeIDDisplayName:
		return ua.MustVariant(ua.NewLocalizedText("Node"))
	case ua.AttributeIDAccessLevel, ua.AttributeIDUserAccessLevel:
		return ua.MustVariant(uint8(3))
	case ua.AttributeIDNodeClass:
		return ua.MustVariant(int32(ua.NodeClassVariable))
	}
	if n != nil && n.Namespace() == 0 && n.Type() != ua.NodeIDTypeString {
		switch n.IntID() {
		case id.Server_NamespaceArray:
			return ua.MustVariant([]string{"http://opcfoundation.org/UA/", "urn:verif"})
		case id.Server_ServerDiagnostics_SubscriptionDiagnosticsArray:
			return ua.MustVariant([]*ua.ExtensionObject{ua.NewExtensionObject(&ua.SubscriptionDiagnosticsDataType{SessionID: ua.NewTwoByteNodeID(0), SubscriptionID: 1})})
		}
	}
	return ua.MustVariant(int32(42))
}

// ---- the server -------------------------------------------------------------

type rule struct {
	After int     `json:"after,omitempty"` // requests of this type answered by default before the script starts
	Resps []shape `json:"resps"`
}

type heldReq struct {
	sc    *uasc.SecureChannel
	reqID uint32
	req   ua.Request
}

type c21srv struct {
	url  string
	stop func()
	srv  *server.Server

	mu      sync.Mutex
	script  map[string]*rule // by request type name, e.g. "ReadRequest"
	count   map[string]int   // requests seen in the current case
	sent    map[string]int   // scripted responses sent in the current case
	subSeq  uint32
	subs    []uint32 // subscription ids handed out in the current case
	itemSeq uint32
	failure string // a response could not be built/sent (engine problem)

	// scripted Publish responses are held until the driver opens the gate (the
	// client registers a new subscription only after Subscribe has returned, so
	// an earlier response would race with the registration)
	gateOpen bool
	pending  *heldReq
	pendSh   shape
}

// reset starts a new case: nothing scripted, no subscriptions.
func (s *c21srv) reset() {
	s.mu.Lock()
	s.script = map[string]*rule{}
	s.count = map[string]int{}
	s.sent = map[string]int{}
	s.subs = nil
	s.failure = ""
	s.gateOpen = false
	s.pending = nil
	s.mu.Unlock()
}

// arm installs the script; request counters start at zero.
func (s *c21srv) arm(script map[string]*rule) {
	s.mu.Lock()
	s.script = script
	s.count = map[string]int{}
	s.sent = map[string]int{}
	s.mu.Unlock()
}

// release opens the gate for scripted Publish responses and answers the held request.
func (s *c21srv) release() {
	s.mu.Lock()
	s.gateOpen = true
	p, sh := s.pending, s.pendSh
	s.pending = nil
	s.mu.Unlock()
	if p == nil {
		return
	}
	func() {
		defer func() {
			if r := recover(); r != nil {
				s.mu.Lock()
				s.failure = fmt.Sprintf("building the held Publish response (%+v) panicked: %v", sh, r)
				s.mu.Unlock()
			}
		}()
		resp := s.build(p.req, sh)
		s.mu.Lock()
		s.sent["PublishRequest"]++
		s.mu.Unlock()
		if err := p.sc.SendResponseWithContext(context.Background(), p.reqID, resp); err != nil {
			s.mu.Lock()
			s.failure = "sending the held Publish response: " + err.Error()
			s.mu.Unlock()
		}
	}()
}

func (s *c21srv) failureText() string {
	s.mu.Lock()
	defer s.mu.Unlock()
	return s.failure
}

func (s *c21srv) seen(reqType string) int {
	s.mu.Lock()
	defer s.mu.Unlock()
	return s.count[reqType]
}

func (s *c21srv) scriptedSent(reqType string) int {
	s.mu.Lock()
	defer s.mu.Unlock()
	return s.sent[reqType]
}

func reqName(req ua.Request) string { return strings.TrimPrefix(reflect.TypeOf(req).String(), "*ua.") }

func newC21Server() *c21srv {
	discoverTypes()
	s := &c21srv{script: map[string]*rule{}, count: map[string]int{}, sent: map[string]int{}}
	var err error
	_, s.url, s.stop, err = startServer([]server.Option{
		server.EnableSecurity("None", ua.MessageSecurityModeNone),
		server.EnableAuthMode(ua.UserTokenTypeAnonymous),
	}, func(srv *server.Server) {
		s.srv = srv
		for _, tid := range requestIDs {
			srv.RegisterHandler(tid, s.handle)
		}
	})
	if err != nil {
		evid.EngineError("C21", "%v", err)
	}
	return s
}

func (s *c21srv) handle(sc *uasc.SecureChannel, req ua.Request, reqID uint32) (resp ua.Response, err error) {
	name := reqName(req)
	switch req.(type) {
	case *ua.CreateSessionRequest, *ua.ActivateSessionRequest:
		// the session services are scripted too: tell the real server about the session the script
		// hands out, so that its dispatcher lets the following requests through to the scripted handlers
		s.srv.VerifAdoptSession(ua.NewNumericNodeID(0, 0xC21), sc)
	}
	s.mu.Lock()
	k := s.count[name]
	s.count[name] = k + 1
	r := s.script[name]
	s.mu.Unlock()
	sh, scripted := defShape(), false
	if r != nil && k >= r.After && k-r.After < len(r.Resps) {
		sh, scripted = r.Resps[k-r.After], true
	}
	if _, ok := req.(*ua.PublishRequest); ok {
		if !scripted {
			return nil, nil // held: never answered
		}
		s.mu.Lock()
		if !s.gateOpen {
			s.pending, s.pendSh = &heldReq{sc, reqID, req}, sh
			s.mu.Unlock()
			return nil, nil
		}
		s.mu.Unlock()
	}
	defer func() {
		if p := recover(); p != nil {
			s.mu.Lock()
			s.failure = fmt.Sprintf("building the response to %s (%+v) panicked: %v", name, sh, p)
			s.mu.Unlock()
			resp, err = nil, ua.StatusBadInternalError
		}
	}()
	resp = s.build(req, sh)
	if scripted {
		s.mu.Lock()
		s.sent[name]++
		s.mu.Unlock()
	}
	return resp, nil
}

func statuses(n int, sh shape) []ua.StatusCode {
	k := n
	if sh.Len == -1 {
		return nil
	}
	if sh.Len >= 0 {
		k = sh.Len
	}
	out := make([]ua.StatusCode, k)
	for i := range out {
		if i < len(sh.Bad) && sh.Bad[i] {
			out[i] = elemBad
		}
	}
	return out
}

// build constructs the response to req described by sh.
func (s *c21srv) build(req ua.Request, sh shape) ua.Response {
	switch {
	case sh.Type == "fault-bad":
		return &ua.ServiceFault{ResponseHeader: respHeader(req, ua.StatusBadInternalError)}
	case sh.Type == "fault-good":
		return &ua.ServiceFault{ResponseHeader: respHeader(req, ua.StatusOK)}
	case strings.HasPrefix(sh.Type, "other:"):
		for _, rt := range respTypes {
			if rt.Name == sh.Type[6:] {
				v := deepDefault(rt.T, 0).Interface().(ua.Response)
				v.SetHeader(respHeader(req, ua.StatusOK))
				return v
			}
		}
		panic("unknown response type " + sh.Type)
	}
	st, ok := hdrStatus[sh.Hdr]
	if !ok {
		panic("unknown header status " + sh.Hdr)
	}
	hdr := respHeader(req, st)
	switch q := req.(type) {
	case *ua.GetEndpointsRequest:
		r := &ua.GetEndpointsResponse{ResponseHeader: hdr}
		for range statuses(1, sh) {
			r.Endpoints = append(r.Endpoints, deepDefault(reflect.TypeOf(&ua.EndpointDescription{}), 0).Interface().(*ua.EndpointDescription))
		}
		return r
	case *ua.FindServersRequest:
		r := &ua.FindServersResponse{ResponseHeader: hdr}
		for range statuses(1, sh) {
			r.Servers = append(r.Servers, deepDefault(reflect.TypeOf(&ua.ApplicationDescription{}), 0).Interface().(*ua.ApplicationDescription))
		}
		return r
	case *ua.FindServersOnNetworkRequest:
		r := &ua.FindServersOnNetworkResponse{ResponseHeader: hdr}
		for range statuses(1, sh) {
			r.Servers = append(r.Servers, &ua.ServerOnNetwork{ServerName: "x"})
		}
		return r
	case *ua.CreateSessionRequest:
		r := &ua.CreateSessionResponse{ResponseHeader: hdr, SessionID: ua.NewNumericNodeID(1, 77), AuthenticationToken: ua.NewNumericNodeID(0, 0xC21),
			RevisedSessionTimeout: 60000, ServerNonce: make([]byte, 32), ServerSignature: &ua.SignatureData{}}
		for i := range statuses(1, sh) {
			ep := deepDefault(reflect.TypeOf(&ua.EndpointDescription{}), 0).Interface().(*ua.EndpointDescription)
			ep.EndpointURL, ep.SecurityPolicyURI, ep.SecurityMode = q.EndpointURL, ua.SecurityPolicyURINone, ua.MessageSecurityModeNone
			switch sh.X {
			case "tokens-nil":
			case "tokens-username-only":
				ep.UserIdentityTokens = []*ua.UserTokenPolicy{{PolicyID: "u", TokenType: ua.UserTokenTypeUserName}}
			default:
				ep.UserIdentityTokens = []*ua.UserTokenPolicy{{PolicyID: "anon" + strconv.Itoa(i), TokenType: ua.UserTokenTypeAnonymous}}
			}
			r.ServerEndpoints = append(r.ServerEndpoints, ep)
		}
		switch sh.X {
		case "empty-fields":
			r.ServerNonce, r.ServerCertificate, r.AuthenticationToken, r.SessionID = nil, nil, ua.NewTwoByteNodeID(0), ua.NewTwoByteNodeID(0)
		case "negative-timeout":
			r.RevisedSessionTimeout = -1
		}
		return r
	case *ua.ActivateSessionRequest:
		return &ua.ActivateSessionResponse{ResponseHeader: hdr, ServerNonce: make([]byte, 32), Results: statuses(0, sh)}
	case *ua.CloseSessionRequest:
		return &ua.CloseSessionResponse{ResponseHeader: hdr}
	case *ua.CancelRequest:
		return &ua.CancelResponse{ResponseHeader: hdr}
	case *ua.ReadRequest:
		r := &ua.ReadResponse{ResponseHeader: hdr}
		sts := statuses(len(q.NodesToRead), sh)
		if sts != nil {
			r.Results = []*ua.DataValue{}
		}
		for i, stc := range sts {
			var nid *ua.NodeID
			attr := ua.AttributeIDValue
			if i < len(q.NodesToRead) {
				nid, attr = q.NodesToRead[i].NodeID, q.NodesToRead[i].AttributeID
			}
			dv := &ua.DataValue{EncodingMask: ua.DataValueValue, Value: defaultAttrVariant(nid, attr)}
			if sh.Var != "" && i == sh.VarAt {
				v, absent := makeVariant(sh.Var)
				if absent {
					dv.EncodingMask, dv.Value = 0, nil
				} else {
					dv.Value = v
				}
			}
			if stc != ua.StatusOK {
				dv.EncodingMask |= ua.DataValueStatusCode
				dv.Status = stc
			}
			r.Results = append(r.Results, dv)
		}
		return r
	case *ua.WriteRequest:
		return &ua.WriteResponse{ResponseHeader: hdr, Results: statuses(len(q.NodesToWrite), sh)}
	case *ua.HistoryReadRequest:
		r := &ua.HistoryReadResponse{ResponseHeader: hdr}
		for _, stc := range statuses(len(q.NodesToRead), sh) {
			r.Results = append(r.Results, &ua.HistoryReadResult{StatusCode: stc, HistoryData: ua.NewExtensionObject(nil)})
		}
		return r
	case *ua.BrowseRequest:
		r := &ua.BrowseResponse{ResponseHeader: hdr}
		r.Results = s.browseResults(statuses(len(q.NodesToBrowse), sh), sh)
		return r
	case *ua.BrowseNextRequest:
		r := &ua.BrowseNextResponse{ResponseHeader: hdr}
		r.Results = s.browseResults(statuses(len(q.ContinuationPoints), sh), sh)
		return r
	case *ua.TranslateBrowsePathsToNodeIDsRequest:
		r := &ua.TranslateBrowsePathsToNodeIDsResponse{ResponseHeader: hdr}
		for _, stc := range statuses(len(q.BrowsePaths), sh) {
			bp := &ua.BrowsePathResult{StatusCode: stc}
			switch sh.X {
			case "targets-nil":
			case "targets-empty":
				bp.Targets = []*ua.BrowsePathTarget{}
			default:
				bp.Targets = []*ua.BrowsePathTarget{{TargetID: ua.NewFourByteExpandedNodeID(1, 99), RemainingPathIndex: 0xffffffff}}
			}
			r.Results = append(r.Results, bp)
		}
		return r
	case *ua.RegisterNodesRequest:
		r := &ua.RegisterNodesResponse{ResponseHeader: hdr}
		for i := range statuses(len(q.NodesToRegister), sh) {
			r.RegisteredNodeIDs = append(r.RegisteredNodeIDs, ua.NewNumericNodeID(1, uint32(i)))
		}
		return r
	case *ua.UnregisterNodesRequest:
		return &ua.UnregisterNodesResponse{ResponseHeader: hdr}
	case *ua.CallRequest:
		r := &ua.CallResponse{ResponseHeader: hdr}
		for i, stc := range statuses(len(q.MethodsToCall), sh) {
			cr := &ua.CallMethodResult{StatusCode: stc, OutputArguments: []*ua.Variant{ua.MustVariant(int32(1))}}
			if sh.Var != "" && i == sh.VarAt {
				v, absent := makeVariant(sh.Var)
				if absent {
					cr.OutputArguments = nil
				} else {
					cr.OutputArguments = []*ua.Variant{v}
				}
			}
			r.Results = append(r.Results, cr)
		}
		return r
	case *ua.CreateSubscriptionRequest:
		r := &ua.CreateSubscriptionResponse{ResponseHeader: hdr, RevisedPublishingInterval: q.RequestedPublishingInterval,
			RevisedLifetimeCount: q.RequestedLifetimeCount, RevisedMaxKeepAliveCount: q.RequestedMaxKeepAliveCount}
		s.mu.Lock()
		switch sh.X {
		case "id-zero":
			r.SubscriptionID = 0
		case "id-duplicate":
			if len(s.subs) > 0 {
				r.SubscriptionID = s.subs[0]
			}
		default:
			s.subSeq++
			r.SubscriptionID = s.subSeq
			s.subs = append(s.subs, r.SubscriptionID)
		}
		s.mu.Unlock()
		switch sh.X {
		case "revised-zero":
			r.RevisedPublishingInterval, r.RevisedLifetimeCount, r.RevisedMaxKeepAliveCount = 0, 0, 0
		case "revised-huge":
			r.RevisedPublishingInterval, r.RevisedLifetimeCount, r.RevisedMaxKeepAliveCount = 1e300, 0xffffffff, 0xffffffff
		case "revised-negative":
			r.RevisedPublishingInterval = -1e300
		}
		return r
	case *ua.ModifySubscriptionRequest:
		r := &ua.ModifySubscriptionResponse{ResponseHeader: hdr, RevisedPublishingInterval: q.RequestedPublishingInterval,
			RevisedLifetimeCount: q.RequestedLifetimeCount, RevisedMaxKeepAliveCount: q.RequestedMaxKeepAliveCount}
		if sh.X == "revised-huge" {
			r.RevisedPublishingInterval, r.RevisedLifetimeCount, r.RevisedMaxKeepAliveCount = 1e300, 0xffffffff, 0xffffffff
		}
		return r
	case *ua.SetPublishingModeRequest:
		return &ua.SetPublishingModeResponse{ResponseHeader: hdr, Results: statuses(len(q.SubscriptionIDs), sh)}
	case *ua.DeleteSubscriptionsRequest:
		return &ua.DeleteSubscriptionsResponse{ResponseHeader: hdr, Results: statuses(len(q.SubscriptionIDs), sh)}
	case *ua.TransferSubscriptionsRequest:
		r := &ua.TransferSubscriptionsResponse{ResponseHeader: hdr}
		for _, stc := range statuses(len(q.SubscriptionIDs), sh) {
			r.Results = append(r.Results, &ua.TransferResult{StatusCode: stc})
		}
		return r
	case *ua.RepublishRequest:
		return &ua.RepublishResponse{ResponseHeader: respHeader(req, ua.StatusBadMessageNotAvailable), NotificationMessage: &ua.NotificationMessage{}}
	case *ua.CreateMonitoredItemsRequest:
		r := &ua.CreateMonitoredItemsResponse{ResponseHeader: hdr}
		for _, stc := range statuses(len(q.ItemsToCreate), sh) {
			s.mu.Lock()
			s.itemSeq++
			mid := s.itemSeq
			s.mu.Unlock()
			if sh.X == "item-id-zero" {
				mid = 0
			}
			r.Results = append(r.Results, &ua.MonitoredItemCreateResult{StatusCode: stc, MonitoredItemID: mid, RevisedSamplingInterval: 100, RevisedQueueSize: 1, FilterResult: ua.NewExtensionObject(nil)})
		}
		return r
	case *ua.ModifyMonitoredItemsRequest:
		r := &ua.ModifyMonitoredItemsResponse{ResponseHeader: hdr}
		for _, stc := range statuses(len(q.ItemsToModify), sh) {
			r.Results = append(r.Results, &ua.MonitoredItemModifyResult{StatusCode: stc, RevisedSamplingInterval: 200, RevisedQueueSize: 2, FilterResult: ua.NewExtensionObject(nil)})
		}
		return r
	case *ua.SetMonitoringModeRequest:
		return &ua.SetMonitoringModeResponse{ResponseHeader: hdr, Results: statuses(len(q.MonitoredItemIDs), sh)}
	case *ua.SetTriggeringRequest:
		return &ua.SetTriggeringResponse{ResponseHeader: hdr, AddResults: statuses(len(q.LinksToAdd), sh), RemoveResults: statuses(len(q.LinksToRemove), sh)}
	case *ua.DeleteMonitoredItemsRequest:
		return &ua.DeleteMonitoredItemsResponse{ResponseHeader: hdr, Results: statuses(len(q.MonitoredItemIDs), sh)}
	case *ua.PublishRequest:
		return s.publishResponse(q, hdr, sh)
	}
	return &ua.ServiceFault{ResponseHeader: respHeader(req, ua.StatusBadServiceUnsupported)}
}

func (s *c21srv) browseResults(sts []ua.StatusCode, sh shape) []*ua.BrowseResult {
	if sts == nil {
		return nil
	}
	out := []*ua.BrowseResult{}
	for i, stc := range sts {
		br := &ua.BrowseResult{StatusCode: stc}
		ref := &ua.ReferenceDescription{ReferenceTypeID: ua.NewNumericNodeID(0, id.HasComponent), IsForward: true,
			NodeID: ua.NewFourByteExpandedNodeID(1, uint16(500+i)), BrowseName: &ua.QualifiedName{Name: "child"},
			DisplayName: ua.NewLocalizedText("child"), NodeClass: ua.NodeClassVariable, TypeDefinition: ua.NewTwoByteExpandedNodeID(0)}
		switch sh.X {
		case "refs-nil":
		case "refs-empty":
			br.References = []*ua.ReferenceDescription{}
		case "cp": // a continuation point on the first result
			br.References = []*ua.ReferenceDescription{ref}
			if i == 0 {
				br.ContinuationPoint = []byte{1, 2, 3}
			}
		case "cp-empty":
			br.References = []*ua.ReferenceDescription{ref}
			br.ContinuationPoint = []byte{}
		default:
			br.References = []*ua.ReferenceDescription{ref}
		}
		out = append(out, br)
	}
	return out
}

// rawBody lets an ExtensionObject carry a body of a type id the client does not know.
type rawBody struct{ b []byte }

func (r *rawBody) Encode() ([]byte, error) { return r.b, nil }

// publishResponse: sh.Len/sh.Bad describe Results (acknowledgement results; n =
// number of acknowledgements in the request); sh.X = "<sub>|<seq>|<payload>[+<payload>]":
// sub: known | unknown | zero; seq: next | other | zero; payload: none, eo-empty,
// eo-unknown-type, datachange:<items>, datachange-handle-unknown, event, event-empty,
// status, unknown (a registered type that is no notification).
func (s *c21srv) publishResponse(q *ua.PublishRequest, hdr *ua.ResponseHeader, sh shape) ua.Response {
	r := &ua.PublishResponse{ResponseHeader: hdr, NotificationMessage: &ua.NotificationMessage{PublishTime: time.Now()}}
	r.Results = statuses(len(q.SubscriptionAcknowledgements), sh)
	x := strings.Split(sh.X, "|")
	for len(x) < 3 {
		x = append(x, "")
	}
	s.mu.Lock()
	known := uint32(0)
	if len(s.subs) > 0 {
		known = s.subs[0]
	}
	nsent := s.sent["PublishRequest"]
	s.mu.Unlock()
	switch x[0] {
	case "", "known":
		r.SubscriptionID = known
	case "unknown":
		r.SubscriptionID = 0x7fffffff
	case "zero":
		r.SubscriptionID = 0
	}
	switch x[1] {
	case "", "next":
		r.NotificationMessage.SequenceNumber = uint32(nsent + 1)
	case "other":
		r.NotificationMessage.SequenceNumber = 1000
	case "zero":
		r.NotificationMessage.SequenceNumber = 0
	}
	r.AvailableSequenceNumbers = []uint32{r.NotificationMessage.SequenceNumber}
	if x[2] == "" || x[2] == "none" {
		return r
	}
	for _, p := range strings.Split(x[2], "+") {
		var eo *ua.ExtensionObject
		switch {
		case p == "eo-empty":
			eo = ua.NewExtensionObject(nil)
		case p == "eo-unknown-type":
			eo = &ua.ExtensionObject{TypeID: ua.NewFourByteExpandedNodeID(0, 64999), EncodingMask: ua.ExtensionObjectBinary, Value: &rawBody{[]byte{1, 2, 3, 4}}}
		case strings.HasPrefix(p, "datachange:"):
			n, _ := strconv.Atoi(p[len("datachange:"):])
			dc := &ua.DataChangeNotification{MonitoredItems: []*ua.MonitoredItemNotification{}}
			for i := 0; i < n; i++ {
				dv := &ua.DataValue{EncodingMask: ua.DataValueValue, Value: ua.MustVariant(int32(i))}
				if sh.Var != "" && i == sh.VarAt {
					v, absent := makeVariant(sh.Var)
					if absent {
						dv.EncodingMask, dv.Value = 0, nil
					} else {
						dv.Value = v
					}
				}
				dc.MonitoredItems = append(dc.MonitoredItems, &ua.MonitoredItemNotification{ClientHandle: uint32(101 + i), Value: dv})
			}
			eo = ua.NewExtensionObject(dc)
		case p == "datachange-items-nil":
			eo = ua.NewExtensionObject(&ua.DataChangeNotification{})
		case p == "datachange-handle-unknown":
			eo = ua.NewExtensionObject(&ua.DataChangeNotification{MonitoredItems: []*ua.MonitoredItemNotification{
				{ClientHandle: 0x7ffffff0, Value: &ua.DataValue{EncodingMask: ua.DataValueValue, Value: ua.MustVariant(int32(5))}}}})
		case p == "event":
			eo = ua.NewExtensionObject(&ua.EventNotificationList{Events: []*ua.EventFieldList{{ClientHandle: 101, EventFields: []*ua.Variant{ua.MustVariant("e"), ua.MustVariant(nil)}}}})
		case p == "event-empty":
			eo = ua.NewExtensionObject(&ua.EventNotificationList{})
		case p == "status":
			eo = ua.NewExtensionObject(&ua.StatusChangeNotification{Status: ua.StatusBadTimeout, DiagnosticInfo: &ua.DiagnosticInfo{}})
		case p == "unknown":
			eo = ua.NewExtensionObject(&ua.Argument{Name: "not-a-notification", DataType: ua.NewTwoByteNodeID(6), Description: ua.NewLocalizedText("d")})
		default:
			panic("bad payload " + p)
		}
		r.NotificationMessage.NotificationData = append(r.NotificationMessage.NotificationData, eo)
	}
	return r
}
