// C21 case space: every client operation x every scripted response shape of the
// grid in DESIGN.md (response type x header status x result array length x
// element status x Variant type/shape x notification payload).
package main

import (
	"encoding/json"
	"fmt"
	"os"
	"sort"
	"strconv"
	"strings"

	"github.com/gopcua/opcua/ua"
)

type c21case struct {
	Op     string           `json:"op"`     // client operation (see c21_ops.go)
	Svc    string           `json:"svc"`    // the request type whose response is scripted
	Class  string           `json:"class"`  // response shape class (part of the signature)
	Script map[string]*rule `json:"script"` // the complete script of the case
}

func (c c21case) key() string {
	b, _ := json.Marshal(c.Script)
	return c.Op + "|" + string(b)
}

// svcUse: one service exercised by an operation.
type svcUse struct {
	Req   string           // request type name
	N     int              // number of items the operation requests (-1: the response has no result array)
	After int              // requests of this type issued by the set-up before the operation proper
	Var   bool             // the response carries a Variant the operation looks at
	X     []string         // service-specific variations
	With  map[string]*rule // additional script entries needed to reach this service
}

type opSpec struct {
	Name string
	Svcs []svcUse
}

var builtinIDs = func() []int {
	var ids []int
	for t := 1; t <= 25; t++ {
		ids = append(ids, t)
	}
	return ids
}()

func variantSpecs(thorough bool) []string {
	out := []string{"null", "absent"}
	kinds := []string{"s", "a0", "a2"}
	if thorough {
		kinds = []string{"s", "an", "a0", "a2", "m"}
	}
	for _, k := range kinds {
		for _, t := range builtinIDs {
			out = append(out, k+":"+strconv.Itoa(t))
		}
	}
	return out
}

func lenClass(l, n int) string {
	switch {
	case l == -1:
		return "nil"
	case l == 0 && n != 0:
		return "0"
	case l < n:
		return "short"
	case l == n:
		return "exact"
	}
	return "long"
}

// lengths returns the result-array lengths {nil, 0, n-1, n, n+1} without duplicates.
func lengths(n int) []int {
	var out []int
	seen := map[int]bool{}
	for _, l := range []int{-1, 0, n - 1, n, n + 1} {
		if l < -1 || seen[l] {
			continue
		}
		seen[l] = true
		out = append(out, l)
	}
	return out
}

func badCombos(l int) [][]bool {
	if l <= 0 {
		return [][]bool{nil}
	}
	var out [][]bool
	for m := 0; m < 1<<uint(l); m++ {
		b := make([]bool, l)
		for i := range b {
			b[i] = m&(1<<uint(i)) != 0
		}
		out = append(out, b)
	}
	return out
}

func anyBad(b []bool) bool {
	for _, x := range b {
		if x {
			return true
		}
	}
	return false
}

func respNameFor(req string) string { return strings.TrimSuffix(req, "Request") + "Response" }

// gridFor enumerates the scripted responses of one (operation, service) pair.
func gridFor(op opSpec, su svcUse, thorough bool) []c21case {
	var out []c21case
	mk := func(class string, sh shape) {
		script := map[string]*rule{}
		for k, v := range su.With {
			script[k] = v
		}
		script[su.Req] = &rule{After: su.After, Resps: []shape{sh}}
		out = append(out, c21case{Op: op.Name, Svc: su.Req, Class: class, Script: script})
	}
	// response type
	mk("type=fault/hdr=bad", shape{Type: "fault-bad", Len: -2})
	mk("type=fault/hdr=good", shape{Type: "fault-good", Len: -2})
	for _, rt := range respTypes {
		if rt.Name == respNameFor(su.Req) || rt.Name == "ServiceFault" {
			continue
		}
		mk("type=other", shape{Type: "other:" + rt.Name, Len: -2})
	}
	// header status x array length x element status
	for _, hdr := range []string{"", "Bad"} {
		hc := "hdr=good"
		if hdr != "" {
			hc = "hdr=bad"
		}
		if su.N < 0 {
			mk("expected/"+hc, shape{Hdr: hdr, Len: -2})
			continue
		}
		for _, l := range lengths(su.N) {
			for _, bad := range badCombos(l) {
				ec := "elems=good"
				if anyBad(bad) {
					ec = "elems=some-bad"
				}
				mk("expected/"+hc+"/len="+lenClass(l, su.N)+"/"+ec, shape{Hdr: hdr, Len: l, Bad: bad})
			}
		}
	}
	// variants
	if su.Var {
		ats := []int{0}
		if thorough && su.N > 1 {
			ats = []int{0, su.N - 1}
		}
		for _, at := range ats {
			for _, vs := range variantSpecs(thorough) {
				mk("expected/variant="+variantClass(vs), shape{Len: -2, Var: vs, VarAt: at})
				if thorough {
					mk("expected/elems=some-bad/variant="+variantClass(vs), shape{Len: -2, Var: vs, VarAt: at, Bad: append(make([]bool, at), true)})
				}
			}
		}
	}
	for _, x := range su.X {
		mk("expected/x="+x, shape{Len: -2, X: x})
		if thorough {
			mk("expected/hdr=bad/x="+x, shape{Hdr: "Bad", Len: -2, X: x})
		}
	}
	return out
}

var browseX = []string{"refs-nil", "refs-empty", "cp", "cp-empty"}
var cpRule = map[string]*rule{"BrowseRequest": {Resps: []shape{{Len: -2, X: "cp"}}}}

func readOp(name string, n int) opSpec {
	return opSpec{name, []svcUse{{Req: "ReadRequest", N: n, Var: true}}}
}

func c21ops() []opSpec {
	ops := []opSpec{
		{"Connect", []svcUse{
			{Req: "CreateSessionRequest", N: 1, X: []string{"tokens-nil", "tokens-username-only", "empty-fields", "negative-timeout"}},
			{Req: "ActivateSessionRequest", N: 0},
			{Req: "ReadRequest", N: 1, Var: true},
		}},
		{"Close", []svcUse{{Req: "CloseSessionRequest", N: -1}}},
		readOp("Read", 2),
		{"Write", []svcUse{{Req: "WriteRequest", N: 2}}},
		{"Browse", []svcUse{{Req: "BrowseRequest", N: 2, X: browseX}}},
		{"BrowseNext", []svcUse{{Req: "BrowseNextRequest", N: 1, X: browseX}}},
		{"Call", []svcUse{{Req: "CallRequest", N: 1, Var: true}}},
		{"RegisterNodes", []svcUse{{Req: "RegisterNodesRequest", N: 2}}},
		{"UnregisterNodes", []svcUse{{Req: "UnregisterNodesRequest", N: -1}}},
		{"FindServers", []svcUse{{Req: "FindServersRequest", N: 1}}},
		{"FindServersOnNetwork", []svcUse{{Req: "FindServersOnNetworkRequest", N: 1}}},
		{"GetEndpoints", []svcUse{{Req: "GetEndpointsRequest", N: 1}}},
		{"HistoryReadRawModified", []svcUse{{Req: "HistoryReadRequest", N: 2}}},
		{"HistoryReadEvent", []svcUse{{Req: "HistoryReadRequest", N: 2}}},
		{"HistoryReadProcessed", []svcUse{{Req: "HistoryReadRequest", N: 2}}},
		{"HistoryReadAtTime", []svcUse{{Req: "HistoryReadRequest", N: 2}}},
		readOp("NamespaceArray", 1),
		readOp("FindNamespace", 1),
		readOp("UpdateNamespaces", 1),
	}
	for _, h := range []string{"NodeClass", "BrowseName", "Description", "DisplayName", "AccessLevel", "HasAccessLevel", "UserAccessLevel", "HasUserAccessLevel", "Value", "Attribute"} {
		ops = append(ops, readOp("Node."+h, 1))
	}
	ops = append(ops, readOp("Node.Attributes", 2))
	for _, h := range []string{"Children", "ReferencedNodes", "References"} {
		ops = append(ops, opSpec{"Node." + h, []svcUse{
			{Req: "BrowseRequest", N: 1, X: browseX},
			{Req: "BrowseNextRequest", N: 1, X: browseX, With: cpRule},
		}})
	}
	tx := []string{"targets-nil", "targets-empty"}
	ops = append(ops,
		opSpec{"Node.TranslateBrowsePathsToNodeIDs", []svcUse{{Req: "TranslateBrowsePathsToNodeIDsRequest", N: 1, X: tx}}},
		opSpec{"Node.TranslateBrowsePathInNamespaceToNodeID", []svcUse{{Req: "TranslateBrowsePathsToNodeIDsRequest", N: 1, X: tx}}},
		opSpec{"Subscribe", []svcUse{{Req: "CreateSubscriptionRequest", N: -1, X: []string{"id-zero", "revised-zero", "revised-huge", "revised-negative"}}}},
		opSpec{"Subscribe.second", []svcUse{{Req: "CreateSubscriptionRequest", N: -1, After: 1, X: []string{"id-zero", "id-duplicate", "revised-huge"}}}},
		opSpec{"Sub.Monitor", []svcUse{{Req: "CreateMonitoredItemsRequest", N: 2, X: []string{"item-id-zero"}}}},
		opSpec{"Sub.Unmonitor", []svcUse{{Req: "DeleteMonitoredItemsRequest", N: 2}}},
		opSpec{"Sub.ModifyMonitoredItems", []svcUse{{Req: "ModifyMonitoredItemsRequest", N: 2}}},
		opSpec{"Sub.SetMonitoringMode", []svcUse{{Req: "SetMonitoringModeRequest", N: 2}}},
		opSpec{"Sub.SetTriggering", []svcUse{{Req: "SetTriggeringRequest", N: 1}}},
		opSpec{"Sub.ModifySubscription", []svcUse{{Req: "ModifySubscriptionRequest", N: -1, X: []string{"revised-huge"}}}},
		opSpec{"Sub.Cancel", []svcUse{{Req: "DeleteSubscriptionsRequest", N: 1}}},
		readOp("Sub.Stats", 1),
		opSpec{"Monitor.Subscribe", []svcUse{
			{Req: "CreateSubscriptionRequest", N: -1, X: []string{"id-zero", "revised-huge"}},
			{Req: "CreateMonitoredItemsRequest", N: 2, X: []string{"item-id-zero"}},
		}},
		opSpec{"Monitor.ChanSubscribe", []svcUse{
			{Req: "CreateSubscriptionRequest", N: -1, X: []string{"id-zero", "revised-huge"}},
			{Req: "CreateMonitoredItemsRequest", N: 2, X: []string{"item-id-zero"}},
		}},
		opSpec{"Monitor.AddNodes", []svcUse{{Req: "CreateMonitoredItemsRequest", N: 2, After: 1, X: []string{"item-id-zero"}}}},
		opSpec{"Monitor.AddMonitorItems", []svcUse{{Req: "CreateMonitoredItemsRequest", N: 2, After: 1, X: []string{"item-id-zero"}}}},
		opSpec{"Monitor.RemoveNodes", []svcUse{{Req: "DeleteMonitoredItemsRequest", N: 2}}},
		opSpec{"Monitor.ModifyMonitorItems", []svcUse{{Req: "ModifyMonitoredItemsRequest", N: 2}}},
		opSpec{"Monitor.SetMonitoringModeForNodes", []svcUse{{Req: "SetMonitoringModeRequest", N: 2}}},
		opSpec{"Monitor.Modify", []svcUse{{Req: "ModifySubscriptionRequest", N: -1, X: []string{"revised-huge"}}}},
		opSpec{"Monitor.Unsubscribe", []svcUse{{Req: "DeleteSubscriptionsRequest", N: 1}}},
		readOp("Monitor.Stats", 1),
	)
	return ops
}

// publish-loop operations: the scripted service is Publish, consumed by the
// client's background loop (and, for the monitor package, by its pump).
var publishOps = []string{"PublishLoop", "Monitor.Pump/callback", "Monitor.Pump/chan"}

var publishPayloads = []string{"none", "eo-empty", "eo-unknown-type", "datachange:0", "datachange:1", "datachange:2", "datachange-items-nil",
	"datachange-handle-unknown", "event", "event-empty", "status", "unknown", "datachange:1+status", "eo-empty+datachange:1", "unknown+event"}

func publishCases(op string, thorough bool) []c21case {
	var out []c21case
	mk := func(class string, resps ...shape) {
		out = append(out, c21case{Op: op, Svc: "PublishRequest", Class: class, Script: map[string]*rule{"PublishRequest": {Resps: resps}}})
	}
	notif := func(payload string) shape { return shape{Len: -2, X: "known|next|" + payload} }
	// response type
	mk("type=fault/hdr=bad", shape{Type: "fault-bad", Len: -2})
	mk("type=fault/hdr=good", shape{Type: "fault-good", Len: -2})
	for _, rt := range respTypes {
		if rt.Name == "PublishResponse" || rt.Name == "ServiceFault" {
			continue
		}
		mk("type=other", shape{Type: "other:" + rt.Name, Len: -2})
	}
	// every service result the loop distinguishes, for a known / unknown / zero subscription id
	for _, name := range hdrNames() {
		for _, sub := range []string{"known", "unknown", "zero"} {
			mk("expected/hdr="+name+"/sub="+sub, shape{Hdr: name, Len: -2, X: sub + "|next|none"})
		}
	}
	// subscription id x sequence number x payload
	for _, sub := range []string{"known", "unknown", "zero"} {
		for _, seq := range []string{"next", "other", "zero"} {
			for _, p := range publishPayloads {
				mk("expected/sub="+sub+"/payload="+payloadName(p), shape{Len: -2, X: sub + "|" + seq + "|" + p})
			}
		}
	}
	// value of a data change
	for _, vs := range variantSpecs(thorough) {
		mk("expected/payload=datachange/variant="+variantClass(vs), shape{Len: -2, X: "known|next|datachange:1", Var: vs})
	}
	// acknowledgement results: k notifications first (k pending acknowledgements), then every
	// Results length {nil, 0, k-1, k, k+1} x element status {Good, Bad (retry), BadSubscriptionIdInvalid-like}
	ks := []int{0, 1, 2}
	for _, k := range ks {
		var pre []shape
		for i := 0; i < k; i++ {
			pre = append(pre, notif("datachange:1"))
		}
		for _, l := range lengths(k) {
			for _, bad := range badCombos(l) {
				for _, p := range []string{"none", "datachange:1"} {
					ec := "elems=good"
					if anyBad(bad) {
						ec = "elems=some-bad"
					}
					mk(fmt.Sprintf("expected/acks=%d/len=%s/%s/payload=%s", k, lenClass(l, k), ec, payloadName(p)),
						append(append([]shape{}, pre...), shape{Len: l, Bad: bad, X: "known|next|" + p})...)
				}
			}
		}
	}
	if thorough {
		// two scripted notifications in a row for every ordered pair of payloads
		for _, p1 := range publishPayloads {
			for _, p2 := range publishPayloads {
				mk("expected/two-notifications/payload="+payloadName(p1)+","+payloadName(p2), notif(p1), notif(p2))
			}
		}
		// a bad service result after a notification
		for _, name := range hdrNames() {
			mk("expected/after-notification/hdr="+name, notif("datachange:1"), shape{Hdr: name, Len: -2, X: "known|next|none"})
		}
	}
	return out
}

// hdrNames lists the non-Good service results in a fixed order.
func hdrNames() []string {
	var out []string
	for name := range hdrStatus {
		if name != "" {
			out = append(out, name)
		}
	}
	sort.Strings(out)
	return out
}

func payloadName(p string) string {
	p = strings.ReplaceAll(p, ":0", "-0")
	p = strings.ReplaceAll(p, ":1", "")
	p = strings.ReplaceAll(p, ":2", "-2")
	return p
}

// c21allCases builds the complete, deterministic case list.
func c21allCases(thorough bool) []c21case {
	discoverTypes()
	var out []c21case
	for _, op := range c21ops() {
		for _, su := range op.Svcs {
			out = append(out, gridFor(op, su, thorough)...)
		}
	}
	for _, op := range publishOps {
		out = append(out, publishCases(op, thorough)...)
	}
	if only := os.Getenv("C21_ONLY"); only != "" { // debugging aid: restrict to operations with this prefix
		var f []c21case
		for _, c := range out {
			if strings.HasPrefix(c.Op, only) {
				f = append(f, c)
			}
		}
		out = f
	}
	return out
}

var _ = ua.StatusOK
