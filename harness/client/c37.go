// C37: client and server interoperate under every supported security
// configuration.
//
// The complete finite set: 6 policies x applicable modes x every RSA key size
// within the policy's limits (Part 7) x {anonymous, username}. For every
// configuration a real server (server.New + Start, loopback TCP) enables exactly
// that (policy, mode) pair plus the anonymous and username token types; a real
// client fetches the endpoints (GetEndpoints over an unsecured channel), selects
// the advertised endpoint, connects (OpenSecureChannel, CreateSession,
// ActivateSession), reads a variable, writes a writable variable, reads it back
// and closes. Uninstrumented build, real TCP, default scheduler.
package main

import (
	"context"
	"fmt"
	"os"
	"runtime/debug"
	"time"

	"github.com/gopcua/opcua"
	"github.com/gopcua/opcua/id"
	"github.com/gopcua/opcua/server"
	"github.com/gopcua/opcua/ua"
	"verif/engine/evid"
)

type polSpec struct {
	Name  string
	URI   string
	Modes []ua.MessageSecurityMode
	Bits  []int
}

var secured = []ua.MessageSecurityMode{ua.MessageSecurityModeSign, ua.MessageSecurityModeSignAndEncrypt}

// key size limits per policy: OPC UA Part 7 (MinAsymmetricKeyLength / MaxAsymmetricKeyLength)
var policies = []polSpec{
	{"None", ua.SecurityPolicyURINone, []ua.MessageSecurityMode{ua.MessageSecurityModeNone}, []int{0}},
	{"Basic128Rsa15", ua.SecurityPolicyURIBasic128Rsa15, secured, []int{1024, 2048}},
	{"Basic256", ua.SecurityPolicyURIBasic256, secured, []int{1024, 2048}},
	{"Basic256Sha256", ua.SecurityPolicyURIBasic256Sha256, secured, []int{2048, 3072, 4096}},
	{"Aes128_Sha256_RsaOaep", ua.SecurityPolicyURIAes128Sha256RsaOaep, secured, []int{2048, 3072, 4096}},
	{"Aes256_Sha256_RsaPss", ua.SecurityPolicyURIAes256Sha256RsaPss, secured, []int{2048, 3072, 4096}},
}

type c37case struct {
	Policy     string `json:"policy"`
	Mode       int    `json:"mode"`
	ServerBits int    `json:"server_bits"`
	ClientBits int    `json:"client_bits"`
	Auth       string `json:"auth"`     // anonymous | username
	AllPairs   bool   `json:"allpairs"` // server enables every (policy, mode) pair whose policy admits its key size, instead of only this one
}

func (c c37case) String() string {
	s := fmt.Sprintf("%s/%s/server-rsa%d/client-rsa%d/%s", c.Policy, ua.MessageSecurityMode(c.Mode), c.ServerBits, c.ClientBits, c.Auth)
	if c.AllPairs {
		s += "/all-pairs-enabled"
	}
	return s
}

func c37cases(thorough bool) []c37case {
	var out []c37case
	variants := []bool{false}
	if thorough {
		variants = []bool{false, true}
	}
	for _, all := range variants {
		for _, p := range policies {
			for _, m := range p.Modes {
				for _, sb := range p.Bits {
					cbs := []int{sb}
					if !all {
						cbs = p.Bits // every pair of allowed (server, client) key sizes
					}
					for _, cb := range cbs {
						for _, a := range []string{"anonymous", "username"} {
							if !thorough && cb != sb && a != "anonymous" {
								continue // quick: unequal key sizes with the anonymous token only
							}
							out = append(out, c37case{p.Name, int(m), sb, cb, a, all})
						}
					}
				}
			}
		}
	}
	return out
}

func polByName(n string) polSpec {
	for _, p := range policies {
		if p.Name == n {
			return p
		}
	}
	return polSpec{}
}

// c37run executes one configuration; step names the stage that failed.
func c37run(c c37case) (step, detail string) {
	defer func() {
		if r := recover(); r != nil {
			step, detail = "panic", fmt.Sprintf("%v\n%s", r, debug.Stack())
		}
	}()
	p := polByName(c.Policy)
	mode := ua.MessageSecurityMode(c.Mode)
	var opts []server.Option
	if c.AllPairs {
		// every (policy, mode) pair whose policy admits the server's key size
		for _, q := range policies {
			admits := q.Name == "None"
			for _, b := range q.Bits {
				if b == c.ServerBits {
					admits = true
				}
			}
			if !admits {
				continue
			}
			for _, m := range q.Modes {
				opts = append(opts, server.EnableSecurity(q.Name, m))
			}
		}
	} else {
		opts = append(opts, server.EnableSecurity(p.Name, mode))
	}
	opts = append(opts, server.EnableAuthMode(ua.UserTokenTypeAnonymous), server.EnableAuthMode(ua.UserTokenTypeUserName))
	sb := c.ServerBits
	if sb == 0 {
		sb = 2048
	}
	sid := loadIdent(sb, "a")
	opts = append(opts, server.PrivateKey(sid.Key), server.Certificate(sid.Cert))
	var rw *ua.NodeID
	srvObj, url, stop, err := startServer(opts, func(s *server.Server) {
		ns := server.NewNodeNameSpace(s, "verif")
		s.AddNamespace(ns)
		n := ns.AddNewVariableStringNode("rw_int32", int32(5))
		ns.Objects().AddRef(n, id.HasComponent, true)
		rw = n.ID()
	})
	if err != nil {
		evid.EngineError("C37", "%v", err)
	}
	defer stop()

	ctx, cancel := context.WithTimeout(context.Background(), watchdog)
	defer cancel()

	// The endpoints the server advertises. They are taken from the server object: a server only opens
	// secure channels with the security settings it enabled (C30), so discovery over an unsecured
	// channel is not available unless None/None is enabled.
	eps := advertised(srvObj, url)
	if len(eps) == 0 {
		return "GetEndpoints", "the server advertises no endpoint for " + url
	}
	var ep *ua.EndpointDescription
	for _, e := range eps {
		if e.SecurityPolicyURI == p.URI && e.SecurityMode == mode {
			ep = e
		}
	}
	if ep == nil {
		return "endpoint-not-advertised", fmt.Sprintf("%d endpoints, none with %s/%s", len(eps), p.URI, mode)
	}
	sel, err := opcua.SelectEndpoint(eps, p.URI, mode)
	if err != nil || sel != ep {
		return "SelectEndpoint", fmt.Sprintf("err=%v selected=%v", err, sel)
	}
	authType := ua.UserTokenTypeAnonymous
	if c.Auth == "username" {
		authType = ua.UserTokenTypeUserName
	}
	advertised := false
	for _, t := range ep.UserIdentityTokens {
		if t.TokenType == authType {
			advertised = true
		}
	}
	if !advertised {
		return "not-applicable", "token type not advertised on this endpoint"
	}
	copts := []opcua.Option{opcua.SecurityFromEndpoint(ep, authType), opcua.AutoReconnect(false)}
	if c.ClientBits != 0 {
		cid := loadIdent(c.ClientBits, "b")
		copts = append(copts, opcua.PrivateKey(cid.Key), opcua.Certificate(cid.Cert))
	}
	if c.Auth == "username" {
		copts = append(copts, opcua.AuthUsername("verif-user", "verif-password"))
	} else {
		copts = append(copts, opcua.AuthAnonymous())
	}
	cl, err := opcua.NewClient(ep.EndpointURL, copts...)
	if err != nil {
		return "NewClient", err.Error()
	}
	if err := cl.Connect(ctx); err != nil {
		return "Connect", err.Error()
	}
	defer cl.Close(ctx)
	if cl.State() != opcua.Connected {
		return "Connect", fmt.Sprintf("Connect returned nil but State()=%v", cl.State())
	}
	if cl.Session() == nil {
		return "Connect", "Connect returned nil but the client has no session"
	}
	read := func() (int32, string) {
		res, err := cl.Read(ctx, &ua.ReadRequest{NodesToRead: []*ua.ReadValueID{{NodeID: rw, AttributeID: ua.AttributeIDValue}}, TimestampsToReturn: ua.TimestampsToReturnBoth})
		if err != nil {
			return 0, err.Error()
		}
		if len(res.Results) != 1 || res.Results[0].Status != ua.StatusOK || res.Results[0].Value == nil {
			return 0, fmt.Sprintf("read result %+v", res.Results)
		}
		v, ok := res.Results[0].Value.Value().(int32)
		if !ok {
			return 0, fmt.Sprintf("read value %T", res.Results[0].Value.Value())
		}
		return v, ""
	}
	v0, e := read()
	if e != "" {
		return "Read", e
	}
	if v0 != 5 {
		return "Read", fmt.Sprintf("initial value %d, want 5", v0)
	}
	want := int32(1000 + c.ServerBits/8 + c.Mode)
	wres, err := cl.Write(ctx, &ua.WriteRequest{NodesToWrite: []*ua.WriteValue{{NodeID: rw, AttributeID: ua.AttributeIDValue,
		Value: &ua.DataValue{EncodingMask: ua.DataValueValue, Value: ua.MustVariant(want)}}}})
	if err != nil {
		return "Write", err.Error()
	}
	if len(wres.Results) != 1 || wres.Results[0] != ua.StatusOK {
		return "Write", fmt.Sprintf("write results %v", wres.Results)
	}
	v1, e := read()
	if e != "" {
		return "ReadBack", e
	}
	if v1 != want {
		return "ReadBack", fmt.Sprintf("read back %d after writing %d", v1, want)
	}
	if err := cl.Close(ctx); err != nil {
		return "Close", err.Error()
	}
	if cl.State() != opcua.Closed {
		return "Close", fmt.Sprintf("State()=%v after Close", cl.State())
	}
	return "", ""
}

func runC37() {
	r := evid.New("C37")
	var rc c37case
	if evid.ReplayInput(&rc) {
		step, detail := c37run(rc)
		fmt.Printf("replay %s -> failed-step=%q detail=%q\n", rc, step, detail)
		if step != "" && step != "not-applicable" {
			os.Exit(1)
		}
		return
	}
	cases := c37cases(evid.Thorough())
	r.Rule(fmt.Sprintf("the complete set of %d configurations: 6 policies x applicable modes (None: None; others: Sign, SignAndEncrypt) x RSA key sizes within the policy's Part 7 limits (1024/2048 for Basic128Rsa15 and Basic256; 2048/3072/4096 for the SHA-256 policies; every (server size, client size) pair (quick: unequal sizes with the anonymous token only), and in the thorough tier additionally, with equal key sizes, a server that enables at once every pair whose policy admits its key size) x {anonymous, username}; one real server + one real client per configuration over loopback TCP; non-trivial = the token type is advertised on the selected endpoint and the whole sequence GetEndpoints/select/Connect/Read/Write/ReadBack/Close was executed, distinct by configuration", len(cases)))
	r.Assume("server and client run in one process over real loopback TCP with the default Go scheduler; the password of the username token is not checked by the server (it accepts any), so 'username' exercises password encryption and token encoding on the client and decoding on the server only")
	start := time.Now()
	deaths := evid.Sharded(r, 0, func(s evid.ShardInfo, w *evid.Run) {
		quiet()
		for i, c := range cases {
			if !s.Mine(int64(i)) {
				continue
			}
			evid.Publish(c.String())
			step, detail := c37run(c)
			switch step {
			case "":
				w.Eval(c.String())
				w.Outcome("interoperates")
				w.Sample(c)
			case "not-applicable":
				w.Eval("")
				w.Outcome("token-type-not-advertised")
			default:
				w.Eval(c.String())
				w.Outcome("failed:" + step)
				cls := "same-key-size"
				if c.ServerBits != c.ClientBits {
					cls = "mixed-key-sizes"
				}
				if c.AllPairs {
					cls += "/all-pairs-enabled"
				}
				w.Violate(fmt.Sprintf("interop/%s/%s/%s/%s/%s", c.Policy, ua.MessageSecurityMode(c.Mode), c.Auth, cls, step), c.String()+": "+detail, c)
			}
		}
	})
	for _, d := range deaths {
		r.Eval(d.LastCase)
		r.Violate("interop/worker-died/"+topRepoFrame(panicText(d.Stderr)), d.LastCase+": "+d.ExitErr+"\n"+panicText(d.Stderr), nil)
	}
	r.Set("configurations", len(cases))
	_ = start
	r.Finish()
}
