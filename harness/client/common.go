// Shared helpers of the client checks (C21, C22, C23, C37): key material, real
// servers on loopback TCP, panic-stack parsing.
package main

import (
	"context"
	"crypto/rand"
	"crypto/rsa"
	"crypto/x509"
	"crypto/x509/pkix"
	"encoding/pem"
	"fmt"
	"github.com/gopcua/opcua/ua"
	"io"
	"log"
	"math/big"
	"net"
	"net/url"
	"os"
	"os/exec"
	"path/filepath"
	"strings"
	"time"

	"github.com/gopcua/opcua/server"
	"verif/engine/evid"
)

// watchdog is the generous bound after which a client call that has not
// returned counts as "does not return". Normal latency is about a millisecond.
const watchdog = 30 * time.Second

func quiet() { log.SetOutput(io.Discard) }

// ---- key material -----------------------------------------------------------
//
// /verif/testdata/keys holds rsa<bits>-a and rsa<bits>-b (server and client
// identities); /verif/testdata/keys-client holds rsa<bits>-c, a third identity
// of the same size used by C22 for "signature made with another key" and
// "signature over another certificate". Nothing is generated at check time.

type ident struct {
	Key     *rsa.PrivateKey
	Cert    []byte // DER
	KeyPEM  string // file names (for the ...File options)
	CertPEM string
	CertDER string
	KeyDER  string
}

func keyDir(role string) string {
	if role == "c" {
		return filepath.Join(evid.Root(), "testdata", "keys-client")
	}
	return filepath.Join(evid.Root(), "testdata", "keys")
}

var identCache = map[string]*ident{}

func loadIdent(bits int, role string) *ident {
	k := fmt.Sprintf("rsa%d-%s", bits, role)
	if id, ok := identCache[k]; ok {
		return id
	}
	base := filepath.Join(keyDir(role), k)
	id := &ident{KeyPEM: base + ".key.pem", CertPEM: base + ".cert.pem", CertDER: base + ".cert.der", KeyDER: base + ".key.der"}
	kb, err := os.ReadFile(id.KeyDER)
	if err != nil {
		evid.EngineError(os.Args[1], "key material missing: %v (run: go run -tags verif ./harness/client keygen)", err)
	}
	id.Key, err = x509.ParsePKCS1PrivateKey(kb)
	if err != nil {
		evid.EngineError(os.Args[1], "parse %s: %v", id.KeyDER, err)
	}
	id.Cert, err = os.ReadFile(id.CertDER)
	if err != nil {
		evid.EngineError(os.Args[1], "key material missing: %v", err)
	}
	identCache[k] = id
	return id
}

// keygen writes the rsa<bits>-c identities once (never called by a check).
func keygen() {
	dir := keyDir("c")
	os.MkdirAll(dir, 0o755)
	for _, bits := range []int{1024, 2048, 3072, 4096} {
		name := fmt.Sprintf("rsa%d-c", bits)
		base := filepath.Join(dir, name)
		if _, err := os.Stat(base + ".key.der"); err == nil {
			continue
		}
		key, err := rsa.GenerateKey(rand.Reader, bits)
		if err != nil {
			panic(err)
		}
		uri, _ := url.Parse("urn:verif:testkey:" + name)
		tmpl := x509.Certificate{
			SerialNumber:          big.NewInt(int64(bits) + 3),
			Subject:               pkix.Name{Organization: []string{"verif"}, CommonName: "verif " + name},
			NotBefore:             time.Date(2020, 1, 1, 0, 0, 0, 0, time.UTC),
			NotAfter:              time.Date(2120, 1, 1, 0, 0, 0, 0, time.UTC),
			KeyUsage:              x509.KeyUsageContentCommitment | x509.KeyUsageKeyEncipherment | x509.KeyUsageDigitalSignature | x509.KeyUsageDataEncipherment | x509.KeyUsageCertSign,
			ExtKeyUsage:           []x509.ExtKeyUsage{x509.ExtKeyUsageServerAuth, x509.ExtKeyUsageClientAuth},
			BasicConstraintsValid: true,
			DNSNames:              []string{"localhost"},
			URIs:                  []*url.URL{uri},
		}
		der, err := x509.CreateCertificate(rand.Reader, &tmpl, &tmpl, &key.PublicKey, key)
		if err != nil {
			panic(err)
		}
		kder := x509.MarshalPKCS1PrivateKey(key)
		os.WriteFile(base+".key.der", kder, 0o644)
		os.WriteFile(base+".cert.der", der, 0o644)
		os.WriteFile(base+".key.pem", pem.EncodeToMemory(&pem.Block{Type: "RSA PRIVATE KEY", Bytes: kder}), 0o644)
		os.WriteFile(base+".cert.pem", pem.EncodeToMemory(&pem.Block{Type: "CERTIFICATE", Bytes: der}), 0o644)
		fmt.Println("wrote", base)
	}
}

// ---- servers ----------------------------------------------------------------

func freePort() int {
	l, err := net.Listen("tcp", "127.0.0.1:0")
	if err != nil {
		return 0
	}
	p := l.Addr().(*net.TCPAddr).Port
	l.Close()
	return p
}

// startServer builds a real server (server.New + Start) on a fresh loopback
// port. setup runs between New and Start: that is where RegisterHandler
// overrides (which win when registered before Start) and nodes are installed.
//
// The returned stop function closes the server and cancels the context its
// goroutines run under (otherwise monitorConnections keeps the whole address
// space of every server ever started alive).
func startServer(opts []server.Option, setup func(*server.Server)) (*server.Server, string, func(), error) {
	var lastErr error
	for try := 0; try < 20; try++ {
		port := freePort()
		if port == 0 {
			continue
		}
		o := append([]server.Option{}, opts...)
		o = append(o, server.EndPoint("127.0.0.1", port))
		s := server.New(o...)
		if setup != nil {
			setup(s)
		}
		ctx, cancel := context.WithCancel(context.Background())
		if err := s.Start(ctx); err != nil {
			cancel()
			lastErr = err
			continue
		}
		stop := func() { s.Close(); cancel() }
		return s, fmt.Sprintf("opc.tcp://127.0.0.1:%d", port), stop, nil
	}
	return nil, "", nil, fmt.Errorf("could not start a server: %v", lastErr)
}

// ---- panic stacks -----------------------------------------------------------

// topRepoFrame returns the function at which a panic happened, read from a Go
// stack dump (debug.Stack() inside a recover, or the crash output of a dead
// process): the first frame of the panicking goroutine that lies in the client
// packages (github.com/gopcua/opcua or .../monitor); if there is none, the first
// frame in any package of the repository. Line numbers are never included.
func topRepoFrame(stack string) string {
	if i := strings.Index(stack, "goroutine "); i >= 0 {
		stack = stack[i:]
	}
	if j := strings.Index(stack, "\n\n"); j >= 0 {
		stack = stack[:j]
	}
	first := ""
	for _, line := range strings.Split(stack, "\n") {
		if strings.HasPrefix(line, "\t") || strings.HasPrefix(line, " ") {
			continue // file:line
		}
		line = strings.TrimSpace(line)
		line = strings.TrimPrefix(line, "created by ")
		if !strings.HasPrefix(line, "github.com/gopcua/opcua") {
			continue
		}
		fn := line
		if k := strings.LastIndex(fn, "("); k > 0 && !strings.HasSuffix(fn[:k], ".") {
			fn = fn[:k]
		}
		if k := strings.Index(fn, " in goroutine"); k > 0 {
			fn = fn[:k]
		}
		fn = strings.TrimPrefix(fn, "github.com/gopcua/opcua")
		fn = strings.TrimPrefix(fn, "/")
		if strings.HasPrefix(fn, ".") {
			return "opcua" + fn
		}
		if strings.HasPrefix(fn, "monitor.") {
			return fn
		}
		if first == "" {
			first = fn
		}
	}
	if first == "" {
		return "?"
	}
	return first
}

// panicText extracts "panic: ..." up to the end of the panicking goroutine from
// the stderr tail of a dead worker.
func panicText(stderr string) string {
	i := strings.LastIndex(stderr, "panic: ")
	if j := strings.LastIndex(stderr, "fatal error: "); j > i {
		i = j
	}
	if i < 0 {
		if len(stderr) > 1500 {
			return stderr[len(stderr)-1500:]
		}
		return stderr
	}
	s := stderr[i:]
	// keep the header and the first goroutine block
	if k := strings.Index(s, "\ngoroutine "); k >= 0 {
		rest := s[k+1:]
		if e := strings.Index(rest, "\n\n"); e >= 0 {
			rest = rest[:e]
		}
		s = s[:k+1] + rest
	}
	return s
}

// panicKind classifies a panic message without its variable parts.
func panicKind(msg string) string {
	switch {
	case strings.Contains(msg, "index out of range"):
		return "index-out-of-range"
	case strings.Contains(msg, "interface conversion"):
		return "type-assertion"
	case strings.Contains(msg, "nil pointer dereference"):
		return "nil-dereference"
	case strings.Contains(msg, "slice bounds out of range"):
		return "slice-bounds"
	case strings.Contains(msg, "close of closed channel"):
		return "double-close"
	case strings.Contains(msg, "all goroutines are asleep"):
		return "deadlock"
	}
	return "panic"
}

func min(a, b int) int {
	if a < b {
		return a
	}
	return b
}

// newSelfCommand re-executes this binary with the same arguments.
func newSelfCommand() *exec.Cmd { return exec.Command(os.Args[0], os.Args[1:]...) }

// advertised returns the endpoint descriptions the server advertises for the given URL.
func advertised(s *server.Server, url string) []*ua.EndpointDescription {
	var out []*ua.EndpointDescription
	for _, e := range s.Endpoints() {
		if e.EndpointURL == url {
			out = append(out, e)
		}
	}
	return out
}
