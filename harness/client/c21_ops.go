// C21 client side: the operations, the per-case driver and the quiescence
// detection for background goroutines.
package main

import (
	"context"
	"fmt"
	"runtime"
	"runtime/debug"
	"strings"
	"sync"
	"sync/atomic"
	"time"

	"github.com/gopcua/opcua"
	"github.com/gopcua/opcua/monitor"
	"github.com/gopcua/opcua/ua"
)

var (
	nid1 = ua.NewNumericNodeID(1, 1001)
	nid2 = ua.NewNumericNodeID(1, 1002)
	nid3 = ua.NewNumericNodeID(1, 1003)
)

const (
	node1 = "ns=1;i=1001"
	node2 = "ns=1;i=1002"
	node3 = "ns=1;i=1003"
)

type opCtx struct {
	ctx    context.Context
	cancel context.CancelFunc
	srv    *c21srv
	cl     *opcua.Client
	c      c21case

	notifs    chan *opcua.PublishNotificationData
	monCh     chan *monitor.DataChangeMessage
	delivered int64 // notifications / messages / errors seen by the application side
	pump      bool  // a monitor pump goroutine exists
	publish   bool  // wait for the publish loop to digest the script
}

func (x *opCtx) drain() {
	x.notifs = make(chan *opcua.PublishNotificationData, 4)
	x.monCh = make(chan *monitor.DataChangeMessage, 64)
	go func() {
		for {
			select {
			case <-x.ctx.Done():
				return
			case <-x.notifs:
				atomic.AddInt64(&x.delivered, 1)
			case m := <-x.monCh:
				if m != nil && m.DataValue != nil {
					_ = m.Value // what an application does with a message
				}
				atomic.AddInt64(&x.delivered, 1)
			}
		}
	}()
}

func rv(n *ua.NodeID, a ua.AttributeID) *ua.ReadValueID {
	return &ua.ReadValueID{NodeID: n, AttributeID: a}
}

func (x *opCtx) subscribe() (*opcua.Subscription, error) {
	return x.cl.Subscribe(x.ctx, &opcua.SubscriptionParameters{Interval: 100 * time.Millisecond}, x.notifs)
}

func (x *opCtx) subWithItems() (*opcua.Subscription, []uint32, error) {
	sub, err := x.subscribe()
	if err != nil {
		return nil, nil, fmt.Errorf("set-up Subscribe: %v", err)
	}
	res, err := sub.Monitor(x.ctx, ua.TimestampsToReturnBoth,
		opcua.NewMonitoredItemCreateRequestWithDefaults(nid1, ua.AttributeIDValue, 101),
		opcua.NewMonitoredItemCreateRequestWithDefaults(nid2, ua.AttributeIDValue, 102))
	if err != nil {
		return nil, nil, fmt.Errorf("set-up Monitor: %v", err)
	}
	var ids []uint32
	for _, r := range res.Results {
		ids = append(ids, r.MonitoredItemID)
	}
	return sub, ids, nil
}

type setupError struct{ error }

func (x *opCtx) nodeMonitor() *monitor.NodeMonitor {
	m, _ := monitor.NewNodeMonitor(x.cl)
	m.SetErrorHandler(func(_ *opcua.Client, _ *monitor.Subscription, err error) { atomic.AddInt64(&x.delivered, 1) })
	return m
}

func (x *opCtx) monSub(nodes ...string) (*monitor.Subscription, error) {
	x.pump = true
	s, err := x.nodeMonitor().ChanSubscribe(x.ctx, &opcua.SubscriptionParameters{Interval: 100 * time.Millisecond}, x.monCh, nodes...)
	if err != nil {
		x.pump = false
		return nil, setupError{fmt.Errorf("set-up ChanSubscribe: %v", err)}
	}
	return s, nil
}

// runOp performs the client operation of the case. The script is already armed
// (for "Connect" the client is not connected yet, for all others it is).
func (x *opCtx) runOp() error {
	ctx, cl := x.ctx, x.cl
	n := cl.Node(nid1)
	mp := &ua.MonitoringParameters{SamplingInterval: 50, QueueSize: 5, DiscardOldest: true}
	switch x.c.Op {
	case "Connect":
		return cl.Connect(ctx)
	case "Close":
		return cl.Close(ctx)
	case "Read":
		_, err := cl.Read(ctx, &ua.ReadRequest{NodesToRead: []*ua.ReadValueID{rv(nid1, ua.AttributeIDValue), rv(nid2, ua.AttributeIDBrowseName)}})
		return err
	case "Write":
		wv := func(n *ua.NodeID) *ua.WriteValue {
			return &ua.WriteValue{NodeID: n, AttributeID: ua.AttributeIDValue, Value: &ua.DataValue{EncodingMask: ua.DataValueValue, Value: ua.MustVariant(int32(1))}}
		}
		_, err := cl.Write(ctx, &ua.WriteRequest{NodesToWrite: []*ua.WriteValue{wv(nid1), wv(nid2)}})
		return err
	case "Browse":
		bd := func(n *ua.NodeID) *ua.BrowseDescription {
			return &ua.BrowseDescription{NodeID: n, BrowseDirection: ua.BrowseDirectionForward, IncludeSubtypes: true, ResultMask: uint32(ua.BrowseResultMaskAll)}
		}
		_, err := cl.Browse(ctx, &ua.BrowseRequest{NodesToBrowse: []*ua.BrowseDescription{bd(nid1), bd(nid2)}})
		return err
	case "BrowseNext":
		_, err := cl.BrowseNext(ctx, &ua.BrowseNextRequest{ContinuationPoints: [][]byte{{1, 2, 3}}})
		return err
	case "Call":
		_, err := cl.Call(ctx, &ua.CallMethodRequest{ObjectID: nid1, MethodID: nid2, InputArguments: []*ua.Variant{ua.MustVariant(int32(1))}})
		return err
	case "RegisterNodes":
		_, err := cl.RegisterNodes(ctx, &ua.RegisterNodesRequest{NodesToRegister: []*ua.NodeID{nid1, nid2}})
		return err
	case "UnregisterNodes":
		_, err := cl.UnregisterNodes(ctx, &ua.UnregisterNodesRequest{NodesToUnregister: []*ua.NodeID{nid1, nid2}})
		return err
	case "FindServers":
		_, err := cl.FindServers(ctx)
		return err
	case "FindServersOnNetwork":
		_, err := cl.FindServersOnNetwork(ctx)
		return err
	case "GetEndpoints":
		_, err := cl.GetEndpoints(ctx)
		return err
	case "HistoryReadRawModified":
		_, err := cl.HistoryReadRawModified(ctx, []*ua.HistoryReadValueID{{NodeID: nid1, DataEncoding: &ua.QualifiedName{}}, {NodeID: nid2, DataEncoding: &ua.QualifiedName{}}},
			&ua.ReadRawModifiedDetails{StartTime: time.Unix(0, 0), EndTime: time.Unix(100, 0), NumValuesPerNode: 10})
		return err
	case "HistoryReadEvent":
		_, err := cl.HistoryReadEvent(ctx, []*ua.HistoryReadValueID{{NodeID: nid1, DataEncoding: &ua.QualifiedName{}}, {NodeID: nid2, DataEncoding: &ua.QualifiedName{}}},
			&ua.ReadEventDetails{StartTime: time.Unix(0, 0), EndTime: time.Unix(100, 0), NumValuesPerNode: 10, Filter: &ua.EventFilter{WhereClause: &ua.ContentFilter{}}})
		return err
	case "HistoryReadProcessed":
		_, err := cl.HistoryReadProcessed(ctx, []*ua.HistoryReadValueID{{NodeID: nid1, DataEncoding: &ua.QualifiedName{}}, {NodeID: nid2, DataEncoding: &ua.QualifiedName{}}},
			&ua.ReadProcessedDetails{StartTime: time.Unix(0, 0), EndTime: time.Unix(100, 0), ProcessingInterval: 10, AggregateConfiguration: &ua.AggregateConfiguration{}})
		return err
	case "HistoryReadAtTime":
		_, err := cl.HistoryReadAtTime(ctx, []*ua.HistoryReadValueID{{NodeID: nid1, DataEncoding: &ua.QualifiedName{}}, {NodeID: nid2, DataEncoding: &ua.QualifiedName{}}},
			&ua.ReadAtTimeDetails{ReqTimes: []time.Time{time.Unix(1, 0)}})
		return err
	case "NamespaceArray":
		_, err := cl.NamespaceArray(ctx)
		return err
	case "FindNamespace":
		_, err := cl.FindNamespace(ctx, "urn:verif")
		return err
	case "UpdateNamespaces":
		return cl.UpdateNamespaces(ctx)
	case "Node.NodeClass":
		_, err := n.NodeClass(ctx)
		return err
	case "Node.BrowseName":
		_, err := n.BrowseName(ctx)
		return err
	case "Node.Description":
		_, err := n.Description(ctx)
		return err
	case "Node.DisplayName":
		_, err := n.DisplayName(ctx)
		return err
	case "Node.AccessLevel":
		_, err := n.AccessLevel(ctx)
		return err
	case "Node.HasAccessLevel":
		_, err := n.HasAccessLevel(ctx, ua.AccessLevelTypeCurrentRead)
		return err
	case "Node.UserAccessLevel":
		_, err := n.UserAccessLevel(ctx)
		return err
	case "Node.HasUserAccessLevel":
		_, err := n.HasUserAccessLevel(ctx, ua.AccessLevelTypeCurrentRead)
		return err
	case "Node.Value":
		_, err := n.Value(ctx)
		return err
	case "Node.Attribute":
		_, err := n.Attribute(ctx, ua.AttributeIDDataType)
		return err
	case "Node.Attributes":
		_, err := n.Attributes(ctx, ua.AttributeIDValue, ua.AttributeIDBrowseName)
		return err
	case "Node.Children":
		_, err := n.Children(ctx, 0, 0)
		return err
	case "Node.ReferencedNodes":
		_, err := n.ReferencedNodes(ctx, 0, ua.BrowseDirectionBoth, 0, true)
		return err
	case "Node.References":
		_, err := n.References(ctx, 0, ua.BrowseDirectionForward, 0, true)
		return err
	case "Node.TranslateBrowsePathsToNodeIDs":
		_, err := n.TranslateBrowsePathsToNodeIDs(ctx, []*ua.QualifiedName{{NamespaceIndex: 1, Name: "a"}, {NamespaceIndex: 1, Name: "b"}})
		return err
	case "Node.TranslateBrowsePathInNamespaceToNodeID":
		_, err := n.TranslateBrowsePathInNamespaceToNodeID(ctx, 1, "a.b")
		return err
	case "Subscribe":
		_, err := x.subscribe()
		return err
	case "Subscribe.second":
		if _, err := x.subscribe(); err != nil {
			return setupError{fmt.Errorf("set-up Subscribe: %v", err)}
		}
		_, err := x.subscribe()
		return err
	case "Sub.Monitor":
		sub, err := x.subscribe()
		if err != nil {
			return setupError{err}
		}
		_, err = sub.Monitor(ctx, ua.TimestampsToReturnBoth,
			opcua.NewMonitoredItemCreateRequestWithDefaults(nid1, ua.AttributeIDValue, 101),
			opcua.NewMonitoredItemCreateRequestWithDefaults(nid2, ua.AttributeIDValue, 102))
		return err
	case "Sub.Unmonitor", "Sub.ModifyMonitoredItems", "Sub.SetMonitoringMode", "Sub.SetTriggering":
		sub, ids, err := x.subWithItems()
		if err != nil {
			return setupError{err}
		}
		switch x.c.Op {
		case "Sub.Unmonitor":
			_, err = sub.Unmonitor(ctx, ids...)
		case "Sub.ModifyMonitoredItems":
			_, err = sub.ModifyMonitoredItems(ctx, ua.TimestampsToReturnSource,
				&ua.MonitoredItemModifyRequest{MonitoredItemID: ids[0], RequestedParameters: mp},
				&ua.MonitoredItemModifyRequest{MonitoredItemID: ids[1], RequestedParameters: mp})
		case "Sub.SetMonitoringMode":
			_, err = sub.SetMonitoringMode(ctx, ua.MonitoringModeSampling, ids...)
		case "Sub.SetTriggering":
			_, err = sub.SetTriggering(ctx, ids[0], []uint32{ids[1]}, []uint32{ids[1]})
		}
		return err
	case "Sub.ModifySubscription":
		sub, err := x.subscribe()
		if err != nil {
			return setupError{err}
		}
		_, err = sub.ModifySubscription(ctx, opcua.SubscriptionParameters{Interval: 250 * time.Millisecond})
		return err
	case "Sub.Cancel":
		sub, _, err := x.subWithItems()
		if err != nil {
			return setupError{err}
		}
		return sub.Cancel(ctx)
	case "Sub.Stats":
		sub, err := x.subscribe()
		if err != nil {
			return setupError{err}
		}
		_, err = sub.Stats(ctx)
		return err
	case "Monitor.Subscribe":
		x.pump = true
		_, err := x.nodeMonitor().Subscribe(ctx, nil, func(*monitor.Subscription, *monitor.DataChangeMessage) { atomic.AddInt64(&x.delivered, 1) }, node1, node2)
		if err != nil {
			x.pump = false
		}
		return err
	case "Monitor.ChanSubscribe":
		x.pump = true
		_, err := x.nodeMonitor().ChanSubscribe(ctx, nil, x.monCh, node1, node2)
		if err != nil {
			x.pump = false
		}
		return err
	case "Monitor.AddNodes":
		s, err := x.monSub(node1)
		if err != nil {
			return err
		}
		return s.AddNodes(ctx, node2, node3)
	case "Monitor.AddMonitorItems":
		s, err := x.monSub(node1)
		if err != nil {
			return err
		}
		_, err = s.AddMonitorItems(ctx, monitor.Request{NodeID: nid2, MonitoringMode: ua.MonitoringModeReporting, MonitoringParameters: mp},
			monitor.Request{NodeID: nid3, MonitoringMode: ua.MonitoringModeReporting})
		return err
	case "Monitor.RemoveNodes", "Monitor.ModifyMonitorItems", "Monitor.SetMonitoringModeForNodes", "Monitor.Modify", "Monitor.Unsubscribe", "Monitor.Stats":
		s, err := x.monSub(node1, node2)
		if err != nil {
			return err
		}
		switch x.c.Op {
		case "Monitor.RemoveNodes":
			return s.RemoveNodes(ctx, node1, node2)
		case "Monitor.ModifyMonitorItems":
			return s.ModifyMonitorItems(ctx, monitor.Request{NodeID: nid1, MonitoringParameters: mp}, monitor.Request{NodeID: nid2, MonitoringParameters: &ua.MonitoringParameters{QueueSize: 2}})
		case "Monitor.SetMonitoringModeForNodes":
			return s.SetMonitoringModeForNodes(ctx, ua.MonitoringModeSampling, node1, node2)
		case "Monitor.Modify":
			return s.Modify(ctx, &opcua.SubscriptionParameters{Interval: 250 * time.Millisecond})
		case "Monitor.Unsubscribe":
			return s.Unsubscribe(ctx)
		case "Monitor.Stats":
			_, err := s.Stats(ctx)
			return err
		}
	case "PublishLoop":
		x.publish = true
		_, _, err := x.subWithItems()
		if err != nil {
			return setupError{err}
		}
		return nil
	case "Monitor.Pump/callback":
		x.publish, x.pump = true, true
		_, err := x.nodeMonitor().Subscribe(ctx, &opcua.SubscriptionParameters{Interval: 100 * time.Millisecond},
			func(_ *monitor.Subscription, m *monitor.DataChangeMessage) {
				if m != nil && m.DataValue != nil {
					_ = m.Value
				}
				atomic.AddInt64(&x.delivered, 1)
			}, node1, node2)
		if err != nil {
			x.pump = false
			return setupError{err}
		}
		return nil
	case "Monitor.Pump/chan":
		x.publish = true
		_, err := x.monSub(node1, node2)
		return err
	}
	return setupError{fmt.Errorf("unknown operation %q", x.c.Op)}
}

// ---- goroutine states ---------------------------------------------------------

type gState struct {
	state string   // "select", "chan receive", "running", ...
	funcs []string // function names, innermost first
}

var stackBuf = make([]byte, 1<<20)
var stackMu sync.Mutex

func goroutines() []gState {
	stackMu.Lock()
	defer stackMu.Unlock()
	n := runtime.Stack(stackBuf, true)
	for n == len(stackBuf) {
		stackBuf = make([]byte, 2*len(stackBuf))
		n = runtime.Stack(stackBuf, true)
	}
	var out []gState
	for _, blk := range strings.Split(string(stackBuf[:n]), "\n\n") {
		lines := strings.Split(blk, "\n")
		if len(lines) == 0 || !strings.HasPrefix(lines[0], "goroutine ") {
			continue
		}
		g := gState{}
		if i := strings.Index(lines[0], "["); i >= 0 {
			st := lines[0][i+1:]
			if j := strings.IndexAny(st, ",]"); j >= 0 {
				st = st[:j]
			}
			g.state = st
		}
		for _, l := range lines[1:] {
			if strings.HasPrefix(l, "\t") || strings.HasPrefix(l, "created by ") {
				continue
			}
			if k := strings.LastIndex(l, "("); k > 0 {
				l = l[:k]
			}
			g.funcs = append(g.funcs, l)
		}
		out = append(out, g)
	}
	return out
}

const (
	fnLoop   = "github.com/gopcua/opcua.(*Client).monitorSubscriptions"
	fnPump   = "github.com/gopcua/opcua/monitor.(*Subscription).pump"
	fnNotify = "github.com/gopcua/opcua.(*Subscription).notify"
)

func firstRepoFunc(g gState) string {
	for _, f := range g.funcs {
		if strings.HasPrefix(f, "github.com/gopcua/opcua") {
			return f
		}
	}
	return ""
}

// parkedAt: a goroutine whose innermost repository frame is fn is blocked in a select.
func parkedAt(gs []gState, fn string) bool {
	for _, g := range gs {
		if g.state == "select" && firstRepoFunc(g) == fn {
			return true
		}
	}
	return false
}

func anyIn(gs []gState, fns ...string) bool {
	for _, g := range gs {
		for _, f := range g.funcs {
			for _, fn := range fns {
				if strings.HasPrefix(f, fn) {
					return true
				}
			}
		}
	}
	return false
}

func clientGoroutineDump() string {
	var b strings.Builder
	for _, g := range goroutines() {
		if anyIn([]gState{g}, "github.com/gopcua/opcua.", "github.com/gopcua/opcua/monitor.") {
			fmt.Fprintf(&b, "[%s] %s\n", g.state, strings.Join(g.funcs, " <- "))
		}
	}
	return b.String()
}

// waitDigest waits until the publish loop (and the monitor pump) have digested
// every scripted Publish response. It relies only on states that cannot be
// reached before the processing is complete:
//   - the server has received a Publish request beyond the scripted ones (the
//     loop sends the next request only after handling the previous response), or
//     the loop is parked in its pause select (it pauses itself after an error) -
//     the first Publish request has been seen before, so this is not the initial
//     pause;
//   - no error-notification goroutine (go sub.notify) is left;
//   - the pump, if any, is parked in its select (its channel is then empty).
func (x *opCtx) waitDigest() (hung bool, detail string) {
	total := 0
	if r := x.c.Script["PublishRequest"]; r != nil {
		total = r.After + len(r.Resps)
	}
	deadline := time.Now().Add(watchdog)
	stable := 0
	for {
		gs := goroutines()
		loopDone := x.srv.seen("PublishRequest") > total || parkedAt(gs, fnLoop) || !anyIn(gs, fnLoop)
		ok := loopDone && !anyIn(gs, fnNotify) && (!x.pump || parkedAt(gs, fnPump) || !anyIn(gs, fnPump))
		if ok {
			stable++
			if stable >= 2 {
				return false, ""
			}
		} else {
			stable = 0
		}
		if time.Now().After(deadline) {
			return true, clientGoroutineDump()
		}
		time.Sleep(200 * time.Microsecond)
	}
}

// waitClientGone waits (bounded, not judged) until the goroutines of the closed client have exited.
func waitClientGone() bool {
	deadline := time.Now().Add(5 * time.Second)
	for {
		if !anyIn(goroutines(), "github.com/gopcua/opcua.(*Client)", "github.com/gopcua/opcua.(*Subscription)", fnPump, "github.com/gopcua/opcua/uasc.(*SecureChannel).dispatcher") {
			return true
		}
		if time.Now().After(deadline) {
			return false
		}
		time.Sleep(200 * time.Microsecond)
	}
}

// ---- one case ---------------------------------------------------------------

type c21result struct {
	Outcome string // returned | returned-error | panic | hang | setup-failed
	Phase   string // operation | digest | close
	Err     string
	Panic   string
	Stack   string
	Detail  string
}

func guarded(f func() error) (err error, pnc string, stack string) {
	defer func() {
		if r := recover(); r != nil {
			pnc, stack = fmt.Sprint(r), string(debug.Stack())
		}
	}()
	return f(), "", ""
}

// withWatchdog runs f in a goroutine; hung reports that it did not return in time.
func withWatchdog(f func() error) (err error, pnc, stack string, hung bool) {
	type res struct {
		err        error
		pnc, stack string
	}
	ch := make(chan res, 1)
	go func() {
		e, p, s := guarded(f)
		ch <- res{e, p, s}
	}()
	select {
	case r := <-ch:
		return r.err, r.pnc, r.stack, false
	case <-time.After(watchdog):
		return nil, "", "", true
	}
}

func c21run(srv *c21srv, c c21case) (res c21result, engineErr string) {
	ctx, cancel := context.WithCancel(context.Background())
	defer cancel()
	x := &opCtx{ctx: ctx, cancel: cancel, srv: srv, c: c}
	x.drain()
	srv.reset()
	timeout := 10 * time.Second
	for _, r := range c.Script {
		for _, sh := range r.Resps {
			if sh.Type == "other:OpenSecureChannelResponse" {
				// the client's dispatcher stops reading after this response; keep the
				// teardown (CloseSession waits for its request timeout) short
				timeout = 1500 * time.Millisecond
			}
		}
	}
	cl, err := opcua.NewClient(srv.url, opcua.AutoReconnect(false), opcua.RequestTimeout(timeout))
	if err != nil {
		return res, "NewClient: " + err.Error()
	}
	x.cl = cl
	if c.Op != "Connect" {
		if err := cl.Connect(ctx); err != nil {
			return res, "set-up Connect failed: " + err.Error()
		}
		// Let the publish loop reach its initial pause before anything subscribes:
		// if Subscribe's resume token is already there when the loop starts, the
		// loop may consume it before the initial pause token and then stay paused
		// for ever (a start-up race of the client that belongs to C27, not to C21).
		deadline := time.Now().Add(watchdog)
		for !parkedAt(goroutines(), fnLoop) {
			if time.Now().After(deadline) {
				return res, "the publish loop did not reach its initial pause"
			}
			time.Sleep(100 * time.Microsecond)
		}
	}
	srv.arm(c.Script)

	finish := func(outcome, phase string) {
		res.Outcome, res.Phase = outcome, phase
	}
	opErr, pnc, stack, hung := withWatchdog(x.runOp)
	switch {
	case hung:
		finish("hang", "operation")
		res.Detail = clientGoroutineDump()
		return res, ""
	case pnc != "":
		finish("panic", "operation")
		res.Panic, res.Stack = pnc, stack
	default:
		if se, ok := opErr.(setupError); ok {
			return res, "set-up of " + c.Op + " failed: " + se.Error()
		}
		if opErr != nil {
			finish("returned-error", "operation")
			res.Err = opErr.Error()
		} else {
			finish("returned", "operation")
		}
	}
	if x.publish && res.Outcome != "panic" {
		// the first Publish request must have reached the server before the gate opens
		deadline := time.Now().Add(watchdog)
		for srv.seen("PublishRequest") == 0 {
			if time.Now().After(deadline) {
				return res, "the publish loop never sent a Publish request"
			}
			time.Sleep(100 * time.Microsecond)
		}
		srv.release()
		if h, d := x.waitDigest(); h {
			finish("hang", "digest")
			res.Detail = d
			return res, ""
		}
	}
	// teardown: Close is a client call too (a panic in it is a finding of this case)
	if c.Op != "Close" || res.Outcome == "panic" {
		_, pnc, stack, hung := withWatchdog(func() error { return cl.Close(ctx) })
		if res.Outcome != "panic" {
			switch {
			case hung:
				finish("hang", "close")
				res.Detail = clientGoroutineDump()
				return res, ""
			case pnc != "":
				finish("panic", "close")
				res.Panic, res.Stack = pnc, stack
			}
		}
	}
	cancel()
	if !waitClientGone() && res.Outcome != "panic" {
		res.Detail = "client goroutines still alive 5 s after Close:\n" + clientGoroutineDump()
	}
	if f := srv.failureText(); f != "" {
		engineErr = f
	}
	// vacuity guard: the scripted response of the case must really have been sent
	if engineErr == "" && srv.scriptedSent(c.Svc) == 0 {
		engineErr = fmt.Sprintf("the scripted %s response was never requested by the operation (outcome %s, error %q)", c.Svc, res.Outcome, res.Err)
	}
	return res, engineErr
}
