// C22: a session is established only after the server proves its identity.
//
// Real client <-> real server (server.New + Start, loopback TCP, real secure
// channel of the policy/mode under test). The server's CreateSession handler is
// replaced through the public RegisterHandler (before Start) by one that builds
// the same response as the stock handler but lets the case choose the
// ServerSignature and the ServerCertificate field; ActivateSession is replaced
// by a handler that verifies the client signature and answers Good (the stock
// one needs the session object the stock CreateSession would have made).
// Everything else is the stock server. When the response is not the genuine one
// the scripted server behaves like an impostor for the rest of the connection
// attempt: the session is usable right after CreateSession and ActivateSession
// accepts any client signature, and requests without an authentication token
// are served on that channel, so that a client which does not stop at the bad
// signature actually gets connected.
//
// Cases: 5 secured policies x {Sign, SignAndEncrypt} x key sizes x signature
// variants {valid; one bit flipped at each of 8 positions; empty; nil; truncated
// by one byte; extended by one byte; all zero; signed with another key of the
// same size; signed over (other certificate || nonce); signed over (client
// certificate || other nonce)} x ServerCertificate field of the response {the
// real certificate (the one of the secure channel and of the endpoint); empty;
// null; another valid certificate of the same key size; garbage bytes}.
//
// Oracle (no stronger than the statement). Real certificate: valid signature =>
// Connect returns nil, State()==Connected, a session exists; any other variant
// => Connect returns a non-nil error, State()!=Connected, Session()==nil.
// Missing / foreign / unparsable certificate in the response: the only
// signature that verifies with the server certificate is still the valid one,
// so with every other signature variant Connect must return an error and leave
// the client not connected; with the valid signature both accepting and
// refusing are allowed (refusing is never a violation), but an error must leave
// the client not connected. Nothing panics in any case (neither the calling
// goroutine nor - the worker process would die - a background goroutine).
// Not judged: the foreign certificate together with a signature made by the
// foreign certificate's own key (self-consistent response of another identity;
// the statement does not say which certificate 'the server certificate' is).
package main

import (
	"context"
	"crypto/ecdsa"
	"crypto/elliptic"
	"crypto/rand"
	"crypto/rsa"
	"crypto/x509"
	"crypto/x509/pkix"
	"fmt"
	"math/big"
	"os"
	"runtime/debug"
	"strings"
	"sync"
	"time"

	"github.com/gopcua/opcua"
	"github.com/gopcua/opcua/id"
	"github.com/gopcua/opcua/server"
	"github.com/gopcua/opcua/ua"
	"github.com/gopcua/opcua/uapolicy"
	"github.com/gopcua/opcua/uasc"
	"verif/engine/evid"
)

type c22case struct {
	Policy  string `json:"policy"`
	Mode    int    `json:"mode"`
	Bits    int    `json:"bits"`
	Variant string `json:"variant"` // valid | bitflip:<k> | empty | nil | truncated | extended | zero | otherkey | othercert | othernonce
	Cert    string `json:"cert"`    // ServerCertificate field of the response: real ("" = real) | empty | nil | other | garbage
}

func (c c22case) cert() string {
	if c.Cert == "" {
		return "real"
	}
	return c.Cert
}

func (c c22case) String() string {
	return fmt.Sprintf("%s/%s/rsa%d/%s/cert=%s", c.Policy, ua.MessageSecurityMode(c.Mode), c.Bits, c.Variant, c.cert())
}

func c22certs() []string { return []string{"real", "empty", "nil", "other", "garbage", "ecdsa"} }

var (
	ecdsaCertOnce sync.Once
	ecdsaCertDER  []byte
)

// ecdsaCert is a well-formed self-signed certificate whose public key is not an RSA key.
func ecdsaCert() []byte {
	ecdsaCertOnce.Do(func() {
		k, err := ecdsa.GenerateKey(elliptic.P256(), rand.Reader)
		if err != nil {
			panic(err)
		}
		tpl := &x509.Certificate{SerialNumber: big.NewInt(7), Subject: pkix.Name{CommonName: "verif-ecdsa"},
			NotBefore: time.Unix(1600000000, 0), NotAfter: time.Unix(4000000000, 0), KeyUsage: x509.KeyUsageDigitalSignature}
		ecdsaCertDER, err = x509.CreateCertificate(rand.Reader, tpl, tpl, &k.PublicKey, k)
		if err != nil {
			panic(err)
		}
	})
	return ecdsaCertDER
}

// class is the variant without its position parameter.
func (c c22case) class() string {
	if i := strings.Index(c.Variant, ":"); i > 0 {
		return c.Variant[:i]
	}
	return c.Variant
}

func c22variants() []string {
	v := []string{"valid"}
	for k := 0; k < 8; k++ {
		v = append(v, fmt.Sprintf("bitflip:%d", k))
	}
	return append(v, "empty", "nil", "truncated", "extended", "zero", "otherkey", "othercert", "othernonce")
}

func c22cases(thorough bool) []c22case {
	var out []c22case
	for _, p := range policies {
		if p.Name == "None" {
			continue
		}
		bits := []int{2048}
		if thorough {
			bits = p.Bits
		}
		for _, m := range p.Modes {
			for _, b := range bits {
				for _, cv := range c22certs() {
					for _, v := range c22variants() {
						out = append(out, c22case{p.Name, int(m), b, v, cv})
					}
				}
			}
		}
	}
	return out
}

// c22server is one scripted server for a (policy, mode, key size); the variant
// is switched between cases.
type c22server struct {
	srv      *server.Server
	url      string
	stop     func()
	mu       sync.Mutex
	variant  string
	cert     string // ServerCertificate variant of the current case
	built    string // how the signature of the last CreateSession was built (for the detail text)
	activate int    // ActivateSession requests seen for the current case
	clientSig string // what the client signature of the last ActivateSession request looked like (recorded, never refused)
	buildErr string
}

func (cs *c22server) set(v, cert string) {
	cs.mu.Lock()
	cs.variant, cs.cert, cs.activate, cs.built, cs.buildErr, cs.clientSig = v, cert, 0, "", "", ""
	cs.mu.Unlock()
}

func newC22Server(p polSpec, mode ua.MessageSecurityMode, bits int) *c22server {
	cs := &c22server{}
	sid := loadIdent(bits, "a")
	other := loadIdent(bits, "c")
	type sess struct {
		cert, nonce []byte
		honest      bool // genuine response: ActivateSession insists on a valid client signature
	}
	var smu sync.Mutex
	sessions := map[string]*sess{}
	var srv *server.Server
	opts := []server.Option{
		server.EnableSecurity(p.Name, mode),
		server.EnableAuthMode(ua.UserTokenTypeAnonymous),
		server.PrivateKey(sid.Key), server.Certificate(sid.Cert),
	}
	hdr := func(h *ua.RequestHeader) *ua.ResponseHeader {
		return &ua.ResponseHeader{Timestamp: time.Now(), RequestHandle: h.RequestHandle, ServiceResult: ua.StatusOK,
			ServiceDiagnostics: &ua.DiagnosticInfo{}, StringTable: []string{}, AdditionalHeader: ua.NewExtensionObject(nil)}
	}
	sign := func(key *rsa.PrivateKey, clientCert []byte, msg []byte) ([]byte, string, error) {
		pub, err := uapolicy.PublicKey(clientCert)
		if err != nil {
			return nil, "", err
		}
		enc, err := uapolicy.Asymmetric(p.URI, key, pub)
		if err != nil {
			return nil, "", err
		}
		sig, err := enc.Signature(msg)
		return sig, enc.SignatureURI(), err
	}
	var tokSeq uint32
	createSession := func(sc *uasc.SecureChannel, r ua.Request, reqID uint32) (ua.Response, error) {
		req, ok := r.(*ua.CreateSessionRequest)
		if !ok {
			return nil, ua.StatusBadRequestTypeInvalid
		}
		cs.mu.Lock()
		variant, certVariant := cs.variant, cs.cert
		cs.mu.Unlock()
		nonce := make([]byte, 32)
		rand.Read(nonce)
		// the valid signature, made by the real server-side channel exactly as the stock handler does
		valid, alg, err := sc.NewSessionSignature(req.ClientCertificate, req.ClientNonce)
		if err != nil {
			cs.mu.Lock()
			cs.buildErr = err.Error()
			cs.mu.Unlock()
			return nil, ua.StatusBadInternalError
		}
		sig := append([]byte(nil), valid...)
		built := variant
		switch {
		case variant == "valid":
		case strings.HasPrefix(variant, "bitflip:"):
			var k int
			fmt.Sscanf(variant, "bitflip:%d", &k)
			n := len(sig)
			pos := []int{0, 1, n / 4, n/2 - 1, n / 2, 3 * n / 4, n - 2, n - 1}[k]
			sig[pos] ^= 1 << uint(k)
			built = fmt.Sprintf("valid signature (%d bytes) with bit %d of byte %d flipped", n, k, pos)
		case variant == "empty":
			sig = []byte{}
		case variant == "nil":
			sig = nil
		case variant == "truncated":
			sig = sig[:len(sig)-1]
		case variant == "extended":
			sig = append(sig, 0)
		case variant == "zero":
			sig = make([]byte, len(valid))
		case variant == "otherkey":
			sig, _, err = sign(other.Key, req.ClientCertificate, append(append([]byte(nil), req.ClientCertificate...), req.ClientNonce...))
			built = "signature over (client certificate || client nonce) made with the private key of " + fmt.Sprintf("rsa%d-c", bits)
		case variant == "othercert":
			sig, _, err = sign(sid.Key, req.ClientCertificate, append(append([]byte(nil), other.Cert...), req.ClientNonce...))
			built = "server-key signature over (certificate of rsa-c || client nonce)"
		case variant == "othernonce":
			n2 := append([]byte(nil), req.ClientNonce...)
			n2[len(n2)-1] ^= 1
			sig, _, err = sign(sid.Key, req.ClientCertificate, append(append([]byte(nil), req.ClientCertificate...), n2...))
			built = "server-key signature over (client certificate || client nonce with the last bit flipped)"
		}
		// the ServerCertificate field of the response
		respCert := sid.Cert
		switch certVariant {
		case "", "real":
		case "empty":
			respCert = []byte{}
			built += "; ServerCertificate = empty byte string"
		case "nil":
			respCert = nil
			built += "; ServerCertificate = null byte string"
		case "other":
			respCert = append([]byte(nil), other.Cert...)
			built += fmt.Sprintf("; ServerCertificate = certificate of rsa%d-c (not the certificate of the secure channel)", bits)
		case "ecdsa":
			respCert = append([]byte(nil), ecdsaCert()...)
			built += "; ServerCertificate = a well-formed certificate with an ECDSA P-256 key"
		case "garbage":
			respCert = make([]byte, len(sid.Cert))
			for i := range respCert {
				respCert[i] = byte(0xa5 ^ i*7)
			}
			built += fmt.Sprintf("; ServerCertificate = %d garbage bytes", len(respCert))
		default:
			err = fmt.Errorf("unknown certificate variant %q", certVariant)
		}
		cs.mu.Lock()
		cs.built = built
		if err != nil {
			cs.buildErr = err.Error()
		}
		cs.mu.Unlock()
		tokSeq++
		tok := ua.NewNumericNodeID(0, 0x5e550000+tokSeq)
		smu.Lock()
		genuine := variant == "valid" && (certVariant == "" || certVariant == "real")
		sessions[tok.String()] = &sess{cert: req.ClientCertificate, nonce: nonce, honest: genuine}
		smu.Unlock()
		// Unless the response is the genuine one (valid signature, real certificate),
		// the scripted server is as permissive as an impostor would be: the session is
		// usable from this moment on (the dispatcher of the real server only lets
		// requests of a known, activated session through to the other services), also
		// for a client that goes on without a successful ActivateSession, and
		// ActivateSession accepts any client signature.
		if !genuine {
			srv.VerifAdoptSession(tok, sc)
			// ... and so are requests that carry no authentication token at all (what a
			// client sends that has a secure channel but never stored a session)
			srv.VerifAdoptSession(ua.NewTwoByteNodeID(0), sc)
		}
		var eps []*ua.EndpointDescription
		for _, ep := range srv.Endpoints() {
			if strings.TrimSuffix(ep.EndpointURL, "/") == strings.TrimSuffix(req.EndpointURL, "/") {
				eps = append(eps, ep)
			}
		}
		return &ua.CreateSessionResponse{
			ResponseHeader:        hdr(req.RequestHeader),
			SessionID:             ua.NewNumericNodeID(1, 0x1000+tokSeq),
			AuthenticationToken:   tok,
			RevisedSessionTimeout: 60000,
			ServerSignature:       &ua.SignatureData{Signature: sig, Algorithm: alg},
			ServerCertificate:     respCert,
			ServerNonce:           nonce,
			ServerEndpoints:       eps,
		}, nil
	}
	activateSession := func(sc *uasc.SecureChannel, r ua.Request, reqID uint32) (ua.Response, error) {
		req, ok := r.(*ua.ActivateSessionRequest)
		if !ok {
			return nil, ua.StatusBadRequestTypeInvalid
		}
		cs.mu.Lock()
		cs.activate++
		cs.mu.Unlock()
		smu.Lock()
		s := sessions[req.RequestHeader.AuthenticationToken.String()]
		smu.Unlock()
		if s == nil {
			return nil, ua.StatusBadSessionIDInvalid
		}
		// the client signature is always checked and recorded; only the genuine server
		// refuses a bad one (an impostor accepts anything)
		clientSig := "verifies with the real channel"
		if req.ClientSignature == nil {
			clientSig = "absent"
		} else if err := sc.VerifySessionSignature(s.cert, s.nonce, req.ClientSignature.Signature); err != nil {
			clientSig = "does not verify with the real channel (" + err.Error() + ")"
		}
		cs.mu.Lock()
		cs.clientSig = clientSig
		cs.mu.Unlock()
		if s.honest && clientSig != "verifies with the real channel" {
			return nil, ua.StatusBadSecurityChecksFailed
		}
		nonce := make([]byte, 32)
		rand.Read(nonce)
		s.nonce = nonce
		// the session services are replaced: make the session known to the real server, whose dispatcher
		// only lets requests of an activated session through to the other services
		srv.VerifAdoptSession(req.RequestHeader.AuthenticationToken, sc)
		return &ua.ActivateSessionResponse{ResponseHeader: hdr(req.RequestHeader), ServerNonce: nonce}, nil
	}
	var err error
	cs.srv, cs.url, cs.stop, err = startServer(opts, func(s *server.Server) {
		srv = s
		s.RegisterHandler(id.CreateSessionRequest_Encoding_DefaultBinary, createSession)
		s.RegisterHandler(id.ActivateSessionRequest_Encoding_DefaultBinary, activateSession)
	})
	if err != nil {
		evid.EngineError("C22", "%v", err)
	}
	return cs
}

type c22result struct {
	ConnectErr string
	Panic      string
	Stack      string
	State      string
	HasSession bool
	Activates  int
	Built      string
	ClientSig  string
}

func c22run(cs *c22server, c c22case) (res c22result, engineErr string) {
	p := polByName(c.Policy)
	mode := ua.MessageSecurityMode(c.Mode)
	cs.set(c.Variant, c.cert())
	ctx, cancel := context.WithTimeout(context.Background(), watchdog)
	defer cancel()
	eps := advertised(cs.srv, cs.url) // see c37.go: no discovery over an unsecured channel unless it is enabled
	if len(eps) == 0 {
		return res, "GetEndpoints: the server advertises no endpoint for " + cs.url
	}
	ep, err := opcua.SelectEndpoint(eps, p.URI, mode)
	if err != nil {
		return res, "SelectEndpoint: " + err.Error()
	}
	cid := loadIdent(c.Bits, "b")
	cl, err := opcua.NewClient(ep.EndpointURL, opcua.SecurityFromEndpoint(ep, ua.UserTokenTypeAnonymous),
		opcua.PrivateKey(cid.Key), opcua.Certificate(cid.Cert), opcua.AuthAnonymous(), opcua.AutoReconnect(false))
	if err != nil {
		return res, "NewClient: " + err.Error()
	}
	func() {
		defer func() {
			if r := recover(); r != nil {
				res.Panic = fmt.Sprint(r)
				res.Stack = string(debug.Stack())
			}
		}()
		if err := cl.Connect(ctx); err != nil {
			res.ConnectErr = err.Error()
		}
	}()
	res.State = cl.State().String()
	res.HasSession = cl.Session() != nil
	cs.mu.Lock()
	res.Activates, res.Built, res.ClientSig = cs.activate, cs.built, cs.clientSig
	be := cs.buildErr
	cs.mu.Unlock()
	if be != "" {
		engineErr = "building the scripted signature failed: " + be
	}
	// tear the client down (never part of the verdict); a client that panicked
	// half-way may not be closable, so do not wait for it forever.
	done := make(chan struct{})
	go func() {
		defer func() { recover(); close(done) }()
		cl.Close(ctx)
	}()
	select {
	case <-done:
	case <-time.After(5 * time.Second):
	}
	return res, engineErr
}

// c22judge applies the oracle; outcome is a short label for the evidence.
func c22judge(c c22case, res c22result) (sig, detail, outcome string) {
	what := fmt.Sprintf("%s: server signature = %s; Connect err=%q panic=%q State()=%s session=%v ActivateSession requests sent=%d (client signature: %s)",
		c, res.Built, res.ConnectErr, res.Panic, res.State, res.HasSession, res.Activates, res.ClientSig)
	pre := "session-signature/" + c.class() + "/"
	foreign := c.cert() != "real"
	if foreign {
		pre = "session-signature/cert-" + c.cert() + "/" + c.class() + "/"
	}
	if res.Panic != "" {
		return pre + "panic:" + panicKind(res.Panic) + "/" + topRepoFrame(res.Stack), what + "\n" + res.Stack, "panic"
	}
	if c.Variant == "valid" && !foreign {
		switch {
		case res.ConnectErr != "":
			return pre + "connect-failed", what, "valid-rejected"
		case res.State != opcua.Connected.String():
			return pre + "not-connected-after-successful-connect", what, "valid-not-connected"
		case !res.HasSession:
			return pre + "no-session-after-successful-connect", what, "valid-no-session"
		}
		return "", "", "valid-accepted"
	}
	if c.Variant == "valid" {
		// genuine signature next to a missing / foreign / unparsable certificate: accepting
		// and refusing are both allowed; a refusal must leave the client not connected
		switch {
		case res.ConnectErr == "":
			return "", "", "cert-" + c.cert() + "/valid-accepted"
		case res.State == opcua.Connected.String():
			return pre + "error-but-state-connected", what, "cert-" + c.cert() + "/valid-state-connected"
		case res.HasSession:
			return pre + "error-but-session-exists", what, "cert-" + c.cert() + "/valid-session-exists"
		}
		return "", "", "cert-" + c.cert() + "/valid-rejected"
	}
	if c.cert() == "other" && c.Variant == "otherkey" {
		// self-consistent response of another identity: recorded, not judged (see the assumption)
		if res.ConnectErr == "" {
			return "", "", "cert-other/otherkey-accepted(not judged)"
		}
		return "", "", "cert-other/otherkey-rejected(not judged)"
	}
	op := ""
	if foreign {
		op = "cert-" + c.cert() + "/"
	}
	switch {
	case res.ConnectErr == "" && (res.State == opcua.Connected.String() || res.HasSession):
		return pre + "connected", what, op + "invalid-accepted"
	case res.ConnectErr == "":
		return pre + "no-error-returned", what, op + "invalid-no-error"
	case res.State == opcua.Connected.String():
		return pre + "error-but-state-connected", what, op + "invalid-state-connected"
	case res.HasSession:
		return pre + "error-but-session-exists", what, op + "invalid-session-exists"
	}
	return "", "", op + "invalid-rejected"
}

func runC22() {
	r := evid.New("C22")
	var rc c22case
	if evid.ReplayInput(&rc) {
		cs := newC22Server(polByName(rc.Policy), ua.MessageSecurityMode(rc.Mode), rc.Bits)
		res, ee := c22run(cs, rc)
		sig, detail, outcome := c22judge(rc, res)
		fmt.Printf("replay %s -> outcome=%s engine-error=%q\n  sig=%q\n  %s\n", rc, outcome, ee, sig, detail)
		fmt.Printf("  server response: %s\n  Connect err=%q State()=%s session=%v ActivateSession requests=%d\n", res.Built, res.ConnectErr, res.State, res.HasSession, res.Activates)
		cs.stop()
		if sig != "" {
			os.Exit(1)
		}
		return
	}
	cases := c22cases(evid.Thorough())
	sizes := "client and server keys of 2048 bits"
	if evid.Thorough() {
		sizes = "every key size within the policy's limits (1024/2048 or 2048/3072/4096)"
	}
	r.Rule(fmt.Sprintf("%d cases: 5 secured policies x {Sign, SignAndEncrypt} x %s x %d server-signature variants (valid; one bit flipped at byte 0, 1, n/4, n/2-1, n/2, 3n/4, n-2, n-1; empty; nil; truncated by a byte; extended by a byte; all zero; another key of the same size; over (other certificate || nonce); over (certificate || other nonce)) x %d variants of the ServerCertificate field of the CreateSession response (the real certificate; empty; null; another valid certificate of the same key size; garbage bytes); every case is one real Connect against a real server whose CreateSession response carries the variants; non-trivial = every case (each exercises signature verification on a real secured channel), distinct by (policy, mode, key size, signature variant, certificate variant)", len(cases), sizes, len(c22variants()), len(c22certs())))
	r.Assume("a certificate other than the one of the secure channel combined with a signature made by that other certificate's key over the right data (cert=other x otherkey) is run and its outcome recorded but not judged (the statement says 'verifies with the server certificate' without saying which certificate that is)",
		"the genuine signature next to a missing, foreign or unparsable ServerCertificate may be accepted or refused; only 'error => not connected' and 'no panic' are judged there")
	// group by server
	type key struct {
		p    string
		m, b int
	}
	var groups []key
	byGroup := map[key][]int{}
	for i, c := range cases {
		k := key{c.Policy, c.Mode, c.Bits}
		if _, ok := byGroup[k]; !ok {
			groups = append(groups, k)
		}
		byGroup[k] = append(byGroup[k], i)
	}
	deaths := evid.Sharded(r, 0, func(s evid.ShardInfo, w *evid.Run) {
		quiet()
		for gi, g := range groups {
			if !s.Mine(int64(gi)) {
				continue
			}
			cs := newC22Server(polByName(g.p), ua.MessageSecurityMode(g.m), g.b)
			for _, i := range byGroup[g] {
				c := cases[i]
				evid.Publish(c.String())
				res, ee := c22run(cs, c)
				if ee != "" {
					evid.EngineError("C22", "%s: %s", c, ee)
				}
				sig, detail, outcome := c22judge(c, res)
				w.Eval(c.String())
				w.Outcome(outcome)
				if c.Variant == "valid" || c.Variant == "otherkey" || (c.cert() != "real" && c.Variant == "bitflip:0") {
					w.Sample(map[string]any{"case": c, "outcome": outcome, "connect_err": res.ConnectErr})
				}
				if sig != "" {
					w.Violate(sig, detail, c)
				}
			}
			cs.stop()
		}
	})
	for _, d := range deaths {
		r.Eval(d.LastCase)
		cls := "?"
		if f := strings.Split(d.LastCase, "/"); len(f) == 4 {
			cls = c22case{Variant: f[3]}.class()
		}
		pt := panicText(d.Stderr)
		r.Violate("session-signature/"+cls+"/process-died:"+panicKind(pt)+"/"+topRepoFrame(pt), d.LastCase+": worker process died ("+d.ExitErr+"); the remaining cases of its shard were not run\n"+pt, nil)
		r.Capped("a worker process died at " + d.LastCase + "; the rest of its shard was not run")
	}
	r.Finish()
}
