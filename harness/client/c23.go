// C23: client options affect only the client they are applied to.
//
// Explicit-state search over histories of opcua.NewClient(endpoint, opts...)
// constructions executed in ONE process. Alphabet: every exported Option
// constructor of config.go (the list is checked against the source of the tree
// under test) with a distinctive argument that also depends on the position of
// the client in the history, so that a value leaking from one client into
// another is visible. Argument objects (dialers, slices, endpoint descriptions)
// are created afresh for every application, so that nothing is shared by the
// caller.
//
// Canonical state after a history = (configuration of every client built so
// far, configuration of a fresh default client built now, the package-level
// defaults uacp.DefaultClientACK / uacp.DefaultServerACK), each as a deep,
// address-free dump that includes unexported fields (read by reflection; no
// repository hook needed).
//
// Oracle: (A) the configuration of each client right after its construction
// equals what the same options produce as the FIRST construction of a fresh
// process (reference computed by running this binary once per option tuple in
// a new process); (B) no later construction changes it; (C) the fresh default
// configuration always equals the fresh-process default; (D) the package-level
// defaults never change.
//
// Shared-option histories (second family): the options of a tuple S are
// constructed ONCE (argument set 0) into one []opcua.Option slice and that very
// slice / those very Option values are passed to every client of the history;
// client i additionally gets its own, freshly constructed options E_i (argument
// set 1 or 2) appended after them, so that E_i configures client i only.
// Shapes: [S | S+E], [S+E | S], [S | S | S+E]. Oracle, the same statement: a
// client built from S alone equals the fresh-process reference of S whenever it
// is built (A); a client built from S+E equals a twin built at the start of the
// history from freshly constructed, equal options (A'); nothing built later
// changes any client or twin (B); (C) and (D) as above. This is the family in
// which state captured by the closure an Option constructor returns (a token
// allocated once per Option value instead of once per application, ...) becomes
// visible. Objects the caller passes by pointer (the *uacp.Dialer of Dialer)
// stay the caller's: writes other options make through that pointer are counted
// but not judged.
//
// Every history starts from the initial state: the exported package-level
// defaults are restored and (C)/(D) are re-checked before the next history; if
// the initial state cannot be restored the shard stops (reported as capped).
package main

import (
	"bytes"
	"crypto/rsa"
	"encoding/json"
	"fmt"
	"go/ast"
	"go/parser"
	"go/token"
	"hash/fnv"
	"net"
	"os"
	"os/exec"
	"path/filepath"
	"reflect"
	"runtime/debug"
	"sort"
	"strconv"
	"strings"
	"sync"
	"time"

	"github.com/gopcua/opcua"
	"github.com/gopcua/opcua/ua"
	"github.com/gopcua/opcua/uacp"
	"verif/engine/evid"
)

const c23endpoint = "opc.tcp://127.0.0.1:4840"
const c23positions = 3

// ---- alphabet ---------------------------------------------------------------

var c23chans [c23positions]chan opcua.ConnState

func c23f0(opcua.ConnState) {}
func c23f1(opcua.ConnState) { _ = 1 }
func c23f2(opcua.ConnState) { _ = 2 }

var c23funcs = [c23positions]func(opcua.ConnState){c23f0, c23f1, c23f2}

// Key material by position: three different 1024-bit identities (small keys keep
// the ...File options, which parse the key on every application, cheap).
func c23own(j int) *ident    { return loadIdent(1024, [c23positions]string{"b", "a", "c"}[j]) }
func c23remote(j int) *ident { return loadIdent(1024, [c23positions]string{"a", "c", "b"}[j]) }
func c23user(j int) *ident   { return loadIdent(1024, [c23positions]string{"c", "b", "a"}[j]) }

type c23opt struct {
	Name string
	Make func(j int) opcua.Option // j = position of the client in the history
}

func dur(base, j int, unit time.Duration) time.Duration { return time.Duration(base+j) * unit }

func c23alphabet() []c23opt {
	modes := [c23positions]ua.MessageSecurityMode{ua.MessageSecurityModeSign, ua.MessageSecurityModeSignAndEncrypt, ua.MessageSecurityModeSign}
	modeStr := [c23positions]string{"SignAndEncrypt", "Sign", "SignAndEncrypt"}
	pols := [c23positions]string{"Basic256Sha256", "Aes128_Sha256_RsaOaep", "Aes256_Sha256_RsaPss"}
	s := func(f string, j int) string { return fmt.Sprintf(f, j) }
	return []c23opt{
		{"ApplicationName", func(j int) opcua.Option { return opcua.ApplicationName(s("verif-app-%d", j)) }},
		{"ApplicationURI", func(j int) opcua.Option { return opcua.ApplicationURI(s("urn:verif:app:%d", j)) }},
		{"AutoReconnect", func(j int) opcua.Option { return opcua.AutoReconnect(false) }},
		{"ReconnectInterval", func(j int) opcua.Option { return opcua.ReconnectInterval(dur(7, j, time.Second)) }},
		{"Lifetime", func(j int) opcua.Option { return opcua.Lifetime(dur(11, j, time.Minute)) }},
		{"Locales", func(j int) opcua.Option { return opcua.Locales(s("de-%d", j), "fr") }},
		{"ProductURI", func(j int) opcua.Option { return opcua.ProductURI(s("urn:verif:product:%d", j)) }},
		{"RandomRequestID", func(j int) opcua.Option { return opcua.RandomRequestID() }},
		{"RemoteCertificate", func(j int) opcua.Option {
			return opcua.RemoteCertificate(append([]byte(nil), c23remote(j).Cert...))
		}},
		{"RemoteCertificateFile", func(j int) opcua.Option { return opcua.RemoteCertificateFile(c23remote(j).CertDER) }},
		{"SecurityMode", func(j int) opcua.Option { return opcua.SecurityMode(modes[j]) }},
		{"SecurityModeString", func(j int) opcua.Option { return opcua.SecurityModeString(modeStr[j]) }},
		{"SecurityPolicy", func(j int) opcua.Option { return opcua.SecurityPolicy(pols[j]) }},
		{"SessionName", func(j int) opcua.Option { return opcua.SessionName(s("verif-session-%d", j)) }},
		{"SessionTimeout", func(j int) opcua.Option { return opcua.SessionTimeout(dur(13, j, time.Minute)) }},
		{"PrivateKey", func(j int) opcua.Option { return opcua.PrivateKey(c23own(j).Key) }},
		{"PrivateKeyFile", func(j int) opcua.Option { return opcua.PrivateKeyFile(c23own(j).KeyPEM) }},
		{"Certificate", func(j int) opcua.Option {
			return opcua.Certificate(append([]byte(nil), c23own(j).Cert...))
		}},
		{"CertificateFile", func(j int) opcua.Option { return opcua.CertificateFile(c23own(j).CertPEM) }},
		{"SecurityFromEndpoint", func(j int) opcua.Option {
			ep := &ua.EndpointDescription{
				EndpointURL: c23endpoint, SecurityPolicyURI: ua.SecurityPolicyURIBasic256, SecurityMode: modes[j],
				ServerCertificate: append([]byte(nil), c23user(j).Cert...),
				UserIdentityTokens: []*ua.UserTokenPolicy{
					{PolicyID: s("anon-%d", j), TokenType: ua.UserTokenTypeAnonymous},
					{PolicyID: s("user-%d", j), TokenType: ua.UserTokenTypeUserName, SecurityPolicyURI: ua.SecurityPolicyURIBasic128Rsa15},
				},
			}
			return opcua.SecurityFromEndpoint(ep, ua.UserTokenTypeUserName)
		}},
		{"AuthPolicyID", func(j int) opcua.Option { return opcua.AuthPolicyID(s("verif-policy-%d", j)) }},
		{"AuthAnonymous", func(j int) opcua.Option { return opcua.AuthAnonymous() }},
		{"AuthUsername", func(j int) opcua.Option { return opcua.AuthUsername(s("verif-user-%d", j), s("verif-pass-%d", j)) }},
		{"AuthCertificate", func(j int) opcua.Option {
			return opcua.AuthCertificate(append([]byte(nil), c23user(j).Cert...))
		}},
		{"AuthPrivateKey", func(j int) opcua.Option { return opcua.AuthPrivateKey(c23user(j).Key) }},
		{"AuthIssuedToken", func(j int) opcua.Option { return opcua.AuthIssuedToken([]byte(s("verif-token-%d", j))) }},
		{"RequestTimeout", func(j int) opcua.Option { return opcua.RequestTimeout(dur(17, j, time.Second)) }},
		{"Dialer", func(j int) opcua.Option {
			return opcua.Dialer(&uacp.Dialer{
				Dialer:    &net.Dialer{Timeout: dur(3, j, time.Second), KeepAlive: dur(40, j, time.Second)},
				ClientACK: &uacp.Acknowledge{ReceiveBufSize: uint32(4096 + j), SendBufSize: uint32(5120 + j), MaxChunkCount: uint32(33 + j), MaxMessageSize: uint32(654321 + j)},
			})
		}},
		{"DialTimeout", func(j int) opcua.Option { return opcua.DialTimeout(dur(19, j, time.Second)) }},
		{"MaxMessageSize", func(j int) opcua.Option { return opcua.MaxMessageSize(uint32(12345 + j)) }},
		{"MaxChunkCount", func(j int) opcua.Option { return opcua.MaxChunkCount(uint32(77 + j)) }},
		{"ReceiveBufferSize", func(j int) opcua.Option { return opcua.ReceiveBufferSize(uint32(9999 + j)) }},
		{"SendBufferSize", func(j int) opcua.Option { return opcua.SendBufferSize(uint32(8888 + j)) }},
		{"StateChangedCh", func(j int) opcua.Option { return opcua.StateChangedCh(c23chans[j]) }},
		{"StateChangedFunc", func(j int) opcua.Option { return opcua.StateChangedFunc(c23funcs[j]) }},
	}
}

// c23sourceOptions lists the exported functions of config.go that return Option.
func c23sourceOptions() ([]string, error) {
	repo := os.Getenv("VERIF_REPO")
	if repo == "" {
		repo = "/repo"
	}
	fs := token.NewFileSet()
	f, err := parser.ParseFile(fs, filepath.Join(repo, "config.go"), nil, 0)
	if err != nil {
		return nil, err
	}
	var out []string
	for _, d := range f.Decls {
		fd, ok := d.(*ast.FuncDecl)
		if !ok || fd.Recv != nil || !fd.Name.IsExported() || fd.Type.Results == nil || len(fd.Type.Results.List) != 1 {
			continue
		}
		if id, ok := fd.Type.Results.List[0].Type.(*ast.Ident); ok && id.Name == "Option" {
			out = append(out, fd.Name.Name)
		}
	}
	sort.Strings(out)
	return out, nil
}

// ---- canonical dump ---------------------------------------------------------

var rsaKeyType = reflect.TypeOf((*rsa.PrivateKey)(nil))

type dumper struct {
	buf  []byte
	path []byte
	seen []uintptr
}

var fieldNames sync.Map // reflect.Type -> []string ("."+name)

func namesOf(t reflect.Type) []string {
	if n, ok := fieldNames.Load(t); ok {
		return n.([]string)
	}
	n := make([]string, t.NumField())
	for i := range n {
		n[i] = "." + t.Field(i).Name
	}
	fieldNames.Store(t, n)
	return n
}

// open starts a leaf line "path="; the caller appends the value and calls end.
func (d *dumper) open()               { d.buf = append(append(d.buf, d.path...), '=') }
func (d *dumper) end()                { d.buf = append(d.buf, '\n') }
func (d *dumper) leaf(val string)     { d.open(); d.buf = append(d.buf, val...); d.end() }
func (d *dumper) push(seg string) int { n := len(d.path); d.path = append(d.path, seg...); return n }
func (d *dumper) pop(n int)           { d.path = d.path[:n] }

func hashBytes(b []byte) string {
	h := fnv.New64a()
	h.Write(b)
	return strconv.FormatUint(h.Sum64(), 16)
}

// walk dumps v. Path syntax: "." before a field, ">" after a pointer
// dereference, "(type)" after an interface, "[i]" for elements. The prefix of a
// leaf up to its last ">" therefore names the object (the pointee) the leaf
// lives in.
func (d *dumper) walk(v reflect.Value) {
	switch v.Kind() {
	case reflect.Bool:
		d.open()
		d.buf = strconv.AppendBool(d.buf, v.Bool())
		d.end()
	case reflect.Int, reflect.Int8, reflect.Int16, reflect.Int32, reflect.Int64:
		d.open()
		d.buf = strconv.AppendInt(d.buf, v.Int(), 10)
		d.end()
	case reflect.Uint, reflect.Uint8, reflect.Uint16, reflect.Uint32, reflect.Uint64, reflect.Uintptr:
		d.open()
		d.buf = strconv.AppendUint(d.buf, v.Uint(), 10)
		d.end()
	case reflect.Float32, reflect.Float64:
		d.open()
		d.buf = strconv.AppendFloat(d.buf, v.Float(), 'g', -1, 64)
		d.end()
	case reflect.String:
		d.open()
		d.buf = strconv.AppendQuote(d.buf, v.String())
		d.end()
	case reflect.Ptr:
		if v.IsNil() {
			d.leaf("nil")
			return
		}
		if v.Type() == rsaKeyType {
			k := (*rsa.PrivateKey)(v.UnsafePointer())
			d.leaf("rsa-key:" + hashBytes(k.N.Bytes()) + ":" + hashBytes(k.D.Bytes()))
			return
		}
		p := v.Pointer()
		for _, s := range d.seen {
			if s == p {
				d.leaf("cycle")
				return
			}
		}
		d.seen = append(d.seen, p)
		n := d.push(">")
		d.walk(v.Elem())
		d.pop(n)
		d.seen = d.seen[:len(d.seen)-1]
	case reflect.Interface:
		if v.IsNil() {
			d.leaf("nil")
			return
		}
		n := d.push("(" + v.Elem().Type().String() + ")")
		d.walk(v.Elem())
		d.pop(n)
	case reflect.Struct:
		names := namesOf(v.Type())
		for i, name := range names {
			n := d.push(name)
			if name == ".RequestIDSeed" {
				// RandomRequestID draws from math/rand: only zero / non-zero is compared
				if v.Field(i).Uint() == 0 {
					d.leaf("0")
				} else {
					d.leaf("random-nonzero")
				}
			} else {
				d.walk(v.Field(i))
			}
			d.pop(n)
		}
	case reflect.Slice:
		if v.IsNil() {
			d.leaf("nil-slice")
			return
		}
		if v.Type().Elem().Kind() == reflect.Uint8 {
			b := v.Bytes()
			d.leaf("bytes[" + strconv.Itoa(len(b)) + "]:" + hashBytes(b))
			return
		}
		n := d.push(".len")
		d.leaf(strconv.Itoa(v.Len()))
		d.pop(n)
		for i := 0; i < v.Len(); i++ {
			n := d.push("[" + strconv.Itoa(i) + "]")
			d.walk(v.Index(i))
			d.pop(n)
		}
	case reflect.Array:
		for i := 0; i < v.Len(); i++ {
			n := d.push("[" + strconv.Itoa(i) + "]")
			d.walk(v.Index(i))
			d.pop(n)
		}
	case reflect.Map:
		if v.IsNil() {
			d.leaf("nil-map")
			return
		}
		keys := v.MapKeys()
		ks := make([]string, len(keys))
		for i, k := range keys {
			ks[i] = fmt.Sprint(k)
		}
		sort.Strings(ks)
		d.leaf("map" + fmt.Sprint(ks))
	case reflect.Chan:
		if v.IsNil() {
			d.leaf("nil")
			return
		}
		p := v.Pointer()
		for j := range c23chans {
			if reflect.ValueOf(c23chans[j]).Pointer() == p {
				d.leaf("chan#" + strconv.Itoa(j))
				return
			}
		}
		d.leaf("chan#unknown")
	case reflect.Func:
		if v.IsNil() {
			d.leaf("nil")
			return
		}
		p := v.Pointer()
		for j := range c23funcs {
			if reflect.ValueOf(c23funcs[j]).Pointer() == p {
				d.leaf("func#" + strconv.Itoa(j))
				return
			}
		}
		d.leaf("func#unknown")
	default:
		d.leaf("kind:" + v.Kind().String())
	}
}

// add appends the dump of v under the root name to the dumper's buffer.
func (d *dumper) add(root string, v reflect.Value) {
	d.path = append(d.path[:0], root...)
	d.seen = d.seen[:0]
	d.walk(v)
}

func (d *dumper) reset() { d.buf = d.buf[:0] }

func newDumper() *dumper { return &dumper{buf: make([]byte, 0, 4096), path: make([]byte, 0, 128)} }

// client dumps the unexported configuration of a client (or the construction error).
func (d *dumper) client(c *opcua.Client, err error) []byte {
	d.reset()
	if err != nil {
		d.buf = append(d.buf, "error="+err.Error()+"\n"...)
		return d.buf
	}
	d.add("cfg", reflect.ValueOf(c).Elem().FieldByName("cfg"))
	return d.buf
}

func (d *dumper) globals() []byte {
	d.reset()
	d.add("uacp.DefaultClientACK", reflect.ValueOf(uacp.DefaultClientACK))
	d.add("uacp.DefaultServerACK", reflect.ValueOf(uacp.DefaultServerACK))
	return d.buf
}

func dumpGlobals() string { return string(newDumper().globals()) }

// diffDump returns one line "path: old -> new" per leaf that differs between
// two dumps.
func diffDump(a, b string) []string {
	if a == b {
		return nil
	}
	la, lb := strings.Split(a, "\n"), strings.Split(b, "\n")
	var out []string
	if len(la) == len(lb) {
		// same shape (the usual case): compare line by line
		same := true
		for i := range la {
			if la[i] == lb[i] {
				continue
			}
			ia, ib := strings.Index(la[i], "="), strings.Index(lb[i], "=")
			if ia < 0 || ia != ib || la[i][:ia] != lb[i][:ib] {
				same = false
				break
			}
			out = append(out, la[i][:ia]+": "+la[i][ia+1:]+" -> "+lb[i][ib+1:])
		}
		if same {
			return out
		}
		out = nil
	}
	ma := map[string]string{}
	for _, l := range la {
		if i := strings.Index(l, "="); i > 0 {
			ma[l[:i]] = l[i+1:]
		}
	}
	seen := map[string]bool{}
	for _, l := range lb {
		if i := strings.Index(l, "="); i > 0 {
			seen[l[:i]] = true
			if va, ok := ma[l[:i]]; !ok || va != l[i+1:] {
				if !ok {
					va = "(absent)"
				}
				out = append(out, l[:i]+": "+va+" -> "+l[i+1:])
			}
		}
	}
	for k, va := range ma {
		if !seen[k] {
			out = append(out, k+": "+va+" -> (absent)")
		}
	}
	sort.Strings(out)
	return out
}

// sharedObject names the object a differing leaf lives in: the path up to its
// last pointer dereference.
func sharedObject(diffLine string) string {
	p := diffLine
	if i := strings.Index(p, ": "); i > 0 {
		p = p[:i]
	}
	if i := strings.LastIndex(p, ">"); i > 0 {
		p = p[:i]
	}
	// element indices are not part of the identity
	for {
		i := strings.Index(p, "[")
		if i < 0 {
			break
		}
		j := strings.Index(p[i:], "]")
		if j < 0 {
			break
		}
		p = p[:i] + p[i+j+1:]
	}
	return p
}

// ---- histories --------------------------------------------------------------

type c23tuple []int // option indices

func (t c23tuple) key() string {
	s := make([]string, len(t))
	for i, o := range t {
		s[i] = strconv.Itoa(o)
	}
	return strings.Join(s, ",")
}

func c23tuples(n int) []c23tuple {
	out := []c23tuple{{}}
	for a := 0; a < n; a++ {
		out = append(out, c23tuple{a})
	}
	for a := 0; a < n; a++ {
		for b := 0; b < n; b++ {
			out = append(out, c23tuple{a, b})
		}
	}
	return out
}

func c23build(alpha []c23opt, t c23tuple, j int) (*opcua.Client, error) {
	opts := make([]opcua.Option, len(t))
	for i, o := range t {
		opts[i] = alpha[o].Make(j)
	}
	return opcua.NewClient(c23endpoint, opts...)
}

func c23dumpOf(c *opcua.Client, err error) string { return string(newDumper().client(c, err)) }

type c23hist struct {
	Clients [][]string `json:"clients"` // option names per client, in construction order
	// Shared, when present, makes this a shared-option history: these options are
	// constructed once (argument set 0) into one []Option slice which is passed to
	// every client; Clients[i] then lists the options constructed afresh (argument
	// set 1+i%2) and appended after them for client i only.
	Shared []string `json:"shared,omitempty"`
}

func histOf(alpha []c23opt, h []c23tuple) c23hist {
	var out c23hist
	for _, t := range h {
		names := []string{}
		for _, o := range t {
			names = append(names, alpha[o].Name)
		}
		out.Clients = append(out.Clients, names)
	}
	return out
}

type c23refs struct {
	Globals string            `json:"globals"`
	Cfg     map[string]string `json:"cfg"` // "<pos>|<tuple key>" -> dump
}

type c23batchOut struct {
	Globals string            `json:"globals"`
	Default string            `json:"default"`
	Cfg     map[string]string `json:"cfg"`
	Done    int               `json:"done"`
}

type c23finding struct {
	sig    string
	detail func() string
}

// c23runner holds the reusable buffers of one worker.
type c23runner struct {
	alpha   []c23opt
	refs    *c23refs
	initACK [2]uacp.Acknowledge
	atCr    [c23positions]*dumper
	twin    [c23positions]*dumper
	scratch *dumper
}

func newC23runner(alpha []c23opt, refs *c23refs, initACK [2]uacp.Acknowledge) *c23runner {
	r := &c23runner{alpha: alpha, refs: refs, initACK: initACK, scratch: newDumper()}
	for i := range r.atCr {
		r.atCr[i] = newDumper()
		r.twin[i] = newDumper()
	}
	return r
}

// run executes one history from the initial state and applies the oracle.
// tainted reports that the initial state could not be restored afterwards.
func (r *c23runner) run(h []c23tuple) (finds []c23finding, tainted bool) {
	alpha, refs := r.alpha, r.refs
	*uacp.DefaultClientACK, *uacp.DefaultServerACK = r.initACK[0], r.initACK[1]
	var clients [c23positions]*opcua.Client
	var errs [c23positions]error
	desc := func() string { b, _ := json.Marshal(histOf(alpha, h)); return string(b) }
	for j, t := range h {
		clients[j], errs[j] = c23build(alpha, t, j)
		got := r.atCr[j].client(clients[j], errs[j])
		if want := refs.Cfg[strconv.Itoa(j)+"|"+t.key()]; string(got) != want {
			for _, dl := range diffDump(want, string(got)) {
				finds = append(finds, c23finding{"options/later-client-differs-from-fresh-process/" + sharedObject(dl), func() string {
					return fmt.Sprintf("history %s: client #%d right after construction differs from what the same options give in a fresh process: %s", desc(), j, dl)
				}})
			}
		}
	}
	for j := range h {
		if now := r.scratch.client(clients[j], errs[j]); !bytes.Equal(now, r.atCr[j].buf) {
			for _, dl := range diffDump(string(r.atCr[j].buf), string(now)) {
				finds = append(finds, c23finding{"options/existing-client-changed/" + sharedObject(dl), func() string {
					return fmt.Sprintf("history %s: configuration of client #%d changed after its construction: %s", desc(), j, dl)
				}})
			}
		}
	}
	return r.epilogue(desc, finds)
}

// epilogue applies (C) and (D) after a history, restores the initial state for
// the next history and verifies it.
func (r *c23runner) epilogue(desc func() string, finds []c23finding) ([]c23finding, bool) {
	refs := r.refs
	tainted := false
	fresh, err := opcua.NewClient(c23endpoint)
	if got, want := r.scratch.client(fresh, err), refs.Cfg["0|"]; string(got) != want {
		for _, dl := range diffDump(want, string(got)) {
			finds = append(finds, c23finding{"options/fresh-default-config-changed/" + sharedObject(dl), func() string {
				return fmt.Sprintf("history %s: a default client created afterwards differs from the fresh-process default: %s", desc(), dl)
			}})
		}
	}
	if got := r.scratch.globals(); string(got) != refs.Globals {
		for _, dl := range diffDump(refs.Globals, string(got)) {
			finds = append(finds, c23finding{"options/package-default-changed/" + sharedObject(dl), func() string {
				return fmt.Sprintf("history %s: package-level default changed: %s", desc(), dl)
			}})
		}
	}
	// restore the initial state for the next history and verify it
	*uacp.DefaultClientACK, *uacp.DefaultServerACK = r.initACK[0], r.initACK[1]
	if len(finds) > 0 {
		fresh, err := opcua.NewClient(c23endpoint)
		if string(r.scratch.client(fresh, err)) != refs.Cfg["0|"] || string(r.scratch.globals()) != refs.Globals {
			tainted = true
		}
	}
	return finds, tainted
}

// c23argset is the argument set of the options applied to client i only in a
// shared-option history (the shared options use argument set 0).
func c23argset(i int) int { return 1 + i%2 }

// runShared executes one shared-option history: the options of S are constructed
// once and passed, as the same slice, to every client; client i gets ex[i]
// appended (constructed afresh). callerWrites counts the differences that lie in
// an object the caller passed by pointer in a shared option (not judged).
func (r *c23runner) runShared(S c23tuple, ex []c23tuple) (finds []c23finding, callerWrites int, tainted bool) {
	alpha, refs := r.alpha, r.refs
	*uacp.DefaultClientACK, *uacp.DefaultServerACK = r.initACK[0], r.initACK[1]
	desc := func() string { b, _ := json.Marshal(sharedHistOf(alpha, S, ex)); return string(b) }
	sharesDialer := false
	for _, o := range S {
		if alpha[o].Name == "Dialer" {
			sharesDialer = true
		}
	}
	// judged reports whether a differing leaf counts; a write through the caller's own *uacp.Dialer does not
	judged := func(dl string) bool {
		if sharesDialer && strings.HasPrefix(dl, "cfg>.dialer>") {
			callerWrites++
			return false
		}
		return true
	}
	fresh := func(t c23tuple, set int, into []opcua.Option) []opcua.Option {
		for _, o := range t {
			into = append(into, alpha[o].Make(set))
		}
		return into
	}
	var clients, twins [c23positions]*opcua.Client
	var errs, twinErrs [c23positions]error
	// twins first: the same options, every one constructed afresh
	for i, e := range ex {
		if len(e) == 0 {
			continue
		}
		twins[i], twinErrs[i] = opcua.NewClient(c23endpoint, fresh(e, c23argset(i), fresh(S, 0, nil))...)
		r.twin[i].client(twins[i], twinErrs[i])
	}
	shared := fresh(S, 0, make([]opcua.Option, 0, len(S)))
	for i, e := range ex {
		opts := shared // the very same slice
		if len(e) > 0 {
			opts = fresh(e, c23argset(i), shared[:len(shared):len(shared)])
		}
		clients[i], errs[i] = opcua.NewClient(c23endpoint, opts...)
		got := string(r.atCr[i].client(clients[i], errs[i]))
		if len(e) == 0 {
			if want := refs.Cfg["0|"+S.key()]; got != want {
				for _, dl := range diffDump(want, got) {
					if !judged(dl) {
						continue
					}
					finds = append(finds, c23finding{"options/later-client-differs-from-fresh-process/" + sharedObject(dl), func() string {
						return fmt.Sprintf("history %s: client #%d (the shared options only) right after construction differs from what the same options give in a fresh process: %s", desc(), i, dl)
					}})
				}
			}
		} else if want := string(r.twin[i].buf); got != want {
			for _, dl := range diffDump(want, got) {
				if !judged(dl) {
					continue
				}
				finds = append(finds, c23finding{"options/client-from-shared-options-differs-from-fresh-options/" + sharedObject(dl), func() string {
					return fmt.Sprintf("history %s: client #%d right after construction differs from a client built (before any other) from freshly constructed options with the same arguments: %s", desc(), i, dl)
				}})
			}
		}
	}
	for i, e := range ex {
		if now := r.scratch.client(clients[i], errs[i]); !bytes.Equal(now, r.atCr[i].buf) {
			for _, dl := range diffDump(string(r.atCr[i].buf), string(now)) {
				if !judged(dl) {
					continue
				}
				finds = append(finds, c23finding{"options/existing-client-changed/" + sharedObject(dl), func() string {
					return fmt.Sprintf("history %s: configuration of client #%d changed after its construction: %s", desc(), i, dl)
				}})
			}
		}
		if len(e) == 0 {
			continue
		}
		if now := r.scratch.client(twins[i], twinErrs[i]); !bytes.Equal(now, r.twin[i].buf) {
			for _, dl := range diffDump(string(r.twin[i].buf), string(now)) {
				finds = append(finds, c23finding{"options/existing-client-changed/" + sharedObject(dl), func() string {
					return fmt.Sprintf("history %s: configuration of the client built first from freshly constructed options (twin of client #%d) changed after its construction: %s", desc(), i, dl)
				}})
			}
		}
	}
	finds, tainted = r.epilogue(desc, finds)
	return finds, callerWrites, tainted
}

func sharedHistOf(alpha []c23opt, S c23tuple, ex []c23tuple) c23hist {
	h := histOf(alpha, ex)
	h.Shared = histOf(alpha, []c23tuple{S}).Clients[0]
	return h
}

// c23sharedHistories calls f for every shared-option history with the shared
// tuple S (1 or 2 options): [S | S] and [S | S | S] without extras, and for every
// extra tuple E the shape [S | S+E], where E has one option (quick) or 1..2
// options with len(S)+len(E) <= 3 (thorough); the shapes [S+E | S] and
// [S | S | S+E] are added for one shared plus one extra option (quick) or for
// every S, E (thorough).
func c23sharedHistories(tuples []c23tuple, S c23tuple, thorough bool, f func(ex []c23tuple) bool) bool {
	none := c23tuple{}
	if !f([]c23tuple{none, none}) || !f([]c23tuple{none, none, none}) {
		return false
	}
	for _, e := range tuples {
		if len(e) == 0 || len(S)+len(e) > 3 || (!thorough && len(e) > 1) {
			continue
		}
		if !f([]c23tuple{none, e}) {
			return false
		}
		if thorough || len(S)+len(e) == 2 {
			if !f([]c23tuple{e, none}) || !f([]c23tuple{none, none, e}) {
				return false
			}
		}
	}
	return true
}

// c23enumerate calls f for every history within the bound that starts with
// tuples[first] (the sharding unit). limit[n] is the maximal total number of
// options of a history of n clients (0 = no history of that length).
func c23enumerate(tuples []c23tuple, first int, limit []int, f func(h []c23tuple) bool) bool {
	var rec func(h []c23tuple, used int) bool
	rec = func(h []c23tuple, used int) bool {
		if !f(h) {
			return false
		}
		if len(h)+1 >= len(limit) {
			return true
		}
		for _, t := range tuples {
			if used+len(t) > limit[len(h)+1] {
				continue
			}
			if !rec(append(h, t), used+len(t)) {
				return false
			}
		}
		return true
	}
	t := tuples[first]
	if len(limit) < 2 || len(t) > limit[1] {
		return true
	}
	return rec([]c23tuple{t}, len(t))
}

func c23init() []c23opt {
	for j := range c23chans {
		c23chans[j] = make(chan opcua.ConnState, 1)
	}
	return c23alphabet()
}

func runC23() {
	alpha := c23init()
	// reference mode: one construction in a fresh process
	parseKey := func(spec string) (int, c23tuple) {
		var t c23tuple
		parts := strings.SplitN(spec, "|", 2)
		pos, _ := strconv.Atoi(parts[0])
		if len(parts) > 1 && parts[1] != "" {
			for _, s := range strings.Split(parts[1], ",") {
				o, _ := strconv.Atoi(s)
				t = append(t, o)
			}
		}
		return pos, t
	}
	if spec := os.Getenv("C23_REF"); spec != "" {
		quiet()
		pos, t := parseKey(spec)
		g := dumpGlobals()
		c, err := c23build(alpha, t, pos)
		out, _ := json.Marshal(c23batchOut{Globals: g, Cfg: map[string]string{spec: c23dumpOf(c, err)}, Done: 1})
		os.Stdout.Write(out)
		return
	}
	// batched reference mode (two-option tuples): several constructions in one
	// process, each from a state that is observably identical to a fresh process
	// (exported defaults restored, default configuration and package defaults
	// re-checked after every construction; the process stops at the first
	// construction after which that state cannot be re-established).
	if path := os.Getenv("C23_REF_BATCH"); path != "" {
		quiet()
		var keys []string
		b, _ := os.ReadFile(path)
		json.Unmarshal(b, &keys)
		init := [2]uacp.Acknowledge{*uacp.DefaultClientACK, *uacp.DefaultServerACK}
		out := c23batchOut{Globals: dumpGlobals(), Cfg: map[string]string{}}
		c0, err0 := opcua.NewClient(c23endpoint)
		out.Default = c23dumpOf(c0, err0)
		for _, k := range keys {
			pos, t := parseKey(k)
			c, err := c23build(alpha, t, pos)
			out.Cfg[k] = c23dumpOf(c, err)
			out.Done++
			*uacp.DefaultClientACK, *uacp.DefaultServerACK = init[0], init[1]
			cd, errd := opcua.NewClient(c23endpoint)
			if dumpGlobals() != out.Globals || c23dumpOf(cd, errd) != out.Default {
				break
			}
		}
		ob, _ := json.Marshal(out)
		os.Stdout.Write(ob)
		return
	}

	r := evid.New("C23")
	// limit[n] = maximal number of options in a history of n clients
	limit := []int{0, 2, 3}
	if evid.Thorough() {
		limit = []int{0, 2, 4, 3}
	}
	maxClients := len(limit) - 1
	tuples := c23tuples(len(alpha))

	if os.Getenv("VERIF_SHARD") == "" {
		// the alphabet must cover the source
		src, err := c23sourceOptions()
		if err != nil {
			evid.EngineError("C23", "cannot read config.go: %v", err)
		}
		have := map[string]bool{}
		for _, o := range alpha {
			have[o.Name] = true
		}
		var missing []string
		for _, n := range src {
			if !have[n] {
				missing = append(missing, n)
			}
		}
		if len(missing) > 0 || len(src) != len(alpha) {
			evid.EngineError("C23", "option alphabet (%d) does not match the exported Option constructors of config.go (%d); missing from the alphabet: %v", len(alpha), len(src), missing)
		}
	}

	var hrep c23hist
	replay := evid.ReplayInput(&hrep)
	if replay {
		maxClients = c23positions
	}

	// references: one fresh process per (position, tuple)
	refPath := os.Getenv("C23_REFS")
	refs := &c23refs{Cfg: map[string]string{}}
	if refPath == "" {
		// strict references (one fresh process each): the default client and every
		// one-option tuple at every position; batched references: two-option tuples
		var strict, batched []string
		for pos := 0; pos < maxClients; pos++ {
			for _, t := range tuples {
				k := strconv.Itoa(pos) + "|" + t.key()
				if len(t) <= 1 {
					strict = append(strict, k)
				} else {
					batched = append(batched, k)
				}
			}
		}
		var mu sync.Mutex
		var wg sync.WaitGroup
		var firstErr error
		var refProcs int
		fail := func(e error) {
			mu.Lock()
			if firstErr == nil {
				firstErr = e
			}
			mu.Unlock()
		}
		spawn := func(env string) (*c23batchOut, error) {
			cmd := exec.Command(os.Args[0], "C23")
			cmd.Env = append(os.Environ(), env, "GOMAXPROCS=1")
			out, err := cmd.Output()
			if err != nil {
				return nil, err
			}
			var m c23batchOut
			if err := json.Unmarshal(out, &m); err != nil {
				return nil, err
			}
			mu.Lock()
			refProcs++
			if refs.Globals == "" {
				refs.Globals = m.Globals
			} else if refs.Globals != m.Globals && firstErr == nil {
				firstErr = fmt.Errorf("fresh processes disagree on the package-level defaults")
			}
			for k, v := range m.Cfg {
				refs.Cfg[k] = v
			}
			mu.Unlock()
			return &m, nil
		}
		ch := make(chan string)
		for w := 0; w < evid.Workers(); w++ {
			wg.Add(1)
			go func() {
				defer wg.Done()
				for k := range ch {
					if _, err := spawn("C23_REF=" + k); err != nil {
						fail(fmt.Errorf("reference %s: %v", k, err))
					}
				}
			}()
		}
		for _, k := range strict {
			ch <- k
		}
		close(ch)
		wg.Wait()
		if firstErr != nil {
			evid.EngineError("C23", "%v", firstErr)
		}
		// batched: split into Workers() chunks; a process that stops early is
		// replaced by a new one for the rest of its chunk
		nw := evid.Workers()
		for w := 0; w < nw; w++ {
			var chunk []string
			for i := w; i < len(batched); i += nw {
				chunk = append(chunk, batched[i])
			}
			wg.Add(1)
			go func(chunk []string) {
				defer wg.Done()
				for len(chunk) > 0 {
					f, err := os.CreateTemp(evid.Scratch(), "c23batch-*.json")
					if err != nil {
						fail(err)
						return
					}
					json.NewEncoder(f).Encode(chunk)
					f.Close()
					m, err := spawn("C23_REF_BATCH=" + f.Name())
					os.Remove(f.Name())
					if err != nil || m.Done == 0 {
						fail(fmt.Errorf("reference batch: %v", err))
						return
					}
					mu.Lock()
					def := refs.Cfg["0|"]
					mu.Unlock()
					if m.Default != def {
						fail(fmt.Errorf("default configuration at the start of a reference batch differs from the fresh-process default"))
						return
					}
					chunk = chunk[m.Done:]
				}
			}(chunk)
		}
		wg.Wait()
		if firstErr != nil {
			evid.EngineError("C23", "%v", firstErr)
		}
		r.Set("reference_processes", refProcs)
		f, err := os.CreateTemp(evid.Scratch(), "c23refs-*.json")
		if err != nil {
			evid.EngineError("C23", "%v", err)
		}
		json.NewEncoder(f).Encode(refs)
		f.Close()
		refPath = f.Name()
		os.Setenv("C23_REFS", refPath)
	} else {
		b, err := os.ReadFile(refPath)
		if err != nil {
			evid.EngineError("C23", "%v", err)
		}
		if err := json.Unmarshal(b, refs); err != nil {
			evid.EngineError("C23", "%v", err)
		}
	}
	initACK := [2]uacp.Acknowledge{*uacp.DefaultClientACK, *uacp.DefaultServerACK}
	if dumpGlobals() != refs.Globals {
		evid.EngineError("C23", "package-level defaults of this process differ from a fresh process before anything ran")
	}

	if replay {
		idx := map[string]int{}
		for i, o := range alpha {
			idx[o.Name] = i
		}
		var h []c23tuple
		for _, names := range hrep.Clients {
			t := c23tuple{}
			for _, n := range names {
				t = append(t, idx[n])
			}
			h = append(h, t)
		}
		var finds []c23finding
		var tainted bool
		if len(hrep.Shared) > 0 {
			S := c23tuple{}
			for _, n := range hrep.Shared {
				S = append(S, idx[n])
			}
			var cw int
			finds, cw, tainted = newC23runner(alpha, refs, initACK).runShared(S, h)
			fmt.Printf("shared-option history: %d differences inside the caller's own shared *uacp.Dialer (not judged)\n", cw)
		} else {
			finds, tainted = newC23runner(alpha, refs, initACK).run(h)
		}
		fmt.Printf("replay %+v -> %d findings, initial state restorable=%v\n", hrep, len(finds), !tainted)
		for _, f := range finds {
			fmt.Printf("  %s\n    %s\n", f.sig, f.detail())
		}
		if len(finds) > 0 {
			os.Remove(refPath)
			os.Exit(1)
		}
		return
	}

	r.Rule(fmt.Sprintf("every history of 1..%d NewClient constructions in one process, each with 0..2 options (ordered, repetition allowed) from the %d exported Option constructors of config.go, with at most %v options in a history of 1/2/3 clients; option arguments are distinctive and depend on the client's position; reference = the same construction in a fresh process (the default client and every one-option tuple: one new process each; two-option tuples: batched in processes that restore and re-verify the fresh default state after every construction; %d reference constructions); non-trivial (counted in distinct_nontrivial) = a history of exactly 2 clients with at least 1 option (the smallest shape in which one client can influence another; longer histories extend these and are counted in evaluations only), distinct by the ordered option names of both clients. Second family, shared-option histories: for every tuple S of 1..2 options the Option values are constructed once and passed as one []Option slice to 2 or 3 clients ([S | S], [S | S | S]); for every extra tuple E of %s, constructed afresh and appended for one client only: [S | S+E], and - %s - [S+E | S] and [S | S | S+E]; a client built from S alone is compared with the fresh-process reference of S, a client built from S+E with a twin built first from freshly constructed equal options, and every client and twin is compared before/after everything built later; every shared-option history counts as non-trivial, distinct by (S, extras per client)", maxClients, len(alpha), limit[1:], maxClients*len(tuples), map[bool]string{false: "one option", true: "1..2 options with len(S)+len(E) <= 3"}[evid.Thorough()], map[bool]string{false: "for one shared and one extra option", true: "for every S and E"}[evid.Thorough()]))
	r.Assume("RequestIDSeed (RandomRequestID draws from math/rand) is compared as zero / non-zero only", "in the first family option argument objects are created afresh for every application, so sharing introduced by the caller is excluded; in the shared-option family the Option values themselves are shared and the only object the caller thereby shares by pointer is the *uacp.Dialer of Dialer: differences inside that dialer (DialTimeout, MaxMessageSize, ... write through the pointer the caller supplied) are counted in the outcomes and not judged", "between histories the exported defaults uacp.DefaultClientACK/DefaultServerACK are restored; the fresh-default configuration is re-checked against the fresh-process reference after every history that produced a finding")
	deaths := evid.Sharded(r, 0, func(s evid.ShardInfo, w *evid.Run) {
		quiet()
		debug.SetGCPercent(800)
		run := newC23runner(alpha, refs, initACK)
		var histories, withFindings int64
		stopped := false
		seenSig := map[string]bool{}
		for first := range tuples {
			if !s.Mine(int64(first)) || stopped {
				continue
			}
			evid.Publish("first client options " + fmt.Sprint(histOf(alpha, []c23tuple{tuples[first]}).Clients))
			c23enumerate(tuples, first, limit, func(h []c23tuple) bool {
				histories++
				total := 0
				for _, t := range h {
					total += len(t)
				}
				finds, tainted := run.run(h)
				if len(h) == 2 && total >= 1 {
					var hb bytes.Buffer
					for _, t := range h {
						hb.WriteString(t.key())
						hb.WriteByte(';')
					}
					w.DistinctHash(evid.H(hb.String()))
				}
				if len(finds) == 0 {
					if histories%50000 == 1 {
						w.Sample(histOf(alpha, h))
					}
				}
				if len(finds) > 0 {
					withFindings++
					w.Outcome("history-with-a-finding")
				} else {
					w.Outcome("history-clean")
				}
				for _, f := range finds {
					if seenSig[f.sig] {
						w.Violate(f.sig, "", nil) // counted; the first case of a signature carries the detail
						continue
					}
					seenSig[f.sig] = true
					w.Violate(f.sig, f.detail(), histOf(alpha, h))
				}
				if tainted {
					w.Capped(fmt.Sprintf("shard %d stopped: after history %v the initial state could not be restored (an unexported default was changed)", s.Index, histOf(alpha, h).Clients))
					stopped = true
					return false
				}
				return true
			})
		}
		// second family: shared-option histories, sharded by the shared tuple
		for si, S := range tuples {
			if len(S) == 0 || stopped || !s.Mine(int64(len(tuples)+si)) {
				continue
			}
			evid.Publish("shared options " + fmt.Sprint(histOf(alpha, []c23tuple{S}).Clients))
			c23sharedHistories(tuples, S, evid.Thorough(), func(ex []c23tuple) bool {
				histories++
				finds, callerWrites, tainted := run.runShared(S, ex)
				var hb bytes.Buffer
				hb.WriteString("shared:" + S.key())
				for _, t := range ex {
					hb.WriteByte(';')
					hb.WriteString(t.key())
				}
				w.DistinctHash(evid.H(hb.String()))
				switch {
				case len(finds) > 0:
					withFindings++
					w.Outcome("shared-option-history-with-a-finding")
				case callerWrites > 0:
					w.Outcome("shared-option-history-clean-except-writes-through-the-caller's-shared-dialer(not judged)")
				default:
					w.Outcome("shared-option-history-clean")
					if histories%50000 == 1 {
						w.Sample(sharedHistOf(alpha, S, ex))
					}
				}
				for _, f := range finds {
					if seenSig[f.sig] {
						w.Violate(f.sig, "", nil)
						continue
					}
					seenSig[f.sig] = true
					w.Violate(f.sig, f.detail(), sharedHistOf(alpha, S, ex))
				}
				if tainted {
					w.Capped(fmt.Sprintf("shard %d stopped: after shared-option history %v the initial state could not be restored (an unexported default was changed)", s.Index, sharedHistOf(alpha, S, ex)))
					stopped = true
					return false
				}
				return true
			})
		}
		w.EvalN(histories)
		w.AddStates(histories, histories)
	})
	for _, d := range deaths {
		r.Violate("options/process-died/"+topRepoFrame(panicText(d.Stderr)), d.LastCase+": "+d.ExitErr+"\n"+panicText(d.Stderr), nil)
		r.Capped("worker died: " + d.LastCase)
	}
	r.Set("option_alphabet", len(alpha))
	r.Set("client_option_tuples", len(tuples))
	if os.Getenv("VERIF_SHARD") == "" {
		os.Remove(refPath)
	}
	r.Finish()
}
