// Harness "client": properties of the client package (client.go, client_sub.go,
// subscription.go, node.go, config.go, monitor/), all driving the REAL client
// against the REAL gopcua server over loopback TCP with the default scheduler.
//
//	C21  client calls never panic on any well-formed server response   (c21*.go)
//	C22  a session is established only after the server proves identity (c22.go)
//	C23  client options affect only the client they are applied to      (c23.go)
//	C37  client and server interoperate under every security config    (c37.go)
package main

import (
	"fmt"
	"os"
)

func main() {
	quiet()
	if os.Getenv("VERIF_SCRATCH") == "" {
		// own scratch base: other checks clean /var/tmp/verif-work while this one runs
		os.Setenv("VERIF_SCRATCH", "/tmp/verif-work-client")
	}
	// worker processes are re-executions of this binary; go through /proc/self/exe so
	// that they start even if the file in /verif/.bin is replaced or removed meanwhile
	if _, err := os.Stat("/proc/self/exe"); err == nil {
		os.Args[0] = "/proc/self/exe"
	}
	if len(os.Args) < 2 {
		fmt.Println("ENGINE-ERROR property=? usage: client <C21|C22|C23|C37|keygen>")
		os.Exit(2)
	}
	switch os.Args[1] {
	case "keygen":
		keygen()
	case "C21":
		runC21()
	case "C22":
		runC22()
	case "C23":
		runC23()
	case "C37":
		runC37()
	default:
		fmt.Printf("ENGINE-ERROR property=%s not handled by harness/client\n", os.Args[1])
		os.Exit(2)
	}
}
