package main

func runC21() {}
