package main

import (
	"fmt"
	"os"
	"time"
)

func init() {
	if os.Getenv("DBG21") != "" {
		quiet()
		cases := c21allCases(false)
		t0 := time.Now()
		srv := newC21Server()
		fmt.Println("server", time.Since(t0), len(cases))
		n := 0
		for i, c := range cases {
			if c.Op != "PublishLoop" { continue }
			n++
			if n > 3 { break }
			t := time.Now()
			res, ee := c21run(srv, c)
			fmt.Println(i, c.Op, c.Svc, c.Class, res.Outcome, res.Err, ee, time.Since(t), res.Detail)
			fmt.Println(clientGoroutineDump())
		}
		fmt.Println("total", time.Since(t0))
		os.Exit(0)
	}
}
