package main

import (
	"fmt"
	"os"
	"time"
)

func init() {
	if os.Getenv("DBG21") != "" {
		quiet()
		cases := c21allCases(false)
		t0 := time.Now()
		srv := newC21Server()
		var tot time.Duration
		n := 0
		for i, c := range cases {
			if i%16 != 3 { continue }
			t := time.Now()
			res, ee := c21run(srv, c)
			d := time.Since(t)
			tot += d
			n++
			if d > 300*time.Millisecond || ee != "" {
				fmt.Println(i, c.Op, c.Svc, c.Class, res.Outcome, ee, d, res.Detail)
			}
		}
		fmt.Println("total", time.Since(t0), n, tot/time.Duration(n))
		os.Exit(0)
	}
}
