// C24: endpoint selection returns a best matching endpoint.
//
// Bounded exhaustive enumeration of every endpoint list of length <= L over
// {policy} x {mode} x {level} (duplicates and ties included) and every query
// (policy spelling x mode). Oracle: brute-force specification.
package main

import (
	"fmt"
	"os"

	"github.com/gopcua/opcua"
	"github.com/gopcua/opcua/ua"
	"verif/engine/evid"
)

type ep struct {
	Pol   int `json:"pol"`
	Mode  int `json:"mode"`
	Level int `json:"level"`
}

type cse struct {
	Eps    []ep   `json:"eps"`
	Policy string `json:"policy"`
	Mode   int    `json:"mode"`
}

var polURIs = []string{ua.SecurityPolicyURINone, ua.SecurityPolicyURIBasic256Sha256, ua.SecurityPolicyURIAes256Sha256RsaPss}
var modes = []ua.MessageSecurityMode{ua.MessageSecurityModeNone, ua.MessageSecurityModeSign, ua.MessageSecurityModeSignAndEncrypt}

// queries: "" = don't care; short name; full URI; unknown
var qPolicies = []string{"", "None", "Basic256Sha256", "Aes256Sha256RsaPss",
	ua.SecurityPolicyURINone, ua.SecurityPolicyURIBasic256Sha256, ua.SecurityPolicyURIAes256Sha256RsaPss, "Unknown", ua.SecurityPolicyURIPrefix + "Unknown"}
var qModes = []ua.MessageSecurityMode{ua.MessageSecurityModeInvalid, ua.MessageSecurityModeNone, ua.MessageSecurityModeSign, ua.MessageSecurityModeSignAndEncrypt}

// canonical URI of a query policy, by the documented rule: short names and full URIs denote the same policy.
func canon(p string) string {
	switch p {
	case "":
		return ""
	case "None", ua.SecurityPolicyURINone:
		return ua.SecurityPolicyURINone
	case "Basic256Sha256", ua.SecurityPolicyURIBasic256Sha256:
		return ua.SecurityPolicyURIBasic256Sha256
	case "Aes256Sha256RsaPss", ua.SecurityPolicyURIAes256Sha256RsaPss:
		return ua.SecurityPolicyURIAes256Sha256RsaPss
	}
	return "<unknown>"
}

func build(c cse) []*ua.EndpointDescription {
	out := make([]*ua.EndpointDescription, len(c.Eps))
	for i, e := range c.Eps {
		out[i] = &ua.EndpointDescription{
			EndpointURL:       fmt.Sprintf("opc.tcp://h:%d", 4840+i),
			SecurityPolicyURI: polURIs[e.Pol],
			SecurityMode:      modes[e.Mode],
			SecurityLevel:     uint8(e.Level),
		}
	}
	return out
}

func check(c cse) (sig, detail string) {
	defer func() {
		if r := recover(); r != nil {
			sig, detail = "SelectEndpoint/panic", fmt.Sprint(r)
		}
	}()
	eps := build(c)
	orig := append([]*ua.EndpointDescription(nil), eps...)
	got, err := opcua.SelectEndpoint(eps, c.Policy, ua.MessageSecurityMode(c.Mode))
	want := canon(c.Policy)
	best, any := -1, false
	for _, e := range orig {
		if (want == "" || e.SecurityPolicyURI == want) && (c.Mode == int(ua.MessageSecurityModeInvalid) || int(e.SecurityMode) == c.Mode) {
			any = true
			if int(e.SecurityLevel) > best {
				best = int(e.SecurityLevel)
			}
		}
	}
	switch {
	case !any && err == nil:
		return "SelectEndpoint/returned-endpoint-although-none-matches", fmt.Sprintf("got %+v", got)
	case !any:
		return "", ""
	case err != nil:
		return "SelectEndpoint/error-although-a-match-exists", err.Error()
	case got == nil:
		return "SelectEndpoint/nil-endpoint-without-error", ""
	}
	found := false
	for _, e := range orig {
		if e == got {
			found = true
		}
	}
	if !found {
		return "SelectEndpoint/result-not-from-list", fmt.Sprintf("%+v", got)
	}
	if (want != "" && got.SecurityPolicyURI != want) || (c.Mode != int(ua.MessageSecurityModeInvalid) && int(got.SecurityMode) != c.Mode) {
		return "SelectEndpoint/result-does-not-match-query", fmt.Sprintf("got %s/%v", got.SecurityPolicyURI, got.SecurityMode)
	}
	if int(got.SecurityLevel) != best {
		return "SelectEndpoint/not-highest-security-level", fmt.Sprintf("got level %d, best matching level %d", got.SecurityLevel, best)
	}
	return "", ""
}

func main() {
	r := evid.New("C24")
	var rc cse
	if evid.ReplayInput(&rc) {
		sig, detail := check(rc)
		fmt.Printf("replay %+v -> sig=%q detail=%q\n", rc, sig, detail)
		if sig != "" {
			os.Exit(1)
		}
		return
	}
	maxLen := 3
	if evid.Thorough() {
		maxLen = 4
	}
	alphabet := []ep{}
	for p := range polURIs {
		for m := range modes {
			for l := 0; l < 3; l++ {
				alphabet = append(alphabet, ep{p, m, l})
			}
		}
	}
	r.Rule(fmt.Sprintf("every endpoint list of length 0..%d over %d endpoint shapes (3 policies x 3 modes x 3 levels, duplicates and ties included) x %d policy spellings x %d modes; non-trivial = a list of at least 2 endpoints (so that order, ties and level comparison matter), distinct by (ordered list, canonical query policy, query mode)", maxLen, len(alphabet), len(qPolicies), len(qModes)))
	var lists int64
	var rec func(cur []ep)
	rec = func(cur []ep) {
		lists++
		for _, qp := range qPolicies {
			for _, qm := range qModes {
				c := cse{Eps: append([]ep(nil), cur...), Policy: qp, Mode: int(qm)}
				sig, detail := check(c)
				key := ""
				if len(cur) > 1 {
					key = fmt.Sprint(cur, canon(qp), qm)
				}
				r.Eval(key)
				if lists%5000 == 1 && qp == "Basic256Sha256" && qm == ua.MessageSecurityModeSign {
					r.Sample(c)
				}
				if sig != "" {
					r.Violate(sig, fmt.Sprintf("%s; case %+v", detail, c), c)
				}
			}
		}
		if len(cur) == maxLen {
			return
		}
		for _, e := range alphabet {
			rec(append(cur, e))
		}
	}
	rec(nil)
	r.AddStates(lists, r.Evaluations())
	r.Set("max_list_length", maxLen)
	r.Assume("policies restricted to None/Basic256Sha256/Aes256Sha256RsaPss and levels to 0..2: the selection logic compares URIs and levels only for equality/order")
	r.Finish()
}
