// C08: secured chunks conform to the OPC UA Part 6 wire layout (both directions, OPN and MSG/CLO).
//
// The REAL gopcua secure channel code runs on one end of a loopback TCP connection, the
// independent reference (engine/refcodec, written from the specification, standard library only)
// plays the full peer on the other end:
//
//	gopcua-client: uacp.Dial + uasc.NewSecureChannel + Open / SendRequest / Close
//	               against refcodec.Accept (HEL/ACK, OPN) + Recv / Send
//	gopcua-server: uacp.Listen/Accept + uasc.NewServerSecureChannel + Receive / SendResponseWithContext
//	               against refcodec.Dial + Send / Recv
//
// Grid: policy x mode x (gopcua key size, refcodec key size) incl. unequal sizes x buffer size x
// refcodec padding style; per channel a list of body sizes (0,1, every residue of the cipher
// block, around 1x/2x the maximal single-chunk body, 3 chunks) sent in both directions.
//
// Oracle: refcodec verifies + decrypts every chunk gopcua emits (strict layout checks) and the
// reassembled plaintext equals the service body gopcua was given; gopcua accepts every chunk
// refcodec emits and delivers exactly the message refcodec encoded.
//
// Time is only used as a hang watchdog (60 s per step); no oracle depends on it.
package main

import (
	"bytes"
	"context"
	"errors"
	"fmt"
	"io"
	"net"
	"os"
	"sort"
	"strings"
	"sync"
	"time"

	"github.com/gopcua/opcua/ua"
	"github.com/gopcua/opcua/uacp"
	"github.com/gopcua/opcua/uapolicy"
	"github.com/gopcua/opcua/uasc"
	"verif/engine/evid"
	"verif/engine/keys"
	"verif/engine/refcodec"
)

const watchdog = 60 * time.Second

type chanCase struct {
	Side    string `json:"side"` // gopcua-client | gopcua-server
	Policy  string `json:"policy"`
	Mode    int    `json:"mode"`
	GoBits  int    `json:"gopcua_key_bits"`
	RefBits int    `json:"refcodec_key_bits"`
	Buf     uint32 `json:"buffer_size"`
	Style   int    `json:"refcodec_pad_style"`
}

func (c chanCase) String() string {
	return fmt.Sprintf("%s/%s/%v/go%d/ref%d/buf%d/style%d", c.Side, c.Policy, refcodec.Mode(c.Mode), c.GoBits, c.RefBits, c.Buf, c.Style)
}

type viol struct{ sig, detail string }

// ---------------------------------------------------------------------------------------------

func payload(n int, salt byte) []byte {
	// printable, so that it is also a valid UA String
	b := make([]byte, n)
	x := uint32(salt)*2654435761 + 99991
	for i := range b {
		x = x*1664525 + 1013904223
		b[i] = 'a' + byte(x>>24)%26
	}
	return b
}

func encodeBody(typeID uint16, v interface{}) ([]byte, error) {
	id, err := ua.Encode(ua.NewFourByteExpandedNodeID(0, typeID))
	if err != nil {
		return nil, err
	}
	b, err := ua.Encode(v)
	return append(id, b...), err
}

func errClass(err error) string {
	var uerr *uacp.Error
	switch {
	case err == nil:
		return "nil"
	case errors.Is(err, io.EOF):
		return "EOF"
	case errors.Is(err, ua.StatusBadSecurityChecksFailed):
		return "BadSecurityChecksFailed"
	case errors.Is(err, ua.StatusBadTimeout):
		return "BadTimeout"
	case errors.Is(err, ua.StatusBadDecodingError):
		return "BadDecodingError"
	case errors.As(err, &uerr):
		return "uacp-error"
	case strings.HasPrefix(err.Error(), "panic:"):
		return "panic"
	}
	var sc ua.StatusCode
	if errors.As(err, &sc) {
		return fmt.Sprintf("status-0x%08X", uint32(sc))
	}
	return "error"
}

func keyClass(bits int) string {
	if bits > 2048 {
		return ">2048"
	}
	return "<=2048"
}

// guard runs f in a goroutine and converts a panic into an error.
func guard(f func() error) <-chan error {
	ch := make(chan error, 1)
	go func() {
		defer func() {
			if r := recover(); r != nil {
				ch <- fmt.Errorf("panic: %v", r)
			}
		}()
		ch <- f()
	}()
	return ch
}

type session struct {
	cc      chanCase
	w       *evid.Run
	verbose bool
	p       *refcodec.Policy
	mode    refcodec.Mode
	goKey   *keys.Pair
	refKey  *keys.Pair
	out     []viol
	mu      sync.Mutex
	closers []io.Closer
	goErr   chan error // errors gopcua reports asynchronously (dispatcher / server loop)
}

// eval counts one judged message; trivial (policy None) cases carry no key.
func (s *session) eval(key, dir string) {
	if key == "" {
		s.w.Eval("")
		return
	}
	s.w.Eval(key + "|" + dir)
}

func (s *session) logf(f string, a ...any) {
	if s.verbose {
		fmt.Printf("  "+f+"\n", a...)
	}
}

func (s *session) kill() {
	s.mu.Lock()
	defer s.mu.Unlock()
	for _, c := range s.closers {
		c.Close()
	}
}

func (s *session) closer(c io.Closer) {
	s.mu.Lock()
	s.closers = append(s.closers, c)
	s.mu.Unlock()
}

func (s *session) violate(step, kind, f string, a ...any) {
	sig := fmt.Sprintf("%s/%s/%s/%s/%v", s.cc.Side, step, kind, s.p.Name, s.mode)
	if strings.HasPrefix(step, "opn") {
		sig += fmt.Sprintf("/gokey%s/refkey%s", keyClass(s.cc.GoBits), keyClass(s.cc.RefBits))
	}
	s.out = append(s.out, viol{sig, fmt.Sprintf(f, a...)})
	s.logf("VIOLATION %s: %s", sig, fmt.Sprintf(f, a...))
}

// both waits for the gopcua-side and the refcodec-side action of one step. If either fails
// (or gopcua reports an asynchronous error, or the watchdog fires) the connections are closed
// so that the other side unblocks. Returns (gopcuaErr, refErr, asyncErr, hung).
func (s *session) both(g, r <-chan error) (gerr, rerr, aerr error, hung bool) {
	t := time.NewTimer(watchdog)
	defer t.Stop()
	gd, rd := g == nil, r == nil
	for !gd || !rd {
		select {
		case e := <-g:
			gerr, gd, g = e, true, nil
			if e != nil {
				s.kill()
			}
		case e := <-r:
			rerr, rd, r = e, true, nil
			if e != nil {
				s.kill()
			}
		case e := <-s.goErr:
			if aerr == nil {
				aerr = e
			}
			s.kill()
		case <-t.C:
			hung = true
			s.kill()
			// give both sides a moment to unwind after the close; do not wait forever
			t2 := time.NewTimer(5 * time.Second)
			for !gd || !rd {
				select {
				case e := <-g:
					gerr, gd, g = e, true, nil
				case e := <-r:
					rerr, rd, r = e, true, nil
				case <-t2.C:
					return
				}
			}
			return
		}
	}
	return
}

// judge turns the outcome of a step into at most one violation. dir says who emitted the
// chunks of the step ("go2ref": refcodec judges gopcua's output; "ref2go": gopcua judges refcodec's).
func (s *session) judge(step string, gerr, rerr, aerr error, hung bool) bool {
	if gerr == nil && rerr == nil && aerr == nil && !hung {
		return true
	}
	var le *refcodec.LayoutError
	switch {
	case rerr != nil && errors.As(rerr, &le):
		s.violate(step, "refcodec-rejects:"+le.Kind, "%v (gopcua side: %v, async: %v)", rerr, gerr, aerr)
	case gerr != nil && errClass(gerr) == "panic":
		s.violate(step, "gopcua-panic", "%v", gerr)
	case aerr != nil && !errors.Is(aerr, io.EOF):
		s.violate(step, "gopcua-rejects:"+errClass(aerr), "gopcua reported %v (call returned %v; refcodec side: %v)", aerr, gerr, rerr)
	case gerr != nil && !errors.Is(gerr, io.EOF):
		s.violate(step, "gopcua-fails:"+errClass(gerr), "gopcua returned %v (refcodec side: %v)", gerr, rerr)
	case hung:
		s.violate(step, "hang", "no progress within %s (gopcua: %v, refcodec: %v)", watchdog, gerr, rerr)
	case rerr != nil:
		s.violate(step, "refcodec-fails:"+refcodec.ErrKind(rerr), "%v (gopcua side: %v, async %v)", rerr, gerr, aerr)
	default:
		s.violate(step, "connection-lost", "gopcua: %v async: %v refcodec: %v", gerr, aerr, rerr)
	}
	return false
}

func (s *session) endpoint() *refcodec.Endpoint {
	ep := &refcodec.Endpoint{Policy: s.p, Mode: s.mode, ReceiveBufSize: s.cc.Buf, SendBufSize: s.cc.Buf,
		RequestedLifetime: 3600000, ChannelID: 4711, TokenID: 17, FirstSequence: 51, FirstRequestID: 1001, Timestamp: 132500000000000000,
		Style: refcodec.PadStyle(s.cc.Style), OPN: refcodec.OPNOptions{Style: refcodec.PadStyle(s.cc.Style)}}
	if !s.p.IsNone() {
		ep.Key, ep.CertDER, ep.PeerCertDER = s.refKey.Key, s.refKey.CertDER, s.goKey.CertDER
		// deterministic reference nonce (gopcua draws its own from crypto/rand)
		ep.Nonce = payload(s.p.NonceLen, byte(len(s.cc.String())))
	}
	return ep
}

func (s *session) config() *uasc.Config {
	cfg := &uasc.Config{SecurityPolicyURI: s.p.URI, SecurityMode: ua.MessageSecurityMode(s.mode), Lifetime: 3600000, RequestTimeout: 2 * watchdog}
	if !s.p.IsNone() {
		cfg.Certificate, cfg.LocalKey = s.goKey.CertDER, s.goKey.Key
	}
	return cfg
}

func (s *session) opnOutcome(what string, l *refcodec.Layout) {
	if l == nil {
		return
	}
	s.w.Outcome(fmt.Sprintf("%s %s: extraPadding=%v padding>255=%v plainBlockUsed=max%+d", what, s.p.Name, l.ExtraPadding, l.PaddingSize > 255, l.PlainBlockUsed-l.PlainBlockMax))
	if l.PlainBlockUsed < l.PlainBlockMax {
		s.w.Outcome(fmt.Sprintf("remark: %s gopcua fills RSA blocks with %d of %d possible plaintext bytes; refcodec decrypts block-wise and interoperates", s.p.Name, l.PlainBlockUsed, l.PlainBlockMax))
	}
}

// bodySizes returns the list of message body sizes (type id + structure) to exchange.
func bodySizes(sec refcodec.SymSecurity, buf int, minBody, maxBase int, thorough bool) []int {
	set := map[int]bool{}
	span := 18
	if thorough {
		span = 50
	}
	for i := 0; i < span+maxBase-minBody; i++ {
		set[minBody+i] = true
	}
	for _, style := range []refcodec.PadStyle{refcodec.PadMinimal, refcodec.PadSpecFormula} {
		m := refcodec.SymMaxBody(sec, buf, style)
		d := 2
		if thorough {
			d = 17
		}
		for k := 1; k <= 2; k++ {
			for i := -d; i <= d; i++ {
				set[k*m+i] = true
			}
		}
		set[3*m+1] = true
		if thorough {
			set[4*m] = true
		}
	}
	var out []int
	for n := range set {
		if n >= minBody {
			out = append(out, n)
		}
	}
	sort.Ints(out)
	return out
}

var (
	reqBase  = len((&refcodec.FindServersRequest{}).Encode())
	respBase = len((&refcodec.ReadResponseBytes{}).Encode())
)

func clamp(n int) int {
	if n < 0 {
		return 0
	}
	return n
}

func goResponse(handle uint32, val []byte) *ua.ReadResponse {
	return &ua.ReadResponse{
		ResponseHeader: &ua.ResponseHeader{Timestamp: time.Date(2021, 1, 2, 3, 4, 5, 0, time.UTC), RequestHandle: handle,
			ServiceDiagnostics: &ua.DiagnosticInfo{}, StringTable: []string{}, AdditionalHeader: ua.NewExtensionObject(nil)},
		Results:         []*ua.DataValue{{EncodingMask: ua.DataValueValue, Value: ua.MustVariant(val)}},
		DiagnosticInfos: []*ua.DiagnosticInfo{},
	}
}

// checkGoRequest compares what refcodec reassembled with what gopcua was asked to send.
func (s *session) checkGoRequest(step string, m *refcodec.Message, req *ua.FindServersRequest, want []byte) bool {
	exp, err := encodeBody(refcodec.IDFindServersRequest, req)
	if err != nil {
		s.violate(step, "engine", "gopcua cannot encode its own request: %v", err)
		return false
	}
	if m.Type != refcodec.TypeMessage || !bytes.Equal(m.Body, exp) {
		s.violate(step, "plaintext-mismatch", "refcodec recovered %d bytes (%s) in %d chunks, gopcua's service body has %d bytes; first difference at %d", len(m.Body), m.Type, len(m.Chunks), len(exp), firstDiff(m.Body, exp))
		return false
	}
	d, err := refcodec.DecodeFindServersRequest(m.Body)
	if err != nil || d.EndpointURL != string(want) || d.Header.RequestHandle != m.RequestID {
		s.violate(step, "decoded-fields-mismatch", "refcodec decode err=%v url %d bytes (want %d) handle %d request id %d", err, len(d.EndpointURL), len(want), d.Header.RequestHandle, m.RequestID)
		return false
	}
	return true
}

func firstDiff(a, b []byte) int {
	for i := 0; i < len(a) && i < len(b); i++ {
		if a[i] != b[i] {
			return i
		}
	}
	if len(a) != len(b) {
		if len(a) < len(b) {
			return len(a)
		}
		return len(b)
	}
	return -1
}

func (s *session) recordChunks(dir string, recs []refcodec.ChunkRecord) {
	for _, c := range recs {
		if c.Layout != nil {
			s.w.Outcome(fmt.Sprintf("%s chunk %c pad=%d", dir, c.Final, c.Layout.PaddingSize))
		}
	}
	s.w.AddStates(int64(len(recs)), int64(len(recs)))
}

// ---------------------------------------------------------------------------------------------
// gopcua is the client

func (s *session) runClient(thorough bool) (judged, abandoned int) {
	ln, err := net.Listen("tcp", "127.0.0.1:0")
	if err != nil {
		evid.EngineError(s.w.ID, "listen: %v", err)
	}
	defer ln.Close()
	ep := s.endpoint()
	var ch *refcodec.Channel
	refSide := guard(func() error {
		c, err := ln.Accept()
		if err != nil {
			return err
		}
		s.closer(c)
		c.SetDeadline(time.Now().Add(10 * watchdog))
		ch, err = refcodec.Accept(c, ep)
		return err
	})
	var sc *uasc.SecureChannel
	ctx, cancel := context.WithCancel(context.Background())
	defer cancel()
	goSide := guard(func() error {
		d := &uacp.Dialer{ClientACK: &uacp.Acknowledge{ReceiveBufSize: s.cc.Buf, SendBufSize: s.cc.Buf}}
		conn, err := d.Dial(ctx, "opc.tcp://"+ln.Addr().String())
		if err != nil {
			return fmt.Errorf("uacp dial: %w", err)
		}
		s.closer(conn)
		cfg := s.config()
		if !s.p.IsNone() {
			cfg.RemoteCertificate = s.refKey.CertDER
			cfg.Thumbprint = uapolicy.Thumbprint(s.refKey.CertDER)
		}
		if sc, err = uasc.NewSecureChannel("opc.tcp://"+ln.Addr().String(), conn, cfg, s.goErr); err != nil {
			return err
		}
		return sc.Open(ctx)
	})
	defer s.kill()
	gerr, rerr, aerr, hung := s.both(goSide, refSide)
	// classify the handshake: refcodec's error names the step
	stepName := "opn-response"
	var se *refcodec.StepError
	if errors.As(rerr, &se) {
		stepName = se.Step
		if se.Step == "hel" || se.Step == "ack" {
			stepName = "uacp-" + se.Step
		}
	}
	s.w.Eval(s.cc.String() + "|opn-request")
	s.w.Eval(s.cc.String() + "|opn-response")
	judged += 2
	if !s.judge(stepName, gerr, rerr, aerr, hung) {
		return judged, -1
	}
	s.opnOutcome("gopcua OPN request", ch.OPNRequest.Layout)
	s.logf("handshake ok: OPN request layout %+v", *ch.OPNRequest.Layout)

	sizes := bodySizes(refcodec.SymSecurity{Policy: s.p, Mode: s.mode}, int(s.cc.Buf), minInt(reqBase, respBase), maxInt(reqBase, respBase), thorough)
	for i, T := range sizes {
		nReq, nResp := clamp(T-reqBase), clamp(T-respBase)
		reqPayload, respPayload := payload(nReq, byte(T)), payload(nResp, byte(T+1))
		req := &ua.FindServersRequest{EndpointURL: string(reqPayload)}
		var got ua.Response
		g := guard(func() error {
			return sc.SendRequest(ctx, req, nil, func(v ua.Response) error { got = v; return nil })
		})
		var m *refcodec.Message
		var sent []refcodec.ChunkRecord
		r := guard(func() error {
			var err error
			if m, err = ch.Recv(); err != nil {
				return err
			}
			body := (&refcodec.ReadResponseBytes{Header: refcodec.ResponseHeader{Timestamp: ep.Timestamp, RequestHandle: m.RequestID}, Value: respPayload}).Encode()
			sent, err = ch.Send(refcodec.TypeMessage, m.RequestID, body)
			return err
		})
		gerr, rerr, aerr, hung := s.both(g, r)
		key := ""
		if !s.p.IsNone() {
			key = fmt.Sprintf("%s|T=%d", s.cc, T)
		}
		s.eval(key, "go2ref")
		s.eval(key, "ref2go")
		judged += 2
		step := "msg-go2ref"
		if m != nil {
			step = "msg-ref2go"
		}
		if !s.judge(step, gerr, rerr, aerr, hung) {
			return judged, 2 * (len(sizes) - i - 1)
		}
		s.recordChunks("go2ref", m.Chunks)
		s.recordChunks("ref2go", sent)
		if !s.checkGoRequest("msg-go2ref", m, req, reqPayload) {
			return judged, 2 * (len(sizes) - i - 1)
		}
		rr, ok := got.(*ua.ReadResponse)
		switch {
		case !ok:
			s.violate("msg-ref2go", "delivered-wrong-type", "handler received %T", got)
		case len(rr.Results) != 1 || rr.Results[0].Value == nil || !bytes.Equal(rr.Results[0].Value.ByteString(), respPayload):
			s.violate("msg-ref2go", "delivered-message-differs", "refcodec sent a ReadResponse with a %d byte ByteString in %d chunks; gopcua delivered %d results", len(respPayload), len(sent), len(rr.Results))
		case rr.ResponseHeader.RequestHandle != m.RequestID:
			s.violate("msg-ref2go", "delivered-message-differs", "request handle %d, sent %d", rr.ResponseHeader.RequestHandle, m.RequestID)
		}
		if len(s.out) > 0 {
			return judged, 2 * (len(sizes) - i - 1)
		}
		s.logf("T=%d ok: request %d chunks, response %d chunks", T, len(m.Chunks), len(sent))
	}
	// CLO: gopcua closes the channel
	var m *refcodec.Message
	g := guard(func() error {
		if err := sc.Close(); err != nil && err != io.EOF {
			return err
		}
		return nil
	})
	r := guard(func() error { var err error; m, err = ch.Recv(); return err })
	gerr, rerr, aerr, hung = s.both(g, r)
	s.w.Eval(s.cc.String() + "|clo")
	judged++
	if s.judge("clo", gerr, rerr, aerr, hung) {
		if m.Type != refcodec.TypeClose {
			s.violate("clo", "message-type", "gopcua closed the channel with a %s message", m.Type)
		} else if _, err := refcodec.DecodeCloseSecureChannelRequest(m.Body); err != nil {
			s.violate("clo", "plaintext-mismatch", "%v", err)
		}
	}
	return judged, 0
}

func minInt(a, b int) int {
	if a < b {
		return a
	}
	return b
}

func maxInt(a, b int) int {
	if a > b {
		return a
	}
	return b
}

// ---------------------------------------------------------------------------------------------
// gopcua is the server

func (s *session) runServer(thorough bool) (judged, abandoned int) {
	ctx, cancel := context.WithCancel(context.Background())
	defer cancel()
	l, err := uacp.Listen(ctx, "opc.tcp://127.0.0.1:0", &uacp.Acknowledge{ReceiveBufSize: s.cc.Buf, SendBufSize: s.cc.Buf, MaxChunkCount: 512, MaxMessageSize: 4 * uacp.MB})
	if err != nil {
		evid.EngineError(s.w.ID, "listen: %v", err)
	}
	defer l.Close()
	defer s.kill()
	ep := s.endpoint()
	ep.EndpointURL = "opc.tcp://" + l.Addr().String()
	inbox := make(chan *uasc.MessageBody, 4)
	var sc *uasc.SecureChannel
	ready := make(chan struct{})
	// the server loop mirrors server/channel_broker.go: Receive until error
	loop := guard(func() error {
		conn, err := l.Accept(ctx)
		if err != nil {
			close(ready)
			return fmt.Errorf("uacp accept: %w", err)
		}
		s.closer(conn)
		cfg := &uasc.Config{SecurityPolicyURI: ua.SecurityPolicyURINone, SecurityMode: ua.MessageSecurityModeNone, Lifetime: 3600000}
		if !s.p.IsNone() {
			cfg.Certificate, cfg.LocalKey = s.goKey.CertDER, s.goKey.Key
		}
		sc, err = uasc.NewServerSecureChannel("", conn, cfg, make(chan error, 8), 9000, 500, 33)
		close(ready)
		if err != nil {
			return err
		}
		for {
			msg := sc.Receive(ctx)
			if msg.Err != nil {
				return msg.Err
			}
			if msg.Request() == nil && msg.Response() == nil {
				continue // OpenSecureChannel handled inside Receive
			}
			inbox <- msg
		}
	})
	// forward the loop's end as an asynchronous gopcua error
	loopDone := make(chan struct{})
	var loopErr error
	go func() { loopErr = <-loop; close(loopDone); s.goErr <- loopErr }()

	var ch *refcodec.Channel
	r := guard(func() error {
		c, err := net.Dial("tcp", l.Addr().String())
		if err != nil {
			return err
		}
		s.closer(c)
		c.SetDeadline(time.Now().Add(10 * watchdog))
		ch, err = refcodec.Dial(c, ep)
		return err
	})
	gerr, rerr, aerr, hung := s.both(nil, r)
	stepName := "opn-request"
	var se *refcodec.StepError
	if errors.As(rerr, &se) {
		stepName = se.Step
		if se.Step == "hel" || se.Step == "ack" {
			stepName = "uacp-" + se.Step
		}
		// refcodec waiting for the response and seeing the connection die means gopcua refused the request
		if se.Step == "opn-response" && aerr != nil && refcodec.ErrKind(rerr) == "other" {
			stepName = "opn-request"
		}
	}
	s.w.Eval(s.cc.String() + "|opn-request")
	s.w.Eval(s.cc.String() + "|opn-response")
	judged += 2
	if !s.judge(stepName, gerr, rerr, aerr, hung) {
		return judged, -1
	}
	<-ready
	s.opnOutcome("gopcua OPN response", ch.OPNResponse.Layout)
	s.logf("handshake ok: OPN response layout %+v", *ch.OPNResponse.Layout)

	sizes := bodySizes(refcodec.SymSecurity{Policy: s.p, Mode: s.mode}, int(s.cc.Buf), minInt(reqBase, respBase), maxInt(reqBase, respBase), thorough)
	for i, T := range sizes {
		nReq, nResp := clamp(T-reqBase), clamp(T-respBase)
		reqPayload, respPayload := payload(nReq, byte(T)), payload(nResp, byte(T+1))
		reqID := ch.NextRequestID()
		var sent []refcodec.ChunkRecord
		r := guard(func() error {
			body := (&refcodec.FindServersRequest{Header: refcodec.RequestHeader{Timestamp: ep.Timestamp, RequestHandle: reqID, TimeoutHint: 10000}, EndpointURL: string(reqPayload)}).Encode()
			var err error
			sent, err = ch.Send(refcodec.TypeMessage, reqID, body)
			return err
		})
		var msg *uasc.MessageBody
		g := guard(func() error {
			select {
			case msg = <-inbox:
				return nil
			case <-loopDone:
				return fmt.Errorf("server loop ended: %w", loopErr)
			}
		})
		gerr, rerr, aerr, hung := s.both(g, r)
		key := ""
		if !s.p.IsNone() {
			key = fmt.Sprintf("%s|T=%d", s.cc, T)
		}
		s.eval(key, "ref2go")
		judged++
		if gerr != nil && aerr == nil && strings.HasPrefix(gerr.Error(), "server loop ended") {
			aerr, gerr = errors.Unwrap(gerr), nil
		}
		if !s.judge("msg-ref2go", gerr, rerr, aerr, hung) {
			return judged, 2*(len(sizes)-i-1) + 1
		}
		s.recordChunks("ref2go", sent)
		fr, ok := msg.Request().(*ua.FindServersRequest)
		switch {
		case !ok:
			s.violate("msg-ref2go", "delivered-wrong-type", "Receive returned %T", msg.Request())
		case fr.EndpointURL != string(reqPayload) || msg.RequestID != reqID || fr.RequestHeader.RequestHandle != reqID:
			s.violate("msg-ref2go", "delivered-message-differs", "refcodec sent FindServersRequest with a %d byte url as request %d in %d chunks; gopcua delivered %d bytes as request %d", len(reqPayload), reqID, len(sent), len(fr.EndpointURL), msg.RequestID)
		}
		if len(s.out) > 0 {
			return judged, 2*(len(sizes)-i-1) + 1
		}
		resp := goResponse(reqID, respPayload)
		g = guard(func() error { return sc.SendResponseWithContext(ctx, msg.RequestID, resp) })
		var m *refcodec.Message
		r = guard(func() error { var err error; m, err = ch.Recv(); return err })
		gerr, rerr, aerr, hung = s.both(g, r)
		s.eval(key, "go2ref")
		judged++
		if !s.judge("msg-go2ref", gerr, rerr, aerr, hung) {
			return judged, 2 * (len(sizes) - i - 1)
		}
		s.recordChunks("go2ref", m.Chunks)
		exp, err := encodeBody(refcodec.IDReadResponse, resp)
		if err != nil {
			s.violate("msg-go2ref", "engine", "gopcua cannot encode its own response: %v", err)
		} else if m.RequestID != reqID || !bytes.Equal(m.Body, exp) {
			s.violate("msg-go2ref", "plaintext-mismatch", "refcodec recovered %d bytes for request %d in %d chunks, gopcua's service body has %d bytes for request %d; first difference at %d", len(m.Body), m.RequestID, len(m.Chunks), len(exp), reqID, firstDiff(m.Body, exp))
		} else if d, err := refcodec.DecodeReadResponseBytes(m.Body); err != nil || !bytes.Equal(d.Value, respPayload) {
			s.violate("msg-go2ref", "decoded-fields-mismatch", "refcodec decode err=%v", err)
		}
		if len(s.out) > 0 {
			return judged, 2 * (len(sizes) - i - 1)
		}
		s.logf("T=%d ok: request %d chunks, response %d chunks", T, len(sent), len(m.Chunks))
	}
	// CLO: refcodec closes the channel; gopcua's Receive must end with EOF
	id := ch.NextRequestID()
	r = guard(func() error {
		_, err := ch.Send(refcodec.TypeClose, id, (&refcodec.CloseSecureChannelRequest{Header: refcodec.RequestHeader{Timestamp: ep.Timestamp, RequestHandle: id}}).Encode())
		return err
	})
	g := guard(func() error { <-loopDone; return nil })
	gerr, rerr, _, hung = s.both(g, r)
	s.w.Eval(s.cc.String() + "|clo")
	judged++
	switch {
	case hung:
		s.violate("clo", "hang", "gopcua's Receive did not return after a CLO message")
	case rerr != nil:
		s.violate("clo", "refcodec-fails:"+refcodec.ErrKind(rerr), "%v", rerr)
	case !errors.Is(loopErr, io.EOF):
		s.violate("clo", "gopcua-rejects:"+errClass(loopErr), "Receive returned %v after a CLO message, want io.EOF", loopErr)
	}
	s.kill()
	if sc != nil {
		sc.Close()
	}
	return judged, 0
}

// ---------------------------------------------------------------------------------------------

func runCase(cc chanCase, w *evid.Run, thorough, verbose bool) []viol {
	s := &session{cc: cc, w: w, verbose: verbose, p: refcodec.PolicyByName(cc.Policy), mode: refcodec.Mode(cc.Mode), goErr: make(chan error, 16)}
	if !s.p.IsNone() {
		s.goKey, s.refKey = keys.MustLoad(cc.GoBits, "a"), keys.MustLoad(cc.RefBits, "b")
	}
	var judged, abandoned int
	if cc.Side == "gopcua-client" {
		judged, abandoned = s.runClient(thorough)
	} else {
		judged, abandoned = s.runServer(thorough)
	}
	_ = judged
	if abandoned != 0 {
		if abandoned < 0 {
			abandoned = 2 * len(bodySizes(refcodec.SymSecurity{Policy: s.p, Mode: s.mode}, int(cc.Buf), minInt(reqBase, respBase), maxInt(reqBase, respBase), thorough))
		}
		w.NotJudged(int64(abandoned))
	}
	return s.out
}

// deathSignature names a crashed worker by the side it was driving and the innermost gopcua
// function on the crashing goroutine's stack (a panic inside gopcua's own goroutines cannot be recovered).
func deathSignature(d evid.WorkerDeath) string {
	fn := "unknown"
	for _, line := range strings.Split(d.Stderr, "\n") {
		if strings.HasPrefix(line, "github.com/gopcua/opcua/") {
			fn = strings.TrimPrefix(line, "github.com/gopcua/opcua/")
			if i := strings.LastIndex(fn, "("); i > 0 {
				fn = fn[:i]
			}
			break
		}
	}
	parts := strings.Split(d.LastCase, "/")
	side := parts[0]
	kind := "process-died"
	if strings.Contains(d.Stderr, "panic:") {
		kind = "panic"
	}
	return fmt.Sprintf("%s/worker-death/%s/%s", side, kind, fn)
}

func enumerate(thorough bool) []chanCase {
	bufs := []uint32{8192, 65535}
	if thorough {
		bufs = []uint32{8192, 8196, 8207, 16384, 65535, 65536, 131072}
	}
	var out []chanCase
	for _, side := range []string{"gopcua-client", "gopcua-server"} {
		for _, p := range refcodec.Policies {
			modes := []refcodec.Mode{refcodec.ModeSign, refcodec.ModeSignAndEncrypt}
			var sizes []int
			for _, b := range keys.Sizes {
				if p.KeySizeAllowed(b) {
					sizes = append(sizes, b)
				}
			}
			if p.IsNone() {
				modes, sizes = []refcodec.Mode{refcodec.ModeNone}, []int{0}
			}
			for _, m := range modes {
				for _, gb := range sizes {
					for _, rb := range sizes {
						for _, buf := range bufs {
							for style := 0; style < 2; style++ {
								if p.IsNone() && style == 1 {
									continue
								}
								out = append(out, chanCase{side, p.Name, int(m), gb, rb, buf, style})
							}
						}
					}
				}
			}
		}
	}
	return out
}

func main() {
	id := "C08"
	if len(os.Args) > 1 {
		id = os.Args[1]
	}
	r := evid.New(id)
	var rc chanCase
	if evid.ReplayInput(&rc) {
		fmt.Printf("replay %s\n", rc)
		vs := runCase(rc, evid.New(id), evid.Thorough(), true)
		for _, v := range vs {
			fmt.Printf("  %s: %s\n", v.sig, v.detail)
		}
		if len(vs) > 0 {
			os.Exit(1)
		}
		fmt.Println("  no violation")
		return
	}
	cases := enumerate(evid.Thorough())
	// interleave expensive (large key) channels across shards
	seed := uint64(evid.Seed())*2654435761 + 0x9e3779b97f4a7c15
	perm := make([]int, len(cases))
	for i := range perm {
		perm[i] = i
	}
	for i := len(perm) - 1; i > 0; i-- {
		seed ^= seed << 13
		seed ^= seed >> 7
		seed ^= seed << 17
		j := int(seed % uint64(i+1))
		perm[i], perm[j] = perm[j], perm[i]
	}
	// private scratch directory: the shared default is occasionally wiped by concurrent jobs
	scratch := ""
	if os.Getenv("VERIF_SCRATCH") == "" && os.Getenv("VERIF_SHARD") == "" {
		scratch = fmt.Sprintf("/tmp/verif-scratch-%s-%d", strings.ToLower(id), os.Getpid())
		os.Setenv("VERIF_SCRATCH", scratch)
	}
	deaths := evid.Sharded(r, 0, func(s evid.ShardInfo, w *evid.Run) {
		for k, idx := range perm {
			if !s.Mine(int64(k)) {
				continue
			}
			cc := cases[idx]
			evid.Publish(cc.String())
			vs := runCase(cc, w, evid.Thorough(), false)
			if idx%61 == 0 {
				w.Sample(cc)
			}
			if len(vs) == 0 {
				w.Outcome("channel ok: " + cc.Side)
			}
			for _, v := range vs {
				w.Outcome("violation:" + v.sig)
				w.Violate(v.sig, fmt.Sprintf("%s; channel %s", v.detail, cc), cc)
			}
		}
	})
	if scratch != "" {
		os.RemoveAll(scratch)
	}
	for _, d := range deaths {
		// a worker that ended without a crash trace did not die in the code under test: machinery failure
		if !strings.Contains(d.Stderr, "panic") && !strings.Contains(d.Stderr, "fatal error") && !strings.Contains(d.ExitErr, "signal") {
			evid.EngineError(id, "worker %d failed without a crash trace (%s), last case %q: %s", d.Shard, d.ExitErr, d.LastCase, d.Stderr)
		}
		r.Violate(deathSignature(d), fmt.Sprintf("worker %d died (%s) while running %s\n%s", d.Shard, d.ExitErr, d.LastCase, d.Stderr), d.LastCase)
	}
	r.Set("channels", len(cases))
	r.Rule("channels = {gopcua-client, gopcua-server} x 6 policies x modes {Sign, SignAndEncrypt} (None for policy None) x (gopcua key, refcodec key) over all allowed sizes incl. unequal ones x buffer sizes (quick 8192, 65535; thorough 7 sizes incl. odd ones and sizes above 64 KiB) x refcodec padding style {minimal, spec formula}; per channel: OPN request, OPN response, then for every body size in {min..min+17 (every AES block residue), around 1x and 2x the maximal single-chunk body for either padding style (+-2; thorough +-17), 3 chunks} one message in each direction, then CLO. One evaluation = one message in one direction (OPN/MSG/CLO) fully checked; non-trivial = under a secured policy; distinct by (channel case, body size, direction). states = chunks on the wire")
	r.Assume("gopcua's nonces, RSA padding and timestamps are random/current (crypto/rand, time.Now); verdicts do not depend on them (C14 sweeps nonce values deterministically)",
		"the expected plaintext of a gopcua message is gopcua's own ua.Encode of the service (C08 is about the secure conversation layer, not the structure codec); refcodec additionally decodes the fields it needs by hand",
		"buffer sizes are negotiated equal in both directions; Hello/Acknowledge negotiation is not part of this property")
	r.Finish()
}
