module verif

go 1.23

require (
	github.com/anishathalye/porcupine v1.3.0
	github.com/gopcua/opcua v0.0.0
	golang.org/x/tools v0.29.0
)

replace github.com/gopcua/opcua => /repo
