module verif

go 1.23

require (
	github.com/anishathalye/porcupine v1.3.0
	github.com/gopcua/opcua v0.0.0
	golang.org/x/tools v0.29.0
)

require (
	github.com/google/uuid v1.6.0 // indirect
	golang.org/x/mod v0.22.0 // indirect
	golang.org/x/sync v0.10.0 // indirect
	verifrt v0.0.0
)

replace github.com/gopcua/opcua => /repo

replace verifrt => ./engine/verifrt
