// Package rewrite is the source instrumenter of engine E2 (DESIGN.md §2.2): it
// rewrites the concurrency constructs of selected packages into calls to the
// verifrt shims. The transformation is mechanical and fails loudly on any
// construct it does not know.
package rewrite

import (
	"bytes"
	"fmt"
	"go/ast"
	"go/format"
	"go/token"
	"go/types"
	"os"
	"path/filepath"
	"strconv"
	"strings"

	"golang.org/x/tools/go/ast/astutil"
	"golang.org/x/tools/go/packages"
)

const shimRoot = "verifrt"

var importMap = map[string]string{
	"sync":        shimRoot + "/vsync",
	"sync/atomic": shimRoot + "/vatomic",
	"time":        shimRoot + "/vtime",
	"context":     shimRoot + "/vcontext",
	"net":         shimRoot + "/vnet",
	"math/rand":   shimRoot + "/vmrand",
}

type rw struct {
	pkg  *packages.Package
	file *ast.File
	tmp  int
	uses bool // file needs vrt import
	two  map[*ast.UnaryExpr]bool
}

// Rewrite loads the packages matching patterns from the module rooted at (or
// containing) src with the given build tags, instruments them and writes every
// compiled Go file to dst under its path relative to base.
func Rewrite(src, base, dst string, tags string, patterns []string) (err error) {
	defer func() {
		if r := recover(); r != nil {
			err = fmt.Errorf("rewrite: %v", r)
		}
	}()
	cfg := &packages.Config{
		Mode: packages.NeedName | packages.NeedFiles | packages.NeedSyntax | packages.NeedTypes | packages.NeedTypesInfo | packages.NeedImports | packages.NeedCompiledGoFiles,
		Dir:  src,
		Env:  append(os.Environ(), "GOFLAGS=-mod=mod", "GOPROXY=off", "GOSUMDB=off", "GOTOOLCHAIN=local"),
	}
	if tags != "" {
		cfg.BuildFlags = []string{"-tags=" + tags}
	}
	pkgs, err := packages.Load(cfg, patterns...)
	if err != nil {
		return err
	}
	if len(pkgs) == 0 {
		return fmt.Errorf("rewrite: no packages match %v in %s", patterns, src)
	}
	for _, p := range pkgs {
		if len(p.Errors) > 0 {
			return fmt.Errorf("rewrite: load errors in %s: %v", p.PkgPath, p.Errors)
		}
		for i, f := range p.Syntax {
			name := p.CompiledGoFiles[i]
			r := &rw{pkg: p, file: f}
			r.rewriteFile()
			var buf bytes.Buffer
			if err := format.Node(&buf, p.Fset, f); err != nil {
				return fmt.Errorf("%s: %v", name, err)
			}
			rel, err := filepath.Rel(base, name)
			if err != nil || strings.HasPrefix(rel, "..") {
				return fmt.Errorf("rewrite: %s is outside %s", name, base)
			}
			out := filepath.Join(dst, rel)
			os.MkdirAll(filepath.Dir(out), 0o755)
			if err := os.WriteFile(out, buf.Bytes(), 0o644); err != nil {
				return err
			}
		}
	}
	return nil
}

func (r *rw) typeOf(e ast.Expr) types.Type { return r.pkg.TypesInfo.TypeOf(e) }

func (r *rw) isChan(e ast.Expr) bool {
	t := r.typeOf(e)
	if t == nil {
		return false
	}
	_, ok := t.Underlying().(*types.Chan)
	return ok
}

func (r *rw) isMap(e ast.Expr) bool {
	t := r.typeOf(e)
	if t == nil {
		return false
	}
	_, ok := t.Underlying().(*types.Map)
	return ok
}

func (r *rw) isBuiltin(id *ast.Ident, name string) bool {
	if id.Name != name {
		return false
	}
	_, ok := r.pkg.TypesInfo.Uses[id].(*types.Builtin)
	return ok
}

func vrtSel(name string) ast.Expr {
	return &ast.SelectorExpr{X: ast.NewIdent("vrt"), Sel: ast.NewIdent(name)}
}

func call(fun ast.Expr, args ...ast.Expr) *ast.CallExpr {
	return &ast.CallExpr{Fun: fun, Args: args}
}

func method(x ast.Expr, name string, args ...ast.Expr) *ast.CallExpr {
	return call(&ast.SelectorExpr{X: x, Sel: ast.NewIdent(name)}, args...)
}

func (r *rw) newTmp(prefix string) *ast.Ident {
	r.tmp++
	return ast.NewIdent(fmt.Sprintf("_vrt%s%d", prefix, r.tmp))
}

func (r *rw) rewriteFile() {
	// 1. imports
	for _, imp := range r.file.Imports {
		p, _ := strconv.Unquote(imp.Path.Value)
		if np, ok := importMap[p]; ok {
			if imp.Name == nil {
				// keep the original local name
				base := p[strings.LastIndex(p, "/")+1:]
				imp.Name = ast.NewIdent(base)
			}
			imp.Path.Value = strconv.Quote(np)
		}
	}

	// 1b. select statements first (post-order: inner selects before outer ones),
	// while comm clauses are still in source form.
	astutil.Apply(r.file, func(c *astutil.Cursor) bool {
		if l, ok := c.Node().(*ast.LabeledStmt); ok {
			if _, ok := l.Stmt.(*ast.SelectStmt); ok {
				panic("labeled select not supported: " + r.pkg.Fset.Position(l.Pos()).String())
			}
		}
		return true
	}, func(c *astutil.Cursor) bool {
		if s, ok := c.Node().(*ast.SelectStmt); ok {
			r.uses = true
			c.Replace(r.rewriteSelect(s))
		}
		return true
	})

	// 2. statements and expressions (post-order so inner nodes are done first)
	r.two = map[*ast.UnaryExpr]bool{}
	astutil.Apply(r.file, func(c *astutil.Cursor) bool {
		switch n := c.Node().(type) {
		case *ast.AssignStmt:
			if len(n.Lhs) == 2 && len(n.Rhs) == 1 {
				if u, ok := n.Rhs[0].(*ast.UnaryExpr); ok && u.Op == token.ARROW {
					r.two[u] = true
				}
			}
		case *ast.ValueSpec:
			if len(n.Names) == 2 && len(n.Values) == 1 {
				if u, ok := n.Values[0].(*ast.UnaryExpr); ok && u.Op == token.ARROW {
					r.two[u] = true
				}
			}
		}
		return true
	}, func(c *astutil.Cursor) bool {
		switch n := c.Node().(type) {
		case *ast.ChanType:
			r.uses = true
			c.Replace(&ast.StarExpr{X: &ast.IndexExpr{X: vrtSel("Chan"), Index: n.Value}})

		case *ast.CallExpr:
			if id, ok := n.Fun.(*ast.Ident); ok {
				switch {
				case r.isBuiltin(id, "make") && len(n.Args) >= 1:
					if st, ok := n.Args[0].(*ast.StarExpr); ok { // already rewritten chan type
						if ix, ok := st.X.(*ast.IndexExpr); ok && isVrt(ix.X, "Chan") {
							size := ast.Expr(&ast.BasicLit{Kind: token.INT, Value: "0"})
							if len(n.Args) > 1 {
								size = n.Args[1]
							}
							r.uses = true
							c.Replace(call(&ast.IndexExpr{X: vrtSel("MakeChan"), Index: ix.Index}, size))
						}
					}
				case r.isBuiltin(id, "close") && len(n.Args) == 1:
					r.uses = true
					c.Replace(method(n.Args[0], "Close"))
				case (r.isBuiltin(id, "len") || r.isBuiltin(id, "cap")) && len(n.Args) == 1 && r.isChan(n.Args[0]):
					m := "Len"
					if id.Name == "cap" {
						m = "Cap"
					}
					c.Replace(method(n.Args[0], m))
				}
			}

		case *ast.UnaryExpr:
			if n.Op == token.ARROW {
				// plain receive expression (select comm clauses are handled before we get here)
				if r.two[n] {
					c.Replace(method(n.X, "Recv2"))
				} else {
					c.Replace(method(n.X, "Recv"))
				}
			}

		case *ast.SendStmt:
			c.Replace(&ast.ExprStmt{X: method(n.Chan, "Send", n.Value)})

		case *ast.GoStmt:
			r.uses = true
			c.Replace(r.rewriteGo(n))

		case *ast.RangeStmt:
			if r.isMap(n.X) {
				r.uses = true
				n.X = call(vrtSel("Ordered"), n.X)
			} else if r.isChan(n.X) {
				// for v := range ch { body }  =>  for { v, ok := ch.Recv2(); if !ok { break }; body }
				okv := r.newTmp("ok")
				var key ast.Expr = ast.NewIdent("_")
				tok := token.DEFINE
				if n.Key != nil {
					key = n.Key
					if n.Tok == token.ASSIGN {
						// v already exists: declare ok separately
						tok = token.ASSIGN
					}
				}
				var pre []ast.Stmt
				if tok == token.ASSIGN {
					pre = append(pre, &ast.DeclStmt{Decl: &ast.GenDecl{Tok: token.VAR, Specs: []ast.Spec{&ast.ValueSpec{Names: []*ast.Ident{okv}, Type: ast.NewIdent("bool")}}}})
				}
				pre = append(pre,
					&ast.AssignStmt{Lhs: []ast.Expr{key, okv}, Tok: tok, Rhs: []ast.Expr{method(n.X, "Recv2")}},
					&ast.IfStmt{Cond: &ast.UnaryExpr{Op: token.NOT, X: okv}, Body: &ast.BlockStmt{List: []ast.Stmt{&ast.BranchStmt{Tok: token.BREAK}}}},
				)
				n.Body.List = append(pre, n.Body.List...)
				c.Replace(&ast.ForStmt{For: n.For, Body: n.Body})
			}
		}
		return true
	})

	if r.uses {
		astutil.AddImport(r.pkg.Fset, r.file, shimRoot+"/vrt")
	}
}

func isVrt(e ast.Expr, name string) bool {
	s, ok := e.(*ast.SelectorExpr)
	if !ok {
		return false
	}
	id, ok := s.X.(*ast.Ident)
	return ok && id.Name == "vrt" && s.Sel.Name == name
}

// go f(a, b)  =>  { a0, a1 := a, b; vrt.Go(func(){ f(a0, a1) }) }
func (r *rw) rewriteGo(g *ast.GoStmt) ast.Stmt {
	c := g.Call
	var lhs, rhs []ast.Expr
	newArgs := make([]ast.Expr, len(c.Args))
	for i, a := range c.Args {
		if tv, ok := r.pkg.TypesInfo.Types[a]; ok && (tv.Value != nil || tv.IsNil()) {
			newArgs[i] = a // constants and nil: no evaluation-time concern, keep typing context
			continue
		}
		t := r.newTmp("a")
		lhs = append(lhs, t)
		rhs = append(rhs, a)
		newArgs[i] = t
	}
	fun := c.Fun
	// method value receiver / function expression evaluated at go time as well
	if _, isLit := fun.(*ast.FuncLit); !isLit {
		t := r.newTmp("f")
		lhs = append(lhs, t)
		rhs = append(rhs, fun)
		fun = t
	}
	inner := &ast.CallExpr{Fun: fun, Args: newArgs, Ellipsis: c.Ellipsis}
	body := &ast.BlockStmt{List: []ast.Stmt{&ast.ExprStmt{X: inner}}}
	spawn := &ast.ExprStmt{X: call(vrtSel("Go"), &ast.FuncLit{Type: &ast.FuncType{Params: &ast.FieldList{}}, Body: body})}
	if len(lhs) == 0 {
		return spawn
	}
	return &ast.BlockStmt{List: []ast.Stmt{
		&ast.AssignStmt{Lhs: lhs, Tok: token.DEFINE, Rhs: rhs},
		spawn,
	}}
}

func (r *rw) rewriteSelect(s *ast.SelectStmt) ast.Stmt {
	var pre []ast.Stmt
	var cases []ast.Expr
	var clauses []ast.Stmt
	hasDefault := "false"
	idx := 0
	for _, cl := range s.Body.List {
		cc := cl.(*ast.CommClause)
		if cc.Comm == nil {
			hasDefault = "true"
			clauses = append(clauses, &ast.CaseClause{List: nil, Body: cc.Body})
			continue
		}
		var body []ast.Stmt
		switch comm := cc.Comm.(type) {
		case *ast.SendStmt:
			ch, v := r.newTmp("c"), r.newTmp("v")
			pre = append(pre,
				&ast.AssignStmt{Lhs: []ast.Expr{ch}, Tok: token.DEFINE, Rhs: []ast.Expr{comm.Chan}},
				&ast.AssignStmt{Lhs: []ast.Expr{v}, Tok: token.DEFINE, Rhs: []ast.Expr{comm.Value}})
			cases = append(cases, call(vrtSel("SendCase"), ch, v))
		case *ast.ExprStmt: // <-ch
			u := comm.X.(*ast.UnaryExpr)
			ch := r.newTmp("c")
			pre = append(pre, &ast.AssignStmt{Lhs: []ast.Expr{ch}, Tok: token.DEFINE, Rhs: []ast.Expr{u.X}})
			cases = append(cases, call(vrtSel("RecvCase"), ch))
		case *ast.AssignStmt: // v := <-ch ; v, ok := <-ch ; x = <-ch
			u := comm.Rhs[0].(*ast.UnaryExpr)
			ch := r.newTmp("c")
			pre = append(pre, &ast.AssignStmt{Lhs: []ast.Expr{ch}, Tok: token.DEFINE, Rhs: []ast.Expr{u.X}})
			cases = append(cases, call(vrtSel("RecvCase"), ch))
			m := "Taken"
			if len(comm.Lhs) == 2 {
				m = "Taken2"
			}
			body = append(body, &ast.AssignStmt{Lhs: comm.Lhs, Tok: comm.Tok, Rhs: []ast.Expr{method(ch, m)}})
		default:
			panic(fmt.Sprintf("unknown comm clause %T", comm))
		}
		body = append(body, cc.Body...)
		clauses = append(clauses, &ast.CaseClause{
			List: []ast.Expr{&ast.BasicLit{Kind: token.INT, Value: strconv.Itoa(idx)}},
			Body: body,
		})
		idx++
	}
	if hasDefault == "false" {
		// keep the statement terminating when every case returns
		clauses = append(clauses, &ast.CaseClause{List: nil, Body: []ast.Stmt{
			&ast.ExprStmt{X: call(ast.NewIdent("panic"), &ast.BasicLit{Kind: token.STRING, Value: `"vrt: select returned no case"`})},
		}})
	}
	args := append([]ast.Expr{ast.NewIdent(hasDefault)}, cases...)
	sw := &ast.SwitchStmt{Tag: call(vrtSel("Select"), args...), Body: &ast.BlockStmt{List: clauses}}
	return &ast.BlockStmt{List: append(pre, sw)}
}
