// e2run builds and runs one E2 check: it instruments the current working tree of
// the repository and the scenario package into a scratch module, builds the
// scenario binary against the verifrt shims and executes it.
//
//	e2run <property> <scenario-package> [race]
package main

import (
	"fmt"
	"go/ast"
	"go/parser"
	"go/token"
	"io"
	"io/fs"
	"os"
	"os/exec"
	"path/filepath"
	"regexp"
	"strings"
	"syscall"
	"time"

	"verif/engine/rewrite"
)

var instrumented = []string{".", "./uacp", "./uasc", "./server", "./monitor"}

// packages of the repository that stay native; they must not contain concurrency constructs
var nativeDirs = []string{"ua", "uapolicy", "id", "errors", "debug", "stats", "schema", "server/attrs", "server/refs"}

func fatal(prop, format string, a ...any) {
	fmt.Printf("ENGINE-ERROR property=%s %s\n", prop, fmt.Sprintf(format, a...))
	os.Exit(2)
}

func main() {
	if len(os.Args) < 3 {
		fmt.Println("usage: e2run <property> <scenario> [race]")
		os.Exit(2)
	}
	prop, scen := os.Args[1], os.Args[2]
	race := len(os.Args) > 3 && os.Args[3] == "race"
	verif := os.Getenv("VERIF_ROOT")
	if verif == "" {
		verif = "/verif"
	}
	repo := os.Getenv("VERIF_REPO")
	if repo == "" {
		repo = "/repo"
	}
	base := os.Getenv("VERIF_SCRATCH")
	if base == "" {
		base = "/var/tmp/verif-work"
	}
	tier := os.Getenv("VERIF_TIER")
	if tier == "" {
		tier = "quick"
	}
	work := filepath.Join(base, fmt.Sprintf("e2-%s-%s-%s", prop, strings.ReplaceAll(scen, ",", "+"), tier))
	if repo != "/repo" {
		work += "-alt"
	}
	os.MkdirAll(work, 0o755)
	lock, err := os.OpenFile(filepath.Join(work, ".lock"), os.O_CREATE|os.O_RDWR, 0o644)
	if err != nil {
		fatal(prop, "lock: %v", err)
	}
	if err := syscall.Flock(int(lock.Fd()), syscall.LOCK_EX); err != nil {
		fatal(prop, "lock: %v", err)
	}
	t0 := time.Now()
	repoDst := filepath.Join(work, "repo")
	scenDst := filepath.Join(work, "scen")
	os.RemoveAll(repoDst)
	os.RemoveAll(scenDst)
	keep := os.Getenv("VERIF_KEEP") != ""
	cleanup := func() {
		if !keep {
			os.RemoveAll(repoDst)
			os.RemoveAll(scenDst)
			os.RemoveAll(filepath.Join(work, "bin"))
			os.RemoveAll(filepath.Join(work, "jobs"))
		}
	}

	// 1. native packages: copy as they are, after checking that they contain nothing the scheduler must control
	for _, d := range nativeDirs {
		if err := checkNative(filepath.Join(repo, d)); err != nil {
			fatal(prop, "%v", err)
		}
	}
	if err := copyTree(repo, repoDst); err != nil {
		fatal(prop, "copy: %v", err)
	}
	// 2. instrumented packages, from the current working tree, hooks (tag verif) included
	if err := rewrite.Rewrite(repo, repo, repoDst, "verif", instrumented); err != nil {
		fatal(prop, "instrumenting %s: %v", repo, err)
	}
	// 2b. environment behaviour the repository's own server side cannot show: a server-side channel that revises
	// the requested token lifetime (hook uasc.VerifEnvReviseLifetime). Only the server's answer is routed through
	// the hook; the scenarios learn through VERIF_ENV_REVISE whether that was possible on this tree.
	envRevise := "missing"
	if f := filepath.Join(repoDst, "uasc", "secure_channel.go"); true {
		if b, e := os.ReadFile(f); e == nil {
			re := regexp.MustCompile(`RevisedLifetime:\s*req\.RequestedLifetime,`)
			if _, e2 := os.Stat(filepath.Join(repoDst, "uasc", "export_verif_env.go")); e2 == nil && len(re.FindAll(b, -1)) == 1 {
				b = re.ReplaceAll(b, []byte("RevisedLifetime: verifEnvRevise(req.RequestedLifetime),"))
				if os.WriteFile(f, b, 0o644) == nil {
					envRevise = "installed"
				}
			}
		}
	}
	// 3. the scenario package (type-checked against the original repository, rewritten the same way)
	// (several comma-separated packages may be given; the first one holds the registry)
	scens := strings.Split(scen, ",")
	var pats []string
	for _, sc := range scens {
		pats = append(pats, "./scenarios/"+sc)
	}
	scen = scens[0]
	if err := rewrite.Rewrite(verif, filepath.Join(verif, "scenarios"), scenDst, "verif", pats); err != nil {
		fatal(prop, "instrumenting scenario %s: %v", scen, err)
	}
	// scenario packages import each other as verif/scenarios/<name>; inside the scratch module they are scen/<name>
	filepath.WalkDir(scenDst, func(p string, d fs.DirEntry, err error) error {
		if err == nil && !d.IsDir() && strings.HasSuffix(p, ".go") {
			if b, e := os.ReadFile(p); e == nil && strings.Contains(string(b), "\"verif/scenarios/") {
				os.WriteFile(p, []byte(strings.ReplaceAll(string(b), "\"verif/scenarios/", "\"scen/")), 0o644)
			}
		}
		return nil
	})
	gomod := fmt.Sprintf(`module scen

go 1.23

require (
	github.com/gopcua/opcua v0.0.0
	verif v0.0.0
	verifrt v0.0.0
)

replace github.com/gopcua/opcua => %s

replace verif => %s

replace verifrt => %s
`, repoDst, verif, filepath.Join(verif, "engine/verifrt"))
	os.WriteFile(filepath.Join(scenDst, "go.mod"), []byte(gomod), 0o644)
	copyFile(filepath.Join(verif, "go.sum"), filepath.Join(scenDst, "go.sum"))
	mainSrc := fmt.Sprintf("package main\n\nimport (\n\ts \"scen/%s\"\n\t\"verifrt/driver\"\n)\n\nfunc main() { driver.Main(s.Scenarios) }\n", scen)
	os.WriteFile(filepath.Join(scenDst, "main.go"), []byte(mainSrc), 0o644)

	bin := filepath.Join(work, "bin", "scen")
	os.MkdirAll(filepath.Dir(bin), 0o755)
	args := []string{"build", "-tags", "verif", "-o", bin}
	if race {
		args = append(args, "-race", "-gcflags=verifrt/...=-race=false -l")
	}
	args = append(args, ".")
	cmd := exec.Command("go", args...)
	cmd.Dir = scenDst
	cmd.Env = append(os.Environ(), "GOFLAGS=-mod=mod", "GOPROXY=off", "GOSUMDB=off", "GOTOOLCHAIN=local")
	if out, err := cmd.CombinedOutput(); err != nil {
		msg := string(out)
		if len(msg) > 4000 {
			msg = msg[:4000]
		}
		fmt.Println(msg)
		cleanup()
		fatal(prop, "build of the instrumented scenario %s failed (a construct the shims do not cover?)", scen)
	}
	fmt.Fprintf(os.Stderr, "e2run: instrumented %s and built %s in %.1fs\n", repo, scen, time.Since(t0).Seconds())

	jobs := filepath.Join(work, "jobs")
	os.MkdirAll(jobs, 0o755)
	run := exec.Command(bin, prop)
	run.Env = append(os.Environ(), "VERIF_E2_WORK="+jobs, "GOMAXPROCS=2", "VERIF_ENV_REVISE="+envRevise)
	if race {
		// reports go to <jobs>/race.<pid>; the driver attributes them to the schedule that produced them
		run.Env = append(run.Env, "GORACE=halt_on_error=0 exitcode=0 log_path="+filepath.Join(jobs, "race"), "VERIF_RACE_LOG="+filepath.Join(jobs, "race"))
	}
	run.Stdout = os.Stdout
	run.Stderr = os.Stderr
	err = run.Run()
	cleanup()
	if err != nil {
		if ee, ok := err.(*exec.ExitError); ok {
			os.Exit(ee.ExitCode())
		}
		fatal(prop, "run: %v", err)
	}
}

func checkNative(dir string) error {
	fset := token.NewFileSet()
	return filepath.WalkDir(dir, func(p string, d fs.DirEntry, err error) error {
		if err != nil || d.IsDir() || !strings.HasSuffix(p, ".go") || strings.HasSuffix(p, "_test.go") {
			return err
		}
		f, err := parser.ParseFile(fset, p, nil, parser.SkipObjectResolution)
		if err != nil {
			return nil // the compiler will say so
		}
		var bad string
		ast.Inspect(f, func(n ast.Node) bool {
			switch x := n.(type) {
			case *ast.GoStmt:
				bad = "go statement"
			case *ast.SelectStmt:
				bad = "select statement"
			case *ast.SendStmt:
				bad = "channel send"
			case *ast.ChanType:
				bad = "channel type"
			case *ast.SelectorExpr:
				if id, ok := x.X.(*ast.Ident); ok && id.Name == "sync" && (x.Sel.Name == "Cond" || x.Sel.Name == "NewCond" || x.Sel.Name == "WaitGroup") {
					bad = "sync." + x.Sel.Name
				}
			}
			return bad == ""
		})
		if bad != "" {
			return fmt.Errorf("package %s is linked natively but %s contains a %s: the scheduler would not control it", dir, p, bad)
		}
		return nil
	})
}

func copyTree(src, dst string) error {
	skipTop := map[string]bool{".git": true, "examples": true, "cmd": true, "tests": true, "logo": true}
	return filepath.WalkDir(src, func(p string, d fs.DirEntry, err error) error {
		if err != nil {
			return err
		}
		rel, _ := filepath.Rel(src, p)
		if rel == "." {
			return nil
		}
		top := strings.Split(rel, string(filepath.Separator))[0]
		if skipTop[top] {
			if d.IsDir() {
				return filepath.SkipDir
			}
			return nil
		}
		if d.IsDir() {
			return os.MkdirAll(filepath.Join(dst, rel), 0o755)
		}
		if strings.HasSuffix(p, "_test.go") || strings.HasSuffix(p, ".png") {
			return nil
		}
		return copyFile(p, filepath.Join(dst, rel))
	})
}

func copyFile(src, dst string) error {
	in, err := os.Open(src)
	if err != nil {
		return err
	}
	defer in.Close()
	os.MkdirAll(filepath.Dir(dst), 0o755)
	out, err := os.Create(dst)
	if err != nil {
		return err
	}
	defer out.Close()
	_, err = io.Copy(out, in)
	return err
}
