// Package vcontext replaces package context in the instrumented copy.
package vcontext

import (
	"context"
	"time"

	"verifrt/vrt"
)

type Context interface {
	Deadline() (deadline time.Time, ok bool)
	Done() *vrt.Chan[struct{}]
	Err() error
	Value(key any) any
}
type CancelFunc func()

var Canceled = context.Canceled
var DeadlineExceeded = context.DeadlineExceeded

type bg struct{}

func (bg) Deadline() (time.Time, bool) { return time.Time{}, false }
func (bg) Done() *vrt.Chan[struct{}]   { return nil }
func (bg) Err() error                  { return nil }
func (bg) Value(any) any               { return nil }
func Background() Context              { return bg{} }
func TODO() Context                    { return bg{} }

type cctx struct {
	parent   Context
	done     *vrt.Chan[struct{}]
	err      error
	deadline time.Time
	hasDl    bool
	children []*cctx
	timer    *vrt.Timer
}

func (c *cctx) Deadline() (time.Time, bool) {
	if c.hasDl {
		return c.deadline, true
	}
	return c.parent.Deadline()
}
func (c *cctx) Done() *vrt.Chan[struct{}] { return c.done }
func (c *cctx) Err() error {
	// reading the error observes the cancellation state
	if vrt.Active() {
		vrt.Yield(vrt.Op{Kind: "ctxerr", Obj: chanID(c.done)})
	}
	return c.err
}
func (c *cctx) Value(k any) any { return c.parent.Value(k) }

func chanID(c *vrt.Chan[struct{}]) uint64 { return vrt.ChanID(c) }

func (c *cctx) cancel(err error, touch bool) {
	if c.err != nil {
		return
	}
	c.err = err
	c.done.CloseNoYield()
	if touch {
		vrt.Touch(chanID(c.done))
	}
	if c.timer != nil {
		c.timer.Stop()
	}
	for _, ch := range c.children {
		ch.cancel(err, touch)
	}
}

func parentCancelCtx(p Context) *cctx {
	for {
		switch v := p.(type) {
		case *cctx:
			return v
		case *valueCtx:
			p = v.Context
		default:
			return nil
		}
	}
}

func newCtx(p Context) *cctx {
	c := &cctx{parent: p, done: vrt.MakeChan[struct{}](0)}
	if pc := parentCancelCtx(p); pc != nil {
		if pc.err != nil {
			c.cancel(pc.err, false)
		} else {
			pc.children = append(pc.children, c)
		}
	}
	return c
}

func (c *cctx) cancelFunc() CancelFunc {
	return func() {
		if !vrt.Active() {
			return
		}
		vrt.Yield(vrt.Op{Kind: "cancel", Obj: chanID(c.done)})
		c.cancel(Canceled, true)
	}
}

func WithCancel(p Context) (Context, CancelFunc) {
	c := newCtx(p)
	return c, c.cancelFunc()
}

func WithDeadline(p Context, t time.Time) (Context, CancelFunc) {
	c := newCtx(p)
	c.deadline, c.hasDl = t, true
	if vrt.Active() && c.err == nil {
		d := t.Sub(epoch.Add(time.Duration(vrt.Now())))
		c.timer = vrt.AddTimer(int64(d), func() { c.cancel(DeadlineExceeded, false) })
	}
	return c, c.cancelFunc()
}

var epoch = time.Date(2024, 1, 1, 0, 0, 0, 0, time.UTC)

func WithTimeout(p Context, d time.Duration) (Context, CancelFunc) {
	return WithDeadline(p, epoch.Add(time.Duration(vrt.Now())).Add(d))
}

type valueCtx struct {
	Context
	k, v any
}

func (v *valueCtx) Value(k any) any {
	if k == v.k {
		return v.v
	}
	return v.Context.Value(k)
}
func WithValue(p Context, k, v any) Context { return &valueCtx{p, k, v} }
func Cause(c Context) error                 { return c.Err() }

type CancelCauseFunc func(cause error)

// WithCancelCause as in package context (the cause is reported by Cause).
func WithCancelCause(p Context) (Context, CancelCauseFunc) {
	c := newCtx(p)
	return c, func(cause error) {
		if !vrt.Active() {
			return
		}
		vrt.Yield(vrt.Op{Kind: "cancel", Obj: chanID(c.done)})
		c.cancel(Canceled, true)
	}
}

// AfterFunc runs f in its own thread once ctx is done.
func AfterFunc(ctx Context, f func()) (stop func() bool) {
	stopped := false
	ran := false
	vrt.Go(func() {
		if d := ctx.Done(); d != nil {
			d.Recv2()
		} else {
			vrt.Yield(vrt.Op{Kind: "never", Enabled: func() bool { return false }})
		}
		if !stopped {
			ran = true
			f()
		}
	})
	return func() bool {
		if ran || stopped {
			return false
		}
		stopped = true
		return true
	}
}

// WithoutCancel as in package context.
func WithoutCancel(p Context) Context { return &valueCtx{Context: bg{}, k: nil, v: nil} }
