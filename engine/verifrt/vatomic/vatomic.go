// Package vatomic replaces sync/atomic in the instrumented copy.
package vatomic

import (
	"unsafe"

	"verifrt/vrt"
)

type Value struct {
	id uint64
	v  any
}

func (v *Value) oid() uint64 {
	if v.id == 0 {
		v.id = vrt.NewObj()
	}
	return v.id
}
func (v *Value) Load() any {
	vrt.Yield(vrt.Op{Kind: "aload", Obj: v.oid()})
	vrt.RaceAcquire(v.id)
	return v.v
}
func (v *Value) Store(x any) {
	vrt.Yield(vrt.Op{Kind: "astore", Obj: v.oid()})
	vrt.RaceReleaseMerge(v.id)
	v.v = x
}
func (v *Value) Swap(x any) any {
	vrt.Yield(vrt.Op{Kind: "aswap", Obj: v.oid()})
	vrt.RaceAcquire(v.id)
	vrt.RaceReleaseMerge(v.id)
	old := v.v
	v.v = x
	return old
}
func (v *Value) CompareAndSwap(old, new any) bool {
	vrt.Yield(vrt.Op{Kind: "acas", Obj: v.oid()})
	vrt.RaceAcquire(v.id)
	if v.v != old {
		vrt.Fold(0)
		return false
	}
	vrt.RaceReleaseMerge(v.id)
	v.v = new
	vrt.Fold(1)
	return true
}

// Plain-address atomics have no schedule-independent identity (addresses differ between runs
// and are re-used after garbage collection), so for the happens-before fingerprint they all
// count as operations on one shared pseudo-object: coarser than necessary (fewer equivalent
// interleavings are merged) but deterministic and sound. The race detector is fed per address.
const atomicsObj = 0xa70a70a70

func rmw(p unsafe.Pointer, kind string) uint64 {
	vrt.Yield(vrt.Op{Kind: kind, Obj: atomicsObj})
	o := uint64(uintptr(p)) ^ 0x5ca1ab1e00000000
	vrt.RaceAcquire(o)
	vrt.RaceReleaseMerge(o)
	return o
}

func AddUint32(p *uint32, d uint32) uint32 { rmw(unsafe.Pointer(p), "aadd"); *p += d; return *p }
func AddUint64(p *uint64, d uint64) uint64 { rmw(unsafe.Pointer(p), "aadd"); *p += d; return *p }
func AddInt32(p *int32, d int32) int32     { rmw(unsafe.Pointer(p), "aadd"); *p += d; return *p }
func AddInt64(p *int64, d int64) int64     { rmw(unsafe.Pointer(p), "aadd"); *p += d; return *p }
func LoadUint64(p *uint64) uint64          { rmw(unsafe.Pointer(p), "aload"); return *p }
func LoadUint32(p *uint32) uint32          { rmw(unsafe.Pointer(p), "aload"); return *p }
func LoadInt32(p *int32) int32             { rmw(unsafe.Pointer(p), "aload"); return *p }
func LoadInt64(p *int64) int64             { rmw(unsafe.Pointer(p), "aload"); return *p }
func StoreUint32(p *uint32, v uint32)      { rmw(unsafe.Pointer(p), "astore"); *p = v }
func StoreUint64(p *uint64, v uint64)      { rmw(unsafe.Pointer(p), "astore"); *p = v }
func StoreInt32(p *int32, v int32)         { rmw(unsafe.Pointer(p), "astore"); *p = v }
func StoreInt64(p *int64, v int64)         { rmw(unsafe.Pointer(p), "astore"); *p = v }
func CompareAndSwapUint32(p *uint32, o, n uint32) bool {
	rmw(unsafe.Pointer(p), "acas")
	if *p == o {
		*p = n
		vrt.Fold(1)
		return true
	}
	vrt.Fold(0)
	return false
}
func CompareAndSwapInt32(p *int32, o, n int32) bool {
	rmw(unsafe.Pointer(p), "acas")
	if *p == o {
		*p = n
		vrt.Fold(1)
		return true
	}
	vrt.Fold(0)
	return false
}

type Bool struct{ v uint32 }

func (b *Bool) Load() bool { return LoadUint32(&b.v) != 0 }
func (b *Bool) Store(x bool) {
	if x {
		StoreUint32(&b.v, 1)
	} else {
		StoreUint32(&b.v, 0)
	}
}

type Uint32 struct{ v uint32 }

func (u *Uint32) Load() uint32        { return LoadUint32(&u.v) }
func (u *Uint32) Store(x uint32)      { StoreUint32(&u.v, x) }
func (u *Uint32) Add(d uint32) uint32 { return AddUint32(&u.v, d) }

type Uint64 struct{ v uint64 }

func (u *Uint64) Load() uint64        { return LoadUint64(&u.v) }
func (u *Uint64) Store(x uint64)      { StoreUint64(&u.v, x) }
func (u *Uint64) Add(d uint64) uint64 { return AddUint64(&u.v, d) }

type Int32 struct{ v int32 }

func (u *Int32) Load() int32       { return LoadInt32(&u.v) }
func (u *Int32) Store(x int32)     { StoreInt32(&u.v, x) }
func (u *Int32) Add(d int32) int32 { return AddInt32(&u.v, d) }

type Int64 struct{ v int64 }

func (u *Int64) Load() int64       { return LoadInt64(&u.v) }
func (u *Int64) Store(x int64)     { StoreInt64(&u.v, x) }
func (u *Int64) Add(d int64) int64 { return AddInt64(&u.v, d) }

// Pointer is the generic atomic pointer.
type Pointer[T any] struct {
	p  *T
	id uint64
}

func (x *Pointer[T]) step(kind string) {
	rmwObj(&x.id, kind)
}
func (x *Pointer[T]) Load() *T           { x.step("aload"); return x.p }
func (x *Pointer[T]) Store(v *T)         { x.step("astore"); x.p = v }
func (x *Pointer[T]) Swap(v *T) (old *T) { x.step("aswap"); old, x.p = x.p, v; return old }
func (x *Pointer[T]) CompareAndSwap(old, new *T) bool {
	x.step("acas")
	if x.p == old {
		x.p = new
		vrt.Fold(1)
		return true
	}
	vrt.Fold(0)
	return false
}

func rmwObj(id *uint64, kind string) {
	if !vrt.Active() {
		return
	}
	if *id == 0 {
		*id = vrt.NewObj()
	}
	vrt.Yield(vrt.Op{Kind: kind, Obj: *id})
	vrt.RaceAcquire(*id)
	vrt.RaceReleaseMerge(*id)
}

type Uintptr struct{ v uint64 }

func (u *Uintptr) Load() uintptr   { return uintptr(LoadUint64(&u.v)) }
func (u *Uintptr) Store(x uintptr) { StoreUint64(&u.v, uint64(x)) }

func SwapUint32(p *uint32, n uint32) uint32 {
	rmw(unsafe.Pointer(p), "aswap")
	o := *p
	*p = n
	return o
}
func SwapUint64(p *uint64, n uint64) uint64 {
	rmw(unsafe.Pointer(p), "aswap")
	o := *p
	*p = n
	return o
}
func SwapInt32(p *int32, n int32) int32 { rmw(unsafe.Pointer(p), "aswap"); o := *p; *p = n; return o }
func SwapInt64(p *int64, n int64) int64 { rmw(unsafe.Pointer(p), "aswap"); o := *p; *p = n; return o }
func CompareAndSwapUint64(p *uint64, o, n uint64) bool {
	rmw(unsafe.Pointer(p), "acas")
	if *p == o {
		*p = n
		vrt.Fold(1)
		return true
	}
	vrt.Fold(0)
	return false
}
func CompareAndSwapInt64(p *int64, o, n int64) bool {
	rmw(unsafe.Pointer(p), "acas")
	if *p == o {
		*p = n
		vrt.Fold(1)
		return true
	}
	vrt.Fold(0)
	return false
}
func (b *Bool) Swap(x bool) bool {
	n := uint32(0)
	if x {
		n = 1
	}
	return SwapUint32(&b.v, n) != 0
}
func (b *Bool) CompareAndSwap(o, n bool) bool {
	ou, nu := uint32(0), uint32(0)
	if o {
		ou = 1
	}
	if n {
		nu = 1
	}
	return CompareAndSwapUint32(&b.v, ou, nu)
}
func (u *Uint32) Swap(x uint32) uint32            { return SwapUint32(&u.v, x) }
func (u *Uint32) CompareAndSwap(o, n uint32) bool { return CompareAndSwapUint32(&u.v, o, n) }
func (u *Uint64) Swap(x uint64) uint64            { return SwapUint64(&u.v, x) }
func (u *Uint64) CompareAndSwap(o, n uint64) bool { return CompareAndSwapUint64(&u.v, o, n) }
func (u *Int32) Swap(x int32) int32               { return SwapInt32(&u.v, x) }
func (u *Int32) CompareAndSwap(o, n int32) bool   { return CompareAndSwapInt32(&u.v, o, n) }
func (u *Int64) Swap(x int64) int64               { return SwapInt64(&u.v, x) }
func (u *Int64) CompareAndSwap(o, n int64) bool   { return CompareAndSwapInt64(&u.v, o, n) }
