module verifrt

go 1.23

require verif v0.0.0

replace verif => ../..
