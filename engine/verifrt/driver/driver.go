// Package driver connects E2 scenarios (instrumented code run under the vrt
// scheduler) to the reporting layer: determinism self-check, iterative
// deviation bounding, sharding over worker processes, replay of violations,
// evidence. It runs natively (it is not instrumented).
package driver

import (
	"encoding/binary"
	"encoding/json"
	"fmt"
	"io"
	"log"
	"os"
	"os/exec"
	"path/filepath"
	"sort"
	"strings"
	"sync"
	"time"

	"verif/engine/evid"
	"verifrt/vrt"
)

// Scenario is one closed system to explore.
type Scenario struct {
	Name   string // unique within the property, includes its parameters
	Params any    // recorded in samples and replay artefacts
	Cfg    vrt.Config
	Body   func()
	// Check judges one finished execution (natively, after it ended). outcome
	// labels the observable result; sig != "" reports a violation.
	Check func(x *vrt.Exec) (outcome, sig, detail string)
	// Bound is the deviation bound explored completely (0, then 1, ... up to Bound).
	Bound int
	// MaxExec caps the executions per bound level and worker (0 = no cap).
	MaxExec int
	// NeedsConflict makes a run vacuous (ENGINE-ERROR) if no execution had two
	// threads touching the same synchronisation object inside the window.
	NeedsConflict bool
	// Sequential scenarios explore no alternatives (a single default execution each);
	// they are grid points of an input/fault enumeration run under the controlled environment.
	Sequential bool
	// Extra, if set, is called after the scenario finished and returns further
	// cases the scenario enumerated inside its executions (count and identities).
	Extra func() (cases int64, keys []uint64)
	// RaceOnly scenarios (C36) are judged by the Go race detector alone: the verdict of Check is
	// ignored (it belongs to another property), a race report during the execution is the violation.
	RaceOnly bool
}

type replay struct {
	Scenario string `json:"scenario"`
	Choices  []int  `json:"choices"`
	Params   any    `json:"params,omitempty"`
}

type workerJob struct {
	Seq      []int      `json:"seq,omitempty"` // sequential scenarios to run once each (indices); else an exploration job
	Scenario int        `json:"scenario"`
	Bound    int        `json:"bound"`
	Items    []vrt.Item `json:"items"`
	Deadline int64      `json:"deadline_unix"`
	MaxExec  int        `json:"max_exec"`
}

type workerOut struct {
	Res vrt.Result     `json:"res"`
	Seq map[int]seqOut `json:"seq,omitempty"`
}

type seqOut struct {
	Res    vrt.Result `json:"res"`
	ExtraN int64      `json:"extra_n"`
	Keys   []uint64   `json:"keys"`
}

func runSequential(sc *Scenario) seqOut {
	e := explorerFor(sc, 0)
	e.NoPrune = true
	e.RunItem(vrt.Item{}) // the default schedule only
	o := seqOut{Res: e.Res}
	if sc.Extra != nil {
		o.ExtraN, o.Keys = sc.Extra()
	}
	return o
}

// DefaultCheck turns scheduler-level failures into verdicts: a panic or deadlock
// of the code under test is reported under a signature built from the failure
// kind and the top frame inside the repository.
func DefaultFail(x *vrt.Exec) (outcome, sig, detail string, failed bool) {
	if x.Fail == nil {
		return "", "", "", false
	}
	switch x.Fail.Kind {
	case "panic":
		return "panic", "panic/" + TopRepoFrame(x.Fail.Msg), x.Fail.Msg, true
	case "deadlock":
		return "deadlock", "deadlock/" + blockedSummary(x.Fail.Msg), x.Fail.Msg, true
	case "steps":
		return "step-limit", "", "", true
	}
	return x.Fail.Kind, "engine/" + x.Fail.Kind, x.Fail.Msg, true
}

// TopRepoFrame extracts the first function of the repository from a Go stack dump.
func TopRepoFrame(stack string) string {
	for _, l := range strings.Split(stack, "\n") {
		l = strings.TrimSpace(l)
		if strings.HasPrefix(l, "github.com/gopcua/opcua") {
			if i := strings.LastIndex(l, "("); i > 0 {
				l = l[:i]
			}
			return strings.TrimPrefix(l, "github.com/gopcua/opcua")
		}
	}
	return "unknown"
}

func blockedSummary(msg string) string {
	// "  t3 blocked on condwait 0123 at secure_channel.go:97" -> kinds only, sorted, main first
	var kinds []string
	for _, l := range strings.Split(msg, "\n") {
		f := strings.Fields(l)
		if len(f) >= 4 && f[1] == "blocked" {
			if f[0] == "main" {
				kinds = append(kinds, "main:"+f[3])
			}
		}
	}
	sort.Strings(kinds)
	return strings.Join(kinds, ",")
}

func scratch() string {
	d := os.Getenv("VERIF_E2_WORK")
	if d == "" {
		d = evid.Scratch()
	}
	return d
}

// Main is the entry point of a scenario binary.
func Main(registry func(property string, thorough bool) []Scenario) {
	log.SetOutput(io.Discard)
	if len(os.Args) < 2 {
		fmt.Println("usage: <binary> <property>")
		os.Exit(2)
	}
	prop := os.Args[1]
	scs := registry(prop, evid.Thorough())
	if only := os.Getenv("VERIF_ONLY"); only != "" { // debugging aid: only the scenarios whose name contains this
		var keep []Scenario
		for _, s := range scs {
			if strings.Contains(s.Name, only) {
				keep = append(keep, s)
			}
		}
		scs = keep
	}
	if len(scs) == 0 {
		evid.EngineError(prop, "no scenario registered")
	}
	if jf := os.Getenv("VERIF_E2_JOB"); jf != "" {
		worker(prop, scs, jf)
		return
	}
	var rp replay
	if evid.ReplayInput(&rp) {
		doReplay(prop, scs, rp)
		return
	}
	parent(prop, scs)
}

func explorerFor(sc *Scenario, bound int) *vrt.Explorer {
	return &vrt.Explorer{Cfg: sc.Cfg, Body: sc.Body, Bound: bound, Check: func(x *vrt.Exec) (string, string, string) {
		return judge(sc, x)
	}}
}

var (
	raceSeen      int
	raceOffset    int64
	internalRaces int
)

// judge applies the scenario's oracle and, in a -race build, the race detector's verdict on this execution.
func judge(sc *Scenario, x *vrt.Exec) (string, string, string) {
	out, sig, detail := sc.Check(x)
	if sc.RaceOnly {
		sig, detail = "", ""
		if x.Fail != nil && x.Fail.Kind == "engine" {
			return out, "engine/" + x.Fail.Msg, x.Fail.Msg
		}
	}
	if !vrt.RaceEnabled {
		return out, sig, detail
	}
	if n := vrt.RaceErrors(); n > raceSeen {
		raceSeen = n
		// one execution may produce several reports: judge each, the first repository race is the verdict
		for _, rep := range splitReports(newRaceReports()) {
			rsig := RaceSignature(rep)
			if strings.HasPrefix(rsig, "internal/") {
				internalRaces++
				continue
			}
			if sig == "" || sc.RaceOnly {
				return "race", "race/" + rsig, rep
			}
		}
	}
	return out, sig, detail
}

func splitReports(all string) []string {
	var out []string
	for _, part := range strings.Split(all, "WARNING: DATA RACE") {
		if strings.Contains(part, " at 0x") {
			out = append(out, "WARNING: DATA RACE"+part)
		}
	}
	return out
}

func newRaceReports() string {
	p := os.Getenv("VERIF_RACE_LOG")
	if p == "" {
		return "(race report on stderr; VERIF_RACE_LOG not set)"
	}
	f, err := os.Open(fmt.Sprintf("%s.%d", p, os.Getpid()))
	if err != nil {
		return "(race report not found: " + err.Error() + ")"
	}
	defer f.Close()
	f.Seek(raceOffset, 0)
	b, _ := io.ReadAll(f)
	raceOffset += int64(len(b))
	return string(b)
}

// RaceSignature names a race by the access site of each of the two conflicting accesses: the first
// frame below the runtime and standard-library helpers. Only a race between two sites inside the
// repository is a verdict; reports whose sites lie in the scheduler/shims (their state is protected by
// the baton, which is deliberately invisible to the detector) or in scenario code are internal.
func RaceSignature(report string) string {
	var sites []string
	want := false
	for _, l := range strings.Split(report, "\n") {
		t := strings.TrimSpace(l)
		low := strings.ToLower(t)
		if strings.Contains(low, " at 0x") && strings.Contains(low, " by ") && (strings.HasPrefix(low, "read") || strings.HasPrefix(low, "write") || strings.HasPrefix(low, "previous") || strings.HasPrefix(low, "atomic")) {
			want = true
			continue
		}
		if strings.HasPrefix(t, "==================") && len(sites) >= 2 {
			break
		}
		if !want || t == "" || strings.HasPrefix(t, "/") {
			continue
		}
		if strings.HasPrefix(t, "runtime.") || strings.HasPrefix(t, "internal/") || strings.HasPrefix(t, "sort.") || strings.HasPrefix(t, "slices.") || strings.HasPrefix(t, "sync/atomic.") || strings.HasPrefix(t, "reflect.") {
			continue
		}
		if i := strings.LastIndex(t, "("); i > 0 {
			t = t[:i]
		}
		sites = append(sites, t)
		want = false
	}
	if len(sites) < 2 {
		return "internal/unattributed"
	}
	sites = sites[:2]
	for _, st := range sites {
		if !strings.HasPrefix(st, "github.com/gopcua/opcua") {
			return "internal/" + sites[0] + "|" + sites[1]
		}
	}
	for i := range sites {
		sites[i] = strings.TrimPrefix(sites[i], "github.com/gopcua/opcua")
	}
	sort.Strings(sites)
	return strings.Join(sites, "|")
}

func worker(prop string, scs []Scenario, jobFile string) {
	b, err := os.ReadFile(jobFile)
	if err != nil {
		evid.EngineError(prop, "worker: %v", err)
	}
	var job workerJob
	if err := json.Unmarshal(b, &job); err != nil {
		evid.EngineError(prop, "worker: %v", err)
	}
	if len(job.Seq) > 0 {
		out := workerOut{Seq: map[int]seqOut{}}
		for _, idx := range job.Seq {
			if job.Deadline > 0 && time.Now().After(time.Unix(job.Deadline, 0)) {
				break
			}
			out.Seq[idx] = runSequential(&scs[idx])
		}
		ob, _ := json.Marshal(out)
		if err := os.WriteFile(jobFile+".out", ob, 0o644); err != nil {
			evid.EngineError(prop, "worker: %v", err)
		}
		os.Exit(0)
	}
	sc := &scs[job.Scenario]
	e := explorerFor(sc, job.Bound)
	e.MaxExec = job.MaxExec
	if job.Deadline > 0 {
		e.Deadline = time.Unix(job.Deadline, 0)
	}
	e.DFS(job.Items)
	out, _ := json.Marshal(workerOut{Res: e.Res})
	if err := os.WriteFile(jobFile+".out", out, 0o644); err != nil {
		evid.EngineError(prop, "worker: %v", err)
	}
	// fingerprints for the distinct-state count
	vis := e.Visited()
	fp := make([]byte, 0, 8*len(vis))
	for _, k := range vis {
		fp = binary.LittleEndian.AppendUint64(fp, k)
	}
	os.WriteFile(jobFile+".fp", fp, 0o644)
	os.Exit(0)
}

func doReplay(prop string, scs []Scenario, rp replay) {
	for i := range scs {
		sc := &scs[i]
		if sc.Name != rp.Scenario {
			continue
		}
		cfg := sc.Cfg
		cfg.KeepTrace = true
		x := vrt.Run(rp.Choices, cfg, sc.Body)
		out, sig, detail := judge(sc, x)
		n := len(x.Trace)
		from := 0
		if n > 400 && os.Getenv("VERIF_FULL_TRACE") == "" {
			from = n - 400
			fmt.Printf("… %d earlier steps omitted (VERIF_FULL_TRACE=1 prints all)\n", from)
		}
		for _, l := range x.Trace[from:] {
			fmt.Println(l)
		}
		fmt.Printf("replay scenario=%s steps=%d points=%d outcome=%q\n", sc.Name, x.Steps, len(x.Points), out)
		if sig != "" {
			fmt.Printf("still violates: %s\n%s\n", sig, detail)
			os.Exit(1)
		}
		fmt.Println("no violation on this tree")
		os.Exit(0)
	}
	evid.EngineError(prop, "replay: scenario %q not registered", rp.Scenario)
}

func deadline() time.Time {
	// internal deadline: the run ends with exit 0 and exhaustive:false when it is reached
	secs := 100
	if evid.Thorough() {
		secs = 780
	}
	if s := os.Getenv("VERIF_BUDGET_S"); s != "" {
		fmt.Sscan(s, &secs)
	}
	return time.Now().Add(time.Duration(secs) * time.Second)
}

func parent(prop string, scs []Scenario) {
	r := evid.New(prop)
	dl := deadline()
	allFP := map[uint64]struct{}{}
	var totalConflicting, totalPruned, totalCut, maxThreads, maxPoints int
	var steps int64
	boundDone := map[string]int{}
	outcomesPer := map[string]map[string]int{}
	type sigHit struct {
		sc    *Scenario
		found vrt.Found
	}
	hits := map[string]sigHit{}
	hitCount := map[string]int{}
	var nSeqSamples int
	var innerCases, seqExecs int64
	seqExtraN := map[int]int64{}
	seqExtraKeys := map[int][]uint64{}
	seqSkipped := false
	_ = seqSkipped

	// sequential scenarios (grid points run once under the default schedule) are farmed out to the workers
	seqDone := map[int]seqOut{}
	var seqIdx []int
	for si := range scs {
		if scs[si].Sequential {
			seqIdx = append(seqIdx, si)
		}
	}
	if len(seqIdx) > 3 {
		var err error
		// the grid points get at most half of the budget when there are explored scenarios as well
		seqDl := dl
		if len(seqIdx) < len(scs) {
			seqDl = time.Now().Add(time.Until(dl) / 2)
		}
		seqDone, err = runSeqWorkers(prop, seqIdx, evid.Workers(), seqDl)
		if err != nil {
			evid.EngineError(prop, "%v", err)
		}
	}

	for si := range scs {
		sc := &scs[si]
		if time.Now().After(dl) {
			r.Capped(fmt.Sprintf("internal deadline before scenario %s", sc.Name))
			break
		}
		// determinism self-check: the default schedule twice, identical operation traces
		cfg := sc.Cfg
		cfg.KeepTrace = true
		if !sc.Sequential || si == 0 {
			a := vrt.Run(nil, cfg, sc.Body)
			b := vrt.Run(nil, cfg, sc.Body)
			if d := diffTrace(a.Trace, b.Trace); d != "" {
				evid.EngineError(prop, "nondeterminism in scenario %s: %s", sc.Name, d)
			}
			if a.Fail != nil && a.Fail.Kind == "engine" {
				evid.EngineError(prop, "scenario %s: %s", sc.Name, a.Fail.Msg)
			}
		}
		merged := vrt.Result{Outcomes: map[string]int{}}
		bounds := []int{0}
		if !sc.Sequential {
			bounds = bounds[:0]
			for b := 0; b <= sc.Bound; b++ {
				bounds = append(bounds, b)
			}
		}
		completed := -1
		for _, bound := range bounds {
			if time.Now().After(dl) {
				r.Capped(fmt.Sprintf("internal deadline: scenario %s completed bound %d of %d", sc.Name, completed, sc.Bound))
				break
			}
			e := explorerFor(sc, bound)
			e.Deadline = dl
			e.MaxExec = sc.MaxExec
			nw := evid.Workers()
			var frontier []vrt.Item
			var extraN int64
			var extraKeys []uint64
			if sc.Sequential {
				so, ok := seqDone[si]
				if !ok {
					if len(seqIdx) > 3 {
						r.Capped(fmt.Sprintf("internal deadline before scenario %s", sc.Name))
						seqSkipped = true
						break
					}
					so = runSequential(sc)
				}
				e.Res = so.Res
				if e.Res.Outcomes == nil {
					e.Res.Outcomes = map[string]int{}
				}
				extraN, extraKeys = so.ExtraN, so.Keys
				seqExtraN[si], seqExtraKeys[si] = extraN, extraKeys
			} else {
				frontier = e.Frontier(nw * 8)
			}
			res := e.Res
			for _, k := range e.Visited() {
				allFP[k] = struct{}{}
			}
			if len(frontier) > 0 && res.EngineErr == "" {
				wr, err := runWorkers(prop, si, bound, frontier, nw, dl, sc.MaxExec, allFP)
				if err != nil {
					evid.EngineError(prop, "scenario %s: %v", sc.Name, err)
				}
				mergeRes(&res, wr)
			}
			if res.EngineErr != "" {
				evid.EngineError(prop, "scenario %s: %s", sc.Name, res.EngineErr)
			}
			// lower bounds are re-explored by higher ones: keep only the deepest level's counts
			merged = res
			if res.Capped != "" {
				r.Capped(fmt.Sprintf("scenario %s bound %d: %s after %d executions", sc.Name, bound, res.Capped, res.Executions))
				break
			}
			completed = bound
		}
		boundDone[sc.Name] = completed
		if sc.Sequential {
			seqExecs += int64(merged.Executions)
		}
		r.EvalN(int64(merged.Executions))
		if sc.Extra != nil {
			n, keys := seqExtraN[si], seqExtraKeys[si]
			if !sc.Sequential {
				n, keys = sc.Extra()
			}
			r.EvalN(n)
			for _, k := range keys {
				r.DistinctHash(k)
			}
			innerCases += n
		}
		steps += int64(merged.Steps)
		totalConflicting += merged.Conflicting
		totalPruned += merged.Pruned
		totalCut += merged.Cut
		if merged.MaxThreads > maxThreads {
			maxThreads = merged.MaxThreads
		}
		if merged.MaxPoints > maxPoints {
			maxPoints = merged.MaxPoints
		}
		outcomesPer[sc.Name] = merged.Outcomes
		for o := range merged.Outcomes {
			r.Outcome(o)
		}
		// distinct and non-trivial cases of this scenario (never more than its evaluations): every execution
		// that ran to completion did so on a schedule that reached no already expanded state, i.e. it is a
		// Mazurkiewicz trace not seen before; for explored scenarios only those in which two threads touched
		// the same synchronisation object inside the window count. A sequential grid point counts once.
		nd := merged.JudgedConfl
		if sc.Sequential {
			nd = merged.Judged
		}
		for i := 0; i < nd; i++ {
			r.DistinctHash(evid.H(fmt.Sprintf("trace|%s|%d", sc.Name, i)))
		}
		if !sc.Sequential || nSeqSamples < 6 {
			nSeqSamples++
			r.Sample(map[string]any{"scenario": sc.Name, "params": sc.Params, "executions": merged.Executions, "bound_completed": completed,
				"outcomes": merged.Outcomes, "max_choice_points": merged.MaxPoints, "threads": merged.MaxThreads})
		}
		if sc.NeedsConflict && merged.Conflicting == 0 && merged.Judged > 0 && merged.Capped == "" {
			evid.EngineError(prop, "vacuous scenario %s: no execution had two threads touching the same object inside the window", sc.Name)
		}
		for _, f := range merged.Failures {
			key := f.Sig
			hitCount[key]++
			if old, ok := hits[key]; !ok || len(f.Choices) < len(old.found.Choices) || f.Cost < old.found.Cost {
				hits[key] = sigHit{sc, f}
			}
		}
	}

	// every violation is re-run 5x from its choice sequence before it is believed
	var sigs []string
	for s := range hits {
		sigs = append(sigs, s)
	}
	sort.Strings(sigs)
	for _, s := range sigs {
		h := hits[s]
		for i := 0; i < 5; i++ {
			if strings.HasPrefix(s, "race/") {
				break // the race detector reports a given race once per process; the artefact replays in a fresh process
			}
			x := vrt.Run(h.found.Choices, h.sc.Cfg, h.sc.Body)
			_, sig, _ := judge(h.sc, x)
			if sig != s {
				evid.EngineError(prop, "violation %q of scenario %s does not replay deterministically (run %d gave %q)", s, h.sc.Name, i, sig)
			}
		}
		r.Violate(s, fmt.Sprintf("scenario %s, deviations=%d, outcome=%s\n%s", h.sc.Name, h.found.Cost, h.found.Outcome, h.found.Detail),
			replay{Scenario: h.sc.Name, Choices: trimZeros(h.found.Choices), Params: h.sc.Params})
		for i := 1; i < hitCount[s]; i++ {
			r.Violate(s, "", nil)
		}
	}
	// states: distinct happens-before fingerprints expanded, plus one end state per execution of the
	// enumerated (sequential) grid points and per case enumerated inside them
	r.AddStates(int64(len(allFP))+seqExecs+innerCases+1, steps+1)
	r.AddTraces(r.Evaluations())
	r.Rule("cases = executions of the real (instrumented) implementation under the controlled scheduler, one per explored choice sequence (evaluations include executions cut short at an already expanded state); distinct_nontrivial = executions that ran to completion, each a happens-before-distinct trace, in which at least two threads touched the same synchronisation object inside the exploration window (for sequential grid scenarios: one per grid point, plus the cases a scenario enumerates inside one execution); states = distinct happens-before fingerprints expanded; transitions = scheduling steps executed")
	r.Set("scheduling_steps", steps)
	r.Set("cases_enumerated_inside_executions", innerCases)
	r.Set("pruned_by_fingerprint", totalPruned)
	r.Set("executions_cut_at_known_state", totalCut)
	r.Set("executions_with_conflicting_threads", totalConflicting)
	r.Set("max_threads", maxThreads)
	r.Set("max_choice_points_per_execution", maxPoints)
	r.Set("deviation_bound_completed", boundDone)
	r.Set("outcomes_per_scenario", outcomesPer)
	r.Set("race_detector", vrt.RaceEnabled)
	r.Set("race_reports_internal_to_scheduler_or_scenario", internalRaces)
	r.Finish()
}

func trimZeros(c []int) []int {
	n := len(c)
	for n > 0 && c[n-1] == 0 {
		n--
	}
	return c[:n]
}

func mergeRes(dst *vrt.Result, src vrt.Result) {
	dst.Executions += src.Executions
	dst.Pruned += src.Pruned
	dst.Cut += src.Cut
	dst.Judged += src.Judged
	dst.JudgedConfl += src.JudgedConfl
	dst.Steps += src.Steps
	dst.Conflicting += src.Conflicting
	if src.MaxPoints > dst.MaxPoints {
		dst.MaxPoints = src.MaxPoints
	}
	if src.MaxThreads > dst.MaxThreads {
		dst.MaxThreads = src.MaxThreads
	}
	dst.Failures = append(dst.Failures, src.Failures...)
	for k, v := range src.Outcomes {
		dst.Outcomes[k] += v
	}
	if src.Capped != "" {
		dst.Capped = src.Capped
	}
	if src.EngineErr != "" {
		dst.EngineErr = src.EngineErr
	}
}

func runWorkers(prop string, scIdx, bound int, items []vrt.Item, nw int, dl time.Time, maxExec int, allFP map[uint64]struct{}) (vrt.Result, error) {
	total := vrt.Result{Outcomes: map[string]int{}}
	dir, err := os.MkdirTemp(scratch(), "e2job-")
	if err != nil {
		return total, err
	}
	defer os.RemoveAll(dir)
	if nw > len(items) {
		nw = len(items)
	}
	shares := make([][]vrt.Item, nw)
	for i, it := range items {
		shares[i%nw] = append(shares[i%nw], it)
	}
	var wg sync.WaitGroup
	var mu sync.Mutex
	var firstErr error
	for w := 0; w < nw; w++ {
		wg.Add(1)
		go func(w int) {
			defer wg.Done()
			jf := filepath.Join(dir, fmt.Sprintf("job-%d.json", w))
			jb, _ := json.Marshal(workerJob{Scenario: scIdx, Bound: bound, Items: shares[w], Deadline: dl.Unix(), MaxExec: maxExec})
			os.WriteFile(jf, jb, 0o644)
			cmd := exec.Command(os.Args[0], os.Args[1:]...)
			cmd.Env = append(os.Environ(), "VERIF_E2_JOB="+jf, "GOMAXPROCS=1")
			var stderr strings.Builder
			cmd.Stderr = &stderr
			cmd.Stdout = &stderr
			runErr := cmd.Run()
			mu.Lock()
			defer mu.Unlock()
			ob, rerr := os.ReadFile(jf + ".out")
			if runErr != nil || rerr != nil {
				if firstErr == nil {
					tail := stderr.String()
					if len(tail) > 3000 {
						tail = tail[len(tail)-3000:]
					}
					firstErr = fmt.Errorf("worker %d failed: %v %v\n%s", w, runErr, rerr, tail)
				}
				return
			}
			var wo workerOut
			if err := json.Unmarshal(ob, &wo); err != nil {
				firstErr = err
				return
			}
			mergeRes(&total, wo.Res)
			if fb, err := os.ReadFile(jf + ".fp"); err == nil {
				for i := 0; i+8 <= len(fb); i += 8 {
					allFP[binary.LittleEndian.Uint64(fb[i:])] = struct{}{}
				}
			}
		}(w)
	}
	wg.Wait()
	return total, firstErr
}

func runSeqWorkers(prop string, idx []int, nw int, dl time.Time) (map[int]seqOut, error) {
	all := map[int]seqOut{}
	dir, err := os.MkdirTemp(scratch(), "e2seq-")
	if err != nil {
		return all, err
	}
	defer os.RemoveAll(dir)
	if nw > len(idx) {
		nw = len(idx)
	}
	shares := make([][]int, nw)
	for i, x := range idx {
		shares[i%nw] = append(shares[i%nw], x)
	}
	var wg sync.WaitGroup
	var mu sync.Mutex
	var firstErr error
	for w := 0; w < nw; w++ {
		wg.Add(1)
		go func(w int) {
			defer wg.Done()
			jf := filepath.Join(dir, fmt.Sprintf("seq-%d.json", w))
			jb, _ := json.Marshal(workerJob{Seq: shares[w], Deadline: dl.Unix()})
			os.WriteFile(jf, jb, 0o644)
			cmd := exec.Command(os.Args[0], os.Args[1:]...)
			cmd.Env = append(os.Environ(), "VERIF_E2_JOB="+jf, "GOMAXPROCS=1")
			var stderr strings.Builder
			cmd.Stderr = &stderr
			cmd.Stdout = &stderr
			runErr := cmd.Run()
			mu.Lock()
			defer mu.Unlock()
			ob, rerr := os.ReadFile(jf + ".out")
			if runErr != nil || rerr != nil {
				if firstErr == nil {
					tail := stderr.String()
					if len(tail) > 3000 {
						tail = tail[len(tail)-3000:]
					}
					firstErr = fmt.Errorf("sequential worker %d failed: %v %v\n%s", w, runErr, rerr, tail)
				}
				return
			}
			var wo workerOut
			if err := json.Unmarshal(ob, &wo); err != nil {
				firstErr = err
				return
			}
			for k, v := range wo.Seq {
				all[k] = v
			}
		}(w)
	}
	wg.Wait()
	return all, firstErr
}

func diffTrace(a, b []string) string {
	n := len(a)
	if len(b) < n {
		n = len(b)
	}
	for i := 0; i < n; i++ {
		if a[i] != b[i] {
			return fmt.Sprintf("step %d differs:\n  run1: %s\n  run2: %s", i, a[i], b[i])
		}
	}
	if len(a) != len(b) {
		return fmt.Sprintf("trace lengths differ: %d vs %d", len(a), len(b))
	}
	return ""
}
