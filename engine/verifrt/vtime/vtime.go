// Package vtime replaces package time in the instrumented copy: a virtual clock
// and timers that are environment events of the scheduler.
package vtime

import (
	"time"

	"verifrt/vrt"
)

type (
	Time     = time.Time
	Duration = time.Duration
	Month    = time.Month
	Weekday  = time.Weekday
	Location = time.Location
)

const (
	Nanosecond  = time.Nanosecond
	Microsecond = time.Microsecond
	Millisecond = time.Millisecond
	Second      = time.Second
	Minute      = time.Minute
	Hour        = time.Hour
	RFC3339     = time.RFC3339
	RFC3339Nano = time.RFC3339Nano
	RFC1123     = time.RFC1123

	January   = time.January
	February  = time.February
	March     = time.March
	April     = time.April
	May       = time.May
	June      = time.June
	July      = time.July
	August    = time.August
	September = time.September
	October   = time.October
	November  = time.November
	December  = time.December
)

var (
	UTC   = time.UTC
	Local = time.Local
)

// Epoch is the virtual time origin.
var Epoch = time.Date(2024, 1, 1, 0, 0, 0, 0, time.UTC)

func Now() Time               { return Epoch.Add(time.Duration(vrt.Now())) }
func Since(t Time) Duration   { return Now().Sub(t) }
func Until(t Time) Duration   { return t.Sub(Now()) }
func Unix(s, ns int64) Time   { return time.Unix(s, ns) }
func UnixMilli(ms int64) Time { return time.UnixMilli(ms) }
func Date(year int, month Month, day, hour, min, sec, nsec int, loc *Location) Time {
	return time.Date(year, month, day, hour, min, sec, nsec, loc)
}
func Parse(layout, value string) (Time, error) { return time.Parse(layout, value) }
func ParseDuration(s string) (Duration, error) { return time.ParseDuration(s) }

func Sleep(d Duration) {
	if !vrt.Active() {
		return
	}
	done := false
	vrt.AddTimer(int64(d), func() { done = true })
	vrt.Yield(vrt.Op{Kind: "sleep", Obj: 0x51ee9, Enabled: func() bool { return done }})
}

func After(d Duration) *vrt.Chan[Time] { return NewTimer(d).C }

type Timer struct {
	C *vrt.Chan[Time]
	t *vrt.Timer
	f func()
}

func NewTimer(d Duration) *Timer {
	c := vrt.MakeChan[Time](1)
	tm := &Timer{C: c}
	if vrt.Active() {
		tm.t = vrt.AddTimer(int64(d), func() { c.TrySend(Now()) })
	}
	return tm
}

// AfterFunc runs f in its own logical thread when the timer fires.
func AfterFunc(d Duration, f func()) *Timer {
	tm := &Timer{f: f}
	if vrt.Active() {
		tm.t = vrt.AddTimer(int64(d), func() { vrt.SpawnFromEnv(f) })
	}
	return tm
}

// Stop follows go1.23 semantics: after Stop returns no stale value is received.
func (t *Timer) Stop() bool {
	if t.t == nil {
		return false
	}
	vrt.Yield(vrt.Op{Kind: "timer-stop", Obj: 0x71a})
	was := t.t.Stop()
	if t.C != nil {
		t.C.Drain()
	}
	vrt.Fold(b2u(was))
	return was
}

func (t *Timer) Reset(d Duration) bool {
	if !vrt.Active() {
		return false
	}
	vrt.Yield(vrt.Op{Kind: "timer-reset", Obj: 0x71a})
	was := false
	if t.t != nil {
		was = t.t.Stop()
	}
	if t.C != nil {
		t.C.Drain()
		c := t.C
		t.t = vrt.AddTimer(int64(d), func() { c.TrySend(Now()) })
	} else {
		f := t.f
		t.t = vrt.AddTimer(int64(d), func() { vrt.SpawnFromEnv(f) })
	}
	vrt.Fold(b2u(was))
	return was
}

func b2u(b bool) uint64 {
	if b {
		return 1
	}
	return 0
}

type Ticker struct {
	C    *vrt.Chan[Time]
	d    Duration
	stop bool
	t    *vrt.Timer
}

func NewTicker(d Duration) *Ticker {
	if d <= 0 {
		panic("non-positive interval for NewTicker")
	}
	t := &Ticker{C: vrt.MakeChan[Time](1), d: d}
	if vrt.Active() {
		t.arm()
	}
	return t
}
func (t *Ticker) arm() {
	t.t = vrt.AddTimer(int64(t.d), func() {
		if t.stop {
			return
		}
		t.C.TrySend(Now())
		t.arm()
	})
}
func (t *Ticker) Stop() {
	if vrt.Active() {
		vrt.Yield(vrt.Op{Kind: "timer-stop", Obj: 0x71a})
	}
	t.stop = true
	if t.t != nil {
		t.t.Stop()
	}
}
func (t *Ticker) Reset(d Duration) {
	if d <= 0 {
		panic("non-positive interval for Ticker.Reset")
	}
	if vrt.Active() {
		vrt.Yield(vrt.Op{Kind: "timer-reset", Obj: 0x71a})
	}
	if t.t != nil {
		t.t.Stop()
	}
	t.d = d
	t.stop = false
	t.arm()
}

// Tick as in package time.
func Tick(d Duration) *vrt.Chan[Time] {
	if d <= 0 {
		return nil
	}
	return NewTicker(d).C
}
