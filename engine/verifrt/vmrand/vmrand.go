// Package vmrand replaces math/rand in the instrumented copy: deterministic values.
package vmrand

import (
	"math/rand"

	"verifrt/vrt"
)

func init() { vrt.RegisterReset(Reset) }

type Rand = rand.Rand
type Source = rand.Source

func New(s Source) *Rand          { return rand.New(s) }
func NewSource(seed int64) Source { return rand.NewSource(1) }

var ctr int32

// Reset is called by the scenario driver at the start of each execution.
func Reset()               { ctr = 0 }
func Int31() int32         { ctr++; return 1000 + ctr }
func Int31n(n int32) int32 { return 0 }
func Intn(n int) int       { return 0 }
func Int63() int64         { ctr++; return int64(1000 + ctr) }
func Uint32() uint32       { ctr++; return uint32(1000 + ctr) }
