//go:build race

package vrt

import (
	"runtime"
	"unsafe"
)

// Under -race the baton hand-offs must be invisible to the detector (they are
// not synchronisation of the program under test), and the shims re-create the
// program's own happens-before edges with RaceAcquire/RaceRelease on a stable
// address per object.

const RaceEnabled = true

func handoff(next *thread) {
	runtime.RaceDisable()
	next.resume <- struct{}{}
	runtime.RaceEnable()
}

func waitBaton(t *thread) {
	runtime.RaceDisable()
	<-t.resume
	runtime.RaceEnable()
}

var (
	raceIndex u64map // object id -> index+1 into raceCells
	raceCells []*[8]byte
)

func cell(obj uint64) unsafe.Pointer {
	i := raceIndex.get(obj)
	if i == 0 {
		raceCells = append(raceCells, new([8]byte))
		i = uint64(len(raceCells))
		raceIndex.set(obj, i)
	}
	return unsafe.Pointer(raceCells[i-1])
}

func RaceAcquire(obj uint64)      { runtime.RaceAcquire(cell(obj)) }
func RaceRelease(obj uint64)      { runtime.RaceRelease(cell(obj)) }
func RaceReleaseMerge(obj uint64) { runtime.RaceReleaseMerge(cell(obj)) }
func RaceErrors() int             { return runtime.RaceErrors() }

func raceSpawn(p, t *thread) {
	// go statement: everything before it happens before the new goroutine starts
	RaceRelease(t.ident)
}
func raceThreadEnd(t *thread) {}
