package vrt

import (
	"fmt"
	"iter"
	"sort"
)

// Ordered iterates a map in a deterministic order (sorted key snapshot).
func Ordered[K comparable, V any](m map[K]V) iter.Seq2[K, V] {
	return func(yield func(K, V) bool) {
		keys := make([]K, 0, len(m))
		for k := range m {
			keys = append(keys, k)
		}
		sort.Slice(keys, func(i, j int) bool { return fmt.Sprint(keys[i]) < fmt.Sprint(keys[j]) })
		for _, k := range keys {
			v, ok := m[k]
			if !ok {
				continue
			}
			if !yield(k, v) {
				return
			}
		}
	}
}
