package vrt

import (
	"sort"
	"time"
)

// Item is a node of the choice tree: the forced prefix and the deviation cost spent on it.
type Item struct {
	Prefix []int `json:"p"`
	Cost   int   `json:"c"`
}

// Found is one failing execution.
type Found struct {
	Choices []int
	Outcome string
	Sig     string
	Detail  string
	Cost    int
}

// Result accumulates what an exploration covered.
type Result struct {
	Executions  int
	Pruned      int
	Cut         int // executions stopped early at an already expanded state
	Judged      int // executions that ran to completion and were judged by the oracle
	JudgedConfl int // ... of which two threads touched the same object inside the window
	States      int
	Steps       int
	MaxPoints   int
	MaxThreads  int
	Conflicting int // executions in which >=1 object was touched by >=2 threads inside the window
	Failures    []Found
	Outcomes    map[string]int
	Capped      string
	EngineErr   string
}

// Explorer is a stateless depth-first search over choice sequences with a
// deviation bound and happens-before fingerprint pruning.
type Explorer struct {
	Cfg   Config
	Body  func()
	Check func(*Exec) (outcome, sig, detail string)
	Bound int
	// MaxExec / Deadline cap the search (reported, never silent).
	MaxExec     int
	Deadline    time.Time
	StopAtFirst bool
	NoPrune     bool

	visited u64map // fingerprint -> 1 + best remaining budget expanded (not a Go map: see u64map)
	inited  bool
	Res     Result
}

func (e *Explorer) init() {
	if !e.inited {
		e.inited = true
		e.Res.Outcomes = map[string]int{}
	}
}

// RunItem executes one node and returns its children (alternatives at later points
// that fit the bound and are not pruned).
func (e *Explorer) RunItem(it Item) []Item {
	e.init()
	cfg := e.Cfg
	if !e.NoPrune {
		remaining := e.Bound - it.Cost
		cfg.PruneAt = func(fp uint64) bool {
			best := e.visited.get(fp)
			return best > 0 && int(best)-1 >= remaining
		}
	}
	x := Run(it.Prefix, cfg, e.Body)
	e.Res.Executions++
	e.Res.Steps += x.Steps
	if len(x.Points) > e.Res.MaxPoints {
		e.Res.MaxPoints = len(x.Points)
	}
	if x.Threads() > e.Res.MaxThreads {
		e.Res.MaxThreads = x.Threads()
	}
	if x.ConflictObjects() > 0 {
		e.Res.Conflicting++
	}
	if x.Fail != nil && x.Fail.Kind == "engine" {
		e.Res.EngineErr = x.Fail.Msg
		return nil
	}
	if x.Fail != nil && x.Fail.Kind == "pruned" {
		// the execution reached a state that was already expanded with at least this budget
		e.Res.Cut++
	} else {
		out, sig, detail := e.Check(x)
		e.Res.Judged++
		if x.ConflictObjects() > 0 {
			e.Res.JudgedConfl++
		}
		e.Res.Outcomes[out]++
		if sig != "" {
			e.Res.Failures = append(e.Res.Failures, Found{Choices: x.Choices(), Outcome: out, Sig: sig, Detail: detail, Cost: it.Cost})
		}
	}
	var kids []Item
	cost := it.Cost
	for i := len(it.Prefix); i < len(x.Points); i++ {
		p := x.Points[i]
		if !p.Window || p.N < 2 {
			continue
		}
		remaining := e.Bound - cost
		if !e.NoPrune {
			if best := e.visited.get(p.FP); best > 0 && int(best)-1 >= remaining {
				e.Res.Pruned++
				// an equivalent state was already expanded with at least this budget:
				// nothing below this point is new
				break
			}
			e.visited.set(p.FP, uint64(remaining+1))
		}
		for alt := 1; alt < p.N; alt++ {
			c := cost + p.Costs[alt]
			if c > e.Bound {
				continue
			}
			np := make([]int, i+1)
			for k := 0; k < i; k++ {
				np[k] = x.Points[k].Chosen
			}
			np[i] = alt
			kids = append(kids, Item{np, c})
		}
	}
	e.Res.States = e.visited.n
	return kids
}

func (e *Explorer) capped() bool {
	if e.Res.EngineErr != "" {
		return true
	}
	if e.MaxExec > 0 && e.Res.Executions >= e.MaxExec {
		e.Res.Capped = "execution budget reached"
		return true
	}
	if !e.Deadline.IsZero() && time.Now().After(e.Deadline) {
		e.Res.Capped = "internal deadline reached"
		return true
	}
	return e.StopAtFirst && len(e.Res.Failures) > 0
}

// DFS explores the subtrees of the given roots.
func (e *Explorer) DFS(roots []Item) {
	e.init()
	stack := append([]Item(nil), roots...)
	// reverse so that the first root is explored first
	for i, j := 0, len(stack)-1; i < j; i, j = i+1, j-1 {
		stack[i], stack[j] = stack[j], stack[i]
	}
	for len(stack) > 0 {
		if e.capped() {
			return
		}
		it := stack[len(stack)-1]
		stack = stack[:len(stack)-1]
		kids := e.RunItem(it)
		stack = append(stack, kids...)
	}
}

// Frontier expands the tree breadth-first from the root until at least want
// unexpanded items exist (or the tree is exhausted); the items it returns have
// not been executed yet.
func (e *Explorer) Frontier(want int) []Item {
	e.init()
	queue := []Item{{}}
	for len(queue) > 0 && len(queue) < want {
		if e.capped() {
			break
		}
		it := queue[0]
		queue = queue[1:]
		queue = append(queue, e.RunItem(it)...)
	}
	return queue
}

// SortedOutcomes returns outcome labels ordered by name.
func (r *Result) SortedOutcomes() []string {
	var ks []string
	for k := range r.Outcomes {
		ks = append(ks, k)
	}
	sort.Strings(ks)
	return ks
}

// Visited exposes the fingerprints expanded so far.
func (e *Explorer) Visited() []uint64 {
	e.init()
	out := make([]uint64, 0, e.visited.n)
	e.visited.each(func(k, _ uint64) { out = append(out, k) })
	return out
}
